module verif/translator

go 1.14
