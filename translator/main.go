// translator — regenerates Coq files under coq/gen from the Go source of tetromino (go/ast, standard library only).
// Shapes it does not recognise are fatal errors: a failed translation is treated like a failed proof obligation.
package main

import (
	"bytes"
	"flag"
	"fmt"
	"go/ast"
	"go/parser"
	"go/token"
	"io/ioutil"
	"os"
	"path/filepath"
	"strconv"
	"strings"
)

var repo, outDir string
var failed bool

func fail(format string, a ...interface{}) {
	fmt.Fprintf(os.Stderr, "translator: "+format+"\n", a...)
	failed = true
	curFailed = true
}

// curFailed: the generator now running has reported a failure; its output file is then NOT written (the previous,
// stale file stays, so the model keeps its old behaviour and the check reports the broken tie).
var curFailed bool

func run(g func()) {
	curFailed = false
	g()
}

func writeIfChanged(name string, content string) {
	if curFailed {
		fmt.Fprintf(os.Stderr, "translator: %s NOT regenerated\n", name)
		return
	}
	p := filepath.Join(outDir, name)
	old, err := ioutil.ReadFile(p)
	if err == nil && bytes.Equal(old, []byte(content)) {
		return
	}
	if err := ioutil.WriteFile(p, []byte(content), 0644); err != nil {
		fmt.Fprintln(os.Stderr, err)
		os.Exit(2)
	}
}

func main() {
	flag.StringVar(&repo, "repo", "/repo", "repository root")
	flag.StringVar(&outDir, "out", "/verif/coq/gen", "output directory")
	flag.Parse()
	os.MkdirAll(outDir, 0755)
	run(genDispatch)
	run(genMeta)
	run(genDaa)
	run(genMapper)
	run(genFrame)
	run(genConsts)
	if failed {
		os.Exit(1)
	}
}

func parseFile(rel string) (*token.FileSet, *ast.File) {
	fset := token.NewFileSet()
	f, err := parser.ParseFile(fset, filepath.Join(repo, rel), nil, parser.ParseComments)
	if err != nil {
		fmt.Fprintln(os.Stderr, "translator:", err)
		os.Exit(1)
	}
	return fset, f
}

func exprString(e ast.Expr) string {
	switch x := e.(type) {
	case *ast.Ident:
		return x.Name
	case *ast.SelectorExpr:
		return exprString(x.X) + "." + x.Sel.Name
	case *ast.CallExpr:
		var args []string
		for _, a := range x.Args {
			args = append(args, exprString(a))
		}
		return exprString(x.Fun) + "(" + strings.Join(args, ",") + ")"
	case *ast.UnaryExpr:
		return x.Op.String() + exprString(x.X)
	case *ast.BasicLit:
		return x.Value
	case *ast.BinaryExpr:
		return exprString(x.X) + x.Op.String() + exprString(x.Y)
	case *ast.ParenExpr:
		return "(" + exprString(x.X) + ")"
	case *ast.IndexExpr:
		return exprString(x.X) + "[" + exprString(x.Index) + "]"
	case *ast.CompositeLit:
		var el []string
		for _, a := range x.Elts {
			el = append(el, exprString(a))
		}
		return "{" + strings.Join(el, ",") + "}"
	case *ast.ArrayType:
		return "[]" + exprString(x.Elt)
	case *ast.FuncType:
		return "func()"
	}
	return fmt.Sprintf("<%T>", e)
}

func intLit(e ast.Expr) (int64, bool) {
	if b, ok := e.(*ast.BasicLit); ok && b.Kind == token.INT {
		v, err := strconv.ParseInt(b.Value, 0, 64)
		return v, err == nil
	}
	return 0, false
}

// constInt evaluates a constant integer expression built from literals, parentheses and + - * / << >> (array lengths,
// loop bounds and comparison constants are sometimes written that way).
func constInt(e ast.Expr) (int64, bool) {
	switch x := e.(type) {
	case *ast.BasicLit:
		return intLit(x)
	case *ast.ParenExpr:
		return constInt(x.X)
	case *ast.BinaryExpr:
		a, ok1 := constInt(x.X)
		b, ok2 := constInt(x.Y)
		if !ok1 || !ok2 {
			return 0, false
		}
		switch x.Op {
		case token.ADD:
			return a + b, true
		case token.SUB:
			return a - b, true
		case token.MUL:
			return a * b, true
		case token.QUO:
			if b == 0 {
				return 0, false
			}
			return a / b, true
		case token.SHL:
			return a << uint(b), true
		case token.SHR:
			return a >> uint(b), true
		}
	}
	return 0, false
}
