package main

import (
	"fmt"
	"go/ast"
	"go/token"
	"strings"
)

var regName = map[string]string{
	"cpu.a": "RA", "cpu.b": "RB", "cpu.c": "RC", "cpu.d": "RD", "cpu.e": "RE", "cpu.f": "RF", "cpu.h": "RH", "cpu.l": "RL",
	"cpu.m8a": "RM8A", "cpu.m8b": "RM8B",
}

var aluName = map[string]string{"add": "ADD", "adc": "ADC", "sub": "SUB", "sbc": "SBC", "and": "AND", "xor": "XOR", "or": "OR", "cp": "CP"}
var rotName = map[string]string{"rlc": "OpRLC", "rrc": "OpRRC", "rl": "OpRL", "rr": "OpRR", "sla": "OpSLA", "sra": "OpSRA", "swap": "OpSWAP", "srl": "OpSRL"}
var pairName = map[string]string{"cpu.bc()": "BC", "cpu.de()": "DE", "cpu.hl()": "HL", "cpu.sp": "SPp"}

// core helpers modelled by hand (their bodies are under the differential correspondence, not translated)
var coreName = map[string]string{
	"readParamA": "UReadA", "readParamB": "UReadB",
	"incM": "UIncM", "decM": "UDecM",
	"incBC": "UInc16 BC", "incDE": "UInc16 DE", "incHL": "UInc16 HL", "incSP": "UInc16 SPp",
	"decBC": "UDec16 BC", "decDE": "UDec16 DE", "decHL": "UDec16 HL", "decSP": "UDec16 SPp",
	"addSP": "UAddSP", "ldHLSP": "ULdHLSP",
	"ldBCU16": "ULd16 BC", "ldDEU16": "ULd16 DE", "ldHLU16": "ULd16 HL", "ldSPU16": "ULd16 SPp", "ldSPHL": "ULdSPHL",
	"ldBCA": "UStA BC", "ldDEA": "UStA DE", "ldABC": "ULdA BC", "ldADE": "ULdA DE",
	"ldHLIA": "UStHLI", "ldHLDA": "UStHLD", "ldAHLI": "ULdHLI", "ldAHLD": "ULdHLD",
	"ldACX": "ULdACX", "ldCXA": "UStCXA", "ldAUX": "ULdAUX", "ldUXA": "UStUXA", "ldAUX16": "ULdAUX16", "ldUX16A": "UStUX16A",
	"writeLowSP": "UWriteLowSP", "writeHighSP": "UWriteHighSP",
	"rlcM": "URotM OpRLC", "rrcM": "URotM OpRRC", "rlM": "URotM OpRL", "rrM": "URotM OpRR", "slaM": "URotM OpSLA", "sraM": "URotM OpSRA",
	"swapM": "URotM OpSWAP", "srlM": "URotM OpSRL",
	"rla": "URla", "rlca": "URlca", "rra": "URra", "rrca": "URrca",
	"popF": "UPopF", "call": "UCall", "ret": "URet", "reti": "UReti", "jr": "UJr", "jp": "UJp", "jpHL": "UJpHL",
	"daa": "UDaa", "cpl": "UCpl", "ccf": "UCcf", "scf": "UScf", "di": "UDi", "ei": "UEi", "halt": "UHalt", "stop": "UStop",
	"mooneye": "UMooneye", "handleInterrupt": "UHandleInterrupt",
}

var condName = map[string]string{"cpu.zf": "CZ", "cpu.nzf": "CNZ", "cpu.cf": "CC", "cpu.ncf": "CNC"}

type methods map[string]*ast.FuncDecl

func collectMethods(files ...string) methods {
	m := methods{}
	for _, rel := range files {
		_, f := parseFile(rel)
		for _, d := range f.Decls {
			if fd, ok := d.(*ast.FuncDecl); ok && fd.Recv != nil && fd.Body != nil {
				m[fd.Name.Name] = fd
			}
		}
	}
	return m
}

// src operand of an ALU wrapper
func srcOf(e ast.Expr) (string, bool) {
	s := exprString(e)
	if r, ok := regName[s]; ok {
		return "(SReg " + r + ")", true
	}
	if s == "cpu.u8a" {
		return "SImm", true
	}
	if s == "cpu.mapper.Read(cpu.hl())" {
		return "SMemHL", true
	}
	return "", false
}

// resolve a parameterless method referenced from a dispatch table to a micro-op term
func resolveMethod(name string, ms methods) (string, bool) {
	fd, ok := ms[name]
	if !ok {
		return "", false
	}
	if len(fd.Type.Params.List) == 0 && len(fd.Body.List) == 1 {
		switch st := fd.Body.List[0].(type) {
		case *ast.ExprStmt:
			if call, ok := st.X.(*ast.CallExpr); ok {
				fn := exprString(call.Fun)
				if strings.HasPrefix(fn, "cpu.") {
					h := strings.TrimPrefix(fn, "cpu.")
					if op, ok := aluName[h]; ok && len(call.Args) == 1 {
						if s, ok := srcOf(call.Args[0]); ok {
							return fmt.Sprintf("UAlu %s %s", op, s), true
						}
					}
					if op, ok := rotName[h]; ok && len(call.Args) == 1 {
						if r, ok := regName[strings.TrimPrefix(exprString(call.Args[0]), "&")]; ok && strings.HasPrefix(exprString(call.Args[0]), "&") {
							return fmt.Sprintf("URot %s %s", op, r), true
						}
					}
					if (h == "inc" || h == "dec") && len(call.Args) == 1 {
						if r, ok := regName[strings.TrimPrefix(exprString(call.Args[0]), "&")]; ok && strings.HasPrefix(exprString(call.Args[0]), "&") {
							if h == "inc" {
								return "UInc8 " + r, true
							}
							return "UDec8 " + r, true
						}
					}
					if h == "addHL" && len(call.Args) == 1 {
						if p, ok := pairName[exprString(call.Args[0])]; ok {
							return "UAddHL " + p, true
						}
					}
				}
				if fn == "cpu.mapper.Write" && len(call.Args) == 2 && exprString(call.Args[0]) == "cpu.hl()" {
					v := exprString(call.Args[1])
					if r, ok := regName[v]; ok {
						return "UStMR " + r, true
					}
					if v == "cpu.u8a" {
						return "UStMImm", true
					}
				}
			}
		case *ast.AssignStmt:
			if st.Tok == token.ASSIGN && len(st.Lhs) == 1 && len(st.Rhs) == 1 {
				l, r := exprString(st.Lhs[0]), exprString(st.Rhs[0])
				if d, ok := regName[l]; ok {
					if s, ok := regName[r]; ok {
						return fmt.Sprintf("UMov %s %s", d, s), true
					}
					if r == "cpu.u8a" {
						return "UMovImm " + d, true
					}
					if r == "cpu.mapper.Read(cpu.hl())" {
						return "ULdRM " + d, true
					}
				}
			}
		}
	}
	if t, ok := coreName[name]; ok {
		return t, true
	}
	return "", false
}

func uopOf(e ast.Expr, ms methods) string {
	s := exprString(e)
	if s == "nop" {
		return "UNop"
	}
	if call, ok := e.(*ast.CallExpr); ok {
		fn := exprString(call.Fun)
		switch fn {
		case "fatal":
			return "UFatal"
		case "cpu.pop", "cpu.push":
			if len(call.Args) == 1 {
				a := exprString(call.Args[0])
				if r, ok := regName[strings.TrimPrefix(a, "&")]; ok && strings.HasPrefix(a, "&") {
					if fn == "cpu.pop" {
						return "UPop " + r
					}
					return "UPush " + r
				}
			}
		case "cpu.rst":
			if len(call.Args) == 1 {
				if v, ok := constInt(call.Args[0]); ok {
					return fmt.Sprintf("URst %d", v)
				}
			}
		case "cpu.bit", "cpu.res", "cpu.set":
			if len(call.Args) == 2 {
				n, ok1 := constInt(call.Args[0])
				a := exprString(call.Args[1])
				r, ok2 := regName[strings.TrimPrefix(a, "&")]
				if ok1 && ok2 && strings.HasPrefix(a, "&") {
					k := map[string]string{"cpu.bit": "UBit", "cpu.res": "URes", "cpu.set": "USet"}[fn]
					return fmt.Sprintf("%s %d %s", k, n, r)
				}
			}
		case "cpu.bitM", "cpu.resM", "cpu.setM":
			if len(call.Args) == 1 {
				if n, ok := constInt(call.Args[0]); ok {
					k := map[string]string{"cpu.bitM": "UBitM", "cpu.resM": "UResM", "cpu.setM": "USetM"}[fn]
					return fmt.Sprintf("%s %d", k, n)
				}
			}
		}
		fail("dispatch: unrecognised micro-operation %s", s)
		return "UFatal"
	}
	if strings.HasPrefix(s, "cpu.") {
		if t, ok := resolveMethod(strings.TrimPrefix(s, "cpu."), ms); ok {
			return t
		}
	}
	fail("dispatch: unrecognised micro-operation %s", s)
	return "UFatal"
}

func uopList(e ast.Expr, ms methods) (string, bool) {
	cl, ok := e.(*ast.CompositeLit)
	if !ok || exprString(cl.Type) != "[]func()" {
		return "", false
	}
	var parts []string
	for _, el := range cl.Elts {
		parts = append(parts, "("+uopOf(el, ms)+")")
	}
	return "[" + strings.Join(parts, "; ") + "]", true
}

func genDispatch() {
	ms := collectMethods("gameboy/cpu/instructions.go", "gameboy/cpu/cpu.go", "gameboy/cpu/execution.go")
	_, f := parseFile("gameboy/cpu/dispatch.go")
	normal := map[int64]string{}
	prefix := map[int64]string{}
	early := map[int64]string{}
	seqs := map[string]string{}
	tablesPackageLevel := false
	for _, d := range f.Decls {
		if gd, ok := d.(*ast.GenDecl); ok && gd.Tok == token.VAR {
			for _, sp := range gd.Specs {
				for _, n := range sp.(*ast.ValueSpec).Names {
					if n.Name == "normal" || n.Name == "prefix" {
						tablesPackageLevel = true
					}
				}
			}
		}
		fd, ok := d.(*ast.FuncDecl)
		if !ok || fd.Name.Name != "Initialize" {
			continue
		}
		for _, st := range fd.Body.List {
			as, ok := st.(*ast.AssignStmt)
			if !ok || len(as.Lhs) != 1 || len(as.Rhs) != 1 {
				continue
			}
			if as.Tok == token.DEFINE {
				continue // local aliases such as normal := &cpu.normal
			}
			lhs := as.Lhs[0]
			if ix, ok := lhs.(*ast.IndexExpr); ok {
				base := exprString(ix.X)
				base = strings.TrimPrefix(base, "cpu.")
				idx, okI := constInt(ix.Index)
				if !okI {
					fail("dispatch: non-literal index %s", exprString(lhs))
					continue
				}
				switch base {
				case "normal", "prefix":
					l, ok := uopList(as.Rhs[0], ms)
					if !ok {
						fail("dispatch: unrecognised table entry %s", exprString(as.Rhs[0]))
						continue
					}
					if base == "normal" {
						normal[idx] = l
					} else {
						prefix[idx] = l
					}
				case "isFinishedEarlys":
					call, ok := as.Rhs[0].(*ast.CallExpr)
					if !ok || exprString(call.Fun) != "isFinishedEarly" || len(call.Args) != 3 {
						fail("dispatch: unrecognised early-exit entry %s", exprString(as.Rhs[0]))
						continue
					}
					c, okc := condName[exprString(call.Args[0])]
					e, oke := constInt(call.Args[1])
					l, okl := constInt(call.Args[2])
					if !okc || !oke || !okl {
						fail("dispatch: unrecognised early-exit entry %s", exprString(as.Rhs[0]))
						continue
					}
					early[idx] = fmt.Sprintf("(%s, %d%%nat, %d%%nat)", c, e, l)
				default:
					fail("dispatch: assignment to unknown table %s", base)
				}
				continue
			}
			name := strings.TrimPrefix(exprString(lhs), "cpu.")
			switch name {
			case "veryShortInterrupt", "shortInterrupt", "longInterrupt":
				l, ok := uopList(as.Rhs[0], ms)
				if !ok {
					fail("dispatch: unrecognised sequence %s", exprString(as.Rhs[0]))
					continue
				}
				seqs[name] = l
			}
		}
	}
	var b strings.Builder
	b.WriteString("(* GENERATED by translator from gameboy/cpu/dispatch.go and instructions.go — do not edit *)\n")
	b.WriteString("From Coq Require Import NArith List.\nFrom V.model Require Import Uop.\nImport ListNotations.\nOpen Scope N_scope.\n\n")
	emitTable := func(name string, t map[int64]string) {
		b.WriteString("Definition " + name + " : list (list uop) := [\n")
		for i := int64(0); i < 256; i++ {
			l, ok := t[i]
			if !ok {
				fail("dispatch: %s[0x%02x] missing", name, i)
				l = "[]"
			}
			sep := ";"
			if i == 255 {
				sep = ""
			}
			b.WriteString(fmt.Sprintf("  (* %02x *) %s%s\n", i, l, sep))
		}
		b.WriteString("].\n\n")
	}
	emitTable("normal_table", normal)
	emitTable("prefix_table", prefix)
	b.WriteString("Definition early_table : list (N * (cond * nat * nat)) := [\n")
	first := true
	for i := int64(0); i < 256; i++ {
		if e, ok := early[i]; ok {
			if !first {
				b.WriteString(";\n")
			}
			first = false
			b.WriteString(fmt.Sprintf("  (%d, %s)", i, e))
		}
	}
	b.WriteString("\n].\n\n")
	for _, n := range []string{"veryShortInterrupt", "shortInterrupt", "longInterrupt"} {
		l, ok := seqs[n]
		if !ok {
			fail("dispatch: sequence %s missing", n)
			l = "[]"
		}
		b.WriteString(fmt.Sprintf("Definition %s : list uop := %s.\n", n, l))
	}
	b.WriteString(fmt.Sprintf("\n(* true when the opcode tables are package-level variables shared by every CPU instance *)\nDefinition tables_package_level : bool := %v.\n", tablesPackageLevel))
	writeIfChanged("GenDispatch.v", b.String())
}
