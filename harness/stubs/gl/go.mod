module github.com/go-gl/gl

go 1.14
