// Package gl is a pure-Go stand-in for github.com/go-gl/gl/v2.1/gl used only by the verification harness.
package gl

import "unsafe"

const (
	TEXTURE_2D         = 0x0DE1
	TEXTURE_MIN_FILTER = 0x2801
	TEXTURE_MAG_FILTER = 0x2800
	TEXTURE_WRAP_S     = 0x2802
	TEXTURE_WRAP_T     = 0x2803
	NEAREST            = 0x2600
	CLAMP_TO_EDGE      = 0x812F
	RGBA               = 0x1908
	UNSIGNED_BYTE      = 0x1401
	QUADS              = 0x0007
)

// Counters observed by the harness.
var (
	InitCalls   int
	FramesDrawn int
	LastPixLen  int
)

func Init() error                                            { InitCalls++; return nil }
func Enable(cap uint32)                                      {}
func GenTextures(n int32, textures *uint32)                  { *textures = 1 }
func BindTexture(target uint32, texture uint32)              {}
func TexParameteri(target uint32, pname uint32, param int32) {}
func TexImage2D(target uint32, level int32, internalformat int32, width int32, height int32, border int32, format uint32, xtype uint32, pixels unsafe.Pointer) {
	FramesDrawn++
	LastPixLen = int(width) * int(height) * 4
}
func Begin(mode uint32)               {}
func End()                            {}
func TexCoord2f(s float32, t float32) {}
func Vertex2f(x float32, y float32)   {}
func Ptr(data interface{}) unsafe.Pointer {
	if b, ok := data.([]uint8); ok && len(b) > 0 {
		return unsafe.Pointer(&b[0])
	}
	return nil
}
