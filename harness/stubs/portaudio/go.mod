module github.com/gordonklaus/portaudio

go 1.14
