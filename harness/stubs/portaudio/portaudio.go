// Package portaudio is a pure-Go stand-in for github.com/gordonklaus/portaudio used only by the verification harness.
package portaudio

import "sync"

type DeviceInfo struct{}
type HostApiInfo struct {
	DefaultOutputDevice *DeviceInfo
}
type StreamParameters struct{}

type Stream struct {
	cb      func([]float32)
	stop    chan struct{}
	wg      sync.WaitGroup
	Samples []float32
	mu      sync.Mutex
}

var (
	InitCalls, TerminateCalls, CloseCalls int
	// Drain: when true a started stream consumes samples through the callback in a goroutine.
	Drain   = true
	Last    *Stream
)

func Reset() { InitCalls, TerminateCalls, CloseCalls = 0, 0, 0; Last = nil }

func Initialize() error { InitCalls++; return nil }
func Terminate() error  { TerminateCalls++; return nil }
func DefaultHostApi() (*HostApiInfo, error) {
	return &HostApiInfo{DefaultOutputDevice: &DeviceInfo{}}, nil
}
func LowLatencyParameters(in, out *DeviceInfo) StreamParameters { return StreamParameters{} }
func OpenStream(p StreamParameters, args ...interface{}) (*Stream, error) {
	s := &Stream{stop: make(chan struct{})}
	if len(args) > 0 {
		if f, ok := args[0].(func([]float32)); ok {
			s.cb = f
		}
	}
	Last = s
	return s, nil
}
func (s *Stream) Start() error {
	if s.cb != nil && Drain {
		s.wg.Add(1)
		go func() {
			defer s.wg.Done()
			defer func() { recover() }()
			buf := make([]float32, 126)
			for {
				select {
				case <-s.stop:
					return
				default:
				}
				s.cb(buf)
				s.mu.Lock()
				s.Samples = append(s.Samples, buf...)
				s.mu.Unlock()
			}
		}()
	}
	return nil
}
func (s *Stream) Close() error {
	CloseCalls++
	select {
	case <-s.stop:
	default:
		close(s.stop)
	}
	return nil
}
func (s *Stream) Taken() []float32 {
	s.mu.Lock()
	defer s.mu.Unlock()
	return append([]float32(nil), s.Samples...)
}
