// Package portaudio is a pure-Go stand-in for github.com/gordonklaus/portaudio used only by the verification harness.
package portaudio

import (
	"sync"
	"time"
)

type DeviceInfo struct{}
type HostApiInfo struct {
	DefaultOutputDevice *DeviceInfo
}
type StreamParameters struct{}

type Stream struct {
	cb      func([]float32)
	stop    chan struct{}
	wg      sync.WaitGroup
	Samples []float32
	mu      sync.Mutex
	busy    bool
	Backlog func() int
}

var (
	InitCalls, TerminateCalls, CloseCalls int
	// Drain: when true a started stream consumes samples through the callback in a goroutine.
	Drain = true
	Last  *Stream
)

func Reset() { InitCalls, TerminateCalls, CloseCalls = 0, 0, 0; Last = nil }

func Initialize() error { InitCalls++; return nil }
func Terminate() error  { TerminateCalls++; return nil }
func DefaultHostApi() (*HostApiInfo, error) {
	return &HostApiInfo{DefaultOutputDevice: &DeviceInfo{}}, nil
}
func LowLatencyParameters(in, out *DeviceInfo) StreamParameters { return StreamParameters{} }
func OpenStream(p StreamParameters, args ...interface{}) (*Stream, error) {
	s := &Stream{stop: make(chan struct{})}
	if len(args) > 0 {
		if f, ok := args[0].(func([]float32)); ok {
			s.cb = f
		}
	}
	Last = s
	return s, nil
}
func (s *Stream) Start() error {
	if s.cb != nil && Drain {
		s.wg.Add(1)
		go func() {
			defer s.wg.Done()
			defer func() { recover() }()
			buf := make([]float32, 126)
			for {
				select {
				case <-s.stop:
					return
				default:
				}
				// pull-driven: a buffer is taken only when a whole one (63 stereo pairs) is waiting, so the callback never
				// blocks half-way and "nothing left to do" is an exact condition (see Quiesce); the pause between polls
				// makes this a slow consumer: the emulator regularly finds the channels full
				s.mu.Lock()
				bl := s.Backlog
				s.mu.Unlock()
				if bl == nil || bl() < 63 {
					time.Sleep(60 * time.Microsecond)
					continue
				}
				s.mu.Lock()
				s.busy = true
				s.mu.Unlock()
				s.cb(buf)
				s.mu.Lock()
				s.Samples = append(s.Samples, buf...)
				s.busy = false
				s.mu.Unlock()
			}
		}()
	}
	return nil
}

// SetBacklog tells the consumer how to see the number of complete stereo pairs waiting for it.
func (s *Stream) SetBacklog(f func() int) {
	s.mu.Lock()
	s.Backlog = f
	s.mu.Unlock()
}
func (s *Stream) Close() error {
	CloseCalls++
	select {
	case <-s.stop:
	default:
		close(s.stop)
	}
	return nil
}
func (s *Stream) Taken() []float32 {
	s.mu.Lock()
	defer s.mu.Unlock()
	return append([]float32(nil), s.Samples...)
}

// Quiesce waits until the consumer has taken every whole buffer that is available (exact: fewer than 63 pairs are
// waiting and no buffer is being copied; the caller guarantees that the emulator is not running) and returns the
// samples of the completed buffers.
func (s *Stream) Quiesce() []float32 {
	for {
		s.mu.Lock()
		busy, bl := s.busy, s.Backlog
		s.mu.Unlock()
		if !busy && (bl == nil || bl() < 63) {
			s.mu.Lock()
			busy = s.busy
			s.mu.Unlock()
			if !busy {
				return s.Taken()
			}
		}
		time.Sleep(200 * time.Microsecond)
	}
}
