// Package portaudio is a pure-Go stand-in for github.com/gordonklaus/portaudio used only by the verification harness.
package portaudio

import (
	"sync"
	"time"
)

type DeviceInfo struct{}
type HostApiInfo struct {
	DefaultOutputDevice *DeviceInfo
}
type StreamParameters struct{}

type Stream struct {
	cb      func([]float32)
	stop    chan struct{}
	wg      sync.WaitGroup
	Samples []float32
	mu      sync.Mutex
	calls   int
}

var (
	InitCalls, TerminateCalls, CloseCalls int
	// Drain: when true a started stream consumes samples through the callback in a goroutine.
	Drain = true
	Last  *Stream
	// SlowEvery > 0: the consumer sleeps 300 microseconds after every SlowEvery-th callback, so that the emulator
	// regularly finds the sample channels full
	SlowEvery = 0
)

func Reset() { InitCalls, TerminateCalls, CloseCalls = 0, 0, 0; Last = nil }

func Initialize() error { InitCalls++; return nil }
func Terminate() error  { TerminateCalls++; return nil }
func DefaultHostApi() (*HostApiInfo, error) {
	return &HostApiInfo{DefaultOutputDevice: &DeviceInfo{}}, nil
}
func LowLatencyParameters(in, out *DeviceInfo) StreamParameters { return StreamParameters{} }
func OpenStream(p StreamParameters, args ...interface{}) (*Stream, error) {
	s := &Stream{stop: make(chan struct{})}
	if len(args) > 0 {
		if f, ok := args[0].(func([]float32)); ok {
			s.cb = f
		}
	}
	Last = s
	return s, nil
}
func (s *Stream) Start() error {
	if s.cb != nil && Drain {
		s.wg.Add(1)
		go func() {
			defer s.wg.Done()
			defer func() { recover() }()
			buf := make([]float32, 126)
			for {
				select {
				case <-s.stop:
					return
				default:
				}
				s.cb(buf)
				s.calls++
				if SlowEvery > 0 && s.calls%SlowEvery == 0 {
					time.Sleep(300 * time.Microsecond)
				}
				s.mu.Lock()
				s.Samples = append(s.Samples, buf...)
				s.mu.Unlock()
			}
		}()
	}
	return nil
}
func (s *Stream) Close() error {
	CloseCalls++
	select {
	case <-s.stop:
	default:
		close(s.stop)
	}
	return nil
}
func (s *Stream) Taken() []float32 {
	s.mu.Lock()
	defer s.mu.Unlock()
	return append([]float32(nil), s.Samples...)
}

// Quiesce waits until the consumer goroutine has taken everything it can (the count of completed buffers no longer
// changes) and returns the samples of the completed buffers.
func (s *Stream) Quiesce() []float32 {
	last, stable := -1, 0
	for stable < 5 {
		time.Sleep(2 * time.Millisecond)
		s.mu.Lock()
		n := len(s.Samples)
		s.mu.Unlock()
		if n == last {
			stable++
		} else {
			last, stable = n, 0
		}
	}
	return s.Taken()
}
