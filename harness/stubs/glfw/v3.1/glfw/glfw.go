// Package glfw is a pure-Go stand-in for github.com/go-gl/glfw/v3.1/glfw used only by the verification harness.
package glfw

type Hint int
type Key int
type Action int
type ModifierKey int

const (
	ContextVersionMajor Hint = 1
	ContextVersionMinor Hint = 2
	Resizable           Hint = 3
)

const (
	Release Action = 0
	Press   Action = 1
	Repeat  Action = 2
)

const (
	KeyA     Key = 65
	KeyS     Key = 83
	KeyZ     Key = 90
	KeyX     Key = 88
	KeyRight Key = 262
	KeyLeft  Key = 263
	KeyDown  Key = 264
	KeyUp    Key = 265
)

type Monitor struct{}

type KeyCallback func(w *Window, key Key, scancode int, action Action, mods ModifierKey)

type Window struct {
	cb KeyCallback
}

// State observed and steered by the harness.
var (
	InitCalls      int
	TerminateCalls int
	SwapCalls      int
	PollCalls      int
	// CloseAfter: ShouldClose returns true once SwapCalls >= CloseAfter (0 = never).
	CloseAfter int
	// Pending key events delivered by PollEvents, keyed by the poll number at which they fire.
	Events  map[int][]KeyEvent
	Current *Window
)

type KeyEvent struct {
	Key    Key
	Action Action
}

func Reset() {
	InitCalls, TerminateCalls, SwapCalls, PollCalls, CloseAfter = 0, 0, 0, 0, 0
	Events = nil
	Current = nil
}

func Init() error              { InitCalls++; return nil }
func Terminate()               { TerminateCalls++ }
func WindowHint(h Hint, v int) {}
func SwapInterval(i int)       {}
func CreateWindow(width, height int, title string, monitor *Monitor, share *Window) (*Window, error) {
	w := &Window{}
	Current = w
	return w, nil
}
func PollEvents() {
	PollCalls++
	if Current != nil && Current.cb != nil {
		for _, e := range Events[PollCalls] {
			Current.cb(Current, e.Key, 0, e.Action, 0)
		}
	}
}
func (w *Window) MakeContextCurrent() {}
func (w *Window) SetKeyCallback(cb KeyCallback) (previous KeyCallback) {
	p := w.cb
	w.cb = cb
	return p
}

// Fire delivers one key event to the window's key callback, as the real library does from PollEvents.
func (w *Window) Fire(key Key, action Action) {
	if w != nil && w.cb != nil {
		w.cb(w, key, 0, action, 0)
	}
}
func (w *Window) SwapBuffers()      { SwapCalls++ }
func (w *Window) ShouldClose() bool { return CloseAfter > 0 && SwapCalls >= CloseAfter }
