module github.com/go-gl/glfw

go 1.14
