package main

// Script operations of the cartridge subsystem, executed on the real memory.Mapper built by memory.New.
// The synthetic ROM image uses the same formula as coq/extract/r_cart.ml.

import (
	"bytes"
	"strings"

	"github.com/scottyw/tetromino/gameboy/audio"
	"github.com/scottyw/tetromino/gameboy/controller"
	"github.com/scottyw/tetromino/gameboy/interrupts"
	"github.com/scottyw/tetromino/gameboy/memory"
	"github.com/scottyw/tetromino/gameboy/oam"
	"github.com/scottyw/tetromino/gameboy/ppu"
	"github.com/scottyw/tetromino/gameboy/serial"
	"github.com/scottyw/tetromino/gameboy/timer"
)

var cartM *memory.Mapper

func synByte(a int) byte {
	p, o := a>>14, a&0x3fff
	switch o & 3 {
	case 0:
		return byte(p)
	case 1:
		return byte(p >> 8)
	case 2:
		return byte(o >> 2)
	default:
		return byte((o >> 10) + 37*p + 11)
	}
}

type imageKey struct{ length, typ, romc, ramc int }

var imageCache = map[imageKey][]byte{}

func makeImage(length, typ, romc, ramc int) []byte {
	k := imageKey{length, typ, romc, ramc}
	if b, ok := imageCache[k]; ok {
		return b
	}
	b := make([]byte, length)
	for a := range b {
		b[a] = synByte(a)
	}
	if length > 0x147 {
		b[0x147] = byte(typ)
	}
	if length > 0x148 {
		b[0x148] = byte(romc)
	}
	if length > 0x149 {
		b[0x149] = byte(ramc)
	}
	if len(imageCache) > 64 {
		imageCache = map[imageKey][]byte{}
	}
	imageCache[k] = b
	return b
}

func cartConstruct(length, typ, romc, ramc int) {
	cartM = nil
	img := makeImage(length, typ, romc, ramc)
	// the controllers keep the image (ROM-only) or a copy of its pages; hand over a private copy so that a
	// cached image can never be altered through the implementation
	rom := make([]byte, len(img))
	copy(rom, img)
	i := interrupts.New()
	o := oam.New()
	cartM = memory.New(rom, i, o, ppu.New(i, o, false), controller.New(), serial.New(&bytes.Buffer{}), timer.New(), audio.New(nil, nil))
}

func digestBytes(b []byte) (int, uint64) {
	h := uint64(7)
	for _, x := range b {
		h = ((h * 1000003) ^ uint64(x)) & 0xFFFFFFFFFF
	}
	return len(b), h
}

func init() {
	onReset(func() { cartM = nil })
	register("cart.new", func(a []string) {
		romc := ai(a, 2)
		cartConstruct(0x8000<<uint(romc), ai(a, 1), romc, ai(a, 3))
	})
	register("cart.image", func(a []string) { cartConstruct(ai(a, 1), ai(a, 2), ai(a, 3), ai(a, 4)) })
	register("cart.w", func(a []string) { cartM.Write(uint16(ai(a, 1)), uint8(ai(a, 2))) })
	register("cart.r", func(a []string) { emit("%d", cartM.Read(uint16(ai(a, 1)))) })
	register("cart.rr", func(a []string) {
		lo, hi, step := ai(a, 1), ai(a, 2), ai(a, 3)
		var sb strings.Builder
		defer func() {
			// a panic in the middle of the range: print what was read so far, then let main.go report it
			if r := recover(); r != nil {
				if sb.Len() > 0 {
					emit("%s", sb.String())
				}
				panic(r)
			}
		}()
		for i := lo; i <= hi; i += step {
			v := cartM.Read(uint16(i))
			if sb.Len() > 0 {
				sb.WriteByte(' ')
			}
			sb.WriteString(itoa(int(v)))
		}
		emit("%s", sb.String())
	})
	tick := func(a []string) {
		n := ai(a, 1)
		for i := 0; i < n; i++ {
			cartM.EndMachineCycle()
		}
	}
	register("cart.tick", tick)
	register("cart.tick1", tick)
	register("cart.dump", func(a []string) {
		n, h := digestBytes(cartM.DumpRAM())
		emit("%d %d", n, h)
	})
	register("rtc.set", func(a []string) {
		cartM.VSetRTC(memory.VRTC{
			S: uint8(ai(a, 1)), M: uint8(ai(a, 2)), H: uint8(ai(a, 3)), D: uint16(ai(a, 4)), Carry: ab(a, 5), Halt: ab(a, 6),
			LS: uint8(ai(a, 7)), LM: uint8(ai(a, 8)), LH: uint8(ai(a, 9)), LD: uint16(ai(a, 10)), LCarry: ab(a, 11), LHalt: ab(a, 12),
			Ticks: ai(a, 13), Low: ab(a, 14)})
	})
	register("rtc.get", func(a []string) {
		r := cartM.VGetRTC()
		emit("%d %d %d %d %d %d %d %d %d %d %d %d %d %d", r.S, r.M, r.H, r.D, b2i(r.Carry), b2i(r.Halt),
			r.LS, r.LM, r.LH, r.LD, b2i(r.LCarry), b2i(r.LHalt), r.Ticks, b2i(r.Low))
	})
	register("rtc.inc", func(a []string) { cartM.VRTCIncrement() })
	register("rtc.incsweep", func(a []string) {
		base := cartM.VGetRTC()
		h := uint64(7)
		k := 0
		mix := func(x int) { h = ((h * 1000003) ^ uint64(x)) & 0xFFFFFFFFFF }
		for s := ai(a, 1); s <= ai(a, 2); s++ {
			for m := ai(a, 3); m <= ai(a, 4); m++ {
				for hh := ai(a, 5); hh <= ai(a, 6); hh++ {
					for d := ai(a, 7); d <= ai(a, 8); d++ {
						v := base
						v.S, v.M, v.H, v.D, v.Carry = uint8(s), uint8(m), uint8(hh), uint16(d), ab(a, 9)
						cartM.VSetRTC(v)
						cartM.VRTCIncrement()
						r := cartM.VGetRTC()
						mix(int(r.S))
						mix(int(r.M))
						mix(int(r.H))
						mix(int(r.D))
						mix(b2i(r.Carry))
						k++
					}
				}
			}
		}
		cartM.VSetRTC(base)
		emit("%d %d", k, h)
	})
	register("rtc.tick", func(a []string) {
		n := ai(a, 1)
		for i := 0; i < n; i++ {
			cartM.VRTCTick()
		}
	})
}

func itoa(v int) string {
	if v == 0 {
		return "0"
	}
	var buf [20]byte
	i := len(buf)
	for v > 0 {
		i--
		buf[i] = byte('0' + v%10)
		v /= 10
	}
	return string(buf[i:])
}
