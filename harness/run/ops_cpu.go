package main

import (
	"bytes"
	"fmt"

	"github.com/scottyw/tetromino/gameboy/audio"
	"github.com/scottyw/tetromino/gameboy/controller"
	"github.com/scottyw/tetromino/gameboy/cpu"
	"github.com/scottyw/tetromino/gameboy/interrupts"
	"github.com/scottyw/tetromino/gameboy/memory"
	"github.com/scottyw/tetromino/gameboy/oam"
	"github.com/scottyw/tetromino/gameboy/ppu"
	"github.com/scottyw/tetromino/gameboy/serial"
	"github.com/scottyw/tetromino/gameboy/timer"
)

// machine is the component set wired as gameboy.New wires it (without display and speakers)
type machine struct {
	ints   *interrupts.Interrupts
	oam    *oam.OAM
	audio  *audio.Audio
	ppu    *ppu.PPU
	serial *serial.Serial
	serbuf *bytes.Buffer
	timer  *timer.Timer
	joy    *controller.Controller
	mapper *memory.Mapper
	cpu    *cpu.CPU
	left   chan float32
	right  chan float32
}

// testROM is the synthetic 32 KiB ROM-only image used by the CPU scripts (same formula as SimpleBus.test_rom)
func testROM() []byte {
	rom := make([]byte, 0x8000)
	for a := range rom {
		rom[a] = byte((a*31 + (a/256)*7 + 5) & 255)
	}
	rom[0x147], rom[0x148], rom[0x149] = 0, 0, 0
	// interrupt handlers: INC B / C / D / E / H ; RETI ; NOPs
	for i, op := range []byte{0x04, 0x0c, 0x14, 0x1c, 0x24} {
		base := 0x40 + 8*i
		for k := 0; k < 8; k++ {
			rom[base+k] = 0
		}
		rom[base], rom[base+1] = op, 0xd9
	}
	return rom
}

func newMachine(rom []byte) *machine { return newMachineOpt(rom, true, false) }

// newMachineOpt: ser = a serial writer is configured; aud = audio outputs are attached (buffered channels drained by the runner)
func newMachineOpt(rom []byte, ser bool, aud bool) *machine {
	m := &machine{}
	m.ints = interrupts.New()
	m.oam = oam.New()
	if aud {
		m.left, m.right = make(chan float32, 64), make(chan float32, 64)
		m.audio = audio.New(m.left, m.right)
	} else {
		m.audio = audio.New(nil, nil)
	}
	m.ppu = ppu.New(m.ints, m.oam, false)
	if ser {
		m.serbuf = &bytes.Buffer{}
		m.serial = serial.New(m.serbuf)
	} else {
		m.serial = serial.New(nil)
	}
	m.timer = timer.New()
	m.joy = controller.New()
	m.mapper = memory.New(rom, m.ints, m.oam, m.ppu, m.joy, m.serial, m.timer, m.audio)
	m.cpu = cpu.New(m.ints, m.oam, false, m.mapper)
	m.cpu.Initialize()
	return m
}

// cpuMachine: LCD switched off outside mode 2, so the OAM-bug hooks are inert and the hardware is idle
func cpuMachine() *machine {
	m := newMachine(testROM())
	for i := 0; i < 30; i++ {
		m.ppu.EndMachineCycle()
	}
	m.mapper.Write(0xff40, 0x00)
	m.mapper.Write(0xff0f, 0x01)
	return m
}

var cm *machine

func b2i(b bool) int {
	if b {
		return 1
	}
	return 0
}

func init() {
	onReset(func() { cm = nil })
	need := func() *machine {
		if cm == nil {
			cm = cpuMachine()
		}
		return cm
	}
	register("mayexit", func(a []string) {})
	register("cpu.new", func(a []string) { cm = cpuMachine() })
	register("cpu.set", func(a []string) {
		need().cpu.VSetRegs(cpu.VRegs{A: uint8(ai(a, 1)), B: uint8(ai(a, 2)), C: uint8(ai(a, 3)), D: uint8(ai(a, 4)),
			E: uint8(ai(a, 5)), F: uint8(ai(a, 6)), H: uint8(ai(a, 7)), L: uint8(ai(a, 8)), SP: uint16(ai(a, 9)), PC: uint16(ai(a, 10))})
	})
	register("cpu.mode", func(a []string) { need().cpu.VSetMode(ab(a, 1), ab(a, 2), ab(a, 3)) })
	register("cpu.ime", func(a []string) {
		if ab(a, 1) {
			need().ints.Enable()
		} else {
			need().ints.Disable()
		}
	})
	register("cpu.req", func(a []string) {
		m := need()
		v := ai(a, 1)
		if v&1 != 0 {
			m.ints.RequestVblank()
		}
		if v&2 != 0 {
			m.ints.RequestStat()
		}
		if v&4 != 0 {
			m.ints.RequestTimer()
		}
		if v&8 != 0 {
			m.ints.RequestSerial()
		}
		if v&16 != 0 {
			m.ints.RequestJoypad()
		}
	})
	register("w", func(a []string) { need().mapper.Write(uint16(ai(a, 1)), uint8(ai(a, 2))) })
	register("r", func(a []string) { emit("%d", need().mapper.Read(uint16(ai(a, 1)))) })
	register("cpu.cyc", func(a []string) {
		m := need()
		for i := 0; i < ai(a, 1); i++ {
			m.cpu.ExecuteMachineCycle()
		}
	})
	register("cpu.step", func(a []string) {
		m := need()
		n := 0
		m.cpu.ExecuteMachineCycle()
		n++
		for !m.cpu.VAtBoundary() && n < 64 {
			m.cpu.ExecuteMachineCycle()
			n++
		}
		emit("cyc %d", n)
	})
	register("cpu.get", func(a []string) {
		m := need()
		r := m.cpu.VGetRegs()
		h, hb, st := m.cpu.VGetMode()
		emit("%d %d %d %d %d %d %d %d %d %d %d %d %d %d %d %d", r.A, r.B, r.C, r.D, r.E, r.F, r.H, r.L, r.SP, r.PC,
			b2i(h), b2i(hb), b2i(st), b2i(m.ints.Enabled()), b2i(m.cpu.VEIPending()), b2i(m.cpu.VAtBoundary()))
	})
}

// ---- compact finite sweeps through real opcodes (same loops as r_cpu.ml) ----

type cpuSnap struct {
	regs                     cpu.VRegs
	halted, haltbug, stopped bool
}

func (m *machine) hl() uint16 { r := m.cpu.VGetRegs(); return uint16(r.H)<<8 | uint16(r.L) }

func (m *machine) setLoc(loc string, u uint8) {
	r := m.cpu.VGetRegs()
	switch loc {
	case "A":
		r.A = u
	case "B":
		r.B = u
	case "C":
		r.C = u
	case "D":
		r.D = u
	case "E":
		r.E = u
	case "H":
		r.H = u
	case "L":
		r.L = u
	case "M":
		m.mapper.Write(m.hl(), u)
		return
	case "I":
		m.mapper.Write(r.PC+1, u)
		return
	case "J":
		m.mapper.Write(r.PC+2, u)
		return
	default:
		return
	}
	m.cpu.VSetRegs(r)
}

func (m *machine) getLoc(loc string) uint8 {
	r := m.cpu.VGetRegs()
	switch loc {
	case "A":
		return r.A
	case "B":
		return r.B
	case "C":
		return r.C
	case "D":
		return r.D
	case "E":
		return r.E
	case "H":
		return r.H
	case "L":
		return r.L
	case "M":
		return m.mapper.Read(m.hl())
	}
	return 0
}

func (m *machine) stepOnce() int {
	n := 0
	m.cpu.ExecuteMachineCycle()
	n++
	for !m.cpu.VAtBoundary() && n < 64 {
		m.cpu.ExecuteMachineCycle()
		n++
	}
	return n
}

func init() {
	register("cpu.sweepau", func(a []string) {
		m := cm
		an, loc, resloc := ai(a, 1), a[2], a[3]
		var fs []int
		for i := 4; i < len(a); i++ {
			fs = append(fs, ai(a, i))
		}
		base := m.cpu.VGetRegs()
		us := 256
		if loc == "N" {
			us = 1
		}
		var sb, cb []byte
		for av := 0; av < an; av++ {
			sb = sb[:0]
			cb = append(cb[:0], []byte("cyc ")...)
			for u := 0; u < us; u++ {
				for _, f := range fs {
					r := base
					r.A, r.F = uint8(av), uint8(f)
					m.cpu.VSetRegs(r)
					m.setLoc(loc, uint8(u))
					n := m.stepOnce()
					r1 := m.cpu.VGetRegs()
					sb = append(sb, []byte(sprintf("%02x%02x%02x ", r1.A, r1.F, m.getLoc(resloc)))...)
					cb = append(cb, []byte(sprintf("%x", n))...)
				}
			}
			emit("%s", string(sb))
			emit("%s", string(cb))
		}
		m.cpu.VSetRegs(base)
	})
	register("cpu.sweep16", func(a []string) {
		m := cm
		pair, step := a[1], ai(a, 2)
		base := m.cpu.VGetRegs()
		var sb []byte
		k := 0
		for v := 0; v < 65536; v += step {
			r := base
			switch pair {
			case "BC":
				r.B, r.C = uint8(v>>8), uint8(v)
			case "DE":
				r.D, r.E = uint8(v>>8), uint8(v)
			case "HL":
				r.H, r.L = uint8(v>>8), uint8(v)
			default:
				r.SP = uint16(v)
			}
			m.cpu.VSetRegs(r)
			m.stepOnce()
			r1 := m.cpu.VGetRegs()
			var res uint16
			switch pair {
			case "BC":
				res = uint16(r1.B)<<8 | uint16(r1.C)
			case "DE":
				res = uint16(r1.D)<<8 | uint16(r1.E)
			case "HL":
				res = uint16(r1.H)<<8 | uint16(r1.L)
			default:
				res = r1.SP
			}
			sb = append(sb, []byte(sprintf("%04x%02x ", res, r1.F))...)
			k++
			if k%256 == 0 {
				emit("%s", string(sb))
				sb = sb[:0]
			}
		}
		if len(sb) > 0 {
			emit("%s", string(sb))
		}
		m.cpu.VSetRegs(base)
	})
	register("cpu.sweepsp", func(a []string) {
		m := cm
		hi, f := ai(a, 1), ai(a, 2)
		base := m.cpu.VGetRegs()
		var sb []byte
		for lo := 0; lo < 256; lo++ {
			sb = sb[:0]
			for e := 0; e < 256; e++ {
				r := base
				r.SP, r.F = uint16(hi*256+lo), uint8(f)
				m.cpu.VSetRegs(r)
				m.mapper.Write(r.PC+1, uint8(e))
				m.stepOnce()
				r1 := m.cpu.VGetRegs()
				sb = append(sb, []byte(sprintf("%04x%02x%02x%02x ", r1.SP, r1.H, r1.L, r1.F))...)
			}
			emit("%s", string(sb))
		}
		m.cpu.VSetRegs(base)
	})
}

var snapRanges = [][2]int{{0, 0xa000}, {0xc000, 0xff00}, {0xff0f, 0xff10}, {0xff80, 0x10000}}

func (m *machine) snapshot() []int {
	arr := make([]int, 65536)
	for _, r := range snapRanges {
		for a := r[0]; a < r[1]; a++ {
			arr[a] = int(m.mapper.Read(uint16(a)))
		}
	}
	return arr
}

func init() {
	register("cpu.stepdiff", func(a []string) {
		m := cm
		before := m.snapshot()
		n := m.stepOnce()
		after := m.snapshot()
		emit("cyc %d", n)
		s := "diff"
		for a := 0; a < 65536; a++ {
			if before[a] != after[a] {
				s += sprintf(" %d:%d", a, after[a])
			}
		}
		emit("%s", s)
	})
}

func sprintf(f string, a ...interface{}) string { return fmt.Sprintf(f, a...) }
