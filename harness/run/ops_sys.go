package main

// Script operations of the whole machine, executed on the real components wired as gameboy.New wires them
// (newMachine in ops_cpu.go), with the frame loop replicated in its generated order by the real runFrame only in the
// gb.* operations (ops_gb.go); here the five calls of the loop body are made explicitly.

import (
	"io/ioutil"
	"strings"

	"github.com/scottyw/tetromino/gameboy/audio"
	"github.com/scottyw/tetromino/gameboy/controller"
	"github.com/scottyw/tetromino/gameboy/cpu"
)

var sm *machine
var smLeft, smRight chan float32
var smSamples int

func sysConstruct(rom []byte, ser bool, aud bool) {
	sm = nil
	smSamples = 0
	smLeft, smRight = nil, nil
	m := newMachineOpt(rom, ser, aud)
	sm = m
}

func (m *machine) drain() {
	if m.left == nil {
		return
	}
	for {
		select {
		case <-m.left:
			<-m.right
			smSamples++
		default:
			return
		}
	}
}

func (m *machine) fullCycle() {
	m.cpu.ExecuteMachineCycle()
	m.hwCycle()
}

func (m *machine) hwCycle() {
	m.ppu.EndMachineCycle()
	m.mapper.EndMachineCycle()
	m.audio.EndMachineCycle()
	if m.timer.EndMachineCycle() {
		m.ints.RequestTimer()
	}
	m.drain()
}

func shadeChar(r uint8) byte {
	switch r {
	case 0xff:
		return '0'
	case 0xaa:
		return '1'
	case 0x77:
		return '2'
	case 0x33:
		return '3'
	}
	return '4'
}

func optBool(a []string, i int, d bool) bool {
	if len(a) > i {
		return ab(a, i)
	}
	return d
}

func init() {
	onReset(func() { sm = nil })
	register("sys.new", func(a []string) {
		romc := ai(a, 2)
		sysConstruct(append([]byte(nil), makeImage(0x8000<<uint(romc), ai(a, 1), romc, ai(a, 3))...), optBool(a, 4, true), optBool(a, 5, false))
	})
	register("sys.image", func(a []string) {
		sysConstruct(append([]byte(nil), makeImage(ai(a, 1), ai(a, 2), ai(a, 3), ai(a, 4))...), true, false)
	})
	register("sys.cpurom", func(a []string) { sysConstruct(testROM(), optBool(a, 1, true), optBool(a, 2, false)) })
	register("sys.rom", func(a []string) {
		b, err := ioutil.ReadFile(strings.ReplaceAll(a[1], "%20", " "))
		if err != nil {
			panic(err)
		}
		sysConstruct(b, optBool(a, 2, true), optBool(a, 3, false))
	})
	register("sys.w", func(a []string) { sm.mapper.Write(uint16(ai(a, 1)), uint8(ai(a, 2))) })
	register("sys.r", func(a []string) { emit("%d", sm.mapper.Read(uint16(ai(a, 1)))) })
	register("sys.rr", func(a []string) {
		var sb strings.Builder
		for ad := ai(a, 1); ad <= ai(a, 2); ad++ {
			sb.WriteString(sprintf("%02x", sm.mapper.Read(uint16(ad))))
		}
		emit("%s", sb.String())
	})
	register("sys.cyc", func(a []string) {
		for i := 0; i < ai(a, 1); i++ {
			sm.fullCycle()
		}
	})
	register("sys.hw", func(a []string) {
		for i := 0; i < ai(a, 1); i++ {
			sm.hwCycle()
		}
	})
	register("sys.cpucyc", func(a []string) {
		for i := 0; i < ai(a, 1); i++ {
			sm.cpu.ExecuteMachineCycle()
		}
	})
	register("sys.frame", func(a []string) {
		for i := 0; i < ai(a, 1); i++ {
			for k := 0; k < 17556; k++ {
				sm.fullCycle()
			}
		}
	})
	register("sys.lcdtrace", func(a []string) {
		var sb strings.Builder
		sb.WriteString("L")
		last := [3]int{-1, -1, -1}
		cnt := 0
		flush := func() {
			if cnt > 0 {
				sb.WriteString(sprintf(" %d,%d,%d*%d", last[0], last[1], last[2], cnt))
			}
		}
		for i := 0; i < ai(a, 1); i++ {
			sm.hwCycle()
			cur := [3]int{int(sm.mapper.Read(0xff44)), int(sm.mapper.Read(0xff41) & 3), int(sm.mapper.Read(0xff0f) & 3)}
			if cur == last {
				cnt++
			} else {
				flush()
				last, cnt = cur, 1
			}
		}
		flush()
		emit("%s", sb.String())
	})
	register("sys.step", func(a []string) {
		n := 0
		sm.fullCycle()
		n++
		for !sm.cpu.VAtBoundary() && n < 64 {
			sm.fullCycle()
			n++
		}
		emit("cyc %d", n)
	})
	register("sys.set", func(a []string) {
		sm.cpu.VSetRegs(cpu.VRegs{A: uint8(ai(a, 1)), B: uint8(ai(a, 2)), C: uint8(ai(a, 3)), D: uint8(ai(a, 4)),
			E: uint8(ai(a, 5)), F: uint8(ai(a, 6)), H: uint8(ai(a, 7)), L: uint8(ai(a, 8)), SP: uint16(ai(a, 9)), PC: uint16(ai(a, 10))})
	})
	register("sys.get", func(a []string) {
		r := sm.cpu.VGetRegs()
		h, hb, st := sm.cpu.VGetMode()
		emit("%d %d %d %d %d %d %d %d %d %d %d %d %d %d %d %d", r.A, r.B, r.C, r.D, r.E, r.F, r.H, r.L, r.SP, r.PC,
			b2i(h), b2i(hb), b2i(st), b2i(sm.ints.Enabled()), b2i(sm.cpu.VEIPending()), b2i(sm.cpu.VAtBoundary()))
	})
	register("sys.ime", func(a []string) {
		if ab(a, 1) {
			sm.ints.Enable()
		} else {
			sm.ints.Disable()
		}
	})
	register("sys.req", func(a []string) {
		v := ai(a, 1)
		if v&1 != 0 {
			sm.ints.RequestVblank()
		}
		if v&2 != 0 {
			sm.ints.RequestStat()
		}
		if v&4 != 0 {
			sm.ints.RequestTimer()
		}
		if v&8 != 0 {
			sm.ints.RequestSerial()
		}
		if v&16 != 0 {
			sm.ints.RequestJoypad()
		}
	})
	register("sys.btn", func(a []string) { sm.joy.ButtonAction(controller.Button(ai(a, 1)), ab(a, 2)) })
	register("sys.serial", func(a []string) {
		var sb strings.Builder
		if sm.serbuf != nil {
			for _, b := range sm.serbuf.Bytes() {
				sb.WriteString(sprintf("%02x", b))
			}
		}
		emit("ser %s", sb.String())
	})
	register("sys.pix", func(a []string) {
		fr := sm.ppu.Frame()
		h := uint64(7)
		for y := 0; y < 144; y++ {
			for x := 0; x < 160; x++ {
				c := fr.RGBAAt(x, y)
				v := uint64(shadeChar(c.R) - '0')
				if c.A == 0 {
					v = 4
				}
				h = ((h * 1000003) ^ v) & 0xFFFFFFFFFF
			}
		}
		emit("pix %d", h)
	})
	register("sys.pixrow", func(a []string) {
		fr := sm.ppu.Frame()
		y := ai(a, 1)
		var sb strings.Builder
		for x := 0; x < 160; x++ {
			c := fr.RGBAAt(x, y)
			if c.A == 0 {
				sb.WriteByte('4')
			} else {
				sb.WriteByte(shadeChar(c.R))
			}
		}
		emit("%s", sb.String())
	})
	register("sys.nsamples", func(a []string) { emit("samples %d", smSamples) })
	register("sys.oam", func(a []string) {
		b := sm.oam.VBytes()
		var sb strings.Builder
		for _, x := range b {
			sb.WriteString(sprintf("%02x", x))
		}
		emit("%s", sb.String())
	})
	register("sys.dump", func(a []string) {
		n, h := digestBytes(sm.mapper.DumpRAM())
		emit("dump %d %d", n, h)
	})
	_ = audio.New
}
