package main

// Operations on the real ppu.PPU + oam.OAM + interrupts.Interrupts, wired as gameboy.New wires them.
// Mirrors coq/extract/r_ppu.ml operation by operation.

import (
	"fmt"
	"strings"

	"github.com/scottyw/tetromino/gameboy/interrupts"
	"github.com/scottyw/tetromino/gameboy/oam"
	"github.com/scottyw/tetromino/gameboy/ppu"
)

var (
	pI   *interrupts.Interrupts
	pO   *oam.OAM
	pP   *ppu.PPU
	dmaT int // DMA ticks executed in this case (index of the next tick)
)

func ppuNew() {
	pI = interrupts.New()
	pO = oam.New()
	pP = ppu.New(pI, pO, false)
	dmaT = 0
}

// dmaSrc is the shared source-byte formula: the byte at addr as seen by the bus during DMA tick t.
func dmaSrc(addr, t, a, b int) int {
	return ((addr&0xff)*a + (addr>>8)*3 + t*b + 5) & 0xff
}

// rle collects run-length encoded observation tuples.
type rle struct {
	sb   strings.Builder
	last string
	n    int
}

func (r *rle) add(s string) {
	if s == r.last {
		r.n++
		return
	}
	r.flush()
	r.last, r.n = s, 1
}
func (r *rle) flush() {
	if r.n > 0 {
		fmt.Fprintf(&r.sb, " %s*%d", r.last, r.n)
	}
	r.n = 0
}
func (r *rle) String() string { r.flush(); return r.sb.String() }

func ppuWrite(reg int, v uint8) {
	switch reg {
	case 0x40:
		pP.WriteLCDC(v)
	case 0x41:
		pP.WriteSTAT(v)
	case 0x42:
		pP.WriteSCY(v)
	case 0x43:
		pP.WriteSCX(v)
	case 0x44:
		pP.WriteLY(v)
	case 0x45:
		pP.WriteLYC(v)
	case 0x47:
		pP.WriteBGP(v)
	case 0x48:
		pP.WriteOBP0(v)
	case 0x49:
		pP.WriteOBP1(v)
	case 0x4a:
		pP.WriteWY(v)
	case 0x4b:
		pP.WriteWX(v)
	default:
		panic("ppu.w: bad register")
	}
}

func ppuRead(reg int) uint8 {
	switch reg {
	case 0x40:
		return pP.ReadLCDC()
	case 0x41:
		return pP.ReadSTAT()
	case 0x42:
		return pP.ReadSCY()
	case 0x43:
		return pP.ReadSCX()
	case 0x44:
		return pP.ReadLY()
	case 0x45:
		return pP.ReadLYC()
	case 0x47:
		return pP.ReadBGP()
	case 0x48:
		return pP.ReadOBP0()
	case 0x49:
		return pP.ReadOBP1()
	case 0x4a:
		return pP.ReadWY()
	case 0x4b:
		return pP.ReadWX()
	}
	panic("ppu.r: bad register")
}

func init() {
	onReset(ppuNew)
	register("ppu.new", func(a []string) { ppuNew(); emit("new") })
	// ppu.tick N: N machine cycles of the PPU; IF is cleared before each; prints a run-length encoding of
	// (LY, STAT&7, IF&3) observed after each cycle
	register("ppu.tick", func(a []string) {
		var r rle
		n := ai(a, 1)
		for i := 0; i < n; i++ {
			pI.WriteIF(0)
			pP.EndMachineCycle()
			r.add(fmt.Sprintf("%d,%d,%d", pP.ReadLY(), pP.ReadSTAT()&7, pI.ReadIF()&3))
		}
		emit("T%s", r.String())
	})
	// ppu.w REG V: register write (REG = low address byte); echoed so that projections can follow the history
	register("ppu.w", func(a []string) {
		ppuWrite(ai(a, 1), uint8(ai(a, 2)))
		emit("w %d %d", ai(a, 1), ai(a, 2)&0xff)
	})
	// ppu.wi REG V: like ppu.w with IF cleared before the write and IF bits 1-0 printed after it
	register("ppu.wi", func(a []string) {
		pI.WriteIF(0)
		ppuWrite(ai(a, 1), uint8(ai(a, 2)))
		emit("w %d %d", ai(a, 1), ai(a, 2)&0xff)
		emit("I %d", pI.ReadIF()&3)
	})
	register("ppu.r", func(a []string) { emit("%d", ppuRead(ai(a, 1))) })
	register("ppu.st", func(a []string) {
		s := pP.VGetState()
		o := pO.VGetState()
		emit("ppu en=%d mode=%d ticks=%d first=%d ly=%d co=%d | oam corrupt=%d pla=%d r=%d w=%d dw=%d",
			b2i(s.Enabled), s.Mode, s.Ticks, b2i(s.FirstLine), s.LY, b2i(s.Coincidence),
			b2i(o.Corrupt), o.PPULastAccess, b2i(o.Read), b2i(o.Write), b2i(o.DoubleWrite))
	})
	register("ppu.ov", func(a []string) {
		ov := pP.VOverlaps()
		var sb strings.Builder
		for _, b := range ov {
			sb.WriteByte(byte('0' + b2i(b)))
		}
		emit("ov %s", sb.String())
	})
	register("vram.w", func(a []string) { pP.WriteVideoRAM(uint16(ai(a, 1)), uint8(ai(a, 2))) })
	register("vram.r", func(a []string) { emit("%d", pP.ReadVideoRAM(uint16(ai(a, 1)))) })
	register("if.clear", func(a []string) { pI.WriteIF(0) })
	register("if.r", func(a []string) { emit("%d", pI.ReadIF()&0x1f) })

	register("oam.w", func(a []string) { pO.Write(uint16(ai(a, 1)), uint8(ai(a, 2))) })
	register("oam.r", func(a []string) { emit("%d", pO.Read(uint16(ai(a, 1)))) })
	register("oam.pr", func(a []string) { emit("%d", pO.PPURead(uint16(ai(a, 1)))) })
	register("oam.trig", func(a []string) { pO.TriggerWriteCorruption(uint16(ai(a, 1))) })
	register("oam.corrupt", func(a []string) { pO.Corrupt() })
	register("oam.enter", func(a []string) { pO.EnterMode2() })
	register("oam.exit", func(a []string) { pO.ExitMode2() })
	register("oam.pla", func(a []string) { pO.VSetPPULastAccess(uint16(ai(a, 1))) })
	// oam.fill A B: byte i := (i*A + B) mod 256, bypassing the bookkeeping
	register("oam.fill", func(a []string) {
		var b [0xa0]byte
		for i := range b {
			b[i] = byte(i*ai(a, 1) + ai(a, 2))
		}
		pO.VSetBytes(b)
	})
	register("oam.dump", func(a []string) {
		b := pO.VBytes()
		var sb strings.Builder
		for _, x := range b {
			fmt.Fprintf(&sb, "%02x", x)
		}
		emit("oam %s", sb.String())
	})
	register("oam.st", func(a []string) {
		o := pO.VGetState()
		emit("dma run=%d cyc=%d base=%d rd=%d | corrupt=%d pla=%d r=%d w=%d dw=%d",
			b2i(o.DMARunning), o.DMACycle, o.DMABaseAddr, o.DMARead,
			b2i(o.Corrupt), o.PPULastAccess, b2i(o.Read), b2i(o.Write), b2i(o.DoubleWrite))
	})
	register("dma.start", func(a []string) { pO.WriteDMA(uint8(ai(a, 1))) })
	register("dma.r", func(a []string) { emit("%d", pO.ReadDMA()) })
	// dma.run N A B: N DMA ticks with the source oracle dmaSrc(addr, t, A, B); after each tick OAM is read
	// through Read at FE00 + (37*t mod 256); prints "running" flag changes and the values read, run-length encoded
	register("dma.run", func(a []string) {
		var r rle
		n, ca, cb := ai(a, 1), ai(a, 2), ai(a, 3)
		for i := 0; i < n; i++ {
			t := dmaT
			pO.TickDMA(func(addr uint16) uint8 { return uint8(dmaSrc(int(addr), t, ca, cb)) })
			dmaT++
			v := pO.Read(uint16(0xfe00 + (37*dmaT)&0xff))
			r.add(fmt.Sprintf("%d", v))
		}
		emit("D%s", r.String())
	})
}
