package main

// Operations on the real audio.Audio (gameboy/audio), reached through a real memory.Mapper for FF10-FF3F so
// that the routing table of mapper.go is exercised as well.  Mirrors coq/extract/r_apu.ml line by line.

import (
	"fmt"
	"math"
	"strings"

	"github.com/scottyw/tetromino/gameboy/audio"
	"github.com/scottyw/tetromino/gameboy/memory"
)

var (
	apuA       *audio.Audio
	apuM       *memory.Mapper
	apuL, apuR chan float32
	apuLs      []int // left numerators received since the last apu.samples
	apuRs      []int
	apuBad     int // samples that were NaN/Inf or outside [0,1)
)

const apuChk = 1000000007

func apuNew(att int) {
	apuL, apuR = nil, nil
	if att == 1 || att == 2 {
		apuL = make(chan float32, 64)
	}
	if att == 1 || att == 3 {
		apuR = make(chan float32, 64)
	}
	apuA = audio.New(apuL, apuR)
	// only FF10-FF3F are used, which reach nothing but the audio component
	apuM = memory.New(make([]byte, 0x8000), nil, nil, nil, nil, nil, nil, apuA)
	apuLs, apuRs, apuBad = nil, nil, 0
}

func apuNum(x float32) int {
	f := float64(x)
	if math.IsNaN(f) || math.IsInf(f, 0) || f < 0 || f >= 1 {
		apuBad++
		return -1
	}
	return int(math.Round(f * 6400))
}

// apuDrain moves everything the APU has sent into the buffers; returns the number of complete pairs added
// and folds them into the checksum.
func apuDrain(idx int, chk *int) int {
	n0 := len(apuLs)
	if n0 > len(apuRs) {
		n0 = len(apuRs)
	}
	for apuL != nil {
		select {
		case x := <-apuL:
			apuLs = append(apuLs, apuNum(x))
			continue
		default:
		}
		break
	}
	for apuR != nil {
		select {
		case x := <-apuR:
			apuRs = append(apuRs, apuNum(x))
			continue
		default:
		}
		break
	}
	n1 := len(apuLs)
	if n1 > len(apuRs) {
		n1 = len(apuRs)
	}
	if chk != nil {
		for i := n0; i < n1; i++ {
			*chk = (*chk*1000003 + (idx*16777259+apuLs[i]*8209+apuRs[i]+1)%apuChk) % apuChk
		}
	}
	return n1 - n0
}

type apuRle struct {
	sb    strings.Builder
	cur   string
	count int
	first bool
}

func (r *apuRle) add(s string) {
	if r.count > 0 && s == r.cur {
		r.count++
		return
	}
	r.flush()
	r.cur, r.count = s, 1
}
func (r *apuRle) flush() {
	if r.count > 0 {
		if r.sb.Len() > 0 {
			r.sb.WriteByte(',')
		}
		fmt.Fprintf(&r.sb, "%sx%d", r.cur, r.count)
	}
	r.count = 0
}
func (r *apuRle) String() string { r.flush(); return r.sb.String() }

func joinInts(xs ...int) string {
	parts := make([]string, len(xs))
	for i, x := range xs {
		parts[i] = fmt.Sprint(x)
	}
	return strings.Join(parts, " ")
}

func apuSel(sel int) string {
	st := apuA.VGetState()
	var parts []string
	if sel&1 != 0 {
		parts = append(parts, fmt.Sprint(st.DutyIndex1))
	}
	if sel&2 != 0 {
		parts = append(parts, fmt.Sprint(st.DutyIndex2))
	}
	if sel&4 != 0 {
		parts = append(parts, fmt.Sprint(st.Position3))
	}
	if sel&8 != 0 {
		parts = append(parts, fmt.Sprint(st.LFSR))
	}
	if sel&16 != 0 {
		parts = append(parts, fmt.Sprint(st.Timer1), fmt.Sprint(st.Timer2), fmt.Sprint(st.Timer3), fmt.Sprint(st.Timer4))
	}
	if sel&32 != 0 {
		parts = append(parts, fmt.Sprint(apuM.Read(0xff26)))
	}
	return strings.Join(parts, "/")
}

// minimal p >= 1 with seq[i+p] == seq[i] for all i in [from, len-p); 0 when none below len/2
func seqPeriod(seq []int, from int) int {
	n := len(seq)
	for p := 1; p <= (n-from)/2; p++ {
		ok := true
		for i := from; i+p < n; i++ {
			if seq[i+p] != seq[i] {
				ok = false
				break
			}
		}
		if ok {
			return p
		}
	}
	return 0
}

func init() {
	onReset(func() { apuNew(1) })
	register("apu.new", func(a []string) { apuNew(ai(a, 1)) })
	register("apu.w", func(a []string) { apuM.Write(uint16(ai(a, 1)), uint8(ai(a, 2))) })
	register("apu.r", func(a []string) { emit("%d", apuM.Read(uint16(ai(a, 1)))) })
	register("apu.rall", func(a []string) {
		var sb strings.Builder
		for addr := 0xff10; addr < 0xff40; addr++ {
			if addr > 0xff10 {
				sb.WriteByte(' ')
			}
			fmt.Fprintf(&sb, "%d", apuM.Read(uint16(addr)))
		}
		emit("%s", sb.String())
	})
	// apu.cyc N: N machine cycles; NR52 after each cycle (run-length), pairs emitted, checksum over (cycle, l, r)
	register("apu.cyc", func(a []string) {
		n := ai(a, 1)
		var r apuRle
		pairs, chk := 0, 0
		for i := 0; i < n; i++ {
			apuA.EndMachineCycle()
			pairs += apuDrain(i, &chk)
			r.add(fmt.Sprintf("%d", apuM.Read(0xff26)))
		}
		emit("c %s p %d k %d", r.String(), pairs, chk)
	})
	// apu.clk N SEL: N single clock ticks through the hook; change points of the selected observables
	register("apu.clk", func(a []string) {
		n, sel := ai(a, 1), ai(a, 2)
		var sb strings.Builder
		cur := apuSel(sel)
		fmt.Fprintf(&sb, "0:%s", cur)
		pairs := 0
		for i := 1; i <= n; i++ {
			apuA.VTickClock()
			pairs += apuDrain(i, nil)
			v := apuSel(sel)
			if v != cur {
				fmt.Fprintf(&sb, " %d:%s", i, v)
				cur = v
			}
		}
		emit("t %s p %d", sb.String(), pairs)
	})
	register("apu.samples", func(a []string) {
		var r apuRle
		n := len(apuLs)
		if n > len(apuRs) {
			n = len(apuRs)
		}
		for i := 0; i < n; i++ {
			r.add(fmt.Sprintf("%d:%d", apuLs[i], apuRs[i]))
		}
		emit("s %d %d %d %s", len(apuLs), len(apuRs), apuBad, r.String())
		apuLs, apuRs = nil, nil
	})
	register("apu.st", func(a []string) {
		s := apuA.VGetState()
		x := apuA.VGetAux()
		emit("st %s | %s",
			joinInts(int(s.Ticks), int(s.FrameSeqTicks), b2i(s.On), int(s.Duty1), int(s.Duty2), int(s.DutyIndex1), int(s.DutyIndex2),
				int(s.Timer1), int(s.Timer2), int(s.Timer3), int(s.Timer4), int(s.Position3), int(s.LFSR),
				int(s.Length1), int(s.Length2), int(s.Length4), int(s.Length3),
				b2i(s.Enabled1), b2i(s.Enabled2), b2i(s.Enabled3), b2i(s.Enabled4),
				int(s.Volume1), int(s.Volume2), int(s.Volume4), int(s.Freq1), int(s.Freq2), int(s.Freq3)),
			joinInts(int(x.Shadow), int(x.SweepTimer), b2i(x.SweepEnabled), b2i(x.SweepDescending),
				int(x.EnvTimer1), int(x.EnvTimer2), int(x.EnvTimer4),
				int(x.SampleBuffer), int(x.LastAccessed), int(x.SampleTimer), int(x.Shift),
				b2i(x.Triggered1), b2i(x.Triggered2), b2i(x.Triggered3), b2i(x.Triggered4),
				b2i(x.LenEn1), b2i(x.LenEn2), b2i(x.LenEn3), b2i(x.LenEn4),
				b2i(x.Dac1), b2i(x.Dac2), b2i(x.Dac3), b2i(x.Dac4)))
	})
	register("apu.setticks", func(a []string) { apuA.VSetTicks(uint64(ai(a, 1)), uint64(ai(a, 2))) })
	register("apu.setlfsr", func(a []string) { apuA.VSetLFSR(uint16(ai(a, 1))) })
	// apu.lfsrper K MAXCLK: clock until K shift-register steps happened (a step happens in a clock that starts
	// with the noise timer at 0); period of the state sequence and of the output bit from step 16 on, the
	// number of clocks between consecutive steps (0 if not constant), and the first 8 states
	register("apu.lfsrper", func(a []string) {
		k, maxclk := ai(a, 1), ai(a, 2)
		var states, outs []int
		lastStep, gap, gapOK := -1, 0, true
		for c := 0; c < maxclk && len(states) < k; c++ {
			step := apuA.VGetState().Timer4 == 0
			apuA.VTickClock()
			apuDrain(c, nil)
			if step {
				l := int(apuA.VGetState().LFSR)
				states = append(states, l)
				outs = append(outs, l&1)
				if lastStep >= 0 {
					if gap == 0 {
						gap = c - lastStep
					} else if gap != c-lastStep {
						gapOK = false
					}
				}
				lastStep = c
			}
		}
		if !gapOK {
			gap = 0
		}
		var sb strings.Builder
		for i := 0; i < 8 && i < len(states); i++ {
			fmt.Fprintf(&sb, " %d", states[i])
		}
		emit("lp %d %d %d %d%s", len(states), seqPeriod(states, 16), seqPeriod(outs, 16), gap, sb.String())
	})
}
