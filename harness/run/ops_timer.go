package main

import (
	"github.com/scottyw/tetromino/gameboy/audio"
	"github.com/scottyw/tetromino/gameboy/controller"
	"github.com/scottyw/tetromino/gameboy/interrupts"
	"github.com/scottyw/tetromino/gameboy/memory"
	"github.com/scottyw/tetromino/gameboy/oam"
	"github.com/scottyw/tetromino/gameboy/ppu"
	"github.com/scottyw/tetromino/gameboy/serial"
	"github.com/scottyw/tetromino/gameboy/timer"
)

// Script operations tm.* on the real timer.Timer (same names and output format as coq/extract/r_timer.ml).

var tm *timer.Timer

// the same timer behind the real address decoder: wired as gameboy.New wires it (ROM-only 32 KiB image)
var tmbTimer *timer.Timer
var tmbIrq *interrupts.Interrupts
var tmbBus *memory.Mapper

func tmbNew() {
	tmbIrq = interrupts.New()
	o := oam.New()
	tmbTimer = timer.New()
	tmbBus = memory.New(make([]byte, 0x8000), tmbIrq, o, ppu.New(tmbIrq, o, false), controller.New(),
		serial.New(nil), tmbTimer, audio.New(nil, nil))
	tmbBus.Write(0xff0f, 0)
}

func tmObs() (int, int, int, int) {
	return int(tm.ReadDIV()), int(tm.ReadTIMA()), int(tm.ReadTMA()), int(tm.ReadTAC())
}

// tmApply performs one encoded operation (kind*256 + value; kinds 0 tick, 1 wDIV, 2 wTIMA, 3 wTMA, 4 wTAC)
// and returns the interrupt request of the operation.
func tmApply(t *timer.Timer, code int) bool {
	v := uint8(code & 255)
	switch code >> 8 {
	case 0:
		return t.EndMachineCycle()
	case 1:
		t.WriteDIV(v)
	case 2:
		t.WriteTIMA(v)
	case 3:
		t.WriteTMA(v)
	case 4:
		t.WriteTAC(v)
	default:
		panic("bad op code")
	}
	return false
}

const tmMask40 = (1 << 40) - 1

func tmMix(h int64, irq bool, t *timer.Timer) int64 {
	x := int64(t.ReadDIV()) + 256*(int64(t.ReadTIMA())+256*(int64(t.ReadTMA())+256*int64(t.ReadTAC())))
	x *= 2
	if irq {
		x++
	}
	return (h*1000003 + x) & tmMask40
}

// tmDfs enumerates every operation sequence of length depth over alpha from a copy of t.
func tmDfs(alpha []int, t *timer.Timer, depth int, h int64, nt bool) (int64, int) {
	if depth == 0 {
		if nt {
			return h, 1
		}
		return h, 0
	}
	cnt := 0
	for _, code := range alpha {
		c := *t
		irq := tmApply(&c, code)
		nt2 := nt || irq || c.ReadTIMA() != t.ReadTIMA()
		var k int
		h, k = tmDfs(alpha, &c, depth-1, tmMix(h, irq, &c), nt2)
		cnt += k
	}
	return h, cnt
}

func tmLcg(x int64) int64 { return (x*1103515245 + 12345) & 0x7fffffff }

func tmRandCode(x int64) int {
	kind := int(x>>8) & 15
	v := int(x>>16) & 255
	switch kind {
	case 10:
		if v < 64 {
			return 1<<8 | v
		}
		return 0
	case 11:
		return 2<<8 | v | 0xf8
	case 12:
		return 3<<8 | v
	case 13:
		return 4<<8 | 5
	case 14:
		return 4<<8 | v
	case 15:
		return 2<<8 | v
	}
	return 0
}

func init() {
	onReset(func() { tm = timer.New() })
	register("tm.new", func(a []string) { tm = timer.New() })
	register("tm.setc", func(a []string) { tm.VSetCounter(uint16(ai(a, 1))) })
	register("tm.tick", func(a []string) {
		irq := 0
		if tm.EndMachineCycle() {
			irq = 1
		}
		d, t, m, c := tmObs()
		emit("%d %d %d %d %d", irq, d, t, m, c)
	})
	register("tm.wdiv", func(a []string) { tm.WriteDIV(uint8(ai(a, 1))) })
	register("tm.wtima", func(a []string) { tm.WriteTIMA(uint8(ai(a, 1))) })
	register("tm.wtma", func(a []string) { tm.WriteTMA(uint8(ai(a, 1))) })
	register("tm.wtac", func(a []string) { tm.WriteTAC(uint8(ai(a, 1))) })
	register("tm.r", func(a []string) {
		d, t, m, c := tmObs()
		emit("%d %d %d %d", d, t, m, c)
	})
	register("tm.c", func(a []string) { emit("%d", tm.VCounter()) })
	register("tm.sweep", func(a []string) {
		depth := ai(a, 1)
		alpha := make([]int, 0, len(a)-2)
		for i := 2; i < len(a); i++ {
			alpha = append(alpha, ai(a, i))
		}
		for i, code := range alpha {
			c := *tm
			irq := tmApply(&c, code)
			nt := irq || c.ReadTIMA() != tm.ReadTIMA()
			h, k := tmDfs(alpha, &c, depth-1, tmMix(0, irq, &c), nt)
			emit("%d %d %d", i, h, k)
		}
	})
	// tmb.*: registers accessed through Mapper.Read/Write (FF04-FF07); tmb.cycle ends a machine cycle the way
	// runFrame does (EndMachineCycle, then RequestTimer on true) and prints IF bit 2 and the four registers
	onReset(func() { tmbBus = nil })
	register("tmb.new", func(a []string) { tmbNew() })
	register("tmb.setc", func(a []string) { tmbTimer.VSetCounter(uint16(ai(a, 1))) })
	register("tmb.w", func(a []string) { tmbBus.Write(uint16(ai(a, 1)), uint8(ai(a, 2))) })
	register("tmb.r", func(a []string) {
		emit("%d %d %d %d", tmbBus.Read(0xff04), tmbBus.Read(0xff05), tmbBus.Read(0xff06), tmbBus.Read(0xff07))
	})
	register("tmb.cycle", func(a []string) {
		if tmbTimer.EndMachineCycle() {
			tmbIrq.RequestTimer()
		}
		irq := (tmbBus.Read(0xff0f) >> 2) & 1
		tmbBus.Write(0xff0f, 0)
		emit("%d %d %d %d %d", irq, tmbBus.Read(0xff04), tmbBus.Read(0xff05), tmbBus.Read(0xff06), tmbBus.Read(0xff07))
	})
	register("tm.rand", func(a []string) {
		x := int64(ai(a, 1))
		n := ai(a, 2)
		var h int64
		irqs := 0
		for i := 1; i <= n; i++ {
			x = tmLcg(x)
			irq := tmApply(tm, tmRandCode(x))
			if irq {
				irqs++
			}
			h = tmMix(h, irq, tm)
			if i%256 == 0 || i == n {
				emit("%d %d %d", i, h, irqs)
			}
		}
	})
}
