package main

// Script operations on the real gameboy.Gameboy (gameboy.New / runFrame / Run), several instances per process.
// GLFW, GL and PortAudio are the pure-Go stand-ins of harness/stubs.

import (
	"path/filepath"
	"bytes"
	"context"
	"io/ioutil"
	"math"
	"os"
	"strings"
	"sync"
	"time"

	"github.com/go-gl/glfw/v3.1/glfw"
	"github.com/gordonklaus/portaudio"
	"github.com/scottyw/tetromino/gameboy"
	"github.com/scottyw/tetromino/gameboy/controller"
	"github.com/scottyw/tetromino/gameboy/cpu"
)

type gbInst struct {
	gb  *gameboy.Gameboy
	ser *bytes.Buffer
	win *glfw.Window      // the stub window of this instance's display (nil without video)
	pa  *portaudio.Stream // the stub stream of this instance's speakers (nil without audio)
}

var gbs = map[int]*gbInst{}

// gbDebugLCD: the next machine is created with Config.DebugLCD (the 256x256 debugging picture); set by gb.newloop's DBG flag
var gbDebugLCD bool

func gbNew(idx int, path string, ser, aud, vid bool) {
	inst := &gbInst{}
	cfg := gameboy.Config{RomFilename: path, DisableVideoOutput: !vid, DisableAudioOutput: !aud, DebugLCD: gbDebugLCD}
	gbDebugLCD = false
	if ser {
		inst.ser = &bytes.Buffer{}
		cfg.SerialWriter = inst.ser
	}
	glfw.Current = nil
	portaudio.Last = nil
	inst.gb = gameboy.New(cfg)
	inst.pa = portaudio.Last
	if inst.pa != nil {
		inst.pa.SetBacklog(inst.gb.VSampleBacklog)
	}
	inst.win = glfw.Current
	gbs[idx] = inst
}

func (g *gbInst) cycle() {
	gb := g.gb
	gb.VCPU().ExecuteMachineCycle()
	gb.VPPU().EndMachineCycle()
	gb.VMapper().EndMachineCycle()
	gb.VAudio().EndMachineCycle()
	if gb.VTimer().EndMachineCycle() {
		gb.VInterrupts().RequestTimer()
	}
}

func (g *gbInst) obs() string {
	gb := g.gb
	r := gb.VCPU().VGetRegs()
	h, hb, st := gb.VCPU().VGetMode()
	rtc := gb.VMapper().VGetRTC()
	ps := gb.VPPU().VGetState()
	as := gb.VAudio().VGetState()
	return sprintf("%d %d %d %d %d %d %d %d %d %d %d %d %d %d | div %d tima %d | ly %d mode %d pticks %d | rtc %d | aticks %d fseq %d | if %d",
		r.A, r.B, r.C, r.D, r.E, r.F, r.H, r.L, r.SP, r.PC, b2i(h), b2i(hb), b2i(st), b2i(gb.VInterrupts().Enabled()),
		gb.VTimer().VCounter(), gb.VMapper().Read(0xff05), ps.LY, ps.Mode, ps.Ticks, rtc.Ticks, as.Ticks, as.FrameSeqTicks,
		gb.VMapper().Read(0xff0f))
}

func (g *gbInst) pix() uint64 {
	fr := g.gb.VPPU().Frame()
	h := uint64(7)
	for y := 0; y < 144; y++ {
		for x := 0; x < 160; x++ {
			c := fr.RGBAAt(x, y)
			v := uint64(shadeChar(c.R) - '0')
			if c.A == 0 {
				v = 4
			}
			h = ((h * 1000003) ^ v) & 0xFFFFFFFFFF
		}
	}
	return h
}

func init() {
	onReset(func() {
		gbs = map[int]*gbInst{}
		glfw.Reset()
		portaudio.Reset()
	})
	register("gb.new", func(a []string) {
		gbNew(ai(a, 1), strings.ReplaceAll(a[2], "%20", " "), optBool(a, 3, true), optBool(a, 4, false), optBool(a, 5, false))
	})
	register("gb.newsyn", func(a []string) {
		romc := ai(a, 3)
		img := makeImage(0x8000<<uint(romc), ai(a, 2), romc, ai(a, 4))
		f, err := ioutil.TempFile("", "verif-rom-*.gb")
		if err != nil {
			panic(err)
		}
		f.Write(img)
		f.Close()
		defer os.Remove(f.Name())
		gbNew(ai(a, 1), f.Name(), true, false, false)
	})
	register("gb.newloop", func(a []string) {
		romc := ai(a, 3)
		img := make([]byte, 0x8000<<uint(romc))
		img[0x100], img[0x101] = 0x18, 0xfe
		img[0x147], img[0x148], img[0x149] = byte(ai(a, 2)), byte(romc), byte(ai(a, 4))
		f, err := ioutil.TempFile("", "verif-rom-*.gb")
		if err != nil {
			panic(err)
		}
		f.Write(img)
		f.Close()
		defer os.Remove(f.Name())
		// gb.newloop I TYPE ROMCODE RAMCODE [AUD VID SER DBG]: SER = 0 configures no serial writer; DBG = 1 creates the machine
		// with Config.DebugLCD (such a machine is only stepped, never observed: the model has no debugging picture)
		gbDebugLCD = optBool(a, 8, false)
		gbNew(ai(a, 1), f.Name(), optBool(a, 7, true), optBool(a, 5, false), optBool(a, 6, false))
	})
	// gb.newsame I TYPE ROMCODE RAMCODE [AUD VID]: like gb.newloop, but every image of the process is written to the same
	// path (the file is rewritten for each machine, as a front end reloading "the current ROM" does)
	register("gb.newsame", func(a []string) {
		romc := ai(a, 3)
		img := make([]byte, 0x8000<<uint(romc))
		img[0x100], img[0x101] = 0x18, 0xfe
		img[0x147], img[0x148], img[0x149] = byte(ai(a, 2)), byte(romc), byte(ai(a, 4))
		path := filepath.Join(os.TempDir(), sprintf("verif-rom-same-%d.gb", os.Getpid()))
		if err := ioutil.WriteFile(path, img, 0644); err != nil {
			panic(err)
		}
		defer os.Remove(path)
		gbNew(ai(a, 1), path, true, optBool(a, 5, false), optBool(a, 6, false))
	})
	register("gb.frames", func(a []string) {
		g := gbs[ai(a, 1)]
		for i := 0; i < ai(a, 2); i++ {
			g.gb.VRunFrame(context.Background())
		}
	})
	// gb.framesc I N: N frame steps with a context that is already cancelled: a frame that has started runs to its end
	// (Run only looks at the context between frames)
	register("gb.framesc", func(a []string) {
		g := gbs[ai(a, 1)]
		ctx, cancel := context.WithCancel(context.Background())
		cancel()
		for i := 0; i < ai(a, 2); i++ {
			g.gb.VRunFrame(ctx)
		}
	})
	register("gb.cyc", func(a []string) {
		g := gbs[ai(a, 1)]
		for i := 0; i < ai(a, 2); i++ {
			g.cycle()
		}
	})
	register("gb.obs", func(a []string) { emit("%s", gbs[ai(a, 1)].obs()) })
	register("gb.pix", func(a []string) { emit("pix %d", gbs[ai(a, 1)].pix()) })
	register("gb.serial", func(a []string) {
		g := gbs[ai(a, 1)]
		var sb strings.Builder
		if g.ser != nil {
			for _, b := range g.ser.Bytes() {
				sb.WriteString(sprintf("%02x", b))
			}
		}
		emit("ser %s", sb.String())
	})
	register("gb.r", func(a []string) { emit("%d", gbs[ai(a, 1)].gb.VMapper().Read(uint16(ai(a, 2)))) })
	register("gb.w", func(a []string) { gbs[ai(a, 1)].gb.VMapper().Write(uint16(ai(a, 2)), uint8(ai(a, 3))) })
	register("gb.rr", func(a []string) {
		var sb strings.Builder
		m := gbs[ai(a, 1)].gb.VMapper()
		for ad := ai(a, 2); ad <= ai(a, 3); ad++ {
			sb.WriteString(sprintf("%02x", m.Read(uint16(ad))))
		}
		emit("%s", sb.String())
	})
	register("gb.dump", func(a []string) {
		n, h := digestBytes(gbs[ai(a, 1)].gb.VMapper().DumpRAM())
		emit("dump %d %d", n, h)
	})
	register("gb.btn", func(a []string) {
		gbs[ai(a, 1)].gb.VController().ButtonAction(controller.Button(ai(a, 2)), ab(a, 3))
	})
	// gb.key I KEYCODE ACTION: a key event on the instance's window (GLFW key code; 0 release, 1 press, 2 repeat), delivered
	// through the callback that gameboy.New installed (Controller.ButtonAction + CPU.OnInput); no window: nothing happens
	register("gb.key", func(a []string) {
		gbs[ai(a, 1)].win.Fire(glfw.Key(ai(a, 2)), glfw.Action(ai(a, 3)))
	})
	// gb.audio I: the samples delivered to the (slow) audio consumer so far, in whole callback buffers of 63 stereo pairs:
	// count and digest of round(6400*sample); the consumer is waited for, so the line does not depend on scheduling
	register("gb.audio", func(a []string) {
		g := gbs[ai(a, 1)]
		if g.pa == nil {
			emit("audio none")
			return
		}
		xs := g.pa.Quiesce()
		h := uint64(7)
		bad := 0
		for _, x := range xs {
			f := float64(x)
			v := uint64(0)
			if math.IsNaN(f) || math.IsInf(f, 0) || f < 0 || f >= 1 {
				bad++
			} else {
				v = uint64(math.Round(f * 6400))
			}
			h = ((h * 1000003) ^ v) & 0xFFFFFFFFFF
		}
		emit("audio %d %d bad=%d", len(xs)/2, h, bad)
	})
	// gb.audiobits I: digest of the exact float32 bit patterns delivered so far (whole buffers): the model has no floats, so
	// this line is compared between runs of the implementation only (bit-identical samples are part of determinism)
	register("gb.audiobits", func(a []string) {
		g := gbs[ai(a, 1)]
		if g.pa == nil {
			emit("audiobits none")
			return
		}
		h := uint64(7)
		for _, x := range g.pa.Quiesce() {
			h = ((h * 1000003) ^ uint64(math.Float32bits(x))) & 0xFFFFFFFFFFFF
		}
		emit("audiobits %d", h)
	})
	register("gb.set", func(a []string) {
		gbs[ai(a, 1)].gb.VCPU().VSetRegs(cpu.VRegs{A: uint8(ai(a, 2)), B: uint8(ai(a, 3)), C: uint8(ai(a, 4)), D: uint8(ai(a, 5)),
			E: uint8(ai(a, 6)), F: uint8(ai(a, 7)), H: uint8(ai(a, 8)), L: uint8(ai(a, 9)), SP: uint16(ai(a, 10)), PC: uint16(ai(a, 11))})
	})
	// gb.conc N FRAMES: instances 0..N-1 each run FRAMES frames in their own goroutine, concurrently
	register("gb.conc", func(a []string) {
		n, frames := ai(a, 1), ai(a, 2)
		var wg sync.WaitGroup
		for i := 0; i < n; i++ {
			wg.Add(1)
			go func(g *gbInst) {
				defer wg.Done()
				for k := 0; k < frames; k++ {
					g.gb.VRunFrame(context.Background())
				}
			}(gbs[i])
		}
		wg.Wait()
	})
	// gb.runclose I K : the stub window asks to close after K frames; Run must return after exactly K frames and
	// release its outputs once.  Prints: frames drawn, glfw terminations, portaudio stream closes/terminations.
	register("gb.runclose", func(a []string) {
		g := gbs[ai(a, 1)]
		before := glfw.SwapCalls // frames drawn by earlier gb.frames operations do not count
		glfw.CloseAfter = before + ai(a, 2)
		done := make(chan struct{})
		go func() { g.gb.Run(context.Background()); close(done) }()
		select {
		case <-done:
			emit("run returned frames=%d glfwTerminate=%d paClose=%d paTerminate=%d", glfw.SwapCalls-before, glfw.TerminateCalls, portaudio.CloseCalls, portaudio.TerminateCalls)
		case <-time.After(12 * time.Second):
			emit("run did not return")
		}
	})
	// gb.dbgser CYCLES: the command line's debugging configuration - Config.DebugCPU with os.Stdout as the serial writer.  The
	// process's standard output is pointed at a scratch file while the machine exists; the guest streams the bytes F0..FF
	// to SB; the bytes >= F0 found in that file afterwards (the instruction trace is plain ASCII) are the ones delivered.
	register("gb.dbgser", func(a []string) {
		f, err := ioutil.TempFile("", "verif-stdout-*")
		if err != nil {
			panic(err)
		}
		defer os.Remove(f.Name())
		old := os.Stdout
		os.Stdout = f
		restore := func() { os.Stdout = old }
		defer restore()
		img := make([]byte, 0x8000)
		img[0x100], img[0x101] = 0x18, 0xfe
		rf, err := ioutil.TempFile("", "verif-rom-*.gb")
		if err != nil {
			panic(err)
		}
		rf.Write(img)
		rf.Close()
		defer os.Remove(rf.Name())
		g := &gbInst{gb: gameboy.New(gameboy.Config{RomFilename: rf.Name(), DisableVideoOutput: true, DisableAudioOutput: true,
			DebugCPU: true, SerialWriter: os.Stdout})}
		// LD A,F0 ; loop: LDH (01),A ; INC A ; JR NZ,loop ; JR start
		for i, b := range []byte{0x3e, 0xf0, 0xe0, 0x01, 0x3c, 0x20, 0xfb, 0x18, 0xf7} {
			g.gb.VMapper().Write(uint16(0xc000+i), b)
		}
		g.gb.VCPU().VSetRegs(cpu.VRegs{A: 1, SP: 0xdfff, PC: 0xc000})
		for i := 0; i < ai(a, 1); i++ {
			g.cycle()
		}
		restore()
		f.Close()
		data, _ := ioutil.ReadFile(f.Name())
		var sb strings.Builder
		for _, b := range data {
			if b >= 0xf0 {
				sb.WriteString(sprintf("%02x", b))
			}
		}
		emit("dbgser %s", sb.String())
	})
	// gb.rundeadline I MS : like gb.runcancel with a context that ends by its deadline (context.WithTimeout), the way the
	// repository's own ROM runners stop the machine
	register("gb.rundeadline", func(a []string) {
		g := gbs[ai(a, 1)]
		ctx, cancel := context.WithTimeout(context.Background(), time.Duration(ai(a, 2))*time.Millisecond)
		defer cancel()
		done := make(chan struct{})
		go func() { g.gb.Run(ctx); close(done) }()
		<-ctx.Done()
		before := glfw.SwapCalls
		select {
		case <-done:
			extra := glfw.SwapCalls - before
			emit("run returned extra_le_1=%d glfwTerminate=%d paClose=%d paTerminate=%d", b2i(extra <= 1), glfw.TerminateCalls, portaudio.CloseCalls, portaudio.TerminateCalls)
		case <-time.After(20 * time.Second):
			emit("run did not return")
		}
	})
	// gb.runcancel I MS : Run in a goroutine, cancel the context after MS milliseconds; Run must return after at most
	// one further frame and release its outputs once.  Prints a canonical verdict (timing-dependent counts are not printed).
	register("gb.runcancel", func(a []string) {
		g := gbs[ai(a, 1)]
		ctx, cancel := context.WithCancel(context.Background())
		done := make(chan struct{})
		go func() { g.gb.Run(ctx); close(done) }()
		time.Sleep(time.Duration(ai(a, 2)) * time.Millisecond)
		cancel()
		// read after the cancellation: only the frame in progress may still complete
		before := glfw.SwapCalls
		select {
		case <-done:
			extra := glfw.SwapCalls - before
			okExtra := extra <= 1
			emit("run returned extra_le_1=%d glfwTerminate=%d paClose=%d paTerminate=%d", b2i(okExtra), glfw.TerminateCalls, portaudio.CloseCalls, portaudio.TerminateCalls)
		case <-time.After(12 * time.Second):
			emit("run did not return")
		}
	})
}
