package main

// Sweep operations over the whole address space of the machine of ops_sys.go (C06 / C07): every access goes
// through the real Mapper.Read / Mapper.Write.

import (
	"strings"
)

var mapPrev []byte

func mapSnapshot() []byte {
	b := make([]byte, 65536)
	for a := 0; a < 65536; a++ {
		b[a] = sm.mapper.Read(uint16(a))
	}
	return b
}

func mapValue(v, k, l, a int) uint8 { return uint8((v + k*(a&0xff) + l*(a>>8)) & 0xff) }

func fmtRange(w int, lo, hi int) string {
	if lo == hi {
		return sprintf("%0*x", w, lo)
	}
	return sprintf("%0*x-%0*x", w, lo, w, hi)
}

func mapDiffLine(tag string, o, n []byte) string {
	cnt := 0
	h := uint64(7)
	type rg struct{ lo, hi int }
	var ranges, pages []rg
	start, last := -1, -2
	closeRange := func() {
		if start >= 0 {
			ranges = append(ranges, rg{start, last})
		}
	}
	for a := 0; a < 65536; a++ {
		if o[a] != n[a] {
			cnt++
			h = ((h * 1000003) ^ uint64(a*256+int(n[a]))) & 0xFFFFFFFFFF
			if a == last+1 && start >= 0 {
				last = a
			} else {
				closeRange()
				start, last = a, a
			}
			pg := a >> 8
			if len(pages) > 0 && pages[len(pages)-1].hi == pg {
			} else if len(pages) > 0 && pages[len(pages)-1].hi+1 == pg {
				pages[len(pages)-1].hi = pg
			} else {
				pages = append(pages, rg{pg, pg})
			}
		}
	}
	closeRange()
	r := "many"
	if len(ranges) <= 64 {
		var p []string
		for _, x := range ranges {
			p = append(p, fmtRange(4, x.lo, x.hi))
		}
		r = strings.Join(p, ",")
	}
	var pp []string
	for _, x := range pages {
		pp = append(pp, fmtRange(2, x.lo, x.hi))
	}
	return sprintf("%s n=%d r=%s p=%s h=%d", tag, cnt, r, strings.Join(pp, ","), h)
}

func init() {
	onReset(func() { mapPrev = nil })
	register("map.wr", func(a []string) {
		var sb strings.Builder
		for ad := ai(a, 1); ad <= ai(a, 2); ad++ {
			sm.mapper.Write(uint16(ad), mapValue(ai(a, 3), ai(a, 4), ai(a, 5), ad))
			sb.WriteString(sprintf("%02x", sm.mapper.Read(uint16(ad))))
		}
		emit("%s", sb.String())
	})
	register("map.fill", func(a []string) {
		for ad := ai(a, 1); ad <= ai(a, 2); ad++ {
			sm.mapper.Write(uint16(ad), mapValue(ai(a, 3), ai(a, 4), ai(a, 5), ad))
		}
	})
	register("map.snap", func(a []string) { mapPrev = nil; mapPrev = mapSnapshot() })
	register("map.wd", func(a []string) {
		o := mapPrev
		if o == nil {
			o = mapSnapshot()
		}
		mapPrev = nil
		sm.mapper.Write(uint16(ai(a, 1)), uint8(ai(a, 2)))
		n := mapSnapshot()
		mapPrev = n
		emit("%s", mapDiffLine(sprintf("wd %04x %02x", ai(a, 1), ai(a, 2)), o, n))
	})
	register("map.rd", func(a []string) {
		o := mapPrev
		if o == nil {
			o = mapSnapshot()
		}
		mapPrev = nil
		v := sm.mapper.Read(uint16(ai(a, 1)))
		n := mapSnapshot()
		mapPrev = n
		emit("%s", mapDiffLine(sprintf("rd %04x %02x", ai(a, 1), v), o, n))
	})
}
