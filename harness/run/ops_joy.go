package main

import "github.com/scottyw/tetromino/gameboy/controller"

var joy *controller.Controller

func init() {
	onReset(func() { joy = controller.New() })
	register("joy.new", func(a []string) { joy = controller.New() })
	register("joy.w", func(a []string) { joy.WriteJOYP(uint8(ai(a, 1))) })
	register("joy.b", func(a []string) { joy.ButtonAction(controller.Button(ai(a, 1)), ab(a, 2)) })
	register("joy.r", func(a []string) { emit("%d", joy.ReadJOYP()) })
}
