// Implementation runner: executes scripts on the real tetromino packages (built from /repo with -tags verif)
// and prints projected observables, one line per observing operation, in the same format as the model runner.
package main

import (
	"bufio"
	"fmt"
	"os"
	"strconv"
	"strings"
)

var out *bufio.Writer

func emit(format string, args ...interface{}) {
	fmt.Fprintf(out, format, args...)
	out.WriteByte('\n')
}

type opFunc func(a []string)

var ops = map[string]opFunc{}
var resets []func()

func register(name string, f opFunc) { ops[name] = f }
func onReset(f func())               { resets = append(resets, f) }

func ai(a []string, i int) int {
	v, err := strconv.ParseInt(a[i], 0, 64)
	if err != nil {
		panic("bad integer in script: " + a[i])
	}
	return int(v)
}
func ab(a []string, i int) bool { return ai(a, i) != 0 }

var dead bool

// classify maps a recovered panic value to a small enum so that messages are not compared verbatim.
func classify(r interface{}) string {
	s := fmt.Sprint(r)
	switch {
	case strings.Contains(s, "index out of range"):
		return "index"
	case strings.Contains(s, "nil pointer"), strings.Contains(s, "invalid memory address"):
		return "nil"
	case strings.Contains(s, "divide by zero"):
		return "div0"
	case strings.Contains(s, "slice bounds"):
		return "index"
	default:
		return "explicit"
	}
}

func runOp(f opFunc, a []string) {
	defer func() {
		if r := recover(); r != nil {
			emit("PANIC %s", classify(r))
			dead = true
		}
	}()
	f(a)
}

func handleLine(line string) {
	line = strings.TrimSpace(line)
	if line == "" || line[0] == '%' {
		return
	}
	a := strings.Fields(line)
	if a[0] == "case" {
		dead = false
		for _, f := range resets {
			f()
		}
		id := ""
		if len(a) > 1 {
			id = a[1]
		}
		emit("# %s", id)
		return
	}
	if dead {
		return
	}
	f, ok := ops[a[0]]
	if !ok {
		emit("UNKNOWN-OP %s", a[0])
		return
	}
	runOp(f, a)
}

func main() {
	in := os.Stdin
	if len(os.Args) > 1 {
		f, err := os.Open(os.Args[1])
		if err != nil {
			fmt.Fprintln(os.Stderr, err)
			os.Exit(2)
		}
		in = f
	}
	out = bufio.NewWriterSize(os.Stdout, 1<<20)
	defer out.Flush()
	sc := bufio.NewScanner(in)
	sc.Buffer(make([]byte, 1<<20), 1<<26)
	for sc.Scan() {
		handleLine(sc.Text())
	}
}
