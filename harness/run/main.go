// Implementation runner: executes scripts on the real tetromino packages (built from /repo with -tags verif)
// and prints projected observables, one line per observing operation, in the same format as the model runner.
package main

import (
	"bufio"
	"fmt"
	"os"
	"os/exec"
	"strconv"
	"strings"
)

var out *bufio.Writer

func emit(format string, args ...interface{}) {
	fmt.Fprintf(out, format, args...)
	out.WriteByte('\n')
}

type opFunc func(a []string)

var ops = map[string]opFunc{}
var resets []func()

func register(name string, f opFunc) { ops[name] = f }
func onReset(f func())               { resets = append(resets, f) }

func ai(a []string, i int) int {
	v, err := strconv.ParseInt(a[i], 0, 64)
	if err != nil {
		panic("bad integer in script: " + a[i])
	}
	return int(v)
}
func ab(a []string, i int) bool { return ai(a, i) != 0 }

var dead bool

// classify maps a recovered panic value to a small enum so that messages are not compared verbatim.
func classify(r interface{}) string {
	s := fmt.Sprint(r)
	switch {
	case strings.Contains(s, "index out of range"):
		return "index"
	case strings.Contains(s, "nil pointer"), strings.Contains(s, "invalid memory address"):
		return "nil"
	case strings.Contains(s, "divide by zero"):
		return "div0"
	case strings.Contains(s, "slice bounds"):
		return "index"
	default:
		return "explicit"
	}
}

func runOp(f opFunc, a []string) {
	defer func() {
		if r := recover(); r != nil {
			emit("PANIC %s", classify(r))
			dead = true
		}
	}()
	f(a)
}

func handleLine(line string) {
	line = strings.TrimSpace(line)
	if line == "" || line[0] == '%' {
		return
	}
	a := strings.Fields(line)
	if a[0] == "case" {
		dead = false
		for _, f := range resets {
			f()
		}
		id := ""
		if len(a) > 1 {
			id = a[1]
		}
		emit("# %s", id)
		return
	}
	if dead {
		return
	}
	f, ok := ops[a[0]]
	if !ok {
		emit("UNKNOWN-OP %s", a[0])
		return
	}
	runOp(f, a)
}

// runChild re-executes this binary on one case; the child flushes after every line so that output survives os.Exit.
func runChild(lines []string) {
	cmd := exec.Command(os.Args[0], "--child")
	cmd.Stdin = strings.NewReader(strings.Join(lines, "\n") + "\n")
	outb, err := cmd.Output()
	text := string(outb)
	exited := false
	if err != nil {
		if ee, ok := err.(*exec.ExitError); ok && ee.ExitCode() == 1 {
			exited = true
		}
	}
	for _, l := range strings.Split(strings.TrimRight(text, "\n"), "\n") {
		if strings.Contains(l, "is not a valid instruction") {
			continue
		}
		if l != "" {
			emit("%s", l)
		}
	}
	if exited {
		emit("EXIT")
	}
}

var flushEveryLine bool

func main() {
	if len(os.Args) > 1 && os.Args[1] == "--child" {
		flushEveryLine = true
		out = bufio.NewWriterSize(os.Stdout, 1<<16)
		sc := bufio.NewScanner(os.Stdin)
		sc.Buffer(make([]byte, 1<<20), 1<<26)
		for sc.Scan() {
			handleLine(sc.Text())
			out.Flush()
		}
		out.Flush()
		return
	}
	in := os.Stdin
	if len(os.Args) > 1 {
		f, err := os.Open(os.Args[1])
		if err != nil {
			fmt.Fprintln(os.Stderr, err)
			os.Exit(2)
		}
		in = f
	}
	out = bufio.NewWriterSize(os.Stdout, 1<<20)
	defer out.Flush()
	sc := bufio.NewScanner(in)
	sc.Buffer(make([]byte, 1<<20), 1<<26)
	// cases whose second line is "mayexit" are run in a child process
	var pending []string
	inChildCase := false
	flushChild := func() {
		if inChildCase && len(pending) > 0 {
			runChild(pending)
		}
		pending = nil
		inChildCase = false
	}
	var prevCase string
	for sc.Scan() {
		line := sc.Text()
		t := strings.TrimSpace(line)
		if strings.HasPrefix(t, "case ") || t == "case" {
			flushChild()
			prevCase = line
			continue
		}
		if prevCase != "" {
			if t == "mayexit" {
				inChildCase = true
				pending = []string{prevCase, line}
			} else {
				handleLine(prevCase)
				handleLine(line)
			}
			prevCase = ""
			continue
		}
		if inChildCase {
			pending = append(pending, line)
		} else {
			handleLine(line)
		}
	}
	if prevCase != "" {
		handleLine(prevCase)
	}
	flushChild()
}
