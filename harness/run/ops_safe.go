package main

// Script operations of the C11 / C17 checks on the whole machine (same operations as coq/extract/r_sys_safe.ml).
//
//	safe.img LEN SEED [A V]...            arbitrary image: byte i = fill(SEED, i), then the listed overrides; construct
//	safe.prog TYPE ROMC RAMC [A HEX]...   synthetic image of 0x8000<<ROMC bytes with byte strings patched in
//	safe.ok                               prints "constructed" (separates construction panics from later ones)
//	safe.mark WORD                        prints "mark WORD" (the checks bracket every constructing operation with marks)
//	safe.load A HEX                       consecutive Mapper.Write calls
//	safe.oamst                            OAM bookkeeping
//	safe.lcd                              LCD on, mode, LY
//	safe.cycoam N                         N machine cycles; count and digest of the cycles after which OAM bytes changed

import (
	"strconv"
	"strings"
)

func safeFill(seed, i int) byte {
	if seed >= 1000 {
		return byte(seed - 1000)
	}
	return byte((i*73 + seed*29 + (i>>8)*151 + (i>>16)*211 + seed*(i&7)) & 0xff)
}

func hexBytes(s string) []byte {
	n := len(s) / 2
	b := make([]byte, n)
	for k := 0; k < n; k++ {
		v, err := strconv.ParseUint(s[2*k:2*k+2], 16, 8)
		if err != nil {
			panic("bad hex in script: " + s)
		}
		b[k] = byte(v)
	}
	return b
}

func oamString() string {
	b := sm.oam.VBytes()
	var sb strings.Builder
	for _, x := range b {
		sb.WriteString(sprintf("%02x", x))
	}
	return sb.String()
}

func init() {
	register("safe.img", func(a []string) {
		length, seed := ai(a, 1), ai(a, 2)
		b := make([]byte, length)
		for i := range b {
			b[i] = safeFill(seed, i)
		}
		for k := 3; k+1 < len(a); k += 2 {
			if ad := ai(a, k); ad < length {
				b[ad] = byte(ai(a, k+1))
			}
		}
		sysConstruct(b, true, false)
	})
	register("safe.prog", func(a []string) {
		romc := ai(a, 2)
		b := append([]byte(nil), makeImage(0x8000<<uint(romc), ai(a, 1), romc, ai(a, 3))...)
		for k := 4; k+1 < len(a); k += 2 {
			ad := ai(a, k)
			for j, v := range hexBytes(a[k+1]) {
				if ad+j < len(b) {
					b[ad+j] = v
				}
			}
		}
		if len(b) > 0x149 {
			b[0x147], b[0x148], b[0x149] = byte(ai(a, 1)), byte(romc), byte(ai(a, 3))
		}
		sysConstruct(b, true, false)
	})
	register("safe.mark", func(a []string) { emit("mark %s", a[1]) })
	register("safe.ok", func(a []string) {
		if sm == nil {
			panic("nil pointer dereference: no machine constructed")
		}
		emit("constructed")
	})
	register("safe.load", func(a []string) {
		ad := ai(a, 1)
		for j, v := range hexBytes(a[2]) {
			sm.mapper.Write(uint16(ad+j), v)
		}
	})
	register("safe.oamst", func(a []string) {
		s := sm.oam.VGetState()
		emit("oamst c=%d pla=%d r=%d w=%d dw=%d run=%d cyc=%d", b2i(s.Corrupt), s.PPULastAccess, b2i(s.Read), b2i(s.Write),
			b2i(s.DoubleWrite), b2i(s.DMARunning), s.DMACycle)
	})
	register("safe.lcd", func(a []string) {
		s := sm.ppu.VGetState()
		emit("lcd on=%d mode=%d ly=%d", b2i(s.Enabled), s.Mode, s.LY)
	})
	register("safe.cycoam", func(a []string) {
		n := ai(a, 1)
		h, k := uint64(7), 0
		prev := sm.oam.VBytes()
		for t := 1; t <= n; t++ {
			sm.fullCycle()
			now := sm.oam.VBytes()
			if now != prev {
				k++
				h = ((h * 1000003) ^ uint64(t)) & 0xFFFFFFFFFF
				for i := 0; i < len(now); i++ {
					h = ((h * 1000003) ^ uint64(now[i])) & 0xFFFFFFFFFF
				}
				prev = now
			}
		}
		emit("cycoam %d %d", k, h)
	})
}
