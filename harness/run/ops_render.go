package main

// Operations of the renderer check (property C15).  A scene (VRAM, OAM, video registers) is described by the
// script; every observing operation builds a fresh ppu.PPU + oam.OAM as gameboy.New does, loads the scene with
// the LCD off, switches the LCD on and runs real EndMachineCycle ticks, so the real line / object scheduling
// of ppu.go is exercised.  Frames are read back through PPU.Frame().

import (
	"encoding/hex"
	"strings"

	"github.com/scottyw/tetromino/gameboy/interrupts"
	"github.com/scottyw/tetromino/gameboy/oam"
	"github.com/scottyw/tetromino/gameboy/ppu"
)

type sceneDesc struct {
	vram                                    [0x2000]byte
	oam                                     [0xa0]byte
	lcdc, scx, scy, wx, wy, bgp, obp0, obp1 uint8
}

var scn sceneDesc

func scnReset() {
	// the register values ppu.New writes
	scn = sceneDesc{lcdc: 0x91, bgp: 0xfc, obp0: 0xff, obp1: 0xff}
}

func scnBuild() (*ppu.PPU, *oam.OAM) {
	o := oam.New()
	p := ppu.New(interrupts.New(), o, false)
	p.WriteLCDC(scn.lcdc &^ 0x80) // LCD off: line counter and tick counter reset
	for i, b := range scn.vram {
		p.WriteVideoRAM(0x8000+uint16(i), b)
	}
	o.VSetBytes(scn.oam)
	p.WriteSCX(scn.scx)
	p.WriteSCY(scn.scy)
	p.WriteWX(scn.wx)
	p.WriteWY(scn.wy)
	p.WriteBGP(scn.bgp)
	p.WriteOBP0(scn.obp0)
	p.WriteOBP1(scn.obp1)
	p.WriteLCDC(scn.lcdc | 0x80) // LCD on (the property's hypothesis); the first tick is line 0, cycle 0
	return p, o
}

func shadeOf(p *ppu.PPU, x, y int) byte {
	c := p.Frame().RGBAAt(x, y)
	if c.R != c.G || c.G != c.B || c.A != 0xff {
		return '?'
	}
	switch c.R {
	case 0xff:
		return '0'
	case 0xaa:
		return '1'
	case 0x77:
		return '2'
	case 0x33:
		return '3'
	}
	return '?'
}

func scnRunFrame() *ppu.PPU {
	p, _ := scnBuild()
	for k := 0; k < 144*114; k++ {
		p.EndMachineCycle()
	}
	return p
}

func scnLine(p *ppu.PPU, y int) string {
	var sb strings.Builder
	for x := 0; x < 160; x++ {
		sb.WriteByte(shadeOf(p, x, y))
	}
	return sb.String()
}

func init() {
	onReset(scnReset)
	register("scn.new", func(a []string) { scnReset() })
	register("scn.mark", func(a []string) { emit("MARK %s", a[1]) })
	register("scn.vram", func(a []string) {
		addr := ai(a, 1)
		bs, err := hex.DecodeString(a[2])
		if err != nil {
			panic("bad hex in script")
		}
		for i, b := range bs {
			scn.vram[(addr+i)&0x1fff] = b
		}
	})
	register("scn.oam", func(a []string) {
		bs, err := hex.DecodeString(a[1])
		if err != nil {
			panic("bad hex in script")
		}
		for i, b := range bs {
			scn.oam[i%0xa0] = b
		}
	})
	register("scn.obj", func(a []string) {
		i := ai(a, 1) % 40
		scn.oam[4*i] = uint8(ai(a, 2))
		scn.oam[4*i+1] = uint8(ai(a, 3))
		scn.oam[4*i+2] = uint8(ai(a, 4))
		scn.oam[4*i+3] = uint8(ai(a, 5))
	})
	register("scn.reg", func(a []string) {
		v := uint8(ai(a, 2))
		switch a[1] {
		case "lcdc":
			scn.lcdc = v
		case "scx":
			scn.scx = v
		case "scy":
			scn.scy = v
		case "wx":
			scn.wx = v
		case "wy":
			scn.wy = v
		case "bgp":
			scn.bgp = v
		case "obp0":
			scn.obp0 = v
		case "obp1":
			scn.obp1 = v
		default:
			panic("unknown register in script")
		}
	})
	// the whole frame: 144 lines of 160 shade digits
	register("scn.frame", func(a []string) {
		p := scnRunFrame()
		for y := 0; y < 144; y++ {
			emit("%s", scnLine(p, y))
		}
	})
	register("scn.line", func(a []string) {
		p := scnRunFrame()
		emit("%s", scnLine(p, ai(a, 1)))
	})
	register("scn.px", func(a []string) {
		p := scnRunFrame()
		emit("%c", shadeOf(p, ai(a, 1), ai(a, 2)))
	})
	// per displayed line: the 40 object-overlap flags after mode 2 (observed when the first pixels are drawn)
	register("scn.overlaps", func(a []string) {
		p, _ := scnBuild()
		for k := 0; k < 144*114; k++ {
			st := p.VGetState()
			t := st.Ticks % 114
			p.EndMachineCycle()
			if st.Ticks/114 < 144 && t == 20 {
				var sb strings.Builder
				for _, f := range p.VOverlaps() {
					if f {
						sb.WriteByte('1')
					} else {
						sb.WriteByte('0')
					}
				}
				emit("%s", sb.String())
			}
		}
	})
	// per displayed line: OAM.ppuLastAccess (as an offset from FE00, two hex digits) after each of the 40
	// drawing machine cycles of the line
	register("scn.access", func(a []string) {
		p, o := scnBuild()
		var sb strings.Builder
		const hexd = "0123456789abcdef"
		for k := 0; k < 144*114; k++ {
			st := p.VGetState()
			t := st.Ticks % 114
			p.EndMachineCycle()
			if st.Ticks/114 < 144 && t >= 20 && t < 60 {
				off := o.VGetState().PPULastAccess - 0xfe00
				sb.WriteByte(hexd[(off>>4)&15])
				sb.WriteByte(hexd[off&15])
				if t == 59 {
					emit("%s", sb.String())
					sb.Reset()
				}
			}
		}
	})
}
