module verif/harness

go 1.14

require (
	github.com/go-gl/gl v0.0.0-20190320180904-bf2b1f2f34d7
	github.com/go-gl/glfw v0.0.0-20200222043503-6f7a984d4dc4
	github.com/gordonklaus/portaudio v0.0.0-20180817120803-00e7307ccd93
	github.com/scottyw/tetromino v0.0.0-00010101000000-000000000000
)

replace github.com/scottyw/tetromino => /repo

replace github.com/go-gl/gl => ./stubs/gl

replace github.com/go-gl/glfw => ./stubs/glfw

replace github.com/gordonklaus/portaudio => ./stubs/portaudio
