#!/usr/bin/env python3
"""Regenerates MANIFEST.json from props/*.py (claimed properties) and properties.jsonl."""
import importlib, json, os, sys
sys.path.insert(0, '/verif')
props = [json.loads(l) for l in open('/verif/properties.jsonl')]
checks, na = [], []
for p in props:
    pid = p['id']
    modpath = '/verif/props/%s.py' % pid.lower()
    if os.path.exists(modpath):
        P = importlib.import_module('props.' + pid.lower())
        checks.append(dict(
            property_id=pid,
            quick_cmd='./check %s --tier quick' % pid,
            thorough_cmd='./check %s --tier thorough' % pid,
            evidence_file='/verif/evidence/%s.json' % pid,
            replay_cmd_template='./check replay {path}',
            engine='coq-model-correspondence',
            level_claimed=dict(category='proof', text=P.LEVEL_TEXT if hasattr(P, 'LEVEL_TEXT') else P.LEVEL_NOTE,
                               design_ref='DESIGN.md §7 ' + pid),
            level_note=P.LEVEL_NOTE,
            technique=getattr(P, 'TECHNIQUE', 'Coq theorems over an executable Gallina model (induction / refinement / '
                                              'exhaustive vm_compute sweeps lifted to forall) + differential '
                                              'correspondence of the extracted model with the Go build'),
        ))
    else:
        na.append(dict(property_id=pid, reason='check under construction in this round: model and theorems not yet built '
                                               '(the technique applies; see DESIGN.md §7 %s)' % pid))
m = dict(
    version=1,
    setup_cmd='./build.sh all ; ./check warm',
    hooks=dict(guard='verif (Go build tag)', enable='go build -tags verif (harness/go.mod replaces the module with /repo)',
               baseline_off_cmd='cd /repo && GOFLAGS=-mod=mod GOPROXY=off GOSUMDB=off go test -json -vet=off -count=1 -timeout 25m ./...',
               source_commits=[l.split()[0] for l in os.popen("git -C /repo log --format='%h %s' | grep -i 'verif hooks'").read().splitlines()],
               add_only=True),
    engines=[dict(name='coq-model-correspondence', path='/verif/check', serves_properties=[c['property_id'] for c in checks],
                  kind_free_text='Coq 8.16 proofs over an executable Gallina model; model extracted to OCaml and run '
                                 'against the Go implementation on generated scripts; tables regenerated from source')],
    checks=checks,
    notes='See DESIGN.md. Known findings: known_findings.json. Seeded changes: seeded/.',
    not_applicable=na,
)
json.dump(m, open('/verif/MANIFEST.json', 'w'), indent=1)
print('claimed', len(checks), 'not yet', len(na))
