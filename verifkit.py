"""verifkit — shared machinery of the per-property checks.

Flow of one check (see DESIGN.md §6):
  regenerate gen/*.v from /repo -> make the property's Coq closure -> re-check Properties/Cxx.v and capture
  Print Assumptions -> build the Go runner from /repo (-tags verif) -> generate cases (corpus first) ->
  run implementation and extracted model -> compare projected observables -> shrink -> verdict + evidence.
"""
import hashlib
import json
import os
import random
import re
import subprocess
import sys
import time

V = os.path.dirname(os.path.abspath(__file__))
REPO = os.environ.get('VERIF_REPO', '/repo')
BUILD = V + '/build'
COQ = V + '/coq'
ENV = dict(os.environ, GOFLAGS='-mod=mod', GOPROXY='off', GOSUMDB='off', GOTOOLCHAIN='local')

FORBIDDEN = re.compile(r'\b(Admitted|admit|Axiom|Axioms|Parameter|Parameters|Conjecture|Admit Obligations|'
                       r'Unset Guard Checking|Unset Positivity Checking|Unset Universe Checking|bypass_check|'
                       r'type-in-type|impredicative-set|native_compute)\b')

TRUSTED_BASE = [
    'Coq 8.16.1 kernel (coqc; vm_compute used for finite sweeps; native_compute not used)',
    'the hand-written Gallina model under coq/model is a model of the Go code, tied to it only by the '
    'differential correspondence of this run and by the tables regenerated from /repo by translator/',
    'extraction: Coq Extraction with ExtrOcamlBasic only (bool, option, unit, prod, list, sumbool, sumor -> OCaml '
    'types; no Extract Constant), OCaml 4.13.1 ocamlopt, coq/extract/*.ml glue',
    'harness: Go runner built from /repo with -tags verif (add-only hook files), script generators in props/',
    'the specification files under coq/spec are this development\'s formalisation of the property statements',
]


def sh(cmd, timeout=3600, cwd=None, env=None, check=False):
    p = subprocess.run(cmd, shell=isinstance(cmd, str), cwd=cwd, env=env or ENV, timeout=timeout,
                       stdout=subprocess.PIPE, stderr=subprocess.STDOUT, text=True, errors='replace')
    if check and p.returncode != 0:
        raise RuntimeError('command failed: %s\n%s' % (cmd, p.stdout[-4000:]))
    return p.returncode, p.stdout


class Result:
    def __init__(self):
        self.violations = []      # list of dict(kind, text, replay)
        self.known = []           # list of strings printed as KNOWN-FINDING
        self.notes = []


def hygiene():
    bad = []
    for root, _, files in os.walk(COQ):
        for f in files:
            if not f.endswith('.v'):
                continue
            p = os.path.join(root, f)
            txt = open(p, errors='replace').read()
            txt_nc = re.sub(r'\(\*.*?\*\)', '', txt, flags=re.S)
            for m in FORBIDDEN.finditer(txt_nc):
                bad.append('%s: %s' % (os.path.relpath(p, V), m.group(0)))
            if re.search(r'^\s*(Variable|Variables|Hypothesis|Hypotheses)\b', txt_nc, flags=re.M):
                # allowed only inside a Section
                depth = 0
                for line in txt_nc.splitlines():
                    if re.match(r'\s*Section\b', line):
                        depth += 1
                    elif re.match(r'\s*End\b', line):
                        depth = max(0, depth - 1)
                    elif re.match(r'\s*(Variable|Variables|Hypothesis|Hypotheses)\b', line) and depth == 0:
                        bad.append('%s: top-level %s' % (os.path.relpath(p, V), line.strip()))
    return bad


def coq_closure(prop_file):
    """Return the list of .v files (relative to coq/) Properties/<prop_file> depends on, transitively."""
    rc, out = sh('coqdep -f _CoqProject $(ls lib/*.v gen/*.v model/*.v spec/*.v proofs/*.v Properties/*.v 2>/dev/null)',
                 cwd=COQ)
    deps = {}
    for line in out.splitlines():
        if ':' not in line:
            continue
        lhs, rhs = line.split(':', 1)
        tgt = [t for t in lhs.split() if t.endswith('.vo')]
        if not tgt:
            continue
        deps[tgt[0][:-1]] = [d[:-1] for d in rhs.split() if d.endswith('.vo')]
    seen, todo = [], [prop_file]
    while todo:
        f = todo.pop()
        if f in seen:
            continue
        seen.append(f)
        todo.extend(deps.get(f, []))
    return sorted(seen)


def count_obligations(files):
    n = 0
    names = []
    for f in files:
        if f.startswith('lib/') or f.startswith('proofs/') or f.startswith('Properties/'):
            txt = open(os.path.join(COQ, f), errors='replace').read()
            txt = re.sub(r'\(\*.*?\*\)', '', txt, flags=re.S)
            for m in re.finditer(r'^\s*(Theorem|Lemma|Corollary|Example|Fact|Remark|Proposition)\s+([A-Za-z0-9_\']+)', txt,
                                 flags=re.M):
                n += 1
                if f.startswith('Properties/'):
                    names.append(m.group(2))
    return n, names


def build_all(coq_targets):
    """Returns (ok, log). Builds translator output, the Coq closure of the targets, extraction, runners."""
    t0 = time.time()
    env = dict(ENV, COQ_TARGETS=' '.join(t + 'o' for t in coq_targets))
    rc, out = sh([V + '/build.sh', 'coq'], env=env, timeout=3000)
    coq_ok = rc == 0
    coq_log = out
    rc2, out2 = sh([V + '/build.sh', 'extract'], timeout=1800)
    rc3, out3 = sh([V + '/build.sh', 'go'], timeout=900)
    return dict(coq_ok=coq_ok, coq_log=coq_log, extract_ok=rc2 == 0, extract_log=out2, go_ok=rc3 == 0, go_log=out3,
                wall=time.time() - t0)


def print_assumptions(prop_file):
    """Re-check the property file itself and capture the Print Assumptions output per theorem."""
    cmd = ('coqc -Q lib V.lib -Q gen V.gen -Q model V.model -Q spec V.spec -Q proofs V.proofs '
           '-Q Properties V.Properties %s' % prop_file)
    # Print Assumptions walks the whole proof closure (minutes for the CPU theorems): the output is cached, keyed by the
    # property file's text and the digests of every compiled dependency, so it is recomputed whenever anything changed
    import hashlib
    h = hashlib.md5(open(os.path.join(COQ, prop_file), 'rb').read())
    for d in ('lib', 'gen', 'model', 'spec', 'proofs'):
        for root, _, files in sorted(os.walk(os.path.join(COQ, d))):
            for f in sorted(files):
                if f.endswith('.vo'):
                    h.update(f.encode())
                    h.update(hashlib.md5(open(os.path.join(root, f), 'rb').read()).digest())
    key = h.hexdigest()
    cpath = os.path.join(BUILD, 'pa_cache', os.path.basename(prop_file) + '.json')
    try:
        c = json.load(open(cpath))
        if c.get('key') == key and os.path.exists(os.path.join(COQ, prop_file[:-2] + '.vo')):
            return True, c['out'], 'cd %s && %s   (output cached for unchanged inputs)' % (COQ, cmd)
    except (OSError, ValueError):
        pass
    rc, out = sh(cmd, cwd=COQ, timeout=1200)
    if rc == 0:
        os.makedirs(os.path.dirname(cpath), exist_ok=True)
        json.dump(dict(key=key, out=out), open(cpath, 'w'))
    return rc == 0, out, 'cd %s && %s' % (COQ, cmd)


def run_runner(binary, script_path, timeout=1800):
    p = subprocess.run([binary, script_path], stdout=subprocess.PIPE, stderr=subprocess.PIPE, timeout=timeout,
                       text=True, errors='replace')
    return p.returncode, p.stdout, p.stderr


def split_cases(text):
    """Output text -> {case_id: [lines]} preserving order."""
    cases, cur, order = {}, None, []
    for line in text.splitlines():
        if line.startswith('# '):
            cur = line[2:].strip()
            cases[cur] = []
            order.append(cur)
        elif cur is not None:
            cases[cur].append(line)
    return cases, order


def write_script(path, cases):
    with open(path, 'w') as f:
        for cid, lines in cases:
            f.write('case %s\n' % cid)
            for l in lines:
                f.write(l + '\n')


JOBS = int(os.environ.get('VERIF_JOBS', '8'))


def run_sharded(binary, cases, path, kind):
    """Runs the cases on `binary`; with many cases the script is split into up to JOBS shards run in parallel (cases are
    independent: every `case` line resets all components).  The unsplit script stays at `path` for replays."""
    n = min(JOBS, len(cases) // 4)
    if n < 2:
        return run_runner(binary, path)
    bins = [[0, []] for _ in range(n)]
    for c in sorted(cases, key=lambda c: -sum(cost_of(l) for l in c[1])):
        b = min(bins, key=lambda b: b[0])
        b[0] += sum(cost_of(l) for l in c[1]) + 1
        b[1].append(c)
    paths = []
    for i, b in enumerate(bins):
        sp = '%s.%s%d' % (path, kind, i)
        write_script(sp, b[1])
        paths.append(sp)
    from concurrent.futures import ThreadPoolExecutor
    with ThreadPoolExecutor(max_workers=n) as ex:
        res = list(ex.map(lambda sp: run_runner(binary, sp), paths))
    for sp in paths:
        os.remove(sp)
    rc = max(abs(r[0]) for r in res)
    return rc, ''.join(r[1] if r[1].endswith('\n') or not r[1] else r[1] + '\n' for r in res), ''.join(r[2] for r in res)


def cost_of(line):
    """rough cost of a script line: operations that run many machine cycles weigh by their count"""
    f = line.split()
    if f and f[0] in ('gb.frames', 'sys.frame'):
        try:
            return 17556 * int(f[-1])
        except ValueError:
            return 17556
    if f and f[0] in ('gb.cyc', 'sys.cyc', 'sys.hw', 'sys.lcdtrace', 'ppu.tick', 'cpu.cyc', 'apu.cyc', 'apu.clk', 'dma.run', 'tmr.run'):
        try:
            return max(1, int(f[-1] if f[0] in ('gb.cyc',) else f[1]))
        except (ValueError, IndexError):
            return 1
    return 1


def run_both(cases, tag, project=None):
    """cases: list of (id, [op lines]). Returns (impl_cases, model_cases, errors)."""
    os.makedirs(BUILD + '/scripts', exist_ok=True)
    path = '%s/scripts/%s.txt' % (BUILD, tag)
    write_script(path, cases)
    rc_i, out_i, err_i = run_sharded(BUILD + '/impl_runner', cases, path, 'i')
    rc_m, out_m, err_m = run_sharded(BUILD + '/model_runner', cases, path, 'm')
    errs = []
    if rc_i != 0:
        # the process died (os.Exit or an unrecovered fault) and took the buffered output with it: run every case in
        # its own child process so that only the responsible case is affected
        path2 = '%s/scripts/%s_isolated.txt' % (BUILD, tag)
        write_script(path2, [(cid, (lines if lines and lines[0] == 'mayexit' else ['mayexit'] + list(lines)))
                             for cid, lines in cases])
        rc_i, out_i, err_i = run_runner(BUILD + '/impl_runner', path2)
    if rc_i != 0:
        errs.append('implementation runner exited %d: %s' % (rc_i, err_i[-500:]))
    if rc_m != 0:
        errs.append('model runner exited %d: %s' % (rc_m, err_m[-500:]))
    ci, _ = split_cases(out_i)
    cm, _ = split_cases(out_m)
    if project:
        ci = {k: project(k, v) for k, v in ci.items()}
        cm = {k: project(k, v) for k, v in cm.items()}
    return ci, cm, errs


TAG = 'x'


def get_project(P):
    if hasattr(P, 'project_case'):
        return P.project_case
    if hasattr(P, 'project'):
        return lambda cid, lines: P.project(lines)
    return None


def differs(case, tag=None, project=None):
    tag = tag or ('shrink_' + TAG)
    ci, cm, errs = run_both([case], tag, project)
    cid = case[0]
    return ci.get(cid) != cm.get(cid) or bool(errs), ci.get(cid), cm.get(cid)


SHRINK_DEADLINE = [None]     # wall-clock limit shared by all shrinks of one check run


def shrink(case, project=None, keep_prefix=0, budget=400):
    """Greedy line removal preserving a difference between implementation and model.  Bounded by a step budget, by 45 s
    per case and by the run's overall shrinking deadline: past them the case is reported as far as it has been reduced."""
    cid, lines = case
    lines = list(lines)
    n = 0
    t_end = time.time() + 45
    if SHRINK_DEADLINE[0] is not None:
        t_end = min(t_end, SHRINK_DEADLINE[0])
    chunk = max(1, len(lines) // 2)
    while chunk >= 1 and n < budget and time.time() < t_end:
        i = keep_prefix
        changed = False
        while i < len(lines) and n < budget and time.time() < t_end:
            cand = lines[:i] + lines[i + chunk:]
            n += 1
            d, _, _ = differs((cid, cand), project=project)
            if d and len(cand) > 0:
                lines = cand
                changed = True
            else:
                i += chunk
        if chunk == 1 and not changed:
            break
        chunk = max(1, chunk // 2) if chunk > 1 else (1 if changed else 0)
    return (cid, lines)


def load_known(prop):
    """Entries of known_findings.json plus known/<prop>.json (a list or {"findings": [...]}) for this property."""
    out = []
    paths = [V + '/known_findings.json', '%s/known/%s.json' % (V, prop)]
    for p in paths:
        if not os.path.exists(p):
            continue
        data = json.load(open(p))
        items = data.get('findings', []) if isinstance(data, dict) else data
        out.extend(e for e in items if e.get('property') == prop)
    return out


def write_replay(prop, name, payload):
    os.makedirs(V + '/replays', exist_ok=True)
    path = '%s/replays/%s_%s.json' % (V, prop, name)
    json.dump(payload, open(path, 'w'), indent=1)
    return path


def write_evidence(prop, tier, seed, coverage, assumptions, wall, violations):
    os.makedirs(V + '/evidence', exist_ok=True)
    ev = dict(property_id=prop, tier=tier, seed=seed, level='proof', coverage=coverage, assumptions=assumptions,
              wall_s=round(wall, 2), violations=violations)
    json.dump(ev, open('%s/evidence/%s.json' % (V, prop), 'w'), indent=1)


def first_coq_error(log):
    m = re.search(r'File "\./([^"]+)", line (\d+), characters [^\n]*\n(Error:[^\n]*(?:\n[^\n]+){0,6})', log)
    if m:
        return m.group(1), int(m.group(2)), m.group(3)
    m = re.search(r'(Error:[^\n]*(?:\n[^\n]+){0,6})', log)
    return ('?', 0, m.group(1) if m else log[-800:])


def enclosing_theorem(relfile, line):
    try:
        src = open(os.path.join(COQ, relfile), errors='replace').read().splitlines()
    except OSError:
        return '?'
    for i in range(min(line, len(src)) - 1, -1, -1):
        m = re.match(r'\s*(Theorem|Lemma|Corollary|Example|Definition|Fixpoint|Fact)\s+([A-Za-z0-9_\']+)', src[i])
        if m:
            return m.group(2)
    return '?'


class Check:
    """One property check. Subclass hooks are passed in as a module-like object `P` with attributes:
       ID, PROP_FILE, generate(rng, tier) -> (cases, info), optional project, nontrivial(case_id, impl_lines),
       optional classify_known(case, impl, model) -> finding id or None, optional extra(checkctx) -> list of violations,
       optional on_proof_failure(ctx) -> list of (case) to search, LEVEL_NOTE, RULE.
    """

    def __init__(self, P, tier, seed):
        self.P, self.tier, self.seed = P, tier, seed
        self.rng = random.Random(seed)

    def run(self):
        P = self.P
        t0 = time.time()
        res = Result()
        prop = P.ID
        global TAG
        TAG = prop
        assumptions = list(getattr(P, 'ASSUMPTIONS', []))
        # 1. hygiene
        bad = hygiene()
        # 2. build
        b = build_all([P.PROP_FILE] + list(getattr(P, 'EXTRA_COQ', [])))
        closure = coq_closure(P.PROP_FILE)
        n_obl, thm_names = count_obligations(closure)
        pa_ok, pa_text, pa_cmd = (False, '', '')
        proof_failure = None
        if bad:
            proof_failure = 'hygiene: ' + '; '.join(bad[:5])
        if not b['coq_ok'] and 'translator:' in b['coq_log'] and 'Error' not in b['coq_log']:
            msgs = [l for l in b['coq_log'].splitlines() if l.startswith('translator:')]
            proof_failure = 'the translator no longer recognises the source (treated as a failed obligation): ' + ' | '.join(msgs[:4])
        elif not b['coq_ok']:
            f, ln, err = first_coq_error(b['coq_log'])
            proof_failure = 'Coq build failed in %s line %d (%s): %s' % (f, ln, enclosing_theorem(f, ln), err.strip())
        else:
            pa_ok, pa_text, pa_cmd = print_assumptions(P.PROP_FILE)
            if not pa_ok:
                f, ln, err = first_coq_error(pa_text)
                proof_failure = 'property file does not check: %s line %d: %s' % (f, ln, err.strip())
            else:
                axioms = self.parse_assumptions(pa_text)
                allowed = getattr(P, 'ALLOWED_AXIOMS', [])
                extra_ax = [a for a in axioms if not any(a.startswith(x) for x in allowed)]
                if extra_ax:
                    proof_failure = 'unexpected axioms: ' + ', '.join(extra_ax)
        if not b['go_ok']:
            # the tree does not build with hooks on: nothing can be checked
            print(b['go_log'][-3000:])
            path = write_replay(prop, 'go_build', dict(property=prop, kind='harness-build-failure', log=b['go_log'][-4000:]))
            print('VIOLATION property=%s replay=%s no-failing-input-found' % (prop, path))
            self.finish(res, t0, n_obl, 0, pa_cmd, pa_text, dict(evaluations=0), assumptions, 1)
            return 1
        model_ok = b['extract_ok'] and os.path.exists(BUILD + '/model_runner')
        stale_model = False
        if not model_ok and os.path.exists(BUILD + '/model_runner'):
            # the model no longer builds (already a failed obligation, reported below): the runner built from the last good
            # tree is still the best oracle for the failing-input search
            model_ok = stale_model = True
            if not proof_failure:
                proof_failure = 'the executable model no longer builds: ' + b['extract_log'][-600:]
        # 3. correspondence
        cases, info = P.generate(self.rng, self.tier)
        corpus = self.load_corpus()
        cases = corpus + cases
        project = get_project(P)
        mismatches = []
        ci = cm = {}
        errs = []
        if model_ok:
            ci, cm, errs = run_both(cases, prop, project)
            for cid, lines in cases:
                if ci.get(cid) != cm.get(cid):
                    mismatches.append((cid, lines))
        else:
            errs.append('model runner unavailable: ' + b['extract_log'][-1500:])
            # implementation alone: the property module's own judgement (extra) can still find a failing input
            path = '%s/scripts/%s.txt' % (BUILD, prop)
            os.makedirs(BUILD + '/scripts', exist_ok=True)
            write_script(path, cases)
            rc_i, out_i, err_i = run_sharded(BUILD + '/impl_runner', cases, path, 'i')
            ci, _ = split_cases(out_i)
            if project:
                ci = {k: project(k, v) for k, v in ci.items()}
        known = load_known(prop)
        known_hits = {}
        violations = []
        SHRINK_DEADLINE[0] = time.time() + 150
        for case in mismatches[:getattr(P, 'MAX_REPORT', 25)]:
            small = shrink(case, project=project, keep_prefix=getattr(P, 'KEEP_PREFIX', 0))
            d, i_out, m_out = differs(small, project=project)
            if not d:
                small = case
                d, i_out, m_out = differs(small, project=project)
            kid = None
            for k in known:
                if k.get('status') == 'known' and P.matches_known(k, small, i_out, m_out):
                    kid = k
                    break
            if kid is not None:
                known_hits.setdefault(kid['id'], kid)
                continue
            verdict = P.judge(small, i_out, m_out) if hasattr(P, 'judge') else \
                'implementation output differs from the model on an observable the specification fixes'
            violations.append(dict(case=small[0], script=small[1], impl=i_out, model=m_out, verdict=verdict))
        # extra property-specific checks (e.g. implementation against executable spec)
        if hasattr(P, 'extra'):
            violations.extend(P.extra(self, ci, cm, cases))
        nontrivial = set()
        for cid, lines in cases:
            sig = P.nontrivial(cid, lines, ci.get(cid)) if hasattr(P, 'nontrivial') else None
            if sig is not None:
                nontrivial.add(sig)
        # 4. verdict
        rc = 0
        for kid, k in known_hits.items():
            print('KNOWN-FINDING: property=%s %s' % (prop, k['text']))
        if violations:
            v = violations[0]
            path = write_replay(prop, 'violation', dict(property=prop, kind='failing-input', seed=self.seed, tier=self.tier,
                                                         all=violations[:10], **v))
            print('impl : %s' % v['impl'])
            print('model: %s' % v['model'])
            print('script: %s' % ' ; '.join(v['script'][:40]))
            print('VIOLATION property=%s replay=%s' % (prop, path))
            rc = 1
        elif proof_failure or errs:
            why = proof_failure or errs[0]
            # search already happened: the correspondence run above found no failing input
            path = write_replay(prop, 'unchecked', dict(property=prop, kind='proof-or-correspondence-no-longer-checks',
                                                        what=why, seed=self.seed, tier=self.tier,
                                                        searched=len(cases)))
            print(why)
            print('VIOLATION property=%s replay=%s no-failing-input-found' % (prop, path))
            rc = 1
        cov = dict(info)
        cov.update(evaluations=len(cases), distinct_nontrivial=len(nontrivial),
                   traces_validated_against_impl=len(cases) - len(mismatches),
                   corpus_cases=len(corpus), mismatching_cases=len(mismatches),
                   theorems=thm_names)
        if 'samples' not in cov:
            cov['samples'] = [dict(case=c[0], script=c[1][:30]) for c in cases[:3]]
        discharged = n_obl if (b['coq_ok'] and pa_ok and not proof_failure) else 0
        self.finish(res, t0, n_obl, discharged, pa_cmd, pa_text, cov, assumptions, len(violations) + (1 if rc and not violations else 0))
        return rc

    @staticmethod
    def parse_assumptions(text):
        axioms = []
        for block in re.split(r'\n(?=Closed under|Axioms:)', text):
            if block.startswith('Axioms:'):
                for line in block.splitlines()[1:]:
                    m = re.match(r'^([A-Za-z_][A-Za-z0-9_.\']*)\s*:', line)
                    if m:
                        axioms.append(m.group(1))
        return axioms

    def load_corpus(self):
        d = '%s/corpus/%s' % (V, self.P.ID)
        out = []
        if os.path.isdir(d):
            for f in sorted(os.listdir(d)):
                lines = [l.rstrip('\n') for l in open(os.path.join(d, f)) if l.strip() and not l.startswith('case ')]
                out.append(('corpus_' + os.path.splitext(f)[0], lines))
        return out

    def finish(self, res, t0, n_obl, discharged, pa_cmd, pa_text, cov, assumptions, nviol):
        P = self.P
        cov = dict(cov)
        cov.update(obligations=max(n_obl, 1) if n_obl else 1, discharged=discharged,
                   checker_cmd='/verif/build.sh coq (coq_makefile + make, full .vo build) ; ' + pa_cmd,
                   trusted_base=TRUSTED_BASE + list(getattr(P, 'TRUSTED_EXTRA', [])),
                   print_assumptions=pa_text.strip()[-3000:],
                   rule=getattr(P, 'RULE', ''))
        write_evidence(P.ID, self.tier, self.seed, cov, assumptions + [getattr(P, 'LEVEL_NOTE', '')], time.time() - t0, nviol)


def main_check(P):
    import argparse
    ap = argparse.ArgumentParser()
    ap.add_argument('--tier', default=os.environ.get('VERIF_TIER', 'quick'))
    ap.add_argument('--seed', type=int, default=int(os.environ.get('VERIF_SEED', '1') or 1))
    a = ap.parse_args(sys.argv[2:])
    c = Check(P, a.tier, a.seed)
    rc = c.run()
    if rc == 0:
        print('OK property=%s tier=%s' % (P.ID, a.tier))
    sys.exit(rc)
