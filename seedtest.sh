#!/bin/bash
# seedtest.sh PATCH PROP [PROP...] — apply a seeded change to /repo, run the quick checks of the given properties,
# print one verdict line per property, and undo the change.  Never leaves /repo modified.
set -u
PATCH=$1; shift
R=${SEED_REPO:-/repo}
export VERIF_REPO=$R
cd $R || exit 2
if [ -n "$(git status --porcelain)" ]; then echo "refusing: $R is not clean"; exit 2; fi
if ! git apply --check "$PATCH" 2>/dev/null; then echo "PATCH-DOES-NOT-APPLY $PATCH"; exit 3; fi
git apply "$PATCH"
trap 'git -C $R checkout -- . >/dev/null 2>&1; git -C $R clean -fdq gameboy >/dev/null 2>&1' EXIT
for P in "$@"; do
  cp ${VERIF_DIR:-/verif}/evidence/$P.json /tmp/evidence_backup_$$_$P.json 2>/dev/null
  out=$(cd ${VERIF_DIR:-/verif} && timeout 1500 ./check $P --tier quick 2>&1); rc=$?
  # evidence describes clean-tree runs only: put the previous file back
  [ -f /tmp/evidence_backup_$$_$P.json ] && mv /tmp/evidence_backup_$$_$P.json ${VERIF_DIR:-/verif}/evidence/$P.json
  line=$(echo "$out" | grep -E '^(VIOLATION|OK|KNOWN-FINDING)' | tail -1)
  echo "SEED $(basename $(dirname $PATCH)) $P rc=$rc :: $line"
  if [ $rc -ne 0 ]; then cp ${VERIF_DIR:-/verif}/replays/${P}_violation.json /tmp/seed_replay_$(basename $(dirname $PATCH))_$P.json 2>/dev/null || cp ${VERIF_DIR:-/verif}/replays/${P}_unchecked.json /tmp/seed_replay_$(basename $(dirname $PATCH))_$P.json 2>/dev/null; fi
done
