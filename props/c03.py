"""C03 — memory reads and writes happen in the documented machine cycle."""
import re
import verifkit
from props import cpugen

ID = 'C03'
PROP_FILE = 'Properties/C03.v'
RULE = ('every memory-accessing opcode x addressed location class (WRAM, echo, HRAM, VRAM, OAM with the LCD off): before '
        'every machine cycle every watched location is overwritten with a cycle-specific marker, and all watched locations '
        'are read after every cycle, so the value the instruction consumes dates each read and the snapshots date each '
        'write (the hook-free method of the property); non-trivial = the instruction performed a data access; distinct = '
        'distinct case ids')
LEVEL_NOTE = ('C03_schedule quantifies over every opcode, state and bus (the model\'s per-cycle ghost trace equals the '
              'documented schedule); the Go CPU is tied to the model by regenerated tables and by this marker run, and the '
              'implementation is also compared with the documented schedule directly (predicted consumed markers and '
              'write instants).')
ASSUMPTIONS = ['bus values are bytes', 'OAM-bug hooks inert (LCD off)']
ALLOWED_AXIOMS = []
MAX_REPORT = 6

MEMOPS = ([0x02, 0x12, 0x22, 0x32, 0x0a, 0x1a, 0x2a, 0x3a, 0x34, 0x35, 0x36, 0x08, 0xe0, 0xf0, 0xe2, 0xf2, 0xea, 0xfa,
           0xc5, 0xd5, 0xe5, 0xf5, 0xc1, 0xd1, 0xe1, 0xf1, 0xcd, 0xc4, 0xcc, 0xd4, 0xdc, 0xc9, 0xd9, 0xc0, 0xc8, 0xd0, 0xd8,
           0xc7, 0xcf, 0xd7, 0xdf, 0xe7, 0xef, 0xf7, 0xff]
          + [0x46 + 8 * i for i in range(8) if i != 6] + [0x70 + i for i in range(8) if i != 6]
          + [0x86 + 8 * i for i in range(8)])
CBMEM = [cb for cb in range(256) if cb & 7 == 6]


def setup(rng, op, cb):
    """(setup lines, watched addresses) for one instruction"""
    while True:
        st = cpugen.structured_state(rng)
        # register values >= 0x80 so that written values are not confused with markers (< 0x70)
        if op in (0xe2, 0xf2) and st['c'] not in cpugen.HRAM_OFFS:
            continue
        break
    pc = 0xc000 + rng.randrange(0, 0xe0)
    lines = ['cpu.new', cpugen.set_line(st, pc)]
    n = cpugen.length(op)
    operands = []
    if op == 0xcb:
        operands = [cb]
    elif n == 3:
        if op in (0x08, 0xea, 0xfa):
            t = cpugen.safe_ptr(rng)
            while t & 0xff == 0xff:
                t = cpugen.safe_ptr(rng)
        else:
            t = 0xc900 + rng.randrange(0x100)
        operands = [t & 255, t >> 8]
    elif n == 2:
        operands = [rng.choice(cpugen.HRAM_OFFS[:-2])] if op in (0xe0, 0xf0) else [rng.randrange(0x80, 0x100)]
    code = [op] + operands
    for i, b in enumerate(code):
        lines.append('w %d %d' % (pc + i, b))
    for i in range(len(code), len(code) + 2):
        lines.append('w %d 0' % (pc + i))
    hl = st['h'] << 8 | st['l']
    bc = st['b'] << 8 | st['c']
    de = st['d'] << 8 | st['e']
    sp = st['sp']
    watch = []
    if op == 0xcb or op in (0x34, 0x35, 0x36, 0x22, 0x32, 0x2a, 0x3a) or 0x46 <= op <= 0xbe:
        watch.append(hl)
    if op in (0x02, 0x0a):
        watch.append(bc)
    if op in (0x12, 0x1a):
        watch.append(de)
    if op in (0xe2, 0xf2):
        watch.append(0xff00 + st['c'])
    if op in (0xe0, 0xf0):
        watch.append(0xff00 + operands[0])
    if op in (0x08, 0xea, 0xfa):
        nn = operands[0] | operands[1] << 8
        watch += [nn, (nn + 1) & 0xffff]
    if op in (0xc5, 0xd5, 0xe5, 0xf5, 0xcd, 0xc4, 0xcc, 0xd4, 0xdc) or (op & 0xc7) == 0xc7:
        watch += [(sp - 1) & 0xffff, (sp - 2) & 0xffff]
    if op in (0xc1, 0xd1, 0xe1, 0xf1, 0xc9, 0xd9, 0xc0, 0xc8, 0xd0, 0xd8):
        watch += [sp, (sp + 1) & 0xffff]
    codeaddrs = set(range(pc, pc + len(code) + 2))
    watch = [a for a in dict.fromkeys(watch) if a not in codeaddrs and a not in (0xff0f, 0xffff)]
    return lines, watch


def marker(k, i):
    return (0x10 * k + i + 1) & 0x7f


def generate(rng, tier):
    reps = 3 if tier == 'quick' else 40
    base = []
    for op in MEMOPS:
        for j in range(reps):
            base.append(('m%02x_%d' % (op, j), op, None))
    for cb in CBMEM:
        for j in range(max(1, reps // 3)):
            base.append(('mcb%02x_%d' % (cb, j), 0xcb, cb))
    setups = {}
    for cid, op, cb in base:
        setups[cid] = setup(rng, op, cb)
    # pass 1: the documented cycle count and schedule, from the executable specification
    p1 = [(cid, setups[cid][0] + ['spec.dtrace']) for cid, _, _ in base]
    path = verifkit.BUILD + '/scripts/C03_pass1.txt'
    verifkit.write_script(path, p1)
    rc, out, err = verifkit.run_runner(verifkit.BUILD + '/model_runner', path)
    cs, _ = verifkit.split_cases(out)
    cases = []
    generate.meta = {}
    for cid, op, cb in base:
        lines, watch = setups[cid]
        o = cs.get(cid, [])
        n = 6
        sched = []
        for l in o:
            if l.startswith('cyc '):
                n = int(l.split()[1])
            if l.startswith('sched'):
                for it in l.split()[1:]:
                    m = re.match(r'(\d+)([RW])(\d+)', it)
                    sched.append((int(m.group(1)), m.group(2), int(m.group(3))))
        script = list(lines)
        for k in range(1, n + 1):
            for i, a in enumerate(watch):
                script.append('w %d %d' % (a, marker(k, i)))
            script.append('cpu.cyc 1')
            for a in watch:
                script.append('r %d' % a)
        script.append('cpu.get')
        cases.append((cid, script))
        generate.meta[cid] = dict(n=n, sched=sched, watch=watch, setup=lines)
    info = dict(input_distribution=dict(memory_opcodes=len(MEMOPS), cb_hl_opcodes=len(CBMEM), reps=reps),
                samples=[dict(case=cases[0][0], script=cases[0][1])])
    return cases, info


def nontrivial(cid, lines, impl):
    m = getattr(generate, 'meta', {}).get(cid)
    if m and m['sched']:
        return cid
    return None


def matches_known(k, case, impl, model):
    return False


def judge(case, impl, model):
    return ('per-cycle memory snapshots / consumed markers differ from the model, whose data-access schedule is proved equal to '
            'the documented schedule (C03_schedule)')


def extra(check, ci, cm, cases):
    """implementation against the documented schedule: predicted snapshots (write instants) and consumed markers"""
    meta = getattr(generate, 'meta', {})
    # pass 2: the documented big-step semantics on memory holding, at each read address, the marker of the documented read cycle
    p2 = []
    for cid, script in cases:
        m = meta.get(cid)
        if not m:
            continue
        lines = list(m['setup'])
        for (c, k, a) in m['sched']:
            if k == 'R' and a in m['watch']:
                lines.append('w %d %d' % (a, marker(c, m['watch'].index(a))))
        lines.append('spec.step')
        lines.append('cpu.get')
        for a in m['watch']:
            lines.append('r %d' % a)
        p2.append((cid, lines))
    path = verifkit.BUILD + '/scripts/C03_pass2.txt'
    verifkit.write_script(path, p2)
    rc, out, err = verifkit.run_runner(verifkit.BUILD + '/model_runner', path)
    cs, _ = verifkit.split_cases(out)
    viol = []
    for cid, script in cases:
        m = meta.get(cid)
        o = cs.get(cid)
        im = ci.get(cid)
        if not m or not o or not im or any(l.startswith(('PANIC', 'EXIT')) for l in im):
            continue
        spec_regs = o[1]
        spec_mem = o[2:]
        nw = len(m['watch'])
        # implementation output: n blocks of nw reads, then the registers
        snaps = [im[k * nw:(k + 1) * nw] for k in range(m['n'])]
        regs = im[m['n'] * nw] if len(im) > m['n'] * nw else None
        bad = None
        if regs != spec_regs:
            bad = 'registers after the instruction differ from the documented semantics fed with the markers of the documented read cycles: impl %s spec %s' % (regs, spec_regs)
        for k in range(1, m['n'] + 1):
            for i, a in enumerate(m['watch']):
                exp = str(marker(k, i))
                if (k, 'W', a) in m['sched']:
                    exp = spec_mem[i]
                got = snaps[k - 1][i] if k - 1 < len(snaps) and i < len(snaps[k - 1]) else None
                if got != exp and bad is None:
                    bad = 'location %d after cycle %d holds %s, documented schedule predicts %s' % (a, k, got, exp)
        if bad:
            viol.append(dict(case=cid, script=script, impl=im, model=cm.get(cid), verdict=bad))
            if len(viol) >= 5:
                break
    return viol
