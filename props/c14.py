"""C14 — VBlank and STAT interrupts are requested exactly at their conditions."""
from props import lcdlib as L

ID = 'C14'
PROP_FILE = 'Properties/C14.v'
# extraction needs every model file of frag_ppu.txt compiled, also those outside this property's closure
EXTRA_COQ = ['model/Oam.v', 'model/PpuTiming.v', 'proofs/OamProofs.v']
RULE = ('IF bits 0-1 observed after every machine cycle with IF cleared before each cycle: every single STAT '
        'source (HBlank, VBlank, OAM) and no source over 3 frames from power-on; the LYC source with every '
        'LYC 0..153 and out-of-range values over 2 frames; random combinations of sources, LYC changes and LCD '
        'on/off schedules switching at arbitrary cycles; a case is non-trivial when it shows a request; '
        'distinct = distinct (STAT enables, LYC, schedule) scripts')
LEVEL_NOTE = ('Theorems C14_vblank/C14_hblank/C14_vblank_src/C14_oam/C14_lyc hold for every history and every '
              'k : N (all frames); the STAT bit at the instants the statement leaves open (OAM source: start of '
              'line 144 and the cycle after switch-on; LYC source: the cycle after switch-on) is projected away; '
              'ppu.go is tied to the model by the cycle-by-cycle correspondence of this run and compared with '
              'the closed-form request sets in props/lcdlib.py.')
ASSUMPTIONS = ['register writes carry bytes', 'single-source statements assume bits 6-3 of STAT select one source']
ALLOWED_AXIOMS = []
KEEP_PREFIX = 0
MAX_REPORT = 3

SOURCES = dict(hblank=0x08, vblank=0x10, oam=0x20, lyc=0x40)


def generate(rng, tier):
    cases = []
    frames = 3 if tier == 'quick' else 20
    for name in ('hblank', 'vblank', 'oam'):
        cases.append((name, ['ppu.w 0x41 %d' % (SOURCES[name] | rng.choice([0, 0x80, 0x07, 0x87])),
                             'ppu.tick %d' % (frames * L.FRAME + 300)]))
    cases.append(('nosource', ['ppu.w 0x41 0', 'ppu.tick %d' % (frames * L.FRAME + 300)]))
    lycs = list(range(154)) + [154, 155, 200, 255]
    lfr = 2 if tier == 'quick' else 6
    for v in lycs:
        cases.append(('lyc%d' % v, ['ppu.w 0x45 %d' % v, 'ppu.w 0x41 0x40', 'ppu.tick %d' % (lfr * L.FRAME + 200)]))
    # single sources under on/off schedules switching at arbitrary cycles
    nsched = 24 if tier == 'quick' else 300
    for i in range(nsched):
        src = rng.choice(list(SOURCES.values()))
        lines = ['ppu.w 0x45 %d' % rng.choice([0, 1, 67, 143, 144, 153, 154, rng.randrange(256)]),
                 'ppu.w 0x41 %d' % src]
        done = 0
        while done < 2 * L.FRAME:
            r = rng.random()
            n = rng.randrange(0, 4) if r < 0.2 else (rng.randrange(1, 400) if r < 0.6 else rng.randrange(1, 19000))
            lines.append('ppu.tick %d' % n)
            done += n
            if rng.random() < 0.7:
                lines.append('ppu.w 0x40 %d' % (rng.choice([0x80, 0x00]) | 0x11))
        lines.append('ppu.tick 400')
        cases.append(('sched%d' % i, lines))
    # combinations of sources and LYC changes (beyond the statement: ties the model's general closed form)
    ncombo = 16 if tier == 'quick' else 200
    for i in range(ncombo):
        lines = []
        for _ in range(rng.randrange(3, 9)):
            lines.append('ppu.w 0x41 %d' % rng.randrange(256))
            lines.append('ppu.w 0x45 %d' % rng.choice([0, 10, 143, 144, 153, rng.randrange(160)]))
            lines.append('ppu.tick %d' % rng.randrange(1, 9000))
            if rng.random() < 0.3:
                lines.append('ppu.w 0x44 %d' % rng.randrange(256))     # store to the read-only LY
        cases.append(('combo%d' % i, lines))
    # LCD off: nothing may be requested
    cases.append(('off', ['ppu.w 0x41 0x78', 'ppu.tick 5000', 'ppu.w 0x40 0x11', 'ppu.tick 40000',
                          'ppu.w 0x40 0x91', 'ppu.tick 20000']))
    # switching the LCD off and on again: nothing is requested by the switch itself whatever source is selected and
    # whatever the mode was, and after switching on the schedule (incl. LY=LYC on line 0) restarts from scratch
    npc = 0
    lines_of_interest = [0, 1, 5, 143, 144, 153]
    for lyc in (lines_of_interest if tier != 'quick' else [0, 1, 144, rng.choice([5, 143, 153])]):
        for src in (0x40, 0x08, 0x10, 0x20):
            for rep in range(1 if tier == 'quick' else 4):
                offline = rng.choice([lyc, lyc, rng.choice(lines_of_interest)])
                k = offline * 114 + rng.choice([0, 1, 5, 19, 20, 21, 40, 62, 63, 64, 100, 113]) + rng.choice([0, 17556])
                lines = ['ppu.w 0x45 %d' % lyc, 'ppu.w 0x41 %d' % src, 'ppu.tick %d' % k, 'ppu.wi 0x40 0x11',
                         'ppu.tick %d' % rng.choice([0, 1, 50, 3000]), 'ppu.wi 0x40 0x91', 'ppu.tick %d' % (L.FRAME + 400)]
                cases.append(('pc%d' % npc, lines))
                npc += 1
    # a single source with stores to the read-only LY register at arbitrary points: no request may appear or vanish
    nly = 0
    for src in (0x40, 0x08, 0x10, 0x20):
        for rep in range(2 if tier == 'quick' else 12):
            lyc = rng.choice([0, 1, 40, 100, 143, 144, 153])
            lines = ['ppu.w 0x45 %d' % lyc, 'ppu.w 0x41 %d' % src, 'ppu.tick %d' % (lyc * 114 % L.FRAME + rng.randrange(2, 110))]
            for _ in range(6):
                lines += ['ppu.wi 0x44 %d' % rng.randrange(256), 'ppu.tick %d' % rng.choice([1, 2, 50, 114, 300, rng.randrange(1, 17556)])]
            lines.append('ppu.tick %d' % (L.FRAME + 200))
            cases.append(('ly%d' % nly, lines))
            nly += 1
    # LYC written equal to LY with the coincidence source selected: the write itself requests nothing
    nlw = 0
    for rep in range(4 if tier == 'quick' else 30):
        lines = ['ppu.w 0x45 %d' % rng.choice([5, 77, 200]), 'ppu.w 0x41 0x40', 'ppu.tick %d' % rng.randrange(200, 9000), 'ppu.wi 0x40 0x11',
                 'ppu.tick %d' % rng.choice([0, 1, 100]), 'ppu.wi 0x45 0', 'ppu.tick 50', 'ppu.wi 0x45 9', 'ppu.wi 0x45 0', 'ppu.wi 0x40 0x91']
        for _ in range(4):
            k = rng.randrange(3, 110)
            line = rng.randrange(2, 140)
            lines += ['ppu.wi 0x45 200', 'ppu.tick %d' % ((line * 114 - 2 + k) % L.FRAME + L.FRAME), 'ppu.r 0x44']
            lines += ['ppu.wi 0x45 %d' % ((line + 1) % 154), 'ppu.tick 1']     # may or may not be the current line: the model decides
        lines.append('ppu.tick 400')
        cases.append(('lycw%d' % nlw, lines))
        nlw += 1
    # register writes themselves request nothing, LCD on or off (IF is read straight after each write)
    nwr = 12 if tier == 'quick' else 150
    for i in range(nwr):
        lines = []
        if i % 2 == 0:
            lines += ['ppu.tick %d' % rng.randrange(0, 3000), 'ppu.w 0x40 0x11']
        for _ in range(rng.randrange(4, 12)):
            r = rng.random()
            if r < 0.5:
                lines.append('ppu.wi 0x41 %d' % rng.choice([0x08, 0x10, 0x20, 0x40, 0x78, 0, rng.randrange(256)]))
            elif r < 0.7:
                lines.append('ppu.wi 0x45 %d' % rng.choice([0, 1, 143, 144, 153, rng.randrange(160)]))
            elif r < 0.85:
                lines.append('ppu.wi 0x40 %d' % (rng.choice([0x80, 0x00]) | 0x11))
            else:
                lines.append('ppu.wi 0x41 0')
            lines.append('ppu.tick %d' % rng.choice([0, 1, 2, 20, 43, 63, 114, rng.randrange(1, 18000)]))
        cases.append(('wr%d' % i, lines))
    info = dict(exhaustive=False,
                input_distribution=dict(register_write_cases=nwr, power_cycle_cases=npc, single_source_cases=4, lyc_values=len(lycs), schedules=nsched,
                                        combinations=ncombo,
                                        cycles_total=sum(int(l.split()[1]) for c in cases for l in c[1]
                                                         if l.startswith('ppu.tick'))),
                samples=[dict(case=c[0], script=c[1][:8]) for c in (cases[2], cases[5], cases[165])])
    return cases, info


def single(stat):
    return bin(stat & 0x78).count('1') == 1


def project(lines):
    """keep IF bits only (LY/mode are C13's), and blank the STAT bit where the statement leaves it open"""
    out = []
    for item in L.walk(lines):
        if item[0] == 'T':
            _, states, obs, idx = item
            toks = []
            for (on, k, stat, lyc), o in zip(states, obs):
                f = o[2]
                if on and ((stat & 0x20 and L.oam_open(k)) or (stat & 0x40 and L.lyc_open(k))):
                    f &= 1
                toks.append('%d' % f)
            out.append(L.rle('T', toks))
        else:
            out.append(lines[item[3]])
    return out


def nontrivial(cid, lines, impl):
    if impl and any(l.startswith('T') and l.strip() not in ('T',) and any(t.split('*')[0] != '0' for t in l.split()[1:])
                    for l in impl):
        return cid
    return None


def matches_known(k, case, impl, model):
    return False


def spec_check(lines):
    """(projected) implementation output against the closed-form request sets of the statement"""
    cyc = 0
    lcd = L.Lcd()
    for l in lines:
        if l.startswith('w '):
            _, r, v = l.split()
            lcd.write(int(r), int(v))
        elif l.startswith('I '):
            if int(l.split()[1]) != 0:
                return ('a register write at cycle %d of the case (LCD %s) requested interrupts (IF bits %s): the '
                        'statement allows requests only at the listed instants' % (cyc, 'on' if lcd.on else 'off', l.split()[1]))
        elif l.startswith('T'):
            for tok in l.split()[1:]:
                t, n = tok.split('*')
                f = int(t)
                for _ in range(int(n)):
                    lcd.tick()
                    cyc += 1
                    vb, st = L.spec_if(lcd.on, lcd.k, lcd.stat, lcd.lyc)
                    if (f & 1) != vb:
                        return ('cycle %d of the case (LCD %s, k=%d): VBlank request bit = %d, the statement says %d'
                                % (cyc, 'on' if lcd.on else 'off', lcd.k, f & 1, vb))
                    if (not lcd.on or single(lcd.stat) or (lcd.stat & 0x78) == 0) and st is not None and (f >> 1) != st:
                        return ('cycle %d of the case (LCD %s, k=%d, position %d = line %d dot %d, STAT enables '
                                '0x%02x, LYC %d): STAT request bit = %d, the statement says %d'
                                % (cyc, 'on' if lcd.on else 'off', lcd.k, L.pos(lcd.k), L.pos(lcd.k) // 114,
                                   L.pos(lcd.k) % 114, lcd.stat & 0x78, lcd.lyc, f >> 1, st))
    return None


def judge(case, impl, model):
    if any(l.startswith('PANIC') for l in (impl or [])) and not any(l.startswith('PANIC') for l in (model or [])):
        return 'implementation panics (%s) where the model, proved never to crash on any history, does not' % \
            [l for l in impl if l.startswith('PANIC')][0]
    dev = spec_check(impl or [])
    if dev:
        return 'implementation violates the request instants of the statement (LcdSpec closed forms): ' + dev
    return ('implementation differs from the model (whose requests are proved to be the closed form '
            'C14_all_sources) in a configuration the single-source statements do not cover')


def extra(check, impl_cases, model_cases, cases):
    out = []
    for cid, lines in cases:
        impl = impl_cases.get(cid)
        if not impl or impl != model_cases.get(cid):
            continue
        dev = spec_check(impl)
        if dev:
            out.append(dict(case=cid, script=lines, impl=impl[:5], model=(model_cases.get(cid) or [])[:5],
                            verdict='implementation AND model deviate from the statement: ' + dev))
    return out
