"""C02 — every instruction takes its documented number of machine cycles."""
import verifkit
from props import cpugen

ID = 'C02'
PROP_FILE = 'Properties/C02.v'
RULE = ('every defined opcode (245 + 256) x all 16 flag nibbles from structured states, the number of '
        'ExecuteMachineCycle calls to the next instruction boundary compared (exhaustive over opcode x flags); plus random '
        'straight-line/branching programs where the count is compared per instruction; non-trivial = more than one cycle '
        'or a conditional opcode; distinct = distinct (opcode, flag nibble) or program id')
LEVEL_NOTE = ('C02_cycles quantifies over every opcode, state and bus; the Go CPU is tied to the model by regenerated tables '
              '(incl. the early-exit table and the repository\'s own metadata table, both proof obligations) and by this '
              'run (implementation vs model vs documented count). Register values are projected out (C01).')
ASSUMPTIONS = ['bus values are bytes', 'OAM-bug hooks inert (C17 covers them)']
ALLOWED_AXIOMS = []
MAX_REPORT = 6
KEEP_PREFIX = 3

SAFE_R = [0, 1, 2, 3, 7]      # B C D E A as destinations (H and L hold the data pointer)


def program(rng, n):
    """a random program in WRAM at C000: bytes and the number of instructions it executes"""
    code = []
    count = 0
    stub = 0xc800          # RET stub
    for _ in range(n):
        k = rng.randrange(14)
        if k == 0:
            code += [0x40 + 8 * rng.choice(SAFE_R) + rng.randrange(8)]          # LD r,r' / LD r,(HL)
        elif k == 1:
            code += [0x80 + rng.randrange(64)]                                    # ALU A,r / (HL)
        elif k == 2:
            code += [0x04 + 8 * rng.choice(SAFE_R) + rng.randrange(2)]          # INC/DEC r
        elif k == 3:
            code += [0xcb, rng.choice([x for x in range(256) if (x & 7) not in (4, 5)])]
        elif k == 4:
            code += [0x06 + 8 * rng.choice(SAFE_R), rng.randrange(256)]         # LD r,n
        elif k == 5:
            code += [0xc6 + 8 * rng.randrange(8), rng.randrange(256)]           # ALU A,n
        elif k == 6:
            code += [rng.choice([0xc5, 0xd5, 0xf5]), rng.choice([0xc1, 0xd1, 0xf1])]   # PUSH rr ; POP rr
            count += 1
        elif k == 7:
            code += [rng.choice([0x20, 0x28, 0x30, 0x38, 0x18]), 0]              # JR cc,+0
        elif k == 8:
            t = 0xc000 + len(code) + 3
            code += [rng.choice([0xc2, 0xca, 0xd2, 0xda, 0xc3]), t & 255, t >> 8]   # JP cc,next
        elif k == 9:
            code += [rng.choice([0xc4, 0xcc, 0xd4, 0xdc, 0xcd]), stub & 255, stub >> 8]   # CALL cc,stub
            count += 0
        elif k == 10:
            code += [0x70 + rng.choice(SAFE_R)]                                   # LD (HL),r
        elif k == 11:
            code += [rng.choice([0x07, 0x0f, 0x17, 0x1f, 0x27, 0x2f, 0x37, 0x3f])]
        elif k == 12:
            code += [rng.choice([0x03, 0x13, 0x0b, 0x1b])]                      # 16-bit inc/dec
        else:
            code += [0x34 + rng.randrange(2)]                                     # INC/DEC (HL)
        count += 1
    return code, stub


def program_case(rng, n):
    code, stub = program(rng, n)
    lines = ['mayexit', 'cpu.new', 'cpu.set %d 17 34 51 68 %d 208 16 57328 49152' % (rng.randrange(256), rng.randrange(16) << 4)]
    for i, b in enumerate(code):
        lines.append('w %d %d' % (0xc000 + i, b))
    lines.append('w %d %d' % (0xc000 + len(code), 0x76 if False else 0))
    # stub: RET cc ; RET
    lines.append('w %d %d' % (stub, rng.choice([0xc0, 0xc8, 0xd0, 0xd8, 0xc9])))
    lines.append('w %d %d' % (stub + 1, 0xc9))
    # execute: a generous number of steps; steps past the end execute NOPs (zeros) in WRAM
    steps = n + n // 2
    for _ in range(steps):
        lines.append('cpu.step')
    lines.append('cpu.get')
    return lines


def generate(rng, tier):
    cases = cpugen.flag_cases(rng)
    nprog = 150 if tier == 'quick' else 3000
    for i in range(nprog):
        cases.append(('prog%d' % i, program_case(rng, rng.randrange(10, 60))))
    # the idle loop JR -2 (and other backward jumps onto themselves) spun many times, master enable set and clear
    for i, (code, ime) in enumerate([([0x18, 0xfe], 1), ([0x18, 0xfe], 0), ([0x00, 0x18, 0xfd], 1), ([0xc3, 0x00, 0xc0], 1),
                                     ([0xaf, 0x28, 0xfd], 1), ([0x37, 0x38, 0xfd], 0)]):
        lines = ['cpu.new', 'cpu.set 1 17 34 51 68 0 208 16 57328 49152']
        for j, b in enumerate(code):
            lines.append('w %d %d' % (0xc000 + j, b))
        lines += ['w 65535 0', 'cpu.ime %d' % ime] + ['cpu.step'] * 14 + ['cpu.get']
        cases.append(('spin%d' % i, lines))
    info = dict(exhaustive=True,
                input_distribution=dict(opcode_flag_cases=len(cases) - nprog, random_programs=nprog),
                samples=[dict(case=cases[5][0], script=cases[5][1]), dict(case=cases[-1][0], script=cases[-1][1][:40])])
    return cases, info


def project_case(cid, lines):
    return [l for l in lines if l.startswith('cyc') or l.startswith('PANIC') or l.startswith('EXIT')]


def nontrivial(cid, lines, impl):
    if impl and any(l != 'cyc 1' for l in impl):
        return cid
    return None


def matches_known(k, case, impl, model):
    return False


def judge(case, impl, model):
    return ('machine-cycle count between instruction boundaries differs from the model, whose count is proved equal to the '
            'documented count (C02_cycles)')


def extra(check, ci, cm, cases):
    spec_cases = cpugen.to_spec([c for c in cases if c[0].startswith('t')])
    path = verifkit.BUILD + '/scripts/C02_spec.txt'
    verifkit.write_script(path, spec_cases)
    rc, out, err = verifkit.run_runner(verifkit.BUILD + '/model_runner', path)
    cs, _ = verifkit.split_cases(out)
    viol = []
    for cid, lines in spec_cases:
        a = project_case(cid, ci.get(cid, []))
        b = project_case(cid, cs.get(cid, []))
        if a != b:
            viol.append(dict(case=cid, script=lines, impl=ci.get(cid), model=cs.get(cid),
                             verdict='implementation cycle count differs from the documented count (spec.step)'))
            if len(viol) >= 5:
                break
    return viol
