"""C22 — JOYP reflects held buttons for the selected groups."""
ID = 'C22'
PROP_FILE = 'Properties/C22.v'
RULE = ('complete reachable controller state space: every (direction state, button state) reachable by presses '
        '(9 x 16), followed by each of the 16 press/release events or none, then every one of the 256 select '
        'writes followed by a JOYP read; a case is non-trivial when its reads are not all the same value; '
        'distinct = distinct (state, event) pairs')
LEVEL_NOTE = ('Theorems C22_read / C22_no_opposites quantify over every event history; the Go controller is tied to '
              'the model by the exhaustive state-space correspondence of this run (controller driven directly and '
              'through Mapper.Read/Write(0xFF00)).')
ASSUMPTIONS = ['select writes carry a byte (Mapper.Write passes a uint8)']
ALLOWED_AXIOMS = []
KEEP_PREFIX = 0

BTN = dict(Up=0, Down=1, Left=2, Right=3, A=4, B=5, Start=6, Select=7)


def generate(rng, tier):
    cases = []
    vert = [[], ['joy.b 0 1'], ['joy.b 1 1']]
    horiz = [[], ['joy.b 2 1'], ['joy.b 3 1']]
    n = 0
    writes = list(range(256))
    for v in vert:
        for h in horiz:
            for bmask in range(16):
                path = v + h + ['joy.b %d 1' % (4 + i) for i in range(4) if bmask >> i & 1]
                events = [None] + [(b, p) for b in range(8) for p in (0, 1)]
                for ev in events:
                    lines = list(path)
                    if ev:
                        lines.append('joy.b %d %d' % ev)
                    ws = writes if tier == 'thorough' else [w for w in writes if (w & 0x0f) in (0, 5, 15) or w % 7 == 0]
                    for w in ws:
                        lines.append('joy.w %d' % w)
                        lines.append('joy.r')
                    cases.append(('s%d' % n, lines))
                    n += 1
    # random long histories
    for k in range(200 if tier == 'quick' else 2000):
        lines = []
        for _ in range(rng.randrange(5, 120)):
            r = rng.random()
            if r < 0.5:
                lines.append('joy.b %d %d' % (rng.randrange(8), rng.randrange(2)))
            elif r < 0.75:
                lines.append('joy.w %d' % rng.choice([0x00, 0x10, 0x20, 0x30, rng.randrange(256)]))
            else:
                lines.append('joy.r')
        lines.append('joy.r')
        cases.append(('h%d' % k, lines))
    # through the whole machine: display key events -> controller -> JOYP read through the Mapper
    from props import sysgen
    for k in range(6 if tier == 'quick' else 60):
        cases.append(('key%d' % k, sysgen.key_case(rng, [0x18, 0xfe], n_events=12)))
    info = dict(exhaustive=(tier == 'thorough'),
                input_distribution=dict(state_event_cases=n, random_histories=len(cases) - n,
                                        ops_total=sum(len(c[1]) for c in cases)),
                samples=[dict(case=cases[40][0], script=cases[40][1][:12] + ['...'])])
    return cases, info


def nontrivial(cid, lines, impl):
    if impl and len(set(impl)) > 1:
        return cid
    return None


def matches_known(k, case, impl, model):
    return False


def judge(case, impl, model):
    return ('JOYP read differs from the register the statement fixes (model value is proved equal to the '
            'bit-by-bit specification by C22_read)')
