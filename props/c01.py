"""C01 — every SM83 instruction has its documented effect on registers, flags and memory."""
import re
import verifkit
from props import cpugen

ID = 'C01'
PROP_FILE = 'Properties/C01.v'
RULE = ('every opcode (245 defined + 11 undefined + 256 CB) x K structured states (pairwise distinct register values, '
        'pointers in WRAM/echo/HRAM/VRAM/OAM, random flags and operands), registers and watched memory compared after one '
        'instruction, every 4th case with a full before/after diff of the address space; exhaustive sweeps through real '
        'opcodes: 8-bit ALU A x operand x flags, INC/DEC r, rotates, BIT/RES/SET, DAA x all flag nibbles, 16-bit INC/DEC over '
        'all 65,536 values, ADD SP,e / LD HL,SP+e over SP low byte x e, ADD HL,rr boundary + random pairs. '
        'non-trivial = the instruction changed a register, flag, PC beyond length, or memory; distinct = distinct case ids')
LEVEL_NOTE = ('Theorems in Properties/C01.v quantify over every opcode, every register/flag state and every bus; the Go CPU is '
              'tied to the model by regenerated opcode tables (translator) and by this differential run (implementation vs '
              'model vs executable specification). Cycle counts are projected out (they belong to C02).')
ASSUMPTIONS = ['bus values are bytes', 'OAM-bug hooks inert for the instruction theorem (LCD off or pointers outside FE00-FEFF); C17 covers them']
ALLOWED_AXIOMS = []
MAX_REPORT = 6


def generate(rng, tier):
    k = 12 if tier == 'quick' else 200
    cases = cpugen.instr_cases(rng, k, diff_every=4)
    cases += cpugen.alu_sweeps(tier)
    cases += cpugen.addhl_cases(rng, tier)
    info = dict(input_distribution=dict(opcode_cases=512 * k, sweep_cases=len(cpugen.alu_sweeps(tier)),
                                        states_per_opcode=k),
                exhaustive=False,
                samples=[dict(case=cases[700][0], script=cases[700][1])])
    return cases, info


def project_case(cid, lines):
    """drop the cycle counts (C02's observable)"""
    return [l for l in lines if not l.startswith('cyc')]


def nontrivial(cid, lines, impl):
    if impl and len(impl) > 0:
        return cid
    return None


def matches_known(k, case, impl, model):
    return False


def judge(case, impl, model):
    return ('architectural state or memory after the instruction differs from the model, whose instruction semantics '
            'is proved equal to the documented semantics (C01_effect)')


def extra(check, ci, cm, cases):
    """implementation against the executable specification (needed when a table obligation fails and the model follows the code)"""
    spec_cases = cpugen.to_spec(cases)
    path = verifkit.BUILD + '/scripts/C01_spec.txt'
    verifkit.write_script(path, spec_cases)
    rc, out, err = verifkit.run_runner(verifkit.BUILD + '/model_runner', path)
    cs, _ = verifkit.split_cases(out)
    viol = []
    for cid, lines in spec_cases:
        a = project_case(cid, ci.get(cid, []))
        b = project_case(cid, cs.get(cid, []))
        if a != b:
            if cid.startswith('op10_'):
                continue  # STOP: PC may advance by one or two bytes
            viol.append(dict(case=cid, script=lines, impl=ci.get(cid), model=cs.get(cid),
                             verdict='implementation differs from the executable documented semantics (spec.step)'))
            if len(viol) >= 5:
                break
    check.spec_compared = len(spec_cases)
    return viol
