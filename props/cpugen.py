"""Case generators shared by the CPU properties C01-C05 (scripts for harness/run/ops_cpu.go and coq/extract/r_cpu.ml)."""

UNDEFINED = [0xd3, 0xdb, 0xdd, 0xe3, 0xe4, 0xeb, 0xec, 0xed, 0xf4, 0xfc, 0xfd]
COND = {0x20: 'NZ', 0x28: 'Z', 0x30: 'NC', 0x38: 'C', 0xc0: 'NZ', 0xc8: 'Z', 0xd0: 'NC', 0xd8: 'C', 0xc2: 'NZ', 0xca: 'Z',
        0xd2: 'NC', 0xda: 'C', 0xc4: 'NZ', 0xcc: 'Z', 0xd4: 'NC', 0xdc: 'C'}
HRAM_OFFS = list(range(0x80, 0xff)) + [0x0f, 0xff]


def length(op):
    """instruction length in bytes of a base-page opcode (0xCB counts as 2)"""
    if op == 0xcb:
        return 2
    if op in (0x01, 0x11, 0x21, 0x31, 0x08, 0xc3, 0xc2, 0xca, 0xd2, 0xda, 0xcd, 0xc4, 0xcc, 0xd4, 0xdc, 0xea, 0xfa):
        return 3
    if op in (0x06, 0x0e, 0x16, 0x1e, 0x26, 0x2e, 0x36, 0x3e, 0x18, 0x20, 0x28, 0x30, 0x38, 0xc6, 0xce, 0xd6, 0xde, 0xe6,
              0xee, 0xf6, 0xfe, 0xe0, 0xf0, 0xe8, 0xf8):
        return 2
    return 1


def safe_ptr(rng):
    """an address in plain RAM (WRAM, its echo, HRAM, VRAM or OAM with the LCD off), away from the code at C000-C0FF"""
    k = rng.randrange(10)
    if k < 4:
        return rng.randrange(0xc100, 0xdf00)
    if k < 5:
        return rng.randrange(0xe100, 0xfd00)
    if k < 7:
        return rng.randrange(0xff82, 0xfffc)
    if k < 9:
        return rng.randrange(0x8002, 0x9ff0)
    return rng.randrange(0xfe02, 0xfe9c)


def is_safe(a):
    return (0xc000 <= a < 0xfea0) or (0xff80 <= a <= 0xffff) or (0x8000 <= a < 0xa000) or a == 0xff0f or a < 0x8000


def structured_state(rng):
    """registers with pairwise distinct 8-bit values; BC, DE, HL and SP point into plain RAM; C indexes HRAM/IF/IE"""
    while True:
        c = rng.choice(HRAM_OFFS) if rng.random() < 0.5 else None
        bcv = safe_ptr(rng)
        if c is not None:
            bcv = (rng.choice(list(range(0xc1, 0xdf)) + list(range(0x81, 0x9f))) << 8) | c
        dev, hlv = safe_ptr(rng), safe_ptr(rng)
        a = rng.randrange(256)
        regs = [a, bcv >> 8, bcv & 255, dev >> 8, dev & 255, hlv >> 8, hlv & 255]
        if len(set(regs)) == 7:
            break
    spv = rng.choice([rng.randrange(0xc200, 0xdef0), rng.randrange(0xff90, 0xfff8)])
    f = rng.randrange(16) << 4
    return dict(a=a, b=bcv >> 8, c=bcv & 255, d=dev >> 8, e=dev & 255, h=hlv >> 8, l=hlv & 255, f=f, sp=spv)


def set_line(st, pc):
    return 'cpu.set %d %d %d %d %d %d %d %d %d %d' % (st['a'], st['b'], st['c'], st['d'], st['e'], st['f'], st['h'],
                                                      st['l'], st['sp'], pc)


def instr_case(rng, op, cb=None, st=None, diff=False, step='cpu.step'):
    """one instruction from a structured state; returns script lines"""
    st = st or structured_state(rng)
    if op in (0xe2, 0xf2):
        f0 = st['f']
        while st['c'] not in HRAM_OFFS:
            st = structured_state(rng)
        st['f'] = f0
    pc = 0xc000 + rng.randrange(0, 0xe0)
    lines = []
    if op in UNDEFINED:
        lines.append('mayexit')
    lines.append('cpu.new')
    lines.append(set_line(st, pc))
    n = length(op)
    operands = []
    if op == 0xcb:
        operands = [cb]
    elif n == 3:
        if op in (0x08, 0xea, 0xfa):
            t = safe_ptr(rng)
            while t & 0xff == 0xff:
                t = safe_ptr(rng)
        else:
            t = rng.choice([rng.randrange(0xc000, 0xc0e0), rng.randrange(65536), rng.randrange(0x100, 0x8000)])
        operands = [t & 255, t >> 8]
    elif n == 2:
        if op in (0xe0, 0xf0):
            operands = [rng.choice(HRAM_OFFS)]
        else:
            operands = [rng.choice([rng.randrange(256), 0, 0xff, 0x80, 0x7f, 0xf0, 0x10, 0x0f])]
    code = [op] + operands
    for i, b in enumerate(code):
        lines.append('w %d %d' % (pc + i, b))
    # following bytes: NOPs
    for i in range(len(code), len(code) + 2):
        lines.append('w %d 0' % (pc + i))
    hl = st['h'] << 8 | st['l']
    bc = st['b'] << 8 | st['c']
    de = st['d'] << 8 | st['e']
    sp = st['sp']
    watch = [hl, bc, de, sp, (sp + 1) & 0xffff, (sp - 1) & 0xffff, (sp - 2) & 0xffff, 0xff00 + st['c']]
    if n == 3:
        nn = operands[0] | operands[1] << 8
        watch += [nn, (nn + 1) & 0xffff]
    if n == 2:
        watch.append(0xff00 + operands[0])
    codeaddrs = set(range(pc, pc + len(code) + 2))
    watch = [a for a in dict.fromkeys(watch) if is_safe(a) and a >= 0x8000 and a not in codeaddrs]
    for a in watch:
        if a not in (0xff0f, 0xffff):
            lines.append('w %d %d' % (a, rng.randrange(256)))
    if rng.random() < 0.3:
        lines.append('cpu.ime %d' % rng.randrange(2))
    lines.append('cpu.stepdiff' if diff else step)
    lines.append('cpu.get')
    for a in watch:
        lines.append('r %d' % a)
    return lines


def all_opcodes():
    """(op, cb) for the 245 defined base opcodes, the 11 undefined ones and the 256 CB-page opcodes"""
    ops = [(op, None) for op in range(256) if op != 0xcb]
    ops += [(0xcb, cb) for cb in range(256)]
    return ops


def sweep_case(opbytes, sweep_line, regs=None):
    st = dict(a=1, b=2, c=3, d=4, e=5, f=0, h=0xd0, l=0x10, sp=0xdff0)
    if regs:
        st.update(regs)
    lines = ['cpu.new', set_line(st, 0xc000)]
    for i, b in enumerate(opbytes):
        lines.append('w %d %d' % (0xc000 + i, b))
    lines.append(sweep_line)
    return lines


ALL_F = ' '.join(str(n << 4) for n in range(16))


def alu_sweeps(tier):
    """exhaustive finite sweeps through real opcodes: (case id, lines)"""
    cases = []
    fs_full = ALL_F
    fs_some = '0 16 240' if tier == 'quick' else ALL_F
    fs_two = '16' if tier == 'quick' else '0 16 224 240'
    names = ['add', 'adc', 'sub', 'sbc', 'and', 'xor', 'or', 'cp']
    for y in range(8):
        cases.append(('alu_%s_b' % names[y], sweep_case([0x80 + 8 * y], 'cpu.sweepau 256 B B ' + fs_some)))
        cases.append(('alu_%s_hl' % names[y], sweep_case([0x86 + 8 * y], 'cpu.sweepau 256 M M ' + fs_two)))
        cases.append(('alu_%s_n' % names[y], sweep_case([0xc6 + 8 * y, 0], 'cpu.sweepau 256 I A ' + fs_two)))
        cases.append(('alu_%s_a' % names[y], sweep_case([0x87 + 8 * y], 'cpu.sweepau 256 N A ' + fs_full)))
    regs = ['B', 'C', 'D', 'E', 'H', 'L', 'M', 'A']
    for y in range(8):
        loc = regs[y]
        if loc == 'A':
            cases.append(('inc_a', sweep_case([0x3c], 'cpu.sweepau 256 N A ' + fs_full)))
            cases.append(('dec_a', sweep_case([0x3d], 'cpu.sweepau 256 N A ' + fs_full)))
        elif loc in ('H',):
            # HL is the pointer of the (HL) forms only; INC H itself is a plain register form
            cases.append(('inc_h', sweep_case([0x24], 'cpu.sweepau 1 H H ' + fs_full)))
            cases.append(('dec_h', sweep_case([0x25], 'cpu.sweepau 1 H H ' + fs_full)))
        else:
            cases.append(('inc_%s' % loc.lower(), sweep_case([0x04 + 8 * y], 'cpu.sweepau 1 %s %s %s' % (loc, loc, fs_full))))
            cases.append(('dec_%s' % loc.lower(), sweep_case([0x05 + 8 * y], 'cpu.sweepau 1 %s %s %s' % (loc, loc, fs_full))))
    for op, nm in [(0x07, 'rlca'), (0x0f, 'rrca'), (0x17, 'rla'), (0x1f, 'rra'), (0x27, 'daa'), (0x2f, 'cpl'), (0x37, 'scf'),
                   (0x3f, 'ccf')]:
        cases.append((nm, sweep_case([op], 'cpu.sweepau 256 N A ' + fs_full)))
    # CB page: rotates/shifts, BIT, RES, SET on B and on (HL) exhaustively; the other registers in thorough
    locs = ['B', 'M'] if tier == 'quick' else regs
    for cb in range(256):
        loc = regs[cb & 7]
        if loc not in locs:
            continue
        if loc == 'A':
            cases.append(('cb_%02x' % cb, sweep_case([0xcb, cb], 'cpu.sweepau 256 N A ' + fs_full)))
        else:
            cases.append(('cb_%02x' % cb, sweep_case([0xcb, cb], 'cpu.sweepau 1 %s %s %s' % (loc, loc, fs_full))))
    # 16-bit INC/DEC: every value of the pair
    for op, pair in [(0x03, 'BC'), (0x13, 'DE'), (0x23, 'HL'), (0x33, 'SP'), (0x0b, 'BC'), (0x1b, 'DE'), (0x2b, 'HL'),
                     (0x3b, 'SP')]:
        cases.append(('rp_%02x' % op, sweep_case([op], 'cpu.sweep16 %s 1' % pair)))
    # ADD SP,e and LD HL,SP+e: SP low byte x e exhaustively, for several high bytes
    his = [0x00, 0xff, 0x80] if tier == 'quick' else [0x00, 0xff, 0x80, 0x7f, 0x01, 0xfe, 0xcf, 0x10]
    for op in (0xe8, 0xf8):
        for hi in his:
            for f in ([240] if tier == 'quick' else [0, 240]):
                cases.append(('sp_%02x_%02x_%d' % (op, hi, f), sweep_case([op, 0], 'cpu.sweepsp %d %d' % (hi, f))))
    return cases


def addhl_cases(rng, tier):
    """ADD HL,rr: boundary-structured plus random 16-bit operand pairs"""
    bnd = [0x0000, 0x0001, 0x00ff, 0x0100, 0x0fff, 0x1000, 0x7fff, 0x8000, 0xf000, 0xf001, 0xffff, 0x0800, 0x8800, 0xefff]
    pairs = [(x, y) for x in bnd for y in bnd]
    pairs += [(rng.randrange(65536), rng.randrange(65536)) for _ in range(600 if tier == 'quick' else 20000)]
    cases = []
    for i, (x, y) in enumerate(pairs):
        op = rng.choice([0x09, 0x19, 0x39]) if x != y else 0x29
        st = dict(a=rng.randrange(256), b=1, c=2, d=3, e=4, h=x >> 8, l=x & 255, f=rng.randrange(16) << 4, sp=0xdff0)
        if op == 0x09:
            st['b'], st['c'] = y >> 8, y & 255
        elif op == 0x19:
            st['d'], st['e'] = y >> 8, y & 255
        elif op == 0x39:
            st['sp'] = y
        lines = ['cpu.new', set_line(st, 0xc000), 'w 49152 %d' % op, 'cpu.step', 'cpu.get']
        cases.append(('addhl%d' % i, lines))
    return cases


def instr_cases(rng, k, diff_every=0):
    cases = []
    for (op, cb) in all_opcodes():
        for j in range(k):
            d = diff_every and (j % diff_every == 0)
            cid = ('op%02x_%d' % (op, j)) if cb is None else ('cb%02x_%d' % (cb, j))
            cases.append((cid, instr_case(rng, op, cb, diff=d)))
    return cases


def flag_cases(rng):
    """every opcode x all 16 flag nibbles (C02's exhaustive timing enumeration)"""
    cases = []
    for (op, cb) in all_opcodes():
        if op in UNDEFINED:
            continue
        for n in range(16):
            st = structured_state(rng)
            st['f'] = n << 4
            cid = ('t%02x_%x' % (op, n)) if cb is None else ('tcb%02x_%x' % (cb, n))
            cases.append((cid, instr_case(rng, op, cb, st=st)))
    return cases


def to_spec(cases):
    """the same cases with the implementation-facing step replaced by the executable specification"""
    out = []
    for cid, lines in cases:
        if any(l.startswith('cpu.sweep') or l == 'cpu.stepdiff' for l in lines):
            continue
        out.append((cid, [('spec.step' if l == 'cpu.step' else l) for l in lines]))
    return out
