"""C09 — cartridge RAM is gated, banked and retained per controller."""
from props import cartgen as G

ID = 'C09'
PROP_FILE = 'Properties/C09.v'
RULE = ('controller (MBC1, MBC2, MBC3, MBC5; every supported type code) x RAM-size code 0..5 x random histories of '
        'enable/disable, bank-select (including out-of-range bank numbers), reads and writes over the whole window '
        'A000-BFFF with RAM dumps (digest + length) in between and at the end; per type x RAM size a walk over every '
        'bank number 0..15 writing one marker per bank and reading all back; every byte value written to the '
        'enable region; MBC2 all 256 values at 256 cells read back through every mirror; ROM-only windows. '
        'A case is non-trivial when some read or dump differs from the blank state (a value other than 255 or '
        'a changed dump digest); distinct = distinct case ids')
LEVEL_NOTE = ('C09_ram_refines quantifies over every image that constructs and every operation history (reads of the '
              'window and the dump equal the abstract banked store); C09_retained, C09_disabled_ff, C09_mbc2_nibbles, '
              'C09_romonly_ff are consequences.  The initial content of RAM, which the statement leaves open, is 0xFF '
              'as in the code.  The Go controllers are tied to the model by this run\'s correspondence.')
ASSUMPTIONS = ['written values are bytes (Mapper.Write takes a uint8)']
ALLOWED_AXIOMS = []
KEEP_PREFIX = 1
MAX_REPORT = 6


def generate(rng, tier):
    thorough = tier == 'thorough'
    rh = G.ram_histories(rng, 4000 if thorough else 500)
    bw = G.ram_bank_walk()
    en = G.enable_values()
    nib = G.mbc2_nibbles()
    ro = G.romonly_ram()
    rs = G.random_sequences(rng, 1500 if thorough else 200, romcodes=[0, 1, 3], ram_ops=True, ticks=True, prefix='rq')
    cases = rh + bw + en + nib + ro + rs
    info = dict(exhaustive=False,
                input_distribution=dict(ram_histories=len(rh), bank_walks=len(bw), enable_value_sweeps=len(en),
                                        mbc2_nibble_sweeps=len(nib), romonly=len(ro), mixed_sequences=len(rs),
                                        ops_total=sum(len(c[1]) for c in cases),
                                        ram_codes=G.RAMCODES, types=[hex(t) for k in ('mbc1', 'mbc2', 'mbc3', 'mbc5') for t in G.KINDS[k]]),
                samples=[dict(case=c[0], script=c[1][:14] + ['...']) for c in (rh[1], bw[3], nib[0])])
    return cases, info


BLANK_DUMPS = None


def nontrivial(cid, lines, impl):
    if not impl:
        return None
    for l in impl:
        p = l.split()
        if all(x.isdigit() for x in p) and len(p) == 1 and p[0] != '255':
            return cid
    return None


def matches_known(k, case, impl, model):
    return False


def judge(case, impl, model):
    return ('a read of A000-BFFF or the RAM dump (or a crash) differs from the model, which C09_ram_refines proves '
            'equal to the abstract banked store (0xFF while disabled, selected bank modulo the bank count, contents '
            'retained)')
