"""C12 — the timer counts, overflows and reloads as the DMG timer."""
import os
import sys

sys.path.insert(0, os.path.dirname(os.path.dirname(os.path.abspath(__file__))))
import verifkit

ID = 'C12'
PROP_FILE = 'Properties/C12.v'
RULE = ('explicit scripts on timer.Timer (every operation sequence of length <= 3 over an 11-letter alphabet '
        '{tick, wDIV, wTIMA FF/42, wTMA FF/31, wTAC 4/5/6/7/1} from start states at every counter phase around the '
        'rising and falling edge of each selectable bit (3, 5, 7, 9), around the counter wrap and with TIMA = FE/FF; '
        'directed reload-window scenarios; long random schedules, every second one through Mapper.Read/Write FF04-FF07 '
        'with a runFrame-style cycle end and IF bit 2), each also judged by an independent Python '
        'evaluator of the cycle-level statement; in-process depth-first sweeps (tm.sweep) of ALL sequences of '
        'length 5 from every start state and length 6 from a subset (thorough: 6 / 7), compared by digest per '
        'first operation and located by descent; a case is non-trivial when TIMA changes or an interrupt is '
        'requested; distinct = distinct operation sequences per start state')
LEVEL_NOTE = ('C12_refines quantifies over every operation list and every initial counter value (simulation + '
              'induction); the Go timer is tied to the model by this run\'s correspondence on timer.Timer driven '
              'directly (Mapper FF04-FF07 and runFrame only forward to these methods).')
ASSUMPTIONS = ['register writes carry a byte (Mapper.Write passes a uint8)',
               'per machine cycle the bus writes precede Timer.EndMachineCycle (gameboy.go runFrame)']
ALLOWED_AXIOMS = []
KEEP_PREFIX = 0
MAX_REPORT = 3

# ---------------------------------------------------------------------------------------------------------
# operations: (kind, value) with kinds tick/wdiv/wtima/wtma/wtac; encoded for tm.sweep as kind*256+value
KINDS = ['tick', 'wdiv', 'wtima', 'wtma', 'wtac']
ALPHA = [('tick', 0), ('wdiv', 0), ('wtima', 0xFF), ('wtima', 0x42), ('wtma', 0xFF), ('wtma', 0x31),
         ('wtac', 4), ('wtac', 5), ('wtac', 6), ('wtac', 7), ('wtac', 1)]
ALPHA_BIG = ALPHA + [('wtac', 0), ('wtac', 2), ('wtac', 3), ('wtima', 0x00), ('wtma', 0x00)]


def code(op):
    return KINDS.index(op[0]) * 256 + op[1]


def op_lines(op, read=True):
    """script lines of one operation; a write is followed by a register read so every operation is observed"""
    if op[0] == 'tick':
        return ['tm.tick']
    return ['tm.%s %d' % op] + (['tm.r'] if read else [])


def start_lines(c, tac, tima, tma):
    """reach (counter c, TAC, TIMA, TMA, edge detector consistent with c) by real operations: set the counter one
    cycle early, write the registers, end the cycle"""
    return ['tm.setc %d' % ((c - 4) & 0xFFFF), 'tm.wtac %d' % tac, 'tm.wtma %d' % tma, 'tm.wtima %d' % tima,
            'tm.tick']


def start_states():
    out = []
    base = 0x3000
    for sel, bit in ((1, 3), (2, 5), (3, 7), (0, 9)):
        tac = 4 | sel
        per = 1 << (bit + 1)
        if bit == 3:
            offs = [0, 4, 8, 12]
        else:
            half = per // 2
            offs = [per - 12, per - 8, per - 4, 0, 4, half - 8, half - 4, half, half + 4, half + half // 2]
        for off in offs:
            for tima in (0xFF, 0xFE):
                out.append((base + off, tac, tima, 0x77))
    for tac in (4, 5, 6, 7):
        for c in (0xFFF8, 0xFFFC, 0x0000, 0x0004):
            out.append((c, tac, 0xFF, 0xFE))
    out.append((0x3000, 1, 0xFF, 0x77))
    out.append((0xFFFC, 3, 0xFF, 0x77))
    return out


# ---------------------------------------------------------------------------------------------------------
# independent evaluator of the statement (machine-cycle granularity), used to judge the implementation directly
class Spec:
    def __init__(self):
        self.cnt, self.tima, self.tma, self.tac = 0xABCC, 0, 0, 0
        self.prev = False
        self.ph = 0          # 0 running, 1 overflow cycle (TIMA reads 0, reload pending), 2 reload cycle
        self.overflowed = False
        self.tags = set()    # classes of the defects the unrepaired code had, met by this schedule

    def sig(self):
        return bool(self.tac & 4) and bool((self.cnt >> (9, 3, 5, 7)[self.tac & 3]) & 1)

    def obs(self):
        return '%d %d %d %d' % (self.cnt >> 8, self.tima, self.tma, 0xF8 | (self.tac & 7))

    def tick(self):
        self.cnt = (self.cnt + 4) & 0xFFFF
        if self.ph == 1:
            self.tima, self.ph = self.tma, 2
        else:
            self.ph = 0
        now = self.sig()
        irq = 0
        if self.prev and not now:
            self.tima = (self.tima + 1) & 0xFF
            if self.tima == 0:
                self.ph, irq, self.overflowed = 1, 1, True
        self.prev = now
        return irq

    def write(self, kind, v):
        if kind == 'wdiv':
            if self.ph != 0:
                self.tags.add('div-write-in-reload-window')
            self.cnt = 0
        elif kind == 'wtima':
            if not self.overflowed and self.cnt == 0xFFFC:
                self.tags.add('tima-write-at-fffc-before-first-overflow')
            if self.ph == 1:
                self.tags.add('tima-write-cancels-reload')
            if self.ph != 2:
                self.tima = v
                self.ph = 0
        elif kind == 'wtma':
            if not self.overflowed and self.cnt == 0:
                self.tags.add('tma-write-at-0-before-first-overflow')
            self.tma = v
            if self.ph == 2:
                self.tima = v
        elif kind == 'wtac':
            self.tac = v & 7


def spec_eval(lines):
    """expected output lines of an explicit script, and the defect-class tags it meets; None if not explicit"""
    s = Spec()
    out = []
    for l in lines:
        a = l.split()
        if not a:
            continue
        if a[0] == 'tm.new':
            s = Spec()
        elif a[0] == 'tm.setc':
            s.cnt = int(a[1], 0) & 0xFFFF
        elif a[0] == 'tm.tick':
            irq = s.tick()
            out.append('%d %s' % (irq, s.obs()))
        elif a[0] in ('tm.wdiv', 'tm.wtima', 'tm.wtma', 'tm.wtac'):
            s.write(a[0][3:], int(a[1], 0) & 0xFF)
        elif a[0] == 'tm.r':
            out.append(s.obs())
        elif a[0] == 'tm.c':
            out.append('%d' % s.cnt)
        elif a[0] == 'tmb.new':
            s = Spec()
        elif a[0] == 'tmb.setc':
            s.cnt = int(a[1], 0) & 0xFFFF
        elif a[0] == 'tmb.cycle':
            irq = s.tick()
            out.append('%d %s' % (irq, s.obs()))
        elif a[0] == 'tmb.r':
            out.append(s.obs())
        elif a[0] == 'tmb.w':
            reg = {0xFF04: 'wdiv', 0xFF05: 'wtima', 0xFF06: 'wtma', 0xFF07: 'wtac'}.get(int(a[1], 0))
            if reg:
                s.write(reg, int(a[2], 0) & 0xFF)
        else:
            return None, set()
    return out, s.tags


BUS_ADDR = dict(wdiv=0xFF04, wtima=0xFF05, wtma=0xFF06, wtac=0xFF07)


def through_bus(lines):
    """the same schedule issued through Mapper.Read/Write and a runFrame-style cycle end"""
    out = ['tmb.new']
    for l in lines:
        a = l.split()
        if a[0] == 'tm.setc':
            out.append('tmb.setc ' + a[1])
        elif a[0] == 'tm.tick':
            out.append('tmb.cycle')
        elif a[0] == 'tm.r':
            out.append('tmb.r')
        elif a[0][3:] in BUS_ADDR:
            out.append('tmb.w 0x%04x %s' % (BUS_ADDR[a[0][3:]], a[1]))
    return out


def cycle_ends(lines):
    """observations a program on the bus can make: the lines printed by cycle ends (five fields) and counters"""
    return [l for l in (lines or []) if len(l.split()) != 4]


def first_diff(a, b):
    a, b = a or [], b or []
    for i in range(max(len(a), len(b))):
        x = a[i] if i < len(a) else None
        y = b[i] if i < len(b) else None
        if x != y:
            return i, x, y
    return None


# ---------------------------------------------------------------------------------------------------------
INFO = {}


def generate(rng, tier):
    cases = []
    starts = start_states()
    # (1) directed reload-window scenarios: overflow at the 4th tick (TAC 5, counter 0x100), then every pair of
    #     operations in the overflow cycle and the reload cycle
    setup = ['tm.setc 256', 'tm.wtac 5', 'tm.wtima 255', 'tm.wtma 119', 'tm.tick', 'tm.tick', 'tm.tick', 'tm.tick']
    n = 0
    for a in ALPHA:
        for b in ALPHA:
            for c in ALPHA[:6]:
                lines = setup + op_lines(a) + ['tm.tick'] + op_lines(b) + ['tm.tick'] + op_lines(c) + \
                    ['tm.tick', 'tm.tick', 'tm.c']
                cases.append(('w%d' % n, lines))
                n += 1
    n_directed = n
    # (2) every sequence of length <= 3 from a spread of start states
    sub = starts if tier == 'thorough' else starts[::2]
    n = 0
    for si, st in enumerate(sub):
        pre = start_lines(*st)
        for a in ALPHA:
            cases.append(('e%d_%d' % (si, n), pre + op_lines(a)))
            n += 1
            for b in ALPHA:
                cases.append(('e%d_%d' % (si, n), pre + op_lines(a) + op_lines(b)))
                n += 1
                for c in ALPHA:
                    cases.append(('e%d_%d' % (si, n), pre + op_lines(a) + op_lines(b) + op_lines(c)))
                    n += 1
    n_enum = n
    # (3) long random schedules: a realistic mix (mostly cycles, occasional writes, fast timer, TIMA near the top)
    #     and a hostile mix (uniform over the operations)
    n_sched = 40 if tier == 'quick' else 400
    steps = 0
    for k in range(n_sched):
        lines = ['tm.setc %d' % (rng.randrange(0x4000) * 4)]
        hostile = k % 4 == 3
        length = 2500
        for _ in range(length):
            r = rng.random()
            if hostile:
                kind = rng.choice(KINDS)
            else:
                kind = 'tick' if r < 0.72 else rng.choice(KINDS[1:])
            if kind == 'tick':
                lines.append('tm.tick')
            else:
                if kind == 'wtac':
                    v = rng.choice([5, 5, 5, 4, 6, 7, 1, rng.randrange(256)])
                elif kind == 'wtima':
                    v = rng.choice([0xFF, 0xFE, 0xFD, rng.randrange(256)])
                elif kind == 'wtma':
                    v = rng.choice([0xFF, 0xFE, 0x00, rng.randrange(256)])
                else:
                    v = rng.randrange(256)
                lines += op_lines((kind, v))
            steps += 1
        lines.append('tm.c')
        if k % 2 == 1:
            lines = through_bus(lines)
        cases.append(('r%d' % k, lines))
    # through the real frame loop: a TIMA overflow in every position relative to the end of a frame (TAC 4: one tick per 256
    # machine cycles; the a-th case is shifted by a cycles, so exactly one overflows in the very last cycle of the frame),
    # the request read back from IF after the frame
    for a in range(256):
        cases.append(('fr%d' % a, ['gb.newloop 0 0 0 0', 'gb.cyc 0 %d' % a, 'gb.w 0 65295 0', 'gb.w 0 65286 %d' % (a & 0x7f), 'gb.w 0 65285 187',
                                   'gb.w 0 65287 4', 'gb.frames 0 1', 'gb.r 0 65295', 'gb.r 0 65285', 'gb.cyc 0 2', 'gb.r 0 65295', 'gb.r 0 65285',
                                   'gb.frames 0 1', 'gb.r 0 65295', 'gb.obs 0']))
    INFO.clear()
    INFO.update(exhaustive=False,
                input_distribution=dict(directed_window_cases=n_directed, enumerated_len_le3_cases=n_enum,
                                        start_states=len(starts), random_schedules=n_sched, random_steps=steps,
                                        alphabet=['%s %d' % o for o in ALPHA]),
                samples=[dict(case=cases[5][0], script=cases[5][1]),
                         dict(case=cases[n_directed + 700][0], script=cases[n_directed + 700][1])])
    INFO['_tier'] = tier
    INFO['_seed'] = rng.randrange(1 << 30)
    return cases, INFO


def parse_obs(lines):
    """[(irq or None, div, tima, tma, tac)] from output lines (tick lines have five fields, read lines four)"""
    out = []
    for l in lines or []:
        f = l.split()
        try:
            if len(f) == 5:
                out.append(tuple(int(x) for x in f))
            elif len(f) == 4:
                out.append((None,) + tuple(int(x) for x in f))
        except ValueError:
            pass
    return out


def nontrivial(cid, lines, impl):
    obs = parse_obs(impl)
    seen_change = any(o[0] == 1 for o in obs) or any(a[2] != b[2] for a, b in zip(obs, obs[1:]))
    if not seen_change:
        return None
    # distinct = distinct operation sequence
    return hash(tuple(l for l in lines if l != 'tm.r'))


# ---------------------------------------------------------------------------------------------------------
# known findings: a signature names one of the input classes tagged by the evaluator
def matches_known(k, case, impl, model):
    sig = k.get('signature') or {}
    cls = sig.get('class')
    if not cls:
        return False
    exp, tags = spec_eval(case[1])
    if exp is None:
        return False
    # the finding only explains a case whose schedule is in its class and whose model output (faithful to the
    # defect) still equals the implementation; anything else is a new violation
    return cls in tags and impl == model


def judge(case, impl, model):
    exp, tags = spec_eval(case[1])
    if exp is None:
        return 'implementation and model digests differ on a sweep (see the located explicit script)'
    di = first_diff(impl, exp)
    dm = first_diff(model, exp)
    parts = []
    if di:
        parts.append('implementation differs from the cycle-level statement at observation %d: got "%s", '
                     'statement gives "%s"' % (di[0], di[1], di[2]))
    else:
        parts.append('implementation output equals the independent evaluator of the statement')
    if dm:
        parts.append('MODEL differs from the evaluator at observation %d ("%s" vs "%s") - model or evaluator is '
                     'stale' % (dm[0], dm[1], dm[2]))
    else:
        parts.append('model (proved equal to TimerSpec by C12_refines) agrees with the evaluator')
    if tags:
        parts.append('schedule is in the class of earlier defects: ' + ', '.join(sorted(tags)))
    if impl is not None and model is not None and cycle_ends(impl) == cycle_ends(model):
        parts.insert(0, 'INTRA-CYCLE ONLY: every cycle-end observation agrees; the difference is in a register read '
                        'issued after a write within the same machine cycle, which the bus cannot do and the '
                        'statement leaves open - the model (method-call granularity) no longer describes the code')
    return '; '.join(parts)


# ---------------------------------------------------------------------------------------------------------
def locate(prefix, depth, alpha):
    """descend from a sweep whose digests differ to an explicit script"""
    lines = list(prefix)
    codes = ' '.join(str(code(o)) for o in alpha)
    while depth > 0:
        case = ('locate', lines + ['tm.sweep %d %s' % (depth, codes)])
        d, i, m = verifkit.differs(case, tag='C12_locate')
        if not d:
            return None
        i, m = i or [], m or []
        nexp = len(i) - len(alpha)
        if i[:nexp] != m[:nexp] or len(i) != len(m):
            return lines
        j = next(k for k in range(len(alpha)) if i[nexp + k] != m[nexp + k])
        lines += op_lines(alpha[j])
        depth -= 1
    return lines


def extra(check, ci, cm, cases):
    viol = []
    tier = INFO.pop('_tier', 'quick')
    seed = INFO.pop('_seed', 1)
    known = [k for k in verifkit.load_known(ID) if k.get('status') == 'known']
    # (a) implementation judged directly by the independent evaluator of the statement
    bad = 0
    tag_hits = {}
    for cid, lines in cases:
        exp, tags = spec_eval(lines)
        if exp is None:
            continue
        for t in tags:
            tag_hits[t] = tag_hits.get(t, 0) + 1
        got = ci.get(cid)
        if got == exp:
            continue
        if any((k.get('signature') or {}).get('class') in tags for k in known) and got == cm.get(cid):
            INFO.setdefault('known_finding_cases', 0)
            INFO['known_finding_cases'] += 1
            kk = next(k for k in known if (k.get('signature') or {}).get('class') in tags)
            if kk['id'] not in INFO.setdefault('_printed', []):
                INFO['_printed'].append(kk['id'])
                print('KNOWN-FINDING: property=%s %s' % (ID, kk['text']))
            continue
        bad += 1
        if bad <= 3 and got == cm.get(cid):
            # model agrees with the implementation, the statement does not: shrink against the evaluator
            small = shrink_vs_spec((cid, lines))
            d = first_diff(run_impl(small), spec_eval(small[1])[0])
            viol.append(dict(case=cid, script=small[1], impl=run_impl(small), model=spec_eval(small[1])[0],
                             verdict='implementation (and its model) differ from the independent evaluator of the '
                                     'statement at observation %s; classes met: %s'
                                     % (d, sorted(spec_eval(small[1])[1]))))
    INFO.pop('_printed', None)
    INFO['cases_judged_by_statement_evaluator'] = sum(1 for c in cases if spec_eval(c[1][:1])[0] is not None)
    INFO['statement_evaluator_mismatches'] = bad
    INFO['earlier_defect_classes_exercised'] = tag_hits
    # (b) depth-first sweeps of all sequences, compared by digest
    starts = start_states()
    if tier == 'thorough':
        plan = [(st, 6, ALPHA) for st in starts] + [(st, 7, ALPHA) for st in starts[::3]] + \
               [(st, 5, ALPHA_BIG) for st in starts[::3]]
    else:
        plan = [(st, 5, ALPHA) for st in starts] + [(st, 6, ALPHA) for st in starts[1::3]]
    sweeps = []
    for n, (st, depth, alpha) in enumerate(plan):
        codes = ' '.join(str(code(o)) for o in alpha)
        sweeps.append(('sw%d' % n, start_lines(*st) + ['tm.sweep %d %s' % (depth, codes)]))
    # (c) long pseudo-random schedules run in-process (digest every 256 operations)
    n_rand = 20 if tier == 'quick' else 200
    n_ops = 50000 if tier == 'quick' else 500000
    rands = [('rn%d' % k, ['tm.setc %d' % ((seed * 4 + k * 4444) & 0xFFFC), 'tm.rand %d %d' % (seed + k, n_ops)])
             for k in range(n_rand)]
    si, sm, errs = verifkit.run_both(sweeps + rands, 'C12_sweep')
    seqs = nt = 0
    for (cid, lines), (st, depth, alpha) in zip(sweeps, plan):
        seqs += len(alpha) ** depth
        for l in (si.get(cid) or [])[1:]:
            f = l.split()
            if len(f) == 3:
                nt += int(f[2])
        if (si.get(cid) != sm.get(cid) or not si.get(cid)) and len(viol) < 2:
            script = locate(lines[:-1], depth, alpha)
            if script is None:
                script = lines
            small = verifkit.shrink((cid, script))
            d, i_out, m_out = verifkit.differs(small)
            if len(viol) < 10:
                viol.append(dict(case=cid, script=small[1], impl=i_out, model=m_out,
                                 verdict='sweep %s depth %d: %s' % (cid, depth, judge(small, i_out, m_out))))
    irqs = 0
    for cid, lines in rands:
        a, b = si.get(cid) or [], sm.get(cid) or []
        if a and len(a[-1].split()) == 3:
            irqs += int(a[-1].split()[2])
        if (a != b or not a) and len(viol) < 3:
            d = first_diff(a, b)
            upto = (d[0] + 1) * 256 if d else n_ops
            script = [lines[0]] + rand_script(int(lines[1].split()[1]), min(upto, n_ops))
            small = verifkit.shrink(('%s_explicit' % cid, script), budget=600)
            dd, i_out, m_out = verifkit.differs(small)
            if len(viol) < 10:
                viol.append(dict(case=cid, script=small[1] if dd else lines, impl=i_out if dd else a[:d[0] + 1],
                                 model=m_out if dd else b[:d[0] + 1],
                                 verdict='pseudo-random schedule %s: %s' % (lines[1], judge(small, i_out, m_out))))
    INFO['input_distribution'].update(sweep_runs=len(plan), sweep_sequences=seqs, sweep_nontrivial_sequences=nt,
                                      inprocess_random_schedules=n_rand, inprocess_random_steps=n_rand * n_ops,
                                      inprocess_random_interrupts=irqs)
    if errs:
        viol.append(dict(case='runner', script=[], impl=None, model=None, verdict='runner error: ' + errs[0]))
    return viol


def rand_script(seed, n):
    """the operations tm.rand SEED N performs, as explicit lines (same generator as both runners)"""
    x = seed
    out = []
    for _ in range(n):
        x = (x * 1103515245 + 12345) & 0x7FFFFFFF
        kind, v = (x >> 8) & 15, (x >> 16) & 255
        if kind == 10:
            out += op_lines(('wdiv', v)) if v < 64 else ['tm.tick']
        elif kind == 11:
            out += op_lines(('wtima', v | 0xF8))
        elif kind == 12:
            out += op_lines(('wtma', v))
        elif kind == 13:
            out += op_lines(('wtac', 5))
        elif kind == 14:
            out += op_lines(('wtac', v))
        elif kind == 15:
            out += op_lines(('wtima', v))
        else:
            out.append('tm.tick')
    return out


def run_impl(case):
    os.makedirs(verifkit.BUILD + '/scripts', exist_ok=True)
    path = verifkit.BUILD + '/scripts/C12_spec.txt'
    verifkit.write_script(path, [case])
    rc, out, err = verifkit.run_runner(verifkit.BUILD + '/impl_runner', path)
    c, _ = verifkit.split_cases(out)
    return c.get(case[0])


def shrink_vs_spec(case):
    cid, lines = case
    lines = list(lines)
    i = 0
    n = 0
    while i < len(lines) and n < 300:
        cand = lines[:i] + lines[i + 1:]
        n += 1
        exp = spec_eval(cand)[0]
        if cand and exp is not None and run_impl((cid, cand)) != exp:
            lines = cand
        else:
            i += 1
    return (cid, lines)
