"""C07 — a write changes only the state documented for its address."""
import verifkit
from props import maplib

ID = 'C07'
PROP_FILE = 'Properties/C07.v'
EXTRA_COQ = ['model/MapperExec.v', 'spec/AddrSpec.v', 'proofs/MapperDecode.v']
RULE = ('the property\'s own method: from randomised machine states (cartridge type, RAM enabled / banks selected, '
        'LCD on or off, sound channels triggered, timer near its reload, DMA possibly running, buttons) one byte is '
        'written to an address and the full 64 KiB is read through Mapper.Read before and after (map.wd prints the '
        'set of changed addresses as ranges, their pages and a digest of the new values); likewise for single '
        'reads (map.rd).  (a) implementation vs extracted model on a stratified subset (every I/O register, wave '
        'RAM, region edges and samples of every region); (b) the implementation\'s difference set of EVERY write '
        '(quick: 4,096 stratified addresses; thorough: all 65,536) must lie inside AddrSpec.fp_ranges, evaluated '
        'in Python and cross-checked against the extracted Coq table (map.fp) on this run.  non-trivial: a write '
        'that changed at least one readable byte; distinct = distinct (state, address, value)')
LEVEL_NOTE = ('C07_frame holds for every state, 16-bit address pair and value (no reachability hypothesis needed); '
              'C07_read_inert for every state and address pair.')
ASSUMPTIONS = ['addresses are 16-bit and written values bytes (Mapper.Write takes uint16, uint8)']
ALLOWED_AXIOMS = []
KEEP_PREFIX = 1
MAX_REPORT = 5

CONFIGS = [('rom', 'sys.new 0 0 0', 0), ('mbc1', 'sys.new 3 2 3', 1), ('mbc2', 'sys.new 6 1 0', 2),
           ('mbc3', 'sys.new 19 2 3', 3), ('mbc5', 'sys.new 27 3 3', 5), ('cpurom', 'sys.cpurom', 0)]
IO_REGS = sorted(a for a in maplib.REG.values())
EDGES = [0x0000, 0x1FFF, 0x2000, 0x3FFF, 0x4000, 0x5FFF, 0x6000, 0x7FFF, 0x8000, 0x9FFF, 0xA000, 0xA1FF, 0xA200,
         0xBFFF, 0xC000, 0xDDFF, 0xDE00, 0xDFFF, 0xE000, 0xFDFF, 0xFE00, 0xFE9F, 0xFEA0, 0xFEFF, 0xFF7F, 0xFF80,
         0xFFFE, 0xFFFF]


def randomise(rng, kind):
    """script lines that bring a fresh machine into a random state"""
    l = []
    if rng.random() < 0.6:
        l.append('sys.w 0x0000 0x0A')                    # cartridge RAM on
    for _ in range(rng.randrange(0, 4)):
        l.append('sys.w %d %d' % (rng.choice([0x2000, 0x2100, 0x3000, 0x4000, 0x6000, 0x0100]), rng.randrange(256)))
    if kind == 3 and rng.random() < 0.4:
        l.append('sys.w 0x4000 %d' % rng.randrange(8, 13))   # clock register selected
        l += ['sys.w 0x6000 0', 'sys.w 0x6000 1']
    if rng.random() < 0.5:
        l.append('sys.w 0xFF40 %d' % rng.randrange(0x80))   # LCD off
    # sound: power, envelopes (DAC), triggers
    if rng.random() < 0.85:
        l.append('sys.w 0xFF26 0x80')
        for a in (0xFF12, 0xFF17, 0xFF21):
            l.append('sys.w %d %d' % (a, rng.choice([0xF3, 0x08, 0x00, rng.randrange(256)])))
        l.append('sys.w 0xFF1A %d' % rng.choice([0x80, 0x80, 0x00]))
        for a in (0xFF10, 0xFF11, 0xFF13, 0xFF16, 0xFF18, 0xFF1B, 0xFF1C, 0xFF1D, 0xFF20, 0xFF22, 0xFF24, 0xFF25):
            if rng.random() < 0.6:
                l.append('sys.w %d %d' % (a, rng.randrange(256)))
        for a in (0xFF14, 0xFF19, 0xFF1E, 0xFF23):
            if rng.random() < 0.7:
                l.append('sys.w %d %d' % (a, rng.choice([0x80, 0xC0, 0x87, rng.randrange(256)])))
    else:
        l.append('sys.w 0xFF26 0x00')
    # timer: sometimes right at the reload
    if rng.random() < 0.5:
        l += ['sys.w 0xFF06 %d' % rng.randrange(256), 'sys.w 0xFF07 5', 'sys.w 0xFF05 0xFF', 'sys.w 0xFF04 0',
              'sys.hw %d' % rng.randrange(1, 8)]
    for _ in range(rng.randrange(0, 10)):
        q = rng.random()
        if q < 0.5:
            a = rng.choice([rng.randrange(0x8000, 0x10000), rng.randrange(0xFF00, 0xFF4C), rng.randrange(0xFE00, 0xFF00)])
            if a == 0xFF46:
                a = 0xFF47
            l.append('sys.w %d %d' % (a, rng.randrange(256)))
        elif q < 0.8:
            l.append('sys.hw %d' % rng.choice([1, 2, 7, 114, rng.randrange(1, 3000)]))
        else:
            l.append('sys.btn %d %d' % (rng.randrange(8), rng.randrange(2)))
    if rng.random() < 0.15:
        l += ['sys.w 0xFF46 %d' % rng.choice([0xC0, 0x80, 0xDF, rng.randrange(0xF2)]), 'sys.hw %d' % rng.randrange(0, 200)]
    return l


def pick_value(rng, a):
    if a in (0xFF14, 0xFF19, 0xFF1E, 0xFF23):
        return rng.choice([0x80, 0xC0, 0x40, 0x00, rng.randrange(256)])
    if a == 0xFF26:
        return rng.choice([0x00, 0x80, rng.randrange(256)])
    if a == 0xFF40:
        return rng.choice([0x00, 0x91, 0x80, rng.randrange(256)])
    if a < 0x2000:
        return rng.choice([0x0A, 0x00, rng.randrange(256)])
    return rng.choice([0x00, 0xFF, rng.randrange(256), rng.randrange(256)])


def region_samples(rng, per):
    """addresses stratified over the regions: `per` from each block"""
    blocks = [(0x0000, 0x1FFF), (0x2000, 0x3FFF), (0x4000, 0x5FFF), (0x6000, 0x7FFF), (0x8000, 0x9FFF),
              (0xA000, 0xBFFF), (0xC000, 0xDDFF), (0xDE00, 0xDFFF), (0xE000, 0xFDFF), (0xFE00, 0xFE9F),
              (0xFEA0, 0xFEFF), (0xFF80, 0xFFFE)]
    out = []
    for lo, hi in blocks:
        out += [rng.randrange(lo, hi + 1) for _ in range(per)]
    return out


def corr_addrs(rng, tier):
    n = 4 if tier == 'quick' else 24
    a = []
    for _ in range(n):
        a += IO_REGS + list(range(0xFF30, 0xFF40)) + [0xFF03, 0xFF4C, 0xFF7F, 0xFF27]
    a += EDGES
    a += region_samples(rng, 18 if tier == 'quick' else 200)
    rng.shuffle(a)
    return a


def impl_addrs(rng, tier):
    if tier != 'quick':
        a = list(range(65536))
        rng.shuffle(a)
        return a
    a = list(range(0xFE00, 0x10000)) * 2            # every address of the two top pages, twice
    a += EDGES * 2
    a += region_samples(rng, 250)                   # 12 blocks x 250
    rng.shuffle(a)
    return a[:4096] if len(a) >= 4096 else a + [rng.randrange(65536) for _ in range(4096 - len(a))]


def make_cases(rng, addrs, prefix, chunk):
    cases = []
    i = 0
    k = 0
    while i < len(addrs):
        name, ctor, kind = CONFIGS[k % len(CONFIGS)] if rng.random() < 0.7 else rng.choice(CONFIGS)
        lines = [ctor] + randomise(rng, kind) + ['map.snap']
        for a in addrs[i:i + chunk]:
            lines.append('map.wd %d %d' % (a, pick_value(rng, a)))
            q = rng.random()
            if q < 0.08:
                lines.append('map.rd %d' % rng.choice([a, rng.randrange(65536), rng.randrange(0xFE00, 0x10000)]))
            elif q < 0.12:
                lines += ['sys.hw %d' % rng.randrange(1, 300), 'map.snap']
        cases.append(('%s%d_%s' % (prefix, k, name), lines))
        i += chunk
        k += 1
    return cases


def directed_cases(rng, tier):
    """writes whose effect depends on the machine state: LYC equal to the line being drawn with the LY=LYC source
    selected, NRx4 length-enable writes that expire the channel (extra length clock) while the others play"""
    cases = []
    ctor = CONFIGS[0][1]
    name = CONFIGS[0][0]
    n = 0
    for rep in range(2 if tier == 'quick' else 12):
        k = rng.choice([rng.randrange(0, 144 * 114), rng.randrange(0, 17556)])
        g = (k // 114) % 154
        lines = [ctor, 'sys.w 0xFF41 %d' % rng.choice([0x40, 0x48, 0x78]), 'sys.hw %d' % k]
        for v in (g - 1, g, g + 1, g):
            lines += ['sys.w 0xFF0F 0', 'map.snap', 'map.wd 0xFF45 %d' % (v % 256)]
        for a in (0xFF41, 0xFF42, 0xFF43, 0xFF4A, 0xFF4B, 0xFF47):
            lines += ['sys.w 0xFF0F 0', 'map.snap', 'map.wd %d %d' % (a, rng.choice([0x08, 0x40, 0x78, rng.randrange(256)]))]
        cases.append(('d%d_%s' % (n, name), lines))
        n += 1
    for rep in range(3 if tier == 'quick' else 20):
        lines = [ctor]
        for stat in (0x20, 0x08, 0x40, 0x10, 0x78):
            lines += ['sys.w 0xFF45 0', 'sys.hw %d' % rng.randrange(1, 3000), 'sys.w 0xFF40 %d' % rng.choice([0x11, 0x00]), 'sys.w 0xFF41 %d' % stat,
                      'sys.w 0xFF0F 0', 'map.snap', 'map.wd 0xFF40 %d' % rng.choice([0x91, 0x80, 0xE3]), 'sys.hw %d' % rng.randrange(1, 3000),
                      'sys.w 0xFF0F 0', 'map.snap', 'map.wd 0xFF40 %d' % rng.choice([0x11, 0x00, 0x63])]
        cases.append(('d%d_%s' % (n, name), lines))
        n += 1
    # what a write leaves behind in state that is read only later: sound power cycle with lengths loaded, then triggers
    for rep in range(2 if tier == 'quick' else 12):
        lines = [ctor, 'sys.w 0xFF26 0x80', 'sys.w 0xFF24 0x77', 'sys.w 0xFF25 0xFF']
        t = [rng.randrange(1, 64), rng.randrange(1, 64), rng.randrange(1, 256), rng.randrange(1, 64)]
        for a, v in zip((0xFF11, 0xFF16, 0xFF1B, 0xFF20), t):
            lines.append('sys.w %d %d' % (a, v))
        lines += ['sys.hw %d' % rng.randrange(1, 9000), 'map.snap', 'map.wd 0xFF26 0x00', 'sys.hw %d' % rng.randrange(1, 9000), 'map.snap', 'map.wd 0xFF26 0x80']
        for a in (0xFF12, 0xFF17, 0xFF21):
            lines.append('sys.w %d 0xF0' % a)
        lines += ['sys.w 0xFF1A 0x80', 'sys.w 0xFF14 0xC0', 'sys.w 0xFF19 0xC0', 'sys.w 0xFF1E 0xC0', 'sys.w 0xFF23 0xC0']
        for _ in range(40):
            lines += ['sys.hw 8192', 'sys.r 0xFF26']
        cases.append(('d%d_%s' % (n, name), lines))
        n += 1
    # timer registers written in each of the cycles around a TIMA overflow (overflow cycle, reload cycle, after)
    for k in range(0, 10):
        lines = [ctor]
        for a, v in [(0xFF06, 0x99), (0xFF05, 0x57), (0xFF07, 0x00), (0xFF07, 0x06), (0xFF04, 0x00), (0xFF06, 0x00)]:
            lines += ['sys.w 0xFF07 0', 'sys.w 0xFF06 0x23', 'sys.w 0xFF05 0xFF', 'sys.w 0xFF04 0', 'sys.w 0xFF07 5', 'sys.hw %d' % k,
                      'map.snap', 'map.wd %d %d' % (a, v), 'sys.hw 1', 'map.snap', 'map.wd %d %d' % (a, (v + 1) & 255)]
        cases.append(('d%d_%s' % (n, name), lines))
        n += 1
    regs = {1: (0xFF11, 0xFF12, 0xFF14), 2: (0xFF16, 0xFF17, 0xFF19), 3: (0xFF1B, 0xFF1A, 0xFF1E), 4: (0xFF20, 0xFF21, 0xFF23)}
    for ch in (1, 2, 3, 4):
        for phase in range(8):          # every frame-sequencer step: the extra length clock exists in every second one
            lines = [ctor, 'sys.w 0xFF26 0x80', 'sys.w 0xFF24 0x77', 'sys.w 0xFF25 0xFF']
            for c, (nl, nv, nt) in regs.items():
                lines.append('sys.w %d %d' % (nv, 0x80 if c == 3 else 0xF3))
                lines.append('sys.w %d %d' % (nl, 0xFF if (c == 3 and c == ch) else (0x3F if c == ch else 0x00)))
                lines.append('sys.w %d 0x80' % nt)
            lines += ['sys.hw %d' % (2048 * phase + rng.randrange(0, 2048)), 'map.snap', 'map.wd %d 0x40' % regs[ch][2]]
            lines += ['map.wd %d %d' % (regs[c][2], rng.choice([0x40, 0xC0, 0x00])) for c in (1, 2, 3, 4)]
            cases.append(('d%d_%s' % (n, name), lines))
            n += 1
    return cases


def directed_impl_cases(rng, tier):
    """implementation against the footprint table only (cheap): every sound register and wave RAM byte written while all
    four channels play; TAC/TMA/TIMA/DIV written at random divider phases with the timer running"""
    cases = []
    ctor, name = CONFIGS[0][1], CONFIGS[0][0]
    def setup_lines():
        # all four channels playing; channel 1 with its sweep unit idle or active and a low or high frequency
        return ['sys.w 0xFF26 0x80', 'sys.w 0xFF24 0x77', 'sys.w 0xFF25 0xFF', 'sys.w 0xFF10 %d' % rng.choice([0x00, 0x11, 0x12, 0x23, 0x7f, 0x19]),
                'sys.w 0xFF12 0xF3', 'sys.w 0xFF17 0xF3', 'sys.w 0xFF1A 0x80', 'sys.w 0xFF1C 0x20', 'sys.w 0xFF21 0xF3',
                'sys.w 0xFF13 %d' % rng.randrange(256), 'sys.w 0xFF14 %d' % (0x80 | rng.choice([0, 3, 5, 7])), 'sys.w 0xFF19 0x80',
                'sys.w 0xFF1E 0x80', 'sys.w 0xFF23 0x80']
    n = 0
    addrs = list(range(0xFF10, 0xFF40))
    vals = [0x00, 0xFF] if tier == 'quick' else [0x00, 0xFF, 0x1F, 0x80, 0x40]
    for a in addrs:
        lines = [ctor]
        for v in vals + [rng.randrange(256)]:
            lines += ['sys.w 0xFF26 0x00'] + setup_lines() + ['sys.hw %d' % rng.randrange(1, 5000), 'map.snap', 'map.wd %d %d' % (a, v)]
        cases.append(('p%d_%s' % (n, name), lines))
        n += 1
    # channel 1 with an active sweep unit whose next calculation fits: low-byte frequency writes must not touch NR52
    for sh in (1, 2, 3):
        f0 = [f for f in range(0x100, 0x800, 0x100) if f + (f >> sh) <= 2047 and (f | 0xff) + ((f | 0xff) >> sh) > 2047][-1]
        lines = [ctor]
        for v in (0xff, 0x80, rng.randrange(256)):
            lines += ['sys.w 0xFF26 0x00', 'sys.w 0xFF26 0x80', 'sys.w 0xFF25 0xFF', 'sys.w 0xFF24 0x77', 'sys.w 0xFF10 %d' % (0x10 | sh),
                      'sys.w 0xFF12 0xF3', 'sys.w 0xFF13 0', 'sys.w 0xFF14 %d' % (0x80 | (f0 >> 8)), 'sys.hw %d' % rng.randrange(1, 2000),
                      'map.snap', 'map.wd 0xFF13 %d' % v]
        cases.append(('w%d_%s' % (n, name), lines))
        n += 1
    for rep in range(12 if tier == 'quick' else 120):
        lines = [ctor, 'sys.w 0xFF06 %d' % rng.randrange(256), 'sys.w 0xFF05 %d' % rng.choice([0xFF, 0xFE, rng.randrange(256)])]
        for _ in range(8):
            lines += ['sys.w 0xFF07 %d' % rng.choice([4, 5, 6, 7]), 'sys.hw %d' % rng.randrange(1, 600), 'map.snap',
                      'map.wd %d %d' % (rng.choice([0xFF07, 0xFF07, 0xFF06, 0xFF04]), rng.choice([0, 1, 2, 3, 4, 5, 6, 7]))]
        cases.append(('t%d_%s' % (n, name), lines))
        n += 1
    return cases


IMPL_ONLY = {}


def generate(rng, tier):
    ca = corr_addrs(rng, tier)
    cases = make_cases(rng, ca, 'c', 56) + directed_cases(rng, tier)
    ia = impl_addrs(rng, tier)
    impl_cases = make_cases(rng, ia, 'i', 256)
    impl_cases = impl_cases + directed_impl_cases(rng, tier)
    IMPL_ONLY['cases'] = impl_cases
    IMPL_ONLY['tier'] = tier
    info = dict(exhaustive=(tier != 'quick'),
                input_distribution=dict(correspondence_writes=len(ca), correspondence_cases=len(cases),
                                        footprint_writes_impl=len(ia), footprint_cases_impl=len(impl_cases),
                                        reads_64k_per_write=2, configs=[c[0] for c in CONFIGS]),
                samples=[dict(case=cases[0][0], script=cases[0][1][:45] + ['...'])])
    return cases, info


def nontrivial(cid, lines, impl):
    if not impl:
        return None
    return cid if any(l.startswith('wd ') and ' n=0 ' not in l for l in impl) else None


def matches_known(k, case, impl, model):
    return False


def parse_ranges(txt, width):
    out = []
    if not txt:
        return out
    for tok in txt.split(','):
        if '-' in tok:
            lo, hi = tok.split('-')
            out.append((int(lo, 16), int(hi, 16)))
        else:
            out.append((int(tok, 16), int(tok, 16)))
    return out


def judge_line(kind, line):
    """a wd / rd line against the documented effect set; returns a text or None"""
    f = line.split()
    if f[0] not in ('wd', 'rd'):
        return None
    a = int(f[1], 16)
    kv = dict(x.split('=', 1) for x in f[3:])
    n = int(kv['n'])
    if f[0] == 'rd':
        if n != 0:
            return 'a read of %04X changed readable bytes at %s' % (a, kv['r'] or kv['p'])
        return None
    fp = maplib.fp_ranges(kind, a)
    if kv['r'] != 'many':
        for lo, hi in parse_ranges(kv['r'], 4):
            for b in (lo, hi):
                if not maplib.in_ranges(fp, b):
                    return ('a write of %s to %04X changed the byte read at %04X, outside the documented effect set %s'
                            % (f[2], a, b, ','.join('%04X-%04X' % r for r in fp[:4]) + ('...' if len(fp) > 4 else '')))
            if not all(maplib.in_ranges(fp, b) for b in range(lo, hi + 1)):
                b = [b for b in range(lo, hi + 1) if not maplib.in_ranges(fp, b)][0]
                return 'a write of %s to %04X changed the byte read at %04X, outside the documented effect set' % (f[2], a, b)
        return None
    for lo, hi in parse_ranges(kv['p'], 2):
        for pg in range(lo, hi + 1):
            if not all(maplib.in_ranges(fp, pg * 256 + o) for o in (0, 255)):
                return ('a write of %s to %04X changed bytes in page %02X (and more than 64 separate ranges), outside '
                        'the documented effect set' % (f[2], a, pg))
    return None


def kind_of(lines):
    f = lines[0].split()
    if f[0] == 'sys.new':
        return maplib.KIND_OF_TYPE.get(int(f[1], 0), 0)
    return 0


def first_deviation(lines, impl):
    kind = kind_of(lines)
    obs = [l for l in lines if l.split()[0] in ('map.wd', 'map.rd', 'sys.r', 'sys.rr')]
    for l in impl or []:
        if l.startswith('PANIC') or l.startswith('EXIT'):
            return 'the implementation stopped with "%s" in a script that only reads and writes through the Mapper' % l, None
        t = judge_line(kind, l)
        if t:
            return t, l
    return None, None


def judge(case, impl, model):
    t, _ = first_deviation(case[1], impl)
    if t:
        return 'implementation violates the statement (AddrSpec.footprint): ' + t
    return ('the set of bytes changed by a write (or their new values) differs between implementation and model '
            '(the model is proved to change nothing outside AddrSpec.footprint)')


def run_on(binary, tag, cases):
    path = '%s/scripts/C07_%s.txt' % (verifkit.BUILD, tag)
    verifkit.write_script(path, cases)
    rc, o, e = verifkit.run_runner(binary, path)
    c, _ = verifkit.split_cases(o)
    return c


def minimise(lines, culprit):
    """keep the randomising prefix, the snapshot and the one write whose difference set is wrong"""
    f = culprit.split()
    want = 'map.%s %d' % (f[0], int(f[1], 16))
    idx = None
    for i, l in enumerate(lines):
        if l.startswith(want + ' ') or l == want:
            if f[0] == 'rd' or int(l.split()[2], 0) == int(f[2], 16):
                idx = i
                break
    if idx is None:
        return lines
    # state-changing lines before the culprit must stay (they made the state); drop the later ones
    kept = [l for l in lines[:idx] if not l.startswith('map.rd')]
    small = [l if not l.startswith('map.wd') else 'sys.w ' + l.split(None, 1)[1] for l in kept]
    small = [l for l in small if l != 'map.snap'] + ['map.snap', lines[idx]]
    return small


def extra(check, ci, cm, cases):
    out = []
    # (b1) the Python footprint table is the Coq one (extracted AddrSpec.fp_ranges, model runner only)
    probe = sorted(set(list(range(0xFE00, 0x10000)) + EDGES + [0x0123, 0x4567, 0x8123, 0xA123, 0xB3FF, 0xC123, 0xDE10,
                                                                 0xE123, 0xFD80]))
    fcases = [('fp_' + name, [ctor] + ['map.fp %d' % a for a in probe]) for name, ctor, kind in CONFIGS]
    got = run_on(verifkit.BUILD + '/model_runner', 'fp', fcases)
    for (name, ctor, kind), (cid, lines) in zip(CONFIGS, fcases):
        o = got.get(cid) or []
        for a, l in zip(probe, o):
            want = 'fp %04x %s' % (a, ','.join('%04x-%04x' % r for r in maplib.fp_ranges(kind, a)))
            if l != want:
                out.append(dict(case=cid, script=[ctor, 'map.fp %d' % a], impl=[want], model=[l],
                                verdict='the footprint table of props/maplib.py differs from AddrSpec.fp_ranges'))
                break
        if len(o) != len(probe) and not out:
            out.append(dict(case=cid, script=lines[:3], impl=[], model=o[:3],
                            verdict='map.fp did not answer for every probe (model runner)'))
    # (b2) every difference set of the implementation lies inside the documented effect set
    allc = list(cases) + IMPL_ONLY.get('cases', [])
    impl_only = run_on(verifkit.BUILD + '/impl_runner', 'impl', IMPL_ONLY.get('cases', []))
    nw = 0
    for cid, lines in allc:
        impl = ci.get(cid) if cid in ci else impl_only.get(cid)
        if impl is None:
            continue
        nw += sum(1 for l in impl if l.startswith('wd '))
        t, culprit = first_deviation(lines, impl)
        if t and len(out) < 5:
            small = minimise(lines, culprit) if culprit else lines
            si = run_on(verifkit.BUILD + '/impl_runner', 'min', [(cid, small)]).get(cid) or []
            t2, c2 = first_deviation(small, si)
            if not t2:
                small, si = lines, impl
            sm = run_on(verifkit.BUILD + '/model_runner', 'minm', [(cid, small)]).get(cid) or []
            out.append(dict(case=cid, script=small, impl=si[-3:], model=sm[-3:],
                            verdict='implementation violates the statement (AddrSpec.footprint): ' + (t2 or t)))
    IMPL_ONLY['writes_judged'] = nw
    print('C07: %d writes of the implementation judged against the footprint table' % nw)
    return out
