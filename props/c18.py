"""C18 — sound registers read back through their masks and obey APU power."""
from props.apu_common import *

ID = 'C18'
PROP_FILE = 'Properties/C18.v'
RULE = ('random histories over FF10-FF3F: register writes of arbitrary bytes (biased to trigger/DAC/power bits), '
        'NR52 power toggles, wave RAM writes, unused addresses, machine cycles (1..10000 per step), with a full '
        'read-back of FF10-FF3F through Mapper.Read after every operation; plus the exhaustive single-write table '
        '(every register x every byte, powered on and off); for each of NR11/NR21/NR31/NR41 a length written while powered '
        'off and observed through NR52 after power-on and a trigger with length enable.  A case is non-trivial when its read-backs are not all '
        'identical; distinct = distinct cases')
LEVEL_NOTE = ('Theorems C18_* quantify over every history of bus writes (bytes) and machine cycles; the Go code is tied '
              'to the model by the differential correspondence of this run, and the read-backs of the implementation '
              'are additionally judged directly against the last-write-or-mask specification (props/c18.py extra).')
ASSUMPTIONS = ['bus writes carry a byte (Mapper.Write passes a uint8)',
               'wave RAM read-back is specified only while channel 3 is off (statement); while it is on the model follows the code']
ALLOWED_AXIOMS = []
KEEP_PREFIX = 0


def history(rng, nops, long_cycles):
    lines = ['apu.rall']
    for _ in range(nops):
        r = rng.random()
        if r < 0.50:
            lines.append(w(rng.choice(REGS), rand_value(rng)))
        elif r < 0.60:
            lines.append(w(NR52, rng.choice([0x00, 0x80, 0x80, 0xFF, 0x7F, rng.randrange(256)])))
        elif r < 0.70:
            lines.append(w(rng.choice(WAVE), rng.randrange(256)))
        elif r < 0.74:
            lines.append(w(rng.choice(UNUSED), rng.randrange(256)))
        else:
            n = rng.choice([1, 1, 2, 3, 7, 16, 64, 100, 513, 2048, 2049]) if rng.random() < 0.85 else \
                rng.randrange(1, long_cycles)
            lines.append(cyc(n))
        lines.append('apu.rall')
    return lines


def generate(rng, tier):
    cases = []
    # exhaustive single-write table: every register x every byte, while on and while off
    for pw in (1, 0):
        for reg in REGS + [NR52]:
            lines = []
            if not pw:
                lines.append(w(NR52, 0x00))
            step = 1 if tier == 'thorough' else 1
            for v in range(0, 256, step):
                lines.append(w(reg, v))
                lines.append('apu.rall')
                if reg == NR52:          # restore the power state for the next value
                    lines.append(w(NR52, 0x80 if pw else 0x00))
            cases.append(('t%d_%04X' % (pw, reg), lines))
    # length registers stay writable while powered off (NRx1 is write-only for the length part: observed through
    # the status bit after power-on and a trigger with length enable, without rewriting NRx1)
    for ch in (1, 2, 3, 4):
        full = 256 if ch == 3 else 64
        for t in ((full - 1, full - 3) if tier == 'quick' else (full - 1, full - 2, full - 3, full - 6)):
            L = full - t
            cases.append(('L%d_%d' % (ch, t),
                          [w(NR52, 0x00), w(LEN_REG[ch], t), w(NR52, 0x80), w(DAC_REG[ch], 0x80 if ch == 3 else 0xF0),
                           w(TRIG_REG[ch], 0xC0), 'apu.rall', cyc(4096 * (L + 1)), 'apu.rall']))
            # the same with a different length written BEFORE power-off: it must be replaced by the one written while off
            cases.append(('M%d_%d' % (ch, t),
                          [w(LEN_REG[ch], 0x00), w(NR52, 0x00), w(LEN_REG[ch], t), cyc(3), w(NR52, 0x80),
                           w(DAC_REG[ch], 0x80 if ch == 3 else 0xF0), w(TRIG_REG[ch], 0xC0), 'apu.rall',
                           cyc(4096 * (L + 1)), 'apu.rall']))
    ntab = len(cases)
    nh = 250 if tier == 'quick' else 3000
    for k in range(nh):
        cases.append(('h%d' % k, history(rng, rng.randrange(10, 70), 10000)))
    info = dict(exhaustive=False,
                input_distribution=dict(single_write_tables=ntab, random_histories=nh,
                                        ops_total=sum(len(c[1]) for c in cases)),
                samples=[dict(case=cases[ntab][0], script=cases[ntab][1][:14] + ['...'])])
    return cases, info


def nontrivial(cid, lines, impl):
    if impl and len(set(impl)) > 1:
        return cid
    return None


def matches_known(k, case, impl, model):
    return False


def judge(case, impl, model):
    return ('read-back of FF10-FF3F differs from the model, which C18_readback / C18_nr52 prove equal to '
            'last-written-while-on | mask and 0x70 | power<<7 | status')


# audio.New leaves the registers as after a power cycle except the sweep direction flag, which starts cleared:
# NR10 reads 88 until it is first written or power is cycled (the statement does not fix initial values; the
# abstract machine starts from "last written" = 08 for NR10, 00 elsewhere — ApuSpec.rspec_init)
INIT_LAST = {r: 0 for r in REGS}
INIT_LAST[NR10] = 0x08


# ---- implementation judged directly against the statement (independent of the Coq model) ----
def spec_check(lines, impl):
    """Replays the script over the abstract machine (last, power) of the statement and checks every rall line of
    the implementation: NR10-NR51 = last|mask (masks when off), NR52 bits 4-6 set and bit 7 = power, unused = FF.
    Returns None or a message."""
    last = dict(INIT_LAST)
    power = True
    out = iter(impl or [])
    for l in lines:
        f = l.split()
        if f[0] == 'apu.new':
            last = dict(INIT_LAST)
            power = True
        elif f[0] == 'apu.w':
            a, v = int(f[1], 0), int(f[2], 0)
            if a == NR52:
                if v & 0x80 == 0:
                    power = False
                    last = {r: 0 for r in REGS}
                else:
                    power = True
            elif a in last and power:
                last[a] = v
        elif f[0] == 'apu.cyc':
            next(out, None)
        elif f[0] == 'apu.rall':
            line = next(out, None)
            if line is None or line.startswith('PANIC'):
                return 'no read-back line (%s)' % line
            vals = [int(x) for x in line.split()]
            for r in REGS:
                exp = (last[r] | MASK[r]) if power else MASK[r]
                if vals[r - 0xFF10] != exp:
                    return 'register %04X reads %02X, statement requires %02X' % (r, vals[r - 0xFF10], exp)
            nr52 = vals[NR52 - 0xFF10]
            if (nr52 & 0x70) != 0x70 or bool(nr52 & 0x80) != power or (not power and nr52 != 0x70):
                return 'NR52 reads %02X with power=%s' % (nr52, power)
            for a in UNUSED:
                if vals[a - 0xFF10] != 0xFF:
                    return 'unused %04X reads %02X' % (a, vals[a - 0xFF10])
    return None


def length_check(cid, lines, impl):
    """L/M cases: the counter written while off is the one in force after power-on: the channel triggered with
    length enable right after power-on (sequencer restarted: next step clocks length) stays on 64-t (256-t) length
    clocks, the first one 2048 machine cycles (minus those spent while off) after power-on"""
    ch, t = int(cid[1]), int(cid[3:])
    full = 256 if ch == 3 else 64
    L = full - t
    spent = sum(int(l.split()[1]) for l in lines[:lines.index(w(NR52, 0x80))] if l.startswith('apu.cyc'))
    want = (2048 - spent) + 4096 * (L - 1) - 1
    line = [l for l in impl if l.startswith('c ')][-1]
    on = 0
    for v, k in parse_rle(line.split()[1]):
        if int(v) & (1 << (ch - 1)):
            on += k
        else:
            break
    if on != want:
        return ('channel %d: length data %d written while powered off, then power-on and trigger with length enable: '
                'status bit on for %d machine cycles, documented %d (%d length clocks)' % (ch, t, on, want, L))
    return None


def extra(check, impl_cases, model_cases, cases):
    out = []
    for cid, lines in cases:
        if cid[0] in 'LM' and cid[2] == '_' and impl_cases.get(cid):
            msg = length_check(cid, lines, impl_cases[cid])
            if msg:
                out.append(dict(case=cid, script=lines, impl=impl_cases.get(cid), model=model_cases.get(cid),
                                verdict='implementation violates the statement directly: ' + msg))
        msg = spec_check(lines, impl_cases.get(cid))
        if msg:
            out.append(dict(case=cid, script=lines, impl=impl_cases.get(cid), model=model_cases.get(cid),
                            verdict='implementation violates the statement directly: ' + msg))
            if len(out) >= 3:
                break
    return out
