"""cartgen — script generators for the cartridge subsystem (shared by props/c08.py, c09.py, c10.py and meant to
be reused by the C11 check for its cartridge sweeps).

Script operations (implemented in harness/run/ops_cart.go on the real memory.Mapper and in
coq/extract/r_cart.ml on the extracted model):
  cart.new TYPE ROMCODE RAMCODE      image of 0x8000<<ROMCODE bytes, header bytes 0x147/0x148/0x149 set
  cart.image LEN TYPE ROMCODE RAMCODE  image of LEN bytes (short / odd / inconsistent images)
  cart.w A V | cart.r A | cart.rr LO HI STEP   Mapper.Write / Mapper.Read / inclusive range read on one line
  cart.tick N    N x Mapper.EndMachineCycle (model: closed form rtc_advance) ; cart.tick1 N (model: one by one)
  cart.dump      length and digest of Mapper.DumpRAM()
  rtc.set s m h d carry halt ls lm lh ld lcarry lhalt ticks low | rtc.get | rtc.inc | rtc.tick N
  rtc.incsweep s0 s1 m0 m1 h0 h1 d0 d1 carry   digest of one increment from every listed state

Synthetic image: byte at page p, offset o (o%4: 0 -> p&255, 1 -> p>>8, 2 -> (o>>2)&255, 3 -> (o>>10)+37p+11),
so reading offsets 0 and 1 of a window identifies the page exactly.

Reusable for C11 (cartridge half):
  hostile_images(rng, n)        construction with short / odd-sized / header-inconsistent images, every type code,
                                every ROM-size code and RAM-size code, each followed by reads of every window,
                                writes to every control region, ticks and a dump
  single_write_sweep(kinds, romcodes, fresh)   type x size x every value at one address of every control region,
                                each followed by window reads (ROM and RAM windows)
  random_sequences(rng, n, ...) random multi-step write/read/tick/dump histories per type x ROM size x RAM size
"""

KINDS = {
    'none': [0x00],
    'mbc1': [0x01, 0x02, 0x03],
    'mbc2': [0x05, 0x06],
    'mbc3': [0x0f, 0x10, 0x11, 0x12, 0x13],
    'mbc5': [0x19, 0x1a, 0x1b, 0x1c, 0x1d, 0x1e],
}
ALL_TYPES = [t for k in KINDS.values() for t in k]
KIND_OF = {t: k for k, ts in KINDS.items() for t in ts}
# one address inside every control region of each controller (plus region edges)
REGIONS = {
    'none': [0x0000, 0x2000, 0x4000, 0x6000],
    'mbc1': [0x0000, 0x2000, 0x4000, 0x6000],
    'mbc2': [0x0000, 0x0100, 0x2100, 0x3eff, 0x4000],
    'mbc3': [0x0000, 0x2000, 0x4000, 0x6000],
    'mbc5': [0x0000, 0x2000, 0x3000, 0x4000, 0x6000],
}
ROMCODES = list(range(9))      # 32 KiB .. 8 MiB
RAMCODES = [0, 1, 2, 3, 4, 5]

ROM_READS = ['cart.rr 0x0000 0x0001 1', 'cart.rr 0x4000 0x4003 1', 'cart.r 0x7fff']
RAM_READS = ['cart.rr 0xa000 0xbfff 0x0fff']


def rom_probe():
    return list(ROM_READS)


def single_write_sweep(kinds=None, romcodes=None, fresh_upto=3, block=32, ramcode=3, with_ram=False, types=None):
    """type x ROM size x region x every byte value; fresh cartridge per value for small ROMs (romcode <=
    fresh_upto), one cartridge per block of values for larger ones (so earlier writes persist)."""
    cases = []
    for kind in (kinds or list(KINDS)):
        for typ in (types or [KINDS[kind][-1]]):
            if KIND_OF.get(typ) != kind:
                continue
            for rc in (romcodes if romcodes is not None else ROMCODES):
                for reg in REGIONS[kind]:
                    for b0 in range(0, 256, block):
                        lines = []
                        fresh = rc <= fresh_upto
                        if not fresh:
                            lines.append('cart.new %d %d %d' % (typ, rc, ramcode))
                        for v in range(b0, b0 + block):
                            if fresh:
                                lines.append('cart.new %d %d %d' % (typ, rc, ramcode))
                            lines.append('cart.w 0x%04x %d' % (reg, v))
                            lines += ROM_READS
                            if with_ram:
                                lines.append('cart.w 0x0000 0x0a')
                                lines += ['cart.r 0xa000', 'cart.r 0xbfff']
                        cases.append(('sw_%s_%02x_r%d_%04x_%02x' % (kind, typ, rc, reg, b0), lines))
    return cases


def mbc1_register_combos(romcodes=None, ramcodes=(0, 3)):
    """every (bank1, bank2, mode) combination of MBC1, for every ROM size."""
    cases = []
    for rc in (romcodes if romcodes is not None else ROMCODES):
        for ramc in ramcodes:
            for mode in (0, 1):
                for b2 in range(4):
                    lines = ['cart.new 3 %d %d' % (rc, ramc), 'cart.w 0x0000 0x0a',
                             'cart.w 0x6000 %d' % mode, 'cart.w 0x4000 %d' % b2]
                    for b1 in range(32):
                        lines.append('cart.w 0x2000 %d' % b1)
                        lines += ROM_READS
                    lines += ['cart.r 0xa000']
                    cases.append(('m1_r%d_s%d_m%d_b%d' % (rc, ramc, mode, b2), lines))
    return cases


def rand_ctrl_write(rng, kind):
    """a random write to the control area 0000-7FFF, biased to region edges and interesting values"""
    edges = [0x0000, 0x00ff, 0x0100, 0x01ff, 0x1fff, 0x2000, 0x20ff, 0x2100, 0x2fff, 0x3000, 0x3fff, 0x4000,
             0x5fff, 0x6000, 0x7fff]
    a = rng.choice(edges) if rng.random() < 0.5 else rng.randrange(0x8000)
    r = rng.random()
    if r < 0.25:
        v = rng.choice([0x00, 0x01, 0x0a, 0x1a, 0xfa, 0x0b, 0x1f, 0x20, 0x3f, 0x40, 0x7f, 0x80, 0xff, 0x08, 0x0c, 0x0d, 0x0f])
    else:
        v = rng.randrange(256)
    return 'cart.w 0x%04x %d' % (a, v)


def random_sequences(rng, n, kinds=None, romcodes=None, ramcodes=None, steps=(10, 60), ram_ops=True, ticks=False,
                     prefix='rs'):
    cases = []
    kinds = kinds or list(KINDS)
    for i in range(n):
        kind = kinds[i % len(kinds)]
        typ = rng.choice(KINDS[kind])
        rc = rng.choice(romcodes if romcodes is not None else ROMCODES)
        ramc = rng.choice(ramcodes if ramcodes is not None else RAMCODES + [6, 0xff])
        lines = ['cart.new %d %d %d' % (typ, rc, ramc)]
        for _ in range(rng.randrange(*steps)):
            r = rng.random()
            if r < 0.45:
                lines.append(rand_ctrl_write(rng, kind))
            elif r < 0.60:
                lines += [rng.choice(ROM_READS)]
            elif r < 0.70:
                lines.append('cart.r 0x%04x' % rng.randrange(0x8000))
            elif ram_ops and r < 0.82:
                lines.append('cart.w 0x%04x %d' % (rng.choice([0xa000, 0xa1ff, 0xa200, 0xbfff, rng.randrange(0xa000, 0xc000)]),
                                                   rng.randrange(256)))
            elif ram_ops and r < 0.94:
                lines.append('cart.r 0x%04x' % rng.choice([0xa000, 0xa1ff, 0xa200, 0xbfff, rng.randrange(0xa000, 0xc000)]))
            elif ticks and r < 0.97:
                lines.append('cart.tick %d' % rng.choice([1, 2, 1000, 70000]))
            else:
                lines.append('cart.dump')
        lines += ROM_READS + ['cart.dump']
        cases.append(('%s%d_%s' % (prefix, i, kind), lines))
    return cases


# ---------------------------------------------------------------- RAM histories (C09)

def ram_histories(rng, n, kinds=('mbc1', 'mbc2', 'mbc3', 'mbc5'), ramcodes=None, steps=(20, 90)):
    """enable / disable / bank-select (incl. out-of-range numbers) / read / write histories with dumps"""
    cases = []
    for i in range(n):
        kind = kinds[i % len(kinds)]
        typ = rng.choice(KINDS[kind])
        ramc = rng.choice(ramcodes if ramcodes is not None else RAMCODES)
        rc = rng.choice([0, 1, 2, 2, 5, 6] if kind == 'mbc1' else [0, 1, 2, 2, 4])   # MBC1: also 64 / 128 ROM banks
        lines = ['cart.new %d %d %d' % (typ, rc, ramc)]
        offs = [0x0000, 0x0001, 0x01ff, 0x0200, 0x0201, 0x1fff, rng.randrange(0x2000), rng.randrange(0x2000)]
        for _ in range(rng.randrange(*steps)):
            r = rng.random()
            if r < 0.15:
                ena = 0x0100 if False else (0x0000 if kind != 'mbc2' else rng.choice([0x0000, 0x00ff, 0x3eff & ~0x100]))
                lines.append('cart.w 0x%04x %d' % (ena, rng.choice([0x0a, 0x0a, 0x0a, 0x1a, 0xfa, 0x00, 0x0b, 0xa0, rng.randrange(256)])))
            elif r < 0.35:
                # bank select: documented register plus out-of-range numbers; MBC1 also mode and bank2
                if kind == 'mbc1':
                    lines.append(rng.choice(['cart.w 0x4000 %d' % rng.randrange(256), 'cart.w 0x6000 %d' % rng.randrange(4),
                                             'cart.w 0x2000 %d' % rng.randrange(256)]))
                elif kind == 'mbc3':
                    lines.append('cart.w 0x4000 %d' % rng.choice([0, 1, 2, 3, 4, 5, 6, 7, rng.randrange(8), rng.randrange(256)]))
                elif kind == 'mbc5':
                    lines.append('cart.w 0x4000 %d' % rng.choice([0, 1, 2, 3, 7, 8, 15, 16, 0xff, rng.randrange(256)]))
                else:
                    lines.append('cart.w 0x0100 %d' % rng.randrange(256))
            elif r < 0.62:
                lines.append('cart.w 0x%04x %d' % (0xa000 + rng.choice(offs), rng.randrange(256)))
            elif r < 0.92:
                lines.append('cart.r 0x%04x' % (0xa000 + rng.choice(offs)))
            elif r < 0.96:
                lines.append('cart.rr 0xa000 0xbfff 0x0333')
            else:
                lines.append('cart.dump')
        lines += ['cart.dump', 'cart.w 0x0000 0x0a', 'cart.rr 0xa000 0xbfff 0x01ff', 'cart.dump']
        cases.append(('rh%d_%s_s%d' % (i, kind, ramc), lines))
    return cases


def ram_bank_walk(kinds=('mbc1', 'mbc3', 'mbc5'), ramcodes=None):
    """every bank number 0..15 (MBC3: 0..7 as RAM banks): write a marker per selected bank, read all back, dump.
    Out-of-range numbers must alias modulo the bank count."""
    cases = []
    for kind in kinds:
        for typ in KINDS[kind]:
            for ramc, romc in [(r, 1) for r in (ramcodes if ramcodes is not None else RAMCODES)] + \
                              ([(3, 5), (3, 6), (2, 6)] if kind == 'mbc1' else [(3, 6)]):
                lines = ['cart.new %d %d %d' % (typ, romc, ramc), 'cart.w 0x0000 0x0a']
                if kind == 'mbc1':
                    lines.append('cart.w 0x6000 1')
                top = 8 if kind == 'mbc3' else 16
                for b in range(top):
                    lines.append('cart.w 0x4000 %d' % b)
                    lines.append('cart.w 0x%04x %d' % (0xa000 + b * 3, 0x40 + b))
                    lines.append('cart.r 0x%04x' % (0xa000 + b * 3))
                lines.append('cart.w 0x0000 0x00')
                lines.append('cart.r 0xa000')
                lines.append('cart.w 0x0000 0x0a')
                for b in range(top):
                    lines.append('cart.w 0x4000 %d' % b)
                    lines.append('cart.rr 0xa000 0xa030 3')
                lines.append('cart.dump')
                cases.append(('bw_%s_%02x_s%d_r%d' % (kind, typ, ramc, romc), lines))
    return cases


def enable_values(kinds=('mbc1', 'mbc2', 'mbc3', 'mbc5')):
    """every byte written to the RAM-enable region: only low nibble A enables"""
    cases = []
    for kind in kinds:
        typ = KINDS[kind][-1]
        lines = ['cart.new %d 1 3' % typ, 'cart.w 0x0000 0x0a', 'cart.w 0xa123 0x5c', 'cart.w 0xa000 0x21']
        for v in range(256):
            lines.append('cart.w 0x0000 %d' % v)
            lines.append('cart.r 0xa123')
            lines.append('cart.w 0xa000 %d' % v)     # must be dropped while disabled
        lines += ['cart.w 0x0000 0x0a', 'cart.r 0xa000', 'cart.dump']
        cases.append(('en_%s' % kind, lines))
    return cases


def mbc2_nibbles():
    cases = []
    for typ in KINDS['mbc2']:
        lines = ['cart.new %d 1 0' % typ, 'cart.w 0x0000 0x0a', 'cart.rr 0xa000 0xbfff 0x0155', 'cart.dump']
        for v in range(256):
            off = (v * 7) % 512
            lines.append('cart.w 0x%04x %d' % (0xa000 + off, v))
            lines.append('cart.r 0x%04x' % (0xa000 + off))
            lines.append('cart.r 0x%04x' % (0xa000 + off + 0x200 * (1 + v % 15)))   # every mirror of the 512 cells
        lines += ['cart.dump', 'cart.w 0x0000 0', 'cart.r 0xa000', 'cart.dump']
        cases.append(('m2nib_%02x' % typ, lines))
    return cases


def romonly_ram(romcodes=(0, 1, 2, 5)):
    cases = []
    for rc in romcodes:
        lines = ['cart.new 0 %d 0' % rc, 'cart.rr 0xa000 0xbfff 0x07ff', 'cart.w 0xa000 5', 'cart.w 0x0000 0x0a',
                 'cart.w 0xa000 6', 'cart.r 0xa000', 'cart.r 0xbfff', 'cart.dump'] + ROM_READS
        cases.append(('ro_ram_r%d' % rc, lines))
    return cases


# ---------------------------------------------------------------- hostile images (C11 cartridge half)

WINDOW_SWEEP = ['cart.rr 0x0000 0x7fff 0x0fff', 'cart.rr 0xa000 0xbfff 0x03ff']


def poke_everything(rng, k=6):
    """reads of every window, writes of assorted values to every control region and to RAM, ticks, dump"""
    lines = list(WINDOW_SWEEP)
    vals = [0x0a, 0x00, 0x01, 0x7f, 0xff, 0x08, 0x0d, 0x0f, 0x1f, 0x20, 0x80] + [rng.randrange(256) for _ in range(k)]
    for a in (0x0000, 0x0100, 0x2000, 0x2100, 0x3000, 0x4000, 0x6000, 0x7fff):
        for v in rng.sample(vals, 5):
            lines.append('cart.w 0x%04x %d' % (a, v))
            lines.append('cart.w 0x0000 0x0a')
            lines.append('cart.w 0xa000 %d' % v)
            lines += ['cart.r 0x0000', 'cart.r 0x4000', 'cart.r 0xa000', 'cart.r 0xbfff']
    lines += ['cart.tick 3', 'cart.dump']
    return lines


def hostile_images(rng, n_random=60):
    cases = []
    k = 0
    lens = [0, 1, 0x100, 0x146, 0x147, 0x148, 0x149, 0x14a, 0x14f, 0x150, 0x151, 0x3fff, 0x4000, 0x4001, 0x7fff,
            0x8000, 0x8001, 0xc000, 0x10000, 0x18000, 0x20000]
    for ln in lens:
        for typ in (0x00, 0x01, 0x05, 0x13, 0x1b):
            for rc in (0, 1, 2):
                cases.append(('hi%d' % k, ['cart.image %d %d %d 0' % (ln, typ, rc)] + poke_everything(rng)))
                k += 1
    # every cartridge-type code on a consistent 64 KiB image
    for typ in range(256):
        cases.append(('ht%d' % typ, ['cart.new %d 1 3' % typ] + poke_everything(rng)))
    # every ROM-size code against a 32 KiB and a 64 KiB image; every RAM-size code
    for rc in range(256):
        for ln in (0x8000, 0x10000):
            cases.append(('hr%d_%x' % (rc, ln), ['cart.image %d %d %d 2' % (ln, rng.choice(ALL_TYPES), rc)] + poke_everything(rng, 2)))
    for ramc in range(256):
        cases.append(('hs%d' % ramc, ['cart.new %d 1 %d' % (rng.choice(ALL_TYPES), ramc)] + poke_everything(rng, 2)))
    for i in range(n_random):
        ln = rng.choice([rng.randrange(0, 0x200), rng.randrange(0, 0x30000), 0x4000 * rng.randrange(0, 20)])
        cases.append(('hx%d' % i, ['cart.image %d %d %d %d' % (ln, rng.choice(ALL_TYPES + [rng.randrange(256)]),
                                                                 rng.randrange(10), rng.randrange(8))] + poke_everything(rng)))
    return cases


# ---------------------------------------------------------------- RTC (C10)

RTC_TYPE = 0x10


def rtc_state(s=0, m=0, h=0, d=0, carry=0, halt=0, ls=0, lm=0, lh=0, ld=0, lcarry=0, lhalt=0, ticks=0, low=0):
    return 'rtc.set %d %d %d %d %d %d %d %d %d %d %d %d %d %d' % (s, m, h, d, carry, halt, ls, lm, lh, ld, lcarry, lhalt, ticks, low)


def rtc_increment_sweeps(rng, tier):
    """one increment from every state on the carry boundaries (digest lines) and from individually listed states"""
    cases = []
    S = [0, 1, 29, 57, 58, 59, 60, 61, 62, 63]
    H = [0, 1, 22, 23, 24, 25, 30, 31]
    lines = ['cart.new %d 0 3' % RTC_TYPE]
    nstates = 0
    # all s x all m on the hour/day boundaries, one line per (h, carry)
    for carry in (0, 1):
        for h in H:
            lines.append('rtc.incsweep 0 63 0 63 %d %d 0 511 %d' % (h, h, carry) if tier == 'thorough' else
                         'rtc.incsweep 58 63 58 63 %d %d 0 511 %d' % (h, h, carry))
            nstates += (64 * 64 if tier == 'thorough' else 36) * 512
    # all s, all m, all h for the boundary days
    for carry in (0, 1):
        for d in (0, 1, 255, 256, 510, 511):
            for s0 in range(0, 64, 8):
                lines.append('rtc.incsweep %d %d 0 63 0 31 %d %d %d' % (s0, s0 + 7, d, d, carry))
                nstates += 8 * 64 * 32
    sweep_cases = [('incsweep', lines)]
    if tier == 'thorough':
        # the complete space 64 x 64 x 32 x 512 x 2, one digest line per (s, carry)
        for carry in (0, 1):
            lines = ['cart.new %d 0 3' % RTC_TYPE]
            for s in range(64):
                lines.append('rtc.incsweep %d %d 0 63 0 31 0 511 %d' % (s, s, carry))
                nstates += 64 * 32 * 512
            sweep_cases.append(('incall_c%d' % carry, lines))
    # individually observable boundary states (full 14-field state printed, so the unchanged fields are compared)
    k = 0
    pts = []
    for s in S:
        for m in S:
            for h in H:
                for d in (0, 255, 256, 510, 511):
                    pts.append((s, m, h, d))
    rng.shuffle(pts)
    chosen = pts if tier == 'thorough' else pts[:1500]
    for i in range(0, len(chosen), 50):
        lines = ['cart.new %d 0 3' % RTC_TYPE]
        for (s, m, h, d) in chosen[i:i + 50]:
            carry = rng.randrange(2)
            lines.append(rtc_state(s, m, h, d, carry, rng.randrange(2), rng.randrange(64), rng.randrange(64), rng.randrange(32),
                                   rng.randrange(512), rng.randrange(2), rng.randrange(2), rng.randrange(1048576), rng.randrange(2)))
            lines += ['rtc.inc', 'rtc.get']
        cases.append(('incpt%d' % k, lines))
        k += 1
    # random states, including uint8/uint16 values outside the register widths (only reachable through the hook)
    for j in range(20 if tier == 'quick' else 200):
        lines = ['cart.new %d 0 3' % RTC_TYPE]
        for _ in range(100):
            wide = rng.random() < 0.15
            lines.append(rtc_state(rng.randrange(256 if wide else 64), rng.randrange(256 if wide else 64),
                                   rng.randrange(256 if wide else 32), rng.randrange(65536 if wide else 512),
                                   rng.randrange(2), rng.randrange(2)))
            lines += ['rtc.inc', 'rtc.get']
        cases.append(('incrnd%d' % j, lines))
    return cases + sweep_cases, nstates


def rtc_sel(reg):
    return 'cart.w 0x4000 %d' % reg


def rtc_read_all():
    out = []
    for reg in (8, 9, 10, 11, 12):
        out += [rtc_sel(reg), 'cart.r 0xa000']
    return out


def rtc_histories(rng, n, max_ticks=3000000, types=(0x0f, 0x10)):
    """latch / read / write / halt histories with elapsed time, through the cartridge interface only, except that a
    history may start from a hook-set state close to a carry boundary (so that days roll over within few cycles)"""
    cases = []
    for i in range(n):
        typ = rng.choice(types)
        lines = ['cart.new %d 1 3' % typ, 'cart.w 0x0000 0x0a']
        if rng.random() < 0.6:
            near = rng.random() < 0.7
            lines.append(rtc_state(rng.choice([58, 59]) if near else rng.randrange(64),
                                   rng.choice([58, 59]) if near else rng.randrange(64),
                                   rng.choice([22, 23]) if near else rng.randrange(32),
                                   rng.choice([254, 255, 510, 511]) if near else rng.randrange(512),
                                   rng.randrange(2), 0, 0, 0, 0, 0, 0, 0,
                                   rng.choice([0, 1048575, 1048570, rng.randrange(1048576)]), 0))
        budget = max_ticks
        for _ in range(rng.randrange(8, 40)):
            r = rng.random()
            if r < 0.22:
                t = rng.choice([1, 2, 5, 6, 7, 1000, 1048575, 1048576, 1048577, rng.randrange(1, 2200000)])
                t = min(t, budget)
                if t > 0:
                    budget -= t
                    lines.append('cart.tick %d' % t)
            elif r < 0.45:
                lines.append('cart.w 0x6000 %d' % rng.choice([0, 1, 0, 1, 2, 3, 0xfe, 0xff, rng.randrange(256)]))
            elif r < 0.55:
                lines += ['cart.w 0x6000 0', 'cart.w 0x6000 1']
            elif r < 0.75:
                reg = rng.choice([8, 9, 10, 11, 12, 12, rng.randrange(16)])
                v = rng.choice([0, 59, 60, 63, 23, 24, 31, 0xff, 0x40, 0x80, 0xc1, 0x01, rng.randrange(256)])
                lines += [rtc_sel(reg), 'cart.w 0xa000 %d' % v]
            elif r < 0.80:
                lines.append('cart.w 0x0000 %d' % rng.choice([0, 0x0a, 0x0a]))
            elif r < 0.95:
                lines += [rtc_sel(rng.choice([8, 9, 10, 11, 12])), 'cart.r 0x%04x' % rng.choice([0xa000, 0xbfff, 0xa123])]
            else:
                lines.append('rtc.get')
        lines += ['cart.w 0x0000 0x0a', 'cart.w 0x6000 0', 'cart.w 0x6000 1'] + rtc_read_all() + ['rtc.get']
        cases.append(('rtch%d' % i, lines))
    return cases


def rtc_mask_reads(rng, n):
    """register reads are masked to their widths: hook-set latched values over the whole uint8/uint16 range"""
    cases = []
    for i in range(n):
        lines = ['cart.new 16 0 3', 'cart.w 0x0000 0x0a']
        for _ in range(20):
            lines.append(rtc_state(0, 0, 0, 0, 0, 0, rng.randrange(256), rng.randrange(256), rng.randrange(256),
                                   rng.choice([rng.randrange(65536), 0x100, 0x200, 0x300, 0xff00, 0xffff]),
                                   rng.randrange(2), rng.randrange(2), 0, 0))
            lines += rtc_read_all()
        cases.append(('mask%d' % i, lines))
    return cases


def rtc_long_runs(tier):
    """real elapsed time on the implementation (EndMachineCycle / the tick hook really called n times)"""
    cases = []
    # 70 s through Mapper.EndMachineCycle
    cases.append(('long_cycles', ['cart.new 16 0 3', 'cart.w 0x0000 0x0a', 'cart.tick %d' % (70 * 1048576 + 12345), 'rtc.get',
                                  'cart.w 0x6000 0', 'cart.w 0x6000 1'] + rtc_read_all()))
    # minutes / hours through the tick hook (same rtc.tick function, without the OAM DMA call around it)
    secs = 3700 if tier == 'thorough' else 400
    cases.append(('long_hook', ['cart.new 16 0 3', rtc_state(50, 58, 23, 511, 0, 0, ticks=77), 'rtc.tick %d' % (secs * 1048576 + 5),
                                'rtc.get']))
    # halted: nothing moves
    cases.append(('long_halted', ['cart.new 16 0 3', 'cart.w 0x0000 0x0a', rtc_sel(12), 'cart.w 0xa000 0x40',
                                  'cart.tick 3000000', 'rtc.get', 'cart.w 0xa000 0x00', 'cart.tick 1048576', 'rtc.get']))
    return cases


def rtc_days(rng, n):
    """days of elapsed time: hook-set start state, model advances through the closed form; the implementation is
    ticked for real only up to a few seconds, so long spans are composed of a hook-set state (any day / hour) plus
    real ticks across the boundary"""
    cases = []
    for i in range(n):
        d = rng.choice([0, 1, 100, 255, 256, 300, 510, 511])
        lines = ['cart.new 16 0 3', 'cart.w 0x0000 0x0a',
                 rtc_state(59, 59, 23, d, rng.randrange(2), 0, ticks=1048576 - rng.choice([1, 2, 3, 100]))]
        lines += ['cart.tick %d' % rng.choice([1, 2, 3, 99, 100, 101, 1048576]), 'rtc.get', 'cart.w 0x6000 0', 'cart.w 0x6000 1']
        lines += rtc_read_all()
        cases.append(('days%d' % i, lines))
    return cases
