"""C10 — the MBC3 real-time clock keeps time and latches correctly."""
from props import cartgen as G

ID = 'C10'
PROP_FILE = 'Properties/C10.v'
RULE = ('one increment (through the verif hook on Mapper.rtc) from every counter state on the carry boundaries: '
        's,m in 58..63 x 8 boundary hours x all 512 days x carry, and all s x all m x all h for 6 boundary days x carry '
        '(digest lines over ranges; thorough: the complete space 64x64x32x512x2), plus individually printed boundary and '
        'random states (all 14 fields compared, including uint8/uint16 values outside the register widths); random '
        'histories of latch writes, register writes/reads, halt, RAM enable and elapsed time through the cartridge '
        'interface only (Mapper.Write/Read/EndMachineCycle really called), optionally from a hook-set state next to a '
        'minute/hour/day/512-day boundary; 70 s of real EndMachineCycle calls and minutes (thorough: an hour) of real '
        'tick calls; register reads of hook-set latched values over the whole uint8/uint16 range (masks).  The model side advances by the proved closed form (C10_advance).  Non-trivial: some printed '
        'value is not 0; distinct = distinct case ids')
LEVEL_NOTE = ('C10_elapsed / C10_advance / C10_halted_frozen quantify over every n : N of elapsed cycles; C10_increment, '
              'C10_increment_cascade, C10_seconds over every counter state (in range / within widths); C10_latch_reads, '
              'C10_live and C10_cart_clock_reads over every history.  Days of elapsed time on the Go side are composed of '
              'a hook-set counter state plus real ticks across the boundary (really ticking a day costs ~10^11 calls); '
              'what is trusted there is that rtc.tick depends only on the fields the hook sets, all of which are compared.')
ASSUMPTIONS = ['written values are bytes (Mapper.Write takes a uint8)',
               'the sub-second count is below 1,048,576 (proved for every state reachable through the cartridge interface, C10_live)']
ALLOWED_AXIOMS = []
KEEP_PREFIX = 1
MAX_REPORT = 6


def generate(rng, tier):
    thorough = tier == 'thorough'
    inc, nstates = G.rtc_increment_sweeps(rng, tier)
    hist = G.rtc_histories(rng, 3000 if thorough else 400)
    longr = G.rtc_long_runs(tier)
    days = G.rtc_days(rng, 400 if thorough else 80)
    masks = G.rtc_mask_reads(rng, 100 if thorough else 10)
    cases = inc + hist + longr + days + masks
    info = dict(exhaustive=thorough,
                input_distribution=dict(increment_states_in_digests=nstates, increment_cases=len(inc), histories=len(hist),
                                        long_runs=len(longr), boundary_crossings=len(days), mask_read_cases=len(masks),
                                        ops_total=sum(len(c[1]) for c in cases)),
                samples=[dict(case=c[0], script=c[1][:12] + ['...']) for c in (inc[0], hist[2], longr[0], days[0])])
    return cases, info


def nontrivial(cid, lines, impl):
    if not impl:
        return None
    for l in impl:
        if any(x not in ('0', 'PANIC') for x in l.split()):
            return cid
    return None


def matches_known(k, case, impl, model):
    return False


def judge(case, impl, model):
    return ('clock state or a clock register read differs from the model, which the C10 theorems prove equal to the '
            'counter cascade / closed form in elapsed cycles / latch specification')
