"""C05 — HALT idles until an enabled request and reproduces the halt bug."""
from props import cpugen

ID = 'C05'
PROP_FILE = 'Properties/C05.v'
RULE = ('HALT under every IME x (enabled request pending / requested but not enabled / nothing) followed by every defined '
        'base opcode (sampled in quick) and a sample of CB opcodes, with an enabled request raised after idle lengths '
        '0..300 (quick) / 0..20000 (thorough); CPU state printed at the request and after each of the following 10 '
        'machine cycles, watched memory at the end; non-trivial = the CPU idled at least one cycle or the halt bug '
        'triggered; distinct = distinct case ids')
LEVEL_NOTE = ('C05_halt_idles holds for every number of idle cycles and every environment; the wake-up, dispatch and halt-bug '
              'theorems for every state and bus. The Go CPU is tied to the model by this run.')
ASSUMPTIONS = ['bus values are bytes']
ALLOWED_AXIOMS = []
MAX_REPORT = 5
KEEP_PREFIX = 1


CONTROL = [0xc0, 0xc8, 0xd0, 0xd8, 0xc9, 0xd9, 0xe9, 0xc7, 0xcf, 0xd7, 0xdf, 0xe7, 0xef, 0xf7, 0xff]
# LD H,(HL) / LD L,(HL) executed twice (halt bug) read through a pointer made of the byte just loaded: it can land anywhere,
# including bus regions the CPU-level test bus does not model, so they are not used where the halt bug can trigger
TWICE_UNSAFE = (0x66, 0x6e)
SAFE1 = [op for op in range(0x04, 0xc0) if cpugen.length(op) == 1 and op not in (0x76, 0x10, 0x18, 0x20, 0x28, 0x30, 0x38) + TWICE_UNSAFE]


def halt_case(rng, ime, pend, op, idle, cb=None, prefix=None):
    st = cpugen.structured_state(rng)
    if op in (0xe2, 0xf2):
        # LD (FF00+C),A / LD A,(FF00+C): keep C on addresses the CPU-level test bus models (HRAM, IF, IE)
        st['c'] = rng.choice(cpugen.HRAM_OFFS[:-2])
    pc = 0xc000
    flow = op in CONTROL or op in (0xc3, 0xc2, 0xca, 0xd2, 0xda, 0xcd, 0xc4, 0xcc, 0xd4, 0xdc, 0x18, 0x20, 0x28, 0x30, 0x38)
    lines = (['mayexit'] if flow else []) + ['cpu.new', cpugen.set_line(st, pc)]
    if prefix is not None:
        # EI / DI / NOP straight before HALT: HALT is reached with the master enable in transition
        lines.append('w %d %d' % (pc, prefix))
        pc += 1
    lines.append('w %d 118' % pc)
    n = cpugen.length(op)
    operands = []
    if op == 0xcb:
        operands = [cb]
    elif n == 3:
        t = cpugen.safe_ptr(rng) if op in (0x08, 0xea, 0xfa) else 0xc100 + rng.randrange(0x100)
        operands = [t & 255, t >> 8]
    elif n == 2:
        operands = [rng.choice(cpugen.HRAM_OFFS[:-2])] if op in (0xe0, 0xf0) else [rng.randrange(256)]
    code = [op] + operands
    for i, b in enumerate(code + [0, 0, 0, 0]):
        lines.append('w %d %d' % (pc + 1 + i, b))
    mask = rng.choice([1, 2, 4, 8, 16])
    ie = {'pending': mask | rng.randrange(32), 'masked': (~mask) & 31 & rng.randrange(32), 'none': rng.randrange(32)}[pend]
    iff = {'pending': mask, 'masked': mask, 'none': 0}[pend]
    ie |= rng.choice([0, 0, 0xe0, rng.randrange(8) << 5])     # the unused IE bits 5-7 are stored and must not count
    lines += ['w 65535 %d' % ie, 'w 65295 %d' % iff, 'cpu.ime %d' % ime]
    if prefix is not None:
        lines += ['cpu.cyc 1', 'cpu.get']
    lines += ['cpu.cyc 1', 'cpu.get']                 # HALT itself
    if idle:
        lines += ['cpu.cyc %d' % idle, 'cpu.get']
    wake = rng.choice([1, 2, 4, 8, 16])
    lines += ['w 65535 %d' % (ie | wake), 'cpu.req %d' % wake]
    for _ in range(10):
        lines += ['cpu.cyc 1', 'cpu.get']
    sp = st['sp']
    for a in [(sp - 1) & 0xffff, (sp - 2) & 0xffff, 0xff0f, st['h'] << 8 | st['l']]:
        if cpugen.is_safe(a):
            lines.append('r %d' % a)
    return lines


def generate(rng, tier):
    cases = []
    ops = [op for op in range(256) if op not in cpugen.UNDEFINED and op not in (0xcb, 0x76, 0x10)]
    if tier == 'quick':
        ops = rng.sample(ops, 80)
    idles = [0, 1, 2, 3, 5, 17, 114, 300] if tier == 'quick' else [0, 1, 2, 3, 4, 5, 6, 17, 113, 114, 115, 300, 4000, 20000]
    n = 0
    for ime in (0, 1):
        for pend in ('pending', 'masked', 'none'):
            for op in ops:
                if ime == 0 and pend == 'pending' and (cpugen.length(op) != 1 or op in CONTROL or op in TWICE_UNSAFE):
                    op = rng.choice(SAFE1)
                idle = rng.choice(idles)
                cases.append(('h%d' % n, halt_case(rng, ime, pend, op, idle)))
                n += 1
            for cb in (rng.sample(range(256), 12) if not (ime == 0 and pend == 'pending') else rng.sample(SAFE1, 10)):
                cases.append(('h%d' % n, halt_case(rng, ime, pend, 0xcb, rng.choice(idles), cb)))
                n += 1
    # EI / DI / NOP immediately before HALT, every IME x request combination
    npre = 0
    for rep in range(2 if tier == 'quick' else 12):
        for prefix in (0xfb, 0xf3, 0x00):
            for ime in (0, 1):
                for pend in ('pending', 'masked', 'none'):
                    cases.append(('p%d' % npre, halt_case(rng, ime, pend, rng.choice(SAFE1), rng.choice(idles[:6]), prefix=prefix)))
                    npre += 1
    # a key press (display callback -> Controller.ButtonAction + CPU.OnInput) must not end HALT; it does end STOP
    from props import sysgen
    nkey = 0
    for rep in range(4 if tier == 'quick' else 40):
        for prog in ([0x76, 0x3c, 0x3c, 0x18, 0xfc], [0xfb, 0x76, 0x3c, 0x18, 0xfc], [0x10, 0x00, 0x3c, 0x18, 0xfd]):
            cases.append(('k%d' % nkey, sysgen.key_case(rng, prog, video=1 if rep % 4 else 0)))
            nkey += 1
    # every idle length 0..300 for HALT ; INC A
    for idle in range(0, 301 if tier == 'quick' else 2001):
        cases.append(('i%d' % idle, halt_case(rng, idle % 2, 'none', 0x3c, idle)))
    info = dict(input_distribution=dict(halt_cases=n, prefixed_cases=npre, key_event_cases=nkey, idle_lengths=len(idles)),
                samples=[dict(case=cases[3][0], script=cases[3][1])])
    return cases, info


def nontrivial(cid, lines, impl):
    if impl and len(set(impl)) > 2:
        return cid
    return None


def matches_known(k, case, impl, model):
    return False


def judge(case, impl, model):
    return ('CPU state around HALT differs from the model, whose idling, wake-up, dispatch and halt-bug behaviour is proved '
            'equal to the documented one (C05_*)')
