"""Shared helpers of the APU property checks (C18-C21): register addresses and script fragments."""
NR10, NR11, NR12, NR13, NR14 = 0xFF10, 0xFF11, 0xFF12, 0xFF13, 0xFF14
NR21, NR22, NR23, NR24 = 0xFF16, 0xFF17, 0xFF18, 0xFF19
NR30, NR31, NR32, NR33, NR34 = 0xFF1A, 0xFF1B, 0xFF1C, 0xFF1D, 0xFF1E
NR41, NR42, NR43, NR44 = 0xFF20, 0xFF21, 0xFF22, 0xFF23
NR50, NR51, NR52 = 0xFF24, 0xFF25, 0xFF26
REGS = [NR10, NR11, NR12, NR13, NR14, NR21, NR22, NR23, NR24, NR30, NR31, NR32, NR33, NR34,
        NR41, NR42, NR43, NR44, NR50, NR51]
MASK = {NR10: 0x80, NR11: 0x3F, NR12: 0x00, NR13: 0xFF, NR14: 0xBF, NR21: 0x3F, NR22: 0x00, NR23: 0xFF,
        NR24: 0xBF, NR30: 0x7F, NR31: 0xFF, NR32: 0x9F, NR33: 0xFF, NR34: 0xBF, NR41: 0xFF, NR42: 0x00,
        NR43: 0x00, NR44: 0xBF, NR50: 0x00, NR51: 0x00}
LEN_REG = {1: NR11, 2: NR21, 3: NR31, 4: NR41}
DAC_REG = {1: NR12, 2: NR22, 3: NR30, 4: NR42}
TRIG_REG = {1: NR14, 2: NR24, 3: NR34, 4: NR44}
UNUSED = [0xFF15, 0xFF1F] + list(range(0xFF27, 0xFF30))
WAVE = list(range(0xFF30, 0xFF40))


def w(addr, v):
    return 'apu.w 0x%04X 0x%02X' % (addr, v & 0xFF)


def cyc(n):
    return 'apu.cyc %d' % n


def rand_value(rng):
    r = rng.random()
    if r < 0.55:
        return rng.randrange(256)
    if r < 0.7:
        return rng.choice([0x00, 0xFF, 0x80, 0x7F, 0x08, 0xF0, 0xF8, 0x40, 0xC0, 0x3F])
    if r < 0.85:
        return 0x80 | rng.randrange(128)      # trigger / power / DAC bit set
    return rng.randrange(256) & 0xC7


def dac_value(rng, on):
    if on:
        return rng.choice([0xF0, 0x08, 0xF3, 0x18, 0x80, 0x0B, rng.randrange(8, 256)])
    return rng.randrange(8)                    # upper five bits clear: DAC off


def parse_rle(s):
    """'241x3,240x2' -> [(241,3),(240,2)]"""
    out = []
    for part in s.split(','):
        if not part:
            continue
        v, k = part.rsplit('x', 1)
        out.append((v, int(k)))
    return out
