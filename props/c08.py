"""C08 — cartridge ROM banking follows each controller's register semantics."""
from props import cartgen as G

ID = 'C08'
PROP_FILE = 'Properties/C08.v'
RULE = ('cartridge type (ROM-only, MBC1, MBC2, MBC3, MBC5) x every declared ROM size 32 KiB..8 MiB x every byte value '
        'written to one address of every control region (fresh cartridge per write for ROMs up to 256 KiB, one '
        'cartridge per 32 values above), each followed by reads of both ROM windows; every MBC1 '
        '(bank1, bank2, mode) combination x ROM size; random write/read/tick sequences; construction with '
        'short/odd/inconsistent images.  Every 16 KiB page of the synthetic image carries its page number. '
        'A case is non-trivial when some window shows a bank other than the power-on bank (0 low, 1 high); '
        'distinct = distinct case ids (type, size, region, value block)')
LEVEL_NOTE = ('C08_rom_read quantifies over every image that constructs, every history of writes/reads/ticks and every '
              'address below 0x8000 (MBC5: ROMs up to 8 MiB); C08_rom_immutable over every history.  The Go controllers '
              '(through memory.New / Mapper.Read / Mapper.Write) are tied to the model by this run\'s correspondence.')
ASSUMPTIONS = ['written values are bytes (Mapper.Write takes a uint8)',
               'image lengths fit a Go int (the model treats 0x02<<code as a 64-bit shift)']
ALLOWED_AXIOMS = []
KEEP_PREFIX = 1
MAX_REPORT = 6


def generate(rng, tier):
    thorough = tier == 'thorough'
    cases = []
    sw = G.single_write_sweep(fresh_upto=8 if thorough else 3)
    if thorough:
        # every supported type code, not only one representative per controller
        sw += G.single_write_sweep(romcodes=[0, 2, 6], types=G.ALL_TYPES, fresh_upto=8)
    cases += sw
    m1 = G.mbc1_register_combos()
    cases += m1
    rs = G.random_sequences(rng, 3000 if thorough else 400, ram_ops=True, ticks=True)
    cases += rs
    hi = G.hostile_images(rng, 300 if thorough else 40)
    if not thorough:
        hi = [c for i, c in enumerate(hi) if i % 3 == 0]
    cases += hi
    info = dict(exhaustive=True,
                input_distribution=dict(single_write_cases=len(sw), mbc1_combo_cases=len(m1), random_sequences=len(rs),
                                        construction_cases=len(hi), ops_total=sum(len(c[1]) for c in cases),
                                        rom_sizes='codes 0..8 (32 KiB..8 MiB)', types=[hex(t) for t in G.ALL_TYPES]),
                samples=[dict(case=c[0], script=c[1][:10] + ['...']) for c in (sw[100], m1[5], rs[3], hi[7])])
    return cases, info


def nontrivial(cid, lines, impl):
    if not impl:
        return None
    for l in impl:
        p = l.split()
        if len(p) == 2 and p != ['0', '0'] and all(x.isdigit() for x in p):
            return cid
        if len(p) == 4 and p[:2] != ['1', '0'] and all(x.isdigit() for x in p):
            return cid
    return None


def matches_known(k, case, impl, model):
    return False


def judge(case, impl, model):
    return ('bytes read below 0x8000 (or a crash) differ from the model, which C08_rom_read proves equal to the bank '
            'selected by the documented registers modulo the ROM size')
