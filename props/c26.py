"""C26 — the frame loop steps every component once per machine cycle and stops on request."""
from props import sysgen

ID = 'C26'
PROP_FILE = 'Properties/C26.v'
RULE = ('(1) from machine states reached after a random number of cycles (several ROMs, synthetic MBC3 images for the clock, '
        'audio attached or not) one real runFrame, component observables before and after (CPU registers, internal timer '
        'counter, TIMA, LY/mode/PPU position, RTC sub-second count, APU clock and frame-sequencer position, IF); (2) Run with '
        'the stub window closing after K frames (video/audio on and off) and Run cancelled after a delay: frames run, '
        'Cleanup effects. non-trivial = observables changed over the frame; distinct = distinct case ids')
LEVEL_NOTE = ('C26_order/C26_cycle/C26_frame are re-checked on every run against the loop regenerated from gameboy.go; C26_stop_* '
              'hold for every cancellation/close instant. PARTIAL: cancellation arrives from another goroutine in reality; the '
              'model covers the loop logic, the check exercises real cancellations at a few instants.')
ASSUMPTIONS = ['pure-Go stand-ins for GLFW/GL/PortAudio']
ALLOWED_AXIOMS = []
MAX_REPORT = 3
KEEP_PREFIX = 1


def generate(rng, tier):
    cases = []
    rl = sysgen.quick_roms()[:3] if tier == 'quick' else sysgen.roms()[::6]
    n = 0
    reps = 2 if tier == 'quick' else 6
    for r in rl:
        for _ in range(reps):
            lines = ['gb.new 0 %s 1 %d' % (sysgen.enc(r), rng.randrange(2)), 'gb.cyc 0 %d' % rng.randrange(0, 40000), 'gb.obs 0',
                     'gb.frames 0 1', 'gb.obs 0', 'gb.pix 0', 'gb.frames 0 1', 'gb.obs 0']
            cases.append(('fr%d' % n, lines))
            n += 1
    for (typ, ramc) in [(0x10, 3), (0x13, 2), (0x00, 0), (0x19, 0)]:
        lines = ['gb.newloop 0 %d 1 %d %d' % (typ, ramc, rng.randrange(2)), 'gb.w 0 0 10', 'gb.w 0 16384 8', 'gb.cyc 0 %d' % rng.randrange(0, 30000),
                 'gb.obs 0', 'gb.frames 0 1', 'gb.obs 0', 'gb.w 0 65284 0', 'gb.w 0 65287 %d' % rng.choice([4, 5, 6, 7]),
                 'gb.frames 0 2', 'gb.obs 0']
        cases.append(('fr%d' % n, lines))
        n += 1
    # every component keeps its schedule whatever the CPU is doing: STOP, HALT, LCD off, DMA in progress
    for prog, pre in [([0x10, 0x00, 0x18, 0xfe], []), ([0x76, 0x18, 0xfd], []), ([0x18, 0xfe], ['gb.w 0 65344 0']),
                      ([0x18, 0xfe], ['gb.w 0 65350 192']), ([0x10, 0x00, 0x18, 0xfe], ['gb.w 0 65344 0'])]:
        lines = ['gb.newloop 0 16 1 3 %d' % rng.randrange(2), 'gb.w 0 0 10', 'gb.w 0 16384 8']
        for i, b in enumerate(prog):
            lines.append('gb.w 0 %d %d' % (0xc000 + i, b))
        lines += ['gb.set 0 1 2 3 4 5 0 6 7 57343 49152', 'gb.w 0 65287 %d' % rng.choice([4, 5, 6, 7])] + pre
        lines += ['gb.cyc 0 %d' % rng.randrange(1, 3000), 'gb.obs 0', 'gb.frames 0 1', 'gb.obs 0', 'gb.frames 0 2', 'gb.obs 0',
                  'gb.btn 0 %d 1' % rng.randrange(8), 'gb.frames 0 1', 'gb.obs 0']
        cases.append(('fr%d' % n, lines))
        n += 1
    # the timer overflow is requested whatever the CPU's master enable: DI; JR -2 with the timer running
    for rep in range(2 if tier == 'quick' else 8):
        lines = ['gb.newloop 0 0 0 0']
        for i, b in enumerate([0xf3, 0x18, 0xfe]):
            lines.append('gb.w 0 %d %d' % (0xc000 + i, b))
        lines += ['gb.set 0 1 2 3 4 5 0 6 7 57343 49152', 'gb.w 0 65287 %d' % rng.choice([5, 6, 7]), 'gb.w 0 65285 %d' % rng.randrange(200, 256),
                  'gb.w 0 65295 0', 'gb.cyc 0 %d' % rng.randrange(2, 40), 'gb.obs 0', 'gb.w 0 65295 0', 'gb.frames 0 1', 'gb.obs 0', 'gb.r 0 65295']
        cases.append(('fr%d' % n, lines))
        n += 1
    # the CPU acts first in every cycle: a loop of 9 machine cycles (co-prime with DIV's 64) adds up every DIV value it reads
    for rep in range(2 if tier == 'quick' else 8):
        lines = ['gb.newloop 0 0 0 0']
        for i, b in enumerate([0xf0, 0x04, 0x80, 0x47, 0x00, 0x18, 0xf9]):     # LDH A,(04); ADD B; LD B,A; NOP; JR -7
            lines.append('gb.w 0 %d %d' % (0xc000 + i, b))
        lines += ['gb.set 0 1 2 3 4 5 0 6 7 57343 49152', 'gb.cyc 0 %d' % rng.randrange(1, 64), 'gb.obs 0', 'gb.frames 0 1', 'gb.obs 0', 'gb.cyc 0 %d' % rng.randrange(100, 2000), 'gb.obs 0']
        cases.append(('fr%d' % n, lines))
        n += 1
    # a timer overflow in every position relative to the end of a frame: its request must be in IF when the frame is over
    for a in (range(0, 256) if tier != 'quick' else range(100, 200)):
        cases.append(('tfr%d' % a, ['gb.newloop 0 0 0 0', 'gb.cyc 0 %d' % a, 'gb.w 0 65295 0', 'gb.w 0 65285 187', 'gb.w 0 65287 4', 'gb.frames 0 1',
                                    'gb.r 0 65295', 'gb.cyc 0 2', 'gb.r 0 65295', 'gb.obs 0']))
    # a frame step advances 17,556 cycles whatever the state of the context (Run looks at it between frames only)
    for rep in range(2 if tier == 'quick' else 8):
        cases.append(('fr%d' % n, ['gb.newloop 0 %d 1 3' % rng.choice([0, 16]), 'gb.cyc 0 %d' % rng.randrange(0, 3000), 'gb.obs 0', 'gb.framesc 0 1', 'gb.obs 0',
                                   'gb.frames 0 1', 'gb.obs 0', 'gb.framesc 0 2', 'gb.obs 0']))
        n += 1
    from props import sysgen as _sg
    for rep in range(2 if tier == 'quick' else 12):
        cases.append(('fr%d' % n, _sg.key_case(rng, [0x10, 0x00, 0x3c, 0x18, 0xfd], n_events=4) + ['gb.frames 0 1', 'gb.obs 0']))
        n += 1
    k = 0
    for pre in (['gb.w 0 65344 0'], ['gb.w 0 65344 0', 'gb.frames 0 1']):
        for kk in (1, 2):
            cases.append(('closeoff%d' % k, ['gb.newloop 0 0 0 0 0 1'] + pre + ['gb.runclose 0 %d' % kk, 'gb.obs 0']))
            k += 1
    for vid in (0, 1):
        for aud in (0, 1):
            if vid:
                for kk in (1, 3):
                    cases.append(('close%d' % k, ['gb.newloop 0 0 0 0 %d %d' % (aud, vid), 'gb.runclose 0 %d' % kk, 'gb.obs 0']))
                    k += 1
            cases.append(('deadline%d' % k, ['gb.newloop 0 0 0 0 %d %d' % (aud, vid), 'gb.rundeadline 0 %d' % rng.choice([1, 10, 30])]))
            k += 1
            for ms in (0, 5, 40):
                cases.append(('cancel%d' % k, ['gb.newloop 0 0 0 0 %d %d' % (aud, vid), 'gb.runcancel 0 %d' % ms]))
                k += 1
    info = dict(input_distribution=dict(frame_cases=n, run_cases=k), samples=[dict(case=cases[0][0], script=cases[0][1])])
    return cases, info


def nontrivial(cid, lines, impl):
    if impl and len(set(impl)) > 1:
        return cid
    return None


def matches_known(k, case, impl, model):
    return False


def judge(case, impl, model):
    return ('component progress over a frame, or the behaviour of Run on cancellation/close, differs from the model of the '
            'frame loop (C26_*)')
