"""C11 — no cartridge image or guest program can crash the emulator."""
from props import cartgen as G
from props import safegen as S

ID = 'C11'
PROP_FILE = 'Properties/C11.v'
EXTRA_COQ = []
RULE = ('(a) construction from arbitrary images: lengths 0..0x150 around every header field, odd sizes, sizes that are '
        'not page multiples, all 256 type codes, ROM-size and RAM-size codes incl. inconsistent ones, each followed by reads of '
        'every window, writes of assorted values to every control region, machine cycles and a RAM dump; '
        '(b) every supported cartridge type x declared ROM size x every byte value written to one address of every control '
        'region, each followed by reads of every window (cart.* operations on the real Mapper); random cartridge histories; '
        '(c) random whole-machine bus histories: Mapper.Read / Mapper.Write at any address (biased to the decoder\'s region '
        'edges, OAM, wave RAM, I/O) with any byte, interleaved with hardware and CPU cycles; '
        '(d) template-generated SM83 programs (pointer walkers through FE00-FEFF with INC/DEC rr, PUSH/POP, LD A,(HL+-), '
        'ADD SP; LCDC/DMA/APU/MBC/interrupt/timer register traffic; RST/JR) looped for thousands of machine cycles from '
        'power-on with the LCD on, in ROM of every controller type and in RAM; (e) purely random byte programs; '
        '(f) OAM DMA from every page with the CPU running and the LCD on; (g) wave RAM accesses at every cycle offset after a '
        'trigger; (i) every opcode of both pages as the first instruction after power-on (before the PPU has scanned); (h) every undefined opcode (child process, must report EXIT) and every defined opcode (must not).  Every '
        'constructing operation is bracketed by marks: a PANIC line that does not directly follow the mark before a constructor '
        'is a violation even when the model predicts it, as is an EXIT the model (proved to stop only on undefined opcodes) '
        'does not predict, as is any other difference from the model.  A case is non-trivial when it constructs and '
        'runs machine cycles or bus operations, or when it fails construction; distinct = distinct case scripts')
LEVEL_NOTE = ('see design/C11.md: bus-level theorem and whole-machine theorem status; the Go code is tied to the model by this '
              'run\'s correspondence, and panics are judged on the implementation alone (a PANIC the model also predicts is '
              'still reported).')
ASSUMPTIONS = ['the configured serial writer does not return an error (WriteSB panics if it does; the harness uses bytes.Buffer)',
               'values put on the bus are bytes and addresses are 16 bits wide (Go types uint8 / uint16)',
               'image lengths fit a Go int']
ALLOWED_AXIOMS = []
KEEP_PREFIX = 5
MAX_REPORT = 3


# ---------------------------------------------------------------- (a) hostile images
def poke(rng, cpu=True):
    lines = ['sys.rr 0x0000 0x0003', 'sys.rr 0x3ffe 0x4003', 'sys.r 0x7fff', 'sys.rr 0xa000 0xa003', 'sys.r 0xbfff']
    for reg in (0x0000, 0x2000, 0x2100, 0x3000, 0x4000, 0x6000):
        for v in (0x0a, rng.randrange(256), 0xff, 0x00):
            lines.append('sys.w 0x%04x %d' % (reg, v))
            lines += ['sys.rr 0x4000 0x4001', 'sys.r 0xa000']
        lines.append('sys.w 0xa000 %d' % rng.randrange(256))
        lines.append('sys.w 0xbfff %d' % rng.randrange(256))
    if cpu:
        lines += ['sys.cyc %d' % rng.choice([50, 300, 700]), 'sys.get', 'sys.dump']
    else:
        lines += ['sys.hw %d' % rng.choice([50, 300, 700]), 'sys.dump']
    return lines


def hostile(rng, n):
    cases = []
    lens = [0, 1, 2, 0x100, 0x133, 0x146, 0x147, 0x148, 0x149, 0x14a, 0x14b, 0x14f, 0x150, 0x151, 0x3fff, 0x4000, 0x4001,
            0x7fff, 0x8000, 0x8001, 0xc000, 0xffff, 0x10000, 0x10001, 0x18000, 0x20000, 0x40000]
    for i in range(n):
        ln = rng.choice(lens) if rng.random() < 0.7 else rng.randrange(0, 0x21000)
        seed = rng.choice([rng.randrange(1, 999), 1000, 1255, 1000 + rng.randrange(256)])
        r = rng.random()
        if r < 0.5:
            typ = rng.choice(G.ALL_TYPES)
        else:
            typ = rng.randrange(256)
        romc = rng.choice([0, 1, 2, 3, rng.randrange(256), {0x8000: 0, 0x10000: 1, 0x20000: 2, 0x40000: 3}.get(ln, 0)])
        ramc = rng.choice([0, 1, 2, 3, 4, 5, 6, rng.randrange(256)])
        ov = '0x147 %d 0x148 %d 0x149 %d' % (typ, romc, ramc)
        if rng.random() < 0.15:
            ov = ''          # leave the header to the fill pattern
        cpu = i % 3 == 0
        lines = ['safe.img %d %d %s' % (ln, seed, ov), 'safe.ok'] + poke(rng, cpu)
        cases.append(('img%d' % i, (['mayexit'] if cpu else []) + lines))
    # consistent images of every type code 0..255 and size code (32 KiB .. 256 KiB real, larger declared only)
    for typ in range(256):
        romc = rng.choice([0, 1, 2])
        lines = ['safe.img %d %d 0x147 %d 0x148 %d 0x149 %d' % (0x8000 << romc, rng.randrange(1, 999), typ, romc,
                                                              rng.choice([0, 2, 3])), 'safe.ok'] + poke(rng, typ in G.ALL_TYPES)
        cases.append(('type%02x' % typ, (['mayexit'] if typ in G.ALL_TYPES else []) + lines))
    return cases


# ---------------------------------------------------------------- (c) bus histories
IOREGS = [0xff00, 0xff01, 0xff02, 0xff04, 0xff05, 0xff06, 0xff07, 0xff0f] + list(range(0xff10, 0xff40)) + \
         list(range(0xff40, 0xff4c)) + [0xffff]


def bus_addr(rng):
    r = rng.random()
    if r < 0.25:
        return rng.choice(S.EDGES)
    if r < 0.45:
        return rng.choice(IOREGS)
    if r < 0.6:
        return S.oam_addr(rng)
    if r < 0.7:
        return 0xff30 + rng.randrange(16)
    if r < 0.8:
        return rng.randrange(0x8000)
    return rng.randrange(0x10000)


def bus_histories(rng, n, steps=(30, 120), cpu0=True):
    cases = []
    for i in range(n):
        cpu = cpu0 and i % 3 == 0
        typ = rng.choice(G.ALL_TYPES)
        romc = rng.choice([0, 0, 1, 2, 3])
        ramc = rng.choice([0, 1, 2, 3, 4, 5])
        lines = ['sys.new %d %d %d %d %d' % (typ, romc, ramc, rng.randrange(2), rng.randrange(2)), 'safe.ok', 'sys.hw 1']
        for _ in range(rng.randrange(*steps)):
            r = rng.random()
            if r < 0.45:
                a = bus_addr(rng)
                v = rng.choice([rng.randrange(256), 0x00, 0xff, 0x80, 0x91, 0x0a])
                lines.append('sys.w 0x%04x %d' % (a, v))
            elif r < 0.8:
                lines.append('sys.r 0x%04x' % bus_addr(rng))
            elif r < 0.92:
                lines.append('sys.hw %d' % rng.choice([1, 1, 2, 3, 19, 20, 41, 114, 161, 500, rng.randrange(1, 1000)]))
            elif cpu:
                lines.append('sys.cyc %d' % rng.choice([1, 2, 7, 50, rng.randrange(1, 400)]))
            else:
                lines.append('sys.hw 1')
        lines += ['safe.oamst', 'sys.oam', 'sys.get']
        cases.append(('bus%d' % i, (['mayexit'] + lines) if cpu else lines))
    return cases


EDGES = [0x0000, 0x1fff, 0x2000, 0x3fff, 0x4000, 0x5fff, 0x6000, 0x7fff, 0x8000, 0x9fff, 0xa000, 0xa1ff, 0xa200, 0xbfff,
         0xc000, 0xdfff, 0xe000, 0xfdff, 0xfe00, 0xfe9f, 0xfea0, 0xfeff, 0xff00, 0xff0f, 0xff10, 0xff26, 0xff2f, 0xff30,
         0xff3f, 0xff40, 0xff4b, 0xff4c, 0xff7f, 0xff80, 0xfffd, 0xfffe, 0xffff]


def edge_cases(rng, n):
    """every boundary address of the memory map written and read on every kind of cartridge, and the stack pointer of
    a guest program placed on each boundary (PUSH/POP/CALL/RET touch both sides of it)"""
    cases = []
    for i in range(n):
        typ = G.ALL_TYPES[i % len(G.ALL_TYPES)]
        lines = ['sys.new %d %d %d 1 0' % (typ, rng.choice([0, 1, 2]), rng.choice([0, 2, 3])), 'safe.ok']
        if i % 2:
            lines.append('sys.w 0xFF40 0x11')
        for a in EDGES:
            lines += ['sys.w 0x%04x %d' % (a, rng.choice([0x0a, 0x00, 0xff, rng.randrange(256)])), 'sys.r 0x%04x' % a]
        lines += ['sys.hw 200']
        for a in EDGES:
            lines.append('sys.r 0x%04x' % a)
        cases.append(('edge%d' % i, lines))
    for i, spv in enumerate([0xfffe, 0xffff, 0x0000, 0xff80, 0xff81, 0xfea0, 0xfe00, 0xe000, 0xc000, 0xa000, 0x8000, 0xff00]):
        # PUSH BC; POP DE; CALL next; RET-less loop: C5 D1 CD 06 C0 (at C006:) 18 F8
        lines = ['mayexit', 'sys.cpurom', 'safe.ok']
        for j, b in enumerate([0xc5, 0xd1, 0xcd, 0x06, 0xc0, 0x00, 0xc1, 0x18, 0xf7]):
            lines.append('sys.w %d %d' % (0xc000 + j, b))
        lines += ['sys.set 1 2 3 4 5 0 6 7 %d 49152' % spv, 'sys.cyc 60', 'sys.get']
        cases.append(('sp%d' % i, lines))
    return cases


# ---------------------------------------------------------------- (d) (e) programs
def program_cases(rng, n, cycles):
    cases = []
    for i in range(n):
        r = rng.random()
        table = S.POINTER if r < 0.35 else S.GENERAL
        prog = S.looped(rng, rng.randrange(3, 40), table)
        run = ['sys.cyc %d' % cycles, 'sys.get', 'safe.oamst', 'sys.oam']
        if rng.random() < 0.2:
            run.append('sys.pix')
        if rng.random() < 0.5:
            typ = rng.choice(G.ALL_TYPES)
            lines = S.rom_program_lines(typ, rng.choice([0, 1, 2]), rng.choice([0, 2, 3, 4]), prog)
        else:
            at = rng.choice([0xc000, 0xd800, 0xff80, 0xe000, 0x8000])
            lines = S.wram_program_lines(prog, at=at)
        cases.append(('prog%d' % i, ['mayexit'] + lines + run))
    return cases


def irq_program_cases(rng, n, cycles):
    """interrupts (timer, at a period that drifts against the loop) dispatched at every possible boundary of a loop made of
    taken and not-taken conditional calls, jumps and returns"""
    cases = []
    for i in range(n):
        body = []
        sub = 0xc080
        for _ in range(rng.randrange(4, 10)):
            k = rng.randrange(9)
            if k == 0:
                body += [0xaf, 0xcc, sub & 255, sub >> 8]            # XOR A ; CALL Z (taken)
            elif k == 1:
                body += [0xaf, 0xc4, sub & 255, sub >> 8]            # CALL NZ (not taken)
            elif k == 2:
                body += [0x37, 0xdc, sub & 255, sub >> 8]            # SCF ; CALL C (taken)
            elif k == 3:
                body += [0xaf, 0x28, 0x00]                           # JR Z,+0 (taken)
            elif k == 4:
                body += [0xaf, 0x20, 0x00]                           # JR NZ (not taken)
            elif k == 5:
                body += [0x37, 0x30, 0x00, 0x38, 0x00]               # JR NC (not taken) ; JR C (taken)
            elif k == 6:
                body += [0x3c, 0x00]
            elif k == 7:
                body += [0x76]                                       # HALT (woken by the timer)
            else:
                body += [0xcd, sub & 255, sub >> 8]                  # CALL
        pre = [0x31, 0xff, 0xdf, 0x3e, 0x04, 0xe0, 0xff, 0x3e, rng.randrange(0xe0, 0x100), 0xe0, 0x06, 0x3e, rng.choice([5, 5, 6, 7]), 0xe0, 0x07, 0xfb]
        prog = pre + body
        back = len(pre) - (len(prog) + 2)
        prog += [0x18, back & 255]
        lines = ['mayexit', 'sys.cpurom', 'safe.ok']
        for j, b in enumerate(prog):
            lines.append('sys.w %d %d' % (0xc000 + j, b))
        for j, b in enumerate([0xaf, 0xc8, 0xc9] if i % 2 else [0x37, 0xd0, 0xd8, 0xc9]):   # XOR A; RET Z  |  SCF; RET NC; RET C
            lines.append('sys.w %d %d' % (sub + j, b))
        lines += ['sys.set 1 2 3 4 5 0 6 7 57343 49152', 'sys.cyc %d' % cycles, 'sys.get', 'sys.rr 0xDFE0 0xDFFF']
        cases.append(('irqprog%d' % i, lines))
    return cases


def random_byte_programs(rng, n, cycles):
    cases = []
    for i in range(n):
        k = rng.randrange(8, 200)
        prog = [rng.randrange(256) for _ in range(k)]
        # mostly remove the undefined opcodes so that programs survive a little longer
        if rng.random() < 0.7:
            prog = [(0x00 if b in S.UNDEFINED else b) for b in prog]
        lines = S.rom_program_lines(rng.choice(G.ALL_TYPES), 0, rng.choice([0, 3]), prog)
        cases.append(('rnd%d' % i, ['mayexit'] + lines + ['sys.cyc %d' % cycles, 'sys.get', 'safe.oamst', 'sys.oam']))
    return cases


# ---------------------------------------------------------------- (f) DMA from every page
def dma_cases(rng, pages):
    cases = []
    for xx in pages:
        # HRAM loop: start the transfer, then walk pointers through OAM while it runs
        prog = [0x3e, xx, 0xe0, 0x46] + S.looped(rng, rng.randrange(3, 12), S.POINTER)
        lines = S.wram_program_lines(prog, at=0xff80)
        lines += ['sys.cyc %d' % rng.choice([170, 400]), 'safe.oamst', 'sys.oam', 'sys.r 0xff46', 'sys.get']
        cases.append(('dma%02x' % xx, ['mayexit'] + lines))
    return cases


# ---------------------------------------------------------------- (g) wave RAM
def wave_cases(rng, n):
    cases = []
    for i in range(n):
        lines = ['sys.new 0 0 0', 'safe.ok', 'sys.hw 1', 'sys.w 0xff26 0x80', 'sys.w 0xff1a %d' % rng.choice([0x80, 0x00]),
                 'sys.w 0xff1d %d' % rng.randrange(256), 'sys.w 0xff1e %d' % rng.choice([0x87, 0x80, 0xc7, rng.randrange(256) | 0x80])]
        for _ in range(rng.randrange(10, 60)):
            r = rng.random()
            a = 0xff30 + rng.randrange(16)
            if r < 0.4:
                lines.append('sys.r 0x%04x' % a)
            elif r < 0.7:
                lines.append('sys.w 0x%04x %d' % (a, rng.randrange(256)))
            elif r < 0.9:
                lines.append('sys.hw %d' % rng.choice([1, 1, 1, 2, 3, rng.randrange(1, 70)]))
            elif r < 0.95:
                lines.append('sys.w 0xff1e %d' % rng.choice([0x80, 0x87, 0x00, rng.randrange(256)]))
            else:
                lines.append('sys.w 0x%04x %d' % (rng.choice([0xff1a, 0xff1b, 0xff1c, 0xff1d, 0xff26]), rng.choice([0, 0x80, 0xff, rng.randrange(256)])))
        lines.append('sys.rr 0xff30 0xff3f')
        cases.append(('wave%d' % i, lines))
    return cases


# ---------------------------------------------------------------- (h) undefined opcodes
def undefined_cases(rng):
    cases = []
    for op in S.UNDEFINED:
        # in ROM at the entry point, after a few instructions
        prog = [0x00, 0x3c, op, 0x00, 0x00]
        lines = S.rom_program_lines(rng.choice(G.ALL_TYPES), 0, 0, prog) + ['sys.cyc 2', 'sys.get', 'sys.cyc 20', 'sys.get']
        cases.append(('undef%02x_rom' % op, ['mayexit'] + lines))
        lines = S.wram_program_lines([0x04, op, 0x00], at=0xc000) + ['sys.step', 'sys.get', 'sys.step', 'sys.get']
        cases.append(('undef%02x_ram' % op, ['mayexit'] + lines))
    # every defined opcode must NOT exit: one step each from RAM (operands 0)
    lines_all = []
    for op in range(256):
        if op in S.UNDEFINED or op in (0x76, 0x10):
            continue
        lines = S.wram_program_lines([op, 0x00, 0xc0, 0x00], at=0xc000, regs=dict(sp=0xdff0, h=0xd0, l=0x00)) + ['sys.step', 'sys.get']
        cases.append(('def%02x' % op, lines))     # no child process: a wrong exit kills the runner, verifkit then isolates
    return cases


# ---------------------------------------------------------------- (i) the first instruction after power-on
def first_instruction_cases(rng, full):
    """every opcode (both pages) as the instruction at 0x0100, run from power-on with the power-on registers and the
    LCD on: before the PPU's first cycle OAM.ppuLastAccess is still 0, so the first machine cycle must not reach OAM"""
    cases = []
    ops = [(op, None) for op in range(256) if op != 0xcb] + [(0xcb, cb) for cb in (range(256) if full else range(0, 256, 8))]
    for op, cb in ops:
        code = [op] + ([cb] if cb is not None else [rng.choice([0x00, 0xfe, 0xff, 0x40, rng.randrange(256)]) for _ in range(S.oplen(op) - 1)])
        code += [0x00, 0x00, 0x18, 0xfe]
        lines = ['safe.prog %d 0 0 0x0 %s 0x100 %s' % (rng.choice([0, 1, 0x13, 0x1b]), S.hexs(S.vectors()), S.hexs(code)),
                 'safe.ok', 'sys.cyc 1', 'safe.oamst', 'sys.cyc 8', 'sys.get', 'safe.oamst']
        cid = 'first%02x' % op if cb is None else 'firstcb%02x' % cb
        cases.append((cid, (['mayexit'] if op in S.UNDEFINED else []) + lines))
    return cases


def generate(rng, tier):
    t = tier == 'thorough'
    cases = []
    fam = {}

    def add(name, cs):
        fam[name] = len(cs)
        cases.extend(cs)

    add('hostile_images', hostile(rng, 400 if t else 60))
    sw = G.single_write_sweep(fresh_upto=8 if t else 1, romcodes=None if t else [0, 1, 2, 5, 8], with_ram=True)
    if not t:
        sw = sw[::3]
    add('cart_single_write', sw)
    add('cart_random', G.random_sequences(rng, 2000 if t else 150, ram_ops=True, ticks=True))
    ch = G.hostile_images(rng, 200 if t else 20)
    add('cart_hostile', ch if t else ch[::4])
    add('bus_histories', bus_histories(rng, 2500 if t else 150))
    add('edges', edge_cases(rng, 64 if t else 16))
    add('programs', program_cases(rng, 1500 if t else 110, 6000 if t else 1800))
    add('irq_programs', irq_program_cases(rng, 300 if t else 24, 6000 if t else 2500))
    add('random_bytes', random_byte_programs(rng, 600 if t else 40, 3000 if t else 1000))
    add('dma_pages', dma_cases(rng, range(256) if t else list(range(0, 256, 5)) + [0xfe, 0xff, 0xdf, 0xe0, 0xf1, 0xf2]))
    add('wave_ram', wave_cases(rng, 600 if t else 60))
    add('opcodes', undefined_cases(rng))
    add('first_instruction', first_instruction_cases(rng, t))
    cases = [(cid, bracket(ls)) for cid, ls in cases]
    cyc = 0
    for _, ls in cases:
        for l in ls:
            if l.startswith(('sys.cyc', 'sys.hw', 'safe.cycoam')):
                cyc += int(l.split()[1])
    info = dict(exhaustive=False, input_distribution=dict(families=fam, machine_cycles=cyc,
                                                          ops_total=sum(len(c[1]) for c in cases)),
                samples=[dict(case=c[0], script=c[1][:12]) for c in
                         (cases[3], cases[fam['hostile_images'] + 5], next(c for c in cases if c[0] == 'prog3'),
                          next(c for c in cases if c[0] == 'bus2'))])
    return cases, info


def nontrivial(cid, lines, impl):
    if not impl:
        return None
    return cid


def project_case(cid, lines):
    return lines


def matches_known(k, case, impl, model):
    return False


def judge(case, impl, model):
    p = post_construction_panic(impl)
    if p is not None:
        return 'the implementation panicked after construction had succeeded (%s): C11 violated' % impl[p]
    if impl and 'EXIT' in impl and not (model and 'EXIT' in model):
        return 'the implementation called os.Exit where the model (proved to stop only on undefined opcodes) keeps running'
    return ('implementation and whole-machine model disagree (crash/exit outcome or machine state); the model is the object '
            'of the C11 safety theorems, so this run no longer ties them to the code')


CONSTRUCTORS = ('safe.img', 'safe.prog', 'sys.new', 'sys.image', 'sys.cpurom', 'sys.rom', 'cart.new', 'cart.image')


def bracket(lines):
    """every constructing operation between 'safe.mark pre' and 'safe.mark post': a PANIC line is a construction
    panic exactly when the output line before it is 'mark pre'"""
    out = []
    for l in lines:
        if l.split()[0] in CONSTRUCTORS:
            out += ['safe.mark pre', l, 'safe.mark post']
        else:
            out.append(l)
    return out


def post_construction_panic(impl):
    """index of the first PANIC line that does not directly follow 'mark pre', or None"""
    for i, l in enumerate(impl or []):
        if l.startswith('PANIC') and not (i > 0 and impl[i - 1] == 'mark pre'):
            return i
    return None


def impl_only(lines, tag='c11_shrink'):
    """run one case on the implementation runner alone; returns its output lines"""
    import verifkit
    path = '%s/scripts/%s.txt' % (verifkit.BUILD, tag)
    verifkit.write_script(path, [('x', lines)])
    rc, out, err = verifkit.run_runner(verifkit.BUILD + '/impl_runner', path)
    cs, _ = verifkit.split_cases(out)
    return cs.get('x', [])


def shrink_panic(lines, budget=200):
    """greedy line removal that keeps a post-construction PANIC on the implementation"""
    keep = 0
    while keep < len(lines) and (lines[keep] == 'mayexit' or lines[keep].startswith('safe.mark') or
                                 lines[keep].split()[0] in CONSTRUCTORS or lines[keep] == 'safe.ok'):
        keep += 1
    lines = list(lines)
    n = 0
    chunk = max(1, (len(lines) - keep) // 2)
    while chunk >= 1 and n < budget:
        i = keep
        changed = False
        while i < len(lines) and n < budget:
            cand = lines[:i] + lines[i + chunk:]
            n += 1
            if post_construction_panic(impl_only(cand)) is not None:
                lines = cand
                changed = True
            else:
                i += chunk
        if chunk == 1 and not changed:
            break
        chunk = chunk // 2 if chunk > 1 else (1 if changed else 0)
    return lines


def extra(check, impl_cases, model_cases, cases):
    """implementation judged on its own: no PANIC after construction (also when the model predicts the same panic)."""
    out = []
    for cid, lines in cases:
        impl = impl_cases.get(cid)
        if impl is None or impl != model_cases.get(cid):
            continue          # differences are reported by the correspondence
        p = post_construction_panic(impl)
        if p is None:
            continue
        if len(out) < 2:
            small = shrink_panic(lines)
            si = impl_only(small)
        else:
            small, si = lines, impl[:p + 1][-8:]
        out.append(dict(case=cid, script=small, impl=si, model=(model_cases.get(cid) or [])[:p + 1][-8:],
                        verdict='PANIC after a successful construction (the regenerated model predicts it too): C11 violated by %s' % impl[p]))
    return out
