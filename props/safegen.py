"""safegen — generators shared by the C11 and C17 checks: SM83 programs built from instruction templates, with the
16-bit registers and SP steered through FE00-FEFF (the OAM-bug paths), whole-machine scripts for
harness/run/ops_sys.go + ops_safe.go and coq/extract/r_sys.ml + r_sys_safe.ml.

A program is a list of byte values.  Templates draw operands from `interesting` distributions: addresses on region
boundaries of the decoder, OAM rows, wave RAM, I/O registers, cartridge control regions."""

UNDEFINED = [0xd3, 0xdb, 0xdd, 0xe3, 0xe4, 0xeb, 0xec, 0xed, 0xf4, 0xfc, 0xfd]

EDGES = [0x0000, 0x00ff, 0x0100, 0x1fff, 0x2000, 0x2100, 0x3000, 0x3fff, 0x4000, 0x5fff, 0x6000, 0x7fff, 0x8000, 0x8001,
         0x97ff, 0x9800, 0x9bff, 0x9c00, 0x9fff, 0xa000, 0xa1ff, 0xbfff, 0xc000, 0xdfff, 0xe000, 0xfdff, 0xfe00, 0xfe01,
         0xfe07, 0xfe08, 0xfe9e, 0xfe9f, 0xfea0, 0xfeff, 0xff00, 0xff0f, 0xff10, 0xff26, 0xff2f, 0xff30, 0xff3f, 0xff40,
         0xff41, 0xff44, 0xff46, 0xff4b, 0xff4c, 0xff7f, 0xff80, 0xfffe, 0xffff]


def oam_addr(rng):
    """an address in or next to FE00-FEFF"""
    r = rng.random()
    if r < 0.55:
        return 0xfe00 + rng.randrange(0xa0)
    if r < 0.8:
        return 0xfea0 + rng.randrange(0x60)
    return rng.choice([0xfdfe, 0xfdff, 0xfe00, 0xfe01, 0xfe9f, 0xfea0, 0xfeff, 0xff00, 0xff01])


def any_addr(rng, oam_bias=0.4):
    r = rng.random()
    if r < oam_bias:
        return oam_addr(rng)
    if r < oam_bias + 0.2:
        return rng.choice(EDGES)
    if r < oam_bias + 0.3:
        return 0xff00 + rng.randrange(0x100)
    if r < oam_bias + 0.4:
        return 0xc000 + rng.randrange(0x2000)
    if r < oam_bias + 0.45:
        return 0x8000 + rng.randrange(0x2000)
    return rng.randrange(0x10000)


def lo_hi(v):
    return [v & 0xff, (v >> 8) & 0xff]


def ld_rr(rng, oam_bias=0.6, pairs=(0x01, 0x11, 0x21, 0x31)):
    return [rng.choice(pairs)] + lo_hi(any_addr(rng, oam_bias))


# ---- instruction templates (each returns a list of bytes; none transfers control) ----
def t_incdec16(rng):
    return [rng.choice([0x03, 0x13, 0x23, 0x33, 0x0b, 0x1b, 0x2b, 0x3b])]


def t_pushpop(rng):
    return [rng.choice([0xc5, 0xd5, 0xe5, 0xf5, 0xc1, 0xd1, 0xe1, 0xf1])]


def t_hl_autoinc(rng):
    return [rng.choice([0x2a, 0x3a, 0x22, 0x32])]


def t_ind_a(rng):
    return [rng.choice([0x0a, 0x1a, 0x02, 0x12])]


def t_hl_mem(rng):
    r = rng.random()
    if r < 0.3:
        return [rng.choice([0x70, 0x71, 0x72, 0x73, 0x74, 0x75, 0x77])]
    if r < 0.6:
        return [rng.choice([0x46, 0x4e, 0x56, 0x5e, 0x66, 0x6e, 0x7e])]
    if r < 0.7:
        return [0x36, rng.randrange(256)]
    if r < 0.85:
        return [rng.choice([0x34, 0x35])]
    return [0x86 + 8 * rng.randrange(8)]


def t_ld_r_n(rng):
    return [rng.choice([0x06, 0x0e, 0x16, 0x1e, 0x26, 0x2e, 0x3e]), rng.choice([rng.randrange(256), 0xfe, 0xff, 0x00, 0x9f, 0xa0])]


def t_alu(rng):
    r = rng.random()
    if r < 0.5:
        return [0x80 + rng.randrange(0x40)]          # ALU A,r / (HL)
    if r < 0.8:
        return [0xc6 + 8 * rng.randrange(8), rng.randrange(256)]
    return [rng.choice([0x07, 0x0f, 0x17, 0x1f, 0x27, 0x2f, 0x37, 0x3f, 0x04, 0x05, 0x0c, 0x0d, 0x14, 0x15, 0x1c, 0x1d, 0x24, 0x25,
                        0x2c, 0x2d, 0x3c, 0x3d])]


def t_ldh(rng):
    r = rng.random()
    n = rng.choice([rng.randrange(256), 0x40, 0x41, 0x44, 0x46, 0x0f, 0xff, 0x26, 0x1a, 0x1e, 0x30 + rng.randrange(16), 0x00,
                    0x04, 0x05, 0x07])
    if r < 0.4:
        return [0xe0, n]
    if r < 0.7:
        return [0xf0, n]
    if r < 0.85:
        return [0x0e, n, 0xe2]
    return [0x0e, n, 0xf2]


def t_abs(rng):
    a = any_addr(rng, 0.3)
    return [rng.choice([0xea, 0xfa, 0x08])] + lo_hi(a)


def t_sp_arith(rng):
    r = rng.random()
    if r < 0.3:
        return [0xe8, rng.choice([1, 2, 0xff, 0xfe, 8, 0xf8, rng.randrange(256)])]
    if r < 0.6:
        return [0xf8, rng.choice([0, 1, 0xff, 8, 0xf8, rng.randrange(256)])]
    if r < 0.8:
        return [0xf9]
    return [rng.choice([0x09, 0x19, 0x29, 0x39])]


def t_cb(rng):
    return [0xcb, rng.choice([rng.randrange(256), 0x06 + 8 * rng.randrange(32)])]


def t_lcdc(rng):
    """LD A,n ; LDH (40),A — LCD on/off and renderer configuration"""
    v = rng.choice([0x91, 0x11, 0x00, 0x80, 0x93, 0x97, 0xff, 0xb3, 0xe7, rng.randrange(256)])
    return [0x3e, v, 0xe0, 0x40]


def t_dma(rng):
    return [0x3e, rng.choice([rng.randrange(256), 0xc0, 0xfe, 0xff, 0x80, 0x00, 0xdf, 0xe0, 0xa0]), 0xe0, 0x46]


def t_wave(rng):
    """wave channel: DAC on, trigger, then wave RAM accesses"""
    out = []
    if rng.random() < 0.5:
        out += [0x3e, rng.choice([0x80, 0x00, 0xff]), 0xe0, 0x1a]
    if rng.random() < 0.5:
        out += [0x3e, rng.randrange(256), 0xe0, 0x1d]
    if rng.random() < 0.6:
        out += [0x3e, rng.choice([0x80, 0x87, 0xc7, 0x07, rng.randrange(256)]), 0xe0, 0x1e]
    for _ in range(rng.randrange(1, 4)):
        out += [rng.choice([0xe0, 0xf0]), 0x30 + rng.randrange(16)]
    return out


def t_apu(rng):
    n = rng.choice([0x10, 0x11, 0x12, 0x13, 0x14, 0x16, 0x17, 0x18, 0x19, 0x1a, 0x1b, 0x1c, 0x1d, 0x1e, 0x20, 0x21, 0x22, 0x23,
                    0x24, 0x25, 0x26])
    return [0x3e, rng.choice([rng.randrange(256), 0x80, 0xff, 0x00, 0xc0, 0x87]), 0xe0, n]


def t_ppureg(rng):
    n = rng.choice([0x41, 0x42, 0x43, 0x44, 0x45, 0x47, 0x48, 0x49, 0x4a, 0x4b])
    return [0x3e, rng.choice([rng.randrange(256), 0, 7, 166, 167, 143, 144, 255]), 0xe0, n]


def t_mbc(rng):
    a = rng.choice([0x0000, 0x2000, 0x2100, 0x3000, 0x4000, 0x6000, rng.randrange(0x8000)])
    return [0x3e, rng.choice([rng.randrange(256), 0x0a, 0x00, 0x01, 0x1f, 0x7f, 0xff, 0x08, 0x0c, 0x0f]), 0xea] + lo_hi(a)


def t_int(rng):
    r = rng.random()
    if r < 0.3:
        return [0xfb]
    if r < 0.5:
        return [0xf3]
    if r < 0.75:
        return [0x3e, rng.choice([0x1f, 0x01, 0x02, 0x04, rng.randrange(256)]), 0xe0, 0xff]
    if r < 0.9:
        return [0x3e, rng.choice([0x1f, 0x01, 0x02, 0x04, 0x00, rng.randrange(256)]), 0xe0, 0x0f]
    return [0x76]


def t_timer(rng):
    return [0x3e, rng.choice([rng.randrange(256), 0x05, 0x04, 0xff, 0xfe]), 0xe0, rng.choice([0x04, 0x05, 0x06, 0x07])]


def t_jr_fwd(rng):
    """a short forward jump over 0-2 one-byte instructions (keeps control flow inside the program)"""
    op = rng.choice([0x18, 0x20, 0x28, 0x30, 0x38])
    k = rng.randrange(3)
    return [op, k] + [rng.choice([0x00, 0x03, 0x23, 0x33, 0x3c])] * k


def t_call(rng):
    """RST to a vector (the generated images put RET at every vector)"""
    return [rng.choice([0xc7, 0xcf, 0xd7, 0xdf, 0xe7, 0xef, 0xf7, 0xff])]


def t_any_defined(rng):
    """any defined opcode that does not transfer control, with random operands"""
    ctl = {0x18, 0x20, 0x28, 0x30, 0x38, 0xc0, 0xc8, 0xd0, 0xd8, 0xc9, 0xd9, 0xc2, 0xca, 0xd2, 0xda, 0xc3, 0xe9, 0xc4, 0xcc, 0xd4,
           0xdc, 0xcd, 0xc7, 0xcf, 0xd7, 0xdf, 0xe7, 0xef, 0xf7, 0xff, 0x76, 0x10, 0xcb}
    while True:
        op = rng.randrange(256)
        if op not in ctl and op not in UNDEFINED:
            break
    n = oplen(op)
    return [op] + [rng.randrange(256) for _ in range(n - 1)]


def oplen(op):
    if op == 0xcb:
        return 2
    if op in (0x01, 0x11, 0x21, 0x31, 0x08, 0xc3, 0xc2, 0xca, 0xd2, 0xda, 0xcd, 0xc4, 0xcc, 0xd4, 0xdc, 0xea, 0xfa):
        return 3
    if op in (0x06, 0x0e, 0x16, 0x1e, 0x26, 0x2e, 0x36, 0x3e, 0x18, 0x20, 0x28, 0x30, 0x38, 0xc6, 0xce, 0xd6, 0xde, 0xe6,
              0xee, 0xf6, 0xfe, 0xe0, 0xf0, 0xe8, 0xf8, 0x10):
        return 2
    return 1


POINTER = [(t_incdec16, 6), (t_pushpop, 5), (t_hl_autoinc, 4), (t_ind_a, 3), (t_hl_mem, 3), (t_sp_arith, 2), (t_abs, 1),
           (lambda r: ld_rr(r), 3)]
GENERAL = POINTER + [(t_ld_r_n, 2), (t_alu, 2), (t_ldh, 2), (t_cb, 2), (t_lcdc, 1), (t_dma, 1), (t_wave, 1), (t_apu, 1),
                     (t_ppureg, 1), (t_mbc, 1), (t_int, 1), (t_timer, 1), (t_jr_fwd, 1), (t_call, 1), (t_any_defined, 2)]


def pick(rng, table):
    tot = sum(w for _, w in table)
    x = rng.randrange(tot)
    for f, w in table:
        if x < w:
            return f
        x -= w
    return table[-1][0]


def body(rng, n, table):
    out = []
    for _ in range(n):
        out += pick(rng, table)(rng)
    return out


def looped(rng, n_body, table, prologue=None):
    """prologue (register set-up) ; L: body ; JR L   — the body is kept below 120 bytes so that JR reaches"""
    pro = list(prologue) if prologue is not None else (ld_rr(rng, pairs=(0x31,)) + ld_rr(rng, pairs=(0x21,)) +
                                                       ld_rr(rng, pairs=(0x01,)) + ld_rr(rng, pairs=(0x11,)))
    b = body(rng, n_body, table)
    while len(b) > 120:
        b = body(rng, max(1, n_body // 2), table)
        n_body = max(1, n_body // 2)
    disp = (-(len(b) + 2)) & 0xff
    return pro + b + [0x18, disp]


def hexs(bs):
    return ''.join('%02x' % (b & 0xff) for b in bs)


# vectors 0x00-0x67: RET at the RST vectors, RETI at the interrupt vectors
def vectors():
    v = [0x00] * 0x68
    for a in range(0, 0x40, 8):
        v[a] = 0xc9
    for a in range(0x40, 0x68, 8):
        v[a] = 0xd9
    return v


def rom_program_lines(typ, romc, ramc, prog, at=0x150):
    """image with the program at `at`, entry point JP at, vectors; returns the constructing script lines"""
    entry = [0x00, 0xc3] + lo_hi(at)
    return ['safe.prog %d %d %d 0x0 %s 0x100 %s 0x%x %s' % (typ, romc, ramc, hexs(vectors()), hexs(entry), at, hexs(prog)),
            'safe.ok']


def wram_program_lines(prog, regs=None, at=0xc000, new='sys.cpurom'):
    """test ROM (ROM only, interrupt handlers at the vectors), program written to RAM at `at`, PC set there"""
    lines = [new, 'safe.ok', 'sys.hw 1', 'safe.load 0x%x %s' % (at, hexs(prog))]
    r = dict(a=1, b=0, c=0x13, d=0, e=0xd8, f=0xb0, h=1, l=0x4d, sp=0xfffe)
    if regs:
        r.update(regs)
    lines.append('sys.set %d %d %d %d %d %d %d %d %d %d' % (r['a'], r['b'], r['c'], r['d'], r['e'], r['f'], r['h'], r['l'],
                                                          r['sp'], at))
    return lines
