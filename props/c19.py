"""C19 — channel status bits and length counters behave as on a DMG."""
from props.apu_common import *

ID = 'C19'
PROP_FILE = 'Properties/C19.v'
RULE = ('channel 1 with the sweep unit running over several 128 Hz sweep clocks at frequencies where one or two steps fit '
        'and the next overflows (NR52 after every cycle, judged against the documented sweep algorithm); channel-1 triggers with every class of sweep register (period, direction, shift) at frequencies around the overflow '
        'boundary f + (f >> shift) = 2048, NR52 read right after the trigger; random schedules of length writes (NRx1), DAC on/off (NRx2/NR30), NRx4 writes with/without trigger and '
        'length enable, NR10 sweep writes, power toggles, at every frame-sequencer phase: the gaps between operations '
        'are drawn from {1..8, 2047, 2048, 2049, 4095, 4096, 4097, 16384, random} machine cycles and some cases start '
        'from a sample-clock position just before the once-per-second wrap (hook) or after a power cycle at an odd '
        'sequencer count; NR52 is read after every machine cycle (run-length encoded); the complete internal state '
        'is compared at the end of each case.  Plus directed cases: for each channel, each length value class and '
        'both sequencer halves, trigger with length enabled and run to expiry.  A case is non-trivial when NR52 takes '
        'at least two different values; distinct = distinct cases')
LEVEL_NOTE = ('Theorems C19_* hold for every state / every schedule and are closed forms in the number of elapsed clocks '
              'n : N; the Go code is tied to the model by the differential correspondence of this run, and the directed '
              'expiry cases are additionally judged against the documented 64-t / 256-t length clocks directly '
              '(props/c19.py extra).')
ASSUMPTIONS = ['bus writes carry a byte', 'NR52 is observed at machine-cycle granularity (after EndMachineCycle)']
ALLOWED_AXIOMS = []

GAPS = [1, 1, 2, 3, 4, 5, 8, 100, 2047, 2048, 2048, 2049, 4095, 4096, 4097, 6144, 8192, 16384]


def schedule(rng, nops):
    lines = []
    r = rng.random()
    if r < 0.25:
        # start shortly before the once-per-second wrap, sequencer index arbitrary
        t = 4194304 - rng.randrange(0, 6 * 8192)
        lines.append('apu.setticks %d %d' % (t, rng.randrange(512)))
    elif r < 0.45:
        lines.append(cyc(rng.choice([2048, 2048 * 3, 1000, 2048 * 2])))
        lines.append(w(NR52, 0))
        lines.append(w(NR52, 0x80))
    for _ in range(nops):
        ch = rng.randrange(1, 5)
        r = rng.random()
        if r < 0.18:
            lines.append(w(LEN_REG[ch], rng.choice([0, 1, 0x3E, 0x3F, 0xFE, 0xFF, 0x30, rng.randrange(256)])))
        elif r < 0.30:
            lines.append(w(DAC_REG[ch], dac_value(rng, rng.random() < 0.7)))
        elif r < 0.58:
            v = rng.choice([0x80, 0xC0, 0x40, 0x00, 0xC7, 0x87, 0x47]) | (rng.randrange(8) if rng.random() < 0.3 else 0)
            lines.append(w(TRIG_REG[ch], v))
        elif r < 0.64:
            lines.append(w(NR10, rng.choice([0x11, 0x19, 0x08, 0x00, 0x17, 0x71, 0x7F, 0x12, 0x21, rng.randrange(128)])))
        elif r < 0.68:
            lines.append(w(rng.choice([NR13, NR23, NR33]), rng.randrange(256)))
        elif r < 0.73:
            lines.append(w(NR52, rng.choice([0x00, 0x80, 0x80])))
        else:
            g = rng.choice(GAPS) if rng.random() < 0.9 else rng.randrange(1, 20000)
            lines.append(cyc(g))
    lines.append(cyc(rng.choice([1, 2048, 4096])))
    lines.append('apu.st')
    return lines


def directed(ch, t, phase_odd, pre_enabled):
    """trigger channel ch with length data t and length enable in the chosen half of the length period and run
    until after the expiry"""
    lines = []
    # frame sequencer index after k hits is k (from a fresh APU): 2048 cycles per hit
    lines.append(cyc(2048 * (1 if phase_odd else 2) + 7))
    lines.append(w(DAC_REG[ch], 0x80 if ch == 3 else 0xF0))
    if pre_enabled:
        lines.append(w(TRIG_REG[ch], 0x40))
    lines.append(w(LEN_REG[ch], t))
    lines.append(w(TRIG_REG[ch], 0xC0))
    total = (256 if ch == 3 else 64)
    L = total - t
    lines.append(cyc(4096 * ((total if L == 1 else L) + 2)))
    return lines


def sweep_trigger(nr10, f, dac_on, run):
    """channel 1 triggered with sweep register nr10 and frequency f; NR52 after the trigger and for run cycles"""
    return [w(NR12, 0xF0 if dac_on else 0x00), w(NR10, nr10), w(NR13, f & 0xFF), w(NR14, 0x80 | (f >> 8)),
            'apu.r 0xFF26', cyc(run), 'apu.st']


def sweep_overflows(nr10, f):
    shift, negate = nr10 & 7, nr10 & 8
    return shift != 0 and not negate and f + (f >> shift) > 2047


def sweep_run(nr10, f, run):
    """channel 1 triggered once, then the sweep unit runs for several 128 Hz sweep clocks; NR52 after every cycle"""
    return [w(NR12, 0xF0), w(NR10, nr10), w(NR13, f & 0xFF), w(NR14, 0x80 | (f >> 8)), cyc(run), 'apu.st']


def sweep_off_cycle(nr10, f, run):
    """documented sweep unit from a fresh APU (sequencer index 0 at cycle 0, a step every 2048 machine cycles, sweep
    clocked on steps 2 and 6): the machine cycle in which channel 1 is switched off, or None"""
    period, negate, shift = (nr10 >> 4) & 7, nr10 & 8, nr10 & 7

    def calc(x):
        return x - (x >> shift) if negate else x + (x >> shift)
    if shift and calc(f) > 2047:
        return 0
    if not (period or shift):
        return None
    timer = period or 8
    shadow = f
    step = 0
    cycle = 0
    while True:
        cycle += 2048
        if cycle > run:
            return None
        if step % 4 == 2:
            timer -= 1
            if timer == 0:
                timer = period or 8
                if period:
                    nf = calc(shadow)
                    if nf > 2047:
                        return cycle
                    if shift:
                        shadow = nf
                        if calc(nf) > 2047:
                            return cycle
        step = (step + 1) % 8


def generate(rng, tier):
    cases = []
    nd = 0
    # channel 1: the sweep unit left running over several sweep clocks, at frequencies where one (or two) steps fit
    # and the next would overflow (the overflow re-check with the new frequency switches the channel off at once)
    nrun = 0
    runs = [(0x11, 0x400), (0x12, 0x500), (0x23, 0x6A0), (0x11, 0x300), (0x21, 0x3FF), (0x13, 0x600), (0x32, 0x520),
            (0x1A, 0x7FF), (0x14, 0x70F)]
    if tier != 'quick':
        runs += [(p << 4 | sh, f) for p in (1, 2, 3, 7) for sh in range(1, 8) for f in (0x200, 0x3F0, 0x555, 0x6A0, 0x780)]
    # sweep period 0 with a non-zero shift: the unit is "enabled" and its timer reloads with 8, but it must never
    # recalculate: frequency and status stay put for good (observed over more than one 8-sweep-clock reload)
    runs += [(0x01, 0x400), (0x03, 0x600), (0x09, 0x400), (0x07, 0x7F0), (0x02, 0x555)]
    if tier != 'quick':
        runs += [(n << 3 | sh, f) for n in (0, 1) for sh in range(1, 8) for f in (0x100, 0x400, 0x6A0)]
    for nr10, f in runs:
        period = (nr10 >> 4) & 7
        run = 8192 * period * 4 + 7000 if period else 72000
        cases.append(('v%02X_%03X_%d' % (nr10, f, run), sweep_run(nr10, f, run)))
        nrun += 1
    # channel 1: the frequency calculation a trigger performs when the sweep shift is non-zero
    nsw = 0
    for nr10 in ([0x11, 0x13, 0x17, 0x71, 0x01, 0x19, 0x77, 0x10] if tier == 'quick' else
                 [p << 4 | n << 3 | sh for p in (0, 1, 7) for n in (0, 1) for sh in range(8)]):
        shift = nr10 & 7
        # frequencies around the overflow boundary f + (f >> shift) = 2048 and some others
        fb = next((f for f in range(2048) if shift and f + (f >> shift) > 2047), 2047)
        fs = sorted(set([fb - 1, fb, 0x7FF, 0x400, 0x100] + [rng.randrange(2048)]))
        for f in fs:
            if f < 0:
                continue
            cases.append(('w%02X_%03X' % (nr10, f), sweep_trigger(nr10, f, True, 9000 if (nr10 >> 4) <= 1 else 200)))
            nsw += 1
    cases.append(('w11_7FF_nodac', sweep_trigger(0x11, 0x7FF, False, 100)))
    for ch in (1, 2, 3, 4):
        full = 256 if ch == 3 else 64
        ts = [0, 1, full - 2, full - 1] + ([rng.randrange(full)] if tier == 'quick' else list(range(2, full - 2, 7)))
        if tier == 'quick':
            ts = [full - 1, full - 2, full - 9] + ([0] if ch == 2 else [])
        for t in ts:
            for odd in (0, 1):
                for pre in (0, 1):
                    cases.append(('d%d_%d_%d_%d' % (ch, t, odd, pre), directed(ch, t, odd, pre)))
                    nd += 1
    nr = 55 if tier == 'quick' else 1500
    for k in range(nr):
        cases.append(('r%d' % k, schedule(rng, rng.randrange(8, 40))))
    info = dict(exhaustive=False,
                input_distribution=dict(directed_expiry_cases=nd, sweep_trigger_cases=nsw, sweep_run_cases=nrun, random_schedules=nr,
                                        ops_total=sum(len(c[1]) for c in cases)),
                samples=[dict(case=cases[nrun + nsw + 1 + nd][0], script=cases[nrun + nsw + 1 + nd][1][:14] + ['...'])])
    return cases, info


def nontrivial(cid, lines, impl):
    if not impl:
        return None
    vals = set()
    for l in impl:
        if l.startswith('c '):
            for v, k in parse_rle(l.split()[1]):
                vals.add(v)
    return cid if len(vals) > 1 else None


def matches_known(k, case, impl, model):
    return False


def judge(case, impl, model):
    return ('NR52 after some machine cycle (or the final internal state) differs from the model, for which C19_* prove '
            'the documented trigger / DAC / length behaviour')


def extra(check, impl_cases, model_cases, cases):
    """directed cases against the statement: triggered with length data t and length enabled (first time enabled:
    pre=0) the status bit stays on for exactly 64-t (256-t) length clocks, counting the extra clock of the first
    half; length clocks are 4096 machine cycles apart."""
    out = []
    for cid, lines in cases:
        if cid.startswith('v') and cid.count('_') == 2:
            impl = impl_cases.get(cid)
            if not impl:
                continue
            nr10, f, run = int(cid[1:3], 16), int(cid[4:7], 16), int(cid.split('_')[2])
            off = sweep_off_cycle(nr10, f, run)
            on_cycles = 0
            for v, k in parse_rle([l for l in impl if l.startswith('c ')][-1].split()[1]):
                if int(v) & 1:
                    on_cycles += k
                else:
                    break
            want = run if off is None else max(off - 1, 0)
            if on_cycles != want:
                out.append(dict(case=cid, script=lines, impl=impl, model=model_cases.get(cid),
                                verdict='implementation violates the statement directly: channel 1 with NR10=%02X, '
                                        'f=%03X: status bit on for %d machine cycles, the documented sweep unit '
                                        'switches it off after %s' % (nr10, f, on_cycles, want)))
            continue
        if cid.startswith('w') and cid.count('_') == 1:
            impl = impl_cases.get(cid)
            if not impl:
                continue
            nr10, f = int(cid[1:3], 16), int(cid[4:], 16)
            want = 0 if sweep_overflows(nr10, f) else 1
            got = int(impl[0]) & 1
            if got != want:
                out.append(dict(case=cid, script=lines, impl=impl, model=model_cases.get(cid),
                                verdict='implementation violates the statement directly: channel 1 triggered with '
                                        'NR10=%02X and f=%03X (sweep calculation %s): NR52 bit 0 = %d, documented %d'
                                        % (nr10, f, 'overflows' if want == 0 else 'does not overflow', got, want)))
            continue
        if not cid.startswith('d'):
            continue
        impl = impl_cases.get(cid)
        if not impl or len(impl) < 2:
            continue
        ch, t, odd, pre = [int(x) for x in cid[1:].split('_')]
        full = 256 if ch == 3 else 64
        bit = 1 << (ch - 1)
        runs = parse_rle(impl[-1].split()[1])
        on_cycles = 0
        for v, k in runs:
            if int(v) & bit:
                on_cycles += k
            else:
                break
        # the trigger happens 7 cycles after a sequencer step; odd: next step does not clock length
        L = full - t
        if pre == 0 and odd:
            L -= 1                     # the extra clock of enabling length counts as one of the 64-t
            if L == 0:
                L = full - 1           # trigger reloads an emptied counter: 64 (256), minus one in the first half
        elif pre == 1 and odd and t == 0:
            L -= 1                     # trigger in the first half with a full counter: the extra clock of the trigger
        # machine cycles after which NR52 still shows the bit: the next length clock happens in the cycle 2048-7
        # (next step clocks length) or 4096-7 (first half) after the trigger, so the bit is seen one cycle less
        first = (4096 - 8) if odd else (2048 - 8)
        expect = first + 4096 * (L - 1)
        if on_cycles != expect:
            out.append(dict(case=cid, script=lines, impl=impl, model=model_cases.get(cid),
                            verdict='implementation violates the statement directly: channel %d with length data %d '
                                    'stays on %d machine cycles, documented %d (%d length clocks)'
                                    % (ch, t, on_cycles, expect, L)))
            if len(out) >= 3:
                break
    return out
