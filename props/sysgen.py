"""Helpers shared by the whole-machine properties C23-C26."""
import glob
import os

TESTDATA = '/repo/gameboy/testdata'


def enc(path):
    return path.replace(' ', '%20')


def roms(repo='/repo'):
    base = os.path.join(os.environ.get('VERIF_REPO', repo), 'gameboy', 'testdata')
    out = sorted(glob.glob(base + '/blargg/**/*.gb', recursive=True))
    out += sorted(glob.glob(base + '/mts-*/acceptance/**/*.gb', recursive=True))
    out += sorted(glob.glob(base + '/mts-*/emulator-only/mbc1/*.gb', recursive=True))
    return [p for p in out if os.path.getsize(p) > 0]


QUICK_ROMS = ['blargg/instr_timing/instr_timing.gb', 'blargg/halt_bug.gb', 'blargg/cpu_instrs/individual/01-special.gb',
              'blargg/mem_timing/individual/01-read_timing.gb', 'blargg/cpu_instrs/individual/06-ld r,r.gb',
              'blargg/dmg_sound/rom_singles/01-registers.gb', 'blargg/oam_bug/rom_singles/1-lcd_sync.gb']


def quick_roms():
    base = os.path.join(os.environ.get('VERIF_REPO', '/repo'), 'gameboy', 'testdata')
    return [os.path.join(base, r) for r in QUICK_ROMS if os.path.exists(os.path.join(base, r))]
