"""Helpers shared by the whole-machine properties C23-C26."""
import glob
import os

TESTDATA = '/repo/gameboy/testdata'


def enc(path):
    return path.replace(' ', '%20')


def roms(repo='/repo'):
    base = os.path.join(os.environ.get('VERIF_REPO', repo), 'gameboy', 'testdata')
    out = sorted(glob.glob(base + '/blargg/**/*.gb', recursive=True))
    out += sorted(glob.glob(base + '/mts-*/acceptance/**/*.gb', recursive=True))
    out += sorted(glob.glob(base + '/mts-*/emulator-only/mbc1/*.gb', recursive=True))
    return [p for p in out if os.path.getsize(p) > 0]


QUICK_ROMS = ['blargg/instr_timing/instr_timing.gb', 'blargg/halt_bug.gb', 'blargg/cpu_instrs/individual/01-special.gb',
              'blargg/mem_timing/individual/01-read_timing.gb', 'blargg/cpu_instrs/individual/06-ld r,r.gb',
              'blargg/dmg_sound/rom_singles/01-registers.gb', 'blargg/oam_bug/rom_singles/1-lcd_sync.gb']


def quick_roms():
    base = os.path.join(os.environ.get('VERIF_REPO', '/repo'), 'gameboy', 'testdata')
    return [os.path.join(base, r) for r in QUICK_ROMS if os.path.exists(os.path.join(base, r))]


def scene_lines(rng, inst, nobj=40):
    """register/VRAM/OAM writes (through the real Mapper) that build a picture with many overlapping opaque objects,
    a scrolled background and a window; LCD switched off while writing, then on with objects enabled"""
    L = ['gb.w %d 65344 0' % inst]
    for t in range(24):                                   # 24 tiles of random data
        for b in range(16):
            L.append('gb.w %d %d %d' % (inst, 0x8000 + 16 * t + b, rng.randrange(256)))
    for _ in range(200):                                  # tile maps
        L.append('gb.w %d %d %d' % (inst, rng.randrange(0x9800, 0xa000), rng.randrange(24)))
    cx, cy = rng.randrange(20, 120), rng.randrange(30, 120)
    for o in range(nobj):
        # most objects overlap one another around (cx, cy); some share the same X
        x = cx + rng.choice([0, 0, 1, 2, 3, 4, 5, 7, 8]) if rng.random() < 0.8 else rng.randrange(0, 168)
        y = cy + rng.randrange(0, 10) if rng.random() < 0.8 else rng.randrange(0, 160)
        for k, v in enumerate([y, x, rng.randrange(24), rng.choice([0, 0x10, 0x20, 0x40, 0x80, 0x90, rng.randrange(256) & 0xf0])]):
            L.append('gb.w %d %d %d' % (inst, 0xfe00 + 4 * o + k, v))
    L += ['gb.w %d 65351 %d' % (inst, rng.choice([0xe4, 0x1b, rng.randrange(256)])),
          'gb.w %d 65352 %d' % (inst, rng.choice([0xe4, 0xd2, rng.randrange(256)])),
          'gb.w %d 65353 %d' % (inst, rng.choice([0x1b, 0x6c, rng.randrange(256)])),
          'gb.w %d 65346 %d' % (inst, rng.randrange(256)), 'gb.w %d 65347 %d' % (inst, rng.randrange(256)),
          'gb.w %d 65354 %d' % (inst, rng.randrange(0, 144)), 'gb.w %d 65355 %d' % (inst, rng.randrange(0, 167)),
          'gb.w %d 65344 %d' % (inst, rng.choice([0x93, 0x93, 0xb3, 0x97, 0xf3, 0x9b]))]
    return L
