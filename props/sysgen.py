"""Helpers shared by the whole-machine properties C23-C26."""
import glob
import os

TESTDATA = '/repo/gameboy/testdata'


def enc(path):
    return path.replace(' ', '%20')


def roms(repo='/repo'):
    base = os.path.join(os.environ.get('VERIF_REPO', repo), 'gameboy', 'testdata')
    out = sorted(glob.glob(base + '/blargg/**/*.gb', recursive=True))
    out += sorted(glob.glob(base + '/mts-*/acceptance/**/*.gb', recursive=True))
    out += sorted(glob.glob(base + '/mts-*/emulator-only/mbc1/*.gb', recursive=True))
    return [p for p in out if os.path.getsize(p) > 0]


QUICK_ROMS = ['blargg/instr_timing/instr_timing.gb', 'blargg/halt_bug.gb', 'blargg/cpu_instrs/individual/01-special.gb',
              'blargg/mem_timing/individual/01-read_timing.gb', 'blargg/cpu_instrs/individual/06-ld r,r.gb',
              'blargg/dmg_sound/rom_singles/01-registers.gb', 'blargg/oam_bug/rom_singles/1-lcd_sync.gb']


def quick_roms():
    base = os.path.join(os.environ.get('VERIF_REPO', '/repo'), 'gameboy', 'testdata')
    return [os.path.join(base, r) for r in QUICK_ROMS if os.path.exists(os.path.join(base, r))]


def scene_lines(rng, inst, nobj=40):
    """register/VRAM/OAM writes (through the real Mapper) that build a picture with many overlapping opaque objects,
    a scrolled background and a window; LCD switched off while writing, then on with objects enabled"""
    L = ['gb.w %d 65344 0' % inst]
    for t in range(24):                                   # 24 tiles of random data
        for b in range(16):
            L.append('gb.w %d %d %d' % (inst, 0x8000 + 16 * t + b, rng.randrange(256)))
    for _ in range(200):                                  # tile maps
        L.append('gb.w %d %d %d' % (inst, rng.randrange(0x9800, 0xa000), rng.randrange(24)))
    cx, cy = rng.randrange(20, 120), rng.randrange(30, 120)
    for o in range(nobj):
        # most objects overlap one another around (cx, cy); some share the same X
        x = cx + rng.choice([0, 0, 1, 2, 3, 4, 5, 7, 8]) if rng.random() < 0.8 else rng.randrange(0, 168)
        y = cy + rng.randrange(0, 10) if rng.random() < 0.8 else rng.randrange(0, 160)
        for k, v in enumerate([y, x, rng.randrange(24), rng.choice([0, 0x10, 0x20, 0x40, 0x80, 0x90, rng.randrange(256) & 0xf0])]):
            L.append('gb.w %d %d %d' % (inst, 0xfe00 + 4 * o + k, v))
    L += ['gb.w %d 65351 %d' % (inst, rng.choice([0xe4, 0x1b, rng.randrange(256)])),
          'gb.w %d 65352 %d' % (inst, rng.choice([0xe4, 0xd2, rng.randrange(256)])),
          'gb.w %d 65353 %d' % (inst, rng.choice([0x1b, 0x6c, rng.randrange(256)])),
          'gb.w %d 65346 %d' % (inst, rng.randrange(256)), 'gb.w %d 65347 %d' % (inst, rng.randrange(256)),
          'gb.w %d 65354 %d' % (inst, rng.randrange(0, 144)), 'gb.w %d 65355 %d' % (inst, rng.randrange(0, 167)),
          'gb.w %d 65344 %d' % (inst, rng.choice([0x93, 0x93, 0xb3, 0x97, 0xf3, 0x9b]))]
    return L


KEYS = [65, 83, 90, 88, 265, 264, 263, 262]          # GLFW codes of the mapped keys (A S Z X Up Down Left Right)


def key_case(rng, prog, n_events=6, video=1):
    """a machine with a display window (video=1) running `prog` from C000 with nothing enabled in IE; key events
    (mapped and unmapped keys; press, release, repeat) arrive between runs of machine cycles; CPU mode, registers and
    JOYP are observed after each"""
    L = ['gb.newloop 0 0 0 0 0 %d' % video]
    for i, b in enumerate(prog):
        L.append('gb.w 0 %d %d' % (0xc000 + i, b))
    L += ['gb.set 0 1 2 3 4 5 0 6 7 57343 49152', 'gb.w 0 65535 0', 'gb.cyc 0 %d' % rng.randrange(3, 12), 'gb.obs 0']
    for _ in range(n_events):
        k = rng.choice(KEYS + KEYS + [81, 32, 0])
        a = rng.choice([1, 1, 0, 2])
        L += ['gb.key 0 %d %d' % (k, a), 'gb.cyc 0 %d' % rng.choice([1, 2, 5, 30]), 'gb.obs 0',
              'gb.w 0 65280 %d' % rng.choice([0x10, 0x20, 0x00, 0x30]), 'gb.r 0 65280']
    return L
