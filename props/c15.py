"""C15 — rendered frames equal the DMG composition of VRAM, OAM and registers."""
import verifkit

ID = 'C15'
PROP_FILE = 'Properties/C15.v'
RULE = ('random scenes per the quantifier of C15 (random tile data of several textures, both tile maps, both '
        'addressing modes, scrolls, window on/off at WX 7..166, up to 10 objects per line at any position '
        'including partly off every screen edge, flips, palettes, priorities, objects sorted by X in OAM); each scene '
        'is loaded into a real ppu.PPU + oam.OAM, a real frame of EndMachineCycle ticks is run and all 23,040 '
        'pixels of PPU.Frame() are compared with the extracted model (run_calls over frame_calls); hostile scenes '
        '(any LCDC, any WX, unsorted / more than 10 objects per line, random OAM) are compared on crash / no crash '
        'only; a scene is non-trivial when its frame shows at least three shades; distinct = distinct scenes')
LEVEL_NOTE = ('C15_pixel / C15_no_crash / C15_frame_calls are proved for all scenes (VRAM, OAM, registers universally '
              'quantified). C15_frame (the PPU timing model issues exactly frame_calls during a frame) is stated but '
              'depends on the timing model of C13 and is not proved here; the real scheduling is exercised by the '
              'correspondence, which runs real frames.')
ASSUMPTIONS = ['VRAM / OAM cells and registers are bytes; palette tables hold values < 4 (what WriteBGP/WriteOBPx store)',
               'the PPU is built with debug = false as gameboy.New does for normal runs',
               'scene constant during the frame (no CPU writes, no OAM DMA)']
ALLOWED_AXIOMS = []
KEEP_PREFIX = 0
MAX_REPORT = 2

REGS = ['lcdc', 'scx', 'scy', 'wx', 'wy', 'bgp', 'obp0', 'obp1']


# ----------------------------------------------------------------------------------------------------------
# scenes
class Scene:
    def __init__(self):
        self.vram = bytearray(0x2000)
        self.oam = bytearray(160)
        self.reg = dict(lcdc=0x91, scx=0, scy=0, wx=0, wy=0, bgp=0xfc, obp0=0xff, obp1=0xff)

    def lines(self, observe=('scn.frame',), mark=None):
        out = []
        if mark:
            out.append('scn.mark ' + mark)
        out.append('scn.vram 0 ' + self.vram[:0x1800].hex())
        out.append('scn.vram 0x1800 ' + self.vram[0x1800:].hex())
        for r in REGS:
            out.append('scn.reg %s %d' % (r, self.reg[r]))
        for i in range(40):
            o = self.oam[4 * i:4 * i + 4]
            if any(o):
                out.append('scn.obj %d %d %d %d %d' % (i, o[0], o[1], o[2], o[3]))
        out.extend(observe)
        return out


def parse_scene(lines):
    s = Scene()
    for l in lines:
        a = l.split()
        if a[0] == 'scn.vram':
            addr = int(a[1], 0)
            bs = bytes.fromhex(a[2])
            for i, b in enumerate(bs):
                s.vram[(addr + i) & 0x1fff] = b
        elif a[0] == 'scn.oam':
            for i, b in enumerate(bytes.fromhex(a[1])):
                s.oam[i % 160] = b
        elif a[0] == 'scn.obj':
            i = int(a[1], 0) % 40
            for k in range(4):
                s.oam[4 * i + k] = int(a[2 + k], 0) & 0xff
        elif a[0] == 'scn.reg':
            s.reg[a[1]] = int(a[2], 0) & 0xff
        elif a[0] == 'scn.new':
            s = Scene()
    return s


def gen_tiles(rng, s):
    for t in range(384):
        k = rng.random()
        base = 16 * t
        if k < 0.55:
            for i in range(16):
                s.vram[base + i] = rng.getrandbits(8)
        elif k < 0.70:
            pass  # colour 0 everywhere
        elif k < 0.80:
            lo, hi = rng.choice([(0xff, 0), (0, 0xff), (0xff, 0xff)])
            for r in range(8):
                s.vram[base + 2 * r] = lo
                s.vram[base + 2 * r + 1] = hi
        else:
            for i in range(16):
                s.vram[base + i] = rng.getrandbits(8) & rng.getrandbits(8)
    for a in range(0x1800, 0x2000):
        s.vram[a] = rng.getrandbits(8)


def on_lines(y_byte):
    """displayed lines an 8x8 object with OAM Y byte y_byte covers (integers, no wrap)"""
    return [y for y in range(y_byte - 16, y_byte - 8) if 0 <= y < 144]


def gen_objects(rng, s):
    cands = []
    clusters = [(rng.randrange(0, 168), rng.randrange(0, 176)) for _ in range(rng.randrange(1, 6))]
    n = rng.choice([0, 1, 3, 10, 20, 40, 40, 40])
    for _ in range(n):
        k = rng.random()
        if cands and k < 0.12:
            # same position (or same X) as an earlier object: ties are decided by OAM order
            y, x = cands[rng.randrange(len(cands))][:2]
            if rng.random() < 0.5:
                y += rng.randrange(-7, 8)
        elif k < 0.5:
            cy, cx = rng.choice(clusters)
            y, x = cy + rng.randrange(-7, 8), cx + rng.randrange(-7, 8)
        elif k < 0.7:
            y, x = rng.randrange(0, 168), rng.randrange(0, 176)
        elif k < 0.9:
            y = rng.choice([rng.randrange(1, 17), rng.randrange(144, 161), rng.randrange(0, 168)])
            x = rng.choice([rng.randrange(1, 9), rng.randrange(160, 169), rng.randrange(0, 176)])
        else:
            y, x = rng.randrange(256), rng.randrange(256)
        y, x = min(max(y, 0), 255), min(max(x, 0), 255)
        cands.append((y, x, rng.getrandbits(8), rng.getrandbits(8)))
    count = [0] * 144
    kept = []
    for o in cands:
        ls = on_lines(o[0])
        if all(count[y] < 10 for y in ls):
            for y in ls:
                count[y] += 1
            kept.append(o)
    kept.sort(key=lambda o: o[1])     # ordered by X in OAM
    slots = sorted(rng.sample(range(40), len(kept)))
    for i in range(40):
        # unused slots: never on a displayed line (Y = 0 or Y >= 160), any X / tile / attributes
        s.oam[4 * i] = rng.choice([0, 0, rng.randrange(160, 256)])
        s.oam[4 * i + 1] = rng.getrandbits(8) if rng.random() < 0.3 else 0
        s.oam[4 * i + 2] = rng.getrandbits(8) if rng.random() < 0.3 else 0
        s.oam[4 * i + 3] = rng.getrandbits(8) if rng.random() < 0.3 else 0
    for slot, o in zip(slots, kept):
        s.oam[4 * slot:4 * slot + 4] = bytes(o)


def gen_valid(rng):
    s = Scene()
    gen_tiles(rng, s)
    gen_objects(rng, s)
    win = rng.random() < 0.5
    lcdc = 0x81 | (0x02 if rng.random() < 0.85 else 0) | (0x20 if win else 0)
    lcdc |= rng.choice([0, 0x08]) | rng.choice([0, 0x10]) | rng.choice([0, 0x40])
    s.reg['lcdc'] = lcdc
    s.reg['scx'] = rng.choice([0, 7, 255, rng.getrandbits(8), rng.getrandbits(8)])
    s.reg['scy'] = rng.choice([0, 7, 255, rng.getrandbits(8), rng.getrandbits(8)])
    s.reg['wx'] = rng.choice([7, 166, rng.randrange(7, 167), rng.randrange(7, 167), rng.randrange(7, 167)])
    s.reg['wy'] = rng.choice([0, 143, rng.randrange(144), rng.randrange(144), rng.randrange(256)])
    s.reg['bgp'] = rng.choice([0xe4, 0x1b, rng.getrandbits(8), rng.getrandbits(8)])
    s.reg['obp0'] = rng.choice([0xe4, rng.getrandbits(8), rng.getrandbits(8)])
    s.reg['obp1'] = rng.choice([0x1b, rng.getrandbits(8), rng.getrandbits(8)])
    return s


def gen_hostile(rng):
    s = Scene()
    k = rng.random()
    for a in range(0x2000):
        s.vram[a] = rng.getrandbits(8) if k < 0.7 else rng.choice([0x00, 0xff, 0x7f, 0x80])
    for a in range(160):
        s.oam[a] = rng.getrandbits(8) if rng.random() < 0.8 else rng.choice([0, 255, 16, 8, 160, 168])
    if rng.random() < 0.3:
        y = rng.randrange(256)
        for i in range(40):
            s.oam[4 * i] = y          # 40 objects on the same lines
    for r in REGS:
        s.reg[r] = rng.choice([0, 255, rng.getrandbits(8), rng.getrandbits(8)])
    return s


def is_valid(s):
    """the hypotheses of C15 (decided over integers)"""
    r = s.reg
    if not (r['lcdc'] & 0x80 and r['lcdc'] & 0x01) or r['lcdc'] & 0x04:
        return False
    if r['lcdc'] & 0x20 and not 7 <= r['wx'] <= 166:
        return False
    for y in range(144):
        xs = [s.oam[4 * i + 1] for i in range(40) if s.oam[4 * i] - 16 <= y < s.oam[4 * i] - 8]
        if len(xs) > 10 or xs != sorted(xs):
            return False
    return True


# ----------------------------------------------------------------------------------------------------------
# the DMG composition, written from the statement / Pan Docs with Python integers (no fixed-width arithmetic)
def spec_frame(s):
    v, oam, r = s.vram, s.oam, s.reg
    lcdc, scx, scy, wx, wy = r['lcdc'], r['scx'], r['scy'], r['wx'], r['wy']
    bgmap = 0x1c00 if lcdc & 0x08 else 0x1800
    winmap = 0x1c00 if lcdc & 0x40 else 0x1800
    low = bool(lcdc & 0x10)
    win_on = bool(lcdc & 0x20)
    obj_on = bool(lcdc & 0x02)

    def tile_colour(base, px, py):
        lo, hi = v[base + 2 * py], v[base + 2 * py + 1]
        b = 7 - px
        return 2 * ((hi >> b) & 1) + ((lo >> b) & 1)

    def map_colour(mapbase, px, py):
        n = v[mapbase + 32 * (py // 8) + px // 8]
        base = 16 * n if low else 0x1000 + 16 * (n - 256 if n >= 128 else n)
        return tile_colour(base, px % 8, py % 8)

    def shade(pal, c):
        return (pal >> (2 * c)) & 3

    out = []
    for y in range(144):
        objs = [i for i in range(40) if oam[4 * i] - 16 <= y < oam[4 * i] - 8][:10]
        row = []
        for x in range(160):
            if win_on and x + 7 >= wx and y >= wy:
                bg = map_colour(winmap, x + 7 - wx, y - wy)
            else:
                bg = map_colour(bgmap, (x + scx) % 256, (y + scy) % 256)
            best = None
            if obj_on:
                for i in objs:
                    oy, ox, ot, oa = oam[4 * i:4 * i + 4]
                    if ox - 8 <= x < ox:
                        px, py = x - (ox - 8), y - (oy - 16)
                        if oa & 0x20:
                            px = 7 - px
                        if oa & 0x40:
                            py = 7 - py
                        c = tile_colour(16 * ot, px, py)
                        if c != 0 and (best is None or ox < best[0]):
                            best = (ox, c, oa)
            if best is not None and not (best[2] & 0x80 and bg != 0):
                row.append(shade(r['obp1'] if best[2] & 0x10 else r['obp0'], best[1]))
            else:
                row.append(shade(r['bgp'], bg))
        out.append(''.join(map(str, row)))
    return out


def first_diff(a, b):
    if a is None or b is None:
        return None
    for y, (la, lb) in enumerate(zip(a, b)):
        if la != lb:
            for x, (ca, cb) in enumerate(zip(la, lb)):
                if ca != cb:
                    return x, y
            return min(len(la), len(lb)), y
    return None


# ----------------------------------------------------------------------------------------------------------
_info = {}
_side = []     # cases of the non-fatal ties (object flags per line, ppuLastAccess per drawing cycle)


def generate(rng, tier):
    n_valid, n_host, n_side = (30, 10, 4) if tier == 'quick' else (1000, 200, 40)
    cases = []
    for k in range(n_valid):
        s = gen_valid(rng)
        assert is_valid(s)
        cases.append(('v%d' % k, s.lines()))
    for k in range(n_host):
        s = gen_hostile(rng)
        cases.append(('h%d' % k, s.lines(mark='hostile')))
    del _side[:]
    for k in range(n_side):
        s = gen_valid(rng)
        _side.append(('a%d' % k, s.lines(observe=('scn.overlaps', 'scn.access'))))
    _info.clear()
    _info.update(exhaustive=False,
                 input_distribution=dict(valid_scenes=n_valid, hostile_scenes=n_host,
                                         pixels_compared=23040 * n_valid,
                                         window_on=sum(1 for c in cases[:n_valid]
                                                       if int(c[1][2].split()[2]) & 0x20),
                                         objects_total=sum(sum(1 for l in c[1] if l.startswith('scn.obj'))
                                                           for c in cases[:n_valid])),
                 samples=[dict(case=cases[0][0], script=[l[:90] for l in cases[0][1]])])
    return cases, _info


def project(lines):
    # hostile scenes are outside the hypotheses of C15: only crash / no crash is compared
    if lines and lines[0] == 'MARK hostile':
        crash = [l for l in lines if l.startswith('PANIC') or l.startswith('EXIT')]
        return ['MARK hostile'] + (crash[:1] if crash else ['no-crash'])
    return lines


def nontrivial(cid, lines, impl):
    if impl and len(set(''.join(impl)) & set('0123')) >= 3:
        return cid
    return None


def matches_known(k, case, impl, model):
    return False


def judge(case, impl, model):
    cid, lines = case
    if impl and impl[0] == 'MARK hostile':
        return 'crash behaviour differs from the model on a hostile scene: implementation %s, model %s' % (impl[1:], model[1:] if model else model)
    if impl and impl[0].startswith('PANIC'):
        return ('the implementation panics (%s) while rendering the frame; the model, proved crash-free by C15_no_crash, '
                'renders it' % impl[0])
    d = first_diff(impl, model)
    txt = 'frame differs from the model (the model is proved equal to the DMG composition by C15_pixel)'
    if d:
        x, y = d
        s = parse_scene(lines)
        sp = spec_frame(s)[y][x] if is_valid(s) and any(l.startswith('scn.frame') for l in lines) else '-'
        txt += ('; first differing pixel x=%d y=%d: implementation shade %s, model %s, composition per the statement %s; '
                'one-pixel replay: the scene lines followed by "scn.px %d %d"' % (x, y, impl[y][x:x + 1], model[y][x:x + 1], sp, x, y))
    return txt


def extra(check, ci, cm, cases):
    """(a) implementation against the executable composition of the statement on a sample of valid scenes;
       (b) non-fatal ties of overlaps_for_line and render_pixel_last_access (not observables of C15)."""
    out = []
    k = 10 ** 9      # the evaluator costs about 20 ms per frame: every valid scene is judged
    done = 0
    for cid, lines in cases:
        if done >= k:
            break
        if not cid.startswith(('v', 'corpus')) or not lines or lines[-1] != 'scn.frame':
            continue
        s = parse_scene(lines)
        if not is_valid(s) or ci.get(cid) is None or len(ci[cid]) != 144:
            continue
        done += 1
        sp = spec_frame(s)
        d = first_diff(ci[cid], sp)
        if d:
            x, y = d
            out.append(dict(case=cid, script=lines, impl=ci[cid], model=cm.get(cid),
                            verdict='implementation frame differs from the DMG composition of the statement at '
                                    'x=%d y=%d: implementation shade %s, composition %s; one-pixel replay: the scene '
                                    'lines followed by "scn.px %d %d"' % (x, y, ci[cid][y][x], sp[y][x], x, y)))
    _info['spec_evaluator_scenes'] = done
    if _side and cm:
        try:
            si, sm, errs = verifkit.run_both(_side, 'C15_side', None)
        except OSError:
            return out
        agree = sum(1 for cid, _ in _side if si.get(cid) == sm.get(cid) and si.get(cid))
        _info['side_ties'] = dict(what='overlaps_for_line per line and OAM.ppuLastAccess after each drawing machine '
                                       'cycle (render_pixel_last_access); not observables of C15, reported only',
                                  scenes=len(_side), agree=agree)
        if agree != len(_side):
            print('NOTE property=C15 side tie (object flags / ppuLastAccess) differs on %d of %d scenes; '
                  'not an observable of C15' % (len(_side) - agree, len(_side)))
    return out
