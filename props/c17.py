"""C17 — OAM is only altered by CPU writes, DMA, or the mode-2 OAM bug."""
import os
from props import safegen as S

ID = 'C17'
PROP_FILE = 'Properties/C17.v'
EXTRA_COQ = []
RULE = ('straight-line SM83 programs that move BC/DE/HL/SP through FE00-FEFF (LD rr,nn; INC/DEC rr; PUSH/POP; LD A,(HL+-); '
        'LD (HL+-),A; LD A,(rr); LD (rr),A; INC/DEC (HL); CB ops on (HL); ADD HL,rr; ADD SP,e; LD HL,SP+e; LD SP,HL; LD (nn),SP), '
        'run from a known OAM filling on the whole machine: (off) with the LCD switched off by a bus write after k cycles of '
        'the on period for every k of the first two lines and sampled k elsewhere in the frame (every mode), and switched off by '
        'the program itself after a random number of cycles; (vblank) with the LCD on, started at the beginning of line 144 and '
        'shorter than the vertical blank; (mode30) with the LCD on, started in mode 3 / mode 0 and finished before the next '
        'line; (mode2) with the LCD on from any cycle (the corruption fires: correspondence with the model only); '
        '(dma) the same with an OAM DMA started.  OAM is observed through the hook (sys.oam) before and after, per cycle '
        '(safe.cycoam), and through Mapper.Read of FE00-FE9F with the LCD off.  Statement-level oracle, computed in '
        'props/c17.py by tracking the four pointers through the program: with the LCD off, or on and outside mode 2 for the '
        'whole run, every OAM byte that changed must have been written by the program (address in FE00-FE9F); it judges the '
        'implementation independently of the model.  Non-trivial: a case in which the program touched FE00-FEFF with a '
        'pointer (trigger, read or write); distinct = distinct case scripts')
LEVEL_NOTE = ('see design/C17.md; oam.go / ppu.go / the CPU hooks are tied to the whole-machine model by this run\'s '
              'correspondence and judged against the statement by the pointer-tracking oracle.')
ASSUMPTIONS = ['values put on the bus are bytes and addresses 16 bits wide']
ALLOWED_AXIOMS = []
KEEP_PREFIX = 3
MAX_REPORT = 2

CODE_AT = 0xc000


# ------------------------------------------------------------------------------------------------------------
# a tiny tracker for the pointer subset: executes the program symbolically for the four 16-bit pointers only
class Track:
    def __init__(self):
        self.r = dict(BC=0x0013, DE=0x00d8, HL=0x014d, SP=0xfffe)
        self.writes = set()       # addresses written (None in the set = unknown address)
        self.touched = False      # some pointer in FE00-FEFF was used
        self.cycles = 0
        self.code = []

    def emit(self, bs, cyc):
        self.code += bs
        self.cycles += cyc

    def touch(self, a):
        if a is not None and 0xfe00 <= a <= 0xfeff:
            self.touched = True

    def write(self, a):
        self.writes.add(a)
        self.touch(a)

    def get(self, p):
        return self.r[p]

    def set(self, p, v):
        self.r[p] = None if v is None else v & 0xffff


PAIRS = ['BC', 'DE', 'HL', 'SP']


def ptr_value(rng, code_at):
    r = rng.random()
    if r < 0.8:
        return S.oam_addr(rng)
    if r < 0.9:
        return 0xd000 + rng.randrange(0x0f00)
    return rng.choice([0xfdf0, 0xfe00, 0xfe9f, 0xfea0, 0xfeff, 0xfef8, 0xfe08, 0xfe10])


def fix_ptr(rng, t, p):
    """before a write through pointer p: reload it when its value is unknown (popped from memory) or has walked out of
    plain memory (I/O registers, cartridge control, the code itself)"""
    v = t.get(p)
    lo = 2 if p == 'SP' else 0
    ok = v is not None and 0x8000 <= v - lo and v < 0xff00 and not (CODE_AT <= v < CODE_AT + 0x400) and \
        not (0xe000 <= v < 0xe400)
    if not ok:
        i = PAIRS.index(p)
        nv = ptr_value(rng, CODE_AT)
        t.emit([0x01 + 16 * i, nv & 0xff, nv >> 8], 3)
        t.set(p, nv)


def gen_instr(rng, t, allow_write=True):
    """append one instruction of the pointer subset to tracker t"""
    k = rng.randrange(100)
    if k < 14:
        i = rng.randrange(4)
        v = ptr_value(rng, CODE_AT)
        t.emit([0x01 + 16 * i, v & 0xff, v >> 8], 3)
        t.set(PAIRS[i], v)
    elif k < 34:
        i = rng.randrange(4)
        dec = rng.random() < 0.5
        t.emit([(0x0b if dec else 0x03) + 16 * i], 2)
        v = t.get(PAIRS[i])
        t.touch(v)
        t.set(PAIRS[i], None if v is None else v + (-1 if dec else 1))
    elif k < 44 and allow_write:
        i = rng.randrange(4)          # PUSH BC/DE/HL/AF
        fix_ptr(rng, t, 'SP')
        t.emit([0xc5 + 16 * i], 4)
        sp = t.get('SP')
        if sp is None:
            t.write(None)
        else:
            t.touch(sp)
            t.touch((sp - 1) & 0xffff)
            t.write((sp - 1) & 0xffff)
            t.write((sp - 2) & 0xffff)
        t.set('SP', None if sp is None else sp - 2)
    elif k < 54:
        i = rng.randrange(4)          # POP BC/DE/HL/AF
        t.emit([0xc1 + 16 * i], 3)
        sp = t.get('SP')
        if sp is not None:
            t.touch(sp)
            t.touch((sp + 1) & 0xffff)
        t.set('SP', None if sp is None else sp + 2)
        if i < 3:
            t.set(PAIRS[i], None)
    elif k < 62:
        op = rng.choice([0x2a, 0x3a])          # LD A,(HL+) / (HL-)
        t.emit([op], 2)
        hl = t.get('HL')
        t.touch(hl)
        t.set('HL', None if hl is None else hl + (1 if op == 0x2a else -1))
    elif k < 70 and allow_write:
        op = rng.choice([0x22, 0x32])          # LD (HL+),A / (HL-),A
        fix_ptr(rng, t, 'HL')
        t.emit([op], 2)
        hl = t.get('HL')
        t.write(hl)
        t.set('HL', None if hl is None else hl + (1 if op == 0x22 else -1))
    elif k < 75:
        op = rng.choice([0x0a, 0x1a, 0x7e, 0x46, 0x86, 0xbe])     # reads through BC / DE / HL
        t.emit([op], 2)
        t.touch(t.get({0x0a: 'BC', 0x1a: 'DE'}.get(op, 'HL')))
        if op == 0x46:
            b = t.get('BC')
            t.set('BC', None)            # B loaded from memory
    elif k < 80 and allow_write:
        op = rng.choice([0x02, 0x12, 0x77, 0x70])     # writes through BC / DE / HL
        fix_ptr(rng, t, {0x02: 'BC', 0x12: 'DE'}.get(op, 'HL'))
        t.emit([op], 2)
        t.write(t.get({0x02: 'BC', 0x12: 'DE'}.get(op, 'HL')))
    elif k < 84 and allow_write:
        op = rng.choice([0x34, 0x35])          # INC (HL) / DEC (HL)
        fix_ptr(rng, t, 'HL')
        t.emit([op], 3)
        t.write(t.get('HL'))
    elif k < 87:
        cb = rng.choice([0x46, 0x7e, 0x06, 0x86, 0xc6, 0x36, 0x3e]) if allow_write else rng.choice([0x46, 0x7e, 0x5e])
        rd = (cb & 0xc0) == 0x40
        if not rd:
            fix_ptr(rng, t, 'HL')
        t.emit([0xcb, cb], 3 if rd else 4)
        if rd:
            t.touch(t.get('HL'))
        else:
            t.write(t.get('HL'))
    elif k < 90:
        i = rng.randrange(4)                   # ADD HL,rr
        t.emit([0x09 + 16 * i], 2)
        a, b = t.get('HL'), t.get(PAIRS[i])
        t.set('HL', None if a is None or b is None else a + b)
    elif k < 93:
        e = rng.choice([1, 2, 0xff, 0xfe, 8, 0xf8, rng.randrange(256)])
        se = e - 256 if e >= 128 else e
        sp = t.get('SP')
        if rng.random() < 0.5:
            t.emit([0xe8, e], 4)
            t.set('SP', None if sp is None else sp + se)
        else:
            t.emit([0xf8, e], 3)
            t.set('HL', None if sp is None else sp + se)
    elif k < 95:
        t.emit([0xf9], 2)
        t.set('SP', t.get('HL'))
    elif k < 97 and allow_write:
        a = ptr_value(rng, CODE_AT)
        t.emit([0x08, a & 0xff, a >> 8], 5)
        t.write(a)
        t.write((a + 1) & 0xffff)
    elif k < 98:
        a = ptr_value(rng, CODE_AT)
        t.emit([0xfa, a & 0xff, a >> 8], 4)
        t.touch(a)
    else:
        t.emit([0x3e, rng.randrange(256)], 2)


def straight(rng, n, allow_write=True, max_cycles=None, prologue=True):
    t = Track()
    if prologue:
        for i in range(4):
            v = ptr_value(rng, CODE_AT)
            t.emit([0x01 + 16 * i, v & 0xff, v >> 8], 3)
            t.set(PAIRS[i], v)
    for _ in range(n):
        if max_cycles is not None and t.cycles + 5 > max_cycles:
            break
        gen_instr(rng, t, allow_write)
    return t


def oracle_ok(t):
    """the oracle applies when every write address is known and lies in plain memory (no I/O, no cartridge control,
    not the code itself)"""
    for a in t.writes:
        if a is None:
            return False
        if a < 0x8000 or (0xff00 <= a <= 0xff7f) or a == 0xffff:
            return False
        if CODE_AT <= a < CODE_AT + 0x400 or 0xe000 <= a < 0xe400:
            return False
    return True


def fill_lines(rng):
    a, b = rng.randrange(1, 256) | 1, rng.randrange(256)
    bs = [(i * a + b) & 0xff for i in range(160)]
    return ['sys.w 0xff40 0x11', 'safe.load 0xfe00 %s' % S.hexs(bs)]


def setup(rng):
    """test ROM, IE = 0 (no dispatch), LCD off, OAM filled"""
    return ['sys.cpurom', 'safe.ok', 'sys.hw 1'] + fill_lines(rng)


def start_prog(code, regs_pc=CODE_AT):
    full = list(code) + [0x18, 0xfe]
    return ['safe.load 0x%x %s' % (regs_pc, S.hexs(full)),
            'sys.set 1 0 19 0 216 176 1 77 65534 %d' % regs_pc]


META = {}     # case id -> dict(kind, writes, touched, oracle)


def case_off(rng, cid, k, by_program=False, allow_write=True):
    """LCD on for k cycles, then off (bus write, or by the program itself after k2 NOPs), then the walker"""
    t = straight(rng, rng.randrange(10, 70), allow_write)
    lines = setup(rng) + ['sys.w 0xff40 0x91', 'sys.hw %d' % k, 'safe.lcd']
    if by_program:
        k2 = rng.randrange(0, 130)
        code = [0x00] * k2 + [0x3e, 0x11, 0xe0, 0x40] + t.code
        cyc = k2 + 5 + t.cycles
        # the NOP sled runs with the LCD on: nothing touches OAM there
        lines += start_prog(code) + ['sys.oam', 'safe.cycoam %d' % (cyc + 6)]
    else:
        poke = []
        if rng.random() < 0.5:
            # stores to the LCD registers while it is off (LY is read-only) must not bring the OAM bug back
            poke = ['sys.w 0x%04x %d' % (rng.choice([0xff44, 0xff44, 0xff41, 0xff45, 0xff43]), rng.randrange(256)) for _ in range(rng.randrange(1, 4))]
        lines += ['sys.w 0xff40 %d' % rng.choice([0x11, 0x00, 0x7f, 0x13]), 'safe.oamst'] + poke + start_prog(t.code) + \
                 ['sys.oam', 'safe.cycoam %d' % (t.cycles + 6)]
    lines += ['sys.oam', 'safe.oamst', 'safe.lcd', 'sys.rr 0xfe00 0xfe9f', 'sys.get']
    META[cid] = dict(kind='off', writes=sorted(a for a in t.writes if a is not None), oracle=oracle_ok(t), touched=t.touched)
    return (cid, ([] if oracle_ok(t) else ['mayexit']) + lines)


def case_on_window(rng, cid, start_k, budget, kind):
    """LCD on; the walker starts start_k cycles after switch-on and is shorter than `budget` cycles, so that it runs
    entirely outside mode 2"""
    t = straight(rng, 200, True, max_cycles=budget - 8)
    lines = setup(rng) + ['sys.w 0xff40 %s' % rng.choice(['0x91', '0x93', '0x93', '0x97']), 'sys.hw %d' % start_k, 'safe.lcd'] + start_prog(t.code) + \
            ['sys.oam', 'safe.cycoam %d' % (t.cycles + 2), 'sys.oam', 'safe.lcd', 'safe.oamst', 'sys.get']
    META[cid] = dict(kind=kind, writes=sorted(a for a in t.writes if a is not None), oracle=oracle_ok(t), touched=t.touched)
    return (cid, ([] if oracle_ok(t) else ['mayexit']) + lines)


def case_mode2(rng, cid, dma=False):
    """LCD on, anywhere in the frame, long enough to cross mode 2 several times: correspondence only"""
    t = straight(rng, rng.randrange(20, 120))
    k = rng.choice([0, 1, 2, 5, 19, 20, 60, 61, 62, 112, 113, 114, rng.randrange(0, 1200), rng.randrange(0, 1200), rng.randrange(0, 17556),
                    16415 + rng.randrange(-3, 1200)])
    code = list(t.code)
    if dma:
        code = [0x3e, rng.choice([0xc0, 0xc1, 0xd0, 0x80, 0x00, 0xfe, rng.randrange(256)]), 0xe0, 0x46] + code
    lines = setup(rng) + ['sys.w 0xff40 %s' % rng.choice(['0x91', '0x93', '0x93', '0x97']), 'sys.hw %d' % k, 'safe.lcd']
    if rng.random() < 0.5:
        # looped: the body again and again through many lines
        body = code[:110]
        full = body + [0x18, (-(len(body) + 2)) & 0xff]
        lines += ['safe.load 0x%x %s' % (CODE_AT, S.hexs(full)), 'sys.set 1 0 19 0 216 176 1 77 65534 %d' % CODE_AT]
        n = rng.choice([400, 1200, 3000])
    else:
        lines += start_prog(code)
        n = t.cycles + 10
    lines += ['sys.oam', 'safe.cycoam %d' % n, 'sys.oam', 'safe.oamst', 'safe.lcd', 'sys.get']
    META[cid] = dict(kind='mode2', writes=[], oracle=False, touched=t.touched)
    return (cid, ['mayexit'] + lines)


def blargg_cases():
    base = os.environ.get('VERIF_REPO', '/repo') + '/gameboy/testdata/blargg/oam_bug/rom_singles/'
    cases = []
    for name, frames in [('1-lcd_sync.gb', 40), ('2-causes.gb', 60), ('3-non_causes.gb', 80)]:
        p = base + name
        if os.path.exists(p):
            lines = ['sys.rom %s' % p, 'safe.ok']
            for _ in range(frames // 20):
                lines += ['sys.frame 20', 'sys.oam', 'sys.pix', 'sys.get']
            cid = 'blargg_' + name.split('.')[0].replace('-', '_')
            META[cid] = dict(kind='rom', writes=[], oracle=False, touched=True)
            cases.append((cid, ['mayexit'] + lines))
    return cases


def generate(rng, tier):
    t = tier == 'thorough'
    META.clear()
    cases = []
    fam = {}

    def add(name, cs):
        fam[name] = len(cs)
        cases.extend(cs)

    # LCD switched off at every cycle of the first two lines (the short first line and a regular one) ...
    ks = list(range(0, 230)) if t else list(range(0, 230, 2))
    # ... and at sampled positions of the whole frame, every mode: lines 2..153
    ks += [rng.randrange(230, 17556 * 2 if t else 17556) for _ in range(400 if t else 24)]
    ks += [16415 - 2 + i for i in range(5)] + [17554 + i for i in range(4)]
    add('off_by_bus_write', [case_off(rng, 'off%d_%d' % (i, k), k, False, rng.random() < 0.75) for i, k in enumerate(ks)])
    add('off_by_program', [case_off(rng, 'offp%d' % i, rng.choice([0, 1, 3, 17, 40, 100, rng.randrange(0, 17556)]), True)
                           for i in range(300 if t else 40)])
    # LCD on, vertical blank: line 144 starts 16415 cycles after switch-on (the first line is two cycles short)
    add('on_vblank', [case_on_window(rng, 'vbl%d' % i, 16415 + rng.choice([0, 0, 1, 2, 10, rng.randrange(0, 600)]),
                                     rng.choice([300, 500]), 'vblank') for i in range(300 if t else 14)])
    # LCD on, mode 3 / mode 0 of a regular line: mode 2 occupies line cycles 0-19; line n starts at cycle 114 n - 2
    m30 = []
    for i in range(400 if t else 50):
        line = rng.randrange(1, 143) if (t or i % 8 == 0) else rng.randrange(1, 12)
        off = rng.randrange(21, 80)
        m30.append(case_on_window(rng, 'm30_%d' % i, 114 * line - 2 + off, 113 - off, 'mode30'))
    add('on_mode3_mode0', m30)
    add('on_mode2', [case_mode2(rng, 'm2_%d' % i) for i in range(600 if t else 60)])
    add('on_dma', [case_mode2(rng, 'dma%d' % i, dma=True) for i in range(200 if t else 20)])
    if t:
        add('blargg_oam_bug', blargg_cases())
    cyc = 0
    for _, ls in cases:
        for l in ls:
            if l.startswith(('sys.cyc', 'sys.hw', 'safe.cycoam')):
                cyc += int(l.split()[1])
    info = dict(exhaustive=False,
                input_distribution=dict(families=fam, machine_cycles=cyc, oracle_cases=sum(1 for m in META.values() if m['oracle']),
                                        pointer_touching_cases=sum(1 for m in META.values() if m['touched'])),
                samples=[dict(case=c[0], script=c[1]) for c in (cases[7], cases[fam['off_by_bus_write'] + 2],
                                                               cases[fam['off_by_bus_write'] + fam['off_by_program'] + 1])])
    return cases, info


def nontrivial(cid, lines, impl):
    m = META.get(cid)
    if m and m['touched'] and impl:
        return cid
    return None


def matches_known(k, case, impl, model):
    return False


def parse(lines, out):
    """pair the observing operations of the script with their output lines"""
    obs = ('safe.ok', 'safe.lcd', 'safe.oamst', 'sys.oam', 'safe.cycoam', 'sys.rr', 'sys.get', 'sys.r', 'sys.pix', 'safe.mark')
    res = []
    it = iter(out)
    for l in lines:
        if l.split()[0] in obs:
            try:
                res.append((l, next(it)))
            except StopIteration:
                res.append((l, None))
    return res


def spec_check(cid, lines, out):
    """statement-level judgement of one output (implementation or model)"""
    if out is None:
        return None
    for l in out:
        if l.startswith('PANIC'):
            return 'the run ended in %s' % l
    m = META.get(cid)
    if not m or not m['oracle']:
        return None
    pairs = parse(lines, out)
    dumps = [o for (l, o) in pairs if l == 'sys.oam']
    lcds = [o for (l, o) in pairs if l == 'safe.lcd']
    if len(dumps) < 2 or dumps[0] is None or dumps[1] is None:
        return 'output ended early'
    before, after = dumps[0], dumps[1]
    if m['kind'] == 'off':
        if not lcds or lcds[-1] is None or 'on=0' not in lcds[-1]:
            return 'the LCD is not off at the end of an LCD-off case (%s)' % (lcds[-1] if lcds else None)
        rr = [o for (l, o) in pairs if l.startswith('sys.rr')]
        if rr and rr[0] is not None and rr[0] != after:
            return 'Mapper.Read of FE00-FE9F with the LCD off differs from the OAM contents'
    else:
        # the window must really lie outside mode 2: mode before and after as observed
        for o in lcds:
            if o is None or 'on=1' not in o or 'mode=2' in o:
                return None
    wr = set(a - 0xfe00 for a in m['writes'] if 0xfe00 <= a <= 0xfe9f)
    changed = [i for i in range(160) if before[2 * i:2 * i + 2] != after[2 * i:2 * i + 2]]
    bad = [i for i in changed if i not in wr]
    if bad:
        return ('OAM byte(s) %s changed (%s -> %s at FE%02X) although the program wrote only %s, no DMA ran and the LCD was %s'
                % (bad[:8], before[2 * bad[0]:2 * bad[0] + 2], after[2 * bad[0]:2 * bad[0] + 2], bad[0],
                   sorted(wr)[:12], 'off' if m['kind'] == 'off' else 'on outside mode 2'))
    return None


def judge(case, impl, model):
    dev = spec_check(case[0], case[1], impl) if sum(1 for l in case[1] if l == 'sys.oam') >= 2 else None
    if dev:
        return 'implementation violates the statement: ' + dev
    return ('implementation differs from the whole-machine model (the object of C17_corrupt_iff / C17_oam_change) in OAM '
            'contents or corruption bookkeeping')


def extra(check, impl_cases, model_cases, cases):
    out = []
    for cid, lines in cases:
        impl = impl_cases.get(cid)
        if not impl:
            continue
        dev = spec_check(cid, lines, impl)
        if dev:
            both = impl == model_cases.get(cid)
            out.append(dict(case=cid, script=lines, impl=impl[:8], model=(model_cases.get(cid) or [])[:8],
                            verdict=('implementation AND model deviate from the statement: ' if both else
                                     'implementation violates the statement (pointer-tracking oracle, unshrunk case): ') + dev))
    return out
