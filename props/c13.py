"""C13 — LCD line and mode timing follow the frame schedule."""
from props import lcdlib as L

ID = 'C13'
PROP_FILE = 'Properties/C13.v'
# extraction needs every model file of frag_ppu.txt compiled, also those outside this property's closure
EXTRA_COQ = ['model/Oam.v', 'model/PpuTiming.v']
RULE = ('every machine cycle of >= 3 frames from power-on and under random LCD on/off schedules that switch at '
        'arbitrary cycles (segment lengths 0-3, 1-130, 1-20000 cycles), with writes to STAT/LYC/LY/SCX and reads '
        'of LY/STAT in between; plus the LCD switched off and on again at every one of the 114 positions of a '
        'line on three lines; LY and STAT&3 are observed after every cycle (run-length encoded); a case is '
        'non-trivial when it shows at least 3 different (LY, mode) pairs; distinct = distinct case scripts')
LEVEL_NOTE = ('Theorems C13_on/C13_off_immediate/C13_off_stays/C13_on_restarts hold for every k : N and every '
              'history; ppu.go is tied to the model by the cycle-by-cycle correspondence of this run and, '
              'independently, compared with the closed form (reference counter) in props/lcdlib.py.')
ASSUMPTIONS = ['register writes carry bytes (Mapper.Write passes a uint8)',
               'LY is observed at machine-cycle boundaries (a CPU write to LY zeroes the visible LY until the '
               'cycle ends; the CPU cannot read it before that)']
ALLOWED_AXIOMS = []
KEEP_PREFIX = 0
MAX_REPORT = 3


def seg_len(rng):
    r = rng.random()
    if r < 0.25:
        return rng.randrange(0, 4)
    if r < 0.7:
        return rng.randrange(1, 131)
    return rng.randrange(1, 20001)


def random_schedule(rng, total, st=False):
    lines, done = [], 0
    while done < total:
        n = seg_len(rng)
        if n:
            lines.append('ppu.tick %d' % n)
            done += n
        r = rng.random()
        if r < 0.45:
            v = rng.choice([0x80, 0x00]) | rng.randrange(128)
            if st:
                v &= ~0x02
            lines.append('ppu.w 0x40 %d' % v)
        elif r < 0.55:
            lines.append('ppu.w 0x41 %d' % rng.randrange(256))
        elif r < 0.65:
            lines.append('ppu.w 0x45 %d' % rng.choice([0, 1, 143, 144, 153, 154, rng.randrange(256)]))
        elif r < 0.72:
            lines.append('ppu.w 0x44 %d' % rng.randrange(256))
            if rng.random() < 0.5:
                lines.append('ppu.tick 1')
                done += 1
        elif r < 0.78:
            lines.append('ppu.w 0x43 %d' % rng.randrange(256))
        lines.append('ppu.r 0x44')
        lines.append('ppu.r 0x41')
        if st:
            lines.append('ppu.st')
    return lines


def generate(rng, tier):
    cases = []
    frames = 3 if tier == 'quick' else 40
    cases.append(('poweron', ['ppu.st', 'ppu.tick %d' % (frames * L.FRAME + 500), 'ppu.st']))
    nrand = 40 if tier == 'quick' else 400
    for i in range(nrand):
        cases.append(('sched%d' % i, random_schedule(rng, 3 * L.FRAME, st=(i % 4 == 0))))
    # off/on at every position of a line, on the first line, a middle line and a vblank line
    n = 0
    for base in (0, 70 * L.LINE - 2, 150 * L.LINE - 2):
        for d in range(L.LINE):
            off_for = rng.randrange(0, 5)
            lines = ['ppu.tick %d' % (base + d), 'ppu.w 0x40 0x11', 'ppu.r 0x44', 'ppu.r 0x41',
                     'ppu.tick %d' % off_for, 'ppu.r 0x44', 'ppu.w 0x40 0x91', 'ppu.r 0x44', 'ppu.r 0x41',
                     'ppu.tick 300', 'ppu.st']
            cases.append(('offon%d' % n, lines))
            n += 1
    # whole machine with objects enabled and objects on many lines: the line/mode schedule must not depend on OAM
    for j in range(3 if tier == 'quick' else 20):
        lines = ['sys.cpurom', 'sys.w 65344 0']
        for o in range(40):
            y = rng.choice([0, 16, 17, 40, 80, 100, 150, 159, rng.randrange(256)])
            lines += ['sys.w %d %d' % (0xfe00 + 4 * o, y), 'sys.w %d %d' % (0xfe01 + 4 * o, rng.randrange(0, 168)),
                      'sys.w %d %d' % (0xfe02 + 4 * o, rng.randrange(256)), 'sys.w %d %d' % (0xfe03 + 4 * o, rng.choice([0, 0x80, 0x20, 0x10]))]
        for _ in range(40):
            lines.append('sys.w %d %d' % (rng.randrange(0x8000, 0x9fff), rng.randrange(256)))
        lines += ['sys.w 65344 %d' % rng.choice([0x93, 0x83, 0xb3, 0x97]), 'sys.lcdtrace %d' % (L.FRAME * 2 + 300)]
        cases.append(('objs%d' % j, lines))
    # the LCD keeps its schedule whatever the CPU does: STOP, HALT (through the real frame loop)
    for j, prog in enumerate([[0x10, 0x00, 0x18, 0xfe], [0x76, 0x18, 0xfd], [0xf3, 0x76, 0x18, 0xfd]]):
        lines = ['gb.newloop 0 0 0 0']
        prog = [0x00] * rng.randrange(3, 60) + prog        # some NOPs first: the instruction must take effect in mid-frame
        for i, b in enumerate(prog):
            lines.append('gb.w 0 %d %d' % (0xc000 + i, b))
        # the instruction executes inside the first frame, so a component that stops with the CPU falls behind by all but a
        # few cycles of that frame (a whole frame would bring LY and the mode back to where they were)
        lines += ['gb.cyc 0 %d' % rng.randrange(0, 5000), 'gb.set 0 1 2 3 4 5 0 6 7 57343 49152', 'gb.frames 0 1', 'gb.obs 0']
        for _ in range(8):
            lines += ['gb.cyc 0 %d' % rng.choice([1, 19, 20, 43, 114, 1000, 5000]), 'gb.obs 0']
        lines += ['gb.frames 0 1', 'gb.obs 0']
        cases.append(('cpu%d' % j, lines))
    info = dict(exhaustive=False,
                input_distribution=dict(power_on_frames=frames, random_schedules=nrand, off_on_positions=n,
                                        cycles_total=sum(int(l.split()[1]) for c in cases for l in c[1]
                                                         if l.startswith('ppu.tick')),
                                        lcdc_writes=sum(1 for c in cases for l in c[1] if l.startswith('ppu.w 0x40'))),
                samples=[dict(case=cases[1][0], script=cases[1][1][:14] + ['...'])])
    return cases, info


def project(lines):
    """C13 constrains LY and STAT bits 1-0 only: drop IF bits and the coincidence bit from tick lines and the
    upper bits of STAT reads stay (they are C06's, identical on both sides anyway)."""
    out = []
    for l in lines:
        if l.startswith('T'):
            out.append(L.rle('T', ['%d,%d' % (ly, st & 3) for (ly, st, _) in L.expand(l)]))
        else:
            out.append(l)
    return out


def nontrivial(cid, lines, impl):
    if not impl:
        return None
    seen = set()
    for l in impl:
        if l.startswith('T'):
            seen.update(tok.split('*')[0] for tok in l.split()[1:])
    return cid if len(seen) >= 3 else None


def matches_known(k, case, impl, model):
    return False


def spec_check(lines):
    """implementation output against the closed form; returns None or a description of the first deviation"""
    cyc = 0
    for item in L.walk(lines):
        if item[0] == 'T':
            _, states, obs, idx = item
            for (on, k, _, _), o in zip(states, obs):
                cyc += 1
                want = (L.spec_ly(k), L.spec_mode(k)) if on else (0, 0)
                got = (o[0], o[1] & 3)
                if got != want:
                    return ('cycle %d of the case (LCD %s, k=%d): LY,mode = %s, the schedule says %s'
                            % (cyc, 'on' if on else 'off', k, got, want))
    return None


def judge(case, impl, model):
    if any(l.startswith('PANIC') for l in (impl or [])) and not any(l.startswith('PANIC') for l in (model or [])):
        return 'implementation panics (%s) where the model, proved never to crash on any history, does not' % \
            [l for l in impl if l.startswith('PANIC')][0]
    dev = spec_check(impl or [])
    if dev:
        return 'implementation deviates from the frame schedule of the statement (LcdSpec closed form): ' + dev
    return ('implementation differs from the model (proved to follow the schedule by C13_on) on LY / STAT mode '
            'or on a register read-back')


def extra(check, impl_cases, model_cases, cases):
    """implementation against the executable reference counter, independently of the model"""
    out = []
    for cid, lines in cases:
        impl = impl_cases.get(cid)
        if not impl:
            continue
        dev = spec_check(impl)
        if dev and impl_cases.get(cid) == model_cases.get(cid):
            out.append(dict(case=cid, script=lines, impl=impl[:5], model=(model_cases.get(cid) or [])[:5],
                            verdict='implementation AND model deviate from the reference counter: ' + dev))
    return out
