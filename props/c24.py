"""C24 — emulation is deterministic."""
import verifkit
from props import sysgen

ID = 'C24'
PROP_FILE = 'Properties/C24.v'
RULE = ('each ROM (test ROMs of testdata; synthetic looping images for MBC3 with the clock) is run through the real '
        'gameboy.New/runFrame for N frames with a seeded button schedule, twice in one process (two instances, one after '
        'the other) and once more in a fresh process; registers, component counters, frame digest, serial bytes, cartridge '
        'RAM digest and a RAM dump digest are compared between the three runs and with the model function; non-trivial = '
        'the frame digest changed during the run; distinct = distinct ROM x schedule')
LEVEL_NOTE = ('The model is a Coq function (C24_functional); the tie - implementation trace = that function, in-process twice '
              'and in a second process - is what this check establishes. PARTIAL: Go runtime behaviours the model cannot '
              'exhibit (scheduling of the PortAudio callback goroutine against the blocking sample channels, map iteration '
              'order inside instruction_metadata.go init, wall-clock pacing) are covered only as far as these runs exercise '
              'them (audio attached runs use the stub stream goroutine).')
ASSUMPTIONS = ['pure-Go stand-ins for GLFW/GL/PortAudio (harness/stubs)']
ALLOWED_AXIOMS = []
MAX_REPORT = 3
KEEP_PREFIX = 1


def run_lines(inst, rng_sched, frames):
    lines = []
    f = 0
    for (at, btn, pressed) in rng_sched:
        if at > f:
            lines.append('gb.frames %d %d' % (inst, at - f))
            f = at
        lines.append('gb.btn %d %d %d' % (inst, btn, pressed))
    if frames > f:
        lines.append('gb.frames %d %d' % (inst, frames - f))
    lines += ['gb.obs %d' % inst, 'gb.pix %d' % inst, 'gb.audio %d' % inst, 'gb.audiobits %d' % inst, 'gb.serial %d' % inst, 'gb.dump %d' % inst,
              'gb.rr %d 49152 49407' % inst, 'gb.rr %d 65408 65535' % inst, 'gb.rr %d 65328 65343' % inst]
    return lines


def generate(rng, tier):
    cases = []
    rl = sysgen.quick_roms()[:4] if tier == 'quick' else sysgen.roms()[::2]
    frames = 12 if tier == 'quick' else 40
    for i, r in enumerate(rl):
        sched = sorted((rng.randrange(frames), rng.randrange(8), rng.randrange(2)) for _ in range(6))
        aud = i % 2          # every second ROM runs with the audio output attached (slow stub consumer)
        lines = ['gb.new 0 %s 1 %d' % (sysgen.enc(r), aud)] + run_lines(0, sched, frames)
        lines += ['gb.new 1 %s 1 %d' % (sysgen.enc(r), aud)] + run_lines(1, sched, frames)
        cases.append(('rom%d' % i, lines))
    for i, (typ, ramc) in enumerate([(0x10, 3), (0x13, 3), (0x03, 2), (0x1b, 3)]):
        sched = sorted((rng.randrange(frames), rng.randrange(8), rng.randrange(2)) for _ in range(4))
        lines = ['gb.newloop 0 %d 1 %d' % (typ, ramc)] + run_lines(0, sched, frames)
        lines += ['gb.newloop 1 %d 1 %d' % (typ, ramc)] + run_lines(1, sched, frames)
        cases.append(('loop%d' % i, lines))
    # pictures with many overlapping opaque objects: the frame must not depend on anything but the machine state
    nscene = 3 if tier == 'quick' else 30
    for i in range(nscene):
        import random as _r
        seed = rng.randrange(1 << 30)
        lines = []
        for inst in (0, 1):
            lines += ['gb.newloop %d 0 0 0' % inst] + sysgen.scene_lines(_r.Random(seed), inst)
            lines += ['gb.frames %d 2' % inst, 'gb.pix %d' % inst, 'gb.frames %d 1' % inst, 'gb.pix %d' % inst,
                      'gb.obs %d' % inst, 'gb.rr %d 65024 65183' % inst]
        cases.append(('scene%d' % i, lines))
    # sound programmed through the bus with the audio output attached: the delivered sample stream is part of the trace
    nsound = 2 if tier == 'quick' else 12
    for i in range(nsound):
        import random as _r
        seed = rng.randrange(1 << 30)
        lines = []
        for inst in (0, 1):
            r2 = _r.Random(seed)
            lines += ['gb.newloop %d 0 0 0 1 0' % inst, 'gb.w %d 65318 128' % inst, 'gb.w %d 65316 %d' % (inst, r2.randrange(256)),
                      'gb.w %d 65317 %d' % (inst, r2.choice([0xff, 0xf0, 0x0f, r2.randrange(256)]))]
            for a in (0xff12, 0xff17, 0xff21):
                lines.append('gb.w %d %d %d' % (inst, a, r2.choice([0xf3, 0xa7, 0x80 | r2.randrange(128)])))
            lines += ['gb.w %d 65306 128' % inst, 'gb.w %d 65308 32' % inst]
            for a in (0xff10, 0xff11, 0xff13, 0xff16, 0xff18, 0xff1d, 0xff22):
                lines.append('gb.w %d %d %d' % (inst, a, r2.randrange(256)))
            for k in range(16):
                lines.append('gb.w %d %d %d' % (inst, 0xff30 + k, r2.randrange(256)))
            for a in (0xff14, 0xff19, 0xff1e, 0xff23):
                lines.append('gb.w %d %d %d' % (inst, a, 0x80 | r2.randrange(8)))
            for _ in range(4):
                lines += ['gb.frames %d %d' % (inst, r2.randrange(1, 4)), 'gb.audio %d' % inst, 'gb.audiobits %d' % inst,
                          'gb.w %d %d %d' % (inst, r2.choice([0xff14, 0xff19, 0xff1e, 0xff23, 0xff25, 0xff24]), r2.randrange(256))]
            lines += ['gb.obs %d' % inst]
        cases.append(('sound%d' % i, lines))
    # key events on one button in quick succession (frames take well under a millisecond of host time): every one counts
    for i in range(3 if tier == 'quick' else 20):
        import random as _r
        seed = rng.randrange(1 << 30)
        lines = []
        for inst in (0, 1):
            r2 = _r.Random(seed)
            lines += ['gb.newloop %d 0 0 0' % inst]
            for _ in range(14):
                b = r2.choice([0, 1, 4, 6])
                lines += ['gb.btn %d %d %d' % (inst, b, r2.randrange(2)), 'gb.frames %d %d' % (inst, r2.choice([0, 0, 1, 1, 2])),
                          'gb.w %d 65280 %d' % (inst, r2.choice([0x10, 0x20])), 'gb.r %d 65280' % inst]
            lines += ['gb.obs %d' % inst]
        cases.append(('chatter%d' % i, lines))
    # several enabled interrupts requested at once: the order of service is part of the trace (IF after each dispatch)
    for i in range(6 if tier == 'quick' else 40):
        import random as _r
        seed = rng.randrange(1 << 30)
        lines = []
        for inst in (0, 1):
            r2 = _r.Random(seed)
            lines += ['gb.newloop %d 0 0 0' % inst]
            for j, b in enumerate([0xfb, 0x00, 0x18, 0xfd]):          # EI; NOP; JR -3
                lines.append('gb.w %d %d %d' % (inst, 0xc000 + j, b))
            lines += ['gb.set %d 1 2 3 4 5 0 6 7 57343 49152' % inst, 'gb.w %d 65535 31' % inst]
            for _ in range(6):
                m = r2.choice([0x1f, 0x1e, 0x0c, 0x05, 0x12, 0x18, r2.randrange(3, 32)])
                lines += ['gb.w %d 65295 %d' % (inst, m), 'gb.set %d 1 2 3 4 5 0 6 7 57343 49152' % inst, 'gb.cyc %d 9' % inst, 'gb.obs %d' % inst,
                          'gb.rr %d 57336 57343' % inst]
        cases.append(('prio%d' % i, lines))
    # successive machines of one process loaded from the same path with different contents
    for i in range(2 if tier == 'quick' else 10):
        kinds = rng.sample([(0, 0, 0), (19, 0, 3), (3, 0, 2), (27, 1, 3), (6, 0, 0), (16, 1, 3)], 3)
        lines = []
        for inst, (typ, romc, ramc) in enumerate(kinds):
            lines += ['gb.newsame %d %d %d %d' % (inst, typ, romc, ramc), 'gb.w %d 0 10' % inst, 'gb.w %d 40960 %d' % (inst, 17 * inst + 1),
                      'gb.frames %d 1' % inst, 'gb.obs %d' % inst, 'gb.dump %d' % inst, 'gb.r %d 40960' % inst, 'gb.rr %d 65328 65343' % inst]
        cases.append(('reuse_path%d' % i, lines))
    # a machine that was shut down (Run returned, outputs released) leaves nothing behind for the next one
    for i in range(2 if tier == 'quick' else 8):
        import random as _r
        lines = ['gb.newloop 0 0 0 0 0 1'] + sysgen.scene_lines(_r.Random(rng.randrange(1 << 30)), 0)
        lines += ['gb.runclose 0 %d' % rng.randrange(1, 4), 'gb.pix 0', 'gb.obs 0', 'gb.newloop 1 0 0 0 0 %d' % (i % 2), 'gb.w 1 65344 0', 'gb.frames 1 1',
                  'gb.pix 1', 'gb.obs 1', 'gb.newloop 2 0 0 0 0 1', 'gb.frames 2 1', 'gb.pix 2']
        cases.append(('reuse%d' % i, lines))
    info = dict(input_distribution=dict(roms=len(rl), frames=frames, object_scenes=nscene, sound_cases=nsound),
                samples=[dict(case=cases[0][0], script=cases[0][1])])
    generate.cases = cases
    return cases, info


def project_case(cid, lines):
    """the exact float32 bits of the samples exist only in the implementation: hidden from the comparison with the model
    (which compares round(6400*sample)); extra() compares them between runs of the implementation"""
    return [('audiobits *' if l.startswith('audiobits ') and l != 'audiobits none' else l) for l in lines]


def nontrivial(cid, lines, impl):
    if impl and len(impl) >= 8:
        return cid
    return None


def matches_known(k, case, impl, model):
    return False


def judge(case, impl, model):
    return 'observable trace of a run differs from the model function (or between two runs of the same ROM)'


def extra(check, ci, cm, cases):
    viol = []
    # two fresh processes, raw output (incl. the float32 bit digests of the audio stream)
    path = verifkit.BUILD + '/scripts/C24.txt'
    rc, out, err = verifkit.run_runner(verifkit.BUILD + '/impl_runner', path)
    raw1, _ = verifkit.split_cases(out)
    rc, out, err = verifkit.run_runner(verifkit.BUILD + '/impl_runner', path)
    raw2, _ = verifkit.split_cases(out)
    # in-process: the two instances of every case must agree line by line
    for cid, lines in cases:
        if cid.startswith('reuse'):   # also 'reuse_path'
            continue                      # not a pair of identical runs
        o = raw1.get(cid) or []
        h = len(o) // 2
        if o[:h] != o[h:]:
            viol.append(dict(case=cid, script=lines, impl=o[:h], model=o[h:],
                             verdict='two runs of the same ROM and schedule in one process differ'))
    for cid, lines in cases:
        if project_case(cid, raw1.get(cid) or []) != (ci.get(cid) or []):
            viol.append(dict(case=cid, script=lines, impl=ci.get(cid), model=raw1.get(cid),
                             verdict='a run in a second process differs from the run in the first process'))
        elif raw1.get(cid) != raw2.get(cid):
            viol.append(dict(case=cid, script=lines, impl=raw1.get(cid), model=raw2.get(cid),
                             verdict='runs in two fresh processes differ (exact sample bits included)'))
    return viol[:5]
