"""C23 — serial output delivers each written byte once, in order."""
from props import sysgen

ID = 'C23'
PROP_FILE = 'Properties/C23.v'
RULE = ('(1) random bus histories over the whole address space with a share of writes to FF01/FF02, with and without a serial '
        'writer; (2) random SM83 programs writing random bytes to SB/SC (LDH (n),A / LD (nn),A / LD (C),A) among other I/O, '
        'run on the whole machine; (3) test ROMs whose serial transcript is compared byte for byte. non-trivial = at least '
        'one byte delivered; distinct = distinct case ids')
LEVEL_NOTE = ('C23_transcript quantifies over every bus history from every machine state (model System.v, decoder regenerated '
              'from mapper.go: C23_decoder is re-checked on every run); the Go mapper+serial+CPU are tied to the model by this run.')
ASSUMPTIONS = ['the configured writer does not return an error (WriteSB panics if it does; the harness uses bytes.Buffer)']
ALLOWED_AXIOMS = []
MAX_REPORT = 5
KEEP_PREFIX = 1


def bus_case(rng, ser):
    lines = ['sys.cpurom %d' % ser]
    for _ in range(rng.randrange(20, 200)):
        r = rng.random()
        if r < 0.25:
            lines.append('sys.w 65281 %d' % rng.randrange(256))
        elif r < 0.35:
            lines.append('sys.w 65282 %d' % rng.randrange(256))
        elif r < 0.45:
            lines.append('sys.r %d' % rng.choice([65281, 65282]))
        elif r < 0.8:
            a = rng.choice([rng.randrange(0xc000, 0xe000), rng.randrange(0xff80, 0xffff), 0xff06, 0xff42, 0xff43, 0xff00, 0xff03])
            lines.append('sys.w %d %d' % (a, rng.randrange(256)))
        else:
            lines.append('sys.hw %d' % rng.randrange(1, 50))
    lines.append('sys.serial')
    return lines


def prog_case(rng, ser):
    code = []
    for _ in range(rng.randrange(5, 60)):
        k = rng.randrange(8)
        v = rng.randrange(256)
        if k == 0:
            code += [0x3e, v, 0xe0, 0x01]
        elif k == 1:
            code += [0x3e, v, 0xea, 0x01, 0xff]
        elif k == 2:
            code += [0x0e, 0x01, 0x3e, v, 0xe2]
        elif k == 3:
            code += [0x3e, v, 0xe0, 0x02]
        elif k == 4:
            code += [0x3e, v, 0xe0, rng.choice([0x80, 0x90, 0x42, 0x43, 0x06, 0x00, 0x03])]
        elif k == 5:
            code += [0x3e, v, 0xea, rng.randrange(256), rng.choice([0xc1, 0xd0, 0xff])]
        elif k == 6:
            code += [0xf0, 0x01, 0x47]        # LDH A,(01) ; LD B,A
        else:
            code += [0x04]
    code += [0x18, 0xfe]
    lines = ['sys.cpurom %d' % ser, 'sys.set 0 0 0 0 0 0 208 16 57328 49152']
    for i, b in enumerate(code):
        lines.append('sys.w %d %d' % (0xc000 + i, b))
    lines.append('sys.cyc %d' % (len(code) * 3 + 20))
    lines += ['sys.serial', 'sys.get']
    return lines


def generate(rng, tier):
    cases = []
    nb = 150 if tier == 'quick' else 2000
    for i in range(nb):
        cases.append(('bus%d' % i, bus_case(rng, i % 4 != 0)))
    for i in range(nb):
        cases.append(('prog%d' % i, prog_case(rng, i % 4 != 0)))
    rl = sysgen.quick_roms()[:2] if tier == 'quick' else sysgen.roms()[:24]
    for i, r in enumerate(rl):
        frames = 40 if tier == 'quick' else 200
        cases.append(('rom%d' % i, ['sys.rom %s 1' % sysgen.enc(r), 'sys.frame %d' % frames, 'sys.serial', 'sys.get']))
    # through the real gameboy.New / runFrame: a program streaming bytes to SB, with a writer and with none configured
    ngb = 0
    for ser in (1, 0, 1, 0):
        lines = ['gb.newloop 0 %d 0 0 0 0 %d' % (rng.choice([0, 1, 19]), ser)]
        # LD A,41; loop: LDH (01),A; INC A; CP 5B; JR C,loop; JR start
        for j, b in enumerate([0x3e, 0x41, 0xe0, 0x01, 0x3c, 0xfe, 0x5b, 0x38, 0xf9, 0x18, 0xf5]):
            lines.append('gb.w 0 %d %d' % (0xc000 + j, b))
        lines += ['gb.set 0 1 2 3 4 5 0 6 7 57343 49152', 'gb.cyc 0 %d' % rng.randrange(1, 300), 'gb.serial 0', 'gb.frames 0 1', 'gb.serial 0', 'gb.obs 0',
                  'gb.r 0 65281', 'gb.r 0 65282']
        cases.append(('gbser%d' % ngb, lines))
        ngb += 1
    # the command line's debugging configuration: CPU trace on, standard output as the serial writer
    for k in range(2 if tier == 'quick' else 8):
        cases.append(('dbgser%d' % k, ['gb.dbgser %d' % rng.randrange(200, 3000)]))
    info = dict(input_distribution=dict(bus_histories=nb, programs=nb, roms=len(rl), machines_through_New=ngb),
                samples=[dict(case=cases[nb][0], script=cases[nb][1][:30])])
    return cases, info


def nontrivial(cid, lines, impl):
    if impl and any(l.startswith('ser ') and len(l) > 4 for l in impl):
        return cid
    return None


def matches_known(k, case, impl, model):
    return False


def judge(case, impl, model):
    return 'delivered serial bytes differ from the model, whose transcript is proved to be exactly the FF01 writes in order (C23_transcript)'
