"""C20 — the audio sample stream is paced, routed and bounded."""
from props.apu_common import *

ID = 'C20'
PROP_FILE = 'Properties/C20.v'
RULE = ('random register schedules (power, triggers of all four channels, NR50/NR51 routing, volumes, envelopes, sweep, '
        'wave RAM) over emulated time: one run of 1.06 emulated seconds across the once-per-second wrap of the sample '
        'clock, ~40 schedules of 10^4-10^5 machine cycles, runs starting just before the wrap (hook), runs with '
        'wave RAM written while channel 3 is playing at full level; a single routed channel switched off by length expiry / sweep overflow with its DAC left on (silence afterwards); '
        'power off, power cycles followed by re-triggers before NR50/NR51 are rewritten, and with no / only one output attached; the number of pairs is counted per machine cycle '
        '(checksum over (cycle, left, right)) and all sample values are compared as exact integers '
        'round(sample*6400); paired runs differ only in a channel not routed to the left (right) side and must give '
        'identical left (right) samples; runs with NR51 = 0 must give zeros.  A case is non-trivial when it emitted '
        'at least two different sample values; distinct = distinct cases')
LEVEL_NOTE = ('Theorems C20_* quantify over every state / every clock count n : N; mixing is proved over exact rationals, '
              'the float32 arithmetic of the Go code is tied to it by comparing round(6400*sample) for every emitted '
              'sample (the exact value is k/6400 with k < 5566, float32 error < 1e-6); see design/C20.md.')
ASSUMPTIONS = ['float32 evaluation of the mix is within 0.5/6400 of the exact rational (observed on every sample of the run)',
               'the once-per-second gap of the sample clock (149 instead of 95 clocks between two pairs) is allowed by the statement']
ALLOWED_AXIOMS = []


def count(n):
    return (n // 4194304) * 44150 + (n % 4194304) // 95


def setup(rng, nr51=None, skip_ch=None, alt=False):
    """configure and trigger all channels; alt changes the configuration of skip_ch only"""
    lines = []
    lines.append(w(NR50, rng.choice([0x77, 0x70, 0x07, 0x35, rng.randrange(256)])))
    lines.append(w(NR51, rng.randrange(256) if nr51 is None else nr51))
    cfg = {}
    for ch in (1, 2, 3, 4):
        cfg[ch] = dict(vol=rng.choice([0xF0, 0xF3, 0x80, 0x5A, 0x1F, 0xC1]), f=rng.randrange(1500, 2048),
                       duty=rng.randrange(4) << 6, n43=rng.choice([0x00, 0x11, 0x23, 0x08, 0x1A, 0x35]),
                       lvl=rng.choice([0x20, 0x40, 0x60]), trig=True)
    if alt and skip_ch:
        c = cfg[skip_ch]
        c['vol'] = (c['vol'] ^ 0x90) | 0x10
        c['f'] = (c['f'] + 97) % 2048
        c['n43'] ^= 0x0B
        c['lvl'] = 0x20 if c['lvl'] != 0x20 else 0x40
        c['trig'] = rng.random() < 0.8
    for i in range(16):
        lines.append(w(0xFF30 + i, (0x10 * i + 7 * i + (0x5A if (alt and skip_ch == 3) else 0)) & 0xFF))
    c = cfg[1]
    lines += [w(NR10, 0x00), w(NR11, c['duty']), w(NR12, c['vol']), w(NR13, c['f'] & 0xFF)]
    if c['trig']:
        lines.append(w(NR14, 0x80 | (c['f'] >> 8)))
    c = cfg[2]
    lines += [w(NR21, c['duty']), w(NR22, c['vol']), w(NR23, c['f'] & 0xFF)]
    if c['trig']:
        lines.append(w(NR24, 0x80 | (c['f'] >> 8)))
    c = cfg[3]
    lines += [w(NR30, 0x80), w(NR32, c['lvl']), w(NR33, c['f'] & 0xFF)]
    if c['trig']:
        lines.append(w(NR34, 0x80 | (c['f'] >> 8)))
    c = cfg[4]
    lines += [w(NR42, c['vol']), w(NR43, c['n43'])]
    if c['trig']:
        lines.append(w(NR44, 0x80))
    return lines


def schedule(rng, total_cycles, nops):
    lines = setup(rng)
    left = total_cycles
    for _ in range(nops):
        r = rng.random()
        if r < 0.25:
            lines.append(w(NR51, rng.randrange(256)))
        elif r < 0.4:
            lines.append(w(NR50, rng.randrange(256)))
        elif r < 0.55:
            ch = rng.randrange(1, 5)
            lines.append(w(TRIG_REG[ch], rng.choice([0x80, 0xC0, 0x87, 0x86])))
        elif r < 0.65:
            ch = rng.randrange(1, 5)
            lines.append(w(DAC_REG[ch], dac_value(rng, rng.random() < 0.8)))
        elif r < 0.72:
            lines.append(w(NR52, rng.choice([0x00, 0x80])))
        elif r < 0.76:
            lines.append(w(NR10, rng.choice([0x11, 0x1A, 0x00, 0x27])))
        else:
            n = min(left, rng.choice([1, 5, 23, 24, 95, 1000, 4096, 20000]))
            if n > 0:
                lines.append(cyc(n))
                left -= n
    if left > 0:
        lines.append(cyc(left))
    lines.append('apu.samples')
    return lines


def generate(rng, tier):
    cases = []
    # 1. one long run across the wrap, sound on throughout
    long_lines = setup(rng) + [cyc(1060000), 'apu.samples']
    cases.append(('long', long_lines))
    cases.append(('long2', ['apu.setticks 3900001 %d' % rng.randrange(512)] + setup(rng) +
                  [cyc(50000), w(NR51, rng.randrange(256)), cyc(100000), 'apu.samples']))
    if tier == 'thorough':
        for k in range(3):
            cases.append(('long%d' % k, setup(rng) + [cyc(700000), w(NR51, rng.randrange(256)), cyc(2500000), 'apu.samples']))
    # 2. random schedules
    ns = 32 if tier == 'quick' else 400
    for k in range(ns):
        cases.append(('s%d' % k, schedule(rng, rng.choice([10000, 30000, 60000]), rng.randrange(5, 30))))
    # 3. starting just before the wrap
    for k in range(6 if tier == 'quick' else 40):
        t = 4194304 - rng.randrange(0, 4000)
        cases.append(('w%d' % k, ['apu.setticks %d %d' % (t, rng.randrange(512))] + setup(rng) + [cyc(3000), 'apu.samples']))
    # 4. no output / one output / power off
    for att in (0, 2, 3):
        cases.append(('att%d' % att, ['apu.new %d' % att] + setup(rng) + [cyc(5000), 'apu.samples']))
    cases.append(('off', setup(rng) + [cyc(500), w(NR52, 0x00), cyc(5000), w(NR52, 0x80), cyc(500), 'apu.samples']))
    # 4b. power cycle: everything incl. NR50/NR51 is cleared, so re-triggered channels stay silent until the
    #     routing (and volume) registers are written again
    def retrigger():
        return [w(NR12, 0xF0), w(NR13, 0x00), w(NR14, 0x87), w(NR22, 0xF0), w(NR24, 0x87),
                w(NR30, 0x80), w(NR32, 0x20), w(NR34, 0x87), w(NR42, 0xF0), w(NR44, 0x80)]
    cases.append(('xc_none', setup(rng, nr51=0xFF) + [cyc(500), w(NR52, 0x00), cyc(10), w(NR52, 0x80)] + retrigger() +
                  [cyc(3000), 'apu.samples']))
    cases.append(('xc_vol', setup(rng, nr51=0xFF) + [cyc(500), w(NR52, 0x00), w(NR52, 0x80)] + retrigger() +
                  [w(NR50, 0x77), cyc(3000), 'apu.samples']))
    cases.append(('xc_route', setup(rng, nr51=0xFF) + [cyc(500), w(NR52, 0x00), w(NR52, 0x80)] + retrigger() +
                  [w(NR51, 0x12), cyc(3000), 'apu.samples', w(NR50, 0x53), cyc(3000), 'apu.samples']))
    for k in range(4 if tier == 'quick' else 40):
        cases.append(('xcr%d' % k, setup(rng) + [cyc(rng.randrange(1, 3000)), w(NR52, 0x00), cyc(rng.randrange(0, 50)), w(NR52, 0x80)] +
                      retrigger() + ([w(NR50, rng.randrange(256))] if k % 2 else []) +
                      [cyc(2000), 'apu.samples', w(NR51, rng.randrange(256)), w(NR50, rng.randrange(256)), cyc(2000), 'apu.samples']))
    # 4c. a routed square channel that is switched off by its length counter or by a sweep overflow while its DAC stays
    #     on (all other channels off): silence from then on
    def solo(extra, wait):
        return [w(NR52, 0x00), w(NR52, 0x80), w(NR50, 0x77), w(NR51, 0xFF)] + extra + \
               [cyc(wait), 'apu.samples', 'apu.r 0xFF26', cyc(4000), 'apu.samples']
    cases.append(('z2len', solo([w(NR22, 0xF0), w(NR21, 0xBE), w(NR23, 0x00), w(NR24, 0xC7)], 9000)))
    cases.append(('z1len', solo([w(NR12, 0xF3), w(NR11, 0x3F), w(NR13, 0x80), w(NR14, 0xC6)], 5000)))
    cases.append(('z1sweep', solo([w(NR12, 0xF0), w(NR10, 0x11), w(NR11, 0x80), w(NR13, 0x00), w(NR14, 0x84)], 7000)))
    cases.append(('z4len', solo([w(NR42, 0xF0), w(NR41, 0x3E), w(NR43, 0x11), w(NR44, 0xC0)], 9000)))
    cases.append(('z3len', solo([w(NR30, 0x80), w(NR32, 0x20), w(NR31, 0xFE), w(NR33, 0x00), w(NR34, 0xC7)], 9000)))
    # 4d. wave RAM written WHILE channel 3 plays (routed to both sides, full level, master volume 7): the write only
    #     changes the RAM byte being played, the samples stay within range
    def wave_live(f, writes):
        lines = [w(NR50, 0x77), w(NR51, 0x44), w(NR30, 0x80), w(NR32, 0x20), w(NR33, f & 0xFF), w(NR34, 0x80 | (f >> 8))]
        for gap, i, v in writes:
            if gap:
                lines.append(cyc(gap))
            lines.append(w(0xFF30 + i, v))
        return lines + [cyc(1500), 'apu.samples']
    cases.append(('y0', wave_live(0x000, [(0, 0, 0xFF)])))
    cases.append(('y1', wave_live(0x000, [(0, 5, 0x73), (1024, 3, 0xFF), (1024, 7, 0xF0)])))
    cases.append(('y2', wave_live(0x700, [(0, 0, 0xFF), (128, 1, 0xFF), (128, 2, 0x9C), (127, 2, 0xFF), (129, 9, 0xEE)])))
    for k in range(6 if tier == 'quick' else 80):
        f = rng.choice([0x000, 0x400, 0x700, 0x7C0, 0x7FF, rng.randrange(2048)])
        per = max(1, (2048 - f) // 2)             # machine cycles between fetches
        cases.append(('y%d' % (3 + k), wave_live(f, [(rng.choice([0, per, per, per - 1, per + 1, rng.randrange(1, 300)]),
                                                      rng.randrange(16), rng.choice([0xFF, 0x73, 0xF7, 0x80, rng.randrange(256)]))
                                                     for _ in range(rng.randrange(2, 10))])))
    # 5. NR51 = 0: silence
    cases.append(('mute', setup(rng, nr51=0) + [cyc(20000), 'apu.samples']))
    # 6. paired runs: channel ch not routed to one side, differs between A and B
    np_ = 8 if tier == 'quick' else 64
    for k in range(np_):
        ch = 1 + k % 4
        side_left = (k // 4) % 2 == 0
        bit = (0x10 << (ch - 1)) if side_left else (0x01 << (ch - 1))
        nr51 = rng.randrange(256) & ~bit & 0xFF
        seed = rng.randrange(1 << 30)
        import random as _r
        for tag, alt in (('A', False), ('B', True)):
            rr = _r.Random(seed)
            cases.append(('p%d%s_%d_%s' % (k, tag, ch, 'L' if side_left else 'R'),
                          setup(rr, nr51=nr51, skip_ch=ch, alt=alt) + [cyc(12000), 'apu.samples']))
    info = dict(exhaustive=False,
                input_distribution=dict(long_runs=2 if tier == 'quick' else 5, schedules=ns, pairs=np_,
                                        machine_cycles_total=sum(int(l.split()[1]) for c in cases for l in c[1]
                                                                 if l.startswith('apu.cyc'))),
                samples=[dict(case=cases[1][0], script=cases[1][1][:40] + ['...'])])
    return cases, info


def nontrivial(cid, lines, impl):
    if not impl:
        return None
    for l in impl:
        if l.startswith('s ') and len(l.split()) > 4 and ',' in l.split()[4]:
            return cid
    return None


def matches_known(k, case, impl, model):
    return False


def judge(case, impl, model):
    return ('number, instants (per-cycle checksum) or values of the emitted sample pairs differ from the model, for '
            'which C20_* prove pacing, routing, non-interference and range')


def samples_of(impl):
    for l in impl:
        if l.startswith('s '):
            f = l.split()
            body = f[4] if len(f) > 4 else ''
            pairs = []
            for v, k in parse_rle(body):
                a, b = v.split(':')
                pairs += [(int(a), int(b))] * k
            return int(f[1]), int(f[2]), int(f[3]), pairs
    return None


def extra(check, impl_cases, model_cases, cases):
    out = []

    def bad(cid, lines, msg):
        out.append(dict(case=cid, script=lines, impl=[x[:300] for x in impl_cases.get(cid, [])],
                        model=[x[:300] for x in model_cases.get(cid, [])],
                        verdict='implementation violates the statement directly: ' + msg))

    byid = dict(cases)
    for cid, lines in cases:
        impl = impl_cases.get(cid)
        if not impl:
            continue
        smp = samples_of(impl)
        if smp is None:
            continue
        nl, nr, nbad, pairs = smp
        if nl != nr:
            bad(cid, lines, '%d left and %d right samples' % (nl, nr))
        if nbad:
            bad(cid, lines, '%d samples not finite or outside [0,1)' % nbad)
        if any(not (0 <= a < 6400 and 0 <= b < 6400) for a, b in pairs):
            bad(cid, lines, 'sample outside [0,1)')
        # pacing: sound on throughout, no hook use
        if (cid.startswith('long') and cid != 'long2') or cid == 'mute' or cid.startswith('p'):
            clocks = 0
            total = 0
            for l in lines:
                if l.startswith('apu.cyc'):
                    clocks += 4 * int(l.split()[1])
            if nl != count(clocks):
                bad(cid, lines, '%d pairs in %d clocks, documented %d' % (nl, clocks, count(clocks)))
        if cid.startswith('att') and nl + nr:
            bad(cid, lines, 'samples emitted without both outputs attached')
        if cid == 'off':
            if nl != count(4 * 500) + (count(4 * 6000) - count(4 * 5500)):
                bad(cid, lines, '%d pairs around a power-off interval' % nl)
        if cid in ('xc_none', 'xc_vol'):
            pre = count(4 * 500)
            if any(a or b for a, b in pairs[pre:]):
                bad(cid, lines, 'non-zero sample after an APU power cycle although NR50/NR51 were not both rewritten')
        if cid.startswith('z'):
            # the second samples line follows a NR52 read that must show no channel on: then everything is silent
            nr52 = [l for l in impl if l.isdigit()]
            last = [l for l in impl if l.startswith('s ')][-1].split()
            body = last[4] if len(last) > 4 else ''
            tail = [v for v, k in parse_rle(body)]
            if not nr52 or int(nr52[0]) & 0x0F:
                bad(cid, lines, 'channel still on (NR52=%s) although its length counter / sweep must have switched it off' % nr52)
            elif any(v != '0:0' for v in tail):
                bad(cid, lines, 'NR52 shows no channel on, yet non-zero samples are emitted (%s)' % tail[:3])
        if cid == 'mute' and any(a or b for a, b in pairs):
            bad(cid, lines, 'non-zero sample with NR51 = 0')
        if cid.startswith('p') and 'A_' in cid:
            other = cid.replace('A_', 'B_')
            o = samples_of(impl_cases.get(other) or [])
            if o:
                side = 0 if cid.endswith('L') else 1
                if [p[side] for p in pairs] != [p[side] for p in o[3]]:
                    bad(cid, lines, 'samples on the side channel %s is not routed to depend on that channel (pair %s)'
                        % (cid.split('_')[1], other))
        if len(out) >= 5:
            break
    return out
