"""C04 — interrupts are dispatched by priority exactly when enabled and requested; EI delay, DI, RETI."""
import itertools
from props import cpugen

ID = 'C04'
PROP_FILE = 'Properties/C04.v'
RULE = ('(1) every IE x IF x IME combination (32 x 32 x 2) at a boundary in front of NOP / INC A / CALL, state printed after '
        'each of 8 machine cycles with the stack and IF/IE at the end (exhaustive); (2) every sequence up to length 3 (quick) '
        '/ 4 (thorough) over {EI, DI, RETI, NOP, INC A, LD (FF0F),A, LD (FFFF),A, HALT} with a request injected at every '
        'machine-cycle offset; non-trivial = a dispatch happened or IME/IF changed; distinct = distinct case ids')
LEVEL_NOTE = ('C04_dispatch quantifies over every bus, every boundary state and every environment acting after each cycle; '
              'the EI/DI/RETI theorems over every state. The Go CPU + interrupts package is tied to the model by this run '
              '(registers, IME, pending-EI flag, halted flag and boundary flag after every machine cycle).')
ASSUMPTIONS = ['bus values are bytes', 'hardware requests only set IF bits (never clear them) between CPU cycles']
ALLOWED_AXIOMS = []
MAX_REPORT = 5
KEEP_PREFIX = 1

OPS = {'EI': [0xfb], 'DI': [0xf3], 'RETI': [0xd9], 'NOP': [0x00], 'INCA': [0x3c], 'LDIF': [0xe0, 0x0f], 'LDIE': [0xe0, 0xff],
       'HALT': [0x76], 'RET': [0xc9]}


def boundary_case(ie, iff, ime, nxt):
    lines = ['cpu.new', 'cpu.set 31 0 0 0 0 0 208 16 57328 49152']
    code = {'NOP': [0, 0, 0], 'INCA': [0x3c, 0, 0], 'CALL': [0xcd, 0x10, 0xc0]}[nxt]
    for i, b in enumerate(code + [0, 0, 0]):
        lines.append('w %d %d' % (0xc000 + i, b))
    lines += ['w 65535 %d' % ie, 'w 65295 %d' % iff, 'cpu.ime %d' % ime]
    for _ in range(8):
        lines += ['cpu.cyc 1', 'cpu.get']
    lines += ['r 57327', 'r 57326', 'r 65295', 'r 65535']
    return lines


def seq_case(seq, a, req_at, mask, ime, ie, iff):
    lines = ['cpu.new', 'cpu.set %d 0 0 0 0 0 208 16 53248 49152' % a]
    pc = 0xc000
    addr = []
    for name in seq:
        addr.append(pc)
        for b in OPS[name]:
            lines.append('w %d %d' % (pc, b))
            pc += 1
    for i in range(6):
        lines.append('w %d 0' % (pc + i))
    # every RETI / RET returns to the instruction that follows it: return addresses on the stack in order
    sp = 0xd000
    k = 0
    for i, name in enumerate(seq):
        if name in ('RETI', 'RET'):
            ret = addr[i] + 1
            lines.append('w %d %d' % (sp + 2 * k, ret & 255))
            lines.append('w %d %d' % (sp + 2 * k + 1, ret >> 8))
            k += 1
    lines += ['w 65535 %d' % ie, 'w 65295 %d' % iff, 'cpu.ime %d' % ime]
    n = 3 * len(seq) + 14
    for c in range(n):
        if c == req_at:
            lines.append('cpu.req %d' % mask)
        lines += ['cpu.cyc 1', 'cpu.get']
    lines += ['r 65295', 'r 65535', 'r 53247', 'r 53246']
    return lines


def generate(rng, tier):
    cases = []
    n = 0
    for ie in range(32):
        for iff in range(32):
            for ime in (0, 1):
                nxt = ['NOP', 'INCA', 'CALL'][(ie + iff + ime) % 3]
                cases.append(('b%d' % n, boundary_case(ie | (rng.randrange(8) << 5), iff, ime, nxt)))
                n += 1
    names = list(OPS)
    maxlen = 3 if tier == 'quick' else 4
    m = 0
    for L in range(1, maxlen + 1):
        for seq in itertools.product(names, repeat=L):
            offs = range(0, 3 * L + 6)
            if tier == 'quick':
                offs = [rng.randrange(0, 3 * L + 6) for _ in range(2 if L == 3 else 4)]
            for off in offs:
                mask = rng.choice([1, 2, 4, 8, 16, rng.randrange(1, 32)])
                ime = rng.randrange(2)
                ie = rng.choice([0x1f, mask, rng.randrange(32)])
                iff = rng.choice([0, 0, 0, rng.randrange(32)])
                cases.append(('q%d' % m, seq_case(seq, rng.randrange(256), off, mask, ime, ie, iff)))
                m += 1
    info = dict(exhaustive=True, input_distribution=dict(boundary_cases=n, sequence_cases=m, max_sequence_length=maxlen),
                samples=[dict(case=cases[100][0], script=cases[100][1][:16] + ['...']), dict(case=cases[-1][0], script=cases[-1][1][:24] + ['...'])])
    return cases, info


def nontrivial(cid, lines, impl):
    if not impl:
        return None
    gets = [l.split() for l in impl if len(l.split()) == 16]
    if len({(g[9], g[13]) for g in gets}) > 2:
        return cid
    return None


def matches_known(k, case, impl, model):
    return False


def judge(case, impl, model):
    return ('CPU state after some machine cycle (PC, SP, IME, pending-EI, halted) or the stack/IF at the end differs from the '
            'model, whose dispatch, EI/DI/RETI behaviour is proved equal to the documented one (C04_*)')
