"""lcdlib — shared by props/c13.py and props/c14.py: the closed forms of coq/spec/LcdSpec.v in Python (the
executable reference line/mode counter of the statements), parsing of the runners' run-length encoded tick
lines, and a walker that follows a case's output and tells, for every machine cycle, the abstract LCD state
(on, k = cycles since switch-on, STAT enables, LYC) fixed by the history.

Output protocol of the ppu.* operations (harness/run/ops_ppu.go, coq/extract/r_ppu.ml):
  ppu.tick N   -> "T ly,st,if*n ly,st,if*n ..."  (LY, STAT&7, IF&3 after each cycle; IF cleared before each)
  ppu.w R V    -> "w R V"   (echo, so that the history can be followed from the output alone)
  ppu.r R      -> "<value>"
"""

FRAME = 17556
LINE = 114
VBL = 144 * LINE


def pos(k):
    return k - 1 if k <= 62 else (k + 1) % FRAME


def mode_at(p):
    if p // LINE < 144:
        d = p % LINE
        return 2 if d < 20 else (3 if d < 61 else 0)
    return 1


def spec_ly(k):
    return 0 if k == 0 else pos(k) // LINE


def spec_mode(k):
    return 2 if k == 0 else mode_at(pos(k))


def vblank_instant(k):
    return pos(k) == VBL


def hblank_instant(k):
    return pos(k) % LINE == 61 and pos(k) // LINE < 144


def oam_instant(k):
    return pos(k) % LINE == 0 and pos(k) // LINE < 144


def oam_open(k):
    return k == 1 or pos(k) == VBL


def lyc_instant(lyc, k):
    return lyc <= 153 and pos(k) == LINE * lyc


def lyc_open(k):
    return k == 1


def expand(line):
    """'T a,b,c*n ...' -> list of (ly, st, if) per cycle"""
    out = []
    for tok in line.split()[1:]:
        t, n = tok.split('*')
        v = tuple(int(x) for x in t.split(','))
        out.extend([v] * int(n))
    return out


def rle(prefix, items):
    parts, last, n = [], None, 0
    for it in items:
        if it == last:
            n += 1
        else:
            if n:
                parts.append('%s*%d' % (last, n))
            last, n = it, 1
    if n:
        parts.append('%s*%d' % (last, n))
    return prefix + ''.join(' ' + p for p in parts)


class Lcd:
    """abstract LCD state of LcdSpec.lcd (power-on: LCD on, k = 0, STAT = 0, LYC = 0)"""

    def __init__(self):
        self.on, self.k, self.stale, self.stat, self.lyc = True, 0, False, 0, 0

    def write(self, reg, v):
        if reg == 0x40:
            if v & 0x80:
                if not self.on:
                    self.on, self.k, self.stale = True, 0, False
            else:
                self.on, self.k, self.stale = False, 0, False
        elif reg == 0x41:
            self.stat = v
        elif reg == 0x44:
            self.stale = self.on
        elif reg == 0x45:
            self.lyc = v

    def tick(self):
        if self.on:
            self.k += 1
            self.stale = False


def walk(lines):
    """Follow one case's output lines.  Yields ('T', lcd_state_list, obs_list, line_index) for tick lines where
    lcd_state_list[i] = (on, k, stat, lyc) during cycle i, ('w', reg, v, idx) for echoes, ('o', text, lcd, idx)
    for everything else."""
    lcd = Lcd()
    for idx, line in enumerate(lines):
        if line.startswith('T'):
            obs = expand(line)
            states = []
            for _ in obs:
                lcd.tick()
                states.append((lcd.on, lcd.k, lcd.stat, lcd.lyc))
            yield ('T', states, obs, idx)
        elif line.startswith('w '):
            _, r, v = line.split()
            lcd.write(int(r), int(v))
            yield ('w', int(r), int(v), idx)
        elif line.startswith('new'):
            lcd = Lcd()
            yield ('o', line, lcd, idx)
        else:
            yield ('o', line, lcd, idx)


def spec_if(on, k, stat, lyc):
    """(vblank bit, stat bit or None when the statement leaves it open) for the cycle numbered k"""
    if not on:
        return 0, 0
    vb = 1 if vblank_instant(k) else 0
    st = False
    open_ = False
    if stat & 0x08 and hblank_instant(k):
        st = True
    if stat & 0x10 and vblank_instant(k):
        st = True
    if stat & 0x20:
        if oam_open(k):
            open_ = True
        elif oam_instant(k):
            st = True
    if stat & 0x40:
        if lyc_open(k):
            open_ = True
        elif lyc_instant(lyc, k):
            st = True
    if open_ and not st:
        return vb, None
    return vb, 1 if st else 0
