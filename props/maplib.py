"""maplib — Python rendering of coq/spec/AddrSpec.v for the C06 / C07 checks.

SpecMachine follows a script (sys.new / sys.cpurom / sys.w / sys.r / sys.rr / sys.hw / sys.btn / map.wr /
map.fill) and says, for every value the implementation printed, what the statement of C06 requires of it:
a pair (mask, value) meaning  got & mask == value  (mask 0 = the statement leaves it open).
It is written from the DMG memory map, like AddrSpec.v, not from mapper.go.
"""

REG = dict(JOYP=0xFF00, SB=0xFF01, SC=0xFF02, DIV=0xFF04, TIMA=0xFF05, TMA=0xFF06, TAC=0xFF07, IF=0xFF0F,
           NR10=0xFF10, NR11=0xFF11, NR12=0xFF12, NR13=0xFF13, NR14=0xFF14, NR21=0xFF16, NR22=0xFF17,
           NR23=0xFF18, NR24=0xFF19, NR30=0xFF1A, NR31=0xFF1B, NR32=0xFF1C, NR33=0xFF1D, NR34=0xFF1E,
           NR41=0xFF20, NR42=0xFF21, NR43=0xFF22, NR44=0xFF23, NR50=0xFF24, NR51=0xFF25, NR52=0xFF26,
           LCDC=0xFF40, STAT=0xFF41, SCY=0xFF42, SCX=0xFF43, LY=0xFF44, LYC=0xFF45, DMA=0xFF46, BGP=0xFF47,
           OBP0=0xFF48, OBP1=0xFF49, WY=0xFF4A, WX=0xFF4B, IE=0xFFFF)
REG_AT = {v: k for k, v in REG.items()}

# (bits that read back the last write, bits that always read 1); AddrSpec.reg_masks
MASKS = dict(IF=(0x1F, 0xE0), TAC=(0x07, 0xF8), TMA=(0xFF, 0), SCY=(0xFF, 0), SCX=(0xFF, 0), LYC=(0xFF, 0),
             BGP=(0xFF, 0), WY=(0xFF, 0), WX=(0xFF, 0), LCDC=(0xFF, 0), DMA=(0xFF, 0), OBP0=(0xFF, 0),
             OBP1=(0xFF, 0), STAT=(0x78, 0x80), JOYP=(0x30, 0xC0))
# registers whose writable bits can also be raised by the hardware (bits only ever added between writes)
HW_RAISED = {'IF'}


def region(a):
    """AddrSpec.spec_region"""
    page, off = a >> 8, a & 0xff
    if page < 0x80:
        return 'rom'
    if page < 0xA0:
        return 'vram'
    if page < 0xC0:
        return 'cartram'
    if page < 0xE0:
        return 'wram'
    if page < 0xFE:
        return 'echo'
    if page == 0xFE:
        return 'oam' if off < 0xA0 else 'unusable'
    if a in REG_AT:
        return 'io'
    if off >= 0x80:
        return 'hram'
    if 0x30 <= off < 0x40:
        return 'wave'
    return 'unmapped'


def canon(a):
    return a - 0x2000 if 0xE000 <= a < 0xFE00 else a


PLAIN = ('wram', 'echo', 'hram', 'vram', 'oam')


def value_of(v, k, l, a):
    return (v + k * (a & 0xff) + l * (a >> 8)) & 0xff


def fp_ranges(kind, a):
    """AddrSpec.fp_ranges; kind: 0 ROM-only, 1 MBC1, 2 MBC2, 3 MBC3, 5 MBC5"""
    if a < 0x8000:
        return [(0x0000, 0x7FFF), (0xA000, 0xBFFF)]
    if a < 0xA000:
        return [(a, a)]
    if a < 0xC000:
        if kind == 2:
            return [(0xA000 + 512 * k + (a - 0xA000) % 512,) * 2 for k in range(16)]
        return [(a, a)]
    if a < 0xDE00:
        return [(a, a), (a + 0x2000, a + 0x2000)]
    if a < 0xE000:
        return [(a, a)]
    if a < 0xFE00:
        return [(a, a), (a - 0x2000, a - 0x2000)]
    if a == 0xFF06:
        return [(0xFF05, 0xFF06)]
    if a in (0xFF10, 0xFF12, 0xFF14, 0xFF17, 0xFF19, 0xFF21, 0xFF23):
        return [(a, a), (0xFF26, 0xFF26)]
    if a in (0xFF1A, 0xFF1E):
        return [(a, a), (0xFF26, 0xFF26), (0xFF30, 0xFF3F)]
    if a == 0xFF26:
        return [(0xFF10, 0xFF26), (0xFF30, 0xFF3F)]
    if 0xFF30 <= a < 0xFF40:
        return [(0xFF30, 0xFF3F)]
    if a == 0xFF40:
        return [(0xFF40, 0xFF41), (0xFF44, 0xFF44)]
    if a == 0xFF46:
        return [(0xFF46, 0xFF46), (0xFE00, 0xFEFF)]
    return [(a, a)]


def in_ranges(rs, b):
    return any(lo <= b <= hi for lo, hi in rs)


KIND_OF_TYPE = {0: 0, 1: 1, 2: 1, 3: 1, 5: 2, 6: 2, 15: 3, 16: 3, 17: 3, 18: 3, 19: 3, 25: 5, 26: 5, 27: 5, 28: 5,
                29: 5, 30: 5}


class Deviation(Exception):
    pass


class SpecMachine:
    def __init__(self):
        self.deviations = []
        self.reset()

    def reset(self):
        self.mem = {}            # canonical address -> byte, or None = not determined by the statement
        self.lcd_on = True       # LCDC = 0x91 at power-on
        self.dma_block = 0       # machine cycles during which OAM is not accessible
        self.lastw = {}          # register name -> last byte written in this case
        self.hw_since = {}       # register name -> a hardware cycle happened since that write
        self.kind = 0

    # ---- what a read must return ----
    def expect(self, a):
        g = region(a)
        if g in ('wram', 'echo', 'hram'):
            v = self.mem.get(canon(a))
            return (0xFF, v) if v is not None else (0, 0)
        if g == 'vram':
            v = self.mem.get(a)
            return (0xFF, v) if (v is not None and not self.lcd_on) else (0, 0)
        if g == 'oam':
            v = self.mem.get(a)
            return (0xFF, v) if (v is not None and not self.lcd_on and self.dma_block == 0) else (0, 0)
        if g == 'unusable':
            return (0xFF, 0) if (not self.lcd_on and self.dma_block == 0) else (0, 0)
        if g == 'unmapped':
            return (0xFF, 0xFF)
        if g == 'io':
            r = REG_AT[a]
            lw = self.lastw.get(r)
            if r in ('LY', 'DIV'):
                # a write never makes the register read the written value: it reads 0 until the hardware counts on
                if lw is not None and not self.hw_since.get(r, True):
                    return (0xFF, 0)
                return (0, 0)
            if r == 'IE':
                v = self.mem.get(a)
                return (0xFF, v) if v is not None else (0, 0)
            if r in MASKS:
                wm, ones = MASKS[r]
                if lw is None:
                    return (ones, ones)
                if r in HW_RAISED and self.hw_since.get(r, True):
                    return (ones | (lw & wm), ones | (lw & wm))
                return (ones | wm, ones | (lw & wm))
        return (0, 0)

    def check(self, a, got, what):
        m, v = self.expect(a)
        if got & m != v:
            r = REG_AT.get(a)
            self.deviations.append(dict(addr=a, got=got, mask=m, want=v, reg=r, lastw=self.lastw.get(r) if r else None,
                                        text='%s: Read(%04X) = %02X, the statement requires %02X under mask %02X (%s)'
                                             % (what, a, got, v, m, region(a) + ((' ' + r) if r else ''))))

    # ---- effects ----
    def write(self, a, v):
        a &= 0xffff
        v &= 0xff
        g = region(a)
        if g in ('wram', 'echo', 'hram'):
            self.mem[canon(a)] = v
        elif g == 'vram':
            self.mem[a] = None if self.lcd_on else v
        elif g == 'oam':
            self.mem[a] = None if (self.lcd_on or self.dma_block > 0) else v
        elif g == 'io':
            r = REG_AT[a]
            self.lastw[r] = v
            self.hw_since[r] = False
            if r == 'IE':
                self.mem[a] = v
            elif r == 'LCDC':
                self.lcd_on = bool(v & 0x80)
            elif r == 'DMA':
                self.dma_block = 163
                for x in range(0xFE00, 0xFEA0):
                    self.mem[x] = None

    def hw(self, n):
        if n <= 0:
            return
        self.dma_block = max(0, self.dma_block - n)
        for r in self.hw_since:
            self.hw_since[r] = True

    # ---- following a script ----
    def run(self, lines, out):
        """returns the list of deviations (a panic is one: every address the scripts touch must be readable and
        writable); stops at a short output (the correspondence handles that)"""
        self.reset()
        self.deviations = []
        for o in out:
            if o.startswith('PANIC') or o.startswith('EXIT'):
                self.deviations.append(dict(addr=None, got=None, mask=0, want=0, reg=None, lastw=None, panic=True,
                                            text='the implementation stopped with "%s" in a script that only reads '
                                                 'and writes through the Mapper' % o))
        it = iter(out)
        try:
            for line in lines:
                f = line.split()
                op = f[0]
                if op in ('sys.new', 'sys.cpurom', 'sys.image', 'sys.rom'):
                    self.reset()
                    if op == 'sys.new':
                        self.kind = KIND_OF_TYPE.get(int(f[1], 0), 0)
                elif op == 'sys.w':
                    self.write(int(f[1], 0), int(f[2], 0))
                elif op == 'sys.r':
                    o = next(it)
                    if o.startswith('PANIC'):
                        break
                    self.check(int(f[1], 0), int(o), line)
                elif op == 'sys.rr':
                    o = next(it)
                    if o.startswith('PANIC'):
                        break
                    lo, hi = int(f[1], 0), int(f[2], 0)
                    for i, a in enumerate(range(lo, hi + 1)):
                        self.check(a, int(o[2 * i:2 * i + 2], 16), line)
                elif op == 'map.wr':
                    o = next(it)
                    if o.startswith('PANIC'):
                        break
                    lo, hi, v, k, l = (int(x, 0) for x in f[1:6])
                    for i, a in enumerate(range(lo, hi + 1)):
                        self.write(a, value_of(v, k, l, a))
                        self.check(a, int(o[2 * i:2 * i + 2], 16), '%s (write %02X)' % (line, value_of(v, k, l, a)))
                elif op == 'map.fill':
                    lo, hi, v, k, l = (int(x, 0) for x in f[1:6])
                    for a in range(lo, hi + 1):
                        self.write(a, value_of(v, k, l, a))
                elif op in ('sys.hw', 'sys.cyc'):
                    self.hw(int(f[1], 0))
                elif op in ('sys.btn', 'sys.req', 'map.snap', 'sys.set'):
                    if op == 'sys.req':
                        self.hw_since['IF'] = True
                elif op in ('map.wd', 'map.rd'):
                    next(it)
                    if op == 'map.wd':
                        self.write(int(f[1], 0), int(f[2], 0))
                else:
                    break          # unknown op: stop judging this case
                if len(self.deviations) > 20:
                    break
        except (StopIteration, ValueError):
            pass
        return self.deviations
