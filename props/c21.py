"""C21 — channel waveforms run at the documented frequencies."""
from props.apu_common import *

ID = 'C21'
PROP_FILE = 'Properties/C21.v'
RULE = ('channels 1-3: every 11-bit frequency in thorough, 256 sampled (all of 2040-2047, 0, 1, 1023, 1024 + random) in '
        'quick; both register write orders (NRx3 then NRx4, and NRx4 then NRx3 for frequencies with bit 10 set); one channel '
        'observed per clock while the other channels are written and triggered at random machine cycles; '
        'all three channels triggered with the same frequency, duty index / wave position observed after '
        'every clock through the audio hook for 10 square steps (40*(2048-f) clocks), and for 3 full 32-step wave '
        'periods on a subset; channel 4: every NR43 value with s <= 13 in both widths: reload value of the noise timer '
        'after the trigger and the clocks between LFSR steps over 3 periods (periods <= 16384 clocks in quick, all in '
        'thorough); LFSR state and output period measured on the real code over 65,600 steps (15-bit) and 400 steps '
        '(7-bit).  A case is non-trivial when at least one waveform step was observed; distinct = distinct '
        '(channel kind, register value)')
LEVEL_NOTE = ('Theorems C21_* are closed forms in the number of elapsed clocks n : N for every frequency f < 2048 / '
              'every NR43 value, and exact LFSR periods by computation of the whole orbit; the Go code is tied to the '
              'model by per-clock observation through the verif hook, and its step instants are additionally judged '
              'against the documented periods directly (props/c21.py extra).')
ASSUMPTIONS = ['the position is observed through gameboy/audio/verif_hooks.go (VGetState, VTickClock)',
               'clock 1 is the first clock after the machine cycle in which the trigger was written (the trigger '
               'cycle itself does not advance the frequency timer)']
ALLOWED_AXIOMS = []


def tone_case(f, nclk):
    lo, hi = f & 0xFF, f >> 8
    return [w(NR12, 0xF0), w(NR22, 0xF0), w(NR30, 0x80), w(NR32, 0x20),
            w(NR13, lo), w(NR23, lo), w(NR33, lo),
            w(NR14, 0x80 | hi), w(NR24, 0x80 | hi), w(NR34, 0x80 | hi),
            cyc(1), 'apu.clk %d 7' % nclk]


def tone_case_rev(f, nclk):
    """high bits (with the trigger) first, low byte afterwards: NRx4 then NRx3"""
    lo, hi = f & 0xFF, f >> 8
    return [w(NR12, 0xF0), w(NR22, 0xF0), w(NR30, 0x80), w(NR32, 0x20),
            w(NR14, 0x80 | hi), w(NR24, 0x80 | hi), w(NR34, 0x80 | hi),
            w(NR13, lo), w(NR23, lo), w(NR33, lo),
            cyc(1), 'apu.clk %d 7' % nclk]


OTHERS = {1: [NR21, NR22, NR23, NR24, NR30, NR31, NR32, NR33, NR34, NR41, NR42, NR43, NR44, NR50, NR51],
          2: [NR10, NR11, NR12, NR13, NR14, NR30, NR31, NR32, NR33, NR34, NR41, NR42, NR43, NR44, NR50, NR51],
          3: [NR10, NR11, NR12, NR13, NR14, NR21, NR22, NR23, NR24, NR41, NR42, NR43, NR44, NR50, NR51]}


def interleave_case(rng, ch, f, segments):
    """channel ch runs undisturbed at frequency f and is observed after every clock, while the OTHER channels'
    registers are written (triggers included) at random machine cycles in between"""
    lo, hi = f & 0xFF, f >> 8
    lines = [w(NR12, 0xF0), w(NR22, 0xF0), w(NR30, 0x80), w(NR32, 0x20), w(NR42, 0xF0), w(NR10, 0x00),
             w(NR13, lo), w(NR23, lo), w(NR33, lo), w(NR14, 0x80 | hi), w(NR24, 0x80 | hi), w(NR34, 0x80 | hi),
             w(NR44, 0x80), cyc(1)]
    sel = {1: 1, 2: 2, 3: 4}[ch]
    for _ in range(segments):
        lines.append('apu.clk %d %d' % (4 * rng.randrange(1, 60), sel))
        for _ in range(rng.randrange(1, 3)):
            a = rng.choice(OTHERS[ch])
            v = rng.choice([0x80, 0x87, 0xC0, 0x86, rng.randrange(256)]) if a in (NR14, NR24, NR34, NR44) else \
                rng.choice([0xF0, 0x80, 0x08, rng.randrange(256)])
            if a == NR10:
                v = 0x00                  # keep channel 1's sweep idle (it would change f)
            lines.append(w(a, v))
        lines.append(cyc(rng.randrange(1, 4)))
    lines.append('apu.clk 64 %d' % sel)
    lines.append('apu.st')
    return lines


def sweep_case(nr10, f, nclk):
    """channel 1 playing with an ACTIVE sweep unit; duty position after every clock across several write-backs"""
    return [w(NR12, 0xF0), w(NR10, nr10), w(NR13, f & 0xFF), w(NR14, 0x80 | (f >> 8)), cyc(1), 'apu.clk %d 1' % nclk,
            'apu.st']


def sweep_duty_changes(nr10, f, nclk):
    """documented behaviour from a fresh APU: the duty timer is reloaded with 4*(2048-f) only when a step ends, with
    the frequency in force at that moment; the sweep unit writes the frequency back on its own clock (sequencer steps
    2 and 6, a step every 8192 clocks) without touching the running duty timer.  Returns [(clock, duty index)]"""
    period, negate, shift = (nr10 >> 4) & 7, nr10 & 8, nr10 & 7

    def calc(x):
        return x - (x >> shift) if negate else x + (x >> shift)
    timer = 4 * (2048 - f)
    idx = 0
    shadow = f
    sw_timer = period or 8
    sw_on = bool(period or shift)
    out = [(0, 0)]
    g = 4                                    # the trigger's machine cycle: four clocks without a timer tick
    for k in range(1, nclk + 1):
        g += 1
        if timer == 0:
            timer = 4 * (2048 - f)
            idx = (idx + 1) % 8
            out.append((k, idx))
        timer -= 1
        if g % 8192 == 0 and (g // 8192 - 1) % 4 == 2 and sw_on:
            sw_timer -= 1
            if sw_timer == 0:
                sw_timer = period or 8
                if period:
                    nf = calc(shadow)
                    if nf <= 2047 and shift:
                        f = shadow = nf
    return out


def check_sweep(cid, impl):
    _, a, b, n = cid.split('_')
    nr10, f, nclk = int(a, 16), int(b, 16), int(n)
    got = [(k, v[0]) for k, v in parse_clk([l for l in impl if l.startswith('t ')][0])]
    want = sweep_duty_changes(nr10, f, nclk)
    if got != want:
        for x, y in zip(got, want):
            if x != y:
                return ('channel 1 with NR10=%02X from f=%03X: duty step (clock, index) %s, documented %s (a step lasts '
                        '4*(2048-f) clocks with the f in force when it started)' % (nr10, f, x, y))
        return 'channel 1 with NR10=%02X from f=%03X: %d duty steps, documented %d' % (nr10, f, len(got) - 1, len(want) - 1)
    return None


def noise_case(v, run_clocks):
    lines = [w(NR42, 0xF0), w(NR43, v), w(NR44, 0x80), cyc(1), 'apu.clk 1 16']
    if run_clocks:
        lines.append('apu.clk %d 8' % run_clocks)
    return lines


def noise_period(v):
    r, s = v & 7, v >> 4
    return (8 if r == 0 else 16 * r) << s


def generate(rng, tier):
    cases = []
    if tier == 'thorough':
        freqs = list(range(2048))
    else:
        freqs = sorted(set(list(range(2040, 2048)) + [0, 1, 255, 256, 1023, 1024, 1791, 1792] +
                           [rng.randrange(2048) for _ in range(400)]))[:]
        rng.shuffle(freqs)
        freqs = sorted(freqs[:256])
    for f in freqs:
        cases.append(('f%d' % f, tone_case(f, 40 * (2048 - f) + 8)))
    full = [2047, 2046, 2040, 2000, 1900, 1792, 1536] if tier == 'quick' else list(range(0, 2048, 16)) + [2047, 2046]
    for f in full:
        cases.append(('F%d' % f, tone_case(f, 3 * 64 * (2048 - f) + 8)))
    # both write orders: NRx4 (high bits, trigger) first and NRx3 afterwards, for frequencies with bit 10 set too
    revs = ([0x400, 0x401, 0x4FF, 0x5A7, 0x6D6, 0x700, 0x7FE, 0x7FF, 0x3FF, 0x2A5, 0x100, 0x0FF] if tier == 'quick'
            else list(range(0, 2048, 37)) + [0x400, 0x7FF, 0x3FF])
    for f in revs:
        cases.append(('R%d' % f, tone_case_rev(f, min(40 * (2048 - f) + 8, 6000))))
    # one channel observed per clock while the others are written / triggered at random cycles
    nint = 0
    for k in range(36 if tier == 'quick' else 600):
        ch = 1 + k % 3
        f = rng.choice([0x700, 0x7C0, 0x7FF, 0x7F0, 0x600, rng.randrange(0x600, 0x800)])
        cases.append(('I%d_%d_%d' % (ch, f, k), interleave_case(rng, ch, f, rng.randrange(4, 12))))
        nint += 1
    # channel 1 with an active sweep (subtraction, or small additions that do not overflow for a while)
    sweeps = [(0x19, 0x400), (0x1A, 0x700), (0x29, 0x555), (0x17, 0x100), (0x15, 0x300), (0x1F, 0x7FF)]
    if tier != 'quick':
        sweeps += [(p << 4 | n << 3 | sh, f) for p in (1, 2, 3) for n in (0, 1) for sh in (1, 2, 4, 7) for f in (0x080, 0x400, 0x6F0)]
    for nr10, f in sweeps:
        nclk = 32768 * ((nr10 >> 4) & 7) * 4 + 9000
        cases.append(('S_%02X_%03X_%d' % (nr10, f, nclk), sweep_case(nr10, f, nclk)))
    nnoise = 0
    for v in range(256):
        if (v >> 4) > 13:
            continue
        p = noise_period(v)
        run = 3 * p + 8 if (tier == 'thorough' or p <= 16384) else 0
        cases.append(('n%02X' % v, noise_case(v, run)))
        nnoise += 1
    # LFSR periods measured on the real code
    cases.append(('lfsr15', [w(NR42, 0xF0), w(NR43, 0x00), w(NR44, 0x80), cyc(1), 'apu.lfsrper 65600 1000000']))
    cases.append(('lfsr7', [w(NR42, 0xF0), w(NR43, 0x08), w(NR44, 0x80), cyc(1), 'apu.lfsrper 400 100000']))
    cases.append(('lfsr15r3', [w(NR42, 0xF0), w(NR43, 0x13), w(NR44, 0x80), cyc(1), 'apu.lfsrper 200 1000000']))
    cases.append(('lfsr7r1', [w(NR42, 0xF0), w(NR43, 0x29), w(NR44, 0x80), cyc(1), 'apu.lfsrper 300 1000000']))
    info = dict(exhaustive=(tier == 'thorough'),
                input_distribution=dict(frequencies=len(freqs), full_period_frequencies=len(full), reversed_write_order=len(revs),
                                        interleaved_cases=nint, nr43_values=nnoise,
                                        lfsr_period_runs=4),
                samples=[dict(case=cases[0][0], script=cases[0][1])])
    return cases, info


def nontrivial(cid, lines, impl):
    if not impl:
        return None
    for l in impl:
        if l.startswith('t ') and len(l.split()) > 4:
            return cid
        if l.startswith('lp '):
            return cid
    return None


def matches_known(k, case, impl, model):
    return False


def judge(case, impl, model):
    return ('waveform position / LFSR observed per clock differs from the model, whose step instants C21_square, '
            'C21_wave, C21_noise_clock and C21_lfsr* prove equal to the documented periods')


# ---- implementation judged directly against the documented periods ----
def parse_clk(line):
    """'t 0:a/b/c 5:a/b/c ... p N' -> list of (clock, [ints])"""
    body = line[2:].rsplit(' p ', 1)[0]
    out = []
    for part in body.split():
        k, v = part.split(':')
        out.append((int(k), [int(x) for x in v.split('/')]))
    return out


def check_tone(f, line):
    pts = parse_clk(line)
    n = max(k for k, _ in pts)
    # expected: duty index 0 + (k-1)//P mod 8 for k >= 1 (index starts at 0 in a fresh APU), wave (k-1)//Q mod 32
    P, Q = 4 * (2048 - f), 2 * (2048 - f)
    cur = dict(pts)
    last = pts[0][1]
    vals = {}
    for k, v in pts:
        vals[k] = v
    prev = pts[0][1]
    # reconstruct per-clock values only at change points and just before them
    for k, v in pts[1:]:
        for kk in (k - 1, k):
            vv = prev if kk < k else v
            e1 = ((kk - 1) // P) % 8 if kk >= 1 else 0
            e3 = ((kk - 1) // Q) % 32 if kk >= 1 else 0
            if vv[0] != e1 or vv[1] != e1 or vv[2] != e3:
                return 'f=%d clock %d: duty1/duty2/wave = %s, documented %d/%d/%d' % (f, kk, vv, e1, e1, e3)
        prev = v
    # number of change points must match
    exp_changes = len(set([P * i + 1 for i in range(1, n // P + 2) if P * i + 1 <= n] +
                          [Q * i + 1 for i in range(1, n // Q + 2) if Q * i + 1 <= n]))
    if len(pts) - 1 != exp_changes:
        return 'f=%d: %d change points in %d clocks, documented %d' % (f, len(pts) - 1, n, exp_changes)
    return None


def check_rev(f, line):
    """NRx4 then NRx3: after the first step every later step interval is the documented one"""
    pts = parse_clk(line)
    P, Q = 4 * (2048 - f), 2 * (2048 - f)
    for idx, per, name in ((1, P, 'channel 2'), (2, Q, 'channel 3')):
        steps = [k for (k, v), (_, pv) in zip(pts[1:], pts[:-1]) if v[idx] != pv[idx]]
        gaps = [b - a for a, b in zip(steps[1:], steps[2:])]
        if any(g != per for g in gaps):
            return 'f=%03X written high-then-low: %s steps %s clocks apart, documented %d' % (f, name, sorted(set(gaps)), per)
    return None


def check_interleave(cid, lines, impl):
    """the observed channel was triggered once and never written again: its position must be the closed form in the
    total number of clocks elapsed (4 per machine cycle), whatever happened to the other channels"""
    _, f, _ = cid[1:].split('_')
    ch, f = int(cid[1]), int(f)
    per, mod = (4 * (2048 - f), 8) if ch in (1, 2) else (2 * (2048 - f), 32)
    clocks = 0
    out = iter(impl)
    first = True
    for l in lines:
        if l.startswith('apu.cyc'):
            next(out)
            if not first:
                clocks += 4 * int(l.split()[1])
            first = False
        elif l.startswith('apu.clk'):
            pts = parse_clk(next(out))
            n = int(l.split()[1])
            for k, v in pts:
                tot = clocks + k
                want = ((tot - 1) // per) % mod if tot >= 1 else 0
                if v[0] != want:
                    return ('channel %d at f=%03X: position %d after %d clocks (other channels written meanwhile), '
                            'documented %d' % (ch, f, v[0], tot, want))
            clocks += n
        elif l.startswith('apu.st'):
            next(out)
    return None


def check_noise(v, impl):
    p = noise_period(v)
    t = parse_clk(impl[1])
    # after the trigger cycle and one clock the timer shows period-1
    if t[-1][1][3] != p - 1:
        return 'NR43=%02X: noise timer after one clock is %d, documented period %d' % (v, t[-1][1][3], p)
    if len(impl) > 2:
        pts = parse_clk(impl[2])
        steps = [k for k, _ in pts[1:]]
        # first step of apu.clk happens when the timer (p-1 after the first clock) runs out: clock p of this op
        exp = [p * i for i in range(1, 4)]
        # a step that leaves the register unchanged is not visible; the first step from FFFF gives 7FFF (visible)
        if steps[:1] != exp[:1] or any((b - a) % p for a, b in zip(steps, steps[1:])):
            return 'NR43=%02X: LFSR steps at clocks %s, documented every %d clocks' % (v, steps[:4], p)
    return None


def extra(check, impl_cases, model_cases, cases):
    out = []
    for cid, lines in cases:
        impl = impl_cases.get(cid)
        if not impl:
            continue
        msg = None
        if cid[0] in 'fF' and cid[1:].isdigit():
            msg = check_tone(int(cid[1:]), impl[1])
        elif cid[0] == 'R' and cid[1:].isdigit():
            msg = check_rev(int(cid[1:]), impl[1])
        elif cid.startswith('S_'):
            msg = check_sweep(cid, impl)
        elif cid[0] == 'I':
            msg = check_interleave(cid, lines, impl)
        elif cid[0] == 'n':
            msg = check_noise(int(cid[1:], 16), impl)
        elif cid.startswith('lfsr'):
            f = impl[1].split()
            want = 127 if cid.startswith('lfsr7') else 32767
            nsteps = int(f[1])
            if cid in ('lfsr15', 'lfsr7'):
                if int(f[2]) != want or int(f[3]) != want:
                    msg = '%s: state period %s, output period %s over %d steps, documented %d' % (cid, f[2], f[3], nsteps, want)
            gap_want = noise_period({'lfsr15': 0x00, 'lfsr7': 0x08, 'lfsr15r3': 0x13, 'lfsr7r1': 0x29}[cid])
            if int(f[4]) != gap_want:
                msg = '%s: %s clocks between steps, documented %d' % (cid, f[4], gap_want)
        if msg:
            out.append(dict(case=cid, script=lines, impl=impl, model=model_cases.get(cid),
                            verdict='implementation violates the statement directly: ' + msg))
            if len(out) >= 5:
                break
    return out
