"""C25 — emulator instances in one process are independent."""
import itertools
from props import sysgen

ID = 'C25'
PROP_FILE = 'Properties/C25.v'
RULE = ('pairs and triples of instances over different ROMs, created in every order, stepped in interleaved schedules at '
        'frame and at machine-cycle granularity and concurrently (one goroutine per instance), every instance compared '
        'with its solo run in the model; non-trivial = at least two instances advanced; distinct = distinct case ids')
LEVEL_NOTE = ('C25_independent: stepping one instance of the product model leaves the others untouched, for every schedule; '
              'the product model is faithful because the source shares no state between instances (C25_tables_per_instance, '
              're-derived from dispatch.go on every run). PARTIAL: data races between concurrently running instances are a '
              'runtime matter the model does not exhibit; the concurrent schedules of this check exercise them without the '
              'race detector.')
ASSUMPTIONS = ['pure-Go stand-ins for GLFW/GL/PortAudio']
ALLOWED_AXIOMS = []
MAX_REPORT = 3
KEEP_PREFIX = 0


def obs_all(n):
    out = []
    for i in range(n):
        out += ['gb.obs %d' % i, 'gb.pix %d' % i, 'gb.serial %d' % i]
    return out


def generate(rng, tier):
    rl = sysgen.quick_roms()
    cases = []
    k = 0
    combos = list(itertools.permutations(range(min(3, len(rl))), 2)) + list(itertools.permutations(range(min(3, len(rl))), 3))
    if tier != 'quick':
        combos += list(itertools.permutations(range(min(6, len(rl))), 3))[:120]
    for combo in combos:
        n = len(combo)
        lines = ['gb.new %d %s' % (i, sysgen.enc(rl[r])) for i, r in enumerate(combo)]
        mode = k % 3
        if mode == 0:       # interleaved frames
            for _ in range(6):
                i = rng.randrange(n)
                lines.append('gb.frames %d 1' % i)
                lines += obs_all(n)
        elif mode == 1:     # interleaved machine cycles
            for _ in range(40):
                lines.append('gb.cyc %d %d' % (rng.randrange(n), rng.randrange(1, 3000)))
            lines += obs_all(n)
        else:               # concurrent
            lines.append('gb.conc %d %d' % (n, 3))
            lines += obs_all(n)
        cases.append(('inst%d' % k, lines))
        k += 1
    # the first instance stepped after a later one was created
    lines = ['gb.new 0 %s' % sysgen.enc(rl[0]), 'gb.obs 0', 'gb.new 1 %s' % sysgen.enc(rl[1]), 'gb.cyc 0 1', 'gb.obs 0', 'gb.obs 1',
             'gb.cyc 0 1000', 'gb.obs 0', 'gb.obs 1']
    cases.append(('create_then_step', lines))
    # interrupt dispatch (running and halted) on an instance that is not the most recently created one
    nint = 0
    for prog in ([0xfb, 0x18, 0xfe], [0xfb, 0x76, 0x18, 0xfd], [0xfb, 0x00, 0x76, 0x00, 0x18, 0xfa]) * (1 if tier == 'quick' else 6):
        for target in (0, 1, 2)[:2 if tier == 'quick' else 3]:
            lines = ['gb.newloop %d 0 0 0' % i for i in range(3)]
            for i, b in enumerate(prog):
                lines.append('gb.w %d %d %d' % (target, 0xc000 + i, b))
            lines.append('gb.set %d 1 2 3 4 5 0 6 7 57343 49152' % target)
            lines += ['gb.w %d 65535 %d' % (target, rng.choice([0x1f, 0x05, 0x04])), 'gb.w %d 65287 5' % target,
                      'gb.w %d 65286 %d' % (target, rng.randrange(200, 256)), 'gb.w %d 65285 250' % target]
            for _ in range(30):
                lines.append('gb.cyc %d %d' % (target, rng.choice([1, 2, 3, 5, 7, 20, 100])))
                lines += obs_all(3)
            lines += ['gb.rr %d 57328 57343' % i for i in range(3)]
            cases.append(('irq%d' % nint, lines))
            nint += 1
    # OAM DMA on an instance that is not the most recent one, every instance with its own source data
    ndma = 0
    for target in (0, 1, 2):
        lines = ['gb.newloop %d 0 0 0' % i for i in range(3)]
        for i in range(3):
            for j in range(0, 160, 7):
                lines.append('gb.w %d %d %d' % (i, 0xc000 + j, (17 * i + 3 * j + 1) & 255))
        lines += ['gb.w %d 65350 192' % target, 'gb.cyc %d 170' % target]
        lines += ['gb.rr %d 65024 65183' % i for i in range(3)]
        lines += ['gb.w %d 65350 192' % ((target + 1) % 3), 'gb.cyc %d 170' % ((target + 1) % 3)]
        lines += ['gb.rr %d 65024 65183' % i for i in range(3)]
        cases.append(('dma%d' % ndma, lines))
        ndma += 1
    # machines running truly in parallel, each streaming its own bytes to its serial writer
    for rep in range(2 if tier == 'quick' else 10):
        nI = 3
        lines = ['gb.newloop %d 0 0 0' % i for i in range(nI)]
        for i in range(nI):
            prog = [0x3e, 0x20 + 0x30 * i, 0xe0, 0x01, 0x3c, 0xfe, 0x40 + 0x30 * i, 0x38, 0xf9, 0x18, 0xf5]
            for j, b in enumerate(prog):
                lines.append('gb.w %d %d %d' % (i, 0xc000 + j, b))
            lines.append('gb.set %d 1 2 3 4 5 0 6 7 57343 49152' % i)
        lines += ['gb.conc %d %d' % (nI, 12 if tier == 'quick' else 40)] + ['gb.serial %d' % i for i in range(nI)] + obs_all(nI)
        cases.append(('parser%d' % rep, lines))
    # machines with the audio output attached: each has its own sample stream; shutting one down leaves the other running
    for rep in range(2 if tier == 'quick' else 8):
        lines = ['gb.newloop 0 0 0 0 1 0', 'gb.newloop 1 0 0 0 1 0', 'gb.newloop 2 0 0 0 0 0']
        for i in (0, 1):
            lines += ['gb.w %d 65318 128' % i, 'gb.w %d 65316 119' % i, 'gb.w %d 65317 255' % i, 'gb.w %d 65298 %d' % (i, 0xf3 - 0x30 * i),
                      'gb.w %d 65299 %d' % (i, rng.randrange(256)), 'gb.w %d 65300 %d' % (i, 0x80 | rng.randrange(8))]
        lines += ['gb.frames 0 2', 'gb.audio 0', 'gb.audio 1', 'gb.frames 1 1', 'gb.audio 1', 'gb.audio 0', 'gb.obs 0', 'gb.obs 1',
                  'gb.runcancel 0 3', 'gb.frames 1 2', 'gb.audio 1', 'gb.obs 1', 'gb.obs 2']
        cases.append(('snd%d' % rep, lines))
    # a machine created with the debugging picture next to ordinary ones (it is only stepped, never observed)
    import random as _r
    for rep in range(2 if tier == 'quick' else 8):
        lines = ['gb.newloop 0 0 0 0 0 0 1 1', 'gb.newloop 1 0 0 0', 'gb.frames 0 1'] + sysgen.scene_lines(_r.Random(rng.randrange(1 << 30)), 1)
        lines += ['gb.frames 1 2', 'gb.pix 1', 'gb.frames 0 1', 'gb.newloop 2 0 0 0'] + sysgen.scene_lines(_r.Random(rng.randrange(1 << 30)), 2)
        lines += ['gb.frames 2 2', 'gb.pix 2', 'gb.obs 1', 'gb.obs 2']
        cases.append(('dbg%d' % rep, lines))
    # machines drawing different pictures truly in parallel
    for rep in range(2 if tier == 'quick' else 10):
        nI = 4
        lines = []
        for i in range(nI):
            lines += ['gb.newloop %d 0 0 0' % i] + sysgen.scene_lines(_r.Random(rng.randrange(1 << 30)), i)
        lines += ['gb.conc %d %d' % (nI, 6 if tier == 'quick' else 20)] + ['gb.pix %d' % i for i in range(nI)] + obs_all(nI)
        cases.append(('pardraw%d' % rep, lines))
    # a ROM-only machine keeps its image when later machines are loaded from other (not larger) files
    for rep in range(2 if tier == 'quick' else 8):
        lines = ['gb.newloop 0 0 0 0', 'gb.rr 0 320 335', 'gb.newloop 1 %d 0 %d' % (rng.choice([1, 3, 19, 27]), rng.choice([2, 3])),
                 'gb.rr 0 320 335', 'gb.rr 1 320 335', 'gb.newsyn 2 0 0 0', 'gb.rr 0 320 335', 'gb.rr 0 16384 16399',
                 'gb.rr 2 16384 16399', 'gb.frames 0 1', 'gb.obs 0']
        cases.append(('romkeep%d' % rep, lines))
    # a machine in STOP mode is woken by its own buttons only
    for rep in range(2 if tier == 'quick' else 8):
        lines = ['gb.newloop 0 0 0 0', 'gb.newloop 1 0 0 0']
        for j, b in enumerate([0x10, 0x00, 0x3c, 0x18, 0xfd]):
            lines.append('gb.w 0 %d %d' % (0xc000 + j, b))
        lines += ['gb.set 0 1 2 3 4 5 0 6 7 57343 49152', 'gb.cyc 0 20', 'gb.obs 0', 'gb.btn 1 %d 1' % rng.randrange(8), 'gb.cyc 1 5', 'gb.cyc 0 50', 'gb.obs 0',
                  'gb.btn 1 %d 0' % rng.randrange(8), 'gb.cyc 0 50', 'gb.obs 0', 'gb.obs 1']
        cases.append(('stopwake%d' % rep, lines))
    # external RAM of cartridges that declare none / some: written on one instance, read on the others
    nram = 0
    for typ, ramc in [(0x01, 0), (0x00, 0), (0x11, 0), (0x19, 0), (0x03, 2), (0x13, 3), (0x1b, 2), (0x06, 0)]:
        lines = ['gb.newloop %d %d 1 %d' % (i, typ, ramc) for i in range(3)]
        lines += ['gb.w %d 0 10' % i for i in range(3)]
        for _ in range(12):
            i = rng.randrange(3)
            a = rng.choice([0xa000, 0xa001, 0xa1ff, 0xbfff, rng.randrange(0xa000, 0xc000)])
            lines.append('gb.w %d %d %d' % (i, a, rng.randrange(255)))
            lines += ['gb.r %d %d' % (j, a) for j in range(3)]
        lines += ['gb.dump %d' % i for i in range(3)]
        cases.append(('ram%d' % nram, lines))
        nram += 1
    info = dict(input_distribution=dict(combinations=len(combos), interrupt_cases=nint, cartridge_ram_cases=nram), samples=[dict(case=cases[0][0], script=cases[0][1][:14])])
    return cases, info


def nontrivial(cid, lines, impl):
    if impl and len(set(impl)) > 3:
        return cid
    return None


def matches_known(k, case, impl, model):
    return False


def judge(case, impl, model):
    return 'an instance does not behave like its solo run: the other instance(s) influenced it'
