"""C16 — an OAM DMA transfer copies 160 bytes and blocks OAM meanwhile."""
ID = 'C16'
PROP_FILE = 'Properties/C16.v'
# extraction needs every model file of frag_ppu.txt compiled, also those outside this property's closure
EXTRA_COQ = ['model/Oam.v', 'model/PpuTiming.v', 'proofs/OamProofs.v']
RULE = ('every source page 00-FF (the statement: 00-F1) with a source oracle byte = f(address, cycle) shared by '
        'both sides, constant and changing every cycle, from random initial OAM contents: FF46 read-back, OAM '
        'read through Read after every one of 162+ cycles (run-length encoded), full OAM dump and engine state '
        'at the end; restarts of a running transfer at random cycles (1-3 restarts, any cycle 0-170); DMA '
        'interleaved with PPU cycles (object scan during a transfer); random CPU-side access sequences on the '
        'corruption bookkeeping (model tie for C17); a case is non-trivial when its dumps differ, or an access '
        'was pending inside the mode-2 window, or it ends in a panic; distinct = distinct case scripts')
LEVEL_NOTE = ('Theorems C16_copy/C16_blocked/C16_restart/C16_readable_after hold for every page, every source '
              'oracle (changing every cycle), every initial OAM state and every restart point; oam.go is tied to '
              'the model by the correspondence of this run and compared with the statement-level expectation '
              '(DmaSpec) computed in props/c16.py.')
ASSUMPTIONS = ['the value written to FF46 is a byte', 'bus reads during DMA have no side effect on OAM state '
               '(sources are 0000-DF9F: ROM, VRAM, cartridge RAM, work RAM)']
ALLOWED_AXIOMS = []
KEEP_PREFIX = 0
MAX_REPORT = 3


def src(addr, t, a, b):
    return ((addr & 0xff) * a + (addr >> 8) * 3 + t * b + 5) & 0xff


def source(xx):
    return xx * 256 if xx < 0xE0 else xx * 256 - 0x2000


def generate(rng, tier):
    cases = []
    reps = 1 if tier == 'quick' else 8
    for rep in range(reps):
        for xx in range(256):
            a = rng.randrange(1, 256) | 1
            b = rng.choice([0, 1, rng.randrange(256)])
            lines = ['oam.fill %d %d' % (rng.randrange(256), rng.randrange(256)), 'oam.dump',
                     'dma.start %d' % xx, 'dma.r', 'dma.run %d %d %d' % (rng.choice([162, 163, 170]), a, b),
                     'oam.dump', 'oam.st', 'dma.run 7 %d %d' % (a, b), 'oam.dump', 'dma.r']
            cases.append(('page%02x_%d' % (xx, rep), lines))
    nre = 150 if tier == 'quick' else 2000
    for i in range(nre):
        lines = ['oam.fill %d %d' % (rng.randrange(256), rng.randrange(256))]
        if rng.random() < 0.3:
            lines.append('dma.run %d 1 1' % rng.randrange(0, 5))   # ticks while idle
        for _ in range(rng.randrange(1, 4)):
            a = rng.randrange(1, 256) | 1
            b = rng.choice([0, 1, rng.randrange(256)])
            lines.append('dma.start %d' % rng.randrange(0, 0xF2))
            n = rng.choice([0, 1, 2, 3, 160, 161, 162, 163, rng.randrange(0, 171)])
            lines.append('dma.run %d %d %d' % (n, a, b))
            if rng.random() < 0.3:
                lines.append('oam.dump')
        a = rng.randrange(1, 256) | 1
        b = rng.choice([0, 1, rng.randrange(256)])
        lines += ['dma.start %d' % rng.randrange(0, 0xF2), 'dma.r', 'dma.run 165 %d %d' % (a, b), 'oam.dump', 'oam.st']
        cases.append(('restart%d' % i, lines))
    # DMA and PPU together: the object scan reads FF while a transfer runs (model tie for C17)
    nmix = 30 if tier == 'quick' else 300
    for i in range(nmix):
        lines = ['oam.fill %d %d' % (rng.randrange(256), rng.randrange(256)), 'ppu.w 0x40 0x91']
        for _ in range(rng.randrange(2, 7)):
            lines.append('ppu.tick %d' % rng.randrange(0, 300))
            if rng.random() < 0.5:
                lines.append('dma.start %d' % rng.randrange(0, 0xF2))
            lines.append('dma.run %d %d 1' % (rng.randrange(0, 100), rng.randrange(1, 256) | 1))
            lines.append('ppu.ov')
            lines.append('ppu.st')
        lines.append('oam.dump')
        cases.append(('mix%d' % i, lines))
    # the corruption bookkeeping of the OAM model (what C17 builds on): random CPU-side accesses inside and
    # outside the mode-2 window, for every row the PPU may have accessed last, incl. addresses outside OAM
    nbug = 400 if tier == 'quick' else 5000
    for i in range(nbug):
        lines = ['oam.fill %d %d' % (rng.randrange(256), rng.randrange(256))]
        r = rng.random()
        pla = (0xfe00 + rng.randrange(160)) if r < 0.9 else rng.choice([0, 0xfdff, 0xfea0, 0xfeff, 0xff00, 0xffff, rng.randrange(65536)])
        lines.append('oam.pla %d' % pla)
        for _ in range(rng.randrange(1, 12)):
            q = rng.random()
            a = 0xfe00 + rng.randrange(256)
            if q < 0.15:
                lines.append(rng.choice(['oam.enter', 'oam.exit']))
            elif q < 0.35:
                lines.append('oam.w %d %d' % (a, rng.randrange(256)))
            elif q < 0.55:
                lines.append('oam.r %d' % a)
            elif q < 0.7:
                lines.append('oam.trig %d' % rng.choice([a, a, 0xfdff, 0xff00, rng.randrange(65536)]))
            elif q < 0.75:
                lines.append('oam.pr %d' % (0xfe00 + rng.randrange(160)))
            else:
                lines += ['oam.corrupt', 'oam.st']
        lines += ['oam.corrupt', 'oam.dump', 'oam.st']
        cases.append(('bug%d' % i, lines))
    # the whole machine: reads of FE00-FEFF through the real Mapper while a transfer runs, and after it
    nbus = 24 if tier == 'quick' else 200
    for i in range(nbus):
        page = rng.choice([0xc0, 0xc1, 0xd0, 0x80, 0x98])
        lines = ['sys.cpurom', 'sys.w 65344 %d' % (0x00 if i % 3 else 0x91)]
        vals = [rng.randrange(256) for _ in range(160)]
        for j, v in enumerate(vals):
            lines.append('sys.w %d %d' % ((page << 8) + j, v))
        lines += ['sys.w 65350 %d' % page, 'sys.hw %d' % rng.choice([1, 2, 3, 50, 100, 158, 159, rng.randrange(1, 160)]),
                  'sys.rr 65024 65279', 'sys.r 65350', 'sys.hw 170', 'sys.rr 65024 65279']
        cases.append(('bus%d' % i, lines))
    info = dict(exhaustive=False,
                input_distribution=dict(pages=256 * reps, whole_machine_bus_cases=nbus, restart_cases=nre, mixed_ppu_cases=nmix,
                                        oam_bug_model_cases=nbug,
                                        dma_cycles=sum(int(l.split()[1]) for c in cases for l in c[1]
                                                       if l.startswith('dma.run'))),
                samples=[dict(case=c[0], script=c[1]) for c in (cases[0xE5], cases[256 * reps + 3])])
    return cases, info


def nontrivial(cid, lines, impl):
    if not impl:
        return None
    if lines and lines[0].startswith('sys.'):
        return cid
    dumps = [l for l in impl if l.startswith('oam ')]
    if len(set(dumps)) > 1:
        return cid
    # corruption-model cases: an access was pending inside the window, or the case ended in a panic
    if any((' r=1' in l or ' w=1' in l or l.startswith('PANIC')) for l in impl):
        return cid
    return None


def matches_known(k, case, impl, model):
    return False


def spec_check_bus(script, out):
    """whole-machine cases: FE00-FEFF read FF through the Mapper while the transfer runs; afterwards (LCD off) the
    copied bytes and 0 for FEA0-FEFF"""
    if len(out) < 3:
        return 'output ended early (crash?): %s' % (out[-1] if out else '')
    during, reg, after = out[0], out[1], out[2]
    hw = int([l for l in script if l.startswith('sys.hw')][0].split()[1])
    page = int([l for l in script if l.startswith('sys.w 65350')][0].split()[2])
    if during != 'ff' * 256:
        i = [during[2 * k:2 * k + 2] != 'ff' for k in range(256)].index(True)
        return '%d cycles after the write to FF46 Mapper.Read(%04x) = 0x%s, not 0xFF' % (hw, 0xfe00 + i, during[2 * i:2 * i + 2])
    if int(reg) != page:
        return 'FF46 reads %s after %d was written' % (reg, page)
    lcd_off = script[1].split()[2] == '0'
    if lcd_off:
        src = {}
        for l in script:
            f = l.split()
            if f[0] == 'sys.w' and (int(f[1]) >> 8) == page:
                src[int(f[1]) & 255] = int(f[2])
        want = ''.join('%02x' % src.get(k, 0) for k in range(160)) + '00' * 96
        if after != want:
            i = [after[2 * k:2 * k + 2] != want[2 * k:2 * k + 2] for k in range(256)].index(True)
            return 'after the transfer Mapper.Read(%04x) = 0x%s, expected 0x%s' % (0xfe00 + i, after[2 * i:2 * i + 2], want[2 * i:2 * i + 2])
    return None


def spec_check(script, out):
    if script and script[0].startswith('sys.'):
        return spec_check_bus(script, out)
    if any(l.startswith(('oam.pla', 'oam.enter')) for l in script):
        return None            # corruption-model cases: correspondence only
    """statement-level expectation: FF46 read-back; 0xFF from Read while a transfer runs (fewer than 162 cycles
    since the last write to FF46); after 162 uninterrupted cycles the dump is the source as copied and Read
    returns it (0 for FEA0-FEFF)."""
    t = 0                      # DMA cycles so far in this case
    start = None               # (t0, xx) of the last write
    oam = None                 # known contents after a completed transfer (None = not determined by the statement)
    reg = None
    it = iter(out)
    try:
        for line in script:
            f = line.split()
            op = f[0]
            if op == 'oam.fill':
                a, b = int(f[1], 0), int(f[2], 0)
                oam = [(i * a + b) & 0xff for i in range(160)] if start is None else None
            elif op == 'dma.start':
                start = (t, int(f[1], 0), None)
                reg = int(f[1], 0) & 0xff
                oam = None
            elif op == 'dma.r':
                v = int(next(it))
                if reg is not None and v != reg:
                    return 'FF46 reads %d after %d was written' % (v, reg)
            elif op == 'dma.run':
                n, a, b = int(f[1], 0), int(f[2], 0), int(f[3], 0)
                vals = []
                for tok in next(it).split()[1:]:
                    v, c = tok.split('*')
                    vals.extend([int(v)] * int(c))
                if len(vals) != n:
                    return 'dma.run printed %d values for %d cycles' % (len(vals), n)
                for j in range(n):
                    if start is not None and start[2] is None:
                        start = (start[0], start[1], (a, b))
                    t += 1
                    addr = 0xfe00 + ((37 * t) & 0xff)
                    running = start is not None and t - start[0] < 162
                    if start is not None and (a, b) != start[2] and t - start[0] <= 162:
                        start = (start[0], start[1], 'mixed')
                    if start is not None and t - start[0] == 162 and start[2] != 'mixed':
                        t0, xx, (sa, sb) = start
                        oam = [src(source(xx) + i, t0 + i + 1, sa, sb) for i in range(160)]
                    if running:
                        # the statement bounds the duration (<= 162 cycles) but does not fix it: a value other
                        # than 0xFF is acceptable only if the copy is over, i.e. it is the copied source byte
                        if vals[j] != 255:
                            want = None
                            if start[2] not in (None, 'mixed'):
                                sa, sb = start[2]
                                i = addr - 0xfe00
                                want = src(source(start[1]) + i, start[0] + i + 1, sa, sb) if i < 160 else 0
                            if vals[j] != want:
                                return ('cycle %d after the write to FF46: Read(%04x) = %d, which is neither 0xFF '
                                        '(transfer running) nor the copied source byte %s (transfer over)'
                                        % (t - start[0], addr, vals[j], want))
                    elif oam is not None:
                        want = oam[addr - 0xfe00] if addr < 0xfea0 else 0
                        if vals[j] != want:
                            return 'Read(%04x) = %d after the transfer, expected %d' % (addr, vals[j], want)
            elif op == 'oam.dump':
                d = next(it)
                if oam is not None and not (start is not None and t - start[0] < 162):
                    got = [int(d[4 + 2 * i:6 + 2 * i], 16) for i in range(160)]
                    if got != oam:
                        i = [x != y for x, y in zip(got, oam)].index(True)
                        if start is None:
                            return 'OAM byte %d = %d, filled with %d' % (i, got[i], oam[i])
                        return ('after the transfer of page %02x OAM byte %d = %d, the source byte as copied '
                                '(address %04x during cycle %d) is %d'
                                % (start[1], i, got[i], source(start[1]) + i, i + 2, oam[i]))
            elif op in ('oam.st', 'ppu.st', 'ppu.ov', 'ppu.tick', 'ppu.w', 'ppu.r'):
                next(it)
            elif op in ('oam.w',):
                oam = None
    except StopIteration:
        return 'output ended early (crash?): %s' % (out[-1] if out else '')
    return None


SCRIPTS = {}


def judge(case, impl, model):
    dev = spec_check(case[1], impl or [])
    if dev:
        return 'implementation violates the statement (DmaSpec): ' + dev
    return ('implementation differs from the model (proved to satisfy C16_copy/C16_blocked/C16_restart) on an '
            'observable the statement leaves open (engine internals, partial contents of an interrupted transfer)')


def extra(check, impl_cases, model_cases, cases):
    out = []
    for cid, lines in cases:
        impl = impl_cases.get(cid)
        if not impl or impl != model_cases.get(cid):
            continue
        dev = spec_check(lines, impl)
        if dev:
            out.append(dict(case=cid, script=lines, impl=impl[:6], model=(model_cases.get(cid) or [])[:6],
                            verdict='implementation AND model deviate from the statement: ' + dev))
    return out
