"""C06 — address space and I/O registers read back as on a DMG."""
import json
import os

import verifkit
from props import maplib

ID = 'C06'
PROP_FILE = 'Properties/C06.v'
EXTRA_COQ = ['model/MapperExec.v', 'spec/AddrSpec.v', 'proofs/MapperDecode.v']
RULE = ('(A) from power-on, for ROM-only / MBC1 / MBC2 / MBC3 / MBC5 cartridges and the CPU test image, 8 '
        'representative byte patterns: every one of the 65,536 addresses is written once and read back at once '
        '(map.wr; address-dependent values so that a mis-routed address shows), echo and work RAM are read back '
        'through each other, VRAM / OAM / FEA0-FEFF are swept with the LCD switched off; (B) every address of '
        'FF00-FF7F and FFFF x 8 values as a true single write on a fresh machine followed by a read of the whole '
        'I/O page; (C) random histories of writes, reads and hardware cycles over the whole space from randomised '
        'machine states (LCD off for VRAM/OAM).  Implementation vs extracted model on every printed byte, and '
        'the implementation judged directly against the Python rendering of AddrSpec (regions, last-write map, '
        'register masks).  non-trivial: a case whose read-backs contain at least two different bytes; distinct = '
        'distinct case scripts')
LEVEL_NOTE = ('C06_decoder: all 65,536 addresses of both regenerated decoders by computation.  Plain-memory and '
              'register theorems hold for every history of bus reads, writes and hardware cycles from every state '
              '(hypotheses: no DMA running / none started for OAM).  OBP0/OBP1 low bits: repaired defect.')
ASSUMPTIONS = ['addresses are 16-bit and written values bytes (Mapper.Write takes uint16, uint8)',
               'histories consist of Mapper.Read, Mapper.Write and the hardware half of machine cycles; the OAM '
               'corruption triggered by CPU 16-bit increments is C17\'s subject']
ALLOWED_AXIOMS = []
KEEP_PREFIX = 1
MAX_REPORT = 5

VALUES = [0x00, 0xFF, 0x55, 0xAA, 0x0F, 0xF0, 0x81, 0x7E]
CONFIGS = [('rom', 'sys.new 0 0 0'), ('mbc1', 'sys.new 3 2 3'), ('cpurom', 'sys.cpurom'), ('mbc2', 'sys.new 6 1 0'),
           ('mbc3', 'sys.new 19 2 3'), ('mbc5', 'sys.new 27 3 3')]
IO_ADDRS = list(range(0xFF00, 0xFF80)) + [0xFFFF]


def sweep_case(ctor, v):
    w = v ^ 0x3C
    return [ctor,
            'map.wr 0x0000 0x7FFF %d 1 1' % v,
            'map.wr 0xA000 0xBFFF %d 1 3' % v,
            'map.wr 0xC000 0xDFFF %d 1 1' % v,
            'sys.rr 0xE000 0xFDFF',
            'map.wr 0xE000 0xFDFF %d 3 1' % w,
            'sys.rr 0xC000 0xDFFF',
            'map.wr 0xFF80 0xFFFF %d 1 0' % v,
            'map.wr 0x8000 0x9FFF %d 1 1' % w,          # LCD still on: correspondence only
            'map.wr 0xFE00 0xFEFF %d 1 0' % w,
            'sys.w 0xFF40 %d' % (v & 0x7F),
            'map.wr 0x8000 0x9FFF %d 1 1' % v,
            'sys.rr 0x8000 0x9FFF',
            'map.wr 0xFE00 0xFEFF %d 1 0' % v,
            'sys.rr 0xFE00 0xFEFF',
            'map.wr 0xFF00 0xFF7F %d 0 0' % v,          # the whole I/O page in address order (starts a DMA at FF46)
            'sys.rr 0xFF00 0xFF7F',
            'sys.hw 170',
            'sys.rr 0xFE00 0xFFFF',
            'sys.rr 0xC000 0xC0FF', 'sys.rr 0xFD00 0xFDFF']


REGIONS = [(0x0000, 0x7FFF, 2), (0x8000, 0x9FFF, 6), (0xA000, 0xBFFF, 3), (0xC000, 0xDFFF, 8), (0xE000, 0xFDFF, 6),
           (0xFE00, 0xFE9F, 6), (0xFEA0, 0xFEFF, 2), (0xFF00, 0xFF7F, 10), (0xFF80, 0xFFFE, 6), (0xFFFF, 0xFFFF, 2)]
EDGES = [0x7FFF, 0x8000, 0x9FFF, 0xA000, 0xBFFF, 0xC000, 0xDDFF, 0xDE00, 0xDFFF, 0xE000, 0xFDFF, 0xFE00, 0xFE9F,
         0xFEA0, 0xFEFF, 0xFF00, 0xFF7F, 0xFF80, 0xFFFE, 0xFFFF]


def rand_addr(rng, dma_ok):
    r = rng.random()
    if r < 0.08:
        a = rng.choice(EDGES)
    else:
        tot = sum(w for _, _, w in REGIONS)
        x = rng.randrange(tot)
        for lo, hi, w in REGIONS:
            if x < w:
                a = rng.randrange(lo, hi + 1)
                break
            x -= w
    if a == 0xFF46 and not dma_ok:
        a = 0xFF45
    return a


def random_case(rng, ctor, n, lcd_off=True, dma=False):
    lines = [ctor]
    # randomise the machine state
    for _ in range(rng.randrange(0, 12)):
        q = rng.random()
        if q < 0.6:
            lines.append('sys.w %d %d' % (rand_addr(rng, False), rng.randrange(256)))
        elif q < 0.8:
            lines.append('sys.hw %d' % rng.choice([1, 3, 57, 114, 456, rng.randrange(1, 2000)]))
        else:
            lines.append('sys.btn %d %d' % (rng.randrange(8), rng.randrange(2)))
    if lcd_off:
        lines.append('sys.w 0xFF40 %d' % rng.randrange(0x80))
    touched = []
    for _ in range(n):
        q = rng.random()
        if q < 0.5:
            a = rand_addr(rng, dma)
            v = rng.randrange(256)
            if lcd_off and a == 0xFF40:
                v &= 0x7F
            lines.append('sys.w %d %d' % (a, v))
            touched.append(a)
        elif q < 0.8:
            a = rng.choice(touched) if touched and rng.random() < 0.7 else rand_addr(rng, True)
            if rng.random() < 0.3:
                a = (a ^ 0x2000) if 0xC000 <= a < 0xFE00 and (a ^ 0x2000) < 0xFE00 and (a ^ 0x2000) >= 0xC000 else a
            lines.append('sys.r %d' % a)
        elif q < 0.9:
            lines.append('sys.hw %d' % rng.choice([1, 1, 2, 5, 114, rng.randrange(1, 400)]))
        else:
            lo = rand_addr(rng, True)
            lines.append('sys.rr %d %d' % (lo, min(0xFFFF, lo + rng.randrange(1, 40))))
    for a in sorted(set(touched)):
        lines.append('sys.r %d' % a)
        if 0xC000 <= a < 0xDE00:
            lines.append('sys.r %d' % (a + 0x2000))
        elif 0xE000 <= a < 0xFE00:
            lines.append('sys.r %d' % (a - 0x2000))
    lines += ['sys.rr 0xFF00 0xFF7F', 'sys.rr 0xFEA0 0xFEFF', 'sys.r 0xFFFF']
    return lines


def generate(rng, tier):
    cases = []
    quick = tier == 'quick'
    cfgs = CONFIGS
    for name, ctor in cfgs:
        for v in VALUES:
            cases.append(('sweep_%s_%02x' % (name, v), sweep_case(ctor, v)))
    n_sweep = len(cases)
    iocfgs = CONFIGS[1:2] if quick else CONFIGS[:3]
    for name, ctor in iocfgs:
        for a in IO_ADDRS:
            for v in VALUES:
                cases.append(('io_%s_%04x_%02x' % (name, a, v),
                              [ctor, 'sys.w %d %d' % (a, v), 'sys.rr 0xFF00 0xFF7F', 'sys.r 0xFFFF', 'sys.r %d' % a]))
    n_io = len(cases) - n_sweep
    nrand = 400 if quick else 6000
    for i in range(nrand):
        ctor = rng.choice(CONFIGS)[1]
        r = rng.random()
        cases.append(('h%d' % i, random_case(rng, ctor, rng.randrange(20, 160), lcd_off=r < 0.8, dma=r > 0.9)))
    # OAM is plain memory with the LCD off whenever it was switched off: the guest CPU reads through HL (and steps HL
    # with 16-bit INC/DEC) inside FE00-FEFF after the LCD was switched off k cycles into a line
    ncpu = 40 if quick else 600
    for i in range(ncpu):
        k = rng.choice([0, 1, 2, 3, 5, 10, 19, 20, 21, 63, 113, 114, 115, 117, rng.randrange(0, 17556)])
        hl = 0xfe00 + rng.choice([0, 7, 8, 9, 0x10, 0x50, 0x98, 0x9f, 0xa0, 0xff, rng.randrange(256)])
        lines = ['sys.cpurom', 'sys.w 0xFF40 0x11', 'map.fill 0xFE00 0xFE9F %d %d %d' % (rng.randrange(256), rng.randrange(1, 8), rng.randrange(1, 8))]
        for j, b in enumerate([0x7e, 0x23, 0x2b, 0x7e, 0x18, 0xfa]):
            lines.append('sys.w %d %d' % (0xc000 + j, b))
        lines += ['sys.w 0xFF40 0x91', 'sys.hw %d' % k, 'sys.w 0xFF40 0x11',
                  'sys.set 1 2 3 4 5 0 %d %d 57343 49152' % (hl >> 8, hl & 255), 'sys.cyc %d' % rng.randrange(3, 30),
                  'sys.rr 0xFE00 0xFE9F']
        cases.append(('cpuoam%d' % i, lines))
    # TIMA / TMA / TAC read-back around an overflow, with the timer stopped at each of the following cycles
    ntm = 0
    for k in (range(0, 14) if quick else range(0, 40)):
        for j in (0, 1, 2, 5):
            tma = rng.randrange(256)
            lines = ['sys.cpurom', 'sys.w 0xFF06 %d' % tma, 'sys.w 0xFF07 5', 'sys.w 0xFF05 0xFF', 'sys.w 0xFF04 0', 'sys.hw %d' % k,
                     'sys.w 0xFF07 %d' % rng.choice([0, 1, 3]), 'sys.hw %d' % j, 'sys.w 0xFF05 0x57', 'sys.r 0xFF05', 'sys.w 0xFF06 0x99',
                     'sys.r 0xFF05', 'sys.r 0xFF06', 'sys.r 0xFF07', 'sys.hw 3', 'sys.w 0xFF05 0x31', 'sys.r 0xFF05']
            cases.append(('tmr%d' % ntm, lines))
            ntm += 1
    # FF46 reads back the last value written, also when written again while a transfer runs
    for i in range(6 if quick else 60):
        lines = ['sys.cpurom', 'sys.w 0xFF40 %d' % rng.choice([0x11, 0x91])]
        for _ in range(5):
            lines += ['sys.w 0xFF46 %d' % rng.choice([0xc0, 0xc1, 0x80, 0xdf, rng.randrange(0xf2)]), 'sys.r 0xFF46',
                      'sys.hw %d' % rng.choice([0, 1, 2, 50, 159, 160, 161, 162, 163, 200]), 'sys.r 0xFF46']
        cases.append(('dmareg%d' % i, lines))
    # LCDC read-back while the LCD stays off / stays on
    for i in range(8 if quick else 64):
        lines = ['sys.cpurom', 'sys.w 0xFF40 %d' % rng.choice([0x00, 0x11, 0x7f])]
        for _ in range(6):
            lines += ['sys.w 0xFF40 %d' % rng.randrange(0x80), 'sys.r 0xFF40', 'sys.hw %d' % rng.randrange(0, 300)]
        lines += ['sys.w 0xFF40 %d' % (0x80 | rng.randrange(0x80)), 'sys.r 0xFF40']
        for _ in range(4):
            lines += ['sys.hw %d' % rng.randrange(0, 300), 'sys.w 0xFF40 %d' % (0x80 | rng.randrange(0x80)), 'sys.r 0xFF40']
        cases.append(('lcdc%d' % i, lines))
    ops = sum(len(c[1]) for c in cases)
    info = dict(exhaustive=True,
                input_distribution=dict(sweep_cases=n_sweep, addresses_per_sweep=65536, values=len(VALUES),
                                        cartridge_configs=[c[0] for c in cfgs],
                                        io_single_write_cases=n_io, random_histories=nrand, cpu_oam_lcd_off_cases=ncpu, script_lines=ops),
                samples=[dict(case=cases[0][0], script=cases[0][1]),
                         dict(case=cases[n_sweep + 9][0], script=cases[n_sweep + 9][1]),
                         dict(case=cases[-1][0], script=cases[-1][1][:40] + ['...'])])
    return cases, info


def nontrivial(cid, lines, impl):
    if not impl:
        return None
    seen = set()
    for l in impl:
        if len(l) >= 2 and all(ch in '0123456789abcdef' for ch in l):
            seen.update(l[i:i + 2] for i in range(0, min(len(l), 512), 2))
        else:
            seen.add(l)
        if len(seen) > 1:
            return cid
    return None


def matches_known(k, case, impl, model):
    return False


def spec_deviations(lines, impl):
    return maplib.SpecMachine().run(lines, impl or [])


def judge(case, impl, model):
    devs = spec_deviations(case[1], impl)
    if devs:
        return 'implementation violates the statement (AddrSpec): ' + devs[0]['text']
    return ('implementation differs from the model (proved to refine the last-write / register-mask specification) '
            'on a byte read through Mapper.Read')


def extra(check, ci, cm, cases):
    """implementation against the specification tables (needed when the decoder obligation fails and the model,
    regenerated from the changed mapper.go, follows the code)"""
    out = []
    for cid, lines in cases:
        impl = ci.get(cid)
        if impl is None:
            continue
        bad = spec_deviations(lines, impl)
        if bad and len(out) < 5:
            small = minimise(lines, bad[0])
            out.append(dict(case=cid, script=small, impl=clip(rerun_impl(cid, small) or impl),
                            model=clip(rerun_model(cid, small) or []),
                            verdict='implementation violates the statement (AddrSpec): ' + bad[0]['text']))
    return out


def clip(ls):
    return [l if len(l) <= 120 else l[:100] + '...(%d chars)' % len(l) for l in ls[:10]]


def rerun_model(cid, lines):
    path = verifkit.BUILD + '/scripts/C06_min.txt'
    verifkit.write_script(path, [(cid, lines)])
    rc, o, e = verifkit.run_runner(verifkit.BUILD + '/model_runner', path)
    c, _ = verifkit.split_cases(o)
    return c.get(cid)


def rerun_impl(cid, lines):
    path = verifkit.BUILD + '/scripts/C06_min.txt'
    verifkit.write_script(path, [(cid, lines)])
    rc, o, e = verifkit.run_runner(verifkit.BUILD + '/impl_runner', path)
    c, _ = verifkit.split_cases(o)
    return c.get(cid)


def minimise(lines, dev):
    """greedy removal of script lines keeping a deviation at the same address (or the panic)"""
    def still(ls):
        impl = rerun_impl('m', ls)
        if impl is None:
            return False
        ds = spec_deviations(ls, impl)
        return any(d.get('addr') == dev.get('addr') for d in ds)
    cur = list(lines)
    if not still(cur):
        return cur
    chunk = max(1, len(cur) // 2)
    budget = 60
    while chunk >= 1 and budget > 0:
        i = 1
        changed = False
        while i < len(cur) and budget > 0:
            cand = cur[:i] + cur[i + chunk:]
            budget -= 1
            if len(cand) > 1 and still(cand):
                cur = cand
                changed = True
            else:
                i += chunk
        if chunk == 1 and not changed:
            break
        chunk = chunk // 2 if chunk > 1 else (1 if changed else 0)
    return cur
