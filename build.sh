#!/bin/bash
# build.sh — (re)build the Coq development, the extracted model runner and (optionally) the Go runner.
# usage: build.sh [coq|extract|go|all]   (default all).  Safe to call concurrently (flock).
set -euo pipefail
V=/verif
what=${1:-all}
export GOFLAGS=-mod=mod GOPROXY=off GOSUMDB=off GOTOOLCHAIN=local
mkdir -p $V/build
exec 9>$V/build/.lock
flock 9

build_coq() {
  cd $V/coq
  # translator: regenerate gen/*.v from /repo (only rewrites files whose content changed)
  if [ -x $V/build/translator ] || [ -d $V/translator ]; then
    (cd $V/translator && go build -o $V/build/translator . ) 
    $V/build/translator -repo /repo -out $V/coq/gen
  fi
  files=$(find lib gen model spec proofs Properties -name "*.v" | sort)
  sig=$(echo "$files" | md5sum | cut -d' ' -f1)
  if [ ! -f Makefile ] || [ "$(cat .filesig 2>/dev/null)" != "$sig" ]; then
    coq_makefile -f _CoqProject -o Makefile $files >/dev/null
    echo "$sig" > .filesig
  fi
  timeout 3000 make -j16 ${COQ_TARGETS:-} 
}

build_extract() {
  cd $V/coq/extract
  # re-extract when any model file is newer than model.ml
  if [ ! -f model.ml ] || [ -n "$(find ../model ../lib ../gen Extract.v -name '*.v' -newer model.ml 2>/dev/null | head -1)" ]; then
    timeout 1200 coqc -Q ../lib V.lib -Q ../gen V.gen -Q ../model V.model -Q . V.extract Extract.v >/dev/null
  fi
  if [ ! -x $V/build/model_runner ] || [ -n "$(find . -name '*.ml' -newer $V/build/model_runner | head -1)" ]; then
    rm -rf $V/build/ml && mkdir -p $V/build/ml
    cp model.ml model.mli util.ml r_*.ml main.ml $V/build/ml/
    (cd $V/build/ml && \
      ocamlfind ocamlopt -w -a -o $V/build/model_runner model.mli model.ml util.ml $(ls r_*.ml | sort) main.ml)
  fi
}

build_go() {
  cd $V/harness
  cp /repo/go.sum . 2>/dev/null || true
  go build -tags verif -o $V/build/impl_runner ./run
}

case $what in
  coq) build_coq ;;
  extract) build_extract ;;
  go) build_go ;;
  all) build_coq; build_extract; build_go ;;
esac
