(* RenderFrame.v — a frame as a sequence of renderer calls: the calls EndMachineCycle issues under the line timing
   of C13 (frame_calls) leave the DMG composition of the scene in every pixel of the frame. *)
From Coq Require Import ZArith Lia ZifyN ZifyNat ZifyBool.
From V.lib Require Import Bits Mem Res.
From V.model Require Import Render.
From V.spec Require Import RenderSpec.
From V.proofs Require Import RenderLemmas RenderProofs.
Open Scope N_scope.

(* the calls of one line: the 40 object scans in OAM order, then the 160 pixels from left to right *)
Lemma line_calls_eq ly :
  line_calls ly = map (Scan ly) (upto 40) ++ map (fun x => Draw x ly) (upto 160).
Proof. vm_compute. reflexivity. Qed.

Lemma run_calls_app s l1 : forall r l2,
  run_calls s r (l1 ++ l2) = (do r' <- run_calls s r l1; run_calls s r' l2).
Proof.
  induction l1 as [|c l1 IH]; intros r l2; cbn [app run_calls bind]; [reflexivity|].
  destruct (run_call s r c); cbn [bind]; [apply IH | reflexivity | reflexivity].
Qed.

(* mode 2: after the 40 scans the flags are those of the line *)
Lemma scans_spec s ly r :
  length (flags r) = 40%nat ->
  exists r', run_calls s r (map (Scan ly) (upto 40)) = Ok r' /\
             flags r' = overlaps_for_line s ly /\ frame r' = frame r.
Proof.
  destruct r as [fl fr la]. cbn [flags frame]. intros Hlen.
  do 40 (destruct fl as [|? fl]; [discriminate Hlen|]).
  destruct fl; [|discriminate Hlen].
  eexists. split; [vm_compute; reflexivity|]. split; vm_compute; reflexivity.
Qed.

(* mode 3: each drawn pixel receives the composition; nothing else in the frame changes *)
Lemma draw_one s ly r x :
  scene_wf s -> regs_ok s -> line_ok s (Z.of_N ly) -> ly < 144 -> x < 160 ->
  flags r = overlaps_for_line s ly ->
  exists r', run_call s r (Draw x ly) = Ok r' /\ flags r' = flags r /\
             frame r' = Mem.set (frame r) (160 * ly + x) (spec_pixel s x ly).
Proof.
  intros Hwf Hregs Hline Hly Hx Hfl.
  destruct (render_pixel_full_ok s (flags r) x ly Hwf) as (p & Ep & _).
  pose proof (render_pixel_spec s x ly Hwf Hregs Hline Hx Hly) as Hs.
  rewrite <- Hfl in Hs. unfold render_pixel in Hs. rewrite Ep in Hs. cbn [bind] in Hs.
  injection Hs as Hs.
  cbn [run_call]. rewrite Ep. cbn [bind]. eexists. split; [reflexivity|].
  cbn [flags frame]. rewrite Hs. split; reflexivity.
Qed.

Lemma draws_spec s ly :
  scene_wf s -> regs_ok s -> line_ok s (Z.of_N ly) -> ly < 144 ->
  forall xs r, Forall (fun x => x < 160) xs -> flags r = overlaps_for_line s ly ->
  exists r', run_calls s r (map (fun x => Draw x ly) xs) = Ok r' /\ flags r' = flags r /\
             (forall x, In x xs -> Mem.get (frame r') (160 * ly + x) = spec_pixel s x ly) /\
             (forall a, (forall x, In x xs -> a <> 160 * ly + x) -> Mem.get (frame r') a = Mem.get (frame r) a).
Proof.
  intros Hwf Hregs Hline Hly. induction xs as [|x0 xs IH]; intros r HF Hfl.
  - exists r. cbn [map run_calls]. split; [reflexivity|]. split; [reflexivity|].
    split; [intros x [] | reflexivity].
  - inversion HF as [|? ? Hx0 HF']; subst.
    destruct (draw_one s ly r x0 Hwf Hregs Hline Hly Hx0 Hfl) as (r1 & E1 & Hfl1 & Hfr1).
    destruct (IH r1 HF') as (r' & E' & Hfl' & HA & HB); [rewrite Hfl1; exact Hfl|].
    exists r'. cbn [map run_calls]. rewrite E1. cbn [bind]. split; [exact E'|].
    split; [rewrite Hfl'; exact Hfl1|]. split.
    + intros x [<-|Hin].
      * destruct (in_dec N.eq_dec x0 xs) as [Hin|Hnin]; [apply HA; exact Hin|].
        rewrite HB.
        -- rewrite Hfr1. apply Mem.gss.
        -- intros x Hx Heq. apply Hnin. replace x0 with x by lia. exact Hx.
      * apply HA; exact Hin.
    + intros a Ha. rewrite HB.
      * rewrite Hfr1. apply Mem.gso. intros Heq. apply (Ha x0); [left; reflexivity | symmetry; exact Heq].
      * intros x Hx. apply Ha. right; exact Hx.
Qed.

Lemma overlaps_length s ly : length (overlaps_for_line s ly) = 40%nat.
Proof. unfold overlaps_for_line. rewrite map_length. reflexivity. Qed.

Lemma line_spec s ly r :
  scene_wf s -> regs_ok s -> line_ok s (Z.of_N ly) -> ly < 144 -> length (flags r) = 40%nat ->
  exists r', run_calls s r (line_calls ly) = Ok r' /\ length (flags r') = 40%nat /\
             (forall x, x < 160 -> Mem.get (frame r') (160 * ly + x) = spec_pixel s x ly) /\
             (forall a, (forall x, x < 160 -> a <> 160 * ly + x) -> Mem.get (frame r') a = Mem.get (frame r) a).
Proof.
  intros Hwf Hregs Hline Hly Hlen.
  destruct (scans_spec s ly r Hlen) as (r1 & E1 & Hfl1 & Hfr1).
  destruct (draws_spec s ly Hwf Hregs Hline Hly (upto 160) r1 (upto_lt 160) Hfl1) as (r' & E' & Hfl' & HA & HB).
  exists r'. rewrite line_calls_eq, run_calls_app, E1. cbn [bind]. split; [exact E'|].
  split; [rewrite Hfl', Hfl1; apply overlaps_length|]. split.
  - intros x Hx. apply HA. apply In_upto. exact Hx.
  - intros a Ha. rewrite HB; [rewrite Hfr1; reflexivity|].
    intros x Hx. apply Ha. apply In_upto in Hx. exact Hx.
Qed.

Lemma lines_spec s :
  scene_wf s -> regs_ok s ->
  forall ys r, Forall (fun y => y < 144 /\ line_ok s (Z.of_N y)) ys -> length (flags r) = 40%nat ->
  exists r', run_calls s r (flat_map line_calls ys) = Ok r' /\ length (flags r') = 40%nat /\
             (forall y x, In y ys -> x < 160 -> Mem.get (frame r') (160 * y + x) = spec_pixel s x y) /\
             (forall a, (forall y x, In y ys -> x < 160 -> a <> 160 * y + x) ->
                        Mem.get (frame r') a = Mem.get (frame r) a).
Proof.
  intros Hwf Hregs. induction ys as [|y0 ys IH]; intros r HF Hlen.
  - exists r. cbn [flat_map run_calls]. split; [reflexivity|]. split; [exact Hlen|].
    split; [intros y x [] | reflexivity].
  - inversion HF as [|? ? [Hy0 Hl0] HF']; subst.
    destruct (line_spec s y0 r Hwf Hregs Hl0 Hy0 Hlen) as (r1 & E1 & Hlen1 & HA1 & HB1).
    destruct (IH r1 HF' Hlen1) as (r' & E' & Hlen' & HA & HB).
    exists r'. cbn [flat_map]. rewrite run_calls_app, E1. cbn [bind]. split; [exact E'|].
    split; [exact Hlen'|]. split.
    + intros y x [<-|Hin] Hx.
      * destruct (in_dec N.eq_dec y0 ys) as [Hin|Hnin]; [apply HA; assumption|].
        rewrite HB; [apply HA1; exact Hx|].
        intros y x' Hy Hx' Heq. apply Hnin. replace y0 with y by lia. exact Hy.
      * apply HA; assumption.
    + intros a Ha. rewrite HB.
      * apply HB1. intros x Hx. apply Ha; [left; reflexivity | exact Hx].
      * intros y x Hy Hx. apply Ha; [right; exact Hy | exact Hx].
Qed.

(* the whole frame, from any renderer state *)
Theorem frame_calls_spec s r :
  hyp s -> length (flags r) = 40%nat ->
  exists r', run_calls s r frame_calls = Ok r' /\
             forall x y, x < 160 -> y < 144 -> rs_pixel r' x y = spec_pixel s x y.
Proof.
  intros (Hwf & Hregs & Hlines) Hlen.
  destruct (lines_spec s Hwf Hregs (upto 144) r) as (r' & E & _ & HA & _); [|exact Hlen|].
  - apply Forall_forall. intros y Hy. apply In_upto in Hy. split; [exact Hy | apply Hlines; lia].
  - exists r'. split; [exact E|]. intros x y Hx Hy. unfold rs_pixel. apply HA; [|exact Hx].
    apply In_upto. exact Hy.
Qed.

(* each pixel of the frame is drawn exactly once, each object is scanned exactly once per line *)
Definition draws_of (x y : N) (cs : list call) : nat :=
  length (filter (fun c => match c with Draw x' y' => (x' =? x) && (y' =? y) | _ => false end) cs).
Definition scans_of (ly i : N) (cs : list call) : nat :=
  length (filter (fun c => match c with Scan l' i' => (l' =? ly) && (i' =? i) | _ => false end) cs).

Definition line_once (y : N) : bool :=
  let cs := line_calls y in
  forallb (fun x => Nat.eqb (draws_of x y cs) 1) (upto 160) &&
  forallb (fun i => Nat.eqb (scans_of y i cs) 1) (upto 40) &&
  Nat.eqb (length cs) 200.

Lemma frame_calls_once : forallb line_once (upto 144) = true.
Proof. vm_compute. reflexivity. Qed.
