(* ApuFreqSpecProofs.v — C21: the closed forms of ApuFreqProofs restated against ApuSpec part 4. *)
From V.lib Require Import Bits Mem Res.
From V.model Require Import Apu.
From V.spec Require Import ApuSpec.
From V.proofs Require Import ApuLemmas ApuStatusProofs ApuFreqProofs.
From Coq Require Import ZArith ZifyN ZifyNat ZifyBool.

Lemma noise_div_spec r : r < 8 -> noise_div r = noise_divisor r.
Proof.
  intros H. unfold noise_div, noise_divisor.
  assert (C : r = 0 \/ r = 1 \/ r = 2 \/ r = 3 \/ r = 4 \/ r = 5 \/ r = 6 \/ r = 7) by lia.
  destruct C as [->|[->|[->|[->|[->|[->|[->| ->]]]]]]]; reflexivity.
Qed.

Theorem square2_spec s v n :
  is_on s = true -> trig_bit v = true -> sqDutyIdx (ch2 s) < 8 ->
  let f := nr_freq (sqFreq (ch2 s)) v in
  let s1 := fst (apu_end_machine_cycle (apu_bus_write s 0xFF19 v)) in
  f < 2048 /\ sqFreq (ch2 s1) = f /\
  sqDutyIdx (ch2 (apu_clocks n s1)) = duty_position (sqDutyIdx (ch2 s)) f n.
Proof. exact (square2_after_trigger s v n). Qed.

Theorem square1_spec s v n :
  is_on s = true -> trig_bit v = true -> sqDutyIdx (ch1 s) < 8 ->
  swShift (sw1 s) = 0 -> swPeriod (sw1 s) = 0 ->
  let f := nr_freq (sqFreq (ch1 s)) v in
  let s1 := fst (apu_end_machine_cycle (apu_bus_write s 0xFF14 v)) in
  f < 2048 /\ sqFreq (ch1 s1) = f /\
  sqDutyIdx (ch1 (apu_clocks n s1)) = duty_position (sqDutyIdx (ch1 s)) f n.
Proof. exact (square1_after_trigger s v n). Qed.

Theorem wave_spec s v n :
  is_on s = true -> trig_bit v = true -> len_bit v = false ->
  wvEnabled (ch3 s) = false -> wvDac (ch3 s) = true ->
  let f := nr_freq (wvFreq (ch3 s)) v in
  let s1 := fst (apu_end_machine_cycle (apu_bus_write s 0xFF1E v)) in
  f < 2048 /\ wvFreq (ch3 s1) = f /\
  wvPosition (ch3 (apu_clocks n s1)) = wave_position f n.
Proof. exact (wave_after_trigger s v n). Qed.

Theorem noise_spec s v n :
  is_on s = true -> trig_bit v = true ->
  let r := nsDivisor (ch4 s) in let sft := nsShift (ch4 s) in let wd := nsWidth (ch4 s) in
  r < 8 -> sft < 16 ->
  let s1 := fst (apu_end_machine_cycle (apu_bus_write s 0xFF23 v)) in
  nsLfsr (ch4 (apu_clocks n s1)) = N.iter (noise_steps r sft n) (lfsr_step wd) 0xffff.
Proof.
  intros Hon Ht r sft wd Hr Hs s1. unfold noise_steps, noise_clock_period.
  rewrite <- (noise_div_spec r Hr). exact (noise_after_trigger s v n Hon Ht Hr Hs).
Qed.

(* every frequency an NRx3/NRx4 write pair can produce is an 11-bit number, and every 11-bit number is produced *)
Lemma nr_freq_range old v : nr_freq old v < 2048.
Proof. apply freq11_lt. Qed.
Lemma nr_freq_value old v : nr_freq old v = old mod 256 + 256 * (v mod 8).
Proof. apply freq11. Qed.

(* the register fields NR43 decodes to: r < 8, s < 16 for every byte *)
Lemma nr43_fields s v :
  v < 256 -> is_on s = true ->
  let s' := apu_bus_write s 0xFF22 v in
  nsDivisor (ch4 s') = v mod 8 /\ nsShift (ch4 s') = v / 16 /\ nsWidth (ch4 s') = (v / 8) mod 2 /\
  nsDivisor (ch4 s') < 8 /\ nsShift (ch4 s') < 16.
Proof.
  unfold is_on. intros Hv Hon. cbv zeta.
  change (apu_bus_write s 0xFF22 v) with (WriteNR43 s v). unfold WriteNR43. rewrite Hon. psimpl.
  change 7 with (N.ones 3). change 1 with (N.ones 1). rewrite !N.land_ones, !N.shiftr_div_pow2.
  change (2 ^ 3) with 8. change (2 ^ 4) with 16. change (2 ^ 1) with 2.
  repeat split; try reflexivity.
  - apply N.mod_lt. discriminate.
  - apply N.div_lt_upper_bound; lia.
Qed.

(* the code's 16-bit register against the documented 15-bit recurrence *)
Lemma lfsr_rec_check :
  forallb (fun h => forallb (fun l => let x := 256 * h + l in
     lfsr_step 0 x =? dmg_lfsr_next false x) bytes) (upto 128) = true.
Proof. vm_compute. reflexivity. Qed.

Lemma lfsr_rec x : x < 32768 -> lfsr_step 0 x = dmg_lfsr_next false x.
Proof.
  intros Hx.
  assert (Hh : x / 256 < 128) by (apply N.div_lt_upper_bound; lia).
  assert (Hl : x mod 256 < 256) by (apply N.mod_lt; discriminate).
  pose proof (sweep_upto 128 _ lfsr_rec_check (x / 256) Hh) as H1. cbv beta in H1.
  pose proof (sweep_bytes _ H1 (x mod 256) Hl) as H2. cbv beta zeta in H2.
  rewrite <- (N.div_mod x 256) in H2 by discriminate. apply N.eqb_eq in H2. exact H2.
Qed.

Lemma dmg_next_lt b x : dmg_lfsr_next b x < 32768.
Proof.
  unfold dmg_lfsr_next. set (fb := b2n _).
  assert (Hfb : fb <= 1) by (unfold fb; destruct (xorb _ _); cbn; lia).
  destruct b; lia.
Qed.

Lemma dmg_seq_lt b k : dmg_lfsr_seq b k < 32768.
Proof.
  unfold dmg_lfsr_seq. destruct k as [|p]; [cbn [N.iter]; unfold dmg_lfsr_start; lia|].
  rewrite <- (N.succ_pred (N.pos p)) by discriminate. rewrite N.iter_succ. apply dmg_next_lt.
Qed.

(* 15-bit mode: the trigger loads FFFF (16 ones); the first step only drops the 16th bit, after which the code
   follows the documented recurrence exactly: code state after k+1 steps = DMG state after k steps *)
Theorem lfsr15_follows_dmg k : lfsr_seq 0 (k + 1) = dmg_lfsr_seq false k.
Proof.
  induction k as [|k IH] using N.peano_ind; [reflexivity|].
  replace (N.succ k + 1) with (N.succ (k + 1)) by lia.
  unfold lfsr_seq, dmg_lfsr_seq in *. rewrite !N.iter_succ, IH. apply lfsr_rec. apply (dmg_seq_lt false k).
Qed.

(* 7-bit mode: the low seven bits (bit 0 is the output) follow the documented recurrence from the start *)
Lemma dmg_low7_check :
  forallb (fun h => forallb (fun l => let x := 256 * h + l in
     dmg_lfsr_next true x mod 128 =? step7 (x mod 128)) bytes) (upto 128) = true.
Proof. vm_compute. reflexivity. Qed.

Lemma dmg_low7 x : x < 32768 -> dmg_lfsr_next true x mod 128 = step7 (x mod 128).
Proof.
  intros Hx.
  assert (Hh : x / 256 < 128) by (apply N.div_lt_upper_bound; lia).
  assert (Hl : x mod 256 < 256) by (apply N.mod_lt; discriminate).
  pose proof (sweep_upto 128 _ dmg_low7_check (x / 256) Hh) as H1. cbv beta in H1.
  pose proof (sweep_bytes _ H1 (x mod 256) Hl) as H2. cbv beta zeta in H2.
  rewrite <- (N.div_mod x 256) in H2 by discriminate. apply N.eqb_eq in H2. exact H2.
Qed.

Lemma lfsr_lt_check :
  forallb (fun h => forallb (fun b => lfsr_step 1 (256 * h + b) <? 65536) bytes) bytes = true.
Proof. vm_compute. reflexivity. Qed.

Lemma lfsr_seq1_lt k : lfsr_seq 1 k < 65536.
Proof.
  unfold lfsr_seq. induction k as [|k IH] using N.peano_ind; [cbn; lia|].
  rewrite N.iter_succ. apply N.ltb_lt. exact (sweep_u16 (fun l => lfsr_step 1 l <? 65536) lfsr_lt_check _ IH).
Qed.

Theorem lfsr7_follows_dmg k : lfsr_seq 1 k mod 128 = dmg_lfsr_seq true k mod 128.
Proof.
  induction k as [|k IH] using N.peano_ind; [reflexivity|].
  unfold lfsr_seq, dmg_lfsr_seq in *. rewrite !N.iter_succ.
  rewrite low7_step by apply lfsr_seq1_lt. rewrite dmg_low7 by apply (dmg_seq_lt true k). rewrite IH. reflexivity.
Qed.

(* the low seven bits in 7-bit mode have period exactly 127 from the trigger value on *)
Theorem lfsr7_low_period k :
  lfsr_seq 1 (k + 127) mod 128 = lfsr_seq 1 k mod 128 /\
  (forall j, 0 < j -> j < 127 -> lfsr_seq 1 (k + j) mod 128 <> lfsr_seq 1 k mod 128).
Proof.
  assert (Hs : forall m, lfsr_seq 1 m mod 128 = N.iter m step7 0x7f).
  { intros m. induction m as [|m IH] using N.peano_ind; [reflexivity|].
    unfold lfsr_seq in *. rewrite !N.iter_succ. rewrite low7_step by apply lfsr_seq1_lt. rewrite IH. reflexivity. }
  rewrite !Hs. split.
  - apply (orbit_periodic step7 0x7f 127 eq_refl step7_ok).
  - intros j H1 H2. rewrite !Hs. apply (orbit_exact step7 0x7f 127 eq_refl step7_ok); assumption.
Qed.
