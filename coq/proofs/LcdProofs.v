(* LcdProofs.v — the PPU model refines LcdSpec for every history of machine cycles, register writes and
   arbitrary activity of the rest of the machine on OAM:
     - the representation invariant R ties (enabled, ticks, mode, firstLine, ly) to the abstract
       (on, k = cycles since switch-on) for every k : N;
     - LY / STAT mode read-back (C13) and the requests of every cycle (C14) follow as closed forms in k. *)
From V.lib Require Import Bits Mem Res.
From V.model Require Import Oam PpuTiming.
From V.spec Require Import LcdSpec.
From V.proofs Require Import LcdLemmas.
From Coq Require Import ZArith ZifyN ZifyNat ZifyBool.

(* ---------- histories: spec events -> model operations ---------- *)
Definition ev := event (oam -> oam).

Definition addr_of (r : reg) : N :=
  match r with
  | LCDC => 64 | STAT => 65 | SCY => 66 | SCX => 67 | LY => 68 | LYC => 69
  | BGP => 71 | OBP0 => 72 | OBP1 => 73 | WY => 74 | WX => 75
  end.

Definition op_of (e : ev) : ppu_op :=
  match e with
  | Tick => PTick
  | Write r v => PWrite (addr_of r) v
  | Env g => POam g
  end.

Definition stat_of (v : N) : stat_flags := mkStat (tb v 0x40) (tb v 0x20) (tb v 0x10) (tb v 0x08).

(* ---------- the representation invariant ---------- *)
Record R (s : ppu * oam) (a : lcd) : Prop := mkR {
  R_en : p_enabled (fst s) = on a;
  R_ticks : p_ticks (fst s) = if on a then pos (since a + 1) else 0;
  R_mode : p_mode (fst s) = lcd_mode a;
  R_first : on a = true -> p_firstLine (fst s) = (since a <=? 61);
  R_ly : ly_stale a = false -> p_ly (fst s) = lcd_ly a;
  R_stale : ly_stale a = true -> on a = true;
  R_stat : p_stat (fst s) = stat_of (lastw a STAT);
  R_lyc : p_lyc (fst s) = lastw a LYC
}.

Lemma R_init : R ppu_power_on lcd_init.
Proof. constructor; try reflexivity; cbn; intros; try reflexivity; discriminate. Qed.

Lemma tb_testbit7 v : tb v 0x80 = N.testbit v 7.
Proof.
  unfold tb. change 0x80 with (2 ^ 7).
  destruct (N.testbit v 7) eqn:E.
  - destruct (N.land v (2 ^ 7) =? 0) eqn:E0; [|reflexivity].
    apply N.eqb_eq in E0.
    assert (X : N.testbit (N.land v (2 ^ 7)) 7 = true)
      by (rewrite N.land_spec, E, N.pow2_bits_true; reflexivity).
    rewrite E0 in X. discriminate.
  - assert (X : N.land v (2 ^ 7) = 0).
    { apply N.bits_inj_0. intros n. rewrite N.land_spec.
      destruct (N.eq_dec n 7) as [->|Hn]; [rewrite E; reflexivity|].
      rewrite N.pow2_bits_false by congruence. apply Bool.andb_false_r. }
    rewrite X. reflexivity.
Qed.

(* one machine cycle with the LCD on: the concrete result, the next invariant and the requests *)
Lemma tick_on s a :
  R s a -> on a = true ->
  exists ovl,
    ppu_tick (fst s) (snd s) =
      Ok (tick_ppu (fst s) ovl, tick_oam (fst s) (snd s),
          req_exact (since a + 1) (stat_of (lastw a STAT)) (lastw a LYC))
    /\ R (tick_ppu (fst s) ovl, tick_oam (fst s) (snd s)) (lcd_step a (@Tick (oam -> oam))).
Proof.
  intros HR Hon. destruct HR as [Hen Htk Hmd Hfl Hly Hst Hstat Hlyc].
  destruct s as [p o]. cbn [fst snd] in *.
  unfold lcd_mode in Hmd. rewrite Hon in *.
  set (k := since a) in *.
  destruct (sw_k k) as (Sm & Sv & Sh & So & Sa & Sd). cbv zeta in *.
  destruct (ppu_tick_on p o) as [ovl Hov].
  - exact Hen.
  - rewrite Hmd. apply spec_mode_lt4.
  - rewrite Htk. apply pos_lt.
  - rewrite Hmd, Htk, Sm. exact Sd.
  - exists ovl. split.
    + rewrite Hov. rewrite (tick_req_exact p k Hmd Htk), Hstat, Hlyc. reflexivity.
    + unfold lcd_step. rewrite Hon.
      constructor; cbn [fst snd on since ly_stale lastw ticked];
        unfold tick_ppu;
        cbn [p_enabled p_ticks p_mode p_firstLine p_ly p_stat p_lyc].
      * reflexivity.
      * rewrite Hmd, Htk, Sm, (Hfl eq_refl), jump_iff. apply ticks_next.
      * unfold lcd_mode; cbn [on since]. rewrite Hmd, Htk. exact Sm.
      * intros _. rewrite Hmd, Htk, Sm, (Hfl eq_refl), jump_iff. apply first_next.
      * intros _. unfold lcd_ly; cbn [on since]. rewrite Htk.
        unfold spec_ly. fold k. destruct (k + 1 =? 0) eqn:E0; [lia|reflexivity].
      * discriminate.
      * exact Hstat.
      * exact Hlyc.
Qed.

Lemma tick_off s a :
  R s a -> on a = false ->
  ppu_tick (fst s) (snd s) = Ok (fst s, snd s, 0).
Proof.
  intros HR Hoff. unfold ppu_tick. rewrite (R_en _ _ HR), Hoff. reflexivity.
Qed.

Lemma R_step s a (e : ev) :
  R s a -> exists s', ppu_step s (op_of e) = Ok s' /\ R s' (lcd_step a e).
Proof.
  intros HR. destruct e as [|r v|g].
  - (* Tick *)
    cbn [op_of ppu_step].
    destruct (on a) eqn:Hon.
    + destruct (tick_on s a HR Hon) as (ovl & Ht & HR').
      rewrite Ht. cbn [bind fst]. eexists; split; [reflexivity|exact HR'].
    + rewrite (tick_off s a HR Hon). cbn [bind fst].
      exists s. split; [destruct s; reflexivity|].
      unfold lcd_step. rewrite Hon. exact HR.
  - (* register write *)
    cbn [op_of ppu_step]. eexists; split; [reflexivity|].
    destruct HR as [Hen Htk Hmd Hfl Hly Hst Hstat Hlyc].
    destruct s as [p o]. cbn [fst snd] in *.
    unfold lcd_mode, lcd_ly in *.
    destruct r; cbn [addr_of ppu_write_reg lcd_step];
      try (constructor; cbn [fst snd on since ly_stale lastw upd reg_eqb]; assumption).
    + (* LCDC *)
      unfold ppu_write_lcdc. rewrite tb_testbit7, Hen.
      destruct (N.testbit v 7) eqn:E7; destruct (on a) eqn:Hon; cbn [andb negb];
        constructor;
        cbn [fst snd on since ly_stale lastw upd reg_eqb set_lcdc ppu_enable ppu_disable set_ticks set_ly
             set_enabled_mode_first p_enabled p_ticks p_mode p_firstLine p_ly p_stat p_lyc];
        try assumption; try reflexivity; try discriminate.
      all: intros _; rewrite Hly; [reflexivity|].
      all: destruct (ly_stale a) eqn:S; [specialize (Hst eq_refl); discriminate|reflexivity].
    + (* STAT *)
      constructor; cbn [fst snd on since ly_stale lastw upd reg_eqb ppu_write_stat set_stat
                        p_enabled p_ticks p_mode p_firstLine p_ly p_stat p_lyc]; try assumption.
      reflexivity.
    + (* LY *)
      constructor; cbn [fst snd on since ly_stale lastw upd reg_eqb ppu_write_ly set_ly
                        p_enabled p_ticks p_mode p_firstLine p_ly p_stat p_lyc]; try assumption.
      * intros X. unfold lcd_ly. cbn [on]. rewrite X. reflexivity.
      * intros X; exact X.
    + (* LYC *)
      constructor; cbn [fst snd on since ly_stale lastw upd reg_eqb ppu_write_lyc set_regs
                        p_enabled p_ticks p_mode p_firstLine p_ly p_stat p_lyc]; try assumption.
      reflexivity.
  - (* environment *)
    cbn [op_of ppu_step]. eexists; split; [reflexivity|].
    destruct HR; constructor; assumption.
Qed.

(* ---------- whole histories ---------- *)
Lemma run_from_cons s op t :
  ppu_run_from s (op :: t) =
  match ppu_step s op with Ok s' => ppu_run_from s' t | Crash w => Crash w | Exit => Exit end.
Proof.
  unfold ppu_run_from. cbn [fold_left bind].
  destruct (ppu_step s op) as [s'|w|]; [reflexivity| |].
  - induction t as [|x t IH]; [reflexivity|exact IH].
  - induction t as [|x t IH]; [reflexivity|exact IH].
Qed.

Lemma R_run_from (h : list ev) : forall s a,
  R s a -> exists s', ppu_run_from s (map op_of h) = Ok s' /\ R s' (fold_left lcd_step h a).
Proof.
  induction h as [|e h IH]; intros s a HR; cbn [map fold_left].
  - exists s. split; [reflexivity|exact HR].
  - destruct (R_step s a e HR) as (s1 & Hs & HR1).
    rewrite run_from_cons, Hs. apply IH. exact HR1.
Qed.

Theorem run_refines (h : list ev) :
  exists s, ppu_run (map op_of h) = Ok s /\ R s (lcd_run h).
Proof. apply R_run_from. exact R_init. Qed.

(* ---------- reading the registers ---------- *)
Lemma stat_low_bits p : p_mode p < 4 -> N.land (ppu_read_stat p) 3 = p_mode p.
Proof.
  intros Hm. unfold ppu_read_stat, u8.
  change 3 with (N.ones 2). rewrite N.land_ones. change (2 ^ 2) with 4.
  destruct (p_stat p) as [a b c d]; cbn [coincidenceInterrupt oamInterrupt vblankInterrupt hblankInterrupt].
  destruct a, b, c, d, (p_coincidence p); lia.
Qed.

Lemma lcd_mode_lt4 a : lcd_mode a < 4.
Proof. unfold lcd_mode. destruct (on a); [apply spec_mode_lt4|lia]. Qed.

(* C13: LY and the STAT mode bits follow the schedule, for every history *)
Theorem lcd_timing (h : list ev) :
  exists s, ppu_run (map op_of h) = Ok s
    /\ N.land (ppu_read_stat (fst s)) 3 = lcd_mode (lcd_run h)
    /\ (ly_stale (lcd_run h) = false -> ppu_read_ly (fst s) = lcd_ly (lcd_run h)).
Proof.
  destruct (run_refines h) as (s & Hs & HR). exists s. split; [exact Hs|]. split.
  - rewrite stat_low_bits; [exact (R_mode _ _ HR)|]. rewrite (R_mode _ _ HR). apply lcd_mode_lt4.
  - intros X. exact (R_ly _ _ HR X).
Qed.

Theorem lcd_on_timing (h : list ev) k :
  on (lcd_run h) = true -> since (lcd_run h) = k ->
  exists s, ppu_run (map op_of h) = Ok s
    /\ N.land (ppu_read_stat (fst s)) 3 = spec_mode k
    /\ (ly_stale (lcd_run h) = false -> ppu_read_ly (fst s) = spec_ly k).
Proof.
  intros Hon Hk. destruct (lcd_timing h) as (s & Hs & Hm & Hl). exists s.
  unfold lcd_mode, lcd_ly in *. rewrite Hon, Hk in *. auto.
Qed.

Theorem lcd_off_timing (h : list ev) :
  on (lcd_run h) = false ->
  exists s, ppu_run (map op_of h) = Ok s
    /\ N.land (ppu_read_stat (fst s)) 3 = 0 /\ ppu_read_ly (fst s) = 0.
Proof.
  intros Hoff. destruct (run_refines h) as (s & Hs & HR). exists s. split; [exact Hs|].
  pose proof (R_mode _ _ HR) as Hm. unfold lcd_mode in Hm. rewrite Hoff in Hm.
  split.
  - rewrite stat_low_bits; [exact Hm | rewrite Hm; lia].
  - assert (S : ly_stale (lcd_run h) = false).
    { destruct (ly_stale (lcd_run h)) eqn:E; [|reflexivity].
      rewrite (R_stale _ _ HR E) in Hoff. discriminate. }
    pose proof (R_ly _ _ HR S) as Hl. unfold lcd_ly in Hl. rewrite Hoff in Hl. exact Hl.
Qed.

Lemma lcd_run_snoc (h : list ev) e : lcd_run (h ++ [e]) = lcd_step (lcd_run h) e.
Proof. unfold lcd_run. rewrite fold_left_app. reflexivity. Qed.

(* switching off acts at once, whatever the history and the moment *)
Theorem lcd_off_immediate (h : list ev) v :
  N.testbit v 7 = false ->
  exists s, ppu_run (map op_of (h ++ [Write LCDC v])) = Ok s
    /\ N.land (ppu_read_stat (fst s)) 3 = 0 /\ ppu_read_ly (fst s) = 0.
Proof.
  intros Hv. apply lcd_off_timing. rewrite lcd_run_snoc. cbn [lcd_step]. rewrite Hv. reflexivity.
Qed.

(* switching on (from off) restarts at line 0, mode 2 *)
Theorem lcd_on_restart (h : list ev) v :
  on (lcd_run h) = false -> N.testbit v 7 = true ->
  exists s, ppu_run (map op_of (h ++ [Write LCDC v])) = Ok s
    /\ N.land (ppu_read_stat (fst s)) 3 = 2 /\ ppu_read_ly (fst s) = 0
    /\ since (lcd_run (h ++ [Write LCDC v])) = 0.
Proof.
  intros Hoff Hv.
  assert (E : lcd_run (h ++ [@Write (oam -> oam) LCDC v]) =
              mkLcd true 0 false (ticked (lcd_run h)) (upd (lastw (lcd_run h)) LCDC v)).
  { rewrite lcd_run_snoc. cbn [lcd_step]. rewrite Hv, Hoff. reflexivity. }
  destruct (lcd_on_timing (h ++ [Write LCDC v]) 0) as (s & Hs & Hm & Hl);
    [rewrite E; reflexivity | rewrite E; reflexivity |].
  exists s. split; [exact Hs|]. split; [exact Hm|]. split.
  - apply Hl. rewrite E. reflexivity.
  - rewrite E. reflexivity.
Qed.

(* the model never crashes on any history *)
Theorem ppu_never_crashes (h : list ev) : exists s, ppu_run (map op_of h) = Ok s.
Proof. destruct (run_refines h) as (s & Hs & _). exists s; exact Hs. Qed.

(* ---------- C14: the requests of the cycle that follows any history ---------- *)
Lemma run_snoc ops op :
  ppu_run (ops ++ [op]) = (do s <- ppu_run ops; ppu_step s op).
Proof. unfold ppu_run, ppu_run_from. rewrite fold_left_app. reflexivity. Qed.

Theorem lcd_requests (h : list ev) :
  ppu_next_req (map op_of h) =
  Ok (let a := lcd_run h in
      if on a then req_exact (since a + 1) (stat_of (lastw a STAT)) (lastw a LYC) else 0).
Proof.
  destruct (run_refines h) as (s & Hs & HR).
  unfold ppu_next_req. rewrite Hs. cbn [bind]. cbv zeta.
  destruct (on (lcd_run h)) eqn:Hon.
  - destruct (tick_on s _ HR Hon) as (ovl & Ht & _). rewrite Ht. reflexivity.
  - rewrite (tick_off s _ HR Hon). reflexivity.
Qed.

(* ---------- single STAT sources ---------- *)
Lemma tb_masked v m : N.land 0x78 m = m -> tb v m = tb (N.land v 0x78) m.
Proof. intros Hm. unfold tb. rewrite <- N.land_assoc, Hm. reflexivity. Qed.

Lemma stat_of_only v m : only_source v m -> stat_of v = stat_of m.
Proof.
  unfold only_source. intros <-. unfold stat_of.
  rewrite <- !tb_masked by reflexivity. reflexivity.
Qed.

Lemma lyc_instant_eq lyc k :
  (dot_of (pos k) =? 0) && (line_of (pos k) =? lyc) = lyc_instant lyc k.
Proof.
  unfold lyc_instant, dot_of, line_of, line_len. pose proof (pos_lt k).
  destruct (lyc <=? 153) eqn:E; lia.
Qed.

Section Sources.
  Variable h : list ev.
  Let a := lcd_run h.
  Let k := since a + 1.              (* number of the cycle that follows h *)

  Lemma next_req_on :
    on a = true ->
    ppu_next_req (map op_of h) = Ok (req_exact k (stat_of (lastw a STAT)) (lastw a LYC)).
  Proof. intros Hon. rewrite lcd_requests. cbv zeta. unfold k, a in *. rewrite Hon. reflexivity. Qed.

  Lemma next_req_off : on a = false -> ppu_next_req (map op_of h) = Ok 0.
  Proof. intros Hoff. rewrite lcd_requests. cbv zeta. unfold a in *. rewrite Hoff. reflexivity. Qed.

  Lemma vblank_request :
    exists rq, ppu_next_req (map op_of h) = Ok rq /\ N.testbit rq 0 = on a && vblank_instant k.
  Proof.
    destruct (on a) eqn:Hon.
    - eexists; split; [apply next_req_on; exact Hon|]. apply req_exact_bit0.
    - exists 0. split; [apply next_req_off; exact Hon|reflexivity].
  Qed.

  Lemma source_request m :
    on a = true -> only_source (lastw a STAT) m ->
    exists rq, ppu_next_req (map op_of h) = Ok rq
               /\ N.testbit rq 1 = stat_line k (stat_of m) (lastw a LYC).
  Proof.
    intros Hon Hs. eexists; split; [apply next_req_on; exact Hon|].
    rewrite req_exact_bit1, (stat_of_only _ _ Hs). reflexivity.
  Qed.

  Lemma hblank_source :
    on a = true -> only_source (lastw a STAT) SRC_HBLANK ->
    exists rq, ppu_next_req (map op_of h) = Ok rq /\ N.testbit rq 1 = hblank_instant k.
  Proof.
    intros Hon Hs. destruct (source_request _ Hon Hs) as (rq & H1 & H2). exists rq. split; [exact H1|].
    rewrite H2. unfold stat_line, stat_of, SRC_HBLANK. cbn [tb]. 
    change (tb 8 64) with false. change (tb 8 32) with false. change (tb 8 16) with false.
    change (tb 8 8) with true.
    cbn [coincidenceInterrupt oamInterrupt vblankInterrupt hblankInterrupt andb orb].
    rewrite !Bool.orb_false_r. reflexivity.
  Qed.

  Lemma vblank_source :
    on a = true -> only_source (lastw a STAT) SRC_VBLANK ->
    exists rq, ppu_next_req (map op_of h) = Ok rq /\ N.testbit rq 1 = vblank_instant k.
  Proof.
    intros Hon Hs. destruct (source_request _ Hon Hs) as (rq & H1 & H2). exists rq. split; [exact H1|].
    rewrite H2. unfold stat_line, stat_of, SRC_VBLANK.
    change (tb 16 64) with false. change (tb 16 32) with false. change (tb 16 16) with true.
    change (tb 16 8) with false.
    cbn [coincidenceInterrupt oamInterrupt vblankInterrupt hblankInterrupt andb orb].
    rewrite !Bool.orb_false_r. reflexivity.
  Qed.

  (* the model's exact behaviour: every line 0-143 start except the cycle right after switch-on *)
  Lemma oam_source_exact :
    on a = true -> only_source (lastw a STAT) SRC_OAM ->
    exists rq, ppu_next_req (map op_of h) = Ok rq
               /\ N.testbit rq 1 = oam_instant k && negb (k =? 1).
  Proof.
    intros Hon Hs. destruct (source_request _ Hon Hs) as (rq & H1 & H2). exists rq. split; [exact H1|].
    rewrite H2. unfold stat_line, stat_of, SRC_OAM.
    change (tb 32 64) with false. change (tb 32 32) with true. change (tb 32 16) with false.
    change (tb 32 8) with false.
    cbn [coincidenceInterrupt oamInterrupt vblankInterrupt hblankInterrupt andb orb].
    rewrite !Bool.orb_false_r. reflexivity.
  Qed.

  Lemma oam_source :
    on a = true -> only_source (lastw a STAT) SRC_OAM ->
    exists rq, ppu_next_req (map op_of h) = Ok rq
               /\ req_ok oam_open oam_instant k (N.testbit rq 1).
  Proof.
    intros Hon Hs. destruct (oam_source_exact Hon Hs) as (rq & H1 & H2). exists rq. split; [exact H1|].
    unfold req_ok, oam_open. rewrite H2.
    destruct (k =? 1); [left; reflexivity|right; apply Bool.andb_true_r].
  Qed.

  Lemma lyc_source_exact :
    on a = true -> only_source (lastw a STAT) SRC_LYC ->
    exists rq, ppu_next_req (map op_of h) = Ok rq
               /\ N.testbit rq 1 = lyc_instant (lastw a LYC) k.
  Proof.
    intros Hon Hs. destruct (source_request _ Hon Hs) as (rq & H1 & H2). exists rq. split; [exact H1|].
    rewrite H2. unfold stat_line, stat_of, SRC_LYC.
    change (tb 64 64) with true. change (tb 64 32) with false. change (tb 64 16) with false.
    change (tb 64 8) with false.
    cbn [coincidenceInterrupt oamInterrupt vblankInterrupt hblankInterrupt andb orb].
    apply lyc_instant_eq.
  Qed.

  Lemma lyc_source :
    on a = true -> only_source (lastw a STAT) SRC_LYC ->
    exists rq, ppu_next_req (map op_of h) = Ok rq
               /\ req_ok lyc_open (lyc_instant (lastw a LYC)) k (N.testbit rq 1).
  Proof.
    intros Hon Hs. destruct (lyc_source_exact Hon Hs) as (rq & H1 & H2). exists rq. split; [exact H1|].
    right. exact H2.
  Qed.
End Sources.

(* LYC values that are no line number never match *)
Lemma lyc_out_of_range lyc k : 153 < lyc -> lyc_instant lyc k = false.
Proof. intros H. unfold lyc_instant. destruct (lyc <=? 153) eqn:E; [lia|reflexivity]. Qed.

(* ---------- the schedule repeats ---------- *)
Lemma spec_period k :
  63 <= k -> spec_ly (k + 17556) = spec_ly k /\ spec_mode (k + 17556) = spec_mode k.
Proof.
  intros Hk. unfold spec_ly, spec_mode. rewrite pos_period by exact Hk.
  destruct (k + 17556 =? 0) eqn:E1; destruct (k =? 0) eqn:E2; try lia; split; reflexivity.
Qed.
