(* SafeCpu.v — the CPU part of the C11 safety invariant, over an abstract bus: registers stay bytes / 16-bit words,
   the flag register keeps its low nibble clear, the micro-operation index stays inside the current list (so the
   model's FCrash never arises), every address put on the bus is below 65536, and a predicate of the bus that
   every bus operation preserves is preserved by every machine cycle. *)
From V.lib Require Import Bits Mem Res.
From V.model Require Import Uop Alu Cpu.
From V.spec Require Import Sm83Spec.
From V.proofs Require Import SafeLemmas AluSweeps AluProofs CpuLemmas CpuProofs.
From Coq Require Import ZArith ZifyN ZifyNat ZifyBool.

(* ---------------- ranges of the arithmetic helpers ---------------- *)
Lemma alu_rng o a u f : a < 256 -> u < 256 -> wf_f f -> fst (alu o a u f) < 256 /\ wf_f (snd (alu o a u f)).
Proof. intros. rewrite alu_ok by assumption. apply alu_doc_wf; assumption. Qed.
Lemma inc8_rng r f : r < 256 -> wf_f f -> fst (inc8 r f) < 256 /\ wf_f (snd (inc8 r f)).
Proof. intros. rewrite inc8_ok by assumption. apply inc_doc_wf; assumption. Qed.
Lemma dec8_rng r f : r < 256 -> wf_f f -> fst (dec8 r f) < 256 /\ wf_f (snd (dec8 r f)).
Proof. intros. rewrite dec8_ok by assumption. apply dec_doc_wf; assumption. Qed.
Lemma rot_rng o r f : r < 256 -> wf_f f -> fst (rot o r f) < 256 /\ wf_f (snd (rot o r f)).
Proof. intros. rewrite rot_ok by assumption. apply rot_doc_wf; assumption. Qed.
Lemma rot_a_rng o r f : r < 256 -> wf_f f -> fst (rot_a o r f) < 256 /\ wf_f (snd (rot_a o r f)).
Proof. intros. rewrite rot_a_ok by assumption. apply rota_doc_wf; assumption. Qed.
Lemma daa_rng r f : r < 256 -> wf_f f -> fst (alu_daa r f) < 256 /\ wf_f (snd (alu_daa r f)).
Proof. intros. rewrite daa_ok by assumption. apply daa_doc_wf; assumption. Qed.
Lemma cpl_rng r f : r < 256 -> wf_f f -> fst (alu_cpl r f) < 256 /\ wf_f (snd (alu_cpl r f)).
Proof. intros. rewrite cpl_ok by assumption. apply cpl_doc_wf; assumption. Qed.
Lemma ccf_rng f : wf_f f -> wf_f (alu_ccf f).
Proof. intros. rewrite ccf_ok by assumption. apply wf_f_pack. Qed.
Lemma scf_rng f : wf_f f -> wf_f (alu_scf f).
Proof. intros. rewrite scf_ok by assumption. apply wf_f_pack. Qed.
Lemma bit_test_rng n r f : n < 8 -> r < 256 -> wf_f f -> wf_f (bit_test n r f).
Proof. intros. rewrite bit_test_ok by assumption. apply wf_f_pack. Qed.
Lemma bit_res_rng n r : n < 8 -> r < 256 -> bit_res n r < 256.
Proof. intros Hn Hr. rewrite bit_res_ok by assumption. apply (bitop_wf n r Hn Hr). Qed.
Lemma bit_set_rng n r : n < 8 -> r < 256 -> bit_set n r < 256.
Proof. intros Hn Hr. rewrite bit_set_ok by assumption. apply (bitop_wf n r Hn Hr). Qed.
Lemma addhl_rng hl u f : wf_f f -> fst (alu_addhl hl u f) < 65536 /\ wf_f (snd (alu_addhl hl u f)).
Proof. intros. rewrite addhl_ok by assumption. unfold addhl_doc; cbn [fst snd]. split; [lia|apply wf_f_pack]. Qed.
Lemma addsp_rng spv e f : e < 256 -> wf_f f -> fst (alu_addsp spv e f) < 65536 /\ wf_f (snd (alu_addsp spv e f)).
Proof.
  intros. rewrite addsp_ok by assumption. unfold addsp_doc; cbn [fst snd]. split; [apply add_disp_lt|apply wf_f_pack].
Qed.
Lemma jr_rng pcv e : jr_target pcv e < 65536.
Proof. rewrite jr_target_ok. apply add_disp_lt. Qed.
Lemma land240_rng v : v < 256 -> wf_f (N.land v 240).
Proof. apply land240_wf. Qed.

Lemma alu_rng1 o a u f : a < 256 -> u < 256 -> wf_f f -> fst (alu o a u f) < 256. Proof. intros; apply alu_rng; assumption. Qed.
Lemma alu_rng2 o a u f : a < 256 -> u < 256 -> wf_f f -> wf_f (snd (alu o a u f)). Proof. intros; apply alu_rng; assumption. Qed.
Lemma inc8_rng1 r f : r < 256 -> wf_f f -> fst (inc8 r f) < 256. Proof. intros; apply inc8_rng; assumption. Qed.
Lemma inc8_rng2 r f : r < 256 -> wf_f f -> wf_f (snd (inc8 r f)). Proof. intros; apply inc8_rng; assumption. Qed.
Lemma dec8_rng1 r f : r < 256 -> wf_f f -> fst (dec8 r f) < 256. Proof. intros; apply dec8_rng; assumption. Qed.
Lemma dec8_rng2 r f : r < 256 -> wf_f f -> wf_f (snd (dec8 r f)). Proof. intros; apply dec8_rng; assumption. Qed.
Lemma rot_rng1 o r f : r < 256 -> wf_f f -> fst (rot o r f) < 256. Proof. intros; apply rot_rng; assumption. Qed.
Lemma rot_rng2 o r f : r < 256 -> wf_f f -> wf_f (snd (rot o r f)). Proof. intros; apply rot_rng; assumption. Qed.
Lemma rot_a_rng1 o r f : r < 256 -> wf_f f -> fst (rot_a o r f) < 256. Proof. intros; apply rot_a_rng; assumption. Qed.
Lemma rot_a_rng2 o r f : r < 256 -> wf_f f -> wf_f (snd (rot_a o r f)). Proof. intros; apply rot_a_rng; assumption. Qed.
Lemma daa_rng1 r f : r < 256 -> wf_f f -> fst (alu_daa r f) < 256. Proof. intros; apply daa_rng; assumption. Qed.
Lemma daa_rng2 r f : r < 256 -> wf_f f -> wf_f (snd (alu_daa r f)). Proof. intros; apply daa_rng; assumption. Qed.
Lemma cpl_rng1 r f : r < 256 -> wf_f f -> fst (alu_cpl r f) < 256. Proof. intros; apply cpl_rng; assumption. Qed.
Lemma cpl_rng2 r f : r < 256 -> wf_f f -> wf_f (snd (alu_cpl r f)). Proof. intros; apply cpl_rng; assumption. Qed.
Lemma addhl_rng1 hl u f : wf_f f -> fst (alu_addhl hl u f) < 65536. Proof. intros; apply addhl_rng; assumption. Qed.
Lemma addhl_rng2 hl u f : wf_f f -> wf_f (snd (alu_addhl hl u f)). Proof. intros; apply addhl_rng; assumption. Qed.
Lemma addsp_rng1 v e f : e < 256 -> wf_f f -> fst (alu_addsp v e f) < 65536. Proof. intros; apply addsp_rng; assumption. Qed.
Lemma addsp_rng2 v e f : e < 256 -> wf_f f -> wf_f (snd (alu_addsp v e f)). Proof. intros; apply addsp_rng; assumption. Qed.
Lemma hi_byte v : v < 65536 -> v / 256 < 256. Proof. intros; lia. Qed.
Lemma lo_byte v : v mod 256 < 256. Proof. lia. Qed.
Lemma add16_lt x y : add16 x y < 65536. Proof. unfold add16; lia. Qed.
Lemma sub16_lt x y : sub16 x y < 65536. Proof. unfold sub16; lia. Qed.
Lemma pair16_lt h l : h < 256 -> l < 256 -> pair16 h l < 65536. Proof. unfold pair16; lia. Qed.
Lemma ret_lt h l : h < 256 -> l < 256 -> N.lor (h * 256) l < 65536.
Proof. intros Hh Hl. rewrite lor_hi_lo by exact Hl. lia. Qed.
Lemma io_lt c : c < 256 -> 65280 + c < 65536. Proof. lia. Qed.

(* ---------------- well-formed CPU registers ---------------- *)
Definition rwf (s : cpu) : Prop :=
  ra s < 256 /\ rb s < 256 /\ rc s < 256 /\ rd s < 256 /\ re s < 256 /\ wf_f (rf s) /\ rh s < 256 /\ rl s < 256 /\
  sp s < 65536 /\ pc s < 65536 /\ u8a s < 256 /\ u8b s < 256 /\ m8a s < 256 /\ m8b s < 256.

Definition dst_ok (r : reg) : bool := match r with RF => false | _ => true end.

(* what the tables may contain: bit numbers below 8, restart vectors in range, F never the target of a byte move *)
Definition uop_okb (u : uop) : bool :=
  match u with
  | UMov d _ | UMovImm d | ULdRM d | UInc8 d | UDec8 d | URot _ d | UPop d => dst_ok d
  | UBit n _ | UBitM n | UResM n | USetM n => n <? 8
  | URes n d | USet n d => (n <? 8) && dst_ok d
  | URst a => a <? 65536
  | _ => true
  end.

(* the addresses a micro-operation puts on the bus (reads, writes and OAM-bug triggers), from the state it starts in *)
Definition uop_addrs (u : uop) (s : cpu) : list N :=
  match u with
  | UReadA | UReadB => [pc s]
  | UAlu _ SMemHL => [hl s]
  | ULdRM _ | UStMR _ | UStMImm | UIncM | UDecM | URotM _ | UBitM _ | UResM _ | USetM _
  | UStHLI | UStHLD | ULdHLI | ULdHLD => [hl s]
  | UInc16 p | UDec16 p | UStA p | ULdA p => [get_rp p s]
  | ULdACX | UStCXA => [65280 + rc s]
  | ULdAUX | UStUXA => [65280 + u8a s]
  | ULdAUX16 | UStUX16A | UWriteLowSP => [imm16 s]
  | UWriteHighSP => [add16 (imm16 s) 1]
  | UPop _ | UPopF => [sp s]
  | UPush _ => [sp s; sub16 (sp s) 1]
  | UHandleInterrupt => [sp s; sub16 (sp s) 1; sub16 (sub16 (sp s) 1) 1]
  | _ => []
  end.

(* the addresses it writes *)
Definition uop_waddrs (u : uop) (s : cpu) : list N :=
  match u with
  | UStMR _ | UStMImm | UIncM | UDecM | URotM _ | UResM _ | USetM _ | UStHLI | UStHLD => [hl s]
  | UStA p => [get_rp p s]
  | UStCXA => [65280 + rc s]
  | UStUXA => [65280 + u8a s]
  | UStUX16A | UWriteLowSP => [imm16 s]
  | UWriteHighSP => [add16 (imm16 s) 1]
  | UPush _ => [sub16 (sp s) 1]
  | UHandleInterrupt => [sub16 (sp s) 1; sub16 (sub16 (sp s) 1) 1]
  | _ => []
  end.

Lemma wf_f_lt f : wf_f f -> f < 256. Proof. intros [H _]; exact H. Qed.

Section Bus.
  Variable B : Type.
  Variable brd : B -> N -> B * N.
  Variable bwr : B -> N -> N -> B.
  Variable btrig : B -> N -> B.
  Variable bime : B -> bool.
  Variable bset_ime : B -> bool -> B.
  Variable bpending : B -> N.
  Variable back : B -> N -> B.
  (* a predicate of the bus and a set of admissible addresses *)
  Variable P : B -> Prop.
  (* A: addresses that may be read or passed to the OAM-bug trigger; Aw: addresses that may be written *)
  Variable A : N -> Prop.
  Variable Aw : N -> Prop.
  Hypothesis Hrd : forall b a, P b -> a < 65536 -> A a -> P (fst (brd b a)) /\ snd (brd b a) < 256.
  Hypothesis Hwr : forall b a v, P b -> a < 65536 -> Aw a -> v < 256 -> P (bwr b a v).
  Hypothesis Htrig : forall b a, P b -> a < 65536 -> A a -> P (btrig b a).
  Hypothesis Hsime : forall b v, P b -> P (bset_ime b v).
  Hypothesis Hack : forall b n, P b -> P (back b n).

  Notation mexec := (exec B brd bwr btrig bime bset_ime bpending back).

  Lemma rd_P b a : P b -> a < 65536 -> A a -> P (fst (brd b a)). Proof. intros; apply Hrd; assumption. Qed.
  Lemma rd_byte b a : P b -> a < 65536 -> A a -> snd (brd b a) < 256. Proof. intros; apply Hrd; assumption. Qed.

  Ltac addr_lt := unfold pair16, add16, sub16, imm16, hl, bc, de in *; cbn in *; lia.

  Ltac break_regs :=
    repeat match goal with
           | x : reg |- _ => destruct x
           | x : rp |- _ => destruct x
           | x : src |- _ => destruct x
           end.

  Ltac slv HA HAw :=
    lazymatch goal with
    | |- _ /\ _ => split; slv HA HAw
    | |- ?x = ?x => reflexivity
    | |- _ \/ _ => first [left; reflexivity | right; reflexivity]
    | |- P (fst (brd _ _)) => apply rd_P; slv HA HAw
    | |- P (bwr _ _ _) => apply Hwr; slv HA HAw
    | |- P (btrig _ _) => apply Htrig; slv HA HAw
    | |- P (bset_ime _ _) => apply Hsime; slv HA HAw
    | |- P (back _ _) => apply Hack; slv HA HAw
    | |- P _ => try assumption
    | |- A _ => try (apply HA; cbn [In]; tauto)
    | |- Aw _ => try (apply HAw; cbn [In]; tauto)
    | |- snd (brd _ _) < 256 => apply rd_byte; slv HA HAw
    | |- fst (alu _ _ _ _) < 256 => apply alu_rng1; slv HA HAw
    | |- wf_f (snd (alu _ _ _ _)) => apply alu_rng2; slv HA HAw
    | |- fst (inc8 _ _) < 256 => apply inc8_rng1; slv HA HAw
    | |- wf_f (snd (inc8 _ _)) => apply inc8_rng2; slv HA HAw
    | |- fst (dec8 _ _) < 256 => apply dec8_rng1; slv HA HAw
    | |- wf_f (snd (dec8 _ _)) => apply dec8_rng2; slv HA HAw
    | |- fst (rot _ _ _) < 256 => apply rot_rng1; slv HA HAw
    | |- wf_f (snd (rot _ _ _)) => apply rot_rng2; slv HA HAw
    | |- fst (rot_a _ _ _) < 256 => apply rot_a_rng1; slv HA HAw
    | |- wf_f (snd (rot_a _ _ _)) => apply rot_a_rng2; slv HA HAw
    | |- fst (alu_daa _ _) < 256 => apply daa_rng1; slv HA HAw
    | |- wf_f (snd (alu_daa _ _)) => apply daa_rng2; slv HA HAw
    | |- fst (alu_cpl _ _) < 256 => apply cpl_rng1; slv HA HAw
    | |- wf_f (snd (alu_cpl _ _)) => apply cpl_rng2; slv HA HAw
    | |- fst (alu_addhl _ _ _) < 65536 => apply addhl_rng1; slv HA HAw
    | |- wf_f (snd (alu_addhl _ _ _)) => apply addhl_rng2; slv HA HAw
    | |- fst (alu_addsp _ _ _) < 65536 => apply addsp_rng1; slv HA HAw
    | |- wf_f (snd (alu_addsp _ _ _)) => apply addsp_rng2; slv HA HAw
    | |- wf_f (alu_ccf _) => apply ccf_rng; slv HA HAw
    | |- wf_f (alu_scf _) => apply scf_rng; slv HA HAw
    | |- wf_f (bit_test _ _ _) => apply bit_test_rng; slv HA HAw
    | |- bit_res _ _ < 256 => apply bit_res_rng; slv HA HAw
    | |- bit_set _ _ < 256 => apply bit_set_rng; slv HA HAw
    | |- wf_f (N.land _ 240) => apply land240_rng; slv HA HAw
    | |- wf_f _ => try assumption
    | |- jr_target _ _ < 65536 => apply jr_rng
    | |- add16 _ _ < 65536 => apply add16_lt
    | |- sub16 _ _ < 65536 => apply sub16_lt
    | |- pair16 _ _ < 65536 => apply pair16_lt; slv HA HAw
    | |- N.lor (_ * 256) _ < 65536 => apply ret_lt; slv HA HAw
    | |- 65280 + _ < 65536 => apply io_lt; slv HA HAw
    | |- _ / 256 < 256 => apply hi_byte; slv HA HAw
    | |- _ mod 256 < 256 => apply lo_byte
    | |- _ < _ => try first [assumption | lia]
    | |- _ => idtac
    end.

  Ltac run_exec1 :=
    match goal with
    | |- context [exec ?a1 ?a2 ?a3 ?a4 ?a5 ?a6 ?a7 ?a8 ?u ?s ?b] =>
        let r := fresh "r" in let Er := fresh "Er" in
        set (r := exec a1 a2 a3 a4 a5 a6 a7 a8 u s b);
        assert (Er : r = exec a1 a2 a3 a4 a5 a6 a7 a8 u s b) by reflexivity; clearbody r
    end.
  Ltac run_exec2 Er :=
        lazy beta iota zeta delta
          [exec dread dwrite inc_sp dec_sp inc_hl dec_hl do_push do_rst handle_interrupt src_val log set_rp set_reg get_reg get_rp
           set_ra set_rb set_rc set_rd set_re set_rf set_rh set_rl set_sp set_pc set_halted set_haltbug set_stopped set_eip
           set_u8a set_u8b set_m8a set_m8b set_cur set_cyc set_early set_mooneye set_fault set_trace
           Cpu.ra Cpu.rb Cpu.rc Cpu.rd Cpu.re Cpu.rf Cpu.rh Cpu.rl Cpu.sp Cpu.pc Cpu.halted Cpu.haltbug Cpu.stopped
           Cpu.eip Cpu.u8a Cpu.u8b Cpu.m8a Cpu.m8b Cpu.cur Cpu.cyc Cpu.early Cpu.mooneye Cpu.fault Cpu.trace hl bc de imm16] in Er.
  Ltac run_exec3 Er := cbn [fst snd] in Er.
  Ltac run_exec4 Er :=
        repeat match type of Er with context [if ?c then _ else _] => destruct c end.
  Ltac run_exec5 Er := cbn [fst snd] in Er; subst.

  Definition keeps (s s' : cpu) : Prop :=
    cur s' = cur s /\ cyc s' = cyc s /\ early s' = early s /\ fault s' = fault s.

  Lemma do_push_safe r s b :
    rwf s -> P b -> A (sp s) -> Aw (sub16 (sp s) 1) ->
    rwf (fst (do_push B bwr btrig r s b)) /\ P (snd (do_push B bwr btrig r s b)) /\
    sp (fst (do_push B bwr btrig r s b)) = sub16 (sp s) 1 /\ keeps s (fst (do_push B bwr btrig r s b)).
  Proof.
    intros Hs Hb A1 A2.
    destruct s as [xa xb xc xd xe xf xh xl xsp xpc hal hb st ei x8a x8b xm8a xm8b cu cy ea mo fa tr].
    unfold rwf in Hs. cbn in Hs.
    destruct Hs as (Ha & Hbb & Hc & Hd & He & Hf & Hh & Hl & Hsp & Hpc & H8a & H8b & Hm8a & Hm8b).
    pose proof (wf_f_lt _ Hf) as Hf'. cbn [Cpu.sp] in A1, A2.
    unfold do_push, dec_sp, dwrite, log, set_sp, set_trace, get_reg, keeps, rwf.
    destruct r;
      cbn [fst snd Cpu.ra Cpu.rb Cpu.rc Cpu.rd Cpu.re Cpu.rf Cpu.rh Cpu.rl Cpu.sp Cpu.pc Cpu.halted Cpu.haltbug Cpu.stopped
           Cpu.eip Cpu.u8a Cpu.u8b Cpu.m8a Cpu.m8b Cpu.cur Cpu.cyc Cpu.early Cpu.mooneye Cpu.fault Cpu.trace];
      repeat match goal with |- _ /\ _ => split end; try assumption; try reflexivity; try apply sub16_lt;
      (apply Hwr; [apply Htrig; assumption|apply sub16_lt|assumption|assumption]).
  Qed.

  Lemma do_rst_safe a s : rwf s -> a < 65536 -> rwf (do_rst a s) /\ sp (do_rst a s) = sp s /\ keeps s (do_rst a s).
  Proof.
    intros Hs Ha0.
    destruct s as [xa xb xc xd xe xf xh xl xsp xpc hal hb st ei x8a x8b xm8a xm8b cu cy ea mo fa tr].
    unfold rwf in Hs. cbn in Hs.
    destruct Hs as (Ha & Hbb & Hc & Hd & He & Hf & Hh & Hl & Hsp & Hpc & H8a & H8b & Hm8a & Hm8b).
    unfold do_rst, set_pc, set_m8b, set_m8a, keeps, rwf.
    cbn [fst snd Cpu.ra Cpu.rb Cpu.rc Cpu.rd Cpu.re Cpu.rf Cpu.rh Cpu.rl Cpu.sp Cpu.pc Cpu.halted Cpu.haltbug Cpu.stopped
         Cpu.eip Cpu.u8a Cpu.u8b Cpu.m8a Cpu.m8b Cpu.cur Cpu.cyc Cpu.early Cpu.mooneye Cpu.fault Cpu.trace].
    repeat match goal with |- _ /\ _ => split end; try assumption; try reflexivity; lia.
  Qed.

  Lemma handle_interrupt_safe s b :
    rwf s -> P b -> A (sp s) -> A (sub16 (sp s) 1) -> Aw (sub16 (sp s) 1) -> Aw (sub16 (sub16 (sp s) 1) 1) ->
    rwf (fst (handle_interrupt B bwr btrig bime bset_ime bpending back s b)) /\
    P (snd (handle_interrupt B bwr btrig bime bset_ime bpending back s b)) /\
    keeps s (fst (handle_interrupt B bwr btrig bime bset_ime bpending back s b)).
  Proof.
    intros Hs Hb A1 A2 A3 A4. unfold handle_interrupt.
    destruct (bime b); [|cbn [fst snd]; split; [exact Hs|split; [exact Hb|repeat split]]].
    set (b0 := bset_ime b false). assert (Hb0 : P b0) by (apply Hsime, Hb).
    set (sb := if N.testbit (bpending b0) 0 then _ else _).
    assert (Hsb : rwf (fst sb) /\ P (snd sb) /\ sp (fst sb) = sp s /\ keeps s (fst sb)).
    { subst sb.
      repeat match goal with |- context [if ?c then _ else _] => destruct c end; cbn [fst snd];
        try (destruct (do_rst_safe 64 s Hs ltac:(lia)) as (R1 & R2 & R3)); 
        first [ split; [apply do_rst_safe; [exact Hs|lia]|split; [apply Hack, Hb0|split; apply do_rst_safe; [exact Hs|lia|exact Hs|lia]]]
              | split; [exact Hs|split; [exact Hb0|split; [reflexivity|repeat split]]] ]. }
    clearbody sb. destruct Hsb as (S1 & S2 & S3 & S4).
    destruct (do_push_safe RM8B (fst sb) (snd sb) S1 S2) as (Q1 & Q2 & Q3 & Q4); [rewrite S3; exact A1|rewrite S3; exact A3|].
    set (sb1 := do_push B bwr btrig RM8B (fst sb) (snd sb)) in *. clearbody sb1.
    destruct (do_push_safe RM8A (fst sb1) (snd sb1) Q1 Q2) as (T1 & T2 & T3 & T4);
      [rewrite Q3, S3; exact A2|rewrite Q3, S3; exact A4|].
    split; [exact T1|]. split; [exact T2|].
    unfold keeps in *. destruct S4 as (?&?&?&?), Q4 as (?&?&?&?), T4 as (?&?&?&?). repeat split; congruence.
  Qed.

  Theorem exec_safe u s b :
    rwf s -> P b -> uop_okb u = true -> (forall a, In a (uop_addrs u s) -> A a) ->
    (forall a, In a (uop_waddrs u s) -> Aw a) ->
    rwf (fst (mexec u s b)) /\ P (snd (mexec u s b)) /\
    cur (fst (mexec u s b)) = cur s /\ cyc (fst (mexec u s b)) = cyc s /\ early (fst (mexec u s b)) = early s /\
    (fault (fst (mexec u s b)) = fault s \/ u = UFatal).
  Proof.
    intros Hs Hb Hu HA HAw.
    assert (HI : u = UHandleInterrupt \/ u <> UHandleInterrupt) by (destruct u; first [left; reflexivity|right; discriminate]).
    destruct HI as [->|HI].
    { cbn [uop_addrs] in HA. cbn [uop_waddrs] in HAw. cbn [exec].
      destruct (handle_interrupt_safe s b Hs Hb) as (R1 & R2 & (K1 & K2 & K3 & K4));
        try (apply HA; cbn [In]; tauto); try (apply HAw; cbn [In]; tauto).
      split; [exact R1|split; [exact R2|split; [exact K1|split; [exact K2|split; [exact K3|left; exact K4]]]]]. }
    destruct s as [xa xb xc xd xe xf xh xl xsp xpc hal hb st ei x8a x8b xm8a xm8b cu cy ea mo fa tr].
    unfold rwf in Hs. cbn in Hs.
    destruct Hs as (Ha & Hbb & Hc & Hd & He & Hf & Hh & Hl & Hsp & Hpc & H8a & H8b & Hm8a & Hm8b).
    pose proof (wf_f_lt _ Hf) as Hf'.
    destruct u; try congruence; break_regs; try discriminate Hu;
      cbn [uop_okb dst_ok andb] in Hu;
      cbn [uop_addrs get_rp hl bc de Cpu.rh Cpu.rl Cpu.rb Cpu.rc Cpu.rd Cpu.re Cpu.sp Cpu.pc Cpu.u8a Cpu.u8b imm16] in HA;
      cbn [uop_waddrs get_rp hl bc de Cpu.rh Cpu.rl Cpu.rb Cpu.rc Cpu.rd Cpu.re Cpu.sp Cpu.pc Cpu.u8a Cpu.u8b imm16] in HAw.
    all: try (rewrite Bool.andb_false_r in Hu; discriminate Hu).
    all: try (apply andb_prop in Hu; destruct Hu as [Hu _]).
    all: try apply N.ltb_lt in Hu.
    all: run_exec1.
    all: run_exec2 Er.
    all: run_exec3 Er.
    all: run_exec4 Er.
    all: run_exec5 Er.
    all: unfold rwf;
         cbn [fst snd Cpu.ra Cpu.rb Cpu.rc Cpu.rd Cpu.re Cpu.rf Cpu.rh Cpu.rl Cpu.sp Cpu.pc Cpu.halted Cpu.haltbug Cpu.stopped
              Cpu.eip Cpu.u8a Cpu.u8b Cpu.m8a Cpu.m8b Cpu.cur Cpu.cyc Cpu.early Cpu.mooneye Cpu.fault Cpu.trace].
    all: slv HA HAw.
  Qed.

  (* ---------------- instruction boundaries: next / fetch ---------------- *)
  Variable T : tables.
  Variable bcorrupt : B -> B.
  (* P0: the predicate at the end of a machine cycle (after oam.Corrupt); P: the weaker one inside a cycle *)
  Variable P0 : B -> Prop.
  Hypothesis HP0 : forall b, P0 b -> P b.
  Hypothesis Hsime0 : forall b v, P0 b -> P0 (bset_ime b v).
  Hypothesis Hcor : forall b, P b -> P0 (bcorrupt b).

  Definition uops_ok (l : list uop) : Prop := Forall (fun u => uop_okb u = true) l.
  Definition entry_ok (l : list uop) : Prop := l <> [] /\ uops_ok l.

  Record tables_ok : Prop := mkTablesOk {
    TO_nlen : length (t_normal T) = 256%nat;
    TO_plen : length (t_prefix T) = 256%nat;
    TO_normal : Forall entry_ok (t_normal T);
    TO_prefix : Forall entry_ok (t_prefix T);
    TO_early : forall op c e l, op < 256 -> lookup_early op (t_early T) = Some (c, e, l) ->
                                l = length (nth (N.to_nat op) (t_normal T) []);
    TO_vshort : entry_ok (t_vshort T);
    TO_short : entry_ok (t_short T);
    TO_long : entry_ok (t_long T)
  }.

  Definition prog_ok (s : cpu) : Prop :=
    uops_ok (cur s) /\ (cyc s <= length (cur s))%nat /\
    match early s with None => True | Some (c, e, l) => l = length (cur s) end.

  Definition cwf (s : cpu) : Prop := rwf s /\ prog_ok s.

  Lemma nth_entry_ok tbl op : length tbl = 256%nat -> Forall entry_ok tbl -> op < 256 -> entry_ok (nth (N.to_nat op) tbl []).
  Proof.
    intros Hl Hf Hop. rewrite Forall_forall in Hf. apply Hf. apply nth_In. rewrite Hl. lia.
  Qed.

  (* a freshly started micro-program *)
  Definition started (s : cpu) : Prop := cur s <> [] /\ cyc s = 0%nat.

  Notation mfetch := (fetch T B brd).
  Notation mnext := (next T B brd bime bset_ime bpending).
  Notation mcycle := (cycle T B brd bwr btrig bcorrupt bime bset_ime bpending back).

  Definition same_regs (s s' : cpu) : Prop :=
    ra s' = ra s /\ rb s' = rb s /\ rc s' = rc s /\ rd s' = rd s /\ re s' = re s /\ rf s' = rf s /\ rh s' = rh s /\
    rl s' = rl s /\ sp s' = sp s.

  (* where the current micro-program comes from *)
  Definition from_tables (l : list uop) : Prop :=
    l = [] \/ (exists op, op < 256 /\ op <> 203 /\ l = nth (N.to_nat op) (t_normal T) []) \/
    (exists op, op < 256 /\ l = nth (N.to_nat op) (t_prefix T) []) \/
    l = t_vshort T \/ l = t_short T \/ l = t_long T.

  Lemma fetch_safe s b :
    tables_ok -> rwf s -> P b -> A (pc s) -> A (add16 (pc s) 1) ->
    rwf (fst (mfetch s b)) /\ prog_ok (fst (mfetch s b)) /\ started (fst (mfetch s b)) /\ P (snd (mfetch s b)) /\
    fault (fst (mfetch s b)) = fault s /\ from_tables (cur (fst (mfetch s b))) /\ same_regs s (fst (mfetch s b)) /\
    u8a (fst (mfetch s b)) = 0 /\ u8b (fst (mfetch s b)) = 0 /\ m8a (fst (mfetch s b)) = 0 /\ m8b (fst (mfetch s b)) = 0 /\
    halted (fst (mfetch s b)) = halted s /\ stopped (fst (mfetch s b)) = stopped s /\
    (haltbug s = false ->
       pc (fst (mfetch s b)) = (if snd (brd b (pc s)) =? 203 then add16 (add16 (pc s) 1) 1 else add16 (pc s) 1)).
  Proof.
    intros HT Hs Hb A1 A2.
    destruct s as [xa xb xc xd xe xf xh xl xsp xpc hal hb st ei x8a x8b xm8a xm8b cu cy ea mo fa tr].
    unfold rwf in Hs. cbn in Hs.
    destruct Hs as (Ha & Hbb & Hc & Hd & He & Hf & Hh & Hl & Hsp & Hpc & H8a & H8b & Hm8a & Hm8b).
    cbn [Cpu.pc] in A1, A2.
    destruct (Hrd b xpc Hb Hpc A1) as [Hb1 Hop].
    destruct (Hrd (fst (brd b xpc)) (add16 xpc 1) Hb1 (add16_lt _ _) A2) as [Hb2 Hop2].
    unfold fetch.
    cbv beta iota zeta delta
      [set_ra set_rb set_rc set_rd set_re set_rf set_rh set_rl set_sp set_pc set_halted set_haltbug set_stopped set_eip
       set_u8a set_u8b set_m8a set_m8b set_cur set_cyc set_early set_mooneye set_fault set_trace
       Cpu.ra Cpu.rb Cpu.rc Cpu.rd Cpu.re Cpu.rf Cpu.rh Cpu.rl Cpu.sp Cpu.pc Cpu.halted Cpu.haltbug Cpu.stopped
       Cpu.eip Cpu.u8a Cpu.u8b Cpu.m8a Cpu.m8b Cpu.cur Cpu.cyc Cpu.early Cpu.mooneye Cpu.fault Cpu.trace].
    set (op := snd (brd b xpc)) in *. set (op2 := snd (brd (fst (brd b xpc)) (add16 xpc 1))) in *.
    destruct (op =? 203) eqn:Ecb; cbn [fst snd];
      unfold rwf, prog_ok, started, same_regs, from_tables;
      cbn [fst snd Cpu.ra Cpu.rb Cpu.rc Cpu.rd Cpu.re Cpu.rf Cpu.rh Cpu.rl Cpu.sp Cpu.pc Cpu.halted Cpu.haltbug Cpu.stopped
           Cpu.eip Cpu.u8a Cpu.u8b Cpu.m8a Cpu.m8b Cpu.cur Cpu.cyc Cpu.early Cpu.mooneye Cpu.fault Cpu.trace].
    - destruct (nth_entry_ok _ op2 (TO_plen HT) (TO_prefix HT) Hop2) as [N1 N2].
      destruct hb; cbn [fst snd Cpu.ra Cpu.rb Cpu.rc Cpu.rd Cpu.re Cpu.rf Cpu.rh Cpu.rl Cpu.sp Cpu.pc Cpu.halted Cpu.haltbug
           Cpu.stopped Cpu.eip Cpu.u8a Cpu.u8b Cpu.m8a Cpu.m8b Cpu.cur Cpu.cyc Cpu.early Cpu.mooneye Cpu.fault Cpu.trace];
        repeat match goal with |- _ /\ _ => split end; try assumption; try reflexivity; try lia; try apply add16_lt;
        try discriminate; try (intros _; reflexivity);
        (right; right; left; exists op2; split; [exact Hop2|reflexivity]).
    - destruct (nth_entry_ok _ op (TO_nlen HT) (TO_normal HT) Hop) as [N1 N2].
      assert (EL : match lookup_early op (t_early T) with
                   | None => True
                   | Some (c, e, l) => l = length (nth (N.to_nat op) (t_normal T) [])
                   end).
      { destruct (lookup_early op (t_early T)) as [[[c e] l]|] eqn:El; [|exact I]. eapply (TO_early HT); eassumption. }
      destruct hb; cbn [fst snd Cpu.ra Cpu.rb Cpu.rc Cpu.rd Cpu.re Cpu.rf Cpu.rh Cpu.rl Cpu.sp Cpu.pc Cpu.halted Cpu.haltbug
           Cpu.stopped Cpu.eip Cpu.u8a Cpu.u8b Cpu.m8a Cpu.m8b Cpu.cur Cpu.cyc Cpu.early Cpu.mooneye Cpu.fault Cpu.trace];
        repeat match goal with |- _ /\ _ => split end; try assumption; try reflexivity; try lia; try apply add16_lt;
        try discriminate; try (intros _; reflexivity);
        (right; left; exists op; split; [exact Hop|split; [apply N.eqb_neq; exact Ecb|reflexivity]]).
  Qed.

  Lemma check_interrupts_cases s b :
    let ci := check_interrupts T B bime bpending s b in
    (fst ci = None /\ snd ci = s) \/
    (exists l, fst ci = Some l /\ entry_ok l -> True) /\
    ((fst ci = Some (t_long T) \/ fst ci = Some (t_short T) \/ fst ci = Some (t_vshort T)) /\
     (snd ci = s \/ snd ci = set_halted false s)).
  Proof.
    unfold check_interrupts. cbv zeta.
    destruct (bpending b =? 0); [left; split; reflexivity|].
    destruct (bime b).
    - destruct (halted s); right; (split; [exists []; tauto|]); cbn [fst snd]; auto.
    - destruct (halted s); [right; (split; [exists []; tauto|]); cbn [fst snd]; auto|left; split; reflexivity].
  Qed.

  Lemma rwf_frame s s' :
    ra s' = ra s -> rb s' = rb s -> rc s' = rc s -> rd s' = rd s -> re s' = re s -> rf s' = rf s -> rh s' = rh s ->
    rl s' = rl s -> sp s' = sp s -> pc s' = pc s -> u8a s' = u8a s -> u8b s' = u8b s -> m8a s' = m8a s -> m8b s' = m8b s ->
    rwf s -> rwf s'.
  Proof. unfold rwf. intros -> -> -> -> -> -> -> -> -> -> -> -> -> ->. exact (fun H => H). Qed.

  Lemma rwf_set_halted s v : rwf s -> rwf (set_halted v s). Proof. destruct s; exact (fun H => H). Qed.
  Lemma rwf_set_eip s v : rwf s -> rwf (set_eip v s). Proof. destruct s; exact (fun H => H). Qed.
  Lemma rwf_set_cyc s v : rwf s -> rwf (set_cyc v s). Proof. destruct s; exact (fun H => H). Qed.
  Lemma rwf_set_cur s v : rwf s -> rwf (set_cur v s). Proof. destruct s; exact (fun H => H). Qed.
  Lemma rwf_set_early s v : rwf s -> rwf (set_early v s). Proof. destruct s; exact (fun H => H). Qed.
  Lemma rwf_set_trace s v : rwf s -> rwf (set_trace v s). Proof. destruct s; exact (fun H => H). Qed.
  Lemma rwf_set_fault s v : rwf s -> rwf (set_fault v s). Proof. destruct s; exact (fun H => H). Qed.

  Lemma prog_set_halted s v : prog_ok s -> prog_ok (set_halted v s). Proof. destruct s; exact (fun H => H). Qed.
  Lemma prog_set_eip s v : prog_ok s -> prog_ok (set_eip v s). Proof. destruct s; exact (fun H => H). Qed.

  Definition seq_state (l : list uop) (s : cpu) : cpu := set_trace [] (set_early None (set_cur l (set_cyc 0%nat s))).

  Lemma seq_state_ok l s : entry_ok l -> rwf s ->
    rwf (seq_state l s) /\ prog_ok (seq_state l s) /\ started (seq_state l s) /\ fault (seq_state l s) = fault s /\
    cur (seq_state l s) = l.
  Proof.
    intros [L1 L2] Hs. unfold seq_state.
    split; [apply rwf_set_trace, rwf_set_early, rwf_set_cur, rwf_set_cyc, Hs|].
    destruct s; unfold prog_ok, started; cbn. repeat split; try assumption; lia.
  Qed.

  Lemma next_safe s b :
    tables_ok -> rwf s -> prog_ok s -> from_tables (cur s) -> P0 b -> A (pc s) -> A (add16 (pc s) 1) ->
    let n := mnext s b in
    rwf (fst (fst n)) /\ prog_ok (fst (fst n)) /\ from_tables (cur (fst (fst n))) /\ fault (fst (fst n)) = fault s /\
    (if snd n then P0 (snd (fst n)) else started (fst (fst n)) /\ P (snd (fst n))).
  Proof.
    intros HT Hs Hp Hft Hb A1 A2. unfold next. cbv zeta.
    set (ci := check_interrupts T B bime bpending s b).
    assert (Hci : (fst ci = None /\ snd ci = s) \/
                  ((fst ci = Some (t_long T) \/ fst ci = Some (t_short T) \/ fst ci = Some (t_vshort T)) /\
                   (snd ci = s \/ snd ci = set_halted false s))).
    { destruct (check_interrupts_cases s b) as [X|[_ X]]; [left; exact X|right; exact X]. }
    clearbody ci.
    set (b1 := if eip (snd ci) then bset_ime b true else b).
    assert (Hb1 : P0 b1) by (subst b1; destruct (eip (snd ci)); [apply Hsime0, Hb|exact Hb]).
    clearbody b1.
    assert (Hs1 : rwf (snd ci) /\ prog_ok (snd ci) /\ cur (snd ci) = cur s /\ fault (snd ci) = fault s /\ pc (snd ci) = pc s).
    { assert (X : snd ci = s \/ snd ci = set_halted false s) by (destruct Hci as [[_ X]|[_ X]]; [left; exact X|exact X]).
      destruct X as [-> | ->].
      - split; [exact Hs|]. split; [exact Hp|]. split; [reflexivity|]. split; reflexivity.
      - split; [apply rwf_set_halted; exact Hs|]. split; [apply prog_set_halted; exact Hp|]. destruct s; cbn. auto. }
    destruct Hs1 as (R1 & R2 & R3 & R4 & R5).
    set (s2 := set_eip false (snd ci)).
    assert (Hs2 : rwf s2 /\ prog_ok s2 /\ cur s2 = cur s /\ fault s2 = fault s /\ pc s2 = pc s).
    { subst s2. split; [apply rwf_set_eip; exact R1|]. split; [apply prog_set_eip; exact R2|].
      destruct (snd ci); cbn in *; auto. }
    clearbody s2. destruct Hs2 as (Q1 & Q2 & Q3 & Q4 & Q5).
    destruct (fst ci) as [l|] eqn:El.
    - (* an interrupt sequence *)
      assert (Hl : entry_ok l /\ from_tables l).
      { destruct Hci as [[X _]|[[X|[X|X]] _]]; try discriminate X; inversion X; subst l.
        - split; [apply (TO_long HT)|unfold from_tables; tauto].
        - split; [apply (TO_short HT)|unfold from_tables; tauto].
        - split; [apply (TO_vshort HT)|unfold from_tables; tauto]. }
      destruct Hl as [L1 L2].
      destruct (seq_state_ok l s2 L1 Q1) as (Z1 & Z2 & Z3 & Z4 & Z5). fold (seq_state l s2).
      cbn [fst snd]. rewrite Z5.
      split; [exact Z1|]. split; [exact Z2|]. split; [exact L2|]. split; [congruence|]. split; [exact Z3|apply HP0, Hb1].
    - destruct (halted s2 || stopped s2).
      + cbn [fst snd]. rewrite Q3.
        split; [exact Q1|]. split; [exact Q2|]. split; [exact Hft|]. split; [exact Q4|exact Hb1].
      + cbn [fst snd].
        destruct (fetch_safe s2 b1 HT Q1 (HP0 _ Hb1)) as (F1 & F2 & F3 & F4 & F5 & F6 & _);
          [rewrite Q5; exact A1|rewrite Q5; exact A2|].
        split; [exact F1|]. split; [exact F2|]. split; [exact F6|]. split; [congruence|]. split; [exact F3|exact F4].
  Qed.

  (* ---------------- one machine cycle ---------------- *)
  Definition run_uop (s1 : cpu) (b1 : B) : cpu * B :=
    match nth_error (cur s1) (cyc s1) with
    | None => (set_fault (Some FCrash) s1, b1)
    | Some u => let r := mexec u s1 b1 in (set_cyc (S (cyc (fst r))) (fst r), bcorrupt (snd r))
    end.

  Definition outcome_ok (s' : cpu) : Prop :=
    fault s' = None \/ (fault s' = Some FExit /\ In UFatal (cur s')).

  Lemma run_uop_safe s1 b1 :
    rwf s1 -> prog_ok s1 -> (cyc s1 < length (cur s1))%nat -> P b1 -> fault s1 = None ->
    (forall u, nth_error (cur s1) (cyc s1) = Some u -> forall a, In a (uop_addrs u s1) -> A a) ->
    (forall u, nth_error (cur s1) (cyc s1) = Some u -> forall a, In a (uop_waddrs u s1) -> Aw a) ->
    rwf (fst (run_uop s1 b1)) /\ prog_ok (fst (run_uop s1 b1)) /\ cur (fst (run_uop s1 b1)) = cur s1 /\
    P0 (snd (run_uop s1 b1)) /\ outcome_ok (fst (run_uop s1 b1)).
  Proof.
    intros Hs (Hu & Hc & He) Hlt Hb Hf HA HAw. unfold run_uop.
    destruct (nth_error (cur s1) (cyc s1)) as [u|] eqn:En; [|apply nth_error_None in En; lia].
    assert (Huo : uop_okb u = true).
    { unfold uops_ok in Hu. rewrite Forall_forall in Hu. apply Hu. eapply nth_error_In; exact En. }
    destruct (exec_safe u s1 b1 Hs Hb Huo (HA u eq_refl) (HAw u eq_refl)) as (E1 & E2 & E3 & E4 & E5 & E6).
    assert (EF : u = UFatal -> fault (fst (mexec u s1 b1)) = Some FExit) by (intros ->; destruct s1; reflexivity).
    cbv zeta. set (r := mexec u s1 b1) in *. clearbody r. cbn [fst snd].
    assert (K : cur (set_cyc (S (cyc (fst r))) (fst r)) = cur (fst r) /\ cyc (set_cyc (S (cyc (fst r))) (fst r)) = S (cyc (fst r)) /\
                early (set_cyc (S (cyc (fst r))) (fst r)) = early (fst r) /\
                fault (set_cyc (S (cyc (fst r))) (fst r)) = fault (fst r)) by (destruct (fst r); cbn; auto).
    destruct K as (K1 & K2 & K3 & K4).
    split; [apply rwf_set_cyc; exact E1|]. split.
    { unfold prog_ok. rewrite K1, K2, K3, E3, E4, E5. split; [exact Hu|]. split; [lia|exact He]. }
    split; [congruence|]. split; [apply Hcor, E2|].
    unfold outcome_ok. rewrite K4, K1, E3. destruct E6 as [E6|E6].
    - left. congruence.
    - right. split; [apply EF; exact E6|subst u; eapply nth_error_In; exact En].
  Qed.

  Lemma not_finished_lt s : prog_ok s -> is_finished s = false -> (cyc s < length (cur s))%nat.
  Proof.
    intros (_ & Hc & He). unfold is_finished. destruct (early s) as [[[c e] l]|].
    - intros X. apply Bool.orb_false_elim in X. destruct X as [_ X]. apply Nat.eqb_neq in X. lia.
    - intros X. apply Nat.eqb_neq in X. lia.
  Qed.

  Theorem cycle_safe s b :
    tables_ok -> (forall a, A a) -> (forall a, Aw a) -> cwf s -> from_tables (cur s) -> P0 b -> fault s = None ->
    cwf (fst (mcycle (s, b))) /\ from_tables (cur (fst (mcycle (s, b)))) /\ P0 (snd (mcycle (s, b))) /\
    outcome_ok (fst (mcycle (s, b))).
  Proof.
    intros HT HA HAw [Hs Hp] Hft Hb Hf. unfold cycle. cbn [fst snd]. rewrite Hf.
    destruct (is_finished s) eqn:Efin.
    - pose proof (next_safe s b HT Hs Hp Hft Hb (HA _) (HA _)) as N. cbv zeta in N.
      destruct N as (N1 & N2 & N3 & N4 & N5).
      destruct (snd (mnext s b)).
      + split; [split; assumption|]. split; [exact N3|]. split; [exact N5|]. left. congruence.
      + destruct N5 as [[S1 S2] Hb1].
        fold (run_uop (fst (fst (mnext s b))) (snd (fst (mnext s b)))).
        destruct (run_uop_safe (fst (fst (mnext s b))) (snd (fst (mnext s b))) N1 N2) as (R1 & R2 & R3 & R4 & R5);
          [rewrite S2; destruct (cur (fst (fst (mnext s b)))); [congruence|cbn; lia]|exact Hb1|congruence|intros; apply HA|intros; apply HAw|].
        split; [split; assumption|]. split; [rewrite R3; exact N3|]. split; assumption.
    - cbn [fst snd]. fold (run_uop s b).
      destruct (run_uop_safe s b Hs Hp (not_finished_lt s Hp Efin) (HP0 _ Hb) Hf) as (R1 & R2 & R3 & R4 & R5); [intros; apply HA|intros; apply HAw|].
      split; [split; assumption|]. split; [rewrite R3; exact Hft|]. split; assumption.
  Qed.
End Bus.
