(* AluSweeps.v — the eight 2^20-case ALU sweeps (kept in their own file: they take minutes) of the arithmetic helpers of the CPU model (Alu.v, mirroring the Go bit tricks) compute the
   documented results and flags (Sm83Spec.v), for every operand and every flag register value with a zero low
   nibble.  8-bit facts by exhaustive sweep (vm_compute, lifted to forall); 16-bit facts by arithmetic. *)
From V.lib Require Import Bits.
From V.model Require Import Uop Alu.
From V.spec Require Import Sm83Spec.
From Coq Require Import ZArith ZifyN ZifyBool.

(* flag registers with a zero low nibble are 16*k, k < 16 *)
Definition wf_f (f : N) : Prop := f < 256 /\ f mod 16 = 0.

Lemma wf_f_16k f : wf_f f -> exists k, k < 16 /\ f = 16 * k.
Proof. intros [H1 H2]. exists (f / 16). split; [|]; lia. Qed.

Lemma wf_f_pack z n h c : wf_f (pack z n h c).
Proof. destruct z, n, h, c; split; vm_compute; reflexivity. Qed.

Definition all_ops : list aluop := [ADD; ADC; SUB; SBC; AND; XOR; OR; CP].
Definition all_rots : list rotop := [OpRLC; OpRRC; OpRL; OpRR; OpSLA; OpSRA; OpSWAP; OpSRL].

Definition pair_eqb (x y : N * N) : bool := (fst x =? fst y) && (snd x =? snd y).
Lemma pair_eqb_eq x y : pair_eqb x y = true -> x = y.
Proof.
  destruct x, y; unfold pair_eqb; cbn [fst snd]; intros H.
  apply andb_prop in H; destruct H as [H1 H2]. apply N.eqb_eq in H1, H2. subst; reflexivity.
Qed.

(* ---- 8-bit ALU: A x operand x flag nibble, per operation ---- *)
Definition alu_check (o : aluop) : bool :=
  forallb (fun a => forallb (fun u => forallb (fun k =>
    pair_eqb (alu o a u (16 * k)) (alu_doc o a u (16 * k))) nibbles) bytes) bytes.

Lemma alu_sweep_add : alu_check ADD = true. Proof. vm_compute. reflexivity. Qed.
Lemma alu_sweep_adc : alu_check ADC = true. Proof. vm_compute. reflexivity. Qed.
Lemma alu_sweep_sub : alu_check SUB = true. Proof. vm_compute. reflexivity. Qed.
Lemma alu_sweep_sbc : alu_check SBC = true. Proof. vm_compute. reflexivity. Qed.
Lemma alu_sweep_and : alu_check AND = true. Proof. vm_compute. reflexivity. Qed.
Lemma alu_sweep_xor : alu_check XOR = true. Proof. vm_compute. reflexivity. Qed.
Lemma alu_sweep_or : alu_check OR = true. Proof. vm_compute. reflexivity. Qed.
Lemma alu_sweep_cp : alu_check CP = true. Proof. vm_compute. reflexivity. Qed.

Lemma alu_sweep o : alu_check o = true.
Proof.
  destruct o; [apply alu_sweep_add | apply alu_sweep_adc | apply alu_sweep_sub | apply alu_sweep_sbc
              | apply alu_sweep_and | apply alu_sweep_xor | apply alu_sweep_or | apply alu_sweep_cp].
Qed.

