(* MapperWithin.v — what a write changes INSIDE the component it is routed to (C07), component by component:
   memories change at one cell (Mem.gso), registers are separate fields. *)
From V.lib Require Import Bits Mem Res.
From V.model Require Import Ints Joypad Timer Rtc Cart Oam PpuTiming Apu MapperTypes System.
From V.gen Require Import GenMapper.
From V.spec Require Import AddrSpec.
From V.proofs Require Import MapperDecode MapperFrame.

(* ---------------- work RAM / high RAM ---------------- *)
Lemma arr_set_get m size i v m' j :
  arr_set m size i v = Ok m' -> i <> j -> arr_get m' size j = arr_get m size j.
Proof.
  unfold arr_set, arr_get. destruct (i <? size); intros H Hij; [|discriminate]. inv_ok H.
  destruct (j <? size); [|reflexivity]. rewrite Mem.gso by exact Hij. reflexivity.
Qed.

Lemma arr_set_same m size i v m' :
  arr_set m size i v = Ok m' -> arr_get m' size i = Ok v.
Proof.
  unfold arr_set, arr_get. destruct (i <? size); intros H; [|discriminate]. inv_ok H.
  rewrite Mem.gss. reflexivity.
Qed.

(* ---------------- video RAM and the PPU registers ---------------- *)
Lemma vram_write_read p a v p' b :
  ppu_write_vram p a v = Ok p' -> a < 65536 -> b < 65536 -> a <> b -> ppu_read_vram p' b = ppu_read_vram p b.
Proof.
  unfold ppu_write_vram, ppu_read_vram; cbv zeta. destruct (sub16 a 0x8000 <? 0x2000) eqn:Ea; intros H Ha Hb Hab; [|discriminate].
  inv_ok H. cbn [p_vram set_vram]. destruct (sub16 b 0x8000 <? 0x2000) eqn:Eb; [|reflexivity].
  rewrite Mem.gso; [reflexivity|]. unfold sub16 in *. lia.
Qed.

Lemma vram_write_same p a v p' : ppu_write_vram p a v = Ok p' -> ppu_read_vram p' a = Ok v.
Proof.
  unfold ppu_write_vram, ppu_read_vram; cbv zeta. destruct (sub16 a 0x8000 <? 0x2000) eqn:Ea; intros H; [|discriminate].
  inv_ok H. cbn [p_vram set_vram]. rewrite Mem.gss. reflexivity.
Qed.

Lemma vram_write_regs p a v p' r : ppu_write_vram p a v = Ok p' -> comp_of_reg r = KPpu ->
  forall s, reg_read r (set_ppu p' s) = reg_read r (set_ppu p s).
Proof.
  unfold ppu_write_vram; cbv zeta. destruct (sub16 a 0x8000 <? 0x2000); intros H Hr s; [|discriminate]. inv_ok H.
  destruct r; try discriminate Hr; reflexivity.
Qed.

(* a PPU register write leaves video RAM alone *)
Lemma ppu_reg_write_vram r s v : comp_of_reg r = KPpu -> p_vram (s_ppu (reg_write r s v)) = p_vram (s_ppu s).
Proof.
  intros Hr. destruct r; try discriminate Hr; unfold reg_write, ppu_w; sysf; try reflexivity.
  (* LCDC *)
  unfold ppu_write_lcdc, ppu_enable, ppu_disable.
  destruct (tb v 128 && negb (p_enabled (s_ppu s))); [reflexivity|].
  destruct (negb (tb v 128) && p_enabled (s_ppu s)); reflexivity.
Qed.

Lemma ppu_read_vram_dep p p' b : p_vram p' = p_vram p -> ppu_read_vram p' b = ppu_read_vram p b.
Proof. unfold ppu_read_vram; cbv zeta. intros ->. reflexivity. Qed.

(* ---------------- OAM ---------------- *)
Lemma oam_write_read o a v o' b :
  oam_write o a v = Ok o' -> a < 65536 -> b < 65536 -> a <> b ->
  (do x <- oam_read o' b; Ok (snd x)) = (do x <- oam_read o b; Ok (snd x)).
Proof.
  unfold oam_write. intros H Ha Hb Hab.
  set (o1 := if o_corrupt o then _ else o) in H.
  assert (Hf : o1 = o \/ flags_only o o1).
  { subst o1. destruct (o_corrupt o); [right|left; reflexivity]. destruct (o_write o); do 3 eexists; reflexivity. }
  assert (E1 : (do x <- oam_read o1 b; Ok (snd x)) = (do x <- oam_read o b; Ok (snd x))).
  { destruct Hf as [->|(r & w & d & ->)]; [reflexivity | apply oam_read_flags]. }
  destruct (a <? 0xFEA0) eqn:Ea.
  - apply bind_ok in H. destruct H as (m & Hm & H). inv_ok H. rewrite <- E1.
    unfold put8 in Hm. destruct (sub16 a 0xFE00 <? oam_size) eqn:Ei; [|discriminate]. inv_ok Hm.
    unfold oam_read. destruct o1 as [m run cyc base rdv reg cor pla fr fw fd].
    cbn [o_dmaRunning o_corrupt o_mem o_write o_doubleWrite o_read set_flags set_mem].
    destruct run; [reflexivity|].
    destruct cor; destruct (0xFEA0 <=? b) eqn:Eb; cbn [bind snd o_mem set_flags set_mem]; try reflexivity;
      unfold get8; destruct (sub16 b 0xFE00 <? oam_size) eqn:Ej; try reflexivity;
      cbn [bind snd o_mem set_flags set_mem]; rewrite Mem.gso; try reflexivity; unfold sub16, oam_size in *; lia.
  - inv_ok H. exact E1.
Qed.

Lemma oam_write_dmareg o a v o' : oam_write o a v = Ok o' -> o_dmaReg o' = o_dmaReg o.
Proof.
  unfold oam_write. intros H.
  assert (E : o_dmaReg (if o_corrupt o
            then (if o_write o then set_flags o (o_read o) (o_write o) true
                  else set_flags o (o_read o) true (o_doubleWrite o))
            else o) = o_dmaReg o).
  { destruct (o_corrupt o); [|reflexivity]. destruct (o_write o); reflexivity. }
  destruct (a <? 0xFEA0).
  - apply bind_ok in H. destruct H as (m & Hm & H). inv_ok H. cbn [o_dmaReg set_mem]. exact E.
  - inv_ok H. exact E.
Qed.

(* LCDC opens / closes the corruption window only: no OAM read value depends on it *)
Lemma lcdc_oam_read p o v b :
  (do x <- oam_read (snd (ppu_write_lcdc p o v)) b; Ok (snd x)) = (do x <- oam_read o b; Ok (snd x)).
Proof.
  assert (E : snd (ppu_write_lcdc p o v) = o \/ exists c, snd (ppu_write_lcdc p o v) = set_corrupt o c).
  { unfold ppu_write_lcdc, ppu_enable, ppu_disable, oam_enter_mode2, oam_exit_mode2.
    destruct (tb v 128 && negb (p_enabled p)); [right; eexists; reflexivity|].
    destruct (negb (tb v 128) && p_enabled p); [right; eexists; reflexivity | left; reflexivity]. }
  destruct E as [->|(c & ->)]; [reflexivity|].
  unfold oam_read. destruct o as [m run cyc base rdv reg cor pla fr fw fd].
  cbn [o_dmaRunning o_corrupt o_mem o_write o_doubleWrite o_read set_flags set_corrupt].
  destruct run; [reflexivity|].
  destruct c, cor; destruct (0xFEA0 <=? b); cbn [bind snd o_mem set_flags set_corrupt]; try reflexivity;
    match goal with |- context [get8 ?m ?i] => destruct (get8 m i); reflexivity end.
Qed.

Lemma lcdc_dmareg p o v : o_dmaReg (snd (ppu_write_lcdc p o v)) = o_dmaReg o.
Proof.
  unfold ppu_write_lcdc, ppu_enable, ppu_disable, oam_enter_mode2, oam_exit_mode2.
  destruct (tb v 128 && negb (p_enabled p)); [reflexivity|].
  destruct (negb (tb v 128) && p_enabled p); reflexivity.
Qed.

(* ---------------- the cartridge: a write into the RAM window ---------------- *)
(* ROM reads do not look at cartridge RAM or the clock *)
Definition cart_ctl_eq (c c' : cart) : Prop :=
  c_kind c' = c_kind c /\ c_img c' = c_img c /\ c_nrom c' = c_nrom c /\ c_nram c' = c_nram c /\
  c_en c' = c_en c /\ c_romBank0 c' = c_romBank0 c /\ c_romBank c' = c_romBank c /\ c_ramBank c' = c_ramBank c.

Lemma cart_read_rom c c' b : cart_ctl_eq c c' -> b < 0x8000 -> cart_read c' b = cart_read c b.
Proof.
  intros (E1 & E2 & E3 & E4 & E5 & E6 & E7 & E8) Hb. unfold cart_read, rom_at.
  rewrite E1, E2, E3, E6, E7.
  assert (Eb : (b <? 32768) = true) by lia.
  destruct (c_kind c); rewrite ?Eb; try reflexivity;
    destruct (b <? 16384); reflexivity.
Qed.

Lemma ram_put_ctl c k off v c' : ram_put c k off v = Ok c' ->
  cart_ctl_eq c c' /\ c_rtc c' = c_rtc c /\ c_ram c' = Mem.set (c_ram c) (k * 8192 + off) v.
Proof.
  unfold ram_put. destruct (k <? c_nram c); intros H; [|discriminate]. inv_ok H.
  unfold cart_ctl_eq. cbn. repeat split.
Qed.

(* the effect of a RAM-window write (A000-BFFF): the controller registers stay, and either one RAM cell
   changes, or the live clock registers (which no read shows), or nothing *)
Inductive ramwin_effect (c c' : cart) (a : N) : Prop :=
| RW_none : c' = c -> ramwin_effect c c' a
| RW_cell k v : cart_ctl_eq c c' -> c_rtc c' = c_rtc c -> c_en c = true ->
    c_ram c' = Mem.set (c_ram c) k v ->
    (match c_kind c with
     | KMbc2 => k = (a - 40960) mod 512
     | KMbc3 => c_ramBank c < 8 /\ exists bk, gomod (c_ramBank c) (c_nram c) = Ok bk /\ k = bk * 8192 + (a - 40960)
     | _ => k = c_ramBank c * 8192 + (a - 40960)
     end) -> ramwin_effect c c' a
| RW_clock : cart_ctl_eq c c' -> c_ram c' = c_ram c ->
    r_ls (c_rtc c') = r_ls (c_rtc c) -> r_lm (c_rtc c') = r_lm (c_rtc c) -> r_lh (c_rtc c') = r_lh (c_rtc c) ->
    r_ld (c_rtc c') = r_ld (c_rtc c) -> r_lcarry (c_rtc c') = r_lcarry (c_rtc c) ->
    r_lhalt (c_rtc c') = r_lhalt (c_rtc c) -> ramwin_effect c c' a.

Lemma ctl_refl c : cart_ctl_eq c c.
Proof. unfold cart_ctl_eq. repeat split. Qed.

Lemma rtc_write_latched r sel v :
  let r' := rtc_write r sel v in
  r_ls r' = r_ls r /\ r_lm r' = r_lm r /\ r_lh r' = r_lh r /\ r_ld r' = r_ld r /\ r_lcarry r' = r_lcarry r /\
  r_lhalt r' = r_lhalt r.
Proof.
  unfold rtc_write.
  repeat match goal with |- context [match ?x with _ => _ end] => destruct x end; cbn; repeat split.
Qed.

Lemma cart_write_ramwin c a v c' :
  cart_write c a v = Ok c' -> 0xA000 <= a < 0xC000 -> ramwin_effect c c' a.
Proof.
  intros H Ha.
  assert (E1 : (a <? 8192) = false) by lia. assert (E2 : (a <? 16384) = false) by lia.
  assert (E3 : (a <? 24576) = false) by lia. assert (E4 : (a <? 32768) = false) by lia.
  assert (E5 : (a <? 40960) = false) by lia. assert (E6 : (a <? 49152) = true) by lia.
  assert (E7 : (a <? 12288) = false) by lia.
  unfold cart_write in H. destruct (c_kind c) eqn:Ek.
  - inv_ok H. apply RW_none; reflexivity.
  - unfold mbc1_write in H. rewrite E1, E2, E3, E4, E5, E6 in H.
    destruct (c_en c) eqn:Een; [|inv_ok H; apply RW_none; reflexivity].
    destruct (ram_put_ctl _ _ _ _ _ H) as (Hc & Hr & Hm).
    eapply RW_cell; try eassumption. rewrite Ek. reflexivity.
  - unfold mbc2_write in H. rewrite E2, E5, E6 in H.
    destruct (c_en c) eqn:Een; [|inv_ok H; apply RW_none; reflexivity]. inv_ok H.
    apply (RW_cell c _ a ((a - 40960) mod 512) (N.lor v 240));
      [unfold cart_ctl_eq; cbn; repeat split | reflexivity | exact Een | reflexivity | rewrite Ek; reflexivity].
  - unfold mbc3_write in H. rewrite E1, E2, E3, E4, E5, E6 in H.
    destruct (c_en c) eqn:Een; [|inv_ok H; apply RW_none; reflexivity].
    destruct (8 <=? c_ramBank c) eqn:E8.
    + inv_ok H. pose proof (rtc_write_latched (c_rtc c) (c_ramBank c) v) as (L1 & L2 & L3 & L4 & L5 & L6).
      apply RW_clock; cbn [c_rtc set_rtc c_ram]; try assumption; try reflexivity.
      unfold cart_ctl_eq; cbn; repeat split.
    + apply bind_ok in H. destruct H as (bk & Hbk & H).
      destruct (ram_put_ctl _ _ _ _ _ H) as (Hc & Hr & Hm).
      eapply RW_cell; try eassumption. rewrite Ek. split; [lia|]. exists bk. split; [exact Hbk | reflexivity].
  - unfold mbc5_write in H. rewrite E1, E7, E2, E3, E5, E6 in H.
    destruct (c_en c) eqn:Een; [|inv_ok H; apply RW_none; reflexivity].
    destruct (ram_put_ctl _ _ _ _ _ H) as (Hc & Hr & Hm).
    eapply RW_cell; try eassumption. rewrite Ek. reflexivity.
Qed.

(* reading the RAM window after such a write, at an address that is not an image of the written one *)
Definition ramwin_same_cell (k : kind) (a b : N) : bool :=
  match k with KMbc2 => (a - 40960) mod 512 =? (b - 40960) mod 512 | _ => a =? b end.

Lemma cart_ramwin_frame c a v c' b :
  cart_write c a v = Ok c' -> 0xA000 <= a < 0xC000 -> b < 65536 ->
  (0xA000 <= b < 0xC000 -> ramwin_same_cell (c_kind c) a b = false) ->
  cart_read c' b = cart_read c b.
Proof.
  intros Hw Ha Hb Hcell.
  destruct (cart_write_ramwin _ _ _ _ Hw Ha) as [->|k x Hc Hr Hen Hm Hk|Hc Hm L1 L2 L3 L4 L5 L6]; [reflexivity| |].
  - (* one RAM cell *)
    destruct (N.ltb_spec b 0x8000) as [Hlt|Hge]; [apply cart_read_rom; assumption|].
    destruct Hc as (E1 & E2 & E3 & E4 & E5 & E6 & E7 & E8).
    unfold cart_read. rewrite E1.
    assert (F1 : (b <? 32768) = false) by lia. assert (F2 : (b <? 16384) = false) by lia.
    destruct (c_kind c) eqn:Ek; rewrite ?F1, ?F2; try reflexivity;
      destruct (b <? 40960) eqn:F3; try reflexivity; destruct (b <? 49152) eqn:F4; try reflexivity;
      assert (Hbw : 0xA000 <= b < 0xC000) by lia; specialize (Hcell Hbw); unfold ramwin_same_cell in Hcell;
      unfold ram_window_read, ram_at; rewrite E1, Ek, E5, ?E8, ?E4, ?Hr, Hm.
    + (* MBC1 *) destruct (c_en c); [|reflexivity]. destruct (c_ramBank c <? c_nram c); [|reflexivity].
      rewrite Mem.gso; [reflexivity|]. subst k. apply N.eqb_neq in Hcell. lia.
    + (* MBC2 *) destruct (c_en c); [|reflexivity].
      rewrite Mem.gso; [reflexivity|]. subst k. apply N.eqb_neq in Hcell. exact Hcell.
    + (* MBC3 *) destruct (c_en c); [|reflexivity]. destruct Hk as (Hlt8 & bk & Hbk & ->).
      assert (F8 : (8 <=? c_ramBank c) = false) by lia. rewrite F8, Hbk. cbn [bind].
      destruct (bk <? c_nram c); [|reflexivity].
      rewrite Mem.gso; [reflexivity|]. apply N.eqb_neq in Hcell. lia.
    + (* MBC5 *) destruct (c_en c); [|reflexivity]. destruct (c_ramBank c <? c_nram c); [|reflexivity].
      rewrite Mem.gso; [reflexivity|]. subst k. apply N.eqb_neq in Hcell. lia.
  - (* the live clock registers *)
    destruct (N.ltb_spec b 0x8000) as [Hlt|Hge]; [apply cart_read_rom; assumption|].
    destruct Hc as (E1 & E2 & E3 & E4 & E5 & E6 & E7 & E8).
    unfold cart_read. rewrite E1.
    assert (F1 : (b <? 32768) = false) by lia. assert (F2 : (b <? 16384) = false) by lia.
    destruct (c_kind c) eqn:Ek; rewrite ?F1, ?F2; try reflexivity;
      destruct (b <? 40960) eqn:F3; try reflexivity; destruct (b <? 49152) eqn:F4; try reflexivity;
      unfold ram_window_read, ram_at; rewrite E1, Ek, E5, ?E8, ?E4, Hm; try reflexivity.
    destruct (c_en c); [|reflexivity]. destruct (8 <=? c_ramBank c); [|reflexivity].
    unfold rtc_read. rewrite L1, L2, L3, L4, L5, L6. reflexivity.
Qed.
