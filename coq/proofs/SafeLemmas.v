(* SafeLemmas.v — small facts used by the safety proofs (C11): bounds of bitwise operations, byte stores. *)
From V.lib Require Import Bits Mem Res.
From Coq Require Import ZArith ZifyN ZifyNat ZifyBool.

Lemma lt_pow2_bits x n : x < 2 ^ n <-> (forall i, n <= i -> N.testbit x i = false).
Proof.
  split.
  - intros H i Hi. destruct (N.eq_dec x 0) as [->|Hx]; [apply N.bits_0|].
    apply N.bits_above_log2. apply N.lt_le_trans with n; [|exact Hi].
    apply N.log2_lt_pow2; [lia|exact H].
  - intros H. destruct (N.eq_dec x 0) as [->|Hx]; [apply N.neq_0_lt_0, N.pow_nonzero; discriminate|].
    apply N.log2_lt_pow2; [lia|].
    destruct (N.lt_ge_cases (N.log2 x) n) as [L|L]; [exact L|exfalso].
    specialize (H (N.log2 x) L). rewrite N.bit_log2 in H by exact Hx. discriminate.
Qed.

Lemma lor_lt_pow2 a b n : a < 2 ^ n -> b < 2 ^ n -> N.lor a b < 2 ^ n.
Proof.
  rewrite !lt_pow2_bits. intros Ha Hb i Hi. rewrite N.lor_spec, Ha, Hb by exact Hi. reflexivity.
Qed.
Lemma lxor_lt_pow2 a b n : a < 2 ^ n -> b < 2 ^ n -> N.lxor a b < 2 ^ n.
Proof.
  rewrite !lt_pow2_bits. intros Ha Hb i Hi. rewrite N.lxor_spec, Ha, Hb by exact Hi. reflexivity.
Qed.
Lemma land_lt_pow2_r a b n : b < 2 ^ n -> N.land a b < 2 ^ n.
Proof.
  rewrite !lt_pow2_bits. intros Hb i Hi. rewrite N.land_spec, Hb by exact Hi. apply Bool.andb_false_r.
Qed.
Lemma land_lt_pow2_l a b n : a < 2 ^ n -> N.land a b < 2 ^ n.
Proof. rewrite N.land_comm. apply land_lt_pow2_r. Qed.
Lemma ldiff_lt_pow2 a b n : a < 2 ^ n -> N.ldiff a b < 2 ^ n.
Proof.
  rewrite !lt_pow2_bits. intros Ha i Hi. rewrite N.ldiff_spec, Ha by exact Hi. reflexivity.
Qed.
Lemma shiftr_lt_pow2 a k n : a < 2 ^ n -> N.shiftr a k < 2 ^ n.
Proof.
  intros Ha. rewrite N.shiftr_div_pow2.
  assert (Z : 2 ^ k <> 0) by (apply N.pow_nonzero; discriminate).
  apply N.le_lt_trans with a; [|exact Ha]. apply N.div_le_upper_bound; [exact Z|]. nia.
Qed.

Lemma lor256 a b : a < 256 -> b < 256 -> N.lor a b < 256.
Proof. exact (lor_lt_pow2 a b 8). Qed.
Lemma lxor256 a b : a < 256 -> b < 256 -> N.lxor a b < 256.
Proof. exact (lxor_lt_pow2 a b 8). Qed.
Lemma land256_r a b : b < 256 -> N.land a b < 256.
Proof. exact (land_lt_pow2_r a b 8). Qed.
Lemma land256_l a b : a < 256 -> N.land a b < 256.
Proof. exact (land_lt_pow2_l a b 8). Qed.
Lemma ldiff256 a b : a < 256 -> N.ldiff a b < 256.
Proof. exact (ldiff_lt_pow2 a b 8). Qed.
Lemma shiftr256 a k : a < 256 -> N.shiftr a k < 256.
Proof. exact (shiftr_lt_pow2 a k 8). Qed.
Lemma lor65536 a b : a < 65536 -> b < 65536 -> N.lor a b < 65536.
Proof. exact (lor_lt_pow2 a b 16). Qed.
(* byte stores *)
Definition bmem (m : Mem.t) : Prop := forall a, Mem.get m a < 256.

Lemma bmem_empty d : d < 256 -> bmem (Mem.empty d).
Proof. intros H a. rewrite Mem.get_empty. exact H. Qed.

Lemma bmem_set m a v : bmem m -> v < 256 -> bmem (Mem.set m a v).
Proof. intros H Hv b. rewrite Mem.gsspec. destruct (a =? b); [exact Hv|apply H]. Qed.
