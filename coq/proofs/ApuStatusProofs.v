(* ApuStatusProofs.v — C19, part 1: which steps can switch a channel's status flag on or off.
   Everything here holds for EVERY state (no reachability assumption), every write and every clock. *)
From V.lib Require Import Bits Mem Res.
From V.model Require Import Apu.
From V.proofs Require Import ApuLemmas.
From Coq Require Import ZArith ZifyN ZifyNat ZifyBool Btauto.

Definition en1 (s : apu) : bool := sqEnabled (ch1 s).
Definition en2 (s : apu) : bool := sqEnabled (ch2 s).
Definition en3 (s : apu) : bool := wvEnabled (ch3 s).
Definition en4 (s : apu) : bool := nsEnabled (ch4 s).

(* ------------------------------------------------------------------------------------------------- *)
(* channel level: exact effect of each tick function on the enabled flag *)
Definition expires8 (lenEn : bool) (L : N) : bool := lenEn && (0 <? L) && (sub8 L 1 =? 0).
Definition expires16 (lenEn : bool) (L : N) : bool := lenEn && (0 <? L) && (sub16 L 1 =? 0).

Lemma sq_en_tick_timer c : sqEnabled (sq_tick_timer c) = sqEnabled c.
Proof. unfold sq_tick_timer. break_ifs; reflexivity. Qed.
Lemma wv_en_tick_timer w : wvEnabled (wv_tick_timer w) = wvEnabled w.
Proof. unfold wv_tick_timer. break_ifs; congruence. Qed.
Lemma ns_en_tick_timer n : nsEnabled (ns_tick_timer n) = nsEnabled n.
Proof. unfold ns_tick_timer. break_ifs; reflexivity. Qed.

Lemma sq_en_tick_length c :
  sqEnabled (sq_tick_length c) = sqEnabled c && negb (expires8 (sqLenEn c) (sqLength c)).
Proof.
  unfold sq_tick_length, expires8.
  destruct (sqLenEn c); cbn [andb negb]; [|rewrite Bool.andb_true_r; reflexivity].
  destruct (0 <? sqLength c); cbn [andb negb]; [|rewrite Bool.andb_true_r; reflexivity].
  psimpl. destruct (sub8 (sqLength c) 1 =? 0); psimpl; cbn [negb];
    [rewrite Bool.andb_false_r | rewrite Bool.andb_true_r]; reflexivity.
Qed.
Lemma wv_en_tick_length w :
  wvEnabled (wv_tick_length w) = wvEnabled w && negb (expires16 (wvLenEn w) (wvLength w)).
Proof.
  unfold wv_tick_length, expires16.
  destruct (wvLenEn w); cbn [andb negb]; [|rewrite Bool.andb_true_r; reflexivity].
  destruct (0 <? wvLength w); cbn [andb negb]; [|rewrite Bool.andb_true_r; reflexivity].
  psimpl. destruct (sub16 (wvLength w) 1 =? 0); psimpl; cbn [negb];
    [rewrite Bool.andb_false_r | rewrite Bool.andb_true_r]; reflexivity.
Qed.
Lemma ns_en_tick_length n :
  nsEnabled (ns_tick_length n) = nsEnabled n && negb (expires8 (nsLenEn n) (nsLength n)).
Proof.
  unfold ns_tick_length, expires8.
  destruct (nsLenEn n); cbn [andb negb]; [|rewrite Bool.andb_true_r; reflexivity].
  destruct (0 <? nsLength n); cbn [andb negb]; [|rewrite Bool.andb_true_r; reflexivity].
  psimpl. destruct (sub8 (nsLength n) 1 =? 0); psimpl; cbn [negb];
    [rewrite Bool.andb_false_r | rewrite Bool.andb_true_r]; reflexivity.
Qed.

Lemma sq_en_tick_envelope c : sqEnabled (sq_tick_envelope c) = sqEnabled c.
Proof. unfold sq_tick_envelope. break_ifs; reflexivity. Qed.
Lemma ns_en_tick_envelope n : nsEnabled (ns_tick_envelope n) = nsEnabled n.
Proof. unfold ns_tick_envelope. break_ifs; reflexivity. Qed.

(* the sweep unit.  The frequency calculation does not depend on the channel record: *)
Definition calc_nf (w : sweep) : N :=
  add16 (swShadow w) (if swIncrease w then N.shiftr (swShadow w) (swShift w)
                      else sub16 0 (N.shiftr (swShadow w) (swShift w))).
Definition calc_w (w : sweep) : sweep := if swIncrease w then w else set_swDescending w true.

Lemma calc_freq_eq c w :
  calc_freq c w = ((if 2047 <? calc_nf w then set_sqEnabled c false else c), calc_w w, calc_nf w).
Proof. reflexivity. Qed.

(* did this sweep clock run a frequency calculation whose result exceeded 2047? *)
Definition sweep_overflows (w : sweep) : bool :=
  swEnabled w && (sub8 (swTimer w) 1 =? 0) && negb (swPeriod w =? 0) &&
  (let w0 := set_swTimer (set_swTimer w (sub8 (swTimer w) 1)) (swPeriod w) in
   let nf := calc_nf w0 in
   (2047 <? nf) || ((nf <? 2048) && (0 <? swShift w0) && (2047 <? calc_nf (set_swShadow (calc_w w0) nf)))).

Lemma sweep_en_tick c w :
  sqEnabled (fst (ch1_tick_sweep c w)) = sqEnabled c && negb (sweep_overflows w).
Proof.
  unfold ch1_tick_sweep, sweep_overflows.
  destruct (swEnabled w); cbn [andb negb fst]; [|btauto].
  psimpl.
  destruct (sub8 (swTimer w) 1 =? 0); cbn [andb negb fst]; [|btauto].
  destruct (swPeriod w =? 0); cbn [andb negb fst]; [btauto|].
  set (w0 := set_swTimer (set_swTimer w (sub8 (swTimer w) 1)) (swPeriod w)).
  rewrite (calc_freq_eq c w0).
  assert (Hs : swShift (calc_w w0) = swShift w0) by (unfold calc_w; destruct (swIncrease w0); reflexivity).
  rewrite Hs.
  destruct (2047 <? calc_nf w0) eqn:E3.
  - assert (Hn : (calc_nf w0 <? 2048) = false) by lia. rewrite Hn. cbn [andb orb negb fst].
    psimpl. btauto.
  - assert (Hn : (calc_nf w0 <? 2048) = true) by lia. rewrite Hn. cbn [andb orb negb].
    change (swShift w0) with (swShift w).
    destruct (0 <? swShift w); cbn [andb orb negb fst]; [|btauto].
    rewrite calc_freq_eq. cbn [fst].
    destruct (2047 <? calc_nf (set_swShadow (calc_w w0) (calc_nf w0))); psimpl; cbn [negb]; btauto.
Qed.

Lemma sweep_sw_tick c c' w : snd (ch1_tick_sweep c w) = snd (ch1_tick_sweep c' w).
Proof.
  unfold ch1_tick_sweep.
  destruct (swEnabled w); [|reflexivity]. psimpl.
  destruct (sub8 (swTimer w) 1 =? 0); [|reflexivity].
  destruct (swPeriod w =? 0); [reflexivity|].
  rewrite !calc_freq_eq.
  cbn [fst snd]. destruct ((calc_nf _ <? 2048) && _); [rewrite ?calc_freq_eq|]; reflexivity.
Qed.

(* ------------------------------------------------------------------------------------------------- *)
(* state level *)
Lemma tick_timers_proj s :
  ch1 (tick_timers s) = (if sqTriggered (ch1 s) then ch1 s else sq_tick_timer (ch1 s)) /\
  ch2 (tick_timers s) = (if sqTriggered (ch2 s) then ch2 s else sq_tick_timer (ch2 s)) /\
  ch3 (tick_timers s) = (if wvTriggered (ch3 s) then ch3 s else wv_tick_timer (ch3 s)) /\
  ch4 (tick_timers s) = (if nsTriggered (ch4 s) then ch4 s else ns_tick_timer (ch4 s)) /\
  sw1 (tick_timers s) = sw1 s /\ ticks (tick_timers s) = ticks s /\ fseq (tick_timers s) = fseq s /\
  ctl (tick_timers s) = ctl s /\ attached (tick_timers s) = attached s.
Proof.
  unfold tick_timers.
  destruct (sqTriggered (ch1 s)); psimpl; destruct (sqTriggered (ch2 s)); psimpl;
    destruct (wvTriggered (ch3 s)); psimpl; destruct (nsTriggered (ch4 s)); psimpl;
    repeat split; reflexivity.
Qed.

(* the length-relevant part of a channel *)
Definition sq_lv (c : square) := (sqEnabled c, sqLenEn c, sqLength c).
Definition wv_lv (w : wave) := (wvEnabled w, wvLenEn w, wvLength w).
Definition ns_lv (n : noise) := (nsEnabled n, nsLenEn n, nsLength n).

Lemma sq_lv_tick_timer c : sq_lv (sq_tick_timer c) = sq_lv c.
Proof. unfold sq_tick_timer, sq_lv. break_ifs; reflexivity. Qed.
Lemma wv_lv_tick_timer w : wv_lv (wv_tick_timer w) = wv_lv w.
Proof. unfold wv_tick_timer, wv_lv. break_ifs; congruence. Qed.
Lemma ns_lv_tick_timer n : ns_lv (ns_tick_timer n) = ns_lv n.
Proof. unfold ns_tick_timer, ns_lv. break_ifs; reflexivity. Qed.

Lemma tick_timers_lv s :
  sq_lv (ch1 (tick_timers s)) = sq_lv (ch1 s) /\ sq_lv (ch2 (tick_timers s)) = sq_lv (ch2 s) /\
  wv_lv (ch3 (tick_timers s)) = wv_lv (ch3 s) /\ ns_lv (ch4 (tick_timers s)) = ns_lv (ch4 s).
Proof.
  destruct (tick_timers_proj s) as (H1 & H2 & H3 & H4 & _).
  rewrite H1, H2, H3, H4.
  destruct (sqTriggered (ch1 s)), (sqTriggered (ch2 s)), (wvTriggered (ch3 s)), (nsTriggered (ch4 s));
    rewrite ?sq_lv_tick_timer, ?wv_lv_tick_timer, ?ns_lv_tick_timer; repeat split; reflexivity.
Qed.

(* clock classification *)
Definition norm_ticks (s : apu) : N := if ticksPerSecond <? ticks s then 1 else ticks s.
Definition fs_hit (s : apu) : bool := N.land (norm_ticks s) frameSeqMask =? 0.
Definition len_clock (s : apu) : bool := fs_hit s && (fseq s mod 2 =? 0).
Definition env_clock (s : apu) : bool := fs_hit s && (sub64 (fseq s) 7 mod 8 =? 0).
Definition sweep_clock (s : apu) : bool := fs_hit s && (sub64 (fseq s) 2 mod 4 =? 0).

(* the frame-sequencer part of one clock, as a function of the state after the timers *)
Definition fs_part (s : apu) : apu :=
  let s := if fseq s mod 2 =? 0 then tick_lengths s else s in
  let s := if sub64 (fseq s) 7 mod 8 =? 0 then tick_envelopes s else s in
  if sub64 (fseq s) 2 mod 4 =? 0 then tick_sweep s else s.

Lemma fseq_tick_lengths s : fseq (tick_lengths s) = fseq s. Proof. reflexivity. Qed.
Lemma fseq_tick_envelopes s : fseq (tick_envelopes s) = fseq s. Proof. reflexivity. Qed.
Lemma fseq_tick_sweep s : fseq (tick_sweep s) = fseq s. Proof. reflexivity. Qed.

Lemma en_tick_lengths s :
  en1 (tick_lengths s) = en1 s && negb (expires8 (sqLenEn (ch1 s)) (sqLength (ch1 s))) /\
  en2 (tick_lengths s) = en2 s && negb (expires8 (sqLenEn (ch2 s)) (sqLength (ch2 s))) /\
  en3 (tick_lengths s) = en3 s && negb (expires16 (wvLenEn (ch3 s)) (wvLength (ch3 s))) /\
  en4 (tick_lengths s) = en4 s && negb (expires8 (nsLenEn (ch4 s)) (nsLength (ch4 s))) /\
  sw1 (tick_lengths s) = sw1 s.
Proof.
  unfold tick_lengths, en1, en2, en3, en4. psimpl.
  rewrite !sq_en_tick_length, wv_en_tick_length, ns_en_tick_length. repeat split; reflexivity.
Qed.

Lemma en_tick_envelopes s :
  en1 (tick_envelopes s) = en1 s /\ en2 (tick_envelopes s) = en2 s /\ en3 (tick_envelopes s) = en3 s /\
  en4 (tick_envelopes s) = en4 s /\ sw1 (tick_envelopes s) = sw1 s.
Proof.
  unfold tick_envelopes, en1, en2, en3, en4. psimpl.
  rewrite !sq_en_tick_envelope, ns_en_tick_envelope. repeat split; reflexivity.
Qed.

Lemma en_tick_sweep s :
  en1 (tick_sweep s) = en1 s && negb (sweep_overflows (sw1 s)) /\ en2 (tick_sweep s) = en2 s /\
  en3 (tick_sweep s) = en3 s /\ en4 (tick_sweep s) = en4 s.
Proof.
  unfold tick_sweep, en1, en2, en3, en4. psimpl. rewrite sweep_en_tick. repeat split; reflexivity.
Qed.

Lemma tick_frame_sequencer_eq s : tick_frame_sequencer s = set_fseq (fs_part s) (fseq s + 1).
Proof.
  unfold tick_frame_sequencer, fs_part.
  destruct (fseq s mod 2 =? 0); rewrite ?fseq_tick_lengths;
    destruct (sub64 (fseq s) 7 mod 8 =? 0); rewrite ?fseq_tick_envelopes, ?fseq_tick_lengths;
    reflexivity.
Qed.

Definition exp1 (s : apu) : bool := expires8 (sqLenEn (ch1 s)) (sqLength (ch1 s)).
Definition exp2 (s : apu) : bool := expires8 (sqLenEn (ch2 s)) (sqLength (ch2 s)).
Definition exp3 (s : apu) : bool := expires16 (wvLenEn (ch3 s)) (wvLength (ch3 s)).
Definition exp4 (s : apu) : bool := expires8 (nsLenEn (ch4 s)) (nsLength (ch4 s)).

Lemma en1_tick_lengths s : en1 (tick_lengths s) = en1 s && negb (exp1 s).
Proof. apply (en_tick_lengths s). Qed.
Lemma en2_tick_lengths s : en2 (tick_lengths s) = en2 s && negb (exp2 s).
Proof. apply (en_tick_lengths s). Qed.
Lemma en3_tick_lengths s : en3 (tick_lengths s) = en3 s && negb (exp3 s).
Proof. apply (en_tick_lengths s). Qed.
Lemma en4_tick_lengths s : en4 (tick_lengths s) = en4 s && negb (exp4 s).
Proof. apply (en_tick_lengths s). Qed.
Lemma sw1_tick_lengths s : sw1 (tick_lengths s) = sw1 s.
Proof. reflexivity. Qed.
Lemma en1_tick_envelopes s : en1 (tick_envelopes s) = en1 s. Proof. apply (en_tick_envelopes s). Qed.
Lemma en2_tick_envelopes s : en2 (tick_envelopes s) = en2 s. Proof. apply (en_tick_envelopes s). Qed.
Lemma en3_tick_envelopes s : en3 (tick_envelopes s) = en3 s. Proof. apply (en_tick_envelopes s). Qed.
Lemma en4_tick_envelopes s : en4 (tick_envelopes s) = en4 s. Proof. apply (en_tick_envelopes s). Qed.
Lemma sw1_tick_envelopes s : sw1 (tick_envelopes s) = sw1 s.
Proof. reflexivity. Qed.
Lemma en1_tick_sweep s : en1 (tick_sweep s) = en1 s && negb (sweep_overflows (sw1 s)).
Proof. apply (en_tick_sweep s). Qed.
Lemma en2_tick_sweep s : en2 (tick_sweep s) = en2 s. Proof. apply (en_tick_sweep s). Qed.
Lemma en3_tick_sweep s : en3 (tick_sweep s) = en3 s. Proof. apply (en_tick_sweep s). Qed.
Lemma en4_tick_sweep s : en4 (tick_sweep s) = en4 s. Proof. apply (en_tick_sweep s). Qed.

Ltac en_rewrite :=
  rewrite ?en1_tick_sweep, ?en2_tick_sweep, ?en3_tick_sweep, ?en4_tick_sweep,
          ?sw1_tick_envelopes, ?en1_tick_envelopes, ?en2_tick_envelopes, ?en3_tick_envelopes, ?en4_tick_envelopes,
          ?sw1_tick_lengths, ?en1_tick_lengths, ?en2_tick_lengths, ?en3_tick_lengths, ?en4_tick_lengths.

Lemma en_fs_part s :
  en1 (fs_part s) = en1 s && negb ((fseq s mod 2 =? 0) && exp1 s)
                          && negb ((sub64 (fseq s) 2 mod 4 =? 0) && sweep_overflows (sw1 s)) /\
  en2 (fs_part s) = en2 s && negb ((fseq s mod 2 =? 0) && exp2 s) /\
  en3 (fs_part s) = en3 s && negb ((fseq s mod 2 =? 0) && exp3 s) /\
  en4 (fs_part s) = en4 s && negb ((fseq s mod 2 =? 0) && exp4 s).
Proof.
  unfold fs_part.
  destruct (fseq s mod 2 =? 0); rewrite ?fseq_tick_lengths;
    (destruct (sub64 (fseq s) 7 mod 8 =? 0); rewrite ?fseq_tick_envelopes, ?fseq_tick_lengths;
     (destruct (sub64 (fseq s) 2 mod 4 =? 0); en_rewrite; cbn [andb]; repeat split; btauto)).
Qed.

(* one clock: exact effect on the four status flags, for every state *)
Definition wrap_ticks (s : apu) : apu := if ticksPerSecond <? ticks s then set_ticks s 1 else s.

Lemma wrap_ticks_proj s :
  ch1 (wrap_ticks s) = ch1 s /\ ch2 (wrap_ticks s) = ch2 s /\ ch3 (wrap_ticks s) = ch3 s /\
  ch4 (wrap_ticks s) = ch4 s /\ sw1 (wrap_ticks s) = sw1 s /\ fseq (wrap_ticks s) = fseq s /\
  ticks (wrap_ticks s) = norm_ticks s /\ ctl (wrap_ticks s) = ctl s /\ attached (wrap_ticks s) = attached s.
Proof. unfold wrap_ticks, norm_ticks. destruct (ticksPerSecond <? ticks s); repeat split; reflexivity. Qed.

Definition after_timers (s : apu) : apu := tick_timers (wrap_ticks s).

Lemma after_timers_facts s :
  en1 (after_timers s) = en1 s /\ en2 (after_timers s) = en2 s /\ en3 (after_timers s) = en3 s /\
  en4 (after_timers s) = en4 s /\
  exp1 (after_timers s) = exp1 s /\ exp2 (after_timers s) = exp2 s /\ exp3 (after_timers s) = exp3 s /\
  exp4 (after_timers s) = exp4 s /\
  sw1 (after_timers s) = sw1 s /\ fseq (after_timers s) = fseq s /\ ticks (after_timers s) = norm_ticks s /\
  ctl (after_timers s) = ctl s /\ attached (after_timers s) = attached s.
Proof.
  unfold after_timers.
  destruct (wrap_ticks_proj s) as (W1 & W2 & W3 & W4 & W5 & W6 & W7 & W8 & W9).
  destruct (tick_timers_proj (wrap_ticks s)) as (_ & _ & _ & _ & T5 & T6 & T7 & T8 & T9).
  destruct (tick_timers_lv (wrap_ticks s)) as (L1 & L2 & L3 & L4).
  rewrite W1 in L1. rewrite W2 in L2. rewrite W3 in L3. rewrite W4 in L4.
  unfold sq_lv, wv_lv, ns_lv in L1, L2, L3, L4.
  inversion L1 as [[A1 A2 A3]]. inversion L2 as [[B1 B2 B3]]. inversion L3 as [[C1 C2 C3]].
  inversion L4 as [[D1 D2 D3]].
  unfold en1, en2, en3, en4, exp1, exp2, exp3, exp4.
  rewrite A1, A2, A3, B1, B2, B3, C1, C2, C3, D1, D2, D3, T5, T6, T7, T8, T9.
  repeat split; assumption.
Qed.

Lemma tick_clock_shape s :
  fst (apu_tick_clock s) =
  (let s1 := after_timers s in
   let s2 := if fs_hit s
             then (let s' := set_fseq (fs_part s1) (fseq s1 + 1) in if 512 <=? fseq s' then set_fseq s' 0 else s')
             else s1 in
   set_ticks s2 (ticks s2 + 1)).
Proof.
  unfold apu_tick_clock. cbn [fst]. fold (wrap_ticks s). fold (after_timers s).
  destruct (after_timers_facts s) as (_ & _ & _ & _ & _ & _ & _ & _ & _ & _ & Ht & _).
  unfold fs_hit. rewrite <- Ht.
  destruct (N.land (ticks (after_timers s)) frameSeqMask =? 0); [rewrite tick_frame_sequencer_eq|]; reflexivity.
Qed.

Lemma tick_clock_en s :
  en1 (fst (apu_tick_clock s)) =
    en1 s && negb (len_clock s && exp1 s) && negb (sweep_clock s && sweep_overflows (sw1 s)) /\
  en2 (fst (apu_tick_clock s)) = en2 s && negb (len_clock s && exp2 s) /\
  en3 (fst (apu_tick_clock s)) = en3 s && negb (len_clock s && exp3 s) /\
  en4 (fst (apu_tick_clock s)) = en4 s && negb (len_clock s && exp4 s).
Proof.
  rewrite tick_clock_shape. cbv zeta.
  destruct (after_timers_facts s) as (A1 & A2 & A3 & A4 & X1 & X2 & X3 & X4 & Hs & Hf & _).
  destruct (en_fs_part (after_timers s)) as (P1 & P2 & P3 & P4).
  rewrite A1, X1, Hs, Hf in P1. rewrite A2, X2, Hf in P2. rewrite A3, X3, Hf in P3. rewrite A4, X4, Hf in P4.
  unfold len_clock, sweep_clock.
  destruct (fs_hit s); cbn [andb negb].
  - match goal with |- context [if ?b then _ else _] => destruct b end;
      unfold en1, en2, en3, en4 in *; psimpl; rewrite P1, P2, P3, P4; repeat split; reflexivity.
  - unfold en1, en2, en3, en4 in *; psimpl. rewrite A1, A2, A3, A4. repeat split; btauto.
Qed.

(* ------------------------------------------------------------------------------------------------- *)
(* register writes: exact effect of each handler on the status flag of its own channel *)
Definition trig_bit (v : N) : bool := 0 <? N.land (N.shiftr v 7) 1.
Definition len_bit (v : N) : bool := 0 <? N.land (N.shiftr v 6) 1.
Definition dacv (v : N) : bool := (0 <? N.shiftr v 4) || (0 <? N.land (N.shiftr v 3) 1).

(* enabling length in the first half of a length period with the counter at 1 (and no trigger) *)
Definition extra_expires8 (oldEn : bool) (L : N) (v : N) (odd : bool) : bool :=
  negb oldEn && len_bit v && (0 <? L) && odd && (sub8 L 1 =? 0).
Definition extra_expires16 (oldEn : bool) (L : N) (v : N) (odd : bool) : bool :=
  negb oldEn && len_bit v && (0 <? L) && odd && (sub16 L 1 =? 0).

Lemma sq_en_extra_len c l t o :
  sqEnabled (sq_extra_len c l t o) =
  sqEnabled c && negb (negb (sqLenEn c) && l && (0 <? sqLength c) && o && (sub8 (sqLength c) 1 =? 0) && negb t).
Proof.
  unfold sq_extra_len.
  destruct (negb (sqLenEn c) && l && (0 <? sqLength c) && o); cbn [andb negb]; [|btauto].
  psimpl. destruct (sub8 (sqLength c) 1 =? 0), t; cbn [andb negb]; psimpl; btauto.
Qed.
Lemma sq_dac_extra_len c l t o : sqDac (sq_extra_len c l t o) = sqDac c.
Proof. unfold sq_extra_len. break_ifs; reflexivity. Qed.
Lemma sq_en_trig_len c l o : sqEnabled (sq_trig_len c l o) = sqEnabled c.
Proof. unfold sq_trig_len. break_ifs; reflexivity. Qed.
Lemma sq_dac_trig_len c l o : sqDac (sq_trig_len c l o) = sqDac c.
Proof. unfold sq_trig_len. break_ifs; reflexivity. Qed.
Lemma sq_en_trigger_common c : sqEnabled (sq_trigger_common c) = true.
Proof. unfold sq_trigger_common. psimpl. break_ifs; reflexivity. Qed.
Lemma sq_dac_trigger_common c : sqDac (sq_trigger_common c) = sqDac c.
Proof. unfold sq_trigger_common. psimpl. break_ifs; reflexivity. Qed.
Lemma sq_freq_trigger_common c : sqFreq (sq_trigger_common c) = sqFreq c.
Proof. unfold sq_trigger_common. psimpl. break_ifs; reflexivity. Qed.
Lemma sq_en_dac_check c : sqEnabled (sq_dac_check c) = sqEnabled c && sqDac c.
Proof. unfold sq_dac_check. destruct (sqDac c); psimpl; btauto. Qed.
Lemma sq_dac_dac_check c : sqDac (sq_dac_check c) = sqDac c.
Proof. unfold sq_dac_check. destruct (sqDac c) eqn:E; psimpl; congruence. Qed.
Lemma sq_en_ch2_trigger c : sqEnabled (ch2_trigger c) = sqDac c.
Proof. unfold ch2_trigger. rewrite sq_en_dac_check, sq_en_trigger_common, sq_dac_trigger_common. reflexivity. Qed.
Lemma sq_dac_ch2_trigger c : sqDac (ch2_trigger c) = sqDac c.
Proof. unfold ch2_trigger. rewrite sq_dac_dac_check, sq_dac_trigger_common. reflexivity. Qed.

Lemma wv_en_extra_len w l t o :
  wvEnabled (wv_extra_len w l t o) =
  wvEnabled w && negb (negb (wvLenEn w) && l && (0 <? wvLength w) && o && (sub16 (wvLength w) 1 =? 0) && negb t).
Proof.
  unfold wv_extra_len.
  destruct (negb (wvLenEn w) && l && (0 <? wvLength w) && o); cbn [andb negb]; [|btauto].
  psimpl. destruct (sub16 (wvLength w) 1 =? 0), t; cbn [andb negb]; psimpl; btauto.
Qed.
Lemma wv_dac_extra_len w l t o : wvDac (wv_extra_len w l t o) = wvDac w.
Proof. unfold wv_extra_len. break_ifs; reflexivity. Qed.
Lemma wv_en_trig_len w l o : wvEnabled (wv_trig_len w l o) = wvEnabled w.
Proof. unfold wv_trig_len. break_ifs; reflexivity. Qed.
Lemma wv_en_trigger w : wvEnabled (wv_trigger w) = wvDac w.
Proof.
  unfold wv_trigger.
  set (w1 := if wvEnabled w then _ else _).
  assert (H1 : wvDac w1 = wvDac w).
  { unfold w1, wv_corrupt. destruct (wvEnabled w); [destruct (wvTimer w =? 0)|]; reflexivity. }
  clearbody w1.
  set (w2 := set_wvEnabled w1 true).
  set (w3 := if wvLength w2 =? 0 then _ else _).
  assert (H3 : wvDac w3 = wvDac w /\ wvEnabled w3 = true).
  { unfold w3. destruct (wvLength w2 =? 0); split; try reflexivity; exact H1. }
  clearbody w3. destruct H3 as [H3 H4]. psimpl. rewrite H3.
  destruct (wvDac w); psimpl; [exact H4 | reflexivity].
Qed.

Lemma ns_en_extra_len n l t o :
  nsEnabled (ns_extra_len n l t o) =
  nsEnabled n && negb (negb (nsLenEn n) && l && (0 <? nsLength n) && o && (sub8 (nsLength n) 1 =? 0) && negb t).
Proof.
  unfold ns_extra_len.
  destruct (negb (nsLenEn n) && l && (0 <? nsLength n) && o); cbn [andb negb]; [|btauto].
  psimpl. destruct (sub8 (nsLength n) 1 =? 0), t; cbn [andb negb]; psimpl; btauto.
Qed.
Lemma ns_dac_extra_len n l t o : nsDac (ns_extra_len n l t o) = nsDac n.
Proof. unfold ns_extra_len. break_ifs; reflexivity. Qed.
Lemma ns_en_trig_len n l o : nsEnabled (ns_trig_len n l o) = nsEnabled n.
Proof. unfold ns_trig_len. break_ifs; reflexivity. Qed.
Lemma ns_en_trigger n : nsEnabled (ns_trigger n) = nsDac n.
Proof.
  unfold ns_trigger.
  set (n1 := set_nsEnabled (set_nsTriggered n true) true).
  set (n2 := if nsLength n1 =? 0 then _ else _).
  assert (H2 : nsDac n2 = nsDac n /\ nsEnabled n2 = true) by (unfold n2; destruct (nsLength n1 =? 0); split; reflexivity).
  clearbody n2. destruct H2 as [H2 H3]. psimpl. rewrite H2.
  destruct (nsDac n); psimpl; [exact H3 | reflexivity].
Qed.

(* channel 1's trigger: the sweep state the overflow check runs on *)
Definition trig_sweep (c : square) (w : sweep) : sweep :=
  set_swEnabled (set_swTimer (set_swShadow w (sqFreq c)) (if swPeriod w =? 0 then 8 else swPeriod w))
                ((0 <? swPeriod w) || (0 <? swShift w)).
Definition trig_overflows (c : square) (w : sweep) : bool :=
  (0 <? swShift w) && (2047 <? calc_nf (trig_sweep c w)).

Lemma sq_en_ch1_trigger c w :
  sqEnabled (fst (ch1_trigger c w)) = sqDac c && negb (trig_overflows c w).
Proof.
  unfold ch1_trigger, trig_overflows.
  change (set_swEnabled _ _) with (trig_sweep (sq_trigger_common c) w).
  assert (Ht : trig_sweep (sq_trigger_common c) w = trig_sweep c w)
    by (unfold trig_sweep; rewrite sq_freq_trigger_common; reflexivity).
  rewrite Ht.
  change (swShift (trig_sweep c w)) with (swShift w).
  destruct (0 <? swShift w); cbn [fst snd andb negb].
  - rewrite calc_freq_eq. cbn [fst]. rewrite sq_en_dac_check.
    destruct (2047 <? calc_nf (trig_sweep c w)); psimpl;
      rewrite ?sq_en_trigger_common, ?sq_dac_trigger_common; btauto.
  - rewrite sq_en_dac_check, sq_en_trigger_common, sq_dac_trigger_common. btauto.
Qed.

(* handler level *)
Lemma en1_W10 s v :
  en1 (WriteNR10 s v) =
  en1 s && negb (is_on s && (N.land (N.shiftr v 3) 1 =? 0) && swDescending (sw1 s)).
Proof.
  unfold WriteNR10, en1, is_on. destruct (ctOn (ctl s)); cbn [andb negb]; [|btauto]. psimpl.
  destruct (N.land (N.shiftr v 3) 1 =? 0), (swDescending (sw1 s)); cbn [andb negb]; psimpl; btauto.
Qed.

Lemma en1_W12 s v : en1 (WriteNR12 s v) = en1 s && (negb (is_on s) || dacv v).
Proof.
  unfold WriteNR12, sq_write_nrx2, en1, is_on, dacv. destruct (ctOn (ctl s)); cbn [negb orb]; [|btauto]. psimpl.
  destruct ((0 <? N.shiftr v 4) || (0 <? N.land (N.shiftr v 3) 1)); psimpl; btauto.
Qed.
Lemma en2_W22 s v : en2 (WriteNR22 s v) = en2 s && (negb (is_on s) || dacv v).
Proof.
  unfold WriteNR22, sq_write_nrx2, en2, is_on, dacv. destruct (ctOn (ctl s)); cbn [negb orb]; [|btauto]. psimpl.
  destruct ((0 <? N.shiftr v 4) || (0 <? N.land (N.shiftr v 3) 1)); psimpl; btauto.
Qed.
Lemma en4_W42 s v : en4 (WriteNR42 s v) = en4 s && (negb (is_on s) || dacv v).
Proof.
  unfold WriteNR42, en4, is_on, dacv. destruct (ctOn (ctl s)); cbn [negb orb]; [|btauto]. psimpl.
  destruct ((0 <? N.shiftr v 4) || (0 <? N.land (N.shiftr v 3) 1)); psimpl; btauto.
Qed.
Lemma en3_W30 s v : en3 (WriteNR30 s v) = en3 s && (negb (is_on s) || trig_bit v).
Proof.
  unfold WriteNR30, en3, is_on, trig_bit. destruct (ctOn (ctl s)); cbn [negb orb]; [|btauto]. psimpl.
  destruct (0 <? N.land (N.shiftr v 7) 1); psimpl; btauto.
Qed.

Definition nr14_freq (s : apu) (v : N) : square :=
  set_sqFreq (ch1 s) (N.lor (N.land (sqFreq (ch1 s)) 0x00ff) (N.shiftl (N.land v 7) 8)).

Lemma en1_W14 s v :
  en1 (WriteNR14 s v) =
  if is_on s then
    if trig_bit v then sqDac (ch1 s) && negb (trig_overflows (nr14_freq s v) (sw1 s))
    else en1 s && negb (extra_expires8 (sqLenEn (ch1 s)) (sqLength (ch1 s)) v (odd_seq s))
  else en1 s.
Proof.
  unfold WriteNR14, en1, is_on, extra_expires8, trig_bit, len_bit. destruct (ctOn (ctl s)); [|reflexivity].
  fold (nr14_freq s v). psimpl.
  destruct (0 <? N.land (N.shiftr v 7) 1); cbn [fst snd].
  - rewrite sq_en_trig_len, sq_en_ch1_trigger, sq_dac_extra_len.
    assert (Hto : forall c c', sqFreq c = sqFreq c' -> trig_overflows c (sw1 s) = trig_overflows c' (sw1 s)).
    { intros c c' Hf. unfold trig_overflows, trig_sweep. rewrite Hf. reflexivity. }
    rewrite (Hto _ (nr14_freq s v)); [reflexivity|].
    unfold sq_extra_len. break_ifs; reflexivity.
  - rewrite sq_en_extra_len. unfold nr14_freq. psimpl. btauto.
Qed.

Lemma en2_W24 s v :
  en2 (WriteNR24 s v) =
  if is_on s then
    if trig_bit v then sqDac (ch2 s)
    else en2 s && negb (extra_expires8 (sqLenEn (ch2 s)) (sqLength (ch2 s)) v (odd_seq s))
  else en2 s.
Proof.
  unfold WriteNR24, en2, is_on, extra_expires8, trig_bit, len_bit. destruct (ctOn (ctl s)); [|reflexivity].
  psimpl.
  destruct (0 <? N.land (N.shiftr v 7) 1).
  - rewrite sq_en_trig_len, sq_en_ch2_trigger, sq_dac_extra_len. reflexivity.
  - rewrite sq_en_extra_len. psimpl. btauto.
Qed.

Lemma en3_W34 s v :
  en3 (WriteNR34 s v) =
  if is_on s then
    if trig_bit v then wvDac (ch3 s)
    else en3 s && negb (extra_expires16 (wvLenEn (ch3 s)) (wvLength (ch3 s)) v (odd_seq s))
  else en3 s.
Proof.
  unfold WriteNR34, en3, is_on, extra_expires16, trig_bit, len_bit. destruct (ctOn (ctl s)); [|reflexivity].
  psimpl.
  destruct (0 <? N.land (N.shiftr v 7) 1).
  - rewrite wv_en_trig_len, wv_en_trigger, wv_dac_extra_len. reflexivity.
  - rewrite wv_en_extra_len. psimpl. btauto.
Qed.

Lemma en4_W44 s v :
  en4 (WriteNR44 s v) =
  if is_on s then
    if trig_bit v then nsDac (ch4 s)
    else en4 s && negb (extra_expires8 (nsLenEn (ch4 s)) (nsLength (ch4 s)) v (odd_seq s))
  else en4 s.
Proof.
  unfold WriteNR44, en4, is_on, extra_expires8, trig_bit, len_bit. destruct (ctOn (ctl s)); [|reflexivity].
  psimpl.
  destruct (0 <? N.land (N.shiftr v 7) 1).
  - rewrite ns_en_trig_len, ns_en_trigger, ns_dac_extra_len. reflexivity.
  - rewrite ns_en_extra_len. btauto.
Qed.

(* frames: a handler leaves the other channels and the power flag alone *)
Lemma frame_W10 s v :
  ch2 (WriteNR10 s v) = ch2 s /\
  ch3 (WriteNR10 s v) = ch3 s /\
  ch4 (WriteNR10 s v) = ch4 s /\
  is_on (WriteNR10 s v) = is_on s /\
  ticks (WriteNR10 s v) = ticks s /\
  fseq (WriteNR10 s v) = fseq s /\
  attached (WriteNR10 s v) = attached s.
Proof.
  unfold WriteNR10, sq_write_nrx2, is_on. destruct (ctOn (ctl s)) eqn:Hon; psimpl; repeat split; try reflexivity; try exact Hon.
Qed.
Lemma frame_W11 s v :
  ch2 (WriteNR11 s v) = ch2 s /\
  ch3 (WriteNR11 s v) = ch3 s /\
  ch4 (WriteNR11 s v) = ch4 s /\
  is_on (WriteNR11 s v) = is_on s /\
  ticks (WriteNR11 s v) = ticks s /\
  fseq (WriteNR11 s v) = fseq s /\
  attached (WriteNR11 s v) = attached s.
Proof.
  unfold WriteNR11, sq_write_nrx2, is_on. destruct (ctOn (ctl s)) eqn:Hon; psimpl; repeat split; try reflexivity; try exact Hon.
Qed.
Lemma frame_W12 s v :
  ch2 (WriteNR12 s v) = ch2 s /\
  ch3 (WriteNR12 s v) = ch3 s /\
  ch4 (WriteNR12 s v) = ch4 s /\
  is_on (WriteNR12 s v) = is_on s /\
  ticks (WriteNR12 s v) = ticks s /\
  fseq (WriteNR12 s v) = fseq s /\
  attached (WriteNR12 s v) = attached s.
Proof.
  unfold WriteNR12, sq_write_nrx2, is_on. destruct (ctOn (ctl s)) eqn:Hon; psimpl; repeat split; try reflexivity; try exact Hon.
Qed.
Lemma frame_W13 s v :
  ch2 (WriteNR13 s v) = ch2 s /\
  ch3 (WriteNR13 s v) = ch3 s /\
  ch4 (WriteNR13 s v) = ch4 s /\
  is_on (WriteNR13 s v) = is_on s /\
  ticks (WriteNR13 s v) = ticks s /\
  fseq (WriteNR13 s v) = fseq s /\
  attached (WriteNR13 s v) = attached s.
Proof.
  unfold WriteNR13, sq_write_nrx2, is_on. destruct (ctOn (ctl s)) eqn:Hon; psimpl; repeat split; try reflexivity; try exact Hon.
Qed.
Lemma frame_W14 s v :
  ch2 (WriteNR14 s v) = ch2 s /\
  ch3 (WriteNR14 s v) = ch3 s /\
  ch4 (WriteNR14 s v) = ch4 s /\
  is_on (WriteNR14 s v) = is_on s /\
  ticks (WriteNR14 s v) = ticks s /\
  fseq (WriteNR14 s v) = fseq s /\
  attached (WriteNR14 s v) = attached s.
Proof.
  unfold WriteNR14, sq_write_nrx2, is_on. destruct (ctOn (ctl s)) eqn:Hon; psimpl; repeat split; try reflexivity; try exact Hon.
Qed.
Lemma frame_W21 s v :
  ch1 (WriteNR21 s v) = ch1 s /\
  ch3 (WriteNR21 s v) = ch3 s /\
  ch4 (WriteNR21 s v) = ch4 s /\
  sw1 (WriteNR21 s v) = sw1 s /\
  is_on (WriteNR21 s v) = is_on s /\
  ticks (WriteNR21 s v) = ticks s /\
  fseq (WriteNR21 s v) = fseq s /\
  attached (WriteNR21 s v) = attached s.
Proof.
  unfold WriteNR21, sq_write_nrx2, is_on. destruct (ctOn (ctl s)) eqn:Hon; psimpl; repeat split; try reflexivity; try exact Hon.
Qed.
Lemma frame_W22 s v :
  ch1 (WriteNR22 s v) = ch1 s /\
  ch3 (WriteNR22 s v) = ch3 s /\
  ch4 (WriteNR22 s v) = ch4 s /\
  sw1 (WriteNR22 s v) = sw1 s /\
  is_on (WriteNR22 s v) = is_on s /\
  ticks (WriteNR22 s v) = ticks s /\
  fseq (WriteNR22 s v) = fseq s /\
  attached (WriteNR22 s v) = attached s.
Proof.
  unfold WriteNR22, sq_write_nrx2, is_on. destruct (ctOn (ctl s)) eqn:Hon; psimpl; repeat split; try reflexivity; try exact Hon.
Qed.
Lemma frame_W23 s v :
  ch1 (WriteNR23 s v) = ch1 s /\
  ch3 (WriteNR23 s v) = ch3 s /\
  ch4 (WriteNR23 s v) = ch4 s /\
  sw1 (WriteNR23 s v) = sw1 s /\
  is_on (WriteNR23 s v) = is_on s /\
  ticks (WriteNR23 s v) = ticks s /\
  fseq (WriteNR23 s v) = fseq s /\
  attached (WriteNR23 s v) = attached s.
Proof.
  unfold WriteNR23, sq_write_nrx2, is_on. destruct (ctOn (ctl s)) eqn:Hon; psimpl; repeat split; try reflexivity; try exact Hon.
Qed.
Lemma frame_W24 s v :
  ch1 (WriteNR24 s v) = ch1 s /\
  ch3 (WriteNR24 s v) = ch3 s /\
  ch4 (WriteNR24 s v) = ch4 s /\
  sw1 (WriteNR24 s v) = sw1 s /\
  is_on (WriteNR24 s v) = is_on s /\
  ticks (WriteNR24 s v) = ticks s /\
  fseq (WriteNR24 s v) = fseq s /\
  attached (WriteNR24 s v) = attached s.
Proof.
  unfold WriteNR24, sq_write_nrx2, is_on. destruct (ctOn (ctl s)) eqn:Hon; psimpl; repeat split; try reflexivity; try exact Hon.
Qed.
Lemma frame_W30 s v :
  ch1 (WriteNR30 s v) = ch1 s /\
  ch2 (WriteNR30 s v) = ch2 s /\
  ch4 (WriteNR30 s v) = ch4 s /\
  sw1 (WriteNR30 s v) = sw1 s /\
  is_on (WriteNR30 s v) = is_on s /\
  ticks (WriteNR30 s v) = ticks s /\
  fseq (WriteNR30 s v) = fseq s /\
  attached (WriteNR30 s v) = attached s.
Proof.
  unfold WriteNR30, sq_write_nrx2, is_on. destruct (ctOn (ctl s)) eqn:Hon; psimpl; repeat split; try reflexivity; try exact Hon.
Qed.
Lemma frame_W31 s v :
  ch1 (WriteNR31 s v) = ch1 s /\
  ch2 (WriteNR31 s v) = ch2 s /\
  ch4 (WriteNR31 s v) = ch4 s /\
  sw1 (WriteNR31 s v) = sw1 s /\
  is_on (WriteNR31 s v) = is_on s /\
  ticks (WriteNR31 s v) = ticks s /\
  fseq (WriteNR31 s v) = fseq s /\
  attached (WriteNR31 s v) = attached s.
Proof.
  unfold WriteNR31, sq_write_nrx2, is_on. destruct (ctOn (ctl s)) eqn:Hon; psimpl; repeat split; try reflexivity; try exact Hon.
Qed.
Lemma frame_W32 s v :
  ch1 (WriteNR32 s v) = ch1 s /\
  ch2 (WriteNR32 s v) = ch2 s /\
  ch4 (WriteNR32 s v) = ch4 s /\
  sw1 (WriteNR32 s v) = sw1 s /\
  is_on (WriteNR32 s v) = is_on s /\
  ticks (WriteNR32 s v) = ticks s /\
  fseq (WriteNR32 s v) = fseq s /\
  attached (WriteNR32 s v) = attached s.
Proof.
  unfold WriteNR32, sq_write_nrx2, is_on. destruct (ctOn (ctl s)) eqn:Hon; psimpl; repeat split; try reflexivity; try exact Hon.
Qed.
Lemma frame_W33 s v :
  ch1 (WriteNR33 s v) = ch1 s /\
  ch2 (WriteNR33 s v) = ch2 s /\
  ch4 (WriteNR33 s v) = ch4 s /\
  sw1 (WriteNR33 s v) = sw1 s /\
  is_on (WriteNR33 s v) = is_on s /\
  ticks (WriteNR33 s v) = ticks s /\
  fseq (WriteNR33 s v) = fseq s /\
  attached (WriteNR33 s v) = attached s.
Proof.
  unfold WriteNR33, sq_write_nrx2, is_on. destruct (ctOn (ctl s)) eqn:Hon; psimpl; repeat split; try reflexivity; try exact Hon.
Qed.
Lemma frame_W34 s v :
  ch1 (WriteNR34 s v) = ch1 s /\
  ch2 (WriteNR34 s v) = ch2 s /\
  ch4 (WriteNR34 s v) = ch4 s /\
  sw1 (WriteNR34 s v) = sw1 s /\
  is_on (WriteNR34 s v) = is_on s /\
  ticks (WriteNR34 s v) = ticks s /\
  fseq (WriteNR34 s v) = fseq s /\
  attached (WriteNR34 s v) = attached s.
Proof.
  unfold WriteNR34, sq_write_nrx2, is_on. destruct (ctOn (ctl s)) eqn:Hon; psimpl; repeat split; try reflexivity; try exact Hon.
Qed.
Lemma frame_W41 s v :
  ch1 (WriteNR41 s v) = ch1 s /\
  ch2 (WriteNR41 s v) = ch2 s /\
  ch3 (WriteNR41 s v) = ch3 s /\
  sw1 (WriteNR41 s v) = sw1 s /\
  is_on (WriteNR41 s v) = is_on s /\
  ticks (WriteNR41 s v) = ticks s /\
  fseq (WriteNR41 s v) = fseq s /\
  attached (WriteNR41 s v) = attached s.
Proof.
  unfold WriteNR41, sq_write_nrx2, is_on. destruct (ctOn (ctl s)) eqn:Hon; psimpl; repeat split; try reflexivity; try exact Hon.
Qed.
Lemma frame_W42 s v :
  ch1 (WriteNR42 s v) = ch1 s /\
  ch2 (WriteNR42 s v) = ch2 s /\
  ch3 (WriteNR42 s v) = ch3 s /\
  sw1 (WriteNR42 s v) = sw1 s /\
  is_on (WriteNR42 s v) = is_on s /\
  ticks (WriteNR42 s v) = ticks s /\
  fseq (WriteNR42 s v) = fseq s /\
  attached (WriteNR42 s v) = attached s.
Proof.
  unfold WriteNR42, sq_write_nrx2, is_on. destruct (ctOn (ctl s)) eqn:Hon; psimpl; repeat split; try reflexivity; try exact Hon.
Qed.
Lemma frame_W43 s v :
  ch1 (WriteNR43 s v) = ch1 s /\
  ch2 (WriteNR43 s v) = ch2 s /\
  ch3 (WriteNR43 s v) = ch3 s /\
  sw1 (WriteNR43 s v) = sw1 s /\
  is_on (WriteNR43 s v) = is_on s /\
  ticks (WriteNR43 s v) = ticks s /\
  fseq (WriteNR43 s v) = fseq s /\
  attached (WriteNR43 s v) = attached s.
Proof.
  unfold WriteNR43, sq_write_nrx2, is_on. destruct (ctOn (ctl s)) eqn:Hon; psimpl; repeat split; try reflexivity; try exact Hon.
Qed.
Lemma frame_W44 s v :
  ch1 (WriteNR44 s v) = ch1 s /\
  ch2 (WriteNR44 s v) = ch2 s /\
  ch3 (WriteNR44 s v) = ch3 s /\
  sw1 (WriteNR44 s v) = sw1 s /\
  is_on (WriteNR44 s v) = is_on s /\
  ticks (WriteNR44 s v) = ticks s /\
  fseq (WriteNR44 s v) = fseq s /\
  attached (WriteNR44 s v) = attached s.
Proof.
  unfold WriteNR44, sq_write_nrx2, is_on. destruct (ctOn (ctl s)) eqn:Hon; psimpl; repeat split; try reflexivity; try exact Hon.
Qed.
Lemma frame_W50 s v :
  ch1 (WriteNR50 s v) = ch1 s /\
  ch2 (WriteNR50 s v) = ch2 s /\
  ch3 (WriteNR50 s v) = ch3 s /\
  ch4 (WriteNR50 s v) = ch4 s /\
  sw1 (WriteNR50 s v) = sw1 s /\
  is_on (WriteNR50 s v) = is_on s /\
  ticks (WriteNR50 s v) = ticks s /\
  fseq (WriteNR50 s v) = fseq s /\
  attached (WriteNR50 s v) = attached s.
Proof.
  unfold WriteNR50, sq_write_nrx2, is_on. destruct (ctOn (ctl s)) eqn:Hon; psimpl; repeat split; try reflexivity; try exact Hon.
Qed.
Lemma frame_W51 s v :
  ch1 (WriteNR51 s v) = ch1 s /\
  ch2 (WriteNR51 s v) = ch2 s /\
  ch3 (WriteNR51 s v) = ch3 s /\
  ch4 (WriteNR51 s v) = ch4 s /\
  sw1 (WriteNR51 s v) = sw1 s /\
  is_on (WriteNR51 s v) = is_on s /\
  ticks (WriteNR51 s v) = ticks s /\
  fseq (WriteNR51 s v) = fseq s /\
  attached (WriteNR51 s v) = attached s.
Proof.
  unfold WriteNR51, sq_write_nrx2, is_on. destruct (ctOn (ctl s)) eqn:Hon; psimpl; repeat split; try reflexivity; try exact Hon.
Qed.

Lemma frame_WWave s a v :
  ch1 (WriteWaveRAM s a v) = ch1 s /\ ch2 (WriteWaveRAM s a v) = ch2 s /\ ch4 (WriteWaveRAM s a v) = ch4 s /\
  sw1 (WriteWaveRAM s a v) = sw1 s /\ is_on (WriteWaveRAM s a v) = is_on s /\
  ticks (WriteWaveRAM s a v) = ticks s /\ fseq (WriteWaveRAM s a v) = fseq s /\
  attached (WriteWaveRAM s a v) = attached s /\
  en3 (WriteWaveRAM s a v) = en3 s /\ wv_lv (ch3 (WriteWaveRAM s a v)) = wv_lv (ch3 s) /\
  wvDac (ch3 (WriteWaveRAM s a v)) = wvDac (ch3 s).
Proof.
  unfold WriteWaveRAM, en3, wv_lv, is_on.
  destruct (wvEnabled (ch3 s)) eqn:E; [destruct (wvSampleTimer (ch3 s) <? 4)|]; psimpl; repeat split; try reflexivity;
    try exact E; rewrite ?E; reflexivity.
Qed.

Lemma en1_W11 s v : en1 (WriteNR11 s v) = en1 s.
Proof. unfold WriteNR11, en1. destruct (ctOn (ctl s)); reflexivity. Qed.
Lemma en1_W13 s v : en1 (WriteNR13 s v) = en1 s.
Proof. unfold WriteNR13, en1. destruct (ctOn (ctl s)); reflexivity. Qed.
Lemma en2_W21 s v : en2 (WriteNR21 s v) = en2 s.
Proof. unfold WriteNR21, en2. destruct (ctOn (ctl s)); reflexivity. Qed.
Lemma en2_W23 s v : en2 (WriteNR23 s v) = en2 s.
Proof. unfold WriteNR23, en2. destruct (ctOn (ctl s)); reflexivity. Qed.
Lemma en3_W31 s v : en3 (WriteNR31 s v) = en3 s.
Proof. reflexivity. Qed.
Lemma en3_W32 s v : en3 (WriteNR32 s v) = en3 s.
Proof. unfold WriteNR32, en3. destruct (ctOn (ctl s)); reflexivity. Qed.
Lemma en3_W33 s v : en3 (WriteNR33 s v) = en3 s.
Proof. unfold WriteNR33, en3. destruct (ctOn (ctl s)); reflexivity. Qed.
Lemma en4_W41 s v : en4 (WriteNR41 s v) = en4 s.
Proof. reflexivity. Qed.
Lemma en4_W43 s v : en4 (WriteNR43 s v) = en4 s.
Proof. unfold WriteNR43, en4. destruct (ctOn (ctl s)); reflexivity. Qed.

(* NR52 *)
Ltac frame_rw :=
  repeat first
    [ rewrite (proj1 (frame_W51 _ _)) | rewrite (proj1 (proj2 (frame_W51 _ _)))
    | rewrite (proj1 (proj2 (proj2 (frame_W51 _ _)))) | rewrite (proj1 (proj2 (proj2 (proj2 (frame_W51 _ _))))) ].

Definition off_chain (s : apu) : apu :=
  WriteNR51 (WriteNR50 (WriteNR44 (WriteNR43 (WriteNR42 (WriteNR34 (WriteNR33 (WriteNR32 (WriteNR30
  (WriteNR24 (WriteNR23 (WriteNR22 (WriteNR14 (WriteNR13 (WriteNR12 (WriteNR10 (set_on s true) 0) 0) 0) 0) 0) 0) 0)
  0) 0) 0) 0) 0) 0) 0) 0) 0.

Definition off_tail (x : apu) : apu :=
  let x1 := set_ch1 x (set_sqDuty (ch1 x) 0) in
  let x2 := set_ch2 x1 (set_sqDuty (ch2 x1) 0) in
  set_on x2 false.

Lemma W52_off_eq s v : (N.shiftr v 7 =? 0) = true -> WriteNR52 s v = off_tail (off_chain s).
Proof. intros H. unfold WriteNR52. rewrite H. cbv zeta. unfold off_tail, off_chain. cbv zeta. reflexivity. Qed.

Lemma W52_on_eq s v :
  (N.shiftr v 7 =? 0) = false -> WriteNR52 s v = set_on (if ctOn (ctl s) then s else set_fseq s 0) true.
Proof. intros H. unfold WriteNR52. rewrite H. reflexivity. Qed.

Lemma en_off_tail x :
  en1 (off_tail x) = en1 x /\ en2 (off_tail x) = en2 x /\ en3 (off_tail x) = en3 x /\ en4 (off_tail x) = en4 x.
Proof. repeat split; reflexivity. Qed.

Lemma chain_off (s0 s10 s12 s13 s14 s22 s23 s24 s30 s32 s33 s34 s42 s43 s44 s50 s51 : apu) :
  is_on s0 = true ->
  s10 = WriteNR10 s0 0 -> s12 = WriteNR12 s10 0 -> s13 = WriteNR13 s12 0 -> s14 = WriteNR14 s13 0 ->
  s22 = WriteNR22 s14 0 -> s23 = WriteNR23 s22 0 -> s24 = WriteNR24 s23 0 ->
  s30 = WriteNR30 s24 0 -> s32 = WriteNR32 s30 0 -> s33 = WriteNR33 s32 0 -> s34 = WriteNR34 s33 0 ->
  s42 = WriteNR42 s34 0 -> s43 = WriteNR43 s42 0 -> s44 = WriteNR44 s43 0 ->
  s50 = WriteNR50 s44 0 -> s51 = WriteNR51 s50 0 ->
  en1 s51 = false /\ en2 s51 = false /\ en3 s51 = false /\ en4 s51 = false.
Proof.
  intros O0 E10 E12 E13 E14 E22 E23 E24 E30 E32 E33 E34 E42 E43 E44 E50 E51.
  destruct (frame_W10 s0 0) as (_ & _ & _ & F10 & _).
  assert (O10 : is_on s10 = true) by (rewrite E10, F10; exact O0).
  destruct (frame_W12 s10 0) as (A12a & A12b & A12c & O12 & _). rewrite <- E12 in *.
  destruct (frame_W13 s12 0) as (A13a & A13b & A13c & O13 & _). rewrite <- E13 in *.
  destruct (frame_W14 s13 0) as (A14a & A14b & A14c & O14 & _). rewrite <- E14 in *.
  destruct (frame_W22 s14 0) as (A22a & A22b & A22c & A22d & O22 & _). rewrite <- E22 in *.
  destruct (frame_W23 s22 0) as (A23a & A23b & A23c & A23d & O23 & _). rewrite <- E23 in *.
  destruct (frame_W24 s23 0) as (A24a & A24b & A24c & A24d & O24 & _). rewrite <- E24 in *.
  destruct (frame_W30 s24 0) as (A30a & A30b & A30c & A30d & O30 & _). rewrite <- E30 in *.
  destruct (frame_W32 s30 0) as (A32a & A32b & A32c & A32d & O32 & _). rewrite <- E32 in *.
  destruct (frame_W33 s32 0) as (A33a & A33b & A33c & A33d & O33 & _). rewrite <- E33 in *.
  destruct (frame_W34 s33 0) as (A34a & A34b & A34c & A34d & O34 & _). rewrite <- E34 in *.
  destruct (frame_W42 s34 0) as (A42a & A42b & A42c & A42d & O42 & _). rewrite <- E42 in *.
  destruct (frame_W43 s42 0) as (A43a & A43b & A43c & A43d & O43 & _). rewrite <- E43 in *.
  destruct (frame_W44 s43 0) as (A44a & A44b & A44c & A44d & O44 & _). rewrite <- E44 in *.
  destruct (frame_W50 s44 0) as (A50a & A50b & A50c & A50d & A50e & O50 & _). rewrite <- E50 in *.
  destruct (frame_W51 s50 0) as (A51a & A51b & A51c & A51d & A51e & O51 & _). rewrite <- E51 in *.
  assert (O12' : is_on s12 = true) by congruence.
  assert (O13' : is_on s13 = true) by congruence.
  assert (O14' : is_on s14 = true) by congruence.
  assert (O22' : is_on s22 = true) by congruence.
  assert (O23' : is_on s23 = true) by congruence.
  assert (O24' : is_on s24 = true) by congruence.
  assert (O30' : is_on s30 = true) by congruence.
  assert (O32' : is_on s32 = true) by congruence.
  assert (O33' : is_on s33 = true) by congruence.
  assert (O34' : is_on s34 = true) by congruence.
  assert (O42' : is_on s42 = true) by congruence.
  assert (O43' : is_on s43 = true) by congruence.
  (* channel 1: off at NR12 := 0, and nothing later switches it on *)
  assert (X1 : en1 s14 = false).
  { pose proof (en1_W12 s10 0) as H12. rewrite <- E12, O10 in H12. cbn in H12. rewrite Bool.andb_false_r in H12.
    pose proof (en1_W13 s12 0) as H13. rewrite <- E13 in H13.
    pose proof (en1_W14 s13 0) as H14. rewrite <- E14, O13' in H14. cbn [trig_bit] in H14.
    change (0 <? N.land (N.shiftr 0 7) 1) with false in H14.
    rewrite H14, H13, H12. reflexivity. }
  assert (X2 : en2 s24 = false).
  { pose proof (en2_W22 s14 0) as H22. rewrite <- E22, O14' in H22. cbn in H22. rewrite Bool.andb_false_r in H22.
    pose proof (en2_W23 s22 0) as H23. rewrite <- E23 in H23.
    pose proof (en2_W24 s23 0) as H24. rewrite <- E24, O23' in H24.
    change (trig_bit 0) with false in H24. cbv iota in H24.
    rewrite H24, H23, H22. reflexivity. }
  assert (X3 : en3 s34 = false).
  { pose proof (en3_W30 s24 0) as H30. rewrite <- E30, O24' in H30. cbn in H30. rewrite Bool.andb_false_r in H30.
    pose proof (en3_W32 s30 0) as H32. rewrite <- E32 in H32.
    pose proof (en3_W33 s32 0) as H33. rewrite <- E33 in H33.
    pose proof (en3_W34 s33 0) as H34. rewrite <- E34, O33' in H34.
    change (trig_bit 0) with false in H34. cbv iota in H34.
    rewrite H34, H33, H32, H30. reflexivity. }
  assert (X4 : en4 s44 = false).
  { pose proof (en4_W42 s34 0) as H42. rewrite <- E42, O34' in H42. cbn in H42. rewrite Bool.andb_false_r in H42.
    pose proof (en4_W43 s42 0) as H43. rewrite <- E43 in H43.
    pose proof (en4_W44 s43 0) as H44. rewrite <- E44, O43' in H44.
    change (trig_bit 0) with false in H44. cbv iota in H44.
    rewrite H44, H43, H42. reflexivity. }
  unfold en1, en2, en3, en4 in *.
  repeat split; congruence.
Qed.

Lemma en_W52_off s v :
  (N.shiftr v 7 =? 0) = true ->
  en1 (WriteNR52 s v) = false /\ en2 (WriteNR52 s v) = false /\
  en3 (WriteNR52 s v) = false /\ en4 (WriteNR52 s v) = false.
Proof.
  intros H. rewrite (W52_off_eq s v H).
  destruct (en_off_tail (off_chain s)) as (T1 & T2 & T3 & T4). rewrite T1, T2, T3, T4. clear T1 T2 T3 T4.
  unfold off_chain.
  exact (chain_off (set_on s true) _ _ _ _ _ _ _ _ _ _ _ _ _ _ _ _ eq_refl
           eq_refl eq_refl eq_refl eq_refl eq_refl eq_refl eq_refl eq_refl eq_refl eq_refl eq_refl eq_refl eq_refl
           eq_refl eq_refl eq_refl).
Qed.

Lemma en_W52_on s v :
  (N.shiftr v 7 =? 0) = false ->
  en1 (WriteNR52 s v) = en1 s /\ en2 (WriteNR52 s v) = en2 s /\
  en3 (WriteNR52 s v) = en3 s /\ en4 (WriteNR52 s v) = en4 s.
Proof.
  intros H. unfold WriteNR52. rewrite H. destruct (ctOn (ctl s)); repeat split; reflexivity.
Qed.

(* status flags of the other channels are untouched by a handler *)
Lemma en2_W10 s v : en2 (WriteNR10 s v) = en2 s.
Proof. unfold en2, WriteNR10, sq_write_nrx2. destruct (ctOn (ctl s)); reflexivity. Qed.
Lemma en3_W10 s v : en3 (WriteNR10 s v) = en3 s.
Proof. unfold en3, WriteNR10, sq_write_nrx2. destruct (ctOn (ctl s)); reflexivity. Qed.
Lemma en4_W10 s v : en4 (WriteNR10 s v) = en4 s.
Proof. unfold en4, WriteNR10, sq_write_nrx2. destruct (ctOn (ctl s)); reflexivity. Qed.
Lemma en2_W11 s v : en2 (WriteNR11 s v) = en2 s.
Proof. unfold en2, WriteNR11, sq_write_nrx2. destruct (ctOn (ctl s)); reflexivity. Qed.
Lemma en3_W11 s v : en3 (WriteNR11 s v) = en3 s.
Proof. unfold en3, WriteNR11, sq_write_nrx2. destruct (ctOn (ctl s)); reflexivity. Qed.
Lemma en4_W11 s v : en4 (WriteNR11 s v) = en4 s.
Proof. unfold en4, WriteNR11, sq_write_nrx2. destruct (ctOn (ctl s)); reflexivity. Qed.
Lemma en2_W12 s v : en2 (WriteNR12 s v) = en2 s.
Proof. unfold en2, WriteNR12, sq_write_nrx2. destruct (ctOn (ctl s)); reflexivity. Qed.
Lemma en3_W12 s v : en3 (WriteNR12 s v) = en3 s.
Proof. unfold en3, WriteNR12, sq_write_nrx2. destruct (ctOn (ctl s)); reflexivity. Qed.
Lemma en4_W12 s v : en4 (WriteNR12 s v) = en4 s.
Proof. unfold en4, WriteNR12, sq_write_nrx2. destruct (ctOn (ctl s)); reflexivity. Qed.
Lemma en2_W13 s v : en2 (WriteNR13 s v) = en2 s.
Proof. unfold en2, WriteNR13, sq_write_nrx2. destruct (ctOn (ctl s)); reflexivity. Qed.
Lemma en3_W13 s v : en3 (WriteNR13 s v) = en3 s.
Proof. unfold en3, WriteNR13, sq_write_nrx2. destruct (ctOn (ctl s)); reflexivity. Qed.
Lemma en4_W13 s v : en4 (WriteNR13 s v) = en4 s.
Proof. unfold en4, WriteNR13, sq_write_nrx2. destruct (ctOn (ctl s)); reflexivity. Qed.
Lemma en2_W14 s v : en2 (WriteNR14 s v) = en2 s.
Proof. unfold en2, WriteNR14, sq_write_nrx2. destruct (ctOn (ctl s)); reflexivity. Qed.
Lemma en3_W14 s v : en3 (WriteNR14 s v) = en3 s.
Proof. unfold en3, WriteNR14, sq_write_nrx2. destruct (ctOn (ctl s)); reflexivity. Qed.
Lemma en4_W14 s v : en4 (WriteNR14 s v) = en4 s.
Proof. unfold en4, WriteNR14, sq_write_nrx2. destruct (ctOn (ctl s)); reflexivity. Qed.
Lemma en1_W21 s v : en1 (WriteNR21 s v) = en1 s.
Proof. unfold en1, WriteNR21, sq_write_nrx2. destruct (ctOn (ctl s)); reflexivity. Qed.
Lemma en3_W21 s v : en3 (WriteNR21 s v) = en3 s.
Proof. unfold en3, WriteNR21, sq_write_nrx2. destruct (ctOn (ctl s)); reflexivity. Qed.
Lemma en4_W21 s v : en4 (WriteNR21 s v) = en4 s.
Proof. unfold en4, WriteNR21, sq_write_nrx2. destruct (ctOn (ctl s)); reflexivity. Qed.
Lemma en1_W22 s v : en1 (WriteNR22 s v) = en1 s.
Proof. unfold en1, WriteNR22, sq_write_nrx2. destruct (ctOn (ctl s)); reflexivity. Qed.
Lemma en3_W22 s v : en3 (WriteNR22 s v) = en3 s.
Proof. unfold en3, WriteNR22, sq_write_nrx2. destruct (ctOn (ctl s)); reflexivity. Qed.
Lemma en4_W22 s v : en4 (WriteNR22 s v) = en4 s.
Proof. unfold en4, WriteNR22, sq_write_nrx2. destruct (ctOn (ctl s)); reflexivity. Qed.
Lemma en1_W23 s v : en1 (WriteNR23 s v) = en1 s.
Proof. unfold en1, WriteNR23, sq_write_nrx2. destruct (ctOn (ctl s)); reflexivity. Qed.
Lemma en3_W23 s v : en3 (WriteNR23 s v) = en3 s.
Proof. unfold en3, WriteNR23, sq_write_nrx2. destruct (ctOn (ctl s)); reflexivity. Qed.
Lemma en4_W23 s v : en4 (WriteNR23 s v) = en4 s.
Proof. unfold en4, WriteNR23, sq_write_nrx2. destruct (ctOn (ctl s)); reflexivity. Qed.
Lemma en1_W24 s v : en1 (WriteNR24 s v) = en1 s.
Proof. unfold en1, WriteNR24, sq_write_nrx2. destruct (ctOn (ctl s)); reflexivity. Qed.
Lemma en3_W24 s v : en3 (WriteNR24 s v) = en3 s.
Proof. unfold en3, WriteNR24, sq_write_nrx2. destruct (ctOn (ctl s)); reflexivity. Qed.
Lemma en4_W24 s v : en4 (WriteNR24 s v) = en4 s.
Proof. unfold en4, WriteNR24, sq_write_nrx2. destruct (ctOn (ctl s)); reflexivity. Qed.
Lemma en1_W30 s v : en1 (WriteNR30 s v) = en1 s.
Proof. unfold en1, WriteNR30, sq_write_nrx2. destruct (ctOn (ctl s)); reflexivity. Qed.
Lemma en2_W30 s v : en2 (WriteNR30 s v) = en2 s.
Proof. unfold en2, WriteNR30, sq_write_nrx2. destruct (ctOn (ctl s)); reflexivity. Qed.
Lemma en4_W30 s v : en4 (WriteNR30 s v) = en4 s.
Proof. unfold en4, WriteNR30, sq_write_nrx2. destruct (ctOn (ctl s)); reflexivity. Qed.
Lemma en1_W31 s v : en1 (WriteNR31 s v) = en1 s.
Proof. unfold en1, WriteNR31, sq_write_nrx2. destruct (ctOn (ctl s)); reflexivity. Qed.
Lemma en2_W31 s v : en2 (WriteNR31 s v) = en2 s.
Proof. unfold en2, WriteNR31, sq_write_nrx2. destruct (ctOn (ctl s)); reflexivity. Qed.
Lemma en4_W31 s v : en4 (WriteNR31 s v) = en4 s.
Proof. unfold en4, WriteNR31, sq_write_nrx2. destruct (ctOn (ctl s)); reflexivity. Qed.
Lemma en1_W32 s v : en1 (WriteNR32 s v) = en1 s.
Proof. unfold en1, WriteNR32, sq_write_nrx2. destruct (ctOn (ctl s)); reflexivity. Qed.
Lemma en2_W32 s v : en2 (WriteNR32 s v) = en2 s.
Proof. unfold en2, WriteNR32, sq_write_nrx2. destruct (ctOn (ctl s)); reflexivity. Qed.
Lemma en4_W32 s v : en4 (WriteNR32 s v) = en4 s.
Proof. unfold en4, WriteNR32, sq_write_nrx2. destruct (ctOn (ctl s)); reflexivity. Qed.
Lemma en1_W33 s v : en1 (WriteNR33 s v) = en1 s.
Proof. unfold en1, WriteNR33, sq_write_nrx2. destruct (ctOn (ctl s)); reflexivity. Qed.
Lemma en2_W33 s v : en2 (WriteNR33 s v) = en2 s.
Proof. unfold en2, WriteNR33, sq_write_nrx2. destruct (ctOn (ctl s)); reflexivity. Qed.
Lemma en4_W33 s v : en4 (WriteNR33 s v) = en4 s.
Proof. unfold en4, WriteNR33, sq_write_nrx2. destruct (ctOn (ctl s)); reflexivity. Qed.
Lemma en1_W34 s v : en1 (WriteNR34 s v) = en1 s.
Proof. unfold en1, WriteNR34, sq_write_nrx2. destruct (ctOn (ctl s)); reflexivity. Qed.
Lemma en2_W34 s v : en2 (WriteNR34 s v) = en2 s.
Proof. unfold en2, WriteNR34, sq_write_nrx2. destruct (ctOn (ctl s)); reflexivity. Qed.
Lemma en4_W34 s v : en4 (WriteNR34 s v) = en4 s.
Proof. unfold en4, WriteNR34, sq_write_nrx2. destruct (ctOn (ctl s)); reflexivity. Qed.
Lemma en1_W41 s v : en1 (WriteNR41 s v) = en1 s.
Proof. unfold en1, WriteNR41, sq_write_nrx2. destruct (ctOn (ctl s)); reflexivity. Qed.
Lemma en2_W41 s v : en2 (WriteNR41 s v) = en2 s.
Proof. unfold en2, WriteNR41, sq_write_nrx2. destruct (ctOn (ctl s)); reflexivity. Qed.
Lemma en3_W41 s v : en3 (WriteNR41 s v) = en3 s.
Proof. unfold en3, WriteNR41, sq_write_nrx2. destruct (ctOn (ctl s)); reflexivity. Qed.
Lemma en1_W42 s v : en1 (WriteNR42 s v) = en1 s.
Proof. unfold en1, WriteNR42, sq_write_nrx2. destruct (ctOn (ctl s)); reflexivity. Qed.
Lemma en2_W42 s v : en2 (WriteNR42 s v) = en2 s.
Proof. unfold en2, WriteNR42, sq_write_nrx2. destruct (ctOn (ctl s)); reflexivity. Qed.
Lemma en3_W42 s v : en3 (WriteNR42 s v) = en3 s.
Proof. unfold en3, WriteNR42, sq_write_nrx2. destruct (ctOn (ctl s)); reflexivity. Qed.
Lemma en1_W43 s v : en1 (WriteNR43 s v) = en1 s.
Proof. unfold en1, WriteNR43, sq_write_nrx2. destruct (ctOn (ctl s)); reflexivity. Qed.
Lemma en2_W43 s v : en2 (WriteNR43 s v) = en2 s.
Proof. unfold en2, WriteNR43, sq_write_nrx2. destruct (ctOn (ctl s)); reflexivity. Qed.
Lemma en3_W43 s v : en3 (WriteNR43 s v) = en3 s.
Proof. unfold en3, WriteNR43, sq_write_nrx2. destruct (ctOn (ctl s)); reflexivity. Qed.
Lemma en1_W44 s v : en1 (WriteNR44 s v) = en1 s.
Proof. unfold en1, WriteNR44, sq_write_nrx2. destruct (ctOn (ctl s)); reflexivity. Qed.
Lemma en2_W44 s v : en2 (WriteNR44 s v) = en2 s.
Proof. unfold en2, WriteNR44, sq_write_nrx2. destruct (ctOn (ctl s)); reflexivity. Qed.
Lemma en3_W44 s v : en3 (WriteNR44 s v) = en3 s.
Proof. unfold en3, WriteNR44, sq_write_nrx2. destruct (ctOn (ctl s)); reflexivity. Qed.
Lemma en1_W50 s v : en1 (WriteNR50 s v) = en1 s.
Proof. unfold en1, WriteNR50, sq_write_nrx2. destruct (ctOn (ctl s)); reflexivity. Qed.
Lemma en2_W50 s v : en2 (WriteNR50 s v) = en2 s.
Proof. unfold en2, WriteNR50, sq_write_nrx2. destruct (ctOn (ctl s)); reflexivity. Qed.
Lemma en3_W50 s v : en3 (WriteNR50 s v) = en3 s.
Proof. unfold en3, WriteNR50, sq_write_nrx2. destruct (ctOn (ctl s)); reflexivity. Qed.
Lemma en4_W50 s v : en4 (WriteNR50 s v) = en4 s.
Proof. unfold en4, WriteNR50, sq_write_nrx2. destruct (ctOn (ctl s)); reflexivity. Qed.
Lemma en1_W51 s v : en1 (WriteNR51 s v) = en1 s.
Proof. unfold en1, WriteNR51, sq_write_nrx2. destruct (ctOn (ctl s)); reflexivity. Qed.
Lemma en2_W51 s v : en2 (WriteNR51 s v) = en2 s.
Proof. unfold en2, WriteNR51, sq_write_nrx2. destruct (ctOn (ctl s)); reflexivity. Qed.
Lemma en3_W51 s v : en3 (WriteNR51 s v) = en3 s.
Proof. unfold en3, WriteNR51, sq_write_nrx2. destruct (ctOn (ctl s)); reflexivity. Qed.
Lemma en4_W51 s v : en4 (WriteNR51 s v) = en4 s.
Proof. unfold en4, WriteNR51, sq_write_nrx2. destruct (ctOn (ctl s)); reflexivity. Qed.

#[export] Hint Rewrite en2_W10 en3_W10 en4_W10 en2_W11 en3_W11 en4_W11 en2_W12 en3_W12 en4_W12 en2_W13 en3_W13 en4_W13 en2_W14 en3_W14 en4_W14 en1_W21 en3_W21 en4_W21 en1_W22 en3_W22 en4_W22 en1_W23 en3_W23 en4_W23 en1_W24 en3_W24 en4_W24 en1_W30 en2_W30 en4_W30 en1_W31 en2_W31 en4_W31 en1_W32 en2_W32 en4_W32 en1_W33 en2_W33 en4_W33 en1_W34 en2_W34 en4_W34 en1_W41 en2_W41 en3_W41 en1_W42 en2_W42 en3_W42 en1_W43 en2_W43 en3_W43 en1_W44 en2_W44 en3_W44 en1_W50 en2_W50 en3_W50 en4_W50 en1_W51 en2_W51 en3_W51 en4_W51 en1_W10 en1_W11 en1_W12 en1_W13 en1_W14 en2_W21 en2_W22 en2_W23 en2_W24 en3_W30 en3_W31 en3_W32 en3_W33 en3_W34 en4_W41 en4_W42 en4_W43 en4_W44 : apu_en.

Lemma en_WWave s a v :
  en1 (WriteWaveRAM s a v) = en1 s /\ en2 (WriteWaveRAM s a v) = en2 s /\
  en3 (WriteWaveRAM s a v) = en3 s /\ en4 (WriteWaveRAM s a v) = en4 s.
Proof.
  destruct (frame_WWave s a v) as (H1 & H2 & H4 & _ & _ & _ & _ & _ & H3 & _).
  unfold en1, en2, en4. rewrite H1, H2, H4. repeat split; try reflexivity. exact H3.
Qed.

(* ------------------------------------------------------------------------------------------------- *)
(* the exact effect of any bus write on any status flag *)
Inductive chan := Ch1 | Ch2 | Ch3 | Ch4.

Definition en (c : chan) (s : apu) : bool :=
  match c with Ch1 => en1 s | Ch2 => en2 s | Ch3 => en3 s | Ch4 => en4 s end.
Definition dac (c : chan) (s : apu) : bool :=
  match c with Ch1 => sqDac (ch1 s) | Ch2 => sqDac (ch2 s) | Ch3 => wvDac (ch3 s) | Ch4 => nsDac (ch4 s) end.
Definition trig_addr (c : chan) : N :=
  match c with Ch1 => 0xFF14 | Ch2 => 0xFF19 | Ch3 => 0xFF1E | Ch4 => 0xFF23 end.
Definition dac_addr (c : chan) : N :=
  match c with Ch1 => 0xFF12 | Ch2 => 0xFF17 | Ch3 => 0xFF1A | Ch4 => 0xFF21 end.
Definition len_addr (c : chan) : N :=
  match c with Ch1 => 0xFF11 | Ch2 => 0xFF16 | Ch3 => 0xFF1B | Ch4 => 0xFF20 end.
Definition dac_value_on (c : chan) (v : N) : bool :=
  match c with Ch3 => trig_bit v | _ => dacv v end.
Definition len_enabled (c : chan) (s : apu) : bool :=
  match c with Ch1 => sqLenEn (ch1 s) | Ch2 => sqLenEn (ch2 s) | Ch3 => wvLenEn (ch3 s) | Ch4 => nsLenEn (ch4 s) end.
Definition len_counter (c : chan) (s : apu) : N :=
  match c with Ch1 => sqLength (ch1 s) | Ch2 => sqLength (ch2 s) | Ch3 => wvLength (ch3 s) | Ch4 => nsLength (ch4 s) end.

(* the extra length clock of an NRx4 write that empties the counter *)
Definition extra_expires (c : chan) (s : apu) (v : N) : bool :=
  match c with
  | Ch3 => extra_expires16 (wvLenEn (ch3 s)) (wvLength (ch3 s)) v (odd_seq s)
  | _ => extra_expires8 (len_enabled c s) (len_counter c s) v (odd_seq s)
  end.
Definition trigger_overflow (c : chan) (s : apu) (v : N) : bool :=
  match c with Ch1 => trig_overflows (nr14_freq s v) (sw1 s) | _ => false end.
Definition negate_exit (c : chan) (s : apu) (a v : N) : bool :=
  match c with
  | Ch1 => (a =? 0xFF10) && is_on s && (N.land (N.shiftr v 3) 1 =? 0) && swDescending (sw1 s)
  | _ => false
  end.

Definition on_cause (c : chan) (s : apu) (a v : N) : bool :=
  (a =? trig_addr c) && is_on s && trig_bit v && dac c s && negb (trigger_overflow c s v).

Definition off_cause (c : chan) (s : apu) (a v : N) : bool :=
  ((a =? dac_addr c) && is_on s && negb (dac_value_on c v)) ||
  ((a =? 0xFF26) && (N.shiftr v 7 =? 0)) ||
  ((a =? trig_addr c) && is_on s &&
   (if trig_bit v then negb (dac c s) || trigger_overflow c s v else extra_expires c s v)) ||
  negate_exit c s a v.


Theorem status_write_exact c s a v :
  en c (apu_bus_write s a v) = (en c s && negb (off_cause c s a v)) || on_cause c s a v.
Proof.
  destruct c; unfold on_cause, off_cause, negate_exit, trigger_overflow, extra_expires, dac_value_on,
    len_enabled, len_counter; cbn [en dac trig_addr dac_addr];
    addr_chain; cbn [N.eqb Pos.eqb andb orb negb];
    try (autorewrite with apu_en;
         repeat match goal with |- context [if ?b then _ else _] => destruct b end;
         cbn [andb orb negb]; btauto).
  all: try (destruct (N.shiftr v 7 =? 0) eqn:E7;
            [destruct (en_W52_off s v E7) as (H1 & H2 & H3 & H4) | destruct (en_W52_on s v E7) as (H1 & H2 & H3 & H4)];
            rewrite ?H1, ?H2, ?H3, ?H4; cbn [andb orb negb]; btauto).
  all: destruct (en_WWave s a v) as (H1 & H2 & H3 & H4);
       repeat match goal with |- context [if ?b then _ else _] => destruct b end;
       rewrite ?H1, ?H2, ?H3, ?H4; cbn [andb orb negb]; btauto.
Qed.

(* ------------------------------------------------------------------------------------------------- *)
(* corollaries in the form of the statement *)
Theorem on_only_by_trigger c s a v :
  en c s = false -> en c (apu_bus_write s a v) = true ->
  a = trig_addr c /\ trig_bit v = true /\ is_on s = true /\ dac c s = true /\ trigger_overflow c s v = false.
Proof.
  intros H0 H1. rewrite status_write_exact, H0 in H1. cbn [andb orb] in H1. unfold on_cause in H1.
  repeat (apply andb_prop in H1; destruct H1 as [H1 ?]).
  apply N.eqb_eq in H1. repeat split; try assumption. destruct (trigger_overflow c s v); [discriminate|reflexivity].
Qed.

Theorem off_only_by_cause c s a v :
  en c s = true -> en c (apu_bus_write s a v) = false -> off_cause c s a v = true.
Proof.
  intros H0 H1. rewrite status_write_exact, H0 in H1.
  destruct (off_cause c s a v); [reflexivity|]. cbn in H1. discriminate.
Qed.

Definition expire (c : chan) (s : apu) : bool :=
  match c with Ch1 => exp1 s | Ch2 => exp2 s | Ch3 => exp3 s | Ch4 => exp4 s end.
Definition sweep_kill (c : chan) (s : apu) : bool :=
  match c with Ch1 => sweep_clock s && sweep_overflows (sw1 s) | _ => false end.

Theorem status_clock_exact c s :
  en c (fst (apu_tick_clock s)) = en c s && negb (len_clock s && expire c s) && negb (sweep_kill c s).
Proof.
  destruct (tick_clock_en s) as (H1 & H2 & H3 & H4).
  destruct c; cbn [en expire sweep_kill negb]; rewrite ?H1, ?H2, ?H3, ?H4; try reflexivity; btauto.
Qed.

Theorem clock_never_switches_on c s : en c (fst (apu_tick_clock s)) = true -> en c s = true.
Proof. rewrite status_clock_exact. intros H. destruct (en c s); [reflexivity|discriminate]. Qed.

Lemma en_clear_triggered c s : en c (clear_triggered s) = en c s.
Proof. destruct c; reflexivity. Qed.

Theorem cycle_never_switches_on c s : en c (fst (apu_end_machine_cycle s)) = true -> en c s = true.
Proof.
  rewrite end_cycle_unfold, en_clear_triggered. intros H.
  repeat apply clock_never_switches_on in H. exact H.
Qed.

(* ------------------------------------------------------------------------------------------------- *)
(* NR52 (for C18): 0x70 | power<<7 | status, and no status bit while powered off *)
Definition status_bits (s : apu) : N := 8 * b2n (en4 s) + 4 * b2n (en3 s) + 2 * b2n (en2 s) + b2n (en1 s).

Lemma read_nr52 s : apu_bus_read s 0xFF26 = 0x70 + 0x80 * b2n (is_on s) + status_bits s.
Proof.
  unfold apu_bus_read. cbn [N.eqb Pos.eqb]. unfold ReadNR52, status_bits, is_on, en1, en2, en3, en4.
  destruct (ctOn (ctl s)), (nsEnabled (ch4 s)), (wvEnabled (ch3 s)), (sqEnabled (ch2 s)), (sqEnabled (ch1 s));
    reflexivity.
Qed.

Lemma status_bits_lt s : status_bits s < 16.
Proof. unfold status_bits. destruct (en4 s), (en3 s), (en2 s), (en1 s); cbn; lia. Qed.

Lemma is_on_write s a v :
  is_on (apu_bus_write s a v) = if a =? 0xFF26 then negb (N.shiftr v 7 =? 0) else is_on s.
Proof.
  addr_chain; cbn [N.eqb Pos.eqb].
  1-20: (unfold WriteNR10, WriteNR11, WriteNR12, WriteNR13, WriteNR14, WriteNR21, WriteNR22, WriteNR23, WriteNR24,
           WriteNR30, WriteNR31, WriteNR32, WriteNR33, WriteNR34, WriteNR41, WriteNR42, WriteNR43, WriteNR44,
           WriteNR50, WriteNR51, sq_write_nrx2, is_on;
         destruct (ctOn (ctl s)) eqn:E; psimpl; try reflexivity; exact E).
  - unfold WriteNR52, is_on. destruct (N.shiftr v 7 =? 0); reflexivity.
  - destruct (N.eqb_spec a 0xFF26); [contradiction|].
    repeat match goal with |- context [if ?b then _ else _] => destruct b end; try reflexivity.
    apply (frame_WWave s a v).
Qed.

Definition quiet_when_off (s : apu) : Prop :=
  is_on s = false -> en1 s = false /\ en2 s = false /\ en3 s = false /\ en4 s = false.

Lemma quiet_init att : quiet_when_off (apu_new att).
Proof. intros H. destruct att; vm_compute in H; discriminate. Qed.

Lemma quiet_step s o : quiet_when_off s -> quiet_when_off (apu_step s o).
Proof.
  intros Hq. destruct o as [a v|]; cbn [apu_step]; intros Hoff.
  - rewrite is_on_write in Hoff.
    destruct (N.eqb_spec a 0xFF26) as [->|Hne].
    + destruct (N.shiftr v 7 =? 0) eqn:E7; [|discriminate]. exact (en_W52_off s v E7).
    + destruct (Hq Hoff) as (H1 & H2 & H3 & H4).
      pose proof (status_write_exact Ch1 s a v) as X1. pose proof (status_write_exact Ch2 s a v) as X2.
      pose proof (status_write_exact Ch3 s a v) as X3. pose proof (status_write_exact Ch4 s a v) as X4.
      unfold on_cause in *. cbn [en] in *. rewrite Hoff in *. rewrite H1 in X1. rewrite H2 in X2.
      rewrite H3 in X3. rewrite H4 in X4.
      rewrite Bool.andb_false_r in *. cbn [andb orb] in *. auto.
  - assert (Hon : is_on (fst (apu_end_machine_cycle s)) = is_on s).
    { unfold is_on. rewrite ctl_end_cycle. reflexivity. }
    rewrite Hon in Hoff. destruct (Hq Hoff) as (H1 & H2 & H3 & H4).
    repeat split.
    + destruct (en1 (fst (apu_end_machine_cycle s))) eqn:E; [|reflexivity].
      apply (cycle_never_switches_on Ch1) in E. cbn [en] in E. congruence.
    + destruct (en2 (fst (apu_end_machine_cycle s))) eqn:E; [|reflexivity].
      apply (cycle_never_switches_on Ch2) in E. cbn [en] in E. congruence.
    + destruct (en3 (fst (apu_end_machine_cycle s))) eqn:E; [|reflexivity].
      apply (cycle_never_switches_on Ch3) in E. cbn [en] in E. congruence.
    + destruct (en4 (fst (apu_end_machine_cycle s))) eqn:E; [|reflexivity].
      apply (cycle_never_switches_on Ch4) in E. cbn [en] in E. congruence.
Qed.

Lemma quiet_run ops : forall s, quiet_when_off s -> quiet_when_off (apu_run s ops).
Proof.
  induction ops as [|o ops IH]; intros s Hq; cbn [apu_run fold_left]; [exact Hq|].
  apply IH, quiet_step, Hq.
Qed.

Theorem nr52_value att ops :
  let s := apu_run (apu_new att) ops in
  apu_bus_read s 0xFF26 = 0x70 + 0x80 * b2n (is_on s) + status_bits s /\
  status_bits s < 16 /\ (is_on s = false -> apu_bus_read s 0xFF26 = 0x70).
Proof.
  intros s. split; [apply read_nr52|]. split; [apply status_bits_lt|].
  intros Hoff. rewrite read_nr52, Hoff.
  destruct (quiet_run ops _ (quiet_init att) Hoff) as (H1 & H2 & H3 & H4).
  unfold status_bits. subst s. rewrite H1, H2, H3, H4. reflexivity.
Qed.

(* ------------------------------------------------------------------------------------------------- *)
(* C19: the sweep calculation a channel-1 trigger performs, in documented terms *)
Lemma nr14_freq_lt s v : sqFreq (nr14_freq s v) < 2048.
Proof.
  unfold nr14_freq. psimpl.
  change 0x00ff with (N.ones 8). change 7 with (N.ones 3). rewrite !N.land_ones, N.shiftl_mul_pow2.
  change (2 ^ 8) with 256. change (2 ^ 3) with 8.
  assert (Ha : sqFreq (ch1 s) mod 256 < 256) by (apply N.mod_lt; discriminate).
  assert (Hk : v mod 8 < 8) by (apply N.mod_lt; discriminate).
  set (a := sqFreq (ch1 s) mod 256) in *. set (k := v mod 8) in *.
  (* a < 2^8 and k * 2^8 have disjoint bits: the OR is below 2^11 *)
  assert (H : N.lor a (k * 256) < 2 ^ 11).
  { destruct (N.eq_dec (N.lor a (k * 256)) 0) as [->|Hne]; [reflexivity|].
    apply N.log2_lt_pow2; [lia|]. rewrite N.log2_lor.
    apply N.max_lub_lt.
    - destruct (N.eq_dec a 0) as [->|Ha0]; [reflexivity|]. apply N.log2_lt_pow2; lia.
    - destruct (N.eq_dec (k * 256) 0) as [->|Hk0]; [reflexivity|]. apply N.log2_lt_pow2; lia. }
  exact H.
Qed.

Definition sweep_calc_overflows (f shift : N) (increase : bool) : bool :=
  (0 <? shift) && increase && (2047 <? f + f / 2 ^ shift).

Theorem trigger_overflow_spec s v :
  trigger_overflow Ch1 s v =
  sweep_calc_overflows (sqFreq (nr14_freq s v)) (swShift (sw1 s)) (swIncrease (sw1 s)).
Proof.
  cbn [trigger_overflow]. unfold trig_overflows, sweep_calc_overflows, calc_nf, trig_sweep. psimpl.
  pose proof (nr14_freq_lt s v) as Hf. set (f := sqFreq (nr14_freq s v)) in *.
  destruct (0 <? swShift (sw1 s)); cbn [andb]; [|reflexivity].
  rewrite N.shiftr_div_pow2.
  assert (Hd : f / 2 ^ swShift (sw1 s) <= f) by (apply N.div_le_upper_bound; [apply N.pow_nonzero; discriminate|];
    pose proof (N.pow_nonzero 2 (swShift (sw1 s)) ltac:(discriminate)); set (p := 2 ^ swShift (sw1 s)) in *; nia).
  set (d := f / 2 ^ swShift (sw1 s)) in *.
  destruct (swIncrease (sw1 s)); cbn [andb].
  - unfold add16. rewrite N.mod_small by (clearbody d f; clear - Hf Hd; lia). reflexivity.
  - unfold add16, sub16.
    assert (E : (f + (0 + 65536 - d mod 65536) mod 65536) mod 65536 = f - d) by (clearbody d f; clear - Hf Hd; lia).
    rewrite E. apply N.ltb_ge. clearbody d f. clear - Hf Hd. lia.
Qed.

(* C19: a trigger of channel 1 whose immediate sweep calculation overflows leaves the channel off (and it turns
   on exactly when the DAC is on and the calculation does not overflow) - from every state *)
Theorem trigger_sweep_overflow s v :
  is_on s = true -> trig_bit v = true ->
  en1 (apu_bus_write s 0xFF14 v) =
  sqDac (ch1 s) && negb (sweep_calc_overflows (sqFreq (nr14_freq s v)) (swShift (sw1 s)) (swIncrease (sw1 s))).
Proof.
  intros Hon Ht. change (apu_bus_write s 0xFF14 v) with (WriteNR14 s v).
  rewrite en1_W14, Hon, Ht. rewrite <- trigger_overflow_spec. reflexivity.
Qed.

(* ------------------------------------------------------------------------------------------------- *)
(* C19: the sweep clock in documented terms *)
Lemma calc_nf_spec w :
  swShadow w < 2048 ->
  calc_nf w = if swIncrease w then swShadow w + swShadow w / 2 ^ swShift w
              else swShadow w - swShadow w / 2 ^ swShift w.
Proof.
  intros Hf. unfold calc_nf. rewrite N.shiftr_div_pow2.
  assert (Hd : swShadow w / 2 ^ swShift w <= swShadow w).
  { apply N.div_le_upper_bound; [apply N.pow_nonzero; discriminate|].
    pose proof (N.pow_nonzero 2 (swShift w) ltac:(discriminate)). set (p := 2 ^ swShift w) in *. nia. }
  set (f := swShadow w) in *. set (d := f / 2 ^ swShift w) in *.
  destruct (swIncrease w); unfold add16, sub16; clearbody d f; clear - Hf Hd; lia.
Qed.

(* one step of the documented frequency calculation *)
Definition sweep_next (f shift : N) (increase : bool) : N :=
  if increase then f + f / 2 ^ shift else f - f / 2 ^ shift.

(* A sweep clock switches channel 1 off exactly when the sweep unit is enabled, its timer expires, the period is not
   0, and either the new frequency f' = f +/- (f >> s) exceeds 2047, or it fits, the shift is not 0 and the
   calculation repeated with f' exceeds 2047 (the overflow re-check after the write-back) *)
Theorem sweep_overflows_spec w :
  swShadow w < 2048 ->
  sweep_overflows w =
  swEnabled w && (sub8 (swTimer w) 1 =? 0) && negb (swPeriod w =? 0) &&
  (let f1 := sweep_next (swShadow w) (swShift w) (swIncrease w) in
   (2047 <? f1) || ((f1 <? 2048) && (0 <? swShift w) && (2047 <? sweep_next f1 (swShift w) (swIncrease w)))).
Proof.
  intros Hf. unfold sweep_overflows. cbv zeta.
  set (w0 := set_swTimer (set_swTimer w (sub8 (swTimer w) 1)) (swPeriod w)).
  assert (H0 : calc_nf w0 = sweep_next (swShadow w) (swShift w) (swIncrease w))
    by (rewrite (calc_nf_spec w0 Hf); reflexivity).
  rewrite H0. set (f1 := sweep_next (swShadow w) (swShift w) (swIncrease w)).
  change (swShift w0) with (swShift w).
  destruct (f1 <? 2048) eqn:E1; cbn [andb]; [|reflexivity].
  assert (H1 : calc_nf (set_swShadow (calc_w w0) f1) = sweep_next f1 (swShift w) (swIncrease w)).
  { assert (Hs : swShadow (set_swShadow (calc_w w0) f1) < 2048) by (psimpl; lia).
    rewrite (calc_nf_spec _ Hs). psimpl.
    assert (Hc : swShift (calc_w w0) = swShift w0 /\ swIncrease (calc_w w0) = swIncrease w0)
      by (unfold calc_w; destruct (swIncrease w0) eqn:Ei; split; try reflexivity; exact Ei).
    destruct Hc as [-> ->]. reflexivity. }
  rewrite H1. reflexivity.
Qed.

(* in subtraction mode neither calculation can overflow *)
Lemma div_pow_le x k : x / 2 ^ k <= x.
Proof.
  apply N.div_le_upper_bound; [apply N.pow_nonzero; discriminate|].
  pose proof (N.pow_nonzero 2 k ltac:(discriminate)). set (p := 2 ^ k) in *. nia.
Qed.

Lemma sweep_no_overflow_when_subtracting w :
  swShadow w < 2048 -> swIncrease w = false -> sweep_overflows w = false.
Proof.
  intros Hf Hi. rewrite (sweep_overflows_spec w Hf). cbv zeta. unfold sweep_next. rewrite Hi.
  pose proof (div_pow_le (swShadow w) (swShift w)) as D1.
  set (d1 := swShadow w / 2 ^ swShift w) in *.
  pose proof (div_pow_le (swShadow w - d1) (swShift w)) as D2.
  set (d2 := (swShadow w - d1) / 2 ^ swShift w) in *.
  assert (E1 : (2047 <? swShadow w - d1) = false) by (apply N.ltb_ge; clearbody d1 d2; clear - Hf D1; lia).
  assert (E2 : (2047 <? swShadow w - d1 - d2) = false) by (apply N.ltb_ge; clearbody d1 d2; clear - Hf D1 D2; lia).
  rewrite E1, E2. cbn [orb]. rewrite !Bool.andb_false_r. reflexivity.
Qed.

(* C19: with sweep period 0 the unit never recalculates: a sweep clock neither switches the channel off nor touches
   the frequency or the shadow register (only the unit's timer moves) - for every state of channel and unit *)
Theorem sweep_period0_inert c w :
  swPeriod w = 0 ->
  sweep_overflows w = false /\
  fst (ch1_tick_sweep c w) = c /\
  swShadow (snd (ch1_tick_sweep c w)) = swShadow w /\ swPeriod (snd (ch1_tick_sweep c w)) = 0.
Proof.
  intros Hp. split.
  - unfold sweep_overflows. rewrite Hp. cbn [N.eqb negb]. rewrite Bool.andb_false_r. reflexivity.
  - unfold ch1_tick_sweep. destruct (swEnabled w); [|repeat split; try reflexivity; exact Hp]. psimpl.
    destruct (sub8 (swTimer w) 1 =? 0); [|repeat split; try reflexivity; exact Hp].
    rewrite Hp. cbn [N.eqb]. psimpl. repeat split; try reflexivity; exact Hp.
Qed.
