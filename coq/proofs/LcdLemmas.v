(* LcdLemmas.v — the model's EndMachineCycle expressed through a pure transition function on
   (mode, ticks), and that function related to the closed forms of LcdSpec by finite sweeps over the
   17,556 positions of a frame. *)
From V.lib Require Import Bits Mem Res.
From V.model Require Import Oam PpuTiming.
From V.spec Require Import LcdSpec.
From Coq Require Import ZArith ZifyN ZifyNat ZifyBool.

(* ---------- arithmetic of [pos] ---------- *)
Lemma pos_lt k : pos k < 17556.
Proof. unfold pos, frame_len. destruct (k <=? 62) eqn:E; lia. Qed.

Lemma pos_succ k : 1 <= k -> k <> 62 -> pos (k + 1) = (pos k + 1) mod 17556.
Proof.
  intros Hk Hne. unfold pos, frame_len.
  destruct (k <=? 62) eqn:E1; destruct (k + 1 <=? 62) eqn:E2; try lia.
Qed.

Lemma pos_1 : pos 1 = 0. Proof. reflexivity. Qed.
Lemma pos_62 : pos 62 = 61. Proof. reflexivity. Qed.
Lemma pos_63 : pos 63 = 64. Proof. reflexivity. Qed.

(* ---------- the transition of EndMachineCycle's first switch, on numbers ---------- *)
Record swr := mkSw {
  sw_mode : N;       (* new mode *)
  sw_vbl : bool;     (* line 144 begins: VBlank request *)
  sw_hbl : bool;     (* mode 0 entered *)
  sw_oam : bool;     (* mode 2 entered from mode 0 or 1 *)
  sw_act : N         (* 0: OAM window untouched, 1: EnterMode2, 2: ExitMode2 *)
}.

Definition sw (m t : N) : swr :=
  let ly := t / 114 in
  let tl := t mod 114 in
  match m with
  | 2 => if tl =? 20 then mkSw 3 false false false 2 else mkSw 2 false false false 0
  | 3 => if tl =? 61 then mkSw 0 false true false 0 else mkSw 3 false false false 0
  | 0 => if tl =? 0
         then (if ly =? 144 then mkSw 1 true false false 0 else mkSw 2 false false true 1)
         else mkSw 0 false false false 0
  | _ => if t =? 0 then mkSw 2 false false true 1 else mkSw 1 false false false 0
  end.

Definition act (a : N) (o : oam) : oam :=
  match a with 1 => oam_enter_mode2 o | 2 => oam_exit_mode2 o | _ => o end.

Definition req1 (r : swr) (st : stat_flags) : N :=
  if sw_vbl r then N.lor IF_VBLANK (if vblankInterrupt st then IF_STAT else 0)
  else if sw_hbl r then (if hblankInterrupt st then IF_STAT else 0)
  else if sw_oam r then (if oamInterrupt st then IF_STAT else 0)
  else 0.

Lemma mode_switch_sw p o :
  p_mode p < 4 -> p_ticks p < 17556 ->
  mode_switch p o (u8 (p_ticks p / 114)) (u8 (p_ticks p mod 114)) =
  Ok (sw_mode (sw (p_mode p) (p_ticks p)), act (sw_act (sw (p_mode p) (p_ticks p))) o,
      req1 (sw (p_mode p) (p_ticks p)) (p_stat p)).
Proof.
  intros Hm Ht.
  rewrite !u8_id by lia.
  unfold mode_switch, sw.
  assert (Hc : p_mode p = 0 \/ p_mode p = 1 \/ p_mode p = 2 \/ p_mode p = 3) by lia.
  destruct Hc as [E|[E|[E|E]]]; rewrite E; cbv beta iota zeta.
  - destruct (p_ticks p mod 114 =? 0); [destruct (p_ticks p / 114 =? 144)|]; reflexivity.
  - destruct (p_ticks p =? 0); reflexivity.
  - destruct (p_ticks p mod 114 =? 20); reflexivity.
  - destruct (p_ticks p mod 114 =? 61); reflexivity.
Qed.

(* ---------- sweep: the transition follows the frame schedule at every position ---------- *)
Definition nxt (p : N) : N := (p + 1) mod 17556.

Definition sw_check (p : N) : bool :=
  let t := nxt p in
  let r := sw (mode_at p) t in
  (sw_mode r =? mode_at t)
  && Bool.eqb (sw_vbl r) (t =? vblank_start)
  && Bool.eqb (sw_hbl r) ((dot_of t =? 61) && (line_of t <? 144))
  && Bool.eqb (sw_oam r) ((dot_of t =? 0) && (line_of t <? 144))
  && (sw_act r =? (if (mode_at p =? 2) && (mode_at t =? 3) then 2
                   else if negb (mode_at p =? 2) && (mode_at t =? 2) then 1 else 0))
  && (if mode_at t =? 2 then dot_of t <? 20 else true).

Definition frame_positions : list N := upto (N.to_nat 17556).

Lemma sw_sweep : forallb sw_check frame_positions = true.
Proof. vm_compute. reflexivity. Qed.

Lemma sw_at p : p < 17556 -> sw_check p = true.
Proof.
  intros Hp. apply (sweep_upto _ _ sw_sweep). rewrite N2Nat.id. exact Hp.
Qed.

(* the same facts along k: tick number k+1 moves the mode from [spec_mode k] to [spec_mode (k+1)] and
   raises exactly the events of the closed forms *)
Lemma sw_k k :
  let r := sw (spec_mode k) (pos (k + 1)) in
  sw_mode r = spec_mode (k + 1)
  /\ sw_vbl r = vblank_instant (k + 1)
  /\ sw_hbl r = hblank_instant (k + 1)
  /\ sw_oam r = oam_instant (k + 1) && negb (k + 1 =? 1)
  /\ sw_act r = (if (spec_mode k =? 2) && (spec_mode (k + 1) =? 3) then 2
                 else if negb (spec_mode k =? 2) && (spec_mode (k + 1) =? 2) then 1 else 0)
  /\ (spec_mode (k + 1) = 2 -> dot_of (pos (k + 1)) < 20).
Proof.
  destruct (N.eq_dec k 0) as [->|H0].
  { cbv zeta. repeat split; try (vm_compute; reflexivity). }
  destruct (N.eq_dec k 62) as [->|H62].
  { cbv zeta. repeat split; try (vm_compute; reflexivity). intros E; vm_compute in E; discriminate. }
  cbv zeta.
  assert (Hk : spec_mode k = mode_at (pos k)).
  { unfold spec_mode. destruct (k =? 0) eqn:E; [lia|reflexivity]. }
  assert (Hk1 : spec_mode (k + 1) = mode_at (pos (k + 1))).
  { unfold spec_mode. destruct (k + 1 =? 0) eqn:E; [lia|reflexivity]. }
  assert (Hn1 : negb (k + 1 =? 1) = true) by (destruct (k + 1 =? 1) eqn:E; [lia|reflexivity]).
  rewrite Hk, Hk1, Hn1, Bool.andb_true_r.
  unfold vblank_instant, hblank_instant, oam_instant.
  rewrite (pos_succ k) by lia.
  pose proof (sw_at (pos k) (pos_lt k)) as C. unfold sw_check in C. fold (nxt (pos k)) .
  cbv zeta in C.
  repeat (apply andb_prop in C; destruct C as [C ?]).
  unfold vblank_instant, hblank_instant, oam_instant.
  repeat split.
  - apply N.eqb_eq; assumption.
  - apply Bool.eqb_prop; assumption.
  - apply Bool.eqb_prop; assumption.
  - apply Bool.eqb_prop; assumption.
  - apply N.eqb_eq; assumption.
  - intros E. rewrite E in *. cbn in *. lia.
Qed.

(* ---------- the object scan of mode 2 never leaves OAM and records its last address ---------- *)
Lemma oam_ppu_read_ok o a :
  0xFE00 <= a -> a < 0xFEA0 ->
  exists v, oam_ppu_read o a = Ok (set_ppuLastAccess o a, v).
Proof.
  intros H1 H2. unfold oam_ppu_read.
  destruct (o_dmaRunning o); [eexists; reflexivity|].
  unfold get8, oam_size, sub16.
  assert (E : ((a + 65536 - 65024 mod 65536) mod 65536 <? 160) = true) by lia.
  change 0xFE00 with 65024. rewrite E. eexists; reflexivity.
Qed.

Lemma check_sprite_ok p o s :
  s < 40 ->
  exists ovl, check_overlapping_sprite p o s = Ok (set_overlaps p ovl, set_ppuLastAccess o (0xFE00 + 4 * s)).
Proof.
  intros Hs. unfold check_overlapping_sprite.
  assert (Ea : u16 (0xFE00 + u8 (s * 4)) = 0xFE00 + 4 * s) by (unfold u16, u8; lia).
  rewrite Ea.
  destruct (oam_ppu_read_ok o (0xFE00 + 4 * s)) as [v Hv]; [lia|lia|].
  rewrite Hv. cbn [bind].
  assert (E : (s <? 40) = true) by lia. rewrite E.
  eexists; reflexivity.
Qed.

Lemma scan_ok p o tl :
  tl < 20 ->
  exists ovl, check_overlapping_sprites p o tl =
              Ok (set_overlaps p ovl, set_ppuLastAccess o (0xFE00 + 8 * tl + 4)).
Proof.
  intros Ht. unfold check_overlapping_sprites.
  assert (E1 : u8 (tl * 2) = 2 * tl) by (unfold u8; lia).
  assert (E2 : u8 (u8 (tl * 2) + 1) = 2 * tl + 1) by (unfold u8; lia).
  rewrite E2, E1.
  destruct (check_sprite_ok p o (2 * tl)) as [ov1 H1]; [lia|].
  rewrite H1. cbn [bind].
  destruct (check_sprite_ok (set_overlaps p ov1) (set_ppuLastAccess o (0xFE00 + 4 * (2 * tl))) (2 * tl + 1))
    as [ov2 H2]; [lia|].
  rewrite H2. exists ov2.
  replace (0xFE00 + 4 * (2 * tl + 1)) with (0xFE00 + 8 * tl + 4) by lia.
  reflexivity.
Qed.

(* ---------- EndMachineCycle as a whole ---------- *)
(* The renderer placeholder: everything below uses only these two facts about [mode3_hook]. *)
Lemma mode3_hook_frame p o lx ly : mode3_hook p o lx ly = Ok (p, o).
Proof. reflexivity. Qed.

Definition tick_ppu (p : ppu) (ovl : Mem.t) : ppu :=
  let t := p_ticks p in
  let r := sw (p_mode p) t in
  let tl := t mod 114 in
  let ly := t / 114 in
  let jump := (sw_mode r =? 0) && p_firstLine p in
  let t1 := (if jump then t + 2 else t) + 1 in
  mkPpu true (p_lcdc p) (p_stat p)
        (if tl =? 0 then ly =? p_lyc p else p_coincidence p)
        (sw_mode r) (p_bgp p) (p_obp0 p) (p_obp1 p)
        ly (p_lyc p) (p_scx p) (p_scy p) (p_wx p) (p_wy p) (p_vram p) ovl
        (if t1 =? 17556 then 0 else t1)
        (if jump then false else p_firstLine p).

Definition tick_oam (p : ppu) (o : oam) : oam :=
  let t := p_ticks p in
  let r := sw (p_mode p) t in
  let o1 := act (sw_act r) o in
  if sw_mode r =? 2 then set_ppuLastAccess o1 (0xFE00 + 8 * (t mod 114) + 4) else o1.

Definition tick_req (p : ppu) : N :=
  let t := p_ticks p in
  let r := sw (p_mode p) t in
  N.lor (req1 r (p_stat p))
        (if (t mod 114 =? 0) && (t / 114 =? p_lyc p) && coincidenceInterrupt (p_stat p) then IF_STAT else 0).

Lemma sw_mode_lt4 m t : sw_mode (sw m t) < 4.
Proof.
  unfold sw.
  cbv zeta.
  repeat match goal with |- context [match ?x with _ => _ end] => destruct x end;
    cbn [sw_mode]; lia.
Qed.

Lemma ppu_tick_on p o :
  p_enabled p = true -> p_mode p < 4 -> p_ticks p < 17556 ->
  (sw_mode (sw (p_mode p) (p_ticks p)) = 2 -> p_ticks p mod 114 < 20) ->
  exists ovl, ppu_tick p o = Ok (tick_ppu p ovl, tick_oam p o, tick_req p).
Proof.
  intros Hen Hm Ht Hscan.
  unfold ppu_tick. rewrite Hen. cbn [negb].
  change (mode_switch (set_ly p (u8 (p_ticks p / 114))) o)
    with (mode_switch p o).
  rewrite mode_switch_sw by assumption.
  cbn [bind].
  unfold tick_ppu, tick_oam, tick_req.
  pose proof (sw_mode_lt4 (p_mode p) (p_ticks p)) as Hlt.
  set (r := sw (p_mode p) (p_ticks p)) in *.
  rewrite !u8_id by lia.
  set (t := p_ticks p) in *.
  assert (Hc : sw_mode r = 0 \/ sw_mode r = 1 \/ sw_mode r = 2 \/ sw_mode r = 3) by lia.
  destruct p as [en lc st co md bgp ob0 ob1 ly lyc scx scy wx wy vram ovl ticks fl].
  cbn [p_enabled p_lcdc p_stat p_coincidence p_mode p_bgp p_obp0 p_obp1 p_ly p_lyc p_scx p_scy p_wx p_wy
       p_vram p_overlaps p_ticks p_firstLine set_ly set_mode set_coincidence set_ticks set_firstLine] in *.
  subst en.
  destruct Hc as [E|[E|[E|E]]]; rewrite E in *; cbv beta iota zeta.
  - (* new mode 0 *)
    exists ovl.
    destruct (t mod 114 =? 0) eqn:E0;
      cbn [p_enabled p_lcdc p_stat p_coincidence p_mode p_bgp p_obp0 p_obp1 p_ly p_lyc p_scx p_scy p_wx p_wy
           p_vram p_overlaps p_ticks p_firstLine set_ly set_mode set_coincidence set_ticks set_firstLine
           andb N.eqb Pos.eqb];
      destruct fl; cbn [bind andb];
      cbn [p_enabled p_lcdc p_stat p_coincidence p_mode p_bgp p_obp0 p_obp1 p_ly p_lyc p_scx p_scy p_wx p_wy
           p_vram p_overlaps p_ticks p_firstLine set_ly set_mode set_coincidence set_ticks set_firstLine];
      reflexivity.
  - exists ovl.
    destruct (t mod 114 =? 0) eqn:E0;
      cbn [p_enabled p_lcdc p_stat p_coincidence p_mode p_bgp p_obp0 p_obp1 p_ly p_lyc p_scx p_scy p_wx p_wy
           p_vram p_overlaps p_ticks p_firstLine set_ly set_mode set_coincidence set_ticks set_firstLine
           andb N.eqb Pos.eqb bind];
      reflexivity.
  - (* new mode 2: the scan *)
    specialize (Hscan eq_refl).
    destruct (t mod 114 =? 0) eqn:E0.
    + match goal with |- context [check_overlapping_sprites ?pp ?oo ?tl] =>
        destruct (scan_ok pp oo tl Hscan) as [ov2 Hs]; rewrite Hs end.
      exists ov2. cbn [bind]. reflexivity.
    + match goal with |- context [check_overlapping_sprites ?pp ?oo ?tl] =>
        destruct (scan_ok pp oo tl Hscan) as [ov2 Hs]; rewrite Hs end.
      exists ov2. cbn [bind]. reflexivity.
  - exists ovl.
    destruct (t mod 114 =? 0) eqn:E0;
      rewrite ?mode3_hook_frame;
      match goal with |- context [if ?c then Ok ?x else Ok ?x] => destruct c end;
      cbn [bind]; reflexivity.
Qed.

(* ---------- the requests of one cycle in closed form ---------- *)
Definition stat_line (k : N) (st : stat_flags) (lyc : N) : bool :=
  (hblankInterrupt st && hblank_instant k)
  || (vblankInterrupt st && vblank_instant k)
  || (oamInterrupt st && (oam_instant k && negb (k =? 1)))
  || (coincidenceInterrupt st && ((dot_of (pos k) =? 0) && (line_of (pos k) =? lyc))).

Definition req_exact (k : N) (st : stat_flags) (lyc : N) : N :=
  b2n (vblank_instant k) + 2 * b2n (stat_line k st lyc).

Lemma instants_exclusive k :
  (vblank_instant k = true -> hblank_instant k = false /\ oam_instant k = false)
  /\ (hblank_instant k = true -> oam_instant k = false).
Proof.
  unfold vblank_instant, hblank_instant, oam_instant, dot_of, line_of, vblank_start, line_len.
  pose proof (pos_lt k). split; intros; [split|]; lia.
Qed.

Lemma tick_req_exact p k :
  p_mode p = spec_mode k -> p_ticks p = pos (k + 1) ->
  tick_req p = req_exact (k + 1) (p_stat p) (p_lyc p).
Proof.
  intros Hm Ht. unfold tick_req. rewrite Hm, Ht.
  destruct (sw_k k) as (_ & Hv & Hh & Ho & _). cbv zeta in *.
  unfold req1, req_exact, stat_line. rewrite Hv, Hh, Ho.
  change (pos (k + 1) mod 114) with (dot_of (pos (k + 1))).
  change (pos (k + 1) / 114) with (line_of (pos (k + 1))).
  destruct (instants_exclusive (k + 1)) as (X1 & X2).
  destruct (p_stat p) as [ci oi vi hi]. cbn [coincidenceInterrupt oamInterrupt vblankInterrupt hblankInterrupt].
  destruct (vblank_instant (k + 1)) eqn:V; destruct (hblank_instant (k + 1)) eqn:Hb;
    destruct (oam_instant (k + 1)) eqn:Oa;
    try (destruct (X1 eq_refl); discriminate); try (specialize (X2 eq_refl); discriminate);
    destruct (negb (k + 1 =? 1));
    destruct (dot_of (pos (k + 1)) =? 0); destruct (line_of (pos (k + 1)) =? p_lyc p);
    destruct ci, oi, vi, hi; reflexivity.
Qed.

Lemma req_exact_bit0 k st lyc : N.testbit (req_exact k st lyc) 0 = vblank_instant k.
Proof. unfold req_exact. destruct (vblank_instant k), (stat_line k st lyc); reflexivity. Qed.
Lemma req_exact_bit1 k st lyc : N.testbit (req_exact k st lyc) 1 = stat_line k st lyc.
Proof. unfold req_exact. destruct (vblank_instant k), (stat_line k st lyc); reflexivity. Qed.
Lemma req_exact_lt k st lyc : req_exact k st lyc < 4.
Proof. unfold req_exact. destruct (vblank_instant k), (stat_line k st lyc); cbn; lia. Qed.

(* ---------- facts about the closed forms themselves ---------- *)
Lemma mode_at_lt4 p : mode_at p < 4.
Proof. unfold mode_at. repeat match goal with |- context [if ?c then _ else _] => destruct c end; lia. Qed.
Lemma spec_mode_lt4 k : spec_mode k < 4.
Proof. unfold spec_mode. destruct (k =? 0); [lia|apply mode_at_lt4]. Qed.
Lemma spec_ly_le k : spec_ly k <= 153.
Proof.
  unfold spec_ly, line_of, line_len. destruct (k =? 0); [lia|]. pose proof (pos_lt k). lia.
Qed.

(* after the first (short) frame the schedule repeats every 17,556 cycles *)
Lemma pos_period k : 63 <= k -> pos (k + 17556) = pos k.
Proof.
  intros Hk. unfold pos, frame_len.
  destruct (k <=? 62) eqn:E1; destruct (k + 17556 <=? 62) eqn:E2; try lia.
Qed.

(* line 0 begins at cycle 1 and then at 17555 + 17556 n: the first frame has 17,554 cycles *)
Lemma frame_starts k : 1 <= k -> (pos k = 0 <-> k = 1 \/ exists n, k = 17555 + 17556 * n).
Proof.
  intros Hk. unfold pos, frame_len. destruct (k <=? 62) eqn:E.
  - split; [intros; left; lia | intros [->|[n ->]]; lia].
  - split.
    + intros H. right. exists ((k + 1) / 17556 - 1). lia.
    + intros [->|[n ->]]; [lia|]. lia.
Qed.

(* line 144 begins exactly once per frame *)
Lemma vblank_instants k : 1 <= k -> (vblank_instant k = true <-> exists n, k = 16415 + 17556 * n).
Proof.
  intros Hk. unfold vblank_instant, pos, frame_len, vblank_start. destruct (k <=? 62) eqn:E.
  - split; [intros; lia | intros [n ->]; lia].
  - split.
    + intros H. exists ((k + 1) / 17556). lia.
    + intros [n ->]. lia.
Qed.

(* ---------- the first-line jump: cycle 62 advances the tick counter by three ---------- *)
Lemma jump_small : forallb (fun k => Bool.eqb (spec_mode (k + 1) =? 0) (k =? 61)) (upto 62) = true.
Proof. vm_compute. reflexivity. Qed.

Lemma jump_iff k : (spec_mode (k + 1) =? 0) && (k <=? 61) = (k =? 61).
Proof.
  destruct (k <=? 61) eqn:E.
  - rewrite Bool.andb_true_r. apply Bool.eqb_prop.
    apply (sweep_upto 62 _ jump_small). lia.
  - rewrite Bool.andb_false_r. lia.
Qed.

Lemma ticks_next k :
  (if (if k =? 61 then pos (k + 1) + 2 else pos (k + 1)) + 1 =? 17556 then 0
   else (if k =? 61 then pos (k + 1) + 2 else pos (k + 1)) + 1) = pos (k + 1 + 1).
Proof.
  destruct (k =? 61) eqn:E61.
  - assert (k = 61) by lia. subst k. reflexivity.
  - unfold pos, frame_len.
    destruct (k + 1 <=? 62) eqn:E1; destruct (k + 1 + 1 <=? 62) eqn:E2; try lia.
    + assert (X : (k + 1 - 1 + 1 =? 17556) = false) by lia. rewrite X. lia.
    + destruct ((k + 1 + 1) mod 17556 + 1 =? 17556) eqn:E4; lia.
Qed.

Lemma first_next k : (if k =? 61 then false else (k <=? 61)) = (k + 1 <=? 61).
Proof. destruct (k =? 61) eqn:E; lia. Qed.
