(* ApuFreqProofs.v — C21: waveform positions as closed forms in the number of elapsed clocks; noise clock
   period; exact LFSR periods. *)
From V.lib Require Import Bits Mem Res.
From V.model Require Import Apu.
From V.proofs Require Import ApuLemmas ApuStatusProofs.
From Coq Require Import ZArith ZifyN ZifyNat ZifyBool.

(* ------------------------------------------------------------------------------------------------- *)
(* a down-counter with reload P that advances a generator state on reload: the common shape of the four
   frequency timers.  State (timer, x); [adv] is the generator's step. *)
Section Osc.
  Variable X : Type.
  Variable adv : X -> X.
  Variable P : N.            (* reload value = period in clocks *)
  Variable dec : N -> N.     (* timer-- in the timer's width *)
  Hypothesis dec_ok : forall t, 0 < t -> dec t = t - 1.
  Hypothesis P_pos : 0 < P.

  Definition osc_step (st : N * X) : N * X :=
    let '(t, x) := st in
    let '(t, x) := if t =? 0 then (P, adv x) else (t, x) in
    (dec t, x).

  (* number of generator steps in the first n clocks when the timer starts at t0 *)
  Definition osc_count (t0 n : N) : N := if n <=? t0 then 0 else 1 + (n - t0 - 1) / P.
  Definition osc_timer (t0 n : N) : N := if n <=? t0 then t0 - n else P - 1 - (n - t0 - 1) mod P.

  Lemma osc_iter t0 x0 n :
    N.iter n osc_step (t0, x0) = (osc_timer t0 n, N.iter (osc_count t0 n) adv x0).
  Proof.
    induction n as [|n IH] using N.peano_ind.
    - unfold osc_timer, osc_count. assert (E : (0 <=? t0) = true) by lia. rewrite E, N.sub_0_r. reflexivity.
    - rewrite N.iter_succ, IH. unfold osc_timer, osc_count.
      destruct (n <=? t0) eqn:E1.
      + apply N.leb_le in E1. unfold osc_step.
        destruct (N.succ n <=? t0) eqn:E2.
        * apply N.leb_le in E2. assert (E3 : (t0 - n =? 0) = false) by lia. rewrite E3.
          rewrite dec_ok by lia. f_equal. lia.
        * apply N.leb_gt in E2. assert (n = t0) by lia. subst n.
          replace (t0 - t0) with 0 by lia. cbn [N.eqb].
          rewrite dec_ok by lia. replace (N.succ t0 - t0 - 1) with 0 by lia.
          rewrite N.mod_0_l, N.div_0_l by lia.
          replace (1 + 0) with (N.succ 0) by lia. rewrite N.iter_succ. f_equal; try lia; reflexivity.
      + apply N.leb_gt in E1.
        assert (E2 : (N.succ n <=? t0) = false) by lia. rewrite E2.
        set (m := n - t0 - 1). replace (N.succ n - t0 - 1) with (m + 1) by lia.
        pose proof (N.div_mod m P ltac:(lia)) as Hdm.
        pose proof (N.mod_lt m P ltac:(lia)) as Hlt.
        set (q := m / P) in *. set (r := m mod P) in *.
        unfold osc_step.
        destruct (N.eq_dec r (P - 1)) as [Hr|Hr].
        * (* reload *)
          assert (E3 : (P - 1 - r =? 0) = true) by lia. rewrite E3.
          assert (Hq : (m + 1) / P = q + 1) by (symmetry; apply (N.div_unique (m + 1) P (q + 1) 0); lia).
          assert (Hr' : (m + 1) mod P = 0) by (symmetry; apply (N.mod_unique (m + 1) P (q + 1) 0); lia).
          rewrite Hq, Hr', dec_ok by lia.
          replace (1 + (q + 1)) with (N.succ (1 + q)) by lia. rewrite N.iter_succ. f_equal; try lia; reflexivity.
        * assert (E3 : (P - 1 - r =? 0) = false) by lia. rewrite E3.
          assert (Hq : (m + 1) / P = q) by (symmetry; apply (N.div_unique (m + 1) P q (r + 1)); lia).
          assert (Hr' : (m + 1) mod P = r + 1) by (symmetry; apply (N.mod_unique (m + 1) P q (r + 1)); lia).
          rewrite Hq, Hr', dec_ok by lia. f_equal. lia.
  Qed.

  (* started with a full timer (as a trigger leaves it): (n-1)/P steps after n >= 1 clocks *)
  Lemma osc_count_reload n : 0 < n -> osc_count P n = (n - 1) / P.
  Proof.
    intros Hn. unfold osc_count. destruct (n <=? P) eqn:E.
    - apply N.leb_le in E. rewrite N.div_small by lia. reflexivity.
    - apply N.leb_gt in E.
      assert (H1 : n - 1 = (n - P - 1) + 1 * P) by lia.
      rewrite H1, N.div_add by lia. lia.
  Qed.
End Osc.

(* iterating "+1 mod M" *)
Lemma iter_succ_mod M k i : 0 < M -> i < M -> N.iter k (fun i => (i + 1) mod M) i = (i + k) mod M.
Proof.
  intros HM Hi. induction k as [|k IH] using N.peano_ind.
  - cbn. rewrite N.add_0_r. symmetry. apply N.mod_small. exact Hi.
  - rewrite N.iter_succ, IH. rewrite N.add_mod_idemp_l by lia. f_equal. lia.
Qed.

Lemma iter_sim {A B : Type} (f : A -> A) (g : B -> B) (proj : A -> B) (Inv : A -> Prop) :
  (forall a, Inv a -> Inv (f a) /\ proj (f a) = g (proj a)) ->
  forall n a, Inv a -> Inv (N.iter n f a) /\ proj (N.iter n f a) = N.iter n g (proj a).
Proof.
  intros H n a Ha. induction n as [|n IH] using N.peano_ind; [split; [exact Ha|reflexivity]|].
  rewrite !N.iter_succ. destruct IH as [I1 I2]. destruct (H _ I1) as [J1 J2]. split; [exact J1|].
  rewrite J2, I2. reflexivity.
Qed.

(* ------------------------------------------------------------------------------------------------- *)
(* what one clock does to the generator part of each channel *)
Definition sq_ov (c : square) := (sqFreq c, sqTimer c, sqDutyIdx c, sqTriggered c).
Definition wv_ov (w : wave) := (wvFreq w, wvTimer w, wvPosition w, wvTriggered w, wvEnabled w, wvLenEn w).
Definition ns_ov (n : noise) := (nsDivisor n, nsShift n, nsWidth n, nsTimer n, nsLfsr n, nsTriggered n).

Lemma sq_ov_tick_length c : sq_ov (sq_tick_length c) = sq_ov c.
Proof. unfold sq_tick_length, sq_ov. break_ifs; reflexivity. Qed.
Lemma sq_ov_tick_envelope c : sq_ov (sq_tick_envelope c) = sq_ov c.
Proof. unfold sq_tick_envelope, sq_ov. break_ifs; reflexivity. Qed.
Lemma ns_ov_tick_length n : ns_ov (ns_tick_length n) = ns_ov n.
Proof. unfold ns_tick_length, ns_ov. break_ifs; reflexivity. Qed.
Lemma ns_ov_tick_envelope n : ns_ov (ns_tick_envelope n) = ns_ov n.
Proof. unfold ns_tick_envelope, ns_ov. break_ifs; reflexivity. Qed.
Lemma wv_ov_tick_length w : wvLenEn w = false -> wv_tick_length w = w.
Proof. unfold wv_tick_length. intros ->. reflexivity. Qed.

Lemma ch2_fs_part s : sq_ov (ch2 (fs_part s)) = sq_ov (ch2 s).
Proof.
  unfold fs_part.
  repeat match goal with |- context [if ?b then _ else _] => destruct b end;
    unfold tick_sweep, tick_envelopes, tick_lengths; psimpl;
    rewrite ?sq_ov_tick_envelope, ?sq_ov_tick_length; reflexivity.
Qed.
Lemma ch4_fs_part s : ns_ov (ch4 (fs_part s)) = ns_ov (ch4 s).
Proof.
  unfold fs_part.
  repeat match goal with |- context [if ?b then _ else _] => destruct b end;
    unfold tick_sweep, tick_envelopes, tick_lengths; psimpl;
    rewrite ?ns_ov_tick_envelope, ?ns_ov_tick_length; reflexivity.
Qed.
Lemma ch3_fs_part s : wvLenEn (ch3 s) = false -> ch3 (fs_part s) = ch3 s.
Proof.
  intros H. unfold fs_part.
  repeat match goal with |- context [if ?b then _ else _] => destruct b end;
    unfold tick_sweep, tick_envelopes, tick_lengths; psimpl; rewrite ?(wv_ov_tick_length _ H); reflexivity.
Qed.
Lemma ch1_fs_part s :
  swEnabled (sw1 s) = false -> sq_ov (ch1 (fs_part s)) = sq_ov (ch1 s) /\ sw1 (fs_part s) = sw1 s.
Proof.
  intros H. unfold fs_part.
  repeat match goal with |- context [if ?b then _ else _] => destruct b end;
    unfold tick_sweep, tick_envelopes, tick_lengths, ch1_tick_sweep; psimpl; rewrite ?H; cbn [fst snd];
    rewrite ?sq_ov_tick_envelope, ?sq_ov_tick_length; split; reflexivity.
Qed.

(* the channel records after the timers ran *)
Lemma after_timers_ch s :
  ch1 (after_timers s) = (if sqTriggered (ch1 s) then ch1 s else sq_tick_timer (ch1 s)) /\
  ch2 (after_timers s) = (if sqTriggered (ch2 s) then ch2 s else sq_tick_timer (ch2 s)) /\
  ch3 (after_timers s) = (if wvTriggered (ch3 s) then ch3 s else wv_tick_timer (ch3 s)) /\
  ch4 (after_timers s) = (if nsTriggered (ch4 s) then ch4 s else ns_tick_timer (ch4 s)) /\
  sw1 (after_timers s) = sw1 s.
Proof.
  unfold after_timers.
  destruct (wrap_ticks_proj s) as (W1 & W2 & W3 & W4 & W5 & _).
  destruct (tick_timers_proj (wrap_ticks s)) as (T1 & T2 & T3 & T4 & T5 & _).
  rewrite T1, T2, T3, T4, T5, W1, W2, W3, W4, W5. repeat split; reflexivity.
Qed.

(* projections of the state after one clock, in terms of the state after the frame-sequencer part *)
Lemma tick_clock_channels s :
  exists x,
    (x = after_timers s \/ x = fs_part (after_timers s)) /\
    ch1 (fst (apu_tick_clock s)) = ch1 x /\ ch2 (fst (apu_tick_clock s)) = ch2 x /\
    ch3 (fst (apu_tick_clock s)) = ch3 x /\ ch4 (fst (apu_tick_clock s)) = ch4 x /\
    sw1 (fst (apu_tick_clock s)) = sw1 x.
Proof.
  rewrite tick_clock_shape. cbv zeta.
  destruct (fs_hit s).
  - exists (fs_part (after_timers s)). split; [right; reflexivity|].
    match goal with |- context [if ?b then _ else _] => destruct b end; repeat split; reflexivity.
  - exists (after_timers s). split; [left; reflexivity|]. repeat split; reflexivity.
Qed.

(* ------------------------------------------------------------------------------------------------- *)
(* squares *)
Lemma dec16_ok t : 0 < t -> dec16 t = t - 1.
Proof. intros H. unfold dec16. assert (E : (t =? 0) = false) by lia. rewrite E. lia. Qed.
Lemma dec32_ok t : 0 < t -> dec32 t = t - 1.
Proof. intros H. unfold dec32. assert (E : (t =? 0) = false) by lia. rewrite E. lia. Qed.

Lemma sq_period_eq c : sqFreq c < 2048 -> sq_period c = 4 * (2048 - sqFreq c).
Proof. intros H. unfold sq_period, u16, sub16. lia. Qed.

Definition duty_adv (i : N) : N := (i + 1) mod 8.

Lemma sq_tick_timer_osc c :
  sqFreq c < 2048 -> sqDutyIdx c < 8 ->
  (sqTimer (sq_tick_timer c), sqDutyIdx (sq_tick_timer c)) =
    osc_step N duty_adv (4 * (2048 - sqFreq c)) dec16 (sqTimer c, sqDutyIdx c) /\
  sqFreq (sq_tick_timer c) = sqFreq c /\ sqTriggered (sq_tick_timer c) = sqTriggered c.
Proof.
  intros Hf Hi. unfold sq_tick_timer, osc_step, duty_adv. rewrite (sq_period_eq c Hf).
  destruct (sqTimer c =? 0); psimpl; (split; [|split; reflexivity]).
  - f_equal. unfold add8. destruct (8 <=? (sqDutyIdx c + 1) mod 256) eqn:E; lia.
  - reflexivity.
Qed.

(* the generator part of a square channel is left alone while its "triggered" flag is set *)
Definition sq_inv (f : N) (c : square) : Prop := sqFreq c = f /\ sqTriggered c = false /\ sqDutyIdx c < 8.
Definition sq_proj (c : square) : N * N := (sqTimer c, sqDutyIdx c).

Lemma sq_ov_inv f c c' : sq_ov c' = sq_ov c -> sq_inv f c -> sq_inv f c' /\ sq_proj c' = sq_proj c.
Proof.
  unfold sq_ov, sq_inv, sq_proj. intros H (H1 & H2 & H3). injection H as E1 E2 E3 E4.
  rewrite E1, E2, E3, E4. split; [split; [|split]; assumption | reflexivity].
Qed.

Lemma duty_adv_lt i : duty_adv i < 8.
Proof. unfold duty_adv. apply N.mod_lt. discriminate. Qed.

Lemma ch2_clock f s :
  f < 2048 -> sq_inv f (ch2 s) ->
  sq_inv f (ch2 (fst (apu_tick_clock s))) /\
  sq_proj (ch2 (fst (apu_tick_clock s))) = osc_step N duty_adv (4 * (2048 - f)) dec16 (sq_proj (ch2 s)).
Proof.
  intros Hf (I1 & I2 & I3).
  destruct (tick_clock_channels s) as (x & Hx & _ & E2 & _). rewrite E2.
  destruct (after_timers_ch s) as (_ & A2 & _). rewrite I2 in A2.
  assert (Hf' : sqFreq (ch2 s) < 2048) by (rewrite I1; exact Hf).
  destruct (sq_tick_timer_osc (ch2 s) Hf' I3) as (O1 & O2 & O3). rewrite I1 in O1.
  assert (Hbase : sq_inv f (ch2 (after_timers s)) /\
                  sq_proj (ch2 (after_timers s)) = osc_step N duty_adv (4 * (2048 - f)) dec16 (sq_proj (ch2 s))).
  { rewrite A2. unfold sq_inv, sq_proj. rewrite O2, O3, I1, I2. split; [|exact O1].
    repeat split.
    change (sqDutyIdx (sq_tick_timer (ch2 s))) with (snd (sqTimer (sq_tick_timer (ch2 s)), sqDutyIdx (sq_tick_timer (ch2 s)))).
    rewrite O1. unfold osc_step. destruct (sqTimer (ch2 s) =? 0); cbn [snd]; [apply duty_adv_lt|exact I3]. }
  destruct Hx as [-> | ->]; [exact Hbase|].
  destruct Hbase as [B1 B2].
  destruct (sq_ov_inv f _ _ (ch2_fs_part (after_timers s)) B1) as [C1 C2]. split; [exact C1|]. rewrite C2. exact B2.
Qed.

Lemma ch1_clock f s :
  f < 2048 -> sq_inv f (ch1 s) -> swEnabled (sw1 s) = false ->
  (sq_inv f (ch1 (fst (apu_tick_clock s))) /\ swEnabled (sw1 (fst (apu_tick_clock s))) = false) /\
  sq_proj (ch1 (fst (apu_tick_clock s))) = osc_step N duty_adv (4 * (2048 - f)) dec16 (sq_proj (ch1 s)).
Proof.
  intros Hf (I1 & I2 & I3) Hsw.
  destruct (tick_clock_channels s) as (x & Hx & E1 & _ & _ & _ & E5). rewrite E1, E5.
  destruct (after_timers_ch s) as (A1 & _ & _ & _ & A5). rewrite I2 in A1.
  assert (Hf' : sqFreq (ch1 s) < 2048) by (rewrite I1; exact Hf).
  destruct (sq_tick_timer_osc (ch1 s) Hf' I3) as (O1 & O2 & O3). rewrite I1 in O1.
  assert (Hbase : sq_inv f (ch1 (after_timers s)) /\
                  sq_proj (ch1 (after_timers s)) = osc_step N duty_adv (4 * (2048 - f)) dec16 (sq_proj (ch1 s))).
  { rewrite A1. unfold sq_inv, sq_proj. rewrite O2, O3, I1, I2. split; [|exact O1].
    repeat split.
    change (sqDutyIdx (sq_tick_timer (ch1 s))) with (snd (sqTimer (sq_tick_timer (ch1 s)), sqDutyIdx (sq_tick_timer (ch1 s)))).
    rewrite O1. unfold osc_step. destruct (sqTimer (ch1 s) =? 0); cbn [snd]; [apply duty_adv_lt|exact I3]. }
  assert (Hsw' : swEnabled (sw1 (after_timers s)) = false) by (rewrite A5; exact Hsw).
  destruct Hx as [-> | ->]; [destruct Hbase as [B1 B2]; split; [split; [exact B1|exact Hsw']|exact B2]|].
  destruct Hbase as [B1 B2].
  destruct (ch1_fs_part (after_timers s) Hsw') as [F1 F2].
  destruct (sq_ov_inv f _ _ F1 B1) as [C1 C2]. rewrite F2, C2. split; [split; [exact C1|exact Hsw']|exact B2].
Qed.

(* n clocks *)
Definition tick (s : apu) : apu := fst (apu_tick_clock s).

Lemma apu_clocks_iter n s : apu_clocks n s = N.iter n tick s.
Proof. reflexivity. Qed.

Theorem ch2_clocks f s n :
  f < 2048 -> sq_inv f (ch2 s) ->
  sq_inv f (ch2 (apu_clocks n s)) /\
  sqTimer (ch2 (apu_clocks n s)) = osc_timer (4 * (2048 - f)) (sqTimer (ch2 s)) n /\
  sqDutyIdx (ch2 (apu_clocks n s)) = (sqDutyIdx (ch2 s) + osc_count (4 * (2048 - f)) (sqTimer (ch2 s)) n) mod 8.
Proof.
  intros Hf Hinv. rewrite apu_clocks_iter.
  destruct (iter_sim tick (osc_step N duty_adv (4 * (2048 - f)) dec16) (fun s => sq_proj (ch2 s))
              (fun s => sq_inv f (ch2 s)) (fun a Ha => ch2_clock f a Hf Ha) n s Hinv) as [H1 H2].
  split; [exact H1|].
  unfold sq_proj in H2 at 2. assert (HP : 0 < 4 * (2048 - f)) by lia. rewrite (osc_iter N duty_adv (4 * (2048 - f)) dec16 dec16_ok HP) in H2.
  unfold duty_adv in H2. rewrite iter_succ_mod in H2 by (try lia; apply Hinv).
  unfold sq_proj in H2. injection H2 as E1 E2. split; assumption.
Qed.

Theorem ch1_clocks f s n :
  f < 2048 -> sq_inv f (ch1 s) -> swEnabled (sw1 s) = false ->
  sq_inv f (ch1 (apu_clocks n s)) /\
  sqTimer (ch1 (apu_clocks n s)) = osc_timer (4 * (2048 - f)) (sqTimer (ch1 s)) n /\
  sqDutyIdx (ch1 (apu_clocks n s)) = (sqDutyIdx (ch1 s) + osc_count (4 * (2048 - f)) (sqTimer (ch1 s)) n) mod 8.
Proof.
  intros Hf Hinv Hsw. rewrite apu_clocks_iter.
  destruct (iter_sim tick (osc_step N duty_adv (4 * (2048 - f)) dec16) (fun s => sq_proj (ch1 s))
              (fun s => sq_inv f (ch1 s) /\ swEnabled (sw1 s) = false)
              (fun a Ha => ch1_clock f a Hf (proj1 Ha) (proj2 Ha)) n s (conj Hinv Hsw)) as [H1 H2].
  split; [exact (proj1 H1)|].
  unfold sq_proj in H2 at 2. assert (HP : 0 < 4 * (2048 - f)) by lia. rewrite (osc_iter N duty_adv (4 * (2048 - f)) dec16 dec16_ok HP) in H2.
  unfold duty_adv in H2. rewrite iter_succ_mod in H2 by (try lia; apply Hinv).
  unfold sq_proj in H2. injection H2 as E1 E2. split; assumption.
Qed.

(* an 11-bit frequency assembled from a low byte and three high bits *)
Lemma freq11_check :
  forallb (fun a => forallb (fun k => N.lor a (N.shiftl k 8) =? a + 256 * k) (upto 8)) bytes = true.
Proof. vm_compute. reflexivity. Qed.

Lemma freq11 x v : N.lor (N.land x 0xff) (N.shiftl (N.land v 7) 8) = x mod 256 + 256 * (v mod 8).
Proof.
  change 0xff with (N.ones 8). change 7 with (N.ones 3). rewrite !N.land_ones.
  change (2 ^ 8) with 256. change (2 ^ 3) with 8.
  assert (Ha : x mod 256 < 256) by (apply N.mod_lt; discriminate).
  assert (Hk : v mod 8 < 8) by (apply N.mod_lt; discriminate).
  pose proof (sweep_bytes _ freq11_check (x mod 256) Ha) as H. cbv beta in H.
  pose proof (sweep_upto 8 _ H (v mod 8) Hk) as H2. cbv beta in H2. apply N.eqb_eq in H2. exact H2.
Qed.

Lemma freq11_lt x v : N.lor (N.land x 0xff) (N.shiftl (N.land v 7) 8) < 2048.
Proof.
  rewrite freq11.
  assert (Ha : x mod 256 < 256) by (apply N.mod_lt; discriminate).
  assert (Hk : v mod 8 < 8) by (apply N.mod_lt; discriminate). lia.
Qed.

(* ------------------------------------------------------------------------------------------------- *)
(* what a trigger leaves in the generator part *)
Lemma sq_ov_extra_len c l t o : sq_ov (sq_extra_len c l t o) = sq_ov c.
Proof. unfold sq_extra_len, sq_ov. break_ifs; reflexivity. Qed.
Lemma sq_ov_trig_len c l o : sq_ov (sq_trig_len c l o) = sq_ov c.
Proof. unfold sq_trig_len, sq_ov. break_ifs; reflexivity. Qed.
Lemma sq_ov_trigger_common c : sq_ov (sq_trigger_common c) = (sqFreq c, sq_period c, sqDutyIdx c, true).
Proof. unfold sq_trigger_common, sq_ov, sq_period. psimpl. break_ifs; reflexivity. Qed.
Lemma sq_ov_dac_check c : sq_ov (sq_dac_check c) = sq_ov c.
Proof. unfold sq_dac_check, sq_ov. break_ifs; reflexivity. Qed.
Lemma sq_ov_ch2_trigger c : sq_ov (ch2_trigger c) = (sqFreq c, sq_period c, sqDutyIdx c, true).
Proof. unfold ch2_trigger. rewrite sq_ov_dac_check. apply sq_ov_trigger_common. Qed.

Lemma sq_ov_ch1_trigger c w :
  swShift w = 0 -> sq_ov (fst (ch1_trigger c w)) = (sqFreq c, sq_period c, sqDutyIdx c, true) /\
  swEnabled (snd (ch1_trigger c w)) = (0 <? swPeriod w).
Proof.
  intros Hs. unfold ch1_trigger. psimpl. rewrite Hs. cbn [N.ltb N.compare fst snd].
  rewrite sq_ov_dac_check, sq_ov_trigger_common. psimpl. split; [reflexivity|].
  destruct (0 <? swPeriod w); reflexivity.
Qed.

Definition nr_freq (old v : N) : N := N.lor (N.land old 0x00ff) (N.shiftl (N.land v 7) 8).

Lemma W24_trigger s v :
  is_on s = true -> trig_bit v = true ->
  sq_ov (ch2 (apu_bus_write s 0xFF19 v)) =
    (nr_freq (sqFreq (ch2 s)) v, 4 * (2048 - nr_freq (sqFreq (ch2 s)) v), sqDutyIdx (ch2 s), true).
Proof.
  unfold is_on, trig_bit. intros Hon Ht.
  change (apu_bus_write s 0xFF19 v) with (WriteNR24 s v). unfold WriteNR24. rewrite Hon, Ht. psimpl.
  set (c0 := set_sqFreq (ch2 s) _).
  assert (H0 : sq_ov c0 = (nr_freq (sqFreq (ch2 s)) v, sqTimer (ch2 s), sqDutyIdx (ch2 s), sqTriggered (ch2 s)))
    by reflexivity.
  set (c1 := sq_extra_len c0 _ _ _).
  assert (H1 : sq_ov c1 = sq_ov c0) by apply sq_ov_extra_len.
  set (c2 := sq_trig_len (ch2_trigger c1) _ _).
  assert (H2 : sq_ov c2 = (sqFreq c1, sq_period c1, sqDutyIdx c1, true))
    by (unfold c2; rewrite sq_ov_trig_len; apply sq_ov_ch2_trigger).
  rewrite H0 in H1. unfold sq_ov in H1. injection H1 as E1 E2 E3 E4.
  assert (Hf : sqFreq c1 < 2048) by (rewrite E1; apply freq11_lt).
  rewrite (sq_period_eq c1 Hf), E1, E3 in H2.
  clearbody c2. unfold sq_ov in *. psimpl. exact H2.
Qed.

Lemma W14_trigger s v :
  is_on s = true -> trig_bit v = true -> swShift (sw1 s) = 0 ->
  sq_ov (ch1 (apu_bus_write s 0xFF14 v)) =
    (nr_freq (sqFreq (ch1 s)) v, 4 * (2048 - nr_freq (sqFreq (ch1 s)) v), sqDutyIdx (ch1 s), true) /\
  swEnabled (sw1 (apu_bus_write s 0xFF14 v)) = (0 <? swPeriod (sw1 s)).
Proof.
  unfold is_on, trig_bit. intros Hon Ht Hs.
  change (apu_bus_write s 0xFF14 v) with (WriteNR14 s v). unfold WriteNR14. rewrite Hon, Ht. psimpl.
  set (c0 := set_sqFreq (ch1 s) _).
  assert (H0 : sq_ov c0 = (nr_freq (sqFreq (ch1 s)) v, sqTimer (ch1 s), sqDutyIdx (ch1 s), sqTriggered (ch1 s)))
    by reflexivity.
  set (c1 := sq_extra_len c0 _ _ _).
  assert (H1 : sq_ov c1 = sq_ov c0) by apply sq_ov_extra_len.
  destruct (sq_ov_ch1_trigger c1 (sw1 s) Hs) as [T1 T2].
  set (cw := ch1_trigger c1 (sw1 s)) in *.
  set (c2 := sq_trig_len (fst cw) _ _).
  assert (H2 : sq_ov c2 = (sqFreq c1, sq_period c1, sqDutyIdx c1, true))
    by (unfold c2; rewrite sq_ov_trig_len; exact T1).
  rewrite H0 in H1. unfold sq_ov in H1. injection H1 as E1 E2 E3 E4.
  assert (Hf : sqFreq c1 < 2048) by (rewrite E1; apply freq11_lt).
  rewrite (sq_period_eq c1 Hf), E1, E3 in H2.
  clearbody c2 cw. unfold sq_ov in *. psimpl. split; [exact H2|exact T2].
Qed.

(* while the "triggered" flag is set, clocks do not advance the generator; EndMachineCycle clears the flag *)
Lemma ch2_clock_triggered s :
  sqTriggered (ch2 s) = true -> sq_ov (ch2 (fst (apu_tick_clock s))) = sq_ov (ch2 s).
Proof.
  intros Ht. destruct (tick_clock_channels s) as (x & Hx & _ & E2 & _). rewrite E2.
  destruct (after_timers_ch s) as (_ & A2 & _). rewrite Ht in A2.
  destruct Hx as [-> | ->]; [rewrite A2; reflexivity|]. rewrite ch2_fs_part, A2. reflexivity.
Qed.

Lemma ch1_clock_triggered s :
  sqTriggered (ch1 s) = true -> swEnabled (sw1 s) = false ->
  sq_ov (ch1 (fst (apu_tick_clock s))) = sq_ov (ch1 s) /\ swEnabled (sw1 (fst (apu_tick_clock s))) = false.
Proof.
  intros Ht Hsw. destruct (tick_clock_channels s) as (x & Hx & E1 & _ & _ & _ & E5). rewrite E1, E5.
  destruct (after_timers_ch s) as (A1 & _ & _ & _ & A5). rewrite Ht in A1.
  destruct Hx as [-> | ->]; [rewrite A1, A5; split; [reflexivity|exact Hsw]|].
  assert (Hsw' : swEnabled (sw1 (after_timers s)) = false) by (rewrite A5; exact Hsw).
  destruct (ch1_fs_part (after_timers s) Hsw') as [F1 F2]. rewrite F1, F2, A1, A5. split; [reflexivity|exact Hsw].
Qed.

Lemma sq_ov_triggered_true c c' : sq_ov c' = sq_ov c -> sqTriggered c = true -> sqTriggered c' = true.
Proof. unfold sq_ov. intros H Ht. injection H as _ _ _ E. congruence. Qed.

Lemma end_cycle_ticks s : fst (apu_end_machine_cycle s) = clear_triggered (tick (tick (tick (tick s)))).
Proof. apply end_cycle_unfold. Qed.

Lemma clear_triggered_ch x :
  ch1 (clear_triggered x) = set_sqTriggered (ch1 x) false /\ ch2 (clear_triggered x) = set_sqTriggered (ch2 x) false /\
  ch3 (clear_triggered x) = set_wvTriggered (ch3 x) false /\ ch4 (clear_triggered x) = set_nsTriggered (ch4 x) false /\
  sw1 (clear_triggered x) = sw1 x.
Proof. repeat split; reflexivity. Qed.

Lemma ch2_tick_triggered s :
  sqTriggered (ch2 s) = true -> sq_ov (ch2 (tick s)) = sq_ov (ch2 s) /\ sqTriggered (ch2 (tick s)) = true.
Proof.
  intros Ht. pose proof (ch2_clock_triggered s Ht) as H. split; [exact H|]. exact (sq_ov_triggered_true _ _ H Ht).
Qed.

Lemma ch2_cycle_triggered s :
  sqTriggered (ch2 s) = true ->
  let c := ch2 (fst (apu_end_machine_cycle s)) in
  sqFreq c = sqFreq (ch2 s) /\ sqTimer c = sqTimer (ch2 s) /\ sqDutyIdx c = sqDutyIdx (ch2 s) /\ sqTriggered c = false.
Proof.
  intros Ht. cbv zeta. rewrite end_cycle_ticks.
  destruct (ch2_tick_triggered s Ht) as [H1 T1].
  destruct (ch2_tick_triggered _ T1) as [H2 T2].
  destruct (ch2_tick_triggered _ T2) as [H3 T3].
  destruct (ch2_tick_triggered _ T3) as [H4 T4].
  rewrite H3, H2, H1 in H4.
  destruct (clear_triggered_ch (tick (tick (tick (tick s))))) as (_ & C2 & _). rewrite C2.
  generalize dependent (ch2 (tick (tick (tick (tick s))))). intros c H4 _.
  unfold sq_ov in H4. injection H4 as E1 E2 E3 E4. psimpl. repeat split; assumption.
Qed.

Lemma ch1_tick_triggered s :
  sqTriggered (ch1 s) = true /\ swEnabled (sw1 s) = false ->
  sq_ov (ch1 (tick s)) = sq_ov (ch1 s) /\ (sqTriggered (ch1 (tick s)) = true /\ swEnabled (sw1 (tick s)) = false).
Proof.
  intros [Ht Hsw]. destruct (ch1_clock_triggered s Ht Hsw) as [H W]. split; [exact H|]. split; [|exact W].
  exact (sq_ov_triggered_true _ _ H Ht).
Qed.

Lemma ch1_cycle_triggered s :
  sqTriggered (ch1 s) = true -> swEnabled (sw1 s) = false ->
  let s' := fst (apu_end_machine_cycle s) in
  sqFreq (ch1 s') = sqFreq (ch1 s) /\ sqTimer (ch1 s') = sqTimer (ch1 s) /\ sqDutyIdx (ch1 s') = sqDutyIdx (ch1 s) /\
  sqTriggered (ch1 s') = false /\ swEnabled (sw1 s') = false.
Proof.
  intros Ht Hsw. cbv zeta. rewrite end_cycle_ticks.
  destruct (ch1_tick_triggered s (conj Ht Hsw)) as [H1 T1].
  destruct (ch1_tick_triggered _ T1) as [H2 T2].
  destruct (ch1_tick_triggered _ T2) as [H3 T3].
  destruct (ch1_tick_triggered _ T3) as [H4 T4].
  rewrite H3, H2, H1 in H4.
  destruct (clear_triggered_ch (tick (tick (tick (tick s))))) as (C1 & _ & _ & _ & C5). rewrite C1, C5.
  destruct T4 as [_ W4].
  generalize dependent (ch1 (tick (tick (tick (tick s))))). intros c H4.
  unfold sq_ov in H4. injection H4 as E1 E2 E3 E4. psimpl. repeat split; assumption.
Qed.

Lemma osc_count_reload' P n : 0 < P -> osc_count P P n = (n - 1) / P.
Proof.
  intros HP. destruct (N.eq_dec n 0) as [->|Hn].
  - unfold osc_count. assert (E : (0 <=? P) = true) by lia. rewrite E.
    symmetry. apply N.div_small. lia.
  - unfold osc_count. destruct (n <=? P) eqn:E.
    + apply N.leb_le in E. rewrite N.div_small by lia. reflexivity.
    + apply N.leb_gt in E.
      assert (H1 : n - 1 = (n - P - 1) + 1 * P) by lia.
      rewrite H1, N.div_add by lia. lia.
Qed.

Lemma sq_ov_eq c a b d e :
  sq_ov c = (a, b, d, e) -> sqFreq c = a /\ sqTimer c = b /\ sqDutyIdx c = d /\ sqTriggered c = e.
Proof. unfold sq_ov. intros H. inversion H. auto. Qed.

(* C21, channel 2: position of the duty waveform n clocks after the machine cycle of a trigger *)
Theorem square2_after_trigger s v n :
  is_on s = true -> trig_bit v = true -> sqDutyIdx (ch2 s) < 8 ->
  let f := nr_freq (sqFreq (ch2 s)) v in
  let s1 := fst (apu_end_machine_cycle (apu_bus_write s 0xFF19 v)) in
  f < 2048 /\ sqFreq (ch2 s1) = f /\
  sqDutyIdx (ch2 (apu_clocks n s1)) = (sqDutyIdx (ch2 s) + (n - 1) / (4 * (2048 - f))) mod 8.
Proof.
  intros Hon Ht Hi f s1.
  assert (Hf : f < 2048) by apply freq11_lt.
  pose proof (W24_trigger s v Hon Ht) as HW. fold f in HW.
  set (s0 := apu_bus_write s 0xFF19 v) in *.
  destruct (sq_ov_eq _ _ _ _ _ HW) as (E1 & E2 & E3 & E4).
  destruct (ch2_cycle_triggered s0 E4) as (C1 & C2 & C3 & C4). fold s1 in C1, C2, C3, C4.
  assert (Hinv : sq_inv f (ch2 s1)).
  { unfold sq_inv. rewrite C1, C3, E1, E3. split; [reflexivity|]. split; [exact C4|exact Hi]. }
  destruct (ch2_clocks f s1 n Hf Hinv) as (_ & _ & H3).
  split; [exact Hf|]. split; [rewrite C1; exact E1|].
  rewrite H3, C2, C3, E2, E3, osc_count_reload' by lia. reflexivity.
Qed.

(* C21, channel 1, sweep unit idle (period and shift 0) *)
Theorem square1_after_trigger s v n :
  is_on s = true -> trig_bit v = true -> sqDutyIdx (ch1 s) < 8 ->
  swShift (sw1 s) = 0 -> swPeriod (sw1 s) = 0 ->
  let f := nr_freq (sqFreq (ch1 s)) v in
  let s1 := fst (apu_end_machine_cycle (apu_bus_write s 0xFF14 v)) in
  f < 2048 /\ sqFreq (ch1 s1) = f /\
  sqDutyIdx (ch1 (apu_clocks n s1)) = (sqDutyIdx (ch1 s) + (n - 1) / (4 * (2048 - f))) mod 8.
Proof.
  intros Hon Ht Hi Hs Hp f s1.
  assert (Hf : f < 2048) by apply freq11_lt.
  destruct (W14_trigger s v Hon Ht Hs) as [HW HS]. fold f in HW. rewrite Hp in HS.
  set (s0 := apu_bus_write s 0xFF14 v) in *.
  destruct (sq_ov_eq _ _ _ _ _ HW) as (E1 & E2 & E3 & E4).
  destruct (ch1_cycle_triggered s0 E4 HS) as (C1 & C2 & C3 & C4 & C5). fold s1 in C1, C2, C3, C4, C5.
  assert (Hinv : sq_inv f (ch1 s1)).
  { unfold sq_inv. rewrite C1, C3, E1, E3. split; [reflexivity|]. split; [exact C4|exact Hi]. }
  destruct (ch1_clocks f s1 n Hf Hinv C5) as (_ & _ & H3).
  split; [exact Hf|]. split; [rewrite C1; exact E1|].
  rewrite H3, C2, C3, E2, E3, osc_count_reload' by lia. reflexivity.
Qed.

(* ------------------------------------------------------------------------------------------------- *)
(* wave channel *)
Lemma wv_period_eq w : wvFreq w < 2048 -> wv_period w = 2 * (2048 - wvFreq w).
Proof. intros H. unfold wv_period, u16, sub16. lia. Qed.

Definition pos_adv (p : N) : N := (p + 1) mod 32.
Lemma pos_adv_lt p : pos_adv p < 32.
Proof. unfold pos_adv. apply N.mod_lt. discriminate. Qed.

Definition wv_inv (f : N) (w : wave) : Prop :=
  wvFreq w = f /\ wvTriggered w = false /\ wvEnabled w = true /\ wvLenEn w = false /\ wvPosition w < 32.
Definition wv_proj (w : wave) : N * N := (wvTimer w, wvPosition w).

Lemma wv_tick_timer_osc f w :
  f < 2048 -> wv_inv f w ->
  wv_inv f (wv_tick_timer w) /\
  wv_proj (wv_tick_timer w) = osc_step N pos_adv (2 * (2048 - f)) dec16 (wv_proj w).
Proof.
  intros Hf (I1 & I2 & I3 & I4 & I5).
  assert (Hp : wv_period w = 2 * (2048 - f)) by (rewrite <- I1; apply wv_period_eq; rewrite I1; exact Hf).
  unfold wv_tick_timer, wv_inv, wv_proj, osc_step, pos_adv. rewrite I3, Hp.
  assert (Ha : (let p := add8 (wvPosition w) 1 in if 32 <=? p then 0 else p) = (wvPosition w + 1) mod 32).
  { cbv zeta. unfold add8. destruct (32 <=? (wvPosition w + 1) mod 256) eqn:E; lia. }
  destruct (wvTimer w =? 0); psimpl.
  - cbv zeta in Ha. rewrite Ha. repeat split; try assumption. apply N.mod_lt. discriminate.
  - repeat split; assumption.
Qed.

Lemma ch3_clock f s :
  f < 2048 -> wv_inv f (ch3 s) ->
  wv_inv f (ch3 (fst (apu_tick_clock s))) /\
  wv_proj (ch3 (fst (apu_tick_clock s))) = osc_step N pos_adv (2 * (2048 - f)) dec16 (wv_proj (ch3 s)).
Proof.
  intros Hf Hinv.
  destruct (tick_clock_channels s) as (x & Hx & _ & _ & E3 & _). rewrite E3.
  destruct (after_timers_ch s) as (_ & _ & A3 & _).
  assert (Ht : wvTriggered (ch3 s) = false) by apply Hinv. rewrite Ht in A3.
  destruct (wv_tick_timer_osc f (ch3 s) Hf Hinv) as [B1 B2]. rewrite <- A3 in B1, B2.
  destruct Hx as [-> | ->]; [split; assumption|].
  assert (Hl : wvLenEn (ch3 (after_timers s)) = false) by apply B1.
  rewrite (ch3_fs_part _ Hl). split; assumption.
Qed.

Theorem ch3_clocks f s n :
  f < 2048 -> wv_inv f (ch3 s) ->
  wv_inv f (ch3 (apu_clocks n s)) /\
  wvTimer (ch3 (apu_clocks n s)) = osc_timer (2 * (2048 - f)) (wvTimer (ch3 s)) n /\
  wvPosition (ch3 (apu_clocks n s)) = (wvPosition (ch3 s) + osc_count (2 * (2048 - f)) (wvTimer (ch3 s)) n) mod 32.
Proof.
  intros Hf Hinv. rewrite apu_clocks_iter.
  destruct (iter_sim tick (osc_step N pos_adv (2 * (2048 - f)) dec16) (fun s => wv_proj (ch3 s))
              (fun s => wv_inv f (ch3 s)) (fun a Ha => ch3_clock f a Hf Ha) n s Hinv) as [H1 H2].
  split; [exact H1|].
  unfold wv_proj in H2 at 2. assert (HP : 0 < 2 * (2048 - f)) by lia.
  rewrite (osc_iter N pos_adv (2 * (2048 - f)) dec16 dec16_ok HP) in H2.
  unfold pos_adv in H2. rewrite iter_succ_mod in H2 by (try lia; apply Hinv).
  unfold wv_proj in H2. injection H2 as E1 E2. split; assumption.
Qed.

(* a trigger of the (so far disabled) wave channel with its DAC on and length disabled *)
Lemma wv_trigger_fresh w :
  wvEnabled w = false -> wvDac w = true ->
  let w' := wv_trigger w in
  wvFreq w' = wvFreq w /\ wvTimer w' = wv_period w /\ wvPosition w' = 0 /\ wvTriggered w' = true /\
  wvEnabled w' = true /\ wvLenEn w' = wvLenEn w.
Proof.
  intros He Hd. cbv zeta. unfold wv_trigger. rewrite He.
  set (w2 := set_wvEnabled (set_wvTriggered w true) true).
  set (w3 := if wvLength w2 =? 0 then set_wvLength w2 256 else w2).
  assert (H3 : wvFreq w3 = wvFreq w /\ wvTriggered w3 = true /\ wvEnabled w3 = true /\ wvLenEn w3 = wvLenEn w /\
               wvDac w3 = true /\ wv_period w3 = wv_period w).
  { unfold w3. destruct (wvLength w2 =? 0); repeat split; try reflexivity; exact Hd. }
  clearbody w3. destruct H3 as (A1 & A2 & A3 & A4 & A5 & A6).
  psimpl. rewrite A5. psimpl. rewrite A6. repeat split; assumption.
Qed.

Definition nr34_wave (w : wave) (v : N) (odd : bool) : wave :=
  let w := set_wvFreq w (N.lor (N.land (wvFreq w) 0x00ff) (N.shiftl (N.land v 7) 8)) in
  let trigger := 0 <? N.land (N.shiftr v 7) 1 in
  let lenEn := 0 <? N.land (N.shiftr v 6) 1 in
  let w := wv_extra_len w lenEn trigger odd in
  let w := if trigger then wv_trig_len (wv_trigger w) lenEn odd else w in
  set_wvLenEn w lenEn.

Lemma WriteNR34_on s v : ctOn (ctl s) = true -> WriteNR34 s v = set_ch3 s (nr34_wave (ch3 s) v (odd_seq s)).
Proof. intros H. unfold WriteNR34, nr34_wave. rewrite H. reflexivity. Qed.

Lemma nr34_wave_trigger w v odd :
  trig_bit v = true -> len_bit v = false -> wvEnabled w = false -> wvDac w = true ->
  let w' := nr34_wave w v odd in
  let f := nr_freq (wvFreq w) v in
  wvFreq w' = f /\ wvTimer w' = 2 * (2048 - f) /\ wvPosition w' = 0 /\ wvTriggered w' = true /\
  wvEnabled w' = true /\ wvLenEn w' = false.
Proof.
  unfold trig_bit, len_bit. intros Ht Hl He Hd. cbv zeta. unfold nr34_wave. rewrite Ht, Hl.
  unfold wv_extra_len, wv_trig_len. rewrite !Bool.andb_false_r. cbn [andb].
  set (w0 := set_wvFreq w _).
  assert (He0 : wvEnabled w0 = false) by exact He. assert (Hd0 : wvDac w0 = true) by exact Hd.
  destruct (wv_trigger_fresh w0 He0 Hd0) as (T1 & T2 & T3 & T4 & T5 & T6).
  assert (Hf : wvFreq w0 < 2048) by apply freq11_lt.
  rewrite (wv_period_eq w0 Hf) in T2.
  generalize dependent (wv_trigger w0). intros w' T1 T2 T3 T4 T5 T6. psimpl.
  repeat split; assumption.
Qed.

Lemma W34_trigger s v :
  is_on s = true -> trig_bit v = true -> len_bit v = false ->
  wvEnabled (ch3 s) = false -> wvDac (ch3 s) = true ->
  let w := ch3 (apu_bus_write s 0xFF1E v) in
  let f := nr_freq (wvFreq (ch3 s)) v in
  wvFreq w = f /\ wvTimer w = 2 * (2048 - f) /\ wvPosition w = 0 /\ wvTriggered w = true /\
  wvEnabled w = true /\ wvLenEn w = false.
Proof.
  intros Hon Ht Hl He Hd.
  change (apu_bus_write s 0xFF1E v) with (WriteNR34 s v). rewrite (WriteNR34_on s v Hon).
  exact (nr34_wave_trigger (ch3 s) v (odd_seq s) Ht Hl He Hd).
Qed.

Lemma ch3_tick_triggered s :
  wvTriggered (ch3 s) = true /\ wvLenEn (ch3 s) = false -> ch3 (tick s) = ch3 s.
Proof.
  intros [Ht Hl]. unfold tick. destruct (tick_clock_channels s) as (x & Hx & _ & _ & E3 & _). rewrite E3.
  destruct (after_timers_ch s) as (_ & _ & A3 & _). rewrite Ht in A3.
  destruct Hx as [-> | ->]; [exact A3|].
  rewrite ch3_fs_part; [exact A3|]. rewrite A3. exact Hl.
Qed.

Lemma ch3_cycle_triggered s :
  wvTriggered (ch3 s) = true -> wvLenEn (ch3 s) = false ->
  ch3 (fst (apu_end_machine_cycle s)) = set_wvTriggered (ch3 s) false.
Proof.
  intros Ht Hl. rewrite end_cycle_ticks.
  pose proof (ch3_tick_triggered s (conj Ht Hl)) as H1.
  assert (T1 : wvTriggered (ch3 (tick s)) = true /\ wvLenEn (ch3 (tick s)) = false) by (rewrite H1; split; assumption).
  pose proof (ch3_tick_triggered _ T1) as H2.
  assert (T2 : wvTriggered (ch3 (tick (tick s))) = true /\ wvLenEn (ch3 (tick (tick s))) = false)
    by (rewrite H2, H1; split; assumption).
  pose proof (ch3_tick_triggered _ T2) as H3.
  assert (T3 : wvTriggered (ch3 (tick (tick (tick s)))) = true /\ wvLenEn (ch3 (tick (tick (tick s)))) = false)
    by (rewrite H3, H2, H1; split; assumption).
  pose proof (ch3_tick_triggered _ T3) as H4.
  destruct (clear_triggered_ch (tick (tick (tick (tick s))))) as (_ & _ & C3 & _). rewrite C3, H4, H3, H2, H1.
  reflexivity.
Qed.

(* C21, channel 3 *)
Theorem wave_after_trigger s v n :
  is_on s = true -> trig_bit v = true -> len_bit v = false ->
  wvEnabled (ch3 s) = false -> wvDac (ch3 s) = true ->
  let f := nr_freq (wvFreq (ch3 s)) v in
  let s1 := fst (apu_end_machine_cycle (apu_bus_write s 0xFF1E v)) in
  f < 2048 /\ wvFreq (ch3 s1) = f /\
  wvPosition (ch3 (apu_clocks n s1)) = ((n - 1) / (2 * (2048 - f))) mod 32.
Proof.
  intros Hon Ht Hl He Hd f s1.
  assert (Hf : f < 2048) by apply freq11_lt.
  destruct (W34_trigger s v Hon Ht Hl He Hd) as (E1 & E2 & E3 & E4 & E5 & E6). fold f in E1, E2.
  set (s0 := apu_bus_write s 0xFF1E v) in *.
  pose proof (ch3_cycle_triggered s0 E4 E6) as HC. fold s1 in HC.
  assert (Hinv : wv_inv f (ch3 s1)).
  { unfold wv_inv. rewrite HC. psimpl. rewrite E1, E3, E5, E6. repeat split; try reflexivity; try lia. }
  destruct (ch3_clocks f s1 n Hf Hinv) as (_ & _ & H3).
  split; [exact Hf|]. split; [rewrite HC; psimpl; exact E1|].
  rewrite H3, HC. psimpl. rewrite E2, E3, osc_count_reload' by lia. rewrite N.add_0_l. reflexivity.
Qed.

(* ------------------------------------------------------------------------------------------------- *)
(* noise channel *)
Definition noise_div (r : N) : N := if r =? 0 then 8 else 16 * r.
Definition noise_per (r sft : N) : N := noise_div r * 2 ^ sft.

Lemma noise_per_pos r sft : 0 < noise_per r sft.
Proof.
  unfold noise_per, noise_div.
  assert (0 < 2 ^ sft) by (apply N.neq_0_lt_0, N.pow_nonzero; discriminate).
  destruct (r =? 0) eqn:E; nia.
Qed.

Lemma ns_period_eq n : nsDivisor n < 8 -> nsShift n < 16 -> ns_period n = noise_per (nsDivisor n) (nsShift n).
Proof.
  intros Hr Hs. unfold ns_period, noise_per, noise_div.
  rewrite N.shiftl_mul_pow2.
  assert (Hp : 2 ^ nsShift n <= 2 ^ 15) by (apply N.pow_le_mono_r; lia).
  change (2 ^ 15) with 32768 in Hp.
  assert (Hpos : 0 < 2 ^ nsShift n) by (apply N.neq_0_lt_0, N.pow_nonzero; discriminate).
  destruct (nsDivisor n =? 0) eqn:E.
  - assert (E2 : (nsDivisor n * 16 =? 0) = true) by lia. rewrite E2.
    apply N.mod_small. change 4294967296 with (131072 * 32768). lia.
  - assert (E2 : (nsDivisor n * 16 =? 0) = false) by lia. rewrite E2.
    set (p := 2 ^ nsShift n) in *. set (r := nsDivisor n) in *.
    rewrite N.mod_small; [lia|]. change 4294967296 with (131072 * 32768). nia.
Qed.

Definition ns_inv (r sft wd : N) (n : noise) : Prop :=
  nsDivisor n = r /\ nsShift n = sft /\ nsWidth n = wd /\ nsTriggered n = false.
Definition ns_proj (n : noise) : N * N := (nsTimer n, nsLfsr n).

Lemma ns_tick_timer_osc r sft wd n :
  r < 8 -> sft < 16 -> ns_inv r sft wd n ->
  ns_inv r sft wd (ns_tick_timer n) /\
  ns_proj (ns_tick_timer n) = osc_step N (lfsr_step wd) (noise_per r sft) dec32 (ns_proj n).
Proof.
  intros Hr Hs (I1 & I2 & I3 & I4).
  assert (Hp : ns_period n = noise_per r sft) by (rewrite <- I1, <- I2; apply ns_period_eq; congruence).
  unfold ns_tick_timer, ns_inv, ns_proj, osc_step. rewrite Hp, I3.
  destruct (nsTimer n =? 0); psimpl; repeat split; assumption.
Qed.

Lemma ns_ov_inv r sft wd n n' : ns_ov n' = ns_ov n -> ns_inv r sft wd n -> ns_inv r sft wd n' /\ ns_proj n' = ns_proj n.
Proof.
  unfold ns_ov, ns_inv, ns_proj. intros H (H1 & H2 & H3 & H4). injection H as E1 E2 E3 E4 E5 E6.
  rewrite E1, E2, E3, E4, E5, E6. repeat split; assumption.
Qed.

Lemma ch4_clock r sft wd s :
  r < 8 -> sft < 16 -> ns_inv r sft wd (ch4 s) ->
  ns_inv r sft wd (ch4 (fst (apu_tick_clock s))) /\
  ns_proj (ch4 (fst (apu_tick_clock s))) = osc_step N (lfsr_step wd) (noise_per r sft) dec32 (ns_proj (ch4 s)).
Proof.
  intros Hr Hs Hinv.
  destruct (tick_clock_channels s) as (x & Hx & _ & _ & _ & E4 & _). rewrite E4.
  destruct (after_timers_ch s) as (_ & _ & _ & A4 & _).
  assert (Ht : nsTriggered (ch4 s) = false) by apply Hinv. rewrite Ht in A4.
  destruct (ns_tick_timer_osc r sft wd (ch4 s) Hr Hs Hinv) as [B1 B2]. rewrite <- A4 in B1, B2.
  destruct Hx as [-> | ->]; [split; assumption|].
  destruct (ns_ov_inv r sft wd _ _ (ch4_fs_part (after_timers s)) B1) as [C1 C2]. split; [exact C1|]. rewrite C2. exact B2.
Qed.

Theorem ch4_clocks r sft wd s n :
  r < 8 -> sft < 16 -> ns_inv r sft wd (ch4 s) ->
  ns_inv r sft wd (ch4 (apu_clocks n s)) /\
  nsTimer (ch4 (apu_clocks n s)) = osc_timer (noise_per r sft) (nsTimer (ch4 s)) n /\
  nsLfsr (ch4 (apu_clocks n s)) =
    N.iter (osc_count (noise_per r sft) (nsTimer (ch4 s)) n) (lfsr_step wd) (nsLfsr (ch4 s)).
Proof.
  intros Hr Hs Hinv. rewrite apu_clocks_iter.
  destruct (iter_sim tick (osc_step N (lfsr_step wd) (noise_per r sft) dec32) (fun s => ns_proj (ch4 s))
              (fun s => ns_inv r sft wd (ch4 s)) (fun a Ha => ch4_clock r sft wd a Hr Hs Ha) n s Hinv) as [H1 H2].
  split; [exact H1|].
  unfold ns_proj in H2 at 2.
  rewrite (osc_iter N (lfsr_step wd) (noise_per r sft) dec32 dec32_ok (noise_per_pos r sft)) in H2.
  unfold ns_proj in H2. injection H2 as E1 E2. split; assumption.
Qed.

(* NR44 with the trigger bit *)
Definition nr44_noise (n : noise) (v : N) (odd : bool) : noise :=
  let trigger := 0 <? N.land (N.shiftr v 7) 1 in
  let lenEn := 0 <? N.land (N.shiftr v 6) 1 in
  let n := ns_extra_len n lenEn trigger odd in
  let n := if trigger then ns_trig_len (ns_trigger n) lenEn odd else n in
  set_nsLenEn n lenEn.

Lemma WriteNR44_on s v : ctOn (ctl s) = true -> WriteNR44 s v = set_ch4 s (nr44_noise (ch4 s) v (odd_seq s)).
Proof. intros H. unfold WriteNR44, nr44_noise. rewrite H. reflexivity. Qed.

Lemma ns_ov_extra_len n l t o : ns_ov (ns_extra_len n l t o) = ns_ov n.
Proof. unfold ns_extra_len, ns_ov. break_ifs; reflexivity. Qed.
Lemma ns_ov_trig_len n l o : ns_ov (ns_trig_len n l o) = ns_ov n.
Proof. unfold ns_trig_len, ns_ov. break_ifs; reflexivity. Qed.
Lemma ns_ov_trigger n :
  ns_ov (ns_trigger n) = (nsDivisor n, nsShift n, nsWidth n, ns_period n, 0xffff, true).
Proof. unfold ns_trigger, ns_ov, ns_period. psimpl. break_ifs; reflexivity. Qed.

Lemma nr44_noise_trigger n v odd :
  trig_bit v = true ->
  ns_ov (nr44_noise n v odd) = (nsDivisor n, nsShift n, nsWidth n, ns_period n, 0xffff, true).
Proof.
  unfold trig_bit. intros Ht. unfold nr44_noise. rewrite Ht.
  set (n1 := ns_extra_len n _ _ _).
  assert (H1 : ns_ov n1 = ns_ov n) by apply ns_ov_extra_len.
  assert (H2 : ns_ov (ns_trig_len (ns_trigger n1) (0 <? N.land (N.shiftr v 6) 1) odd) =
               (nsDivisor n1, nsShift n1, nsWidth n1, ns_period n1, 0xffff, true))
    by (rewrite ns_ov_trig_len; apply ns_ov_trigger).
  assert (Hp : ns_period n1 = ns_period n).
  { unfold ns_ov in H1. injection H1 as E1 E2 E3 _ _ _. unfold ns_period. rewrite E1, E2. reflexivity. }
  unfold ns_ov in H1. injection H1 as E1 E2 E3 _ _ _. rewrite Hp, E1, E2, E3 in H2.
  generalize dependent (ns_trig_len (ns_trigger n1) (0 <? N.land (N.shiftr v 6) 1) odd). intros n2 H2.
  unfold ns_ov in *. psimpl. exact H2.
Qed.

Lemma ch4_tick_triggered s :
  nsTriggered (ch4 s) = true -> ns_ov (ch4 (tick s)) = ns_ov (ch4 s).
Proof.
  intros Ht. unfold tick. destruct (tick_clock_channels s) as (x & Hx & _ & _ & _ & E4 & _). rewrite E4.
  destruct (after_timers_ch s) as (_ & _ & _ & A4 & _). rewrite Ht in A4.
  destruct Hx as [-> | ->]; [rewrite A4; reflexivity|]. rewrite ch4_fs_part, A4. reflexivity.
Qed.

Lemma ns_ov_triggered_true n n' : ns_ov n' = ns_ov n -> nsTriggered n = true -> nsTriggered n' = true.
Proof. unfold ns_ov. intros H Ht. injection H as _ _ _ _ _ E. congruence. Qed.

Lemma ch4_cycle_triggered s :
  nsTriggered (ch4 s) = true ->
  ns_ov (ch4 (fst (apu_end_machine_cycle s))) =
  (nsDivisor (ch4 s), nsShift (ch4 s), nsWidth (ch4 s), nsTimer (ch4 s), nsLfsr (ch4 s), false).
Proof.
  intros Ht. rewrite end_cycle_ticks.
  pose proof (ch4_tick_triggered s Ht) as H1. pose proof (ns_ov_triggered_true _ _ H1 Ht) as T1.
  pose proof (ch4_tick_triggered _ T1) as H2. pose proof (ns_ov_triggered_true _ _ H2 T1) as T2.
  pose proof (ch4_tick_triggered _ T2) as H3. pose proof (ns_ov_triggered_true _ _ H3 T2) as T3.
  pose proof (ch4_tick_triggered _ T3) as H4.
  rewrite H3, H2, H1 in H4.
  destruct (clear_triggered_ch (tick (tick (tick (tick s))))) as (_ & _ & _ & C4 & _). rewrite C4.
  generalize dependent (ch4 (tick (tick (tick (tick s))))). intros n H4 _.
  unfold ns_ov in *. injection H4 as E1 E2 E3 E4 E5 E6. psimpl. rewrite E1, E2, E3, E4, E5. reflexivity.
Qed.

Lemma ns_ov_eq n a b c d e g :
  ns_ov n = (a, b, c, d, e, g) ->
  nsDivisor n = a /\ nsShift n = b /\ nsWidth n = c /\ nsTimer n = d /\ nsLfsr n = e /\ nsTriggered n = g.
Proof. unfold ns_ov. intros H. inversion H. repeat split. Qed.

(* C21, channel 4: the shift register is clocked every d(r) * 2^s clocks *)
Theorem noise_after_trigger s v n :
  is_on s = true -> trig_bit v = true ->
  let r := nsDivisor (ch4 s) in let sft := nsShift (ch4 s) in let wd := nsWidth (ch4 s) in
  r < 8 -> sft < 16 ->
  let s1 := fst (apu_end_machine_cycle (apu_bus_write s 0xFF23 v)) in
  nsLfsr (ch4 (apu_clocks n s1)) = N.iter ((n - 1) / noise_per r sft) (lfsr_step wd) 0xffff.
Proof.
  intros Hon Ht r sft wd Hr Hs s1.
  change (apu_bus_write s 0xFF23 v) with (WriteNR44 s v) in s1.
  pose proof (WriteNR44_on s v Hon) as HW.
  pose proof (nr44_noise_trigger (ch4 s) v (odd_seq s) Ht) as HT.
  rewrite (ns_period_eq (ch4 s) Hr Hs) in HT. fold r sft wd in HT.
  set (s0 := WriteNR44 s v) in *.
  assert (H0 : ns_ov (ch4 s0) = (r, sft, wd, noise_per r sft, 0xffff, true)) by (rewrite HW; exact HT).
  destruct (ns_ov_eq _ _ _ _ _ _ _ H0) as (E1 & E2 & E3 & E4 & E5 & E6).
  pose proof (ch4_cycle_triggered s0 E6) as HC. fold s1 in HC. rewrite E1, E2, E3, E4, E5 in HC.
  destruct (ns_ov_eq _ _ _ _ _ _ _ HC) as (C1 & C2 & C3 & C4 & C5 & C6).
  assert (Hinv : ns_inv r sft wd (ch4 s1)) by (unfold ns_inv; auto).
  destruct (ch4_clocks r sft wd s1 n Hr Hs Hinv) as (_ & _ & H3).
  rewrite H3, C4, C5, osc_count_reload' by apply noise_per_pos. reflexivity.
Qed.

(* ------------------------------------------------------------------------------------------------- *)
(* exact periods of the shift register, by computing the orbit *)
Section Orbit.
  Variable step : N -> N.
  Variable x1 : N.

  Definition scan_step (st : N * bool) : N * bool :=
    let y' := step (fst st) in (y', snd st && negb (y' =? x1)).
  Definition scan (p : N) : N * bool := N.iter p scan_step (x1, true).

  (* the orbit returns to x1 after exactly p steps and not before *)
  Definition period_ok (p : N) : bool :=
    let st := scan (p - 1) in snd st && (step (fst st) =? x1).

  Lemma scan_spec p :
    fst (scan p) = N.iter p step x1 /\
    (snd (scan p) = true -> forall j, 0 < j -> j <= p -> N.iter j step x1 <> x1).
  Proof.
    induction p as [|p IH] using N.peano_ind.
    - split; [reflexivity|]. intros _ j H1 H2. lia.
    - unfold scan in *. rewrite !N.iter_succ. destruct IH as [I1 I2].
      unfold scan_step at 1. cbn [fst snd]. rewrite I1. split; [reflexivity|].
      intros H j Hj1 Hj2. apply andb_prop in H. destruct H as [Ha Hb].
      destruct (N.eq_dec j (N.succ p)) as [->|Hne].
      + rewrite N.iter_succ. intros E. rewrite I1, E, N.eqb_refl in Hb. discriminate.
      + apply (I2 Ha j Hj1). lia.
  Qed.

  Hypothesis p : N.
  Hypothesis p_pos : 0 < p.
  Hypothesis p_ok : period_ok p = true.

  Lemma orbit_returns : N.iter p step x1 = x1.
  Proof.
    unfold period_ok in p_ok. apply andb_prop in p_ok. destruct p_ok as [_ Hb]. apply N.eqb_eq in Hb.
    rewrite (proj1 (scan_spec (p - 1))) in Hb.
    assert (Hp : p = N.succ (p - 1)) by lia. rewrite Hp, N.iter_succ. exact Hb.
  Qed.

  Lemma orbit_not_before j : 0 < j -> j < p -> N.iter j step x1 <> x1.
  Proof.
    intros H1 H2. unfold period_ok in p_ok. apply andb_prop in p_ok. destruct p_ok as [Ha _].
    apply (proj2 (scan_spec (p - 1)) Ha j H1). lia.
  Qed.

  Lemma orbit_mul m : N.iter (m * p) step x1 = x1.
  Proof.
    induction m as [|m IH] using N.peano_ind; [reflexivity|].
    replace (N.succ m * p) with (m * p + p) by lia. rewrite N.iter_add, orbit_returns. exact IH.
  Qed.

  (* the sequence k |-> step^k x1 has period exactly p at every offset *)
  Theorem orbit_periodic k : N.iter (k + p) step x1 = N.iter k step x1.
  Proof. rewrite N.iter_add, orbit_returns. reflexivity. Qed.

  Theorem orbit_exact k j : 0 < j -> j < p -> N.iter (k + j) step x1 <> N.iter k step x1.
  Proof.
    intros H1 H2 E.
    apply (orbit_not_before j H1 H2).
    assert (Hk : k <= k * p) by nia.
    pose proof (f_equal (N.iter (k * p - k) step) E) as E2.
    rewrite <- !N.iter_add in E2.
    replace (k * p - k + (k + j)) with (j + k * p) in E2 by lia.
    replace (k * p - k + k) with (k * p) in E2 by lia.
    rewrite N.iter_add, orbit_mul in E2. exact E2.
  Qed.
End Orbit.

Definition lfsr_seq (wd : N) (k : N) : N := N.iter k (lfsr_step wd) 0xffff.

Lemma lfsr15_ok : period_ok (lfsr_step 0) 0x7fff 32767 = true.
Proof. vm_compute. reflexivity. Qed.

(* in 7-bit mode the upper bits are delayed copies of the feedback: after 15 steps the whole register is periodic *)
Definition lfsr7_x15 : N := 12336.
Lemma lfsr7_start : lfsr_seq 1 15 = lfsr7_x15.
Proof. vm_compute. reflexivity. Qed.
Lemma lfsr7_ok : period_ok (lfsr_step 1) lfsr7_x15 127 = true.
Proof. vm_compute. reflexivity. Qed.

Lemma lfsr15_start : lfsr_seq 0 1 = 0x7fff.
Proof. vm_compute. reflexivity. Qed.

(* C21: the 15-bit register sequence has period exactly 32767 (from the first step after a trigger on) *)
Theorem lfsr15_period k :
  1 <= k ->
  lfsr_seq 0 (k + 32767) = lfsr_seq 0 k /\ (forall j, 0 < j -> j < 32767 -> lfsr_seq 0 (k + j) <> lfsr_seq 0 k).
Proof.
  intros Hk. unfold lfsr_seq.
  assert (Hs : forall m, N.iter (m + 1) (lfsr_step 0) 0xffff = N.iter m (lfsr_step 0) 0x7fff).
  { intros m. rewrite N.iter_add. f_equal. }
  assert (Hex : exists k', k = k' + 1) by (exists (k - 1); lia). destruct Hex as [k' ->].
  split.
  - replace (k' + 1 + 32767) with ((k' + 32767) + 1) by lia. rewrite !Hs.
    apply (orbit_periodic (lfsr_step 0) 0x7fff 32767 eq_refl lfsr15_ok).
  - intros j H1 H2. replace (k' + 1 + j) with ((k' + j) + 1) by lia. rewrite !Hs.
    apply (orbit_exact (lfsr_step 0) 0x7fff 32767 eq_refl lfsr15_ok); assumption.
Qed.

(* ... and the 7-bit one period exactly 127 (whole register, from step 15 on; the low seven bits and the output
   bit from the start, see step7_ok / low7_step) *)
Theorem lfsr7_period k :
  15 <= k ->
  lfsr_seq 1 (k + 127) = lfsr_seq 1 k /\ (forall j, 0 < j -> j < 127 -> lfsr_seq 1 (k + j) <> lfsr_seq 1 k).
Proof.
  intros Hk. unfold lfsr_seq.
  assert (Hs : forall m, N.iter (m + 15) (lfsr_step 1) 0xffff = N.iter m (lfsr_step 1) lfsr7_x15).
  { intros m. rewrite N.iter_add. f_equal; try exact lfsr7_start. }
  assert (Hex : exists k', k = k' + 15) by (exists (k - 15); lia). destruct Hex as [k' ->].
  split.
  - replace (k' + 15 + 127) with ((k' + 127) + 15) by lia. rewrite !Hs.
    apply (orbit_periodic (lfsr_step 1) lfsr7_x15 127 eq_refl lfsr7_ok).
  - intros j H1 H2. replace (k' + 15 + j) with ((k' + j) + 15) by lia. rewrite !Hs.
    apply (orbit_exact (lfsr_step 1) lfsr7_x15 127 eq_refl lfsr7_ok); assumption.
Qed.

(* the low seven bits (which include the output bit) evolve on their own in 7-bit mode, with period exactly 127
   from the trigger value on *)
Definition step7 (x : N) : N :=
  N.lor (N.shiftr x 1) (N.shiftl (N.lxor (N.land x 1) (N.land (N.shiftr x 1) 1)) 6).

Lemma sweep_u16 (P : N -> bool) :
  forallb (fun h => forallb (fun b => P (256 * h + b)) bytes) bytes = true -> forall l, l < 65536 -> P l = true.
Proof.
  intros H l Hl.
  assert (Hh : l / 256 < 256) by (apply N.div_lt_upper_bound; lia).
  assert (Hb : l mod 256 < 256) by (apply N.mod_lt; discriminate).
  pose proof (sweep_bytes _ H (l / 256) Hh) as H1. cbv beta in H1.
  pose proof (sweep_bytes _ H1 (l mod 256) Hb) as H2. cbv beta in H2.
  rewrite <- (N.div_mod l 256) in H2 by discriminate. exact H2.
Qed.

Lemma low7_check :
  forallb (fun h => forallb (fun b => let l := 256 * h + b in lfsr_step 1 l mod 128 =? step7 (l mod 128)) bytes) bytes
  = true.
Proof. vm_compute. reflexivity. Qed.

Lemma low7_step l : l < 65536 -> lfsr_step 1 l mod 128 = step7 (l mod 128).
Proof.
  intros H. apply N.eqb_eq.
  exact (sweep_u16 (fun l => lfsr_step 1 l mod 128 =? step7 (l mod 128)) low7_check l H).
Qed.

Lemma step7_ok : period_ok step7 0x7f 127 = true.
Proof. vm_compute. reflexivity. Qed.
