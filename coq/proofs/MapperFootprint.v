(* MapperFootprint.v — C07: a write changes no readable byte outside the documented effect set
   (AddrSpec.footprint).  Component separation (MapperFrame) for reads served by another component, the
   within-component lemmas (MapperWithin, MapperApu) otherwise; the decoder theorem (MapperDecode) connects
   addresses to handlers. *)
From Coq Require Import ZArith ZifyN ZifyNat ZifyBool.
From V.lib Require Import Bits Mem Res.
From V.model Require Import Ints Joypad Timer Rtc Cart Oam PpuTiming Apu MapperTypes System.
From V.gen Require Import GenMapper.
From V.spec Require Import AddrSpec.
From V.proofs Require Import MapperDecode MapperFrame MapperWithin MapperApu.

(* ---- evaluating the footprint table under range facts about the written address ---- *)
Ltac decide_in H :=
  repeat match type of H with
         | context [if ?c then _ else _] =>
             let E := fresh "E" in
             first [ assert (E : c = true) by lia; rewrite E in H; clear E
                   | assert (E : c = false) by lia; rewrite E in H; clear E
                   | destruct c eqn:E ]
         end.

Ltac fp_use H :=
  unfold footprint, fp_ranges in H; decide_in H; cbn [in_ranges existsb fst snd] in H.

Lemma comp_eq_dec (x y : comp) : {x = y} + {x <> y}.
Proof. decide equality. Qed.

Lemma mbc2_images_out a b :
  0xA000 <= a < 0xC000 -> 0xA000 <= b < 0xC000 -> in_ranges (mbc2_images a) b = false ->
  (a - 40960) mod 512 <> (b - 40960) mod 512.
Proof.
  intros Ha Hb H E.
  assert (X : in_ranges (mbc2_images a) b = true); [|congruence].
  unfold in_ranges, mbc2_images. apply existsb_exists.
  exists (0xA000 + 512 * ((b - 0xA000) / 512) + (a - 0xA000) mod 512, 0xA000 + 512 * ((b - 0xA000) / 512) + (a - 0xA000) mod 512).
  split.
  - apply in_map_iff. exists ((b - 0xA000) / 512). split; [reflexivity|].
    apply In_upto. change (N.of_nat 16) with 16. apply N.div_lt_upper_bound; lia.
  - cbn [fst snd]. change 40960 with 0xA000 in E.
    pose proof (N.div_mod (b - 0xA000) 512). lia.
Qed.

(* ---- registers of one component ---- *)
Lemma apu_read_eq r s : is_apu_reg r = true -> reg_read r s = apu_reg_read r (s_apu s).
Proof. destruct r; cbn [is_apu_reg]; intros H; try discriminate H; reflexivity. Qed.

Lemma apu_write_eq r s v : is_apu_reg r = true -> reg_write r s v = set_apu (apu_reg_write r (s_apu s) v) s.
Proof. destruct r; cbn [is_apu_reg]; intros H; try discriminate H; reflexivity. Qed.

Lemma apu_reg_comp r : comp_of_reg r = KApu -> is_apu_reg r = true.
Proof. destruct r; cbn; intros H; try discriminate H; reflexivity. Qed.

Lemma apu_fp_table k r1 r2 : is_apu_reg r1 = true -> is_apu_reg r2 = true ->
  in_ranges (fp_ranges k (reg_addr r1)) (reg_addr r2) = apu_fp r1 r2.
Proof.
  destruct r1; cbn [is_apu_reg]; intros H1; try discriminate H1;
    destruct r2; cbn [is_apu_reg]; intros H2; try discriminate H2; vm_compute; reflexivity.
Qed.

Lemma apu_fp_wave_table k r1 b : is_apu_reg r1 = true -> 0xFF30 <= b < 0xFF40 ->
  in_ranges (fp_ranges k (reg_addr r1)) b = apu_fp_wave r1.
Proof.
  destruct r1; cbn [is_apu_reg]; intros H1 Hb; try discriminate H1;
    cbn [reg_addr apu_fp_wave]; unfold fp_ranges;
    repeat match goal with
           | |- context [if ?c then _ else _] =>
               let c' := eval vm_compute in c in change c with c'; cbv iota
           end;
    cbn [in_ranges existsb fst snd]; lia.
Qed.

(* a register write inside the PPU: every other PPU register keeps its value, except LY and STAT after LCDC *)
Definition ppu_fp (r1 r2 : ioreg) : bool :=
  match r1, r2 with
  | R_LCDC, (R_LCDC | R_STAT | R_LY) => true
  | R_STAT, R_STAT | R_SCY, R_SCY | R_SCX, R_SCX | R_LY, R_LY | R_LYC, R_LYC | R_BGP, R_BGP | R_OBP0, R_OBP0
  | R_OBP1, R_OBP1 | R_WY, R_WY | R_WX, R_WX => true
  | _, _ => false
  end.

Lemma ppu_reg_frame r1 r2 s v :
  comp_of_reg r1 = KPpu -> comp_of_reg r2 = KPpu -> ppu_fp r1 r2 = false ->
  reg_read r2 (reg_write r1 s v) = reg_read r2 s.
Proof.
  destruct r1; cbn [comp_of_reg]; intros H1; try discriminate H1;
    destruct r2; cbn [comp_of_reg ppu_fp]; intros H2 H3; try discriminate H2; try discriminate H3;
    try reflexivity;
    unfold reg_write, reg_read; sysf;
    unfold ppu_write_lcdc, ppu_enable, ppu_disable;
    destruct (tb v 128 && negb (p_enabled (s_ppu s))); try reflexivity;
    destruct (negb (tb v 128) && p_enabled (s_ppu s)); reflexivity.
Qed.

Lemma ppu_fp_table k r1 r2 : comp_of_reg r1 = KPpu -> comp_of_reg r2 = KPpu ->
  in_ranges (fp_ranges k (reg_addr r1)) (reg_addr r2) = ppu_fp r1 r2.
Proof.
  destruct r1; cbn [comp_of_reg]; intros H1; try discriminate H1;
    destruct r2; cbn [comp_of_reg]; intros H2; try discriminate H2; vm_compute; reflexivity.
Qed.

Definition timer_fp (r1 r2 : ioreg) : bool :=
  match r1, r2 with
  | R_DIV, R_DIV | R_TIMA, R_TIMA | R_TMA, (R_TMA | R_TIMA) | R_TAC, R_TAC => true
  | _, _ => false
  end.

Lemma timer_reg_frame r1 r2 s v :
  comp_of_reg r1 = KTimer -> comp_of_reg r2 = KTimer -> timer_fp r1 r2 = false ->
  reg_read r2 (reg_write r1 s v) = reg_read r2 s.
Proof.
  destruct r1; cbn [comp_of_reg]; intros H1; try discriminate H1;
    destruct r2; cbn [comp_of_reg timer_fp]; intros H2 H3; try discriminate H2; try discriminate H3;
    try reflexivity;
    unfold reg_write, reg_read, timer_write_tima; sysf;
    destruct (t_phase (s_timer s) =? phase_reload); reflexivity.
Qed.

Lemma timer_fp_table k r1 r2 : comp_of_reg r1 = KTimer -> comp_of_reg r2 = KTimer ->
  in_ranges (fp_ranges k (reg_addr r1)) (reg_addr r2) = timer_fp r1 r2.
Proof.
  destruct r1; cbn [comp_of_reg]; intros H1; try discriminate H1;
    destruct r2; cbn [comp_of_reg]; intros H2; try discriminate H2; vm_compute; reflexivity.
Qed.

Lemma ints_reg_frame r1 r2 s v :
  comp_of_reg r1 = KInts -> comp_of_reg r2 = KInts -> r1 <> r2 ->
  reg_read r2 (reg_write r1 s v) = reg_read r2 s.
Proof.
  destruct r1; cbn [comp_of_reg]; intros H1; try discriminate H1;
    destruct r2; cbn [comp_of_reg]; intros H2 H3; try discriminate H2; try congruence; reflexivity.
Qed.

(* every address is in its own footprint, except ... nothing: own address always belongs to the effect set *)
Lemma fp_own_reg k r : in_ranges (fp_ranges k (reg_addr r)) (reg_addr r) = true.
Proof. destruct r; vm_compute; reflexivity. Qed.

(* ---- inversion: which handlers belong to a component ---- *)
Lemma handler_region a : a < 65536 ->
  match handler_of (spec_region a) with
  | HMbc => a < 0x8000 \/ 0xA000 <= a < 0xC000
  | HVideoRAM => 0x8000 <= a < 0xA000
  | HInternalRAM base => (base = 0xC000 /\ 0xC000 <= a < 0xE000) \/ (base = 0xE000 /\ 0xE000 <= a < 0xFE00)
  | HOam => 0xFE00 <= a < 0xFF00
  | HReg r => a = reg_addr r
  | HConstFF => 0xFF00 <= a < 0xFF80 /\ reg_at a = None /\ ~ (0xFF30 <= a < 0xFF40)
  | HWaveRAM => 0xFF30 <= a < 0xFF40
  | HZeroPage base => base = 0xFF80 /\ 0xFF80 <= a < 0xFFFF
  | HPanic => False
  end.
Proof.
  intros H. pose proof (region_inv a H) as R.
  destruct (spec_region a); cbn [handler_of]; try lia; try exact R.
Qed.

(* ---- the theorem ---- *)
Theorem write_frame s a v s' b :
  a < 65536 -> b < 65536 -> footprint s a b = false -> sys_write s a v = Ok s' -> peek s' b = peek s b.
Proof.
  intros Ha Hb Hfp Hw. rewrite !peek_rd.
  pose proof (decode_read_ok b Hb) as Erb. pose proof (decode_write_ok a Ha) as Ewa.
  pose proof (handler_region a Ha) as Ra. pose proof (handler_region b Hb) as Rb.
  rewrite Erb. rewrite <- Ewa in Ra.
  set (hb := handler_of (spec_region b)) in *. set (ha := write_handler a) in *.
  destruct (comp_eq_dec (comp_of hb) (comp_of ha)) as [Ec|Nc].
  2: { (* served by another component *)
    assert (Dl : (ha = HReg R_LCDC /\ comp_of hb = KOam) \/ (ha = HReg R_LCDC -> comp_of hb <> KOam)).
    { destruct (comp_eq_dec (comp_of hb) KOam) as [E|N]; [|right; intros _; exact N].
      destruct ha as [| | | |r| | | |]; try (right; intros X; discriminate X).
      destruct r; try (right; intros X; discriminate X). left; split; [reflexivity | exact E]. }
    destruct Dl as [[El Eo]|Dl].
    - (* LCDC and the OAM component: only the corruption window changes *)
      unfold sys_write in Hw. fold ha in Hw. rewrite El in Hw. inv_ok Hw.
      destruct hb as [| | | |r| | | |]; try discriminate Eo.
      + cbn [rd reg_write]. sysf. apply lcdc_oam_read.
      + destruct r; try discriminate Eo. cbn [rd reg_read reg_write]. sysf. unfold oam_read_dma.
        rewrite lcdc_dmareg. reflexivity.
    - apply rd_dep. eapply write_comp; [exact Hw | exact Nc | exact Dl]. }
  (* served by the component the write went to *)
  unfold sys_write in Hw. fold ha in Hw.
  destruct ha as [| |basea| |ra| | |basea|] eqn:Eha; cbn [comp_of] in Ec.
  - (* cartridge *)
    destruct hb as [| | | |rb| | | |]; try discriminate Ec; [|destruct rb; discriminate Ec].
    apply bind_ok in Hw. destruct Hw as (c' & Hc & Hw). inv_ok Hw. cbn [rd]. sysf.
    destruct Ra as [Ra|Ra].
    + exfalso. fp_use Hfp. lia.
    + apply (cart_ramwin_frame _ _ _ _ _ Hc Ra Hb). intros Hbw.
      unfold ramwin_same_cell. unfold footprint, fp_ranges in Hfp. decide_in Hfp.
      destruct (c_kind (s_cart s)).
      1,2,4,5: cbn [in_ranges existsb fst snd] in Hfp; lia.
      apply N.eqb_neq. apply mbc2_images_out; assumption.
  - (* video RAM *)
    apply bind_ok in Hw. destruct Hw as (p' & Hp & Hw). inv_ok Hw.
    destruct hb as [| | | |rb| | | |]; try discriminate Ec.
    + cbn [rd]. sysf. apply (vram_write_read _ _ _ _ _ Hp Ha Hb). fp_use Hfp. lia.
    + cbn [rd]. f_equal. cbn [comp_of] in Ec.
      rewrite (vram_write_regs _ _ _ _ rb Hp Ec s).
      destruct rb; try discriminate Ec; reflexivity.
  - (* work RAM *)
    apply bind_ok in Hw. destruct Hw as (m' & Hm & Hw). inv_ok Hw.
    destruct hb as [| |baseb| |rb| | | |]; try discriminate Ec; [|destruct rb; discriminate Ec].
    cbn [rd]. sysf. apply (arr_set_get _ _ _ _ _ _ Hm).
    destruct Ra as [[-> Ra]|[-> Ra]]; destruct Rb as [[-> Rb]|[-> Rb]]; fp_use Hfp; lia.
  - (* OAM *)
    apply bind_ok in Hw. destruct Hw as (o' & Ho & Hw). inv_ok Hw.
    destruct hb as [| | | |rb| | | |]; try discriminate Ec.
    + cbn [rd]. sysf. apply (oam_write_read _ _ _ _ _ Ho Ha Hb). fp_use Hfp. lia.
    + destruct rb; try discriminate Ec. cbn [rd reg_read]. sysf. unfold oam_read_dma.
      rewrite (oam_write_dmareg _ _ _ _ Ho). reflexivity.
  - (* a register *)
    inv_ok Hw.
    destruct hb as [| | | |rb| | | |]; cbn [comp_of] in Ec.
    + destruct ra; discriminate Ec.
    + (* PPU register, video RAM read *)
      cbn [rd]. apply ppu_read_vram_dep. apply ppu_reg_write_vram. symmetry; exact Ec.
    + destruct ra; discriminate Ec.
    + (* DMA register, OAM read: inside the effect set *)
      destruct ra; try discriminate Ec. exfalso. cbn [reg_addr] in Hfp. fp_use Hfp. lia.
    + (* register, register *)
      cbn [rd]. f_equal. subst b. unfold footprint in Hfp.
      destruct (comp_of_reg ra) eqn:Ca.
      * (* interrupts *) apply ints_reg_frame; [exact Ca | exact Ec |].
        intros ->. rewrite fp_own_reg in Hfp. discriminate Hfp.
      * (* DMA *) destruct ra; try discriminate Ca. destruct rb; try discriminate Ec.
        rewrite fp_own_reg in Hfp. discriminate Hfp.
      * (* PPU *) apply ppu_reg_frame; [exact Ca | exact Ec |]. rewrite <- (ppu_fp_table (c_kind (s_cart s)) _ _ Ca Ec). exact Hfp.
      * destruct ra; discriminate Ca.
      * (* joypad *) destruct ra; try discriminate Ca. destruct rb; try discriminate Ec.
        rewrite fp_own_reg in Hfp. discriminate Hfp.
      * (* timer *) apply timer_reg_frame; [exact Ca | exact Ec |]. rewrite <- (timer_fp_table (c_kind (s_cart s)) _ _ Ca Ec). exact Hfp.
      * (* sound *)
        pose proof (apu_reg_comp _ Ca) as Aa. pose proof (apu_reg_comp _ Ec) as Ab.
        rewrite (apu_write_eq _ _ _ Aa), !(apu_read_eq _ _ Ab). sysf.
        apply apu_reg_frame; [exact Aa | exact Ab |]. rewrite <- (apu_fp_table (c_kind (s_cart s)) _ _ Aa Ab). exact Hfp.
      * destruct ra; discriminate Ca.
      * destruct ra; discriminate Ca.
      * (* serial: reads are constant *) destruct rb; try discriminate Ec; reflexivity.
    + (* register, unmapped read *) reflexivity.
    + (* sound register, wave RAM read *)
      pose proof (apu_reg_comp _ (eq_sym Ec)) as Aa.
      cbn [rd]. rewrite (apu_write_eq _ _ _ Aa). sysf.
      apply wave_read_dep; [exact Rb|]. apply apu_reg_wave_view; [exact Aa|].
      unfold footprint in Hfp. rewrite (apu_fp_wave_table _ _ _ Aa Rb) in Hfp. exact Hfp.
    + destruct ra; discriminate Ec.
    + destruct Rb.
  - (* ignored write *) inv_ok Hw. reflexivity.
  - (* wave RAM *)
    apply bind_ok in Hw. destruct Hw as (x & Hx & Hw). inv_ok Hw.
    unfold apu_bus_write_r in Hx.
    destruct ((65328 <=? a) && (a <? 65344) && negb (wave_index (s_apu s) a <? 16)); [discriminate Hx|]. inv_ok Hx.
    rewrite (apu_bus_write_wave _ _ _ Ra).
    destruct hb as [| | | |rb| | | |]; try discriminate Ec.
    + cbn [comp_of] in Ec. pose proof (apu_reg_comp _ Ec) as Ab.
      cbn [rd]. f_equal. rewrite !(apu_read_eq _ _ Ab). sysf. apply apu_wave_write_regs. exact Ab.
    + exfalso. fp_use Hfp. lia.
  - (* high RAM *)
    apply bind_ok in Hw. destruct Hw as (m' & Hm & Hw). inv_ok Hw.
    destruct hb as [| | | |rb| | |baseb|]; try discriminate Ec; [destruct rb; discriminate Ec|].
    cbn [rd]. sysf. apply (arr_set_get _ _ _ _ _ _ Hm).
    destruct Ra as [-> Ra]; destruct Rb as [-> Rb]. fp_use Hfp. lia.
  - discriminate Hw.
Qed.

(* a write to an address without a register is ignored: the state is the same *)
Theorem unmapped_write s a v : a < 65536 -> is_unmapped a = true -> sys_write s a v = Ok s.
Proof.
  intros Ha Hu. pose proof (decode_write_ok a Ha) as E. pose proof (region_inv a Ha) as R.
  unfold sys_write. rewrite E. unfold is_unmapped in Hu.
  destruct (spec_region a) as [| | | | | | |r| | |]; try (exfalso; lia); [|reflexivity].
  exfalso. subst a. destruct r; vm_compute in Hu; discriminate Hu.
Qed.
