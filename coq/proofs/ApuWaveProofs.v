(* ApuWaveProofs.v — C18: writes while powered off, and wave RAM across power cycles. *)
From V.lib Require Import Bits Mem Res.
From V.model Require Import Apu.
From V.proofs Require Import ApuLemmas ApuStatusProofs.
From Coq Require Import ZArith ZifyN ZifyNat ZifyBool.

(* ------------------------------------------------------------------------------------------------- *)
(* while powered off, a write to FF10-FF2F other than NR52 changes nothing but a length counter *)
Definition off_write_effect (s : apu) (a v : N) : apu :=
  if a =? 0xFF11 then set_ch1 s (set_sqLength (ch1 s) (sub8 64 (N.land v 0x3f)))
  else if a =? 0xFF16 then set_ch2 s (set_sqLength (ch2 s) (sub8 64 (N.land v 0x3f)))
  else if a =? 0xFF1B then set_ch3 s (set_wvLength (ch3 s) (sub16 256 v))
  else if a =? 0xFF20 then set_ch4 s (set_nsLength (ch4 s) (sub8 64 (N.land v 0x3f)))
  else s.

Theorem off_write s a v :
  is_on s = false -> a < 0xFF30 -> a <> 0xFF26 -> apu_bus_write s a v = off_write_effect s a v.
Proof.
  unfold is_on. intros Hoff Ha Hne. unfold off_write_effect.
  addr_chain; cbn [N.eqb Pos.eqb];
    try (unfold WriteNR10, WriteNR11, WriteNR12, WriteNR13, WriteNR14, WriteNR21, WriteNR22, WriteNR23, WriteNR24,
           WriteNR30, WriteNR31, WriteNR32, WriteNR33, WriteNR34, WriteNR41, WriteNR42, WriteNR43, WriteNR44,
           WriteNR50, WriteNR51; rewrite ?Hoff; reflexivity).
  - contradiction.
  - assert (E : (a <? 0xFF30) = true) by lia. rewrite E. reflexivity.
Qed.

(* ------------------------------------------------------------------------------------------------- *)
(* wave RAM *)
Definition wave_ram (s : apu) : Mem.t := wvRam (ch3 s).

Lemma wv_ram_tick_timer w : wvRam (wv_tick_timer w) = wvRam w.
Proof. unfold wv_tick_timer. break_ifs; reflexivity. Qed.
Lemma wv_ram_tick_length w : wvRam (wv_tick_length w) = wvRam w.
Proof. unfold wv_tick_length. break_ifs; reflexivity. Qed.

Lemma ram_tick_timers s : wave_ram (tick_timers s) = wave_ram s.
Proof.
  unfold wave_ram. destruct (tick_timers_proj s) as (_ & _ & H3 & _). rewrite H3.
  destruct (wvTriggered (ch3 s)); [reflexivity|apply wv_ram_tick_timer].
Qed.
Lemma ram_tick_lengths s : wave_ram (tick_lengths s) = wave_ram s.
Proof. unfold wave_ram, tick_lengths. psimpl. apply wv_ram_tick_length. Qed.
Lemma ram_tick_envelopes s : wave_ram (tick_envelopes s) = wave_ram s.
Proof. reflexivity. Qed.
Lemma ram_tick_sweep s : wave_ram (tick_sweep s) = wave_ram s.
Proof. reflexivity. Qed.

Lemma ram_fs_part s : wave_ram (fs_part s) = wave_ram s.
Proof.
  unfold fs_part.
  repeat match goal with |- context [if ?b then _ else _] => destruct b end;
    rewrite ?ram_tick_sweep, ?ram_tick_envelopes, ?ram_tick_lengths; reflexivity.
Qed.

Lemma ram_wrap_ticks s : wave_ram (wrap_ticks s) = wave_ram s.
Proof. unfold wrap_ticks. destruct (ticksPerSecond <? ticks s); reflexivity. Qed.

Lemma ram_tick_clock s : wave_ram (fst (apu_tick_clock s)) = wave_ram s.
Proof.
  rewrite tick_clock_shape. cbv zeta.
  assert (H : wave_ram (after_timers s) = wave_ram s)
    by (unfold after_timers; rewrite ram_tick_timers; apply ram_wrap_ticks).
  destruct (fs_hit s).
  - match goal with |- context [if ?b then _ else _] => destruct b end;
      unfold wave_ram in *; psimpl; fold (wave_ram (fs_part (after_timers s))); rewrite ram_fs_part; exact H.
  - unfold wave_ram in *; psimpl. exact H.
Qed.

Lemma ram_clear_triggered s : wave_ram (clear_triggered s) = wave_ram s.
Proof. reflexivity. Qed.

Lemma ram_end_cycle s : wave_ram (fst (apu_end_machine_cycle s)) = wave_ram s.
Proof. rewrite end_cycle_unfold, ram_clear_triggered, !ram_tick_clock. reflexivity. Qed.

(* every register handler except NR34 leaves the wave RAM alone *)
Lemma ram_W10 s v : wave_ram (WriteNR10 s v) = wave_ram s.
Proof. unfold wave_ram, WriteNR10, sq_write_nrx2. destruct (ctOn (ctl s)); psimpl; break_ifs; reflexivity. Qed.
Lemma ram_W11 s v : wave_ram (WriteNR11 s v) = wave_ram s.
Proof. unfold wave_ram, WriteNR11, sq_write_nrx2. destruct (ctOn (ctl s)); psimpl; break_ifs; reflexivity. Qed.
Lemma ram_W12 s v : wave_ram (WriteNR12 s v) = wave_ram s.
Proof. unfold wave_ram, WriteNR12, sq_write_nrx2. destruct (ctOn (ctl s)); psimpl; break_ifs; reflexivity. Qed.
Lemma ram_W13 s v : wave_ram (WriteNR13 s v) = wave_ram s.
Proof. unfold wave_ram, WriteNR13, sq_write_nrx2. destruct (ctOn (ctl s)); psimpl; break_ifs; reflexivity. Qed.
Lemma ram_W14 s v : wave_ram (WriteNR14 s v) = wave_ram s.
Proof. unfold wave_ram, WriteNR14, sq_write_nrx2. destruct (ctOn (ctl s)); psimpl; break_ifs; reflexivity. Qed.
Lemma ram_W21 s v : wave_ram (WriteNR21 s v) = wave_ram s.
Proof. unfold wave_ram, WriteNR21, sq_write_nrx2. destruct (ctOn (ctl s)); psimpl; break_ifs; reflexivity. Qed.
Lemma ram_W22 s v : wave_ram (WriteNR22 s v) = wave_ram s.
Proof. unfold wave_ram, WriteNR22, sq_write_nrx2. destruct (ctOn (ctl s)); psimpl; break_ifs; reflexivity. Qed.
Lemma ram_W23 s v : wave_ram (WriteNR23 s v) = wave_ram s.
Proof. unfold wave_ram, WriteNR23, sq_write_nrx2. destruct (ctOn (ctl s)); psimpl; break_ifs; reflexivity. Qed.
Lemma ram_W24 s v : wave_ram (WriteNR24 s v) = wave_ram s.
Proof. unfold wave_ram, WriteNR24, sq_write_nrx2. destruct (ctOn (ctl s)); psimpl; break_ifs; reflexivity. Qed.
Lemma ram_W30 s v : wave_ram (WriteNR30 s v) = wave_ram s.
Proof. unfold wave_ram, WriteNR30, sq_write_nrx2. destruct (ctOn (ctl s)); psimpl; break_ifs; reflexivity. Qed.
Lemma ram_W31 s v : wave_ram (WriteNR31 s v) = wave_ram s.
Proof. unfold wave_ram, WriteNR31, sq_write_nrx2. destruct (ctOn (ctl s)); psimpl; break_ifs; reflexivity. Qed.
Lemma ram_W32 s v : wave_ram (WriteNR32 s v) = wave_ram s.
Proof. unfold wave_ram, WriteNR32, sq_write_nrx2. destruct (ctOn (ctl s)); psimpl; break_ifs; reflexivity. Qed.
Lemma ram_W33 s v : wave_ram (WriteNR33 s v) = wave_ram s.
Proof. unfold wave_ram, WriteNR33, sq_write_nrx2. destruct (ctOn (ctl s)); psimpl; break_ifs; reflexivity. Qed.
Lemma ram_W41 s v : wave_ram (WriteNR41 s v) = wave_ram s.
Proof. unfold wave_ram, WriteNR41, sq_write_nrx2. destruct (ctOn (ctl s)); psimpl; break_ifs; reflexivity. Qed.
Lemma ram_W42 s v : wave_ram (WriteNR42 s v) = wave_ram s.
Proof. unfold wave_ram, WriteNR42, sq_write_nrx2. destruct (ctOn (ctl s)); psimpl; break_ifs; reflexivity. Qed.
Lemma ram_W43 s v : wave_ram (WriteNR43 s v) = wave_ram s.
Proof. unfold wave_ram, WriteNR43, sq_write_nrx2. destruct (ctOn (ctl s)); psimpl; break_ifs; reflexivity. Qed.
Lemma ram_W44 s v : wave_ram (WriteNR44 s v) = wave_ram s.
Proof. unfold wave_ram, WriteNR44, sq_write_nrx2. destruct (ctOn (ctl s)); psimpl; break_ifs; reflexivity. Qed.
Lemma ram_W50 s v : wave_ram (WriteNR50 s v) = wave_ram s.
Proof. unfold wave_ram, WriteNR50, sq_write_nrx2. destruct (ctOn (ctl s)); psimpl; break_ifs; reflexivity. Qed.
Lemma ram_W51 s v : wave_ram (WriteNR51 s v) = wave_ram s.
Proof. unfold wave_ram, WriteNR51, sq_write_nrx2. destruct (ctOn (ctl s)); psimpl; break_ifs; reflexivity. Qed.

#[export] Hint Rewrite ram_W10 ram_W11 ram_W12 ram_W13 ram_W14 ram_W21 ram_W22 ram_W23 ram_W24 ram_W30 ram_W31 ram_W32 ram_W33 ram_W41 ram_W42 ram_W43 ram_W44 ram_W50 ram_W51 : apu_ram.

Lemma wv_ram_extra_len w l t o : wvRam (wv_extra_len w l t o) = wvRam w.
Proof. unfold wv_extra_len. break_ifs; reflexivity. Qed.

(* NR34 without the trigger bit *)
Lemma ram_W34_notrig s v : trig_bit v = false -> wave_ram (WriteNR34 s v) = wave_ram s.
Proof.
  unfold trig_bit. intros Ht. unfold wave_ram, WriteNR34. destruct (ctOn (ctl s)); [|reflexivity].
  rewrite Ht. psimpl. rewrite wv_ram_extra_len. reflexivity.
Qed.

Lemma ram_off_chain s : wave_ram (off_chain s) = wave_ram s.
Proof.
  unfold off_chain.
  rewrite ram_W51, ram_W50, ram_W44, ram_W43, ram_W42, (ram_W34_notrig _ 0 eq_refl), ram_W33, ram_W32, ram_W30,
          ram_W24, ram_W23, ram_W22, ram_W14, ram_W13, ram_W12, ram_W10.
  reflexivity.
Qed.

Lemma ram_W52 s v : wave_ram (WriteNR52 s v) = wave_ram s.
Proof.
  destruct (N.shiftr v 7 =? 0) eqn:E.
  - rewrite (W52_off_eq s v E).
    assert (H : forall x, wave_ram (off_tail x) = wave_ram x) by reflexivity.
    rewrite H. apply ram_off_chain.
  - unfold WriteNR52. rewrite E. destruct (ctOn (ctl s)); reflexivity.
Qed.

Lemma ram_write s a v :
  a < 0xFF30 -> a <> 0xFF1E -> wave_ram (apu_bus_write s a v) = wave_ram s.
Proof.
  intros Ha Hne.
  addr_chain; try (autorewrite with apu_ram; reflexivity); try contradiction.
  - apply ram_W52.
  - assert (E : (a <? 0xFF30) = true) by lia. rewrite E. reflexivity.
Qed.

(* histories that neither write wave RAM nor NR34 *)
Definition ram_safe (o : apu_op) : bool :=
  match o with OWrite a v => (a <? 0xFF30) && negb (a =? 0xFF1E) | OCycle => true end.

Lemma ram_step s o : ram_safe o = true -> wave_ram (apu_step s o) = wave_ram s.
Proof.
  destruct o as [a v|]; cbn [ram_safe apu_step]; intros H.
  - apply andb_prop in H. destruct H as [H1 H2]. apply ram_write; lia.
  - apply ram_end_cycle.
Qed.

Theorem ram_run ops : forall s, forallb ram_safe ops = true -> wave_ram (apu_run s ops) = wave_ram s.
Proof.
  induction ops as [|o ops IH]; intros s H; cbn [apu_run fold_left forallb] in *; [reflexivity|].
  apply andb_prop in H. destruct H as [H1 H2].
  fold (apu_run (apu_step s o) ops). rewrite (IH _ H2). apply ram_step, H1.
Qed.

(* reading and writing while channel 3 is off goes straight to the cell *)
Lemma wave_read_off s i :
  en3 s = false -> i < 16 -> apu_bus_read s (0xFF30 + i) = Mem.get (wave_ram s) i.
Proof.
  unfold en3. intros Hoff Hi. unfold apu_bus_read.
  repeat match goal with
         | |- (if ?a =? ?k then _ else _) = _ => destruct (N.eqb_spec a k); [exfalso; lia|]
         end.
  assert (E1 : (0xFF30 + i <? 0xFF30) = false) by lia. assert (E2 : (0xFF30 + i <? 0xFF40) = true) by lia.
  rewrite E1, E2. unfold ReadWaveRAM, wave_ram. rewrite Hoff. f_equal. unfold sub16. lia.
Qed.

Lemma wave_write_off s i v :
  en3 s = false -> i < 16 ->
  wave_ram (apu_bus_write s (0xFF30 + i) v) = Mem.set (wave_ram s) i v /\ en3 (apu_bus_write s (0xFF30 + i) v) = false.
Proof.
  unfold en3. intros Hoff Hi. unfold apu_bus_write.
  repeat match goal with
         | |- context [if ?a =? ?k then _ else _] => destruct (N.eqb_spec a k); [exfalso; lia|]
         end.
  assert (E1 : (0xFF30 + i <? 0xFF30) = false) by lia. assert (E2 : (0xFF30 + i <? 0xFF40) = true) by lia.
  rewrite E1, E2. unfold WriteWaveRAM, wave_ram. rewrite Hoff. psimpl. split; [|exact Hoff].
  f_equal. unfold sub16. lia.
Qed.

(* C18: wave RAM read while channel 3 is off keeps its contents across power cycles (and any other register
   traffic and any amount of time), from every state *)
Theorem wave_ram_survives s ops i :
  forallb ram_safe ops = true -> i < 16 -> en3 s = false -> en3 (apu_run s ops) = false ->
  apu_bus_read (apu_run s ops) (0xFF30 + i) = apu_bus_read s (0xFF30 + i).
Proof.
  intros Hs Hi H0 H1. rewrite (wave_read_off _ i H1 Hi), (wave_read_off _ i H0 Hi), (ram_run ops s Hs). reflexivity.
Qed.

(* after switching power off channel 3 is off, so the hypothesis of the previous theorem is met *)
Theorem power_off_silences_ch3 s v : N.shiftr v 7 =? 0 = true -> en3 (apu_bus_write s 0xFF26 v) = false.
Proof. intros H. exact (proj1 (proj2 (proj2 (en_W52_off s v H)))). Qed.

(* last write wins, cell by cell, while channel 3 is off *)
Theorem wave_ram_plain s i j v :
  en3 s = false -> i < 16 -> j < 16 ->
  apu_bus_read (apu_bus_write s (0xFF30 + i) v) (0xFF30 + j) = if i =? j then v else apu_bus_read s (0xFF30 + j).
Proof.
  intros H0 Hi Hj. destruct (wave_write_off s i v H0 Hi) as [Hr He].
  rewrite (wave_read_off _ j He Hj), Hr, Mem.gsspec, (wave_read_off _ j H0 Hj). reflexivity.
Qed.

(* C18: the four length registers stay writable while powered off (in fact in every state, whatever the power flag):
   the write loads the length counter with 64 - t (256 - t for channel 3) *)
Theorem length_writable s v :
  sqLength (ch1 (apu_bus_write s 0xFF11 v)) = 64 - v mod 64 /\
  sqLength (ch2 (apu_bus_write s 0xFF16 v)) = 64 - v mod 64 /\
  (v < 256 -> wvLength (ch3 (apu_bus_write s 0xFF1B v)) = 256 - v) /\
  nsLength (ch4 (apu_bus_write s 0xFF20 v)) = 64 - v mod 64.
Proof.
  change (apu_bus_write s 0xFF11 v) with (WriteNR11 s v). change (apu_bus_write s 0xFF16 v) with (WriteNR21 s v).
  change (apu_bus_write s 0xFF1B v) with (WriteNR31 s v). change (apu_bus_write s 0xFF20 v) with (WriteNR41 s v).
  unfold WriteNR11, WriteNR21, WriteNR31, WriteNR41. psimpl.
  change 0x3f with (N.ones 6). rewrite N.land_ones. change (2 ^ 6) with 64.
  assert (H : v mod 64 < 64) by (apply N.mod_lt; discriminate).
  unfold sub8, sub16.
  split; [clear - H; lia|]. split; [clear - H; lia|]. split; [intros Hv; clear - Hv; lia | clear - H; lia].
Qed.
