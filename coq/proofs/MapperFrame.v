(* MapperFrame.v — component separation for the address decoder (C06 / C07):
   - [rd h s b]: the value Mapper.Read returns through handler h; [peek s b = rd (read_handler b) s b];
   - a read changes at most the three access flags of the OAM component, which no read value depends on
     ([read_inert]);
   - a write routed to handler h changes only the component of h ([write_comp]), and a read through handler h'
     depends only on the component of h' ([rd_dep]). *)
From V.lib Require Import Bits Mem Res.
From V.model Require Import Ints Joypad Timer Rtc Cart Oam PpuTiming Apu MapperTypes System.
From V.gen Require Import GenMapper.
From V.spec Require Import AddrSpec.
From V.proofs Require Import MapperDecode.

Ltac sysf :=
  cbn [s_ints s_oam s_ppu s_cart s_joy s_timer s_apu s_wram s_hram s_serial s_ser_attached s_frame s_samples s_crash
       set_ints set_oam set_ppu set_cart set_joy set_timer set_apu set_wram set_hram set_serial set_frame
       set_samples set_crash] in *.

Ltac inv_ok H := injection H as H; subst.

(* a bind that succeeded *)
Lemma bind_ok {A B} (r : res A) (f : A -> res B) y : bind r f = Ok y -> exists x, r = Ok x /\ f x = Ok y.
Proof. destruct r; cbn [bind]; intros H; try discriminate. eexists; split; [reflexivity | exact H]. Qed.

(* ---- the value read through a handler ---- *)
Definition rd (h : handler) (s : sys) (b : N) : res N :=
  match h with
  | HMbc => cart_read (s_cart s) b
  | HVideoRAM => ppu_read_vram (s_ppu s) b
  | HInternalRAM base => arr_get (s_wram s) internalRAM_size (b - base)
  | HOam => do r <- oam_read (s_oam s) b; Ok (snd r)
  | HReg r => Ok (reg_read r s)
  | HConstFF => Ok 255
  | HWaveRAM => apu_bus_read_r (s_apu s) b
  | HZeroPage base => arr_get (s_hram s) zeroPage_size (b - base)
  | HPanic => Crash CExplicit
  end.

Lemma peek_rd s b : peek s b = rd (read_handler b) s b.
Proof.
  unfold peek, sys_read, rd. destruct (read_handler b); cbn [bind]; try reflexivity;
    match goal with |- context [bind ?x _] => destruct x; reflexivity end.
Qed.

(* ---- what a read does to the state: nothing, or the three access flags of the OAM component ---- *)
Definition flags_only (o o' : oam) : Prop := exists r w d, o' = set_flags o r w d.

Lemma oam_read_state o a o' v : oam_read o a = Ok (o', v) -> o' = o \/ flags_only o o'.
Proof.
  unfold oam_read. destruct (o_dmaRunning o).
  - intros H; inv_ok H. left; reflexivity.
  - destruct (o_corrupt o).
    + destruct (0xFEA0 <=? a).
      * intros H; inv_ok H. right. do 3 eexists; reflexivity.
      * intros H. apply bind_ok in H. destruct H as (x & _ & H). inv_ok H. right. do 3 eexists; reflexivity.
    + destruct (0xFEA0 <=? a).
      * intros H; inv_ok H. left; reflexivity.
      * intros H. apply bind_ok in H. destruct H as (x & _ & H). inv_ok H. left; reflexivity.
Qed.

Lemma sys_read_state s a s' v : sys_read s a = Ok (s', v) ->
  s' = s \/ exists o', flags_only (s_oam s) o' /\ s' = set_oam o' s.
Proof.
  unfold sys_read. destruct (read_handler a); intros H.
  1-3,5-9: try (apply bind_ok in H; destruct H as (x & Hx & H)); try discriminate; inv_ok H; left; reflexivity.
  apply bind_ok in H. destruct H as (x & Hx & H).
  destruct x as [o' w]. cbn [fst snd] in H. inv_ok H.
  destruct (oam_read_state _ _ _ _ Hx) as [E|Hf].
  - subst o'. right. exists (s_oam s). split; [|reflexivity].
    exists (o_read (s_oam s)), (o_write (s_oam s)), (o_doubleWrite (s_oam s)).
    destruct (s_oam s); reflexivity.
  - right. exists o'. split; [exact Hf | reflexivity].
Qed.

(* no read value depends on the access flags *)
Lemma oam_read_flags o r w d a :
  (do x <- oam_read (set_flags o r w d) a; Ok (snd x)) = (do x <- oam_read o a; Ok (snd x)).
Proof.
  unfold oam_read, set_flags. destruct o as [m run cyc base rdv reg cor pla fr fw fd].
  cbn [o_dmaRunning o_corrupt o_mem o_write o_doubleWrite o_read set_flags].
  destruct run; [reflexivity|].
  destruct cor; destruct (0xFEA0 <=? a); cbn [bind snd o_mem set_flags]; try reflexivity;
    match goal with |- context [get8 ?m ?i] => destruct (get8 m i); reflexivity end.
Qed.

Lemma rd_flags h s o' b : flags_only (s_oam s) o' -> rd h (set_oam o' s) b = rd h s b.
Proof.
  intros (r & w & d & ->). destruct h; try reflexivity.
  cbn [rd]. sysf. apply oam_read_flags.
Qed.

Theorem read_inert s a s' v b : sys_read s a = Ok (s', v) -> peek s' b = peek s b.
Proof.
  intros H. rewrite !peek_rd. destruct (sys_read_state _ _ _ _ H) as [->|(o' & Hf & ->)]; [reflexivity|].
  apply rd_flags. exact Hf.
Qed.

(* ---- components ---- *)
Inductive comp := KInts | KOam | KPpu | KCart | KJoy | KTimer | KApu | KWram | KHram | KConst.

Definition comp_of_reg (r : ioreg) : comp :=
  match r with
  | R_JOYP => KJoy
  | R_SB | R_SC => KConst
  | R_DIV | R_TIMA | R_TMA | R_TAC => KTimer
  | R_IF | R_IE => KInts
  | R_NR10 | R_NR11 | R_NR12 | R_NR13 | R_NR14 | R_NR21 | R_NR22 | R_NR23 | R_NR24
  | R_NR30 | R_NR31 | R_NR32 | R_NR33 | R_NR34 | R_NR41 | R_NR42 | R_NR43 | R_NR44
  | R_NR50 | R_NR51 | R_NR52 => KApu
  | R_LCDC | R_STAT | R_SCY | R_SCX | R_LY | R_LYC | R_BGP | R_OBP0 | R_OBP1 | R_WY | R_WX => KPpu
  | R_DMA => KOam
  end.

Definition comp_of (h : handler) : comp :=
  match h with
  | HMbc => KCart | HVideoRAM => KPpu | HInternalRAM _ => KWram | HOam => KOam
  | HReg r => comp_of_reg r | HConstFF => KConst | HWaveRAM => KApu | HZeroPage _ => KHram | HPanic => KConst
  end.

(* the part of the state a component's reads look at *)
Definition same_comp (k : comp) (s s' : sys) : Prop :=
  match k with
  | KInts => s_ints s' = s_ints s
  | KOam => s_oam s' = s_oam s
  | KPpu => s_ppu s' = s_ppu s
  | KCart => s_cart s' = s_cart s
  | KJoy => s_joy s' = s_joy s
  | KTimer => s_timer s' = s_timer s
  | KApu => s_apu s' = s_apu s
  | KWram => s_wram s' = s_wram s
  | KHram => s_hram s' = s_hram s
  | KConst => True
  end.

Lemma rd_dep h s s' b : same_comp (comp_of h) s s' -> rd h s' b = rd h s b.
Proof.
  destruct h; cbn [comp_of same_comp rd]; try (intros ->; reflexivity); try reflexivity.
  destruct r; cbn [comp_of_reg same_comp reg_read]; try (intros ->; reflexivity); reflexivity.
Qed.

(* a register write stays inside its component; LCDC also opens / closes the OAM corruption window *)
Lemma reg_write_comp r s v k :
  k <> comp_of_reg r -> (r = R_LCDC -> k <> KOam) -> same_comp k s (reg_write r s v).
Proof.
  intros Hk Hl.
  destruct r; cbn [comp_of_reg] in Hk; unfold reg_write, apu_w, ppu_w;
    try (destruct (s_ser_attached s));
    destruct k; try congruence; cbn [same_comp]; sysf; try reflexivity.
  all: exfalso; apply (Hl eq_refl); reflexivity.
Qed.

Lemma write_comp s a v s' k :
  sys_write s a v = Ok s' -> k <> comp_of (write_handler a) ->
  (write_handler a = HReg R_LCDC -> k <> KOam) -> same_comp k s s'.
Proof.
  unfold sys_write. destruct (write_handler a) eqn:Eh; cbn [comp_of]; intros H Hk Hl;
    try (apply bind_ok in H; destruct H as (x & Hx & H)); try discriminate; inv_ok H;
    try (destruct k; try congruence; cbn [same_comp]; sysf; reflexivity).
  apply reg_write_comp; [exact Hk|]. intros ->. apply Hl. reflexivity.
Qed.

Lemma handler_eq_lcdc (h : handler) : {h = HReg R_LCDC} + {h <> HReg R_LCDC}.
Proof.
  destruct h as [| | | |r| | | |]; try (right; discriminate).
  destruct r; try (right; discriminate). left; reflexivity.
Qed.
