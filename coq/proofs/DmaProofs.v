(* DmaProofs.v — the DMA engine of the OAM model refines DmaSpec: closed-form invariant in the number of
   ticks since the write to FF46, by induction on that number, for every source oracle (changing every
   tick), every page and every initial OAM state (so also for a write that interrupts a running transfer). *)
From V.lib Require Import Bits Mem Res.
From V.model Require Import Oam.
From V.spec Require Import DmaSpec.
From Coq Require Import ZArith ZifyN ZifyNat ZifyBool.

(* ---------- dma_run unfolds tick by tick ---------- *)
Lemma iter_fst rd t0 n r : fst (N.iter n (dma_step rd) (t0, r)) = t0 + n.
Proof.
  induction n as [|n IH] using N.peano_ind.
  - cbn. lia.
  - rewrite N.iter_succ. unfold dma_step at 1. cbn [fst]. rewrite IH. lia.
Qed.

Lemma dma_run_0 rd t0 o : dma_run rd t0 0 o = Ok o.
Proof. reflexivity. Qed.

Lemma dma_run_succ rd t0 n o :
  dma_run rd t0 (N.succ n) o = (do o' <- dma_run rd t0 n o; oam_tick_dma (rd (t0 + n)) o').
Proof.
  unfold dma_run. rewrite N.iter_succ. unfold dma_step at 1. cbn [snd]. rewrite iter_fst. reflexivity.
Qed.

Lemma dma_run_add rd t0 a b o :
  dma_run rd t0 (a + b) o = (do o' <- dma_run rd t0 a o; dma_run rd (t0 + a) b o').
Proof.
  induction b as [|b IH] using N.peano_ind.
  - rewrite N.add_0_r. destruct (dma_run rd t0 a o); reflexivity.
  - rewrite N.add_succ_r, dma_run_succ, IH.
    destruct (dma_run rd t0 a o) as [o1| |]; cbn [bind]; [|reflexivity|reflexivity].
    rewrite dma_run_succ. rewrite N.add_assoc. reflexivity.
Qed.

(* ---------- the write to FF46 ---------- *)
Lemma write_dma_base o xx :
  xx < 256 -> o_dmaBaseAddr (oam_write_dma o xx) = dma_source xx /\ dma_source xx + 161 < 65536.
Proof.
  intros Hx. unfold oam_write_dma, dma_source, set_dmaReg, set_dma; cbn [o_dmaBaseAddr].
  rewrite N.shiftl_mul_pow2. change (2 ^ 8) with 256. unfold u16, sub16.
  change 0xE000 with 57344. change 0xE0 with 224. change 0x2000 with 8192.
  destruct (xx <? 224) eqn:E; destruct (57344 <=? (xx * 256) mod 65536) eqn:E2; lia.
Qed.

(* ---------- the invariant: state after n ticks of a transfer started at tick t0 ---------- *)
Record DInv (rd : N -> N -> N) (t0 base : N) (o0 : oam) (n : N) (o : oam) : Prop := mkDInv {
  D_run : o_dmaRunning o = (n <? 162);
  D_cyc : o_dmaCycle o = n;
  D_base : o_dmaBaseAddr o = base;
  D_read : 2 <= n -> n <= 161 -> o_dmaRead o = rd (t0 + n - 1) (base + n - 2);
  D_mem : forall i, Mem.get (o_mem o) i =
                    if (i + 3 <=? n) && (i <? 160) then rd (t0 + i + 1) (base + i) else Mem.get (o_mem o0) i;
  D_reg : o_dmaReg o = o_dmaReg o0;
  D_corrupt : o_corrupt o = o_corrupt o0;
  D_pla : o_ppuLastAccess o = o_ppuLastAccess o0;
  D_flags : o_read o = o_read o0 /\ o_write o = o_write o0 /\ o_doubleWrite o = o_doubleWrite o0
}.

Lemma DInv_start rd t0 o xx :
  DInv rd t0 (o_dmaBaseAddr (oam_write_dma o xx)) (oam_write_dma o xx) 0 (oam_write_dma o xx).
Proof.
  constructor; try reflexivity; try (intros; lia); try (repeat split; reflexivity).
  all: intros i; assert (X : (i + 3 <=? 0) = false) by lia; rewrite X; reflexivity.
Qed.

(* lia looks at every hypothesis: drop the ones about the oracle and the memory first *)
Ltac cl :=
  repeat match goal with
         | H : context [Mem.get] |- _ => clear H
         | H : _ -> _ -> o_dmaRead _ = _ |- _ => clear H
         | H : _ /\ _ |- _ => clear H
         end.

Ltac dsimp :=
  cbn [set_dma set_mem o_dmaRunning o_dmaCycle o_dmaBaseAddr o_dmaRead o_mem o_dmaReg o_corrupt
       o_ppuLastAccess o_read o_write o_doubleWrite].

Lemma DInv_step rd t0 base o0 n o :
  base + 161 < 65536 -> n < 162 -> DInv rd t0 base o0 n o ->
  exists o', oam_tick_dma (rd (t0 + n)) o = Ok o' /\ DInv rd t0 base o0 (n + 1) o'.
Proof.
  intros Hb Hn [Hrun Hcyc Hbase Hread Hmem Hreg Hcor Hpla Hfl].
  unfold oam_tick_dma. rewrite Hrun, Hcyc, Hbase. clear Hcyc.
  assert (E : (n <? 162) = true) by (cl; lia). rewrite E.
  destruct (n =? 0) eqn:E0; [|destruct (n =? 1) eqn:E1; [|destruct (n =? 161) eqn:E161]].
  - (* setup cycle *)
    assert (n = 0) by (cl; lia). subst n.
    eexists; split; [reflexivity|].
    constructor; dsimp; try assumption; try reflexivity; try (intros; cl; lia).
    intros i. rewrite Hmem. destruct (i <? 160); rewrite ?Bool.andb_false_r; [|reflexivity].
    assert (X : (i + 3 <=? 0) = false) by (cl; lia). assert (Y : (i + 3 <=? 0 + 1) = false) by (cl; lia).
    rewrite X, Y. reflexivity.
  - (* first read *)
    assert (n = 1) by (cl; lia). subst n.
    eexists; split; [reflexivity|].
    constructor; dsimp; try assumption; try reflexivity; try (intros; cl; lia).
    + intros _ _. f_equal; cl; lia.
    + intros i. rewrite Hmem. destruct (i <? 160); rewrite ?Bool.andb_false_r; [|reflexivity].
      assert (X : (i + 3 <=? 1) = false) by (cl; lia). assert (Y : (i + 3 <=? 1 + 1) = false) by (cl; lia).
      rewrite X, Y. reflexivity.
  - (* last write *)
    assert (n = 161) by (cl; lia). subst n.
    unfold put8, oam_size. change (159 <? 160) with true. cbn [bind].
    eexists; split; [reflexivity|].
    constructor; dsimp; try assumption; try reflexivity; try (intros; cl; lia).
    intros i. rewrite Mem.gsspec. destruct (159 =? i) eqn:Ei.
    + assert (i = 159) by (cl; lia). subst i. change ((159 + 3 <=? 161 + 1) && (159 <? 160)) with true.
      cbv iota. rewrite Hread by (cl; lia). f_equal; cl; lia.
    + rewrite Hmem. destruct (i <? 160) eqn:Ei2; rewrite ?Bool.andb_false_r, ?Bool.andb_true_r; [|reflexivity].
      assert (X : (i + 3 <=? 161) = true) by (cl; lia). assert (Y : (i + 3 <=? 161 + 1) = true) by (cl; lia).
      rewrite X, Y. reflexivity.
  - (* write the byte fetched in the previous cycle, fetch the next *)
    assert (Hs : sub16 n 2 = n - 2) by (unfold sub16; cl; lia).
    rewrite Hs. unfold put8, oam_size.
    assert (X : (n - 2 <? 160) = true) by (cl; lia). rewrite X. cbn [bind].
    eexists; split; [reflexivity|].
    assert (Ha : sub16 (add16 base n) 1 = base + n - 1) by (unfold sub16, add16; cl; lia).
    assert (Hc : add16 n 1 = n + 1) by (unfold add16; cl; lia).
    constructor; dsimp; rewrite ?Hc; try assumption; try reflexivity; try (intros; cl; lia).
    + intros _ _. rewrite Ha. f_equal; cl; lia.
    + intros i. rewrite Mem.gsspec. destruct (n - 2 =? i) eqn:Ei.
      * assert (i = n - 2) by (cl; lia). subst i.
        assert (Y : (n - 2 + 3 <=? n + 1) && (n - 2 <? 160) = true) by (cl; lia). rewrite Y.
        rewrite Hread by (cl; lia). f_equal; cl; lia.
      * rewrite Hmem. destruct (i <? 160) eqn:Ei2; rewrite ?Bool.andb_false_r, ?Bool.andb_true_r; [|reflexivity].
        assert (Y : (i + 3 <=? n + 1) = (i + 3 <=? n)) by (cl; lia). rewrite Y. reflexivity.
Qed.

Lemma DInv_run rd t0 base o0 n :
  base + 161 < 65536 -> n <= 162 -> DInv rd t0 base o0 0 o0 ->
  exists o, dma_run rd t0 n o0 = Ok o /\ DInv rd t0 base o0 n o.
Proof.
  intros Hb. induction n as [|n IH] using N.peano_ind; intros Hn H0.
  - exists o0. split; [reflexivity|exact H0].
  - destruct IH as (o & Hr & Hi); [lia|exact H0|].
    destruct (DInv_step rd t0 base o0 n o Hb) as (o' & Ht & Hi'); [lia|exact Hi|].
    exists o'. split.
    + rewrite dma_run_succ, Hr. exact Ht.
    + rewrite <- N.add_1_r. exact Hi'.
Qed.

(* ---------- C16 ---------- *)
(* after the write and 162 ticks OAM holds each source byte as it was when copied; nothing else changed *)
Theorem dma_copy (rd : N -> N -> N) (t0 xx : N) (o : oam) :
  xx < 256 ->
  exists o', dma_run rd t0 162 (oam_write_dma o xx) = Ok o'
    /\ o_dmaRunning o' = false
    /\ (forall i, i < 160 -> Mem.get (o_mem o') i = dma_result rd t0 xx i)
    /\ (forall i, 160 <= i -> Mem.get (o_mem o') i = Mem.get (o_mem o) i)
    /\ o_corrupt o' = o_corrupt o /\ o_ppuLastAccess o' = o_ppuLastAccess o
    /\ o_read o' = o_read o /\ o_write o' = o_write o /\ o_doubleWrite o' = o_doubleWrite o
    /\ oam_read_dma o' = xx.
Proof.
  intros Hx. destruct (write_dma_base o xx Hx) as (Hb1 & Hb2).
  destruct (DInv_run rd t0 (o_dmaBaseAddr (oam_write_dma o xx)) (oam_write_dma o xx) 162) as (o' & Hr & Hi);
    [rewrite Hb1; exact Hb2 | lia | apply DInv_start |].
  exists o'. split; [exact Hr|].
  destruct Hi as [Hrun Hcyc Hbase Hread Hmem Hreg Hcor Hpla (Hf1 & Hf2 & Hf3)].
  split; [rewrite Hrun; reflexivity|].
  split.
  { intros i Hi. rewrite Hmem, Hb1. unfold dma_result.
    assert (X : (i + 3 <=? 162) && (i <? 160) = true) by lia. rewrite X. reflexivity. }
  split.
  { intros i Hi. rewrite Hmem. assert (X : (i <? 160) = false) by lia. rewrite X, Bool.andb_false_r. reflexivity. }
  repeat split; try assumption.
Qed.

(* while the transfer runs (fewer than 162 ticks after the write) every read through Read returns 0xFF and
   leaves the state alone *)
Theorem dma_blocked (rd : N -> N -> N) (t0 xx n : N) (o : oam) :
  xx < 256 -> n < 162 ->
  exists o', dma_run rd t0 n (oam_write_dma o xx) = Ok o'
    /\ o_dmaRunning o' = true /\ o_dmaCycle o' = n
    /\ forall a, oam_read o' a = Ok (o', 255).
Proof.
  intros Hx Hn. destruct (write_dma_base o xx Hx) as (Hb1 & Hb2).
  destruct (DInv_run rd t0 (o_dmaBaseAddr (oam_write_dma o xx)) (oam_write_dma o xx) n) as (o' & Hr & Hi);
    [rewrite Hb1; exact Hb2 | lia | apply DInv_start |].
  exists o'. split; [exact Hr|].
  assert (R : o_dmaRunning o' = true) by (rewrite (D_run _ _ _ _ _ _ Hi); lia).
  split; [exact R|]. split; [exact (D_cyc _ _ _ _ _ _ Hi)|].
  intros a. unfold oam_read. rewrite R. reflexivity.
Qed.

(* once it is over, OAM reads give the copied bytes again (FEA0-FEFF read 0) *)
Lemma oam_read_idle o a :
  o_dmaRunning o = false -> o_corrupt o = false -> 0xFE00 <= a -> a <= 0xFEFF ->
  oam_read o a = Ok (o, if a <? 0xFEA0 then Mem.get (o_mem o) (a - 0xFE00) else 0).
Proof.
  intros Hr Hc H1 H2. unfold oam_read. rewrite Hr, Hc.
  change 0xFEA0 with 65184 in *. change 0xFE00 with 65024 in *. change 0xFEFF with 65279 in *.
  destruct (65184 <=? a) eqn:E.
  - assert (X : (a <? 65184) = false) by lia. rewrite X. reflexivity.
  - assert (X : (a <? 65184) = true) by lia. rewrite X.
    unfold get8, oam_size, sub16.
    assert (Y : (a + 65536 - 65024 mod 65536) mod 65536 = a - 65024) by lia. rewrite Y.
    assert (Z : (a - 65024 <? 160) = true) by lia. rewrite Z. reflexivity.
Qed.

(* ticks never crash from any state in which a running transfer has not passed its last cycle, and that
   condition is preserved by everything the bus can do to the engine *)
Definition dma_ok (o : oam) : Prop := o_dmaRunning o = true -> o_dmaCycle o <= 161.

Lemma tick_dma_safe rdt o : dma_ok o -> exists o', oam_tick_dma rdt o = Ok o' /\ dma_ok o'.
Proof.
  unfold dma_ok. intros H. unfold oam_tick_dma.
  destruct (o_dmaRunning o) eqn:R; [specialize (H eq_refl)|exists o; split; [reflexivity|rewrite R; discriminate]].
  destruct (o_dmaCycle o =? 0) eqn:E0; [|destruct (o_dmaCycle o =? 1) eqn:E1; [|destruct (o_dmaCycle o =? 161) eqn:E2]].
  - eexists; split; [reflexivity|]. cbn [set_dma o_dmaRunning o_dmaCycle]. intros _. unfold add16. lia.
  - eexists; split; [reflexivity|]. cbn [set_dma o_dmaRunning o_dmaCycle]. intros _. unfold add16. lia.
  - unfold put8, oam_size. cbn [N.ltb N.compare Pos.compare Pos.compare_cont bind].
    eexists; split; [reflexivity|]. cbn [set_dma o_dmaRunning]. discriminate.
  - unfold put8, oam_size.
    assert (X : (sub16 (o_dmaCycle o) 2 <? 160) = true) by (unfold sub16; lia). rewrite X. cbn [bind].
    eexists; split; [reflexivity|]. cbn [set_dma set_mem o_dmaRunning o_dmaCycle]. intros _. unfold add16. lia.
Qed.

Lemma write_dma_ok o xx : dma_ok (oam_write_dma o xx).
Proof. unfold dma_ok. cbn. lia. Qed.

Lemma dma_run_safe rd t0 n o : dma_ok o -> exists o', dma_run rd t0 n o = Ok o' /\ dma_ok o'.
Proof.
  intros H. induction n as [|n IH] using N.peano_ind.
  - exists o; split; [reflexivity|exact H].
  - destruct IH as (o1 & Hr & H1). destruct (tick_dma_safe (rd (t0 + n)) o1 H1) as (o2 & Ht & H2).
    exists o2. split; [rewrite dma_run_succ, Hr; exact Ht|exact H2].
Qed.

(* a second write at ANY moment (n1 ticks after the first, n1 arbitrary) restarts: progress is reset, the
   engine keeps running and blocking for the next 162 ticks, and the final contents are those of the last
   transfer alone *)
Theorem dma_restart (rd : N -> N -> N) (t0 xx1 xx2 n1 : N) (o : oam) :
  xx2 < 256 ->
  exists o1, dma_run rd t0 n1 (oam_write_dma o xx1) = Ok o1
    /\ o_dmaCycle (oam_write_dma o1 xx2) = 0 /\ o_dmaRunning (oam_write_dma o1 xx2) = true
    /\ (forall n2, n2 < 162 ->
          exists o2, dma_run rd (t0 + n1) n2 (oam_write_dma o1 xx2) = Ok o2
                     /\ o_dmaRunning o2 = true /\ o_dmaCycle o2 = n2
                     /\ forall a, oam_read o2 a = Ok (o2, 255))
    /\ exists o3, dma_run rd (t0 + n1) 162 (oam_write_dma o1 xx2) = Ok o3
                  /\ o_dmaRunning o3 = false
                  /\ forall i, i < 160 -> Mem.get (o_mem o3) i = dma_result rd (t0 + n1) xx2 i.
Proof.
  intros Hx.
  destruct (dma_run_safe rd t0 n1 (oam_write_dma o xx1) (write_dma_ok o xx1)) as (o1 & Hr1 & _).
  exists o1. split; [exact Hr1|]. split; [reflexivity|]. split; [reflexivity|]. split.
  - intros n2 Hn2. exact (dma_blocked rd (t0 + n1) xx2 n2 o1 Hx Hn2).
  - destruct (dma_copy rd (t0 + n1) xx2 o1 Hx) as (o3 & H3 & Hrun & Hmem & _).
    exists o3. auto.
Qed.

(* afterwards the CPU reads the copied bytes through FE00-FE9F (outside mode 2) *)
Theorem dma_then_read (rd : N -> N -> N) (t0 xx : N) (o : oam) :
  xx < 256 -> o_corrupt o = false ->
  exists o', dma_run rd t0 162 (oam_write_dma o xx) = Ok o'
    /\ forall i, i < 160 -> oam_read o' (0xFE00 + i) = Ok (o', dma_result rd t0 xx i).
Proof.
  intros Hx Hc. destruct (dma_copy rd t0 xx o Hx) as (o' & Hr & Hrun & Hmem & _ & Hcor & _).
  exists o'. split; [exact Hr|]. intros i Hi.
  rewrite oam_read_idle; [|exact Hrun|rewrite Hcor; exact Hc| |];
    change 0xFE00 with 65024; change 0xFEFF with 65279; [|lia|lia].
  change 0xFEA0 with 65184.
  assert (X : (65024 + i <? 65184) = true) by lia. rewrite X.
  replace (65024 + i - 65024) with i by lia. rewrite Hmem by exact Hi. reflexivity.
Qed.

(* FF46 reads back the byte last written, at once and at every later tick *)
Lemma dma_reg_readback o v : oam_read_dma (oam_write_dma o v) = v.
Proof. reflexivity. Qed.
