(* SerialProofs.v — C23: the serial writer receives exactly the bytes written to FF01, in order. *)
From V.lib Require Import Bits Mem Res Sweep.
From V.model Require Import Uop Alu Cpu CpuTables Ints Joypad Timer Rtc Cart Oam PpuTiming Apu MapperTypes System.
From V.gen Require Import GenMapper GenFrame.
From Coq Require Import ZArith ZifyN ZifyBool Lia.

Definition is_sb (h : handler) : bool := match h with HReg R_SB => true | _ => false end.
Definition is_sb_sc (h : handler) : bool := match h with HReg R_SB | HReg R_SC => true | _ => false end.

(* the regenerated write decoder routes FF01, and only FF01, to the serial data register; the read decoder routes
   exactly FF01 and FF02 to the serial registers *)
Lemma write_sb_only : all_below 65536 (fun a => Bool.eqb (is_sb (write_handler a)) (a =? 65281)) = true.
Proof. vm_compute. reflexivity. Qed.
Lemma read_sb_sc : all_below 65536 (fun a => Bool.eqb (is_sb_sc (read_handler a)) ((a =? 65281) || (a =? 65282))) = true.
Proof. vm_compute. reflexivity. Qed.

Lemma write_handler_sb a : a < 65536 -> is_sb (write_handler a) = (a =? 65281).
Proof. intros H. apply Bool.eqb_prop. exact (all_below_spec _ _ write_sb_only a H). Qed.

(* field lemmas: which writes can touch the serial output *)
Lemma ser_set_ints v s : s_serial (set_ints v s) = s_serial s /\ s_ser_attached (set_ints v s) = s_ser_attached s.
Proof. destruct s; split; reflexivity. Qed.
Lemma ser_set_oam v s : s_serial (set_oam v s) = s_serial s /\ s_ser_attached (set_oam v s) = s_ser_attached s.
Proof. destruct s; split; reflexivity. Qed.
Lemma ser_set_ppu v s : s_serial (set_ppu v s) = s_serial s /\ s_ser_attached (set_ppu v s) = s_ser_attached s.
Proof. destruct s; split; reflexivity. Qed.
Lemma ser_set_cart v s : s_serial (set_cart v s) = s_serial s /\ s_ser_attached (set_cart v s) = s_ser_attached s.
Proof. destruct s; split; reflexivity. Qed.
Lemma ser_set_joy v s : s_serial (set_joy v s) = s_serial s /\ s_ser_attached (set_joy v s) = s_ser_attached s.
Proof. destruct s; split; reflexivity. Qed.
Lemma ser_set_timer v s : s_serial (set_timer v s) = s_serial s /\ s_ser_attached (set_timer v s) = s_ser_attached s.
Proof. destruct s; split; reflexivity. Qed.
Lemma ser_set_apu v s : s_serial (set_apu v s) = s_serial s /\ s_ser_attached (set_apu v s) = s_ser_attached s.
Proof. destruct s; split; reflexivity. Qed.
Lemma ser_set_wram v s : s_serial (set_wram v s) = s_serial s /\ s_ser_attached (set_wram v s) = s_ser_attached s.
Proof. destruct s; split; reflexivity. Qed.
Lemma ser_set_hram v s : s_serial (set_hram v s) = s_serial s /\ s_ser_attached (set_hram v s) = s_ser_attached s.
Proof. destruct s; split; reflexivity. Qed.
Lemma ser_set_frame v s : s_serial (set_frame v s) = s_serial s /\ s_ser_attached (set_frame v s) = s_ser_attached s.
Proof. destruct s; split; reflexivity. Qed.
Lemma ser_set_samples v s : s_serial (set_samples v s) = s_serial s /\ s_ser_attached (set_samples v s) = s_ser_attached s.
Proof. destruct s; split; reflexivity. Qed.
Lemma ser_set_crash v s : s_serial (set_crash v s) = s_serial s /\ s_ser_attached (set_crash v s) = s_ser_attached s.
Proof. destruct s; split; reflexivity. Qed.

Ltac ser_simpl := rewrite ?(proj1 (ser_set_ints _ _)), ?(proj1 (ser_set_oam _ _)), ?(proj1 (ser_set_ppu _ _)), ?(proj1 (ser_set_cart _ _)), ?(proj1 (ser_set_joy _ _)), ?(proj1 (ser_set_timer _ _)), ?(proj1 (ser_set_apu _ _)), ?(proj1 (ser_set_wram _ _)), ?(proj1 (ser_set_hram _ _)), ?(proj1 (ser_set_frame _ _)), ?(proj1 (ser_set_samples _ _)), ?(proj1 (ser_set_crash _ _)), ?(proj2 (ser_set_ints _ _)), ?(proj2 (ser_set_oam _ _)), ?(proj2 (ser_set_ppu _ _)), ?(proj2 (ser_set_cart _ _)), ?(proj2 (ser_set_joy _ _)), ?(proj2 (ser_set_timer _ _)), ?(proj2 (ser_set_apu _ _)), ?(proj2 (ser_set_wram _ _)), ?(proj2 (ser_set_hram _ _)), ?(proj2 (ser_set_frame _ _)), ?(proj2 (ser_set_samples _ _)), ?(proj2 (ser_set_crash _ _)).

Lemma reg_write_serial r s v :
  s_serial (reg_write r s v) = match r with R_SB => if s_ser_attached s then v :: s_serial s else s_serial s | _ => s_serial s end /\
  s_ser_attached (reg_write r s v) = s_ser_attached s.
Proof.
  destruct r; unfold reg_write, apu_w, ppu_w; try (ser_simpl; split; reflexivity).
  destruct (s_ser_attached s) eqn:E; [|split; [reflexivity|exact E]].
  destruct s; cbn in *; split; [reflexivity | exact E].
Qed.

Lemma sys_write_serial s a v s' : a < 65536 -> sys_write s a v = Ok s' ->
  s_serial s' = (if (a =? 65281) && s_ser_attached s then v :: s_serial s else s_serial s) /\
  s_ser_attached s' = s_ser_attached s.
Proof.
  intros Ha H. pose proof (write_handler_sb a Ha) as Hsb. unfold sys_write in H.
  destruct (write_handler a) as [| |b| |r| | |b|] eqn:Eh; cbn [is_sb] in Hsb;
    try (rewrite <- Hsb; cbn [andb];
         repeat match type of H with context [bind ?x _] => destruct x; cbn [bind] in H; try discriminate end;
         first [discriminate H | injection H as <-; ser_simpl; split; reflexivity]).
  injection H as <-. destruct (reg_write_serial r s v) as [E1 E2]. rewrite E1, E2. split; [|reflexivity].
  destruct r; cbn [is_sb] in Hsb; rewrite <- Hsb; cbn [andb]; reflexivity.
Qed.

Lemma sys_read_serial s a s' v : sys_read s a = Ok (s', v) ->
  s_serial s' = s_serial s /\ s_ser_attached s' = s_ser_attached s.
Proof.
  unfold sys_read. intros H.
  destruct (read_handler a);
    repeat match type of H with context [bind ?x _] => destruct x; cbn [bind] in H; try discriminate end;
    first [discriminate H | injection H as <- _; cbn [fst]; ser_simpl; split; reflexivity].
Qed.

(* SB and SC read FF *)
Lemma serial_reads_ff s a s' v : a < 65536 -> (a = 65281 \/ a = 65282) -> sys_read s a = Ok (s', v) -> v = 255.
Proof.
  intros Ha Hor H.
  pose proof (all_below_spec _ _ read_sb_sc a Ha) as E. cbv beta in E. apply Bool.eqb_prop in E.
  assert (Et : (a =? 65281) || (a =? 65282) = true) by (destruct Hor as [-> | ->]; reflexivity).
  rewrite Et in E. unfold sys_read in H.
  destruct (read_handler a) as [| |b| |r| | |b|]; cbn [is_sb_sc] in E; try discriminate.
  destruct r; cbn [is_sb_sc] in E; try discriminate; inversion H; reflexivity.
Qed.

(* ---- bus histories ---- *)
Inductive bop := BRead (a : N) | BWrite (a v : N).

Definition bstep (r : res sys) (o : bop) : res sys :=
  do s <- r;
  match o with
  | BRead a => do x <- sys_read s a; Ok (fst x)
  | BWrite a v => sys_write s a v
  end.

Definition brun (s : sys) (h : list bop) : res sys := fold_left bstep h (Ok s).

Definition wf_bop (o : bop) : Prop := match o with BRead a => a < 65536 | BWrite a v => a < 65536 /\ v < 256 end.

(* the bytes written to FF01, oldest first *)
Fixpoint sb_writes (h : list bop) : list N :=
  match h with
  | [] => []
  | BWrite a v :: t => if a =? 65281 then v :: sb_writes t else sb_writes t
  | _ :: t => sb_writes t
  end.

Lemma brun_crash h : fold_left bstep h (Crash CIndex) = Crash CIndex /\ (forall c, exists c', fold_left bstep h (Crash c) = Crash c') /\ fold_left bstep h Exit = Exit.
Proof.
  induction h as [|o h IH]; cbn [fold_left].
  - repeat split. intros c; exists c; reflexivity.
  - destruct IH as (I1 & I2 & I3). repeat split.
    + exact I1.
    + intros c. cbn [bstep bind]. apply I2.
    + exact I3.
Qed.

Theorem serial_transcript : forall h s s',
  Forall wf_bop h -> brun s h = Ok s' ->
  s_serial s' = (if s_ser_attached s then rev (sb_writes h) ++ s_serial s else s_serial s) /\
  s_ser_attached s' = s_ser_attached s.
Proof.
  unfold brun. induction h as [|o h IH]; intros s s' Hwf H; cbn [fold_left] in H.
  - inversion H; subst. destruct (s_ser_attached s'); split; reflexivity.
  - inversion Hwf as [|? ? Ho Hh]; subst.
    destruct (bstep (Ok s) o) as [s1| c|] eqn:E.
    + destruct (IH s1 s' Hh H) as [I1 I2].
      destruct o as [a|a v]; cbn [bstep bind] in E.
      * destruct (sys_read s a) as [[s2 v2]| |] eqn:Er; cbn [bind fst] in E; try discriminate.
        inversion E; subst. destruct (sys_read_serial s a s1 v2 Er) as [R1 R2].
        rewrite I1, I2, R1, R2. cbn [sb_writes]. split; reflexivity.
      * destruct Ho as [Ha Hv]. destruct (sys_write_serial s a v s1 Ha E) as [W1 W2].
        rewrite I1, I2, W1, W2. cbn [sb_writes].
        destruct (a =? 65281); cbn [andb]; destruct (s_ser_attached s); split; try reflexivity.
        cbn [rev]. rewrite <- app_assoc. reflexivity.
    + exfalso. destruct (brun_crash h) as (_ & I2 & _). destruct (I2 c) as [c' Hc]. rewrite Hc in H. discriminate.
    + exfalso. destruct (brun_crash h) as (_ & _ & I3). rewrite I3 in H. discriminate.
Qed.
