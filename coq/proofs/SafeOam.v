(* SafeOam.v — the OAM part of the C11 safety invariant: the DMA engine stays inside its 162 cycles and its source
   below E000, the 160 cells and the engine's latches are bytes — preserved by CPU reads and writes, the four
   corruption patterns, DMA ticks and the PPU's bookkeeping. *)
From V.lib Require Import Bits Mem Res.
From V.model Require Import Oam.
From V.proofs Require Import SafeLemmas LcdLemmas DmaProofs OamProofs.
From Coq Require Import ZArith ZifyN ZifyNat ZifyBool.

Record oam_inv (o : oam) : Prop := mkOamInv {
  OI_dma : dma_ok o;
  OI_mem : bmem (o_mem o);
  OI_read : o_dmaRead o < 256;
  OI_reg : o_dmaReg o < 256;
  OI_base : o_dmaBaseAddr o <= 0xDF00
}.

Lemma oam_init_inv : oam_inv oam_init.
Proof. constructor; cbn; try lia; [discriminate|apply bmem_empty; lia]. Qed.

(* anything that changes only the window flag, the PPU's last address or the three access flags *)
Definition same_engine (o o' : oam) : Prop :=
  o_mem o' = o_mem o /\ o_dmaRunning o' = o_dmaRunning o /\ o_dmaCycle o' = o_dmaCycle o /\
  o_dmaBaseAddr o' = o_dmaBaseAddr o /\ o_dmaRead o' = o_dmaRead o /\ o_dmaReg o' = o_dmaReg o.

Lemma same_engine_inv o o' : same_engine o o' -> oam_inv o -> oam_inv o'.
Proof.
  intros (E1 & E2 & E3 & E4 & E5 & E6) [A B C D E].
  constructor; unfold dma_ok in *; rewrite ?E1, ?E2, ?E3, ?E4, ?E5, ?E6; assumption.
Qed.

Lemma se_flags o r w d : same_engine o (set_flags o r w d). Proof. repeat split. Qed.
Lemma se_corrupt o b : same_engine o (set_corrupt o b). Proof. repeat split. Qed.
Lemma se_pla o a : same_engine o (set_ppuLastAccess o a). Proof. repeat split. Qed.
Lemma se_refl o : same_engine o o. Proof. repeat split. Qed.

Lemma set_mem_inv o m : oam_inv o -> bmem m -> oam_inv (set_mem o m).
Proof. intros [A B C D E] Hm. constructor; cbn; assumption. Qed.

(* ---- checked accessors and the block copy keep bytes ---- *)
Lemma put8_bmem m i v m' : put8 m i v = Ok m' -> bmem m -> v < 256 -> bmem m'.
Proof. unfold put8. destruct (i <? oam_size); [|discriminate]. intros X; inversion X; subst. apply bmem_set. Qed.

Lemma get8_byte m i v : get8 m i = Ok v -> bmem m -> v < 256.
Proof. unfold get8. destruct (i <? oam_size); [|discriminate]. intros X; inversion X; subst. intros H; apply H. Qed.

Lemma put_word_bmem m i w m' : put_word m i w = Ok m' -> bmem m -> bmem m'.
Proof.
  unfold put_word. destruct (put8 m i (u8 (N.shiftr w 8))) as [m1| |] eqn:E1; cbn [bind]; try discriminate.
  intros E2 Hm. apply (put8_bmem _ _ _ _ E2).
  - apply (put8_bmem _ _ _ _ E1 Hm). unfold u8. lia.
  - apply land256_r. lia.
Qed.

Lemma read_run_bytes m : bmem m -> forall n s, Forall (fun x => x < 256) (read_run m s n).
Proof. intros Hm. induction n as [|n IH]; intros s; cbn [read_run]; constructor; [apply Hm|apply IH]. Qed.

Lemma write_run_bmem l : forall m s, bmem m -> Forall (fun x => x < 256) l -> bmem (write_run m s l).
Proof.
  induction l as [|x r IH]; intros m s Hm Hl; cbn [write_run]; [exact Hm|].
  inversion Hl; subst. apply IH; [apply bmem_set; assumption|assumption].
Qed.

Lemma copy_slice_bmem m a b c d m' : copy_slice m a b c d = Ok m' -> bmem m -> bmem m'.
Proof.
  unfold copy_slice. destruct (slice_ok a b && slice_ok c d); [|discriminate].
  intros X Hm; inversion X; subst. apply write_run_bmem; [exact Hm|apply read_run_bytes, Hm].
Qed.

Ltac binds :=
  repeat match goal with
         | H : bind ?e _ = Ok _ |- _ => let E := fresh "E" in destruct e eqn:E; cbn [bind] in H; try discriminate H
         end.

Lemma corrupt_row_bmem m rs f m' : corrupt_row m rs f = Ok m' -> bmem m -> bmem m'.
Proof.
  unfold corrupt_row. intros H Hm. binds.
  eapply copy_slice_bmem; [exact H|]. eapply put_word_bmem; eassumption.
Qed.

Lemma pattern_inv (g : oam -> res oam) :
  (forall o o', g o = Ok o' -> exists m, o' = set_mem o m /\ (bmem (o_mem o) -> bmem m)) ->
  forall o o', g o = Ok o' -> oam_inv o -> oam_inv o'.
Proof. intros Hg o o' E Ho. destruct (Hg o o' E) as (m & -> & Hm). apply set_mem_inv; [exact Ho|apply Hm, Ho]. Qed.

Lemma set_mem_same o : o = set_mem o (o_mem o). Proof. destruct o; reflexivity. Qed.

Lemma write_corruption_shape o o' : write_corruption o = Ok o' ->
  exists m, o' = set_mem o m /\ (bmem (o_mem o) -> bmem m).
Proof.
  unfold write_corruption. destruct (_ =? 0).
  - intros X; inversion X; subst. exists (o_mem o'). split; [apply set_mem_same|auto].
  - intros H. binds. inversion H; subst. eexists; split; [reflexivity|]. intros Hm. eapply corrupt_row_bmem; eassumption.
Qed.
Lemma read_corruption_shape o o' : read_corruption o = Ok o' ->
  exists m, o' = set_mem o m /\ (bmem (o_mem o) -> bmem m).
Proof.
  unfold read_corruption. destruct (_ =? 0).
  - intros X; inversion X; subst. exists (o_mem o'). split; [apply set_mem_same|auto].
  - intros H. binds. inversion H; subst. eexists; split; [reflexivity|]. intros Hm. eapply corrupt_row_bmem; eassumption.
Qed.
Lemma double_write_corruption_shape o o' : double_write_corruption o = Ok o' ->
  exists m, o' = set_mem o m /\ (bmem (o_mem o) -> bmem m).
Proof.
  unfold double_write_corruption. destruct (_ =? 0).
  - intros X; inversion X; subst. exists (o_mem o'). split; [apply set_mem_same|auto].
  - destruct (_ <? 1).
    + intros X; inversion X; subst. exists (o_mem o'). split; [apply set_mem_same|auto].
    + intros H. binds. inversion H; subst. eexists; split; [reflexivity|]. intros Hm. eapply corrupt_row_bmem; eassumption.
Qed.
Lemma read_write_corruption_shape o o' : read_write_corruption o = Ok o' ->
  exists m, o' = set_mem o m /\ (bmem (o_mem o) -> bmem m).
Proof.
  unfold read_write_corruption. destruct (_ || _).
  - intros X; inversion X; subst. exists (o_mem o'). split; [apply set_mem_same|auto].
  - intros H. binds. inversion H; subst. eexists; split; [reflexivity|]. intros Hm.
    eapply copy_slice_bmem; [eassumption|]. eapply copy_slice_bmem; [eassumption|]. eapply put_word_bmem; eassumption.
Qed.

Theorem oam_corrupt_inv o o' : oam_corrupt o = Ok o' -> oam_inv o -> oam_inv o'.
Proof.
  unfold oam_corrupt. destruct (negb (o_read o) && negb (o_write o)); [intros X; inversion X; subst; auto|].
  intros H Ho.
  destruct (if o_read o && o_write o then read_write_corruption o else Ok o) as [oa| |] eqn:Ea; cbn [bind] in H; try discriminate H.
  assert (Ha : oam_inv oa).
  { destruct (o_read o && o_write o); [|inversion Ea; subst; exact Ho].
    apply (pattern_inv _ read_write_corruption_shape _ _ Ea Ho). }
  match type of H with bind ?e _ = _ => destruct e as [ob| |] eqn:Eb end; cbn [bind] in H; try discriminate H.
  inversion H; subst. apply (same_engine_inv _ _ (se_flags _ _ _ _)).
  destruct (o_read oa); [apply (pattern_inv _ read_corruption_shape _ _ Eb Ha)|].
  destruct (if o_doubleWrite oa then double_write_corruption oa else Ok oa) as [oc| |] eqn:Ec; cbn [bind] in Eb; try discriminate Eb.
  assert (Hc : oam_inv oc).
  { destruct (o_doubleWrite oa); [|inversion Ec; subst; exact Ha].
    apply (pattern_inv _ double_write_corruption_shape _ _ Ec Ha). }
  destruct (o_write oc); [apply (pattern_inv _ write_corruption_shape _ _ Eb Hc)|inversion Eb; subst; exact Hc].
Qed.

(* ---- CPU side ---- *)
Lemma oam_read_inv o a o' v : oam_read o a = Ok (o', v) -> oam_inv o -> oam_inv o' /\ v < 256.
Proof.
  unfold oam_read. intros H Ho.
  destruct (o_dmaRunning o); [inversion H; subst; split; [exact Ho|lia]|].
  set (o1 := if o_corrupt o then _ else _) in *.
  assert (H1 : oam_inv o1) by (subst o1; destruct (o_corrupt o); [apply (same_engine_inv _ _ (se_flags _ _ _ _) Ho)|exact Ho]).
  destruct (0xFEA0 <=? a); [inversion H; subst; split; [exact H1|lia]|].
  binds. inversion H; subst. split; [exact H1|]. eapply get8_byte; [eassumption|apply H1].
Qed.

Lemma oam_write_inv o a v o' : oam_write o a v = Ok o' -> oam_inv o -> v < 256 -> oam_inv o'.
Proof.
  unfold oam_write. intros H Ho Hv.
  set (o1 := if o_corrupt o then _ else _) in *.
  assert (H1 : oam_inv o1).
  { subst o1. destruct (o_corrupt o); [|exact Ho].
    destruct (o_write o); apply (same_engine_inv _ _ (se_flags _ _ _ _) Ho). }
  destruct (a <? 0xFEA0); [|inversion H; subst; exact H1].
  binds. inversion H; subst. apply set_mem_inv; [exact H1|]. eapply put8_bmem; [eassumption|apply H1|exact Hv].
Qed.

Lemma oam_trigger_inv o a : oam_inv o -> oam_inv (oam_trigger_write_corruption o a).
Proof.
  intros Ho. unfold oam_trigger_write_corruption.
  destruct (_ || _); [exact Ho|]. destruct (o_write o); apply (same_engine_inv _ _ (se_flags _ _ _ _) Ho).
Qed.

Lemma oam_write_dma_inv o v : oam_inv o -> v < 256 -> oam_inv (oam_write_dma o v).
Proof.
  intros [A B C D E] Hv. constructor; cbn; try assumption.
  - unfold dma_ok. cbn. lia.
  - assert (S : N.shiftl v 8 = v * 256) by (rewrite N.shiftl_mul_pow2; reflexivity). rewrite S.
    unfold u16, sub16. change 0xE000 with 57344. change 0xDF00 with 57088.
    destruct (57344 <=? (v * 256) mod 65536) eqn:Q; lia.
Qed.

Lemma oam_tick_dma_inv rd o o' :
  (forall a, a < 65536 -> rd a < 256) -> oam_tick_dma rd o = Ok o' -> oam_inv o -> oam_inv o'.
Proof.
  intros Hrd H [A B C D E]. unfold oam_tick_dma in H.
  destruct (o_dmaRunning o) eqn:R; [|inversion H; subst; constructor; assumption].
  pose proof (A R) as A'.
  destruct (o_dmaCycle o =? 0) eqn:E0; [|destruct (o_dmaCycle o =? 1) eqn:E1; [|destruct (o_dmaCycle o =? 161) eqn:E2]].
  - inversion H; subst. constructor; cbn; try assumption. unfold dma_ok; cbn. intros _. unfold add16. lia.
  - inversion H; subst. constructor; cbn; try assumption; [unfold dma_ok; cbn; intros _; unfold add16; lia|].
    apply Hrd. change 0xDF00 with 57088 in E. lia.
  - binds. inversion H; subst. constructor; cbn; try assumption; [unfold dma_ok; cbn; discriminate|].
    eapply put8_bmem; eassumption.
  - binds. inversion H; subst. constructor; cbn; try assumption.
    + unfold dma_ok; cbn. intros _. unfold add16. lia.
    + eapply put8_bmem; eassumption.
    + apply Hrd. unfold sub16. lia.
Qed.
