(* MapperPlain.v — C06, plain memory under arbitrary bus histories: the machine refines the abstract
   "last write wins" memory of AddrSpec (amem) on work RAM and its echo, high RAM, IE, video RAM, and — while no
   DMA is running or started — OAM; FEA0-FEFF reads 0 and unmapped I/O addresses read FF.
   Induction over the history; the step lemmas are read_inert / write_frame (C07) and hw_cycle_rel. *)
From Coq Require Import ZArith ZifyN ZifyNat ZifyBool.
From V.lib Require Import Bits Mem Res.
From V.model Require Import Ints Joypad Timer Rtc Cart Oam PpuTiming Apu MapperTypes System.
From V.gen Require Import GenMapper.
From V.spec Require Import AddrSpec.
From V.proofs Require Import MapperDecode MapperFrame MapperWithin MapperApu MapperFootprint MapperHw.

(* ---- histories ---- *)
Lemma bus_run_app s h1 h2 : bus_run s (h1 ++ h2) = (do x <- bus_run s h1; bus_run x h2).
Proof.
  unfold bus_run. rewrite fold_left_app.
  generalize (fold_left (fun r o => do x <- r; bus_step x o) h1 (Ok s)). intros r.
  destruct r as [x| |]; cbn [bind]; [reflexivity| |];
    induction h2 as [|o h2 IH]; cbn [fold_left bind]; auto.
Qed.

Lemma bus_run_snoc s h o s' : bus_run s (h ++ [o]) = Ok s' -> exists s1, bus_run s h = Ok s1 /\ bus_step s1 o = Ok s'.
Proof.
  rewrite bus_run_app. intros H. apply bind_ok in H. destruct H as (s1 & H1 & H2).
  exists s1. split; [exact H1|]. unfold bus_run in H2. cbn [fold_left bind] in H2. exact H2.
Qed.

Lemma amem_run_snoc m h o : amem_run m (h ++ [o]) = amem_step (amem_run m h) o.
Proof. unfold amem_run. rewrite fold_left_app. reflexivity. Qed.

(* ---- the plain regions that no hardware activity touches ---- *)
Definition is_plain (a : N) : bool := is_wram a || is_echo a || is_hram a || (a =? 0xFFFF) || is_vram a.

(* the abstraction of a concrete state *)
Definition abs_mem (s : sys) : amem := fun x =>
  if is_wram x then Mem.get (s_wram s) (x - 0xC000)
  else if is_hram x then Mem.get (s_hram s) (x - 0xFF80)
  else if x =? 0xFFFF then ie (s_ints s)
  else if is_vram x then Mem.get (p_vram (s_ppu s)) (x - 0x8000)
  else if is_oam x then Mem.get (o_mem (s_oam s)) (x - 0xFE00)
  else 0.

(* reading a plain address: which cell it is *)
Ltac region_of a Ha :=
  pose proof (decode_read_ok a Ha) as Er; pose proof (region_inv a Ha) as Rr; rewrite peek_rd, Er;
  destruct (spec_region a) eqn:Gr; cbn [handler_of rd].

Lemma sizes : internalRAM_size = 8192 /\ 127 <= zeroPage_size.
Proof. split; [reflexivity | vm_compute; discriminate]. Qed.

Lemma peek_plain s a : a < 65536 -> is_plain a = true -> peek s a = Ok (abs_mem s (canon a)).
Proof.
  intros Ha Hp. destruct sizes as (Z1 & Z2).
  unfold is_plain, is_wram, is_echo, is_hram, is_vram in Hp.
  region_of a Ha; try (exfalso; lia).
  - (* vram *) unfold ppu_read_vram, abs_mem, canon, is_wram, is_hram, is_vram, sub16. cbv zeta.
    replace ((a + 65536 - 32768 mod 65536) mod 65536) with (a - 32768) by lia.
    assert (X : (a - 32768 <? 8192) = true) by lia. rewrite X.
    repeat match goal with |- context [if ?c then _ else _] =>
             first [ let E := fresh in assert (E : c = true) by lia; rewrite E; clear E
                   | let E := fresh in assert (E : c = false) by lia; rewrite E; clear E ] end.
    reflexivity.
  - (* wram *) unfold arr_get, abs_mem, canon, is_wram. rewrite Z1.
    assert (X : (a - 49152 <? 8192) = true) by lia. rewrite X.
    repeat match goal with |- context [if ?c then _ else _] =>
             first [ let E := fresh in assert (E : c = true) by lia; rewrite E; clear E
                   | let E := fresh in assert (E : c = false) by lia; rewrite E; clear E ] end.
    reflexivity.
  - (* echo *) unfold arr_get, abs_mem, canon, is_wram. rewrite Z1.
    assert (X : (a - 57344 <? 8192) = true) by lia. rewrite X.
    repeat match goal with |- context [if ?c then _ else _] =>
             first [ let E := fresh in assert (E : c = true) by lia; rewrite E; clear E
                   | let E := fresh in assert (E : c = false) by lia; rewrite E; clear E ] end.
    f_equal. f_equal. lia.
  - (* IE is the only register among the plain addresses *)
    assert (Hr : r = R_IE).
    { subst a. destruct r; cbn [reg_addr] in Hp; try (exfalso; lia); reflexivity. }
    subst r a. reflexivity.
  - (* hram *) unfold arr_get, abs_mem, canon, is_wram, is_hram.
    assert (X : (a - 65408 <? zeroPage_size) = true) by lia. rewrite X.
    repeat match goal with |- context [if ?c then _ else _] =>
             first [ let E := fresh in assert (E : c = true) by lia; rewrite E; clear E
                   | let E := fresh in assert (E : c = false) by lia; rewrite E; clear E ] end.
    reflexivity.
Qed.

(* canonical cells of the plain regions *)
Definition plain_cell (x : N) : bool := is_wram x || is_hram x || (x =? 0xFFFF) || is_vram x.

Lemma canon_plain a : a < 65536 -> is_plain a = true -> plain_cell (canon a) = true /\ canon a < 65536.
Proof.
  unfold is_plain, plain_cell, canon, is_wram, is_echo, is_hram, is_vram. intros Ha H.
  destruct ((57344 <=? a) && (a <? 65024)) eqn:E; lia.
Qed.

Ltac cond_lia :=
  repeat match goal with |- context [if ?c then _ else _] =>
           first [ let E := fresh in assert (E : c = true) by lia; rewrite E; clear E
                 | let E := fresh in assert (E : c = false) by lia; rewrite E; clear E ] end.

(* one write, seen on the plain cells *)
Lemma write_plain s a v s' x :
  a < 65536 -> sys_write s a v = Ok s' -> x < 65536 -> plain_cell x = true ->
  abs_mem s' x = if x =? canon a then v else abs_mem s x.
Proof.
  intros Ha Hw Hx Hp. destruct sizes as (Z1 & Z2).
  pose proof (decode_write_ok a Ha) as Ew. pose proof (region_inv a Ha) as Ra.
  unfold plain_cell, is_wram, is_hram, is_vram in Hp.
  unfold sys_write in Hw. rewrite Ew in Hw.
  destruct (spec_region a) eqn:Ga; cbn [handler_of] in Hw;
    try (apply bind_ok in Hw; destruct Hw as (y & Hy & Hw)); inv_ok Hw.
  - (* cartridge control *)
    assert (E : (x =? canon a) = false) by (unfold canon; cond_lia; lia). rewrite E. reflexivity.
  - (* video RAM *)
    unfold ppu_write_vram in Hy. cbv zeta in Hy. destruct (sub16 a 32768 <? 8192) eqn:Ei; [|discriminate Hy]. inv_ok Hy.
    unfold abs_mem, canon, is_wram, is_hram, is_vram, is_oam. sysf. cbn [p_vram set_vram].
    assert (Es : sub16 a 32768 = a - 32768) by (unfold sub16; lia). rewrite Es.
    destruct (x =? a) eqn:Exa.
    + apply N.eqb_eq in Exa. subst x. cond_lia. rewrite Mem.gss. cond_lia. reflexivity.
    + apply N.eqb_neq in Exa. cond_lia.
      destruct ((49152 <=? x) && (x <? 57344)); [reflexivity|].
      destruct ((65408 <=? x) && (x <? 65535)); [reflexivity|].
      destruct (x =? 65535); [reflexivity|].
      destruct ((32768 <=? x) && (x <? 40960)) eqn:Ev; [|reflexivity].
      rewrite Mem.gso by lia. reflexivity.
  - (* cartridge RAM *)
    assert (E : (x =? canon a) = false) by (unfold canon; cond_lia; lia). rewrite E. reflexivity.
  - (* work RAM *)
    unfold arr_set in Hy. rewrite Z1 in Hy. destruct (a - 49152 <? 8192) eqn:Ei; [|discriminate Hy]. inv_ok Hy.
    unfold abs_mem, canon, is_wram, is_hram, is_vram, is_oam. sysf. cond_lia.
    destruct (x =? a) eqn:Exa.
    + apply N.eqb_eq in Exa. subst x. cond_lia. rewrite Mem.gss. reflexivity.
    + apply N.eqb_neq in Exa.
      destruct ((49152 <=? x) && (x <? 57344)) eqn:Ewr; [|reflexivity].
      rewrite Mem.gso by lia. reflexivity.
  - (* echo *)
    unfold arr_set in Hy. rewrite Z1 in Hy. destruct (a - 57344 <? 8192) eqn:Ei; [|discriminate Hy]. inv_ok Hy.
    unfold abs_mem, canon, is_wram, is_hram, is_vram, is_oam. sysf. cond_lia.
    destruct (x =? a - 8192) eqn:Exa.
    + apply N.eqb_eq in Exa. subst x. cond_lia. replace (a - 8192 - 49152) with (a - 57344) by lia.
      rewrite Mem.gss. reflexivity.
    + apply N.eqb_neq in Exa.
      destruct ((49152 <=? x) && (x <? 57344)) eqn:Ewr; [|reflexivity].
      rewrite Mem.gso by lia. reflexivity.
  - (* OAM *)
    assert (E : (x =? canon a) = false) by (unfold canon; cond_lia; lia). rewrite E.
    unfold abs_mem, is_wram, is_hram, is_vram, is_oam. sysf.
    destruct ((49152 <=? x) && (x <? 57344)); [reflexivity|].
    destruct ((65408 <=? x) && (x <? 65535)); [reflexivity|].
    destruct (x =? 65535); [reflexivity|].
    destruct ((32768 <=? x) && (x <? 40960)) eqn:Ev; [reflexivity|]. exfalso; lia.
  - assert (E : (x =? canon a) = false) by (unfold canon; cond_lia; lia). rewrite E.
    unfold abs_mem, is_wram, is_hram, is_vram, is_oam. sysf.
    destruct ((49152 <=? x) && (x <? 57344)); [reflexivity|].
    destruct ((65408 <=? x) && (x <? 65535)); [reflexivity|].
    destruct (x =? 65535); [reflexivity|].
    destruct ((32768 <=? x) && (x <? 40960)) eqn:Ev; [reflexivity|]. exfalso; lia.
  - (* a register *)
    pose proof (reg_addr_page r) as Pg.
    assert (Ec : canon (reg_addr r) = reg_addr r) by (unfold canon; cond_lia; reflexivity). rewrite Ec.
    unfold abs_mem, is_wram, is_hram, is_vram, is_oam.
    destruct ((49152 <=? x) && (x <? 57344)) eqn:E1.
    { assert (E : (x =? reg_addr r) = false) by lia. rewrite E.
      f_equal. apply (reg_write_comp r s v KWram); [destruct r; discriminate | intros _; discriminate]. }
    destruct ((65408 <=? x) && (x <? 65535)) eqn:E2.
    { assert (E : (x =? reg_addr r) = false) by (destruct r; cbn [reg_addr]; lia). rewrite E.
      f_equal. apply (reg_write_comp r s v KHram); [destruct r; discriminate | intros _; discriminate]. }
    destruct (x =? 65535) eqn:E3.
    { apply N.eqb_eq in E3. subst x. destruct (65535 =? reg_addr r) eqn:E.
      - apply N.eqb_eq in E. assert (r = R_IE) by (apply reg_addr_inj; cbn [reg_addr]; congruence). subst r. reflexivity.
      - apply N.eqb_neq in E. destruct r; try reflexivity;
          try (unfold reg_write; destruct (s_ser_attached s); reflexivity). exfalso. apply E. reflexivity. }
    destruct ((32768 <=? x) && (x <? 40960)) eqn:E4; [|exfalso; lia].
    assert (E : (x =? reg_addr r) = false) by lia. rewrite E.
    f_equal. destruct (comp_eq_dec (comp_of_reg r) KPpu) as [Ep|Np].
    + apply ppu_reg_write_vram. exact Ep.
    + assert (X : same_comp KPpu s (reg_write r s v)).
      { apply reg_write_comp; [congruence | intros ->; discriminate]. }
      cbn [same_comp] in X. rewrite X. reflexivity.
  - (* unmapped *)
    assert (E : (x =? canon a) = false) by (unfold canon; cond_lia; lia). rewrite E. reflexivity.
  - (* wave RAM *)
    assert (E : (x =? canon a) = false) by (unfold canon; cond_lia; lia). rewrite E. reflexivity.
  - (* high RAM *)
    unfold arr_set in Hy. destruct (a - 65408 <? zeroPage_size) eqn:Ei; [|discriminate Hy]. inv_ok Hy.
    unfold abs_mem, canon, is_wram, is_hram, is_vram, is_oam. sysf. cond_lia.
    destruct (x =? a) eqn:Exa.
    + apply N.eqb_eq in Exa. subst x. cond_lia. rewrite Mem.gss. reflexivity.
    + apply N.eqb_neq in Exa.
      destruct ((49152 <=? x) && (x <? 57344)) eqn:Ewr; [reflexivity|].
      destruct ((65408 <=? x) && (x <? 65535)) eqn:Eh; [|reflexivity].
      rewrite Mem.gso by lia. reflexivity.
Qed.

Lemma read_plain s a s' v x : sys_read s a = Ok (s', v) -> plain_cell x = true -> abs_mem s' x = abs_mem s x.
Proof.
  intros H Hp. unfold plain_cell, is_wram, is_hram, is_vram in Hp.
  destruct (sys_read_state _ _ _ _ H) as [->|(o' & _ & ->)]; [reflexivity|].
  unfold abs_mem, is_wram, is_hram, is_vram, is_oam. sysf.
  destruct ((49152 <=? x) && (x <? 57344)); [reflexivity|].
  destruct ((65408 <=? x) && (x <? 65535)); [reflexivity|].
  destruct (x =? 65535); [reflexivity|].
  destruct ((32768 <=? x) && (x <? 40960)) eqn:Ev; [reflexivity|]. exfalso; lia.
Qed.

Lemma hw_plain s s' x : hw_rel s s' -> plain_cell x = true -> abs_mem s' x = abs_mem s x.
Proof.
  intros R Hp. unfold plain_cell, is_wram, is_hram, is_vram in Hp.
  destruct R as [E1 E2 _ _ E5 _ P7 _ _ _ _ _]. destruct P7 as (_ & _ & _ & _ & _ & _ & _ & _ & _ & _ & _ & Ev).
  unfold abs_mem, is_wram, is_hram, is_vram, is_oam. rewrite E1, E2, E5, Ev.
  destruct ((49152 <=? x) && (x <? 57344)); [reflexivity|].
  destruct ((65408 <=? x) && (x <? 65535)); [reflexivity|].
  destruct (x =? 65535); [reflexivity|].
  destruct ((32768 <=? x) && (x <? 40960)) eqn:E; [reflexivity|]. exfalso; lia.
Qed.

(* well-formed histories: 16-bit addresses *)
Definition wf_bop (o : bop) : bool :=
  match o with BRead a => a <? 65536 | BWrite a _ => a <? 65536 | BHw => true end.

Lemma step_plain s o s' x :
  wf_bop o = true -> bus_step s o = Ok s' -> x < 65536 -> plain_cell x = true ->
  abs_mem s' x = amem_step (abs_mem s) o x.
Proof.
  intros Hwf Hs Hx Hp. destruct o as [a|a v|]; cbn [bus_step amem_step wf_bop] in *.
  - apply bind_ok in Hs. destruct Hs as ([s1 v1] & Hr & Hs). inv_ok Hs. cbn [fst]. eapply read_plain; eassumption.
  - apply N.ltb_lt in Hwf. apply (write_plain _ _ _ _ _ Hwf Hs Hx Hp).
  - apply hw_plain; [apply hw_cycle_rel; exact Hs | exact Hp].
Qed.

Theorem plain_refines (h : list bop) : forall s s' x,
  forallb wf_bop h = true -> bus_run s h = Ok s' -> x < 65536 -> plain_cell x = true ->
  abs_mem s' x = amem_run (abs_mem s) h x.
Proof.
  induction h as [|o h IH] using rev_ind; intros s s' x Hwf Hr Hx Hp.
  - cbn in Hr. inv_ok Hr. reflexivity.
  - rewrite forallb_app in Hwf. apply andb_true_iff in Hwf. destruct Hwf as (Hwf & Ho).
    cbn [forallb] in Ho. rewrite andb_true_r in Ho.
    destruct (bus_run_snoc _ _ _ _ Hr) as (s1 & H1 & H2).
    rewrite amem_run_snoc. rewrite (step_plain _ _ _ _ Ho H2 Hx Hp).
    destruct o as [a|a v|]; cbn [amem_step]; try (apply IH; assumption).
    destruct (x =? canon a); [reflexivity|]. apply IH; assumption.
Qed.

(* the statement-level form: after any history, every plain address reads the last byte written to it or to its
   echo partner, and what it read in the initial state if it never was written *)
Theorem plain_memory s h s' a :
  forallb wf_bop h = true -> bus_run s h = Ok s' -> a < 65536 -> is_plain a = true ->
  peek s' a = Ok (amem_run (abs_mem s) h (canon a)).
Proof.
  intros Hwf Hr Ha Hp. rewrite (peek_plain _ _ Ha Hp).
  destruct (canon_plain _ Ha Hp) as (Hc & Hlt).
  rewrite (plain_refines h s s' _ Hwf Hr Hlt Hc). reflexivity.
Qed.

(* echo: both directions at once, as a corollary *)
Theorem echo_mirror s h s' a :
  forallb wf_bop h = true -> bus_run s h = Ok s' -> 0xC000 <= a < 0xDE00 -> peek s' (a + 0x2000) = peek s' a.
Proof.
  intros Hwf Hr Ha.
  rewrite (plain_memory s h s' (a + 0x2000) Hwf Hr), (plain_memory s h s' a Hwf Hr);
    try lia; try (unfold is_plain, is_wram, is_echo, is_hram, is_vram; lia).
  f_equal. f_equal. unfold canon. cond_lia. lia.
Qed.

(* ---- unmapped I/O: FF, whatever happened ---- *)
Theorem unmapped_reads_ff s a : a < 65536 -> is_unmapped a = true -> peek s a = Ok 255.
Proof.
  intros Ha Hu. unfold is_unmapped in Hu. region_of a Ha; try (exfalso; lia); try reflexivity.
  exfalso. subst a. destruct r; vm_compute in Hu; discriminate Hu.
Qed.

(* ---- OAM: plain while no DMA runs and none is started ---- *)
Definition dma_idle (s : sys) : bool := negb (o_dmaRunning (s_oam s)).

Lemma peek_oam s a : a < 65536 -> dma_idle s = true -> is_oam a = true ->
  peek s a = Ok (Mem.get (o_mem (s_oam s)) (a - 0xFE00)).
Proof.
  intros Ha Hd Ho. unfold dma_idle in Hd. apply negb_true_iff in Hd. unfold is_oam in Ho.
  region_of a Ha; try (exfalso; lia).
  2: { exfalso. pose proof (reg_addr_page r). lia. }
  unfold oam_read. rewrite Hd.
  assert (E : (65184 <=? a) = false) by lia.
  assert (Ei : sub16 a 65024 = a - 65024) by (unfold sub16; lia).
  assert (Ej : (a - 65024 <? oam_size) = true) by (unfold oam_size; lia).
  destruct (o_corrupt (s_oam s)); change 0xFEA0 with 65184; change 0xFE00 with 65024; rewrite E; unfold get8;
    cbn [o_mem set_flags]; rewrite Ei, Ej; reflexivity.
Qed.

Lemma peek_unusable s a : a < 65536 -> dma_idle s = true -> is_unusable a = true -> peek s a = Ok 0.
Proof.
  intros Ha Hd Ho. unfold dma_idle in Hd. apply negb_true_iff in Hd. unfold is_unusable in Ho.
  region_of a Ha; try (exfalso; lia).
  2: { exfalso. pose proof (reg_addr_page r). lia. }
  unfold oam_read. rewrite Hd. assert (E : (65184 <=? a) = true) by lia.
  destruct (o_corrupt (s_oam s)); change 0xFEA0 with 65184; rewrite E; reflexivity.
Qed.

(* one step on the OAM store *)
Definition oam_cell (s : sys) (x : N) : N := Mem.get (o_mem (s_oam s)) (x - 0xFE00).

Definition starts_dma (o : bop) : bool := match o with BWrite a _ => a =? 0xFF46 | _ => false end.

Lemma write_oam_cells s a v s' :
  a < 65536 -> a <> 0xFF46 -> sys_write s a v = Ok s' ->
  o_dmaRunning (s_oam s') = o_dmaRunning (s_oam s) /\
  forall x, is_oam x = true -> oam_cell s' x = if x =? a then v else oam_cell s x.
Proof.
  intros Ha Hne Hw.
  pose proof (decode_write_ok a Ha) as Ew. pose proof (region_inv a Ha) as Ra.
  destruct (comp_eq_dec KOam (comp_of (write_handler a))) as [Ec|Nc].
  - rewrite Ew in Ec. unfold sys_write in Hw. rewrite Ew in Hw.
    destruct (spec_region a) eqn:Ga; cbn [handler_of comp_of] in Ec; try discriminate Ec; cbn [handler_of] in Hw.
    + (* OAM proper *)
      apply bind_ok in Hw. destruct Hw as (o' & Ho & Hw). inv_ok Hw. sysf. unfold oam_cell. sysf.
      unfold oam_write in Ho.
      set (o1 := if o_corrupt (s_oam s) then _ else s_oam s) in Ho.
      assert (F : o_mem o1 = o_mem (s_oam s) /\ o_dmaRunning o1 = o_dmaRunning (s_oam s)).
      { subst o1. destruct (o_corrupt (s_oam s)); [|split; reflexivity]. destruct (o_write (s_oam s)); split; reflexivity. }
      destruct F as (F1 & F2).
      assert (E : (a <? 65184) = true) by lia. change 0xFEA0 with 65184 in Ho. rewrite E in Ho.
      apply bind_ok in Ho. destruct Ho as (m & Hm & Ho). inv_ok Ho. cbn [o_dmaRunning o_mem set_mem].
      split; [exact F2|]. intros x Hx. unfold is_oam in Hx.
      unfold put8 in Hm. destruct (sub16 a 65024 <? oam_size); [|discriminate Hm]. inv_ok Hm.
      assert (Ei : sub16 a 65024 = a - 65024) by (unfold sub16; lia). rewrite Ei, F1.
      rewrite Mem.gsspec. change 0xFE00 with 65024.
      destruct (x =? a) eqn:Exa.
      * apply N.eqb_eq in Exa. subst x. rewrite N.eqb_refl. reflexivity.
      * apply N.eqb_neq in Exa. assert (X : (a - 65024 =? x - 65024) = false) by lia. rewrite X. reflexivity.
    + (* FEA0-FEFF: nothing is stored *)
      apply bind_ok in Hw. destruct Hw as (o' & Ho & Hw). inv_ok Hw. sysf. unfold oam_cell. sysf.
      unfold oam_write in Ho.
      set (o1 := if o_corrupt (s_oam s) then _ else s_oam s) in Ho.
      assert (F : o_mem o1 = o_mem (s_oam s) /\ o_dmaRunning o1 = o_dmaRunning (s_oam s)).
      { subst o1. destruct (o_corrupt (s_oam s)); [|split; reflexivity]. destruct (o_write (s_oam s)); split; reflexivity. }
      destruct F as (F1 & F2).
      assert (E : (a <? 65184) = false) by lia. change 0xFEA0 with 65184 in Ho. rewrite E in Ho. inv_ok Ho.
      split; [exact F2|]. intros x Hx. unfold is_oam in Hx.
      assert (X : (x =? a) = false) by lia. rewrite X, F1. reflexivity.
    + (* the DMA register *)
      exfalso. subst a. destruct r; try discriminate Ec. apply Hne. reflexivity.
  - (* another component; LCDC only opens / closes the corruption window *)
    destruct (handler_eq_lcdc (write_handler a)) as [El|Nl].
    + unfold sys_write in Hw. rewrite El in Hw. inv_ok Hw. unfold oam_cell. cbn [reg_write]. sysf.
      assert (F : o_mem (snd (ppu_write_lcdc (s_ppu s) (s_oam s) v)) = o_mem (s_oam s) /\
                  o_dmaRunning (snd (ppu_write_lcdc (s_ppu s) (s_oam s) v)) = o_dmaRunning (s_oam s)).
      { unfold ppu_write_lcdc, ppu_enable, ppu_disable, oam_enter_mode2, oam_exit_mode2.
        destruct (tb v 128 && negb (p_enabled (s_ppu s))); [split; reflexivity|].
        destruct (negb (tb v 128) && p_enabled (s_ppu s)); split; reflexivity. }
      destruct F as (F1 & F2). split; [exact F2|]. intros x Hx. rewrite F1.
      assert (a = 0xFF40).
      { rewrite Ew in El. destruct (spec_region a); cbn [handler_of] in El; try discriminate El.
        injection El as ->. exact Ra. }
      subst a. unfold is_oam in Hx. assert (X : (x =? 65344) = false) by lia. change 0xFF40 with 65344. rewrite X. reflexivity.
    + assert (X : same_comp KOam s s') by (eapply write_comp; [exact Hw | exact Nc | intros E; contradiction]).
      cbn [same_comp] in X. unfold oam_cell. rewrite X. split; [reflexivity|]. intros x Hx. unfold is_oam in Hx.
      assert (E : (x =? a) = false).
      { apply N.eqb_neq. intros ->. apply Nc. rewrite Ew.
        pose proof (region_inv a Ha) as R. destruct (spec_region a); cbn [handler_of comp_of]; try reflexivity; exfalso; try lia.
        all: try (pose proof (reg_addr_page r); lia).
        all: try (destruct R; lia). }
      rewrite E. reflexivity.
Qed.

Lemma step_oam s o s' :
  wf_bop o = true -> starts_dma o = false -> dma_idle s = true -> bus_step s o = Ok s' ->
  dma_idle s' = true /\ forall x, is_oam x = true -> oam_cell s' x = amem_step (oam_cell s) o x.
Proof.
  intros Hwf Hnd Hd Hs. unfold dma_idle in *.
  destruct o as [a|a v|]; cbn [bus_step amem_step wf_bop starts_dma] in *.
  - apply bind_ok in Hs. destruct Hs as ([s1 v1] & Hr & Hs). inv_ok Hs. cbn [fst].
    destruct (sys_read_state _ _ _ _ Hr) as [->|(o' & (r & w & d & ->) & ->)]; [split; [exact Hd | reflexivity]|].
    unfold oam_cell. sysf. split; [exact Hd | reflexivity].
  - apply N.ltb_lt in Hwf. apply N.eqb_neq in Hnd.
    destruct (write_oam_cells _ _ _ _ Hwf Hnd Hs) as (E1 & E2). rewrite E1. split; [exact Hd|].
    intros x Hx. rewrite (E2 x Hx).
    assert (Ec : (x =? canon a) = (x =? a)).
    { unfold canon, is_oam in *. destruct ((57344 <=? a) && (a <? 65024)) eqn:E; [|reflexivity]. lia. }
    rewrite Ec. reflexivity.
  - apply hw_cycle_rel in Hs. apply negb_true_iff in Hd.
    destruct (hr_oam _ _ Hs Hd) as (M & Rn & _). rewrite Rn. split; [apply negb_true_iff; exact Hd|].
    intros x _. unfold oam_cell. rewrite M. reflexivity.
Qed.

Theorem oam_refines (h : list bop) : forall s s',
  forallb wf_bop h = true -> no_dma_start h = true -> dma_idle s = true -> bus_run s h = Ok s' ->
  dma_idle s' = true /\ forall x, is_oam x = true -> oam_cell s' x = amem_run (oam_cell s) h x.
Proof.
  induction h as [|o h IH] using rev_ind; intros s s' Hwf Hn Hd Hr.
  - cbn in Hr. inv_ok Hr. split; [exact Hd | reflexivity].
  - rewrite forallb_app in Hwf. apply andb_true_iff in Hwf. destruct Hwf as (Hwf & Ho).
    cbn [forallb] in Ho. rewrite andb_true_r in Ho.
    unfold no_dma_start in Hn. rewrite forallb_app in Hn. apply andb_true_iff in Hn. destruct Hn as (Hn & Hno).
    cbn [forallb] in Hno. rewrite andb_true_r in Hno.
    destruct (bus_run_snoc _ _ _ _ Hr) as (s1 & H1 & H2).
    destruct (IH s s1 Hwf Hn Hd H1) as (D1 & C1).
    assert (Hsd : starts_dma o = false).
    { destruct o; cbn [starts_dma]; try reflexivity. apply negb_true_iff in Hno. exact Hno. }
    destruct (step_oam _ _ _ Ho Hsd D1 H2) as (D2 & C2). split; [exact D2|].
    intros x Hx. rewrite amem_run_snoc, (C2 x Hx).
    destruct o as [a|a v|]; cbn [amem_step]; try (apply C1; exact Hx).
    destruct (x =? canon a); [reflexivity | apply C1; exact Hx].
Qed.

(* statement-level: OAM reads back the last byte written, FEA0-FEFF reads 0 *)
Theorem oam_memory s h s' a :
  forallb wf_bop h = true -> no_dma_start h = true -> dma_idle s = true -> bus_run s h = Ok s' ->
  a < 65536 -> is_oam a = true ->
  peek s' a = Ok (amem_run (oam_cell s) h a).
Proof.
  intros Hwf Hn Hd Hr Ha Ho. destruct (oam_refines h s s' Hwf Hn Hd Hr) as (D & C).
  rewrite (peek_oam _ _ Ha D Ho). f_equal. exact (C a Ho).
Qed.

Theorem unusable_reads_zero s h s' a :
  forallb wf_bop h = true -> no_dma_start h = true -> dma_idle s = true -> bus_run s h = Ok s' ->
  a < 65536 -> is_unusable a = true -> peek s' a = Ok 0.
Proof.
  intros Hwf Hn Hd Hr Ha Ho. destruct (oam_refines h s s' Hwf Hn Hd Hr) as (D & _).
  exact (peek_unusable _ _ Ha D Ho).
Qed.

(* ---- from power-on ---- *)
Lemma new_abs img ser aud c s0 : sys_new img ser aud = Ok (c, s0) ->
  dma_idle s0 = true /\ (forall x, plain_cell x = true -> abs_mem s0 x = 0) /\ (forall x, oam_cell s0 x = 0)
  /\ ifl (s_ints s0) < 32 /\ p_mode (s_ppu s0) < 4.
Proof.
  unfold sys_new. intros H. apply bind_ok in H. destruct H as (ct & _ & H). inv_ok H.
  split; [reflexivity|]. split; [|split; [|split]].
  - intros x Hp. unfold plain_cell, is_wram, is_hram, is_vram in Hp.
    unfold abs_mem, is_wram, is_hram, is_vram, is_oam. sysf.
    destruct ((49152 <=? x) && (x <? 57344)); [apply Mem.get_empty|].
    destruct ((65408 <=? x) && (x <? 65535)); [apply Mem.get_empty|].
    destruct (x =? 65535); [reflexivity|].
    destruct ((32768 <=? x) && (x <? 40960)) eqn:E; [|exfalso; lia].
    match goal with |- Mem.get (p_vram ?p) _ = _ =>
      assert (Ev : p_vram p = Mem.empty 0) by (vm_compute; reflexivity); rewrite Ev end.
    apply Mem.get_empty.
  - intros x. unfold oam_cell. sysf.
    match goal with |- Mem.get (o_mem ?o) _ = _ =>
      assert (Ev : o_mem o = Mem.empty 0) by (vm_compute; reflexivity); rewrite Ev end.
    apply Mem.get_empty.
  - vm_compute. reflexivity.
  - vm_compute. reflexivity.
Qed.

Lemma amem_run_ext m m' h x : (forall y, m y = m' y) -> amem_run m h x = amem_run m' h x.
Proof.
  revert m m' x. induction h as [|o h IH]; intros m m' x E; cbn; [apply E|].
  apply IH. intros y. destruct o; cbn [amem_step]; try apply E. destruct (y =? canon a); [reflexivity | apply E].
Qed.
