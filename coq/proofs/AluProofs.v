(* AluProofs.v — the arithmetic helpers of the CPU model (Alu.v, mirroring the Go bit tricks) compute the
   documented results and flags (Sm83Spec.v), for every operand and every flag register value with a zero low
   nibble.  8-bit facts by exhaustive sweep (vm_compute, lifted to forall); 16-bit facts by arithmetic. *)
From V.lib Require Import Bits.
From V.model Require Import Uop Alu.
From V.spec Require Import Sm83Spec.
From V.proofs Require Export AluSweeps.
From Coq Require Import ZArith ZifyN ZifyBool.

Theorem alu_ok o a u f : a < 256 -> u < 256 -> wf_f f -> alu o a u f = alu_doc o a u f.
Proof.
  intros Ha Hu Hf. destruct (wf_f_16k f Hf) as (k & Hk & ->).
  pose proof (sweep_bytes _ (alu_sweep o) a Ha) as H1. cbv beta in H1.
  pose proof (sweep_bytes _ H1 u Hu) as H2. cbv beta in H2.
  pose proof (sweep_upto 16 _ H2 k Hk) as H3. cbv beta in H3.
  apply pair_eqb_eq. exact H3.
Qed.

(* ---- unary operations on one byte x flag nibble ---- *)
Definition un_check (g g' : N -> N -> N * N) : bool :=
  forallb (fun r => forallb (fun k => pair_eqb (g r (16 * k)) (g' r (16 * k))) nibbles) bytes.

Lemma un_lift g g' : un_check g g' = true -> forall r f, r < 256 -> wf_f f -> g r f = g' r f.
Proof.
  intros H r f Hr Hf. destruct (wf_f_16k f Hf) as (k & Hk & ->).
  pose proof (sweep_bytes _ H r Hr) as H1. cbv beta in H1.
  pose proof (sweep_upto 16 _ H1 k Hk) as H2. cbv beta in H2.
  apply pair_eqb_eq. exact H2.
Qed.

Lemma inc8_ok r f : r < 256 -> wf_f f -> inc8 r f = inc_doc r f.
Proof. apply un_lift. vm_compute. reflexivity. Qed.
Lemma dec8_ok r f : r < 256 -> wf_f f -> dec8 r f = dec_doc r f.
Proof. apply un_lift. vm_compute. reflexivity. Qed.

Lemma rot_ok o r f : r < 256 -> wf_f f -> rot o r f = rot_doc o r f.
Proof. destruct o; apply un_lift; vm_compute; reflexivity. Qed.

Lemma rot_a_ok o a f : a < 256 -> wf_f f -> rot_a o a f = rota_doc o a f.
Proof. destruct o; apply un_lift; vm_compute; reflexivity. Qed.

Lemma daa_ok a f : a < 256 -> wf_f f -> alu_daa a f = daa_doc a f.
Proof. apply un_lift. vm_compute. reflexivity. Qed.

Lemma cpl_ok a f : a < 256 -> wf_f f -> alu_cpl a f = cpl_doc a f.
Proof. apply un_lift. vm_compute. reflexivity. Qed.

Definition f_check (g g' : N -> N) : bool := forallb (fun k => g (16 * k) =? g' (16 * k)) nibbles.
Lemma f_lift g g' : f_check g g' = true -> forall f, wf_f f -> g f = g' f.
Proof.
  intros H f Hf. destruct (wf_f_16k f Hf) as (k & Hk & ->).
  pose proof (sweep_upto 16 _ H k Hk) as H1. cbv beta in H1. apply N.eqb_eq. exact H1.
Qed.

Lemma scf_ok f : wf_f f -> alu_scf f = scf_doc f.
Proof. apply f_lift. vm_compute. reflexivity. Qed.
Lemma ccf_ok f : wf_f f -> alu_ccf f = ccf_doc f.
Proof. apply f_lift. vm_compute. reflexivity. Qed.

(* flag tests of the model agree with the documented flag bits *)
Definition fb_check (g g' : N -> bool) : bool := forallb (fun f => Bool.eqb (g f) (g' f)) bytes.
Lemma fb_lift g g' : fb_check g g' = true -> forall f, f < 256 -> g f = g' f.
Proof. intros H f Hf. pose proof (sweep_bytes _ H f Hf) as H1. cbv beta in H1. apply Bool.eqb_prop. exact H1. Qed.

Lemma zf_ok f : f < 256 -> zf f = fz f. Proof. apply fb_lift. vm_compute. reflexivity. Qed.
Lemma nf_ok f : f < 256 -> nf f = fn f. Proof. apply fb_lift. vm_compute. reflexivity. Qed.
Lemma hf_ok f : f < 256 -> hf f = fh f. Proof. apply fb_lift. vm_compute. reflexivity. Qed.
Lemma cf_ok f : f < 256 -> cf f = fc f. Proof. apply fb_lift. vm_compute. reflexivity. Qed.

(* BIT / RES / SET on a byte, positions 0-7 *)
Definition bit_check : bool :=
  forallb (fun n => forallb (fun r => forallb (fun k =>
    (bit_test n r (16 * k) =? pack (negb (N.testbit r n)) false true (fc (16 * k)))
    && (bit_res n r =? (if N.testbit r n then r - 2 ^ n else r))
    && (bit_set n r =? (if N.testbit r n then r else r + 2 ^ n))) nibbles) bytes) (upto 8).
Lemma bit_sweep : bit_check = true. Proof. vm_compute. reflexivity. Qed.

Lemma bit_ops_ok n r f : n < 8 -> r < 256 -> wf_f f ->
  bit_test n r f = pack (negb (N.testbit r n)) false true (fc f) /\
  bit_res n r = (if N.testbit r n then r - 2 ^ n else r) /\
  bit_set n r = (if N.testbit r n then r else r + 2 ^ n).
Proof.
  intros Hn Hr Hf. destruct (wf_f_16k f Hf) as (k & Hk & ->).
  pose proof (sweep_upto 8 _ bit_sweep n Hn) as H1. cbv beta in H1.
  pose proof (sweep_bytes _ H1 r Hr) as H2. cbv beta in H2.
  pose proof (sweep_upto 16 _ H2 k Hk) as H3. cbv beta in H3.
  apply andb_prop in H3; destruct H3 as [H3 H5]. apply andb_prop in H3; destruct H3 as [H3 H4].
  apply N.eqb_eq in H3, H4, H5. auto.
Qed.

(* POP AF masks the low nibble: the result is a well-formed flag register *)
Lemma land240_wf v : v < 256 -> wf_f (N.land v 240).
Proof.
  intros Hv.
  assert (H : forallb (fun v => (N.land v 240 <? 256) && (N.land v 240 mod 16 =? 0)) bytes = true) by (vm_compute; reflexivity).
  pose proof (sweep_bytes _ H v Hv) as H1. cbv beta in H1.
  apply andb_prop in H1; destruct H1 as [H1 H2]. split; [apply N.ltb_lt; exact H1 | apply N.eqb_eq; exact H2].
Qed.

(* results stay bytes / well-formed flags *)
Lemma alu_doc_wf o a u f : a < 256 -> u < 256 -> wf_f f -> fst (alu_doc o a u f) < 256 /\ wf_f (snd (alu_doc o a u f)).
Proof.
  intros Ha Hu Hf.
  assert (H : forall o, forallb (fun a => forallb (fun u => forallb (fun c =>
     let r := alu_doc o a u (16 * c) in (fst r <? 256) && (snd r <? 256) && (snd r mod 16 =? 0)) [0;1]) bytes) bytes = true).
  { intros o0; destruct o0; vm_compute; reflexivity. }
  (* alu_doc depends on f only through its carry bit *)
  assert (Hc : alu_doc o a u f = alu_doc o a u (16 * b2n (fc f))).
  { unfold alu_doc. replace (fc (16 * b2n (fc f))) with (fc f); [reflexivity|]. destruct (fc f); reflexivity. }
  rewrite Hc.
  pose proof (sweep_bytes _ (H o) a Ha) as H1. cbv beta in H1.
  pose proof (sweep_bytes _ H1 u Hu) as H2. cbv beta in H2.
  assert (Hin : In (b2n (fc f)) [0; 1]) by (destruct (fc f); cbn; auto).
  pose proof (sweep1 _ _ H2 _ Hin) as H3. cbv beta zeta in H3.
  apply andb_prop in H3; destruct H3 as [H3 H5]. apply andb_prop in H3; destruct H3 as [H3 H4].
  apply N.ltb_lt in H3, H4. apply N.eqb_eq in H5. repeat split; assumption.
Qed.

(* ---- 16-bit: ADD HL,rr for all 2^32 operand pairs, by arithmetic ---- *)
Lemma land_4095 x : N.land x 4095 = x mod 4096.
Proof. change 4095 with (N.ones 12). rewrite N.land_ones. reflexivity. Qed.
Lemma land_15 x : N.land x 15 = x mod 16.
Proof. change 15 with (N.ones 4). rewrite N.land_ones. reflexivity. Qed.
Lemma land_255 x : N.land x 255 = x mod 256.
Proof. change 255 with (N.ones 8). rewrite N.land_ones. reflexivity. Qed.

Lemma set_nhc_ok f n h c : wf_f f -> set_nhc f n h c = pack (fz f) n h c.
Proof.
  intros Hf. destruct (wf_f_16k f Hf) as (k & Hk & ->).
  assert (H : forallb (fun k => forallb (fun n => forallb (fun h => forallb (fun c =>
     set_nhc (16 * k) n h c =? pack (fz (16 * k)) n h c) bools) bools) bools) nibbles = true) by (vm_compute; reflexivity).
  pose proof (sweep_upto 16 _ H k Hk) as H1. cbv beta in H1.
  pose proof (sweep_bool _ H1 n) as H2. cbv beta in H2.
  pose proof (sweep_bool _ H2 h) as H3. cbv beta in H3.
  pose proof (sweep_bool _ H3 c) as H4. cbv beta in H4.
  apply N.eqb_eq. exact H4.
Qed.

Lemma set_znhc_ok f z n h c : wf_f f -> set_znhc f z n h c = pack z n h c.
Proof.
  intros Hf. destruct (wf_f_16k f Hf) as (k & Hk & ->).
  assert (H : forallb (fun k => forallb (fun z => forallb (fun n => forallb (fun h => forallb (fun c =>
     set_znhc (16 * k) z n h c =? pack z n h c) bools) bools) bools) bools) nibbles = true) by (vm_compute; reflexivity).
  pose proof (sweep_upto 16 _ H k Hk) as H1. cbv beta in H1.
  pose proof (sweep_bool _ H1 z) as H1'. cbv beta in H1'.
  pose proof (sweep_bool _ H1' n) as H2. cbv beta in H2.
  pose proof (sweep_bool _ H2 h) as H3. cbv beta in H3.
  pose proof (sweep_bool _ H3 c) as H4. cbv beta in H4.
  apply N.eqb_eq. exact H4.
Qed.

Lemma ltb_leb_succ x k : (k <? x) = (k + 1 <=? x).
Proof. destruct (N.ltb_spec k x), (N.leb_spec (k + 1) x); try reflexivity; lia. Qed.

Theorem addhl_ok hl u f : wf_f f -> alu_addhl hl u f = addhl_doc hl u f.
Proof.
  intros Hf. unfold alu_addhl, addhl_doc, add16, hc16, c16.
  rewrite set_nhc_ok by exact Hf. rewrite !land_4095.
  rewrite (ltb_leb_succ (hl mod 4096 + u mod 4096) 4095), (ltb_leb_succ (hl + u) 65535).
  reflexivity.
Qed.

(* ---- ADD SP,e / LD HL,SP+e: every SP and every operand byte ---- *)
Lemma disp_eq v e : sp_plus_e v e = add_disp v e.
Proof.
  unfold sp_plus_e, add_disp.
  destruct (N.leb_spec 128 e), (N.ltb_spec e 128); try reflexivity; lia.
Qed.

Theorem addsp_ok spv e f : e < 256 -> wf_f f -> alu_addsp spv e f = addsp_doc spv e.
Proof.
  intros He Hf. unfold alu_addsp, addsp_doc.
  rewrite set_znhc_ok by exact Hf. rewrite !land_15, land_255, disp_eq.
  rewrite (ltb_leb_succ (spv mod 16 + e mod 16) 15), (ltb_leb_succ (spv mod 256 + e) 255).
  reflexivity.
Qed.

Lemma jr_target_ok pcv e : jr_target pcv e = add_disp pcv e.
Proof. unfold jr_target. apply disp_eq. Qed.

(* ---- the repository's own DAA table (daa.csv, regenerated as GenDaa.daa_rows) ---- *)
From V.gen Require Import GenDaa.

Definition daa_row_ok (row : N * N * N * N) : bool :=
  let '(a, f, a', f') := row in
  pair_eqb (alu_daa a f) (a', f') && pair_eqb (daa_doc a f) (a', f').

Theorem daa_table_ok : forallb daa_row_ok daa_rows = true.
Proof. vm_compute. reflexivity. Qed.

(* every (A, flags) input appears in the table: 256 values of A x the 16 flag nibbles restricted to N/H/C = 8,
   each with Z either way as the table lists them *)
Definition daa_inputs_present : bool :=
  forallb (fun a => forallb (fun k =>
    existsb (fun row => let '(a0, f0, _, _) := row in (a0 =? a) && (N.land f0 112 =? 16 * k)) daa_rows) (upto 8)) bytes.

Theorem daa_table_complete : daa_inputs_present = true.
Proof. vm_compute. reflexivity. Qed.
