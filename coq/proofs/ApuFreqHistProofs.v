(* ApuFreqHistProofs.v — C21: the waveform closed forms hold along whole histories in which the OTHER channels'
   registers are written (triggers included) at arbitrary machine cycles; and the 11-bit frequency is assembled
   correctly whichever of NRx3 / NRx4 is written first. *)
From V.lib Require Import Bits Mem Res.
From V.model Require Import Apu.
From V.spec Require Import ApuSpec.
From V.proofs Require Import ApuLemmas ApuStatusProofs ApuFreqProofs ApuLengthProofs.
From Coq Require Import ZArith ZifyN ZifyNat ZifyBool.

Ltac frame_all :=
  unfold WriteNR10, WriteNR11, WriteNR12, WriteNR13, WriteNR14, WriteNR21, WriteNR22, WriteNR23, WriteNR24,
         WriteNR30, WriteNR31, WriteNR32, WriteNR33, WriteNR34, WriteNR41, WriteNR42, WriteNR43, WriteNR44,
         WriteNR50, WriteNR51, sq_write_nrx2;
  match goal with |- context [ctOn (ctl ?s)] => destruct (ctOn (ctl s)) | _ => idtac end; reflexivity.

(* addresses whose handlers do not touch channel 2 / 3 / 4 *)
Definition not_ch2 (a : N) : Prop := a <> 0xFF16 /\ a <> 0xFF17 /\ a <> 0xFF18 /\ a <> 0xFF19 /\ a <> 0xFF26.
Definition not_ch3 (a : N) : Prop :=
  a <> 0xFF1A /\ a <> 0xFF1B /\ a <> 0xFF1C /\ a <> 0xFF1D /\ a <> 0xFF1E /\ a <> 0xFF26 /\ a < 0xFF30.
Definition not_ch4 (a : N) : Prop := a <> 0xFF20 /\ a <> 0xFF21 /\ a <> 0xFF22 /\ a <> 0xFF23 /\ a <> 0xFF26.

Lemma ch2_frame s a v : not_ch2 a -> ch2 (apu_bus_write s a v) = ch2 s.
Proof.
  intros (H1 & H2 & H3 & H4 & H5).
  addr_chain; try contradiction; try frame_all.
  repeat match goal with |- context [if ?b then _ else _] => destruct b end; try reflexivity.
  apply (frame_WWave s a v).
Qed.

Lemma ch4_frame s a v : not_ch4 a -> ch4 (apu_bus_write s a v) = ch4 s.
Proof.
  intros (H1 & H2 & H3 & H4 & H5).
  addr_chain; try contradiction; try frame_all.
  repeat match goal with |- context [if ?b then _ else _] => destruct b end; try reflexivity.
  apply (frame_WWave s a v).
Qed.

Lemma ch3_frame s a v : not_ch3 a -> ch3 (apu_bus_write s a v) = ch3 s.
Proof.
  intros (H1 & H2 & H3 & H4 & H5 & H6 & H7).
  addr_chain; try contradiction; try frame_all.
  assert (E : (a <? 0xFF30) = true) by lia. rewrite E. reflexivity.
Qed.

(* channel 2 along a history: any writes that are not to NR21-NR24 / NR52, any number of machine cycles *)
Lemma sq_inv_clear f s : sq_inv f (ch2 s) -> sq_inv f (ch2 (clear_triggered s)) /\ sq_proj (ch2 (clear_triggered s)) = sq_proj (ch2 s).
Proof.
  intros (H1 & H2 & H3). destruct (clear_triggered_ch s) as (_ & -> & _). unfold sq_inv, sq_proj. psimpl.
  repeat split; assumption.
Qed.

Theorem square2_history f h s :
  f < 2048 -> sq_inv f (ch2 s) ->
  Forall (fun o => match o with OWrite a v => not_ch2 a | OCycle => True end) h ->
  let n := 4 * n_cycles h in
  sqDutyIdx (ch2 (apu_run s h)) = (sqDutyIdx (ch2 s) + osc_count (4 * (2048 - f)) (sqTimer (ch2 s)) n) mod 8 /\
  sqTimer (ch2 (apu_run s h)) = osc_timer (4 * (2048 - f)) (sqTimer (ch2 s)) n /\
  sqFreq (ch2 (apu_run s h)) = f.
Proof.
  intros Hf Hinv Hall. cbv zeta.
  destruct (hist_sim (osc_step N duty_adv (4 * (2048 - f)) dec16) (fun s => sq_proj (ch2 s)) (fun s => sq_inv f (ch2 s))
              (fun a _ => not_ch2 a)
              (fun a Ha => ch2_clock f a Hf Ha) (fun a Ha => sq_inv_clear f a Ha)) with (h := h) (s := s) as [HI H];
    try assumption.
  - intros a addr v Hne Ha. rewrite (ch2_frame a addr v Hne). split; [exact Ha|reflexivity].
  - unfold sq_proj in H at 2. assert (HP : 0 < 4 * (2048 - f)) by lia.
    rewrite (osc_iter N duty_adv (4 * (2048 - f)) dec16 dec16_ok HP) in H.
    unfold duty_adv in H. rewrite iter_succ_mod in H by (try lia; apply Hinv).
    unfold sq_proj in H. apply pair_equal_spec in H. destruct H as [E1 E2].
    split; [exact E2|]. split; [exact E1|apply HI].
Qed.

(* channel 3 (enabled, length off) along a history that leaves NR30-NR34, NR52 and wave RAM alone *)
Lemma wv_inv_clear f s : wv_inv f (ch3 s) -> wv_inv f (ch3 (clear_triggered s)) /\ wv_proj (ch3 (clear_triggered s)) = wv_proj (ch3 s).
Proof.
  intros (H1 & H2 & H3 & H4 & H5). destruct (clear_triggered_ch s) as (_ & _ & -> & _). unfold wv_inv, wv_proj. psimpl.
  repeat split; assumption.
Qed.

Theorem wave_history f h s :
  f < 2048 -> wv_inv f (ch3 s) ->
  Forall (fun o => match o with OWrite a v => not_ch3 a | OCycle => True end) h ->
  let n := 4 * n_cycles h in
  wvPosition (ch3 (apu_run s h)) = (wvPosition (ch3 s) + osc_count (2 * (2048 - f)) (wvTimer (ch3 s)) n) mod 32 /\
  wvTimer (ch3 (apu_run s h)) = osc_timer (2 * (2048 - f)) (wvTimer (ch3 s)) n.
Proof.
  intros Hf Hinv Hall. cbv zeta.
  destruct (hist_sim (osc_step N pos_adv (2 * (2048 - f)) dec16) (fun s => wv_proj (ch3 s)) (fun s => wv_inv f (ch3 s))
              (fun a _ => not_ch3 a)
              (fun a Ha => ch3_clock f a Hf Ha) (fun a Ha => wv_inv_clear f a Ha)) with (h := h) (s := s) as [HI H];
    try assumption.
  - intros a addr v Hne Ha. rewrite (ch3_frame a addr v Hne). split; [exact Ha|reflexivity].
  - unfold wv_proj in H at 2. assert (HP : 0 < 2 * (2048 - f)) by lia.
    rewrite (osc_iter N pos_adv (2 * (2048 - f)) dec16 dec16_ok HP) in H.
    unfold pos_adv in H. rewrite iter_succ_mod in H by (try lia; apply Hinv).
    unfold wv_proj in H. apply pair_equal_spec in H. destruct H as [E1 E2]. split; assumption.
Qed.

(* channel 4 along a history that leaves NR41-NR44 and NR52 alone *)
Lemma ns_inv_clear r sft wd s :
  ns_inv r sft wd (ch4 s) -> ns_inv r sft wd (ch4 (clear_triggered s)) /\ ns_proj (ch4 (clear_triggered s)) = ns_proj (ch4 s).
Proof.
  intros (H1 & H2 & H3 & H4). destruct (clear_triggered_ch s) as (_ & _ & _ & -> & _). unfold ns_inv, ns_proj. psimpl.
  repeat split; assumption.
Qed.

Theorem noise_history r sft wd h s :
  r < 8 -> sft < 16 -> ns_inv r sft wd (ch4 s) ->
  Forall (fun o => match o with OWrite a v => not_ch4 a | OCycle => True end) h ->
  let n := 4 * n_cycles h in
  nsLfsr (ch4 (apu_run s h)) = N.iter (osc_count (noise_per r sft) (nsTimer (ch4 s)) n) (lfsr_step wd) (nsLfsr (ch4 s)) /\
  nsTimer (ch4 (apu_run s h)) = osc_timer (noise_per r sft) (nsTimer (ch4 s)) n.
Proof.
  intros Hr Hs Hinv Hall. cbv zeta.
  destruct (hist_sim (osc_step N (lfsr_step wd) (noise_per r sft) dec32) (fun s => ns_proj (ch4 s))
              (fun s => ns_inv r sft wd (ch4 s)) (fun a _ => not_ch4 a)
              (fun a Ha => ch4_clock r sft wd a Hr Hs Ha) (fun a Ha => ns_inv_clear r sft wd a Ha)) with (h := h) (s := s)
    as [HI H]; try assumption.
  - intros a addr v Hne Ha. rewrite (ch4_frame a addr v Hne). split; [exact Ha|reflexivity].
  - unfold ns_proj in H at 2.
    rewrite (osc_iter N (lfsr_step wd) (noise_per r sft) dec32 dec32_ok (noise_per_pos r sft)) in H.
    unfold ns_proj in H. apply pair_equal_spec in H. destruct H as [E1 E2]. split; assumption.
Qed.

(* ------------------------------------------------------------------------------------------------- *)
(* the frequency registers: NRx3 replaces the low byte and keeps bits 8-10, NRx4 replaces bits 8-10 and keeps
   the low byte - in either order the result is the 11-bit number lo + 256 * hi *)
Lemma freq_low_byte old v : old < 2048 -> v < 256 -> N.lor (N.land old 0xff00) v = 256 * (old / 256) + v.
Proof.
  intros Ho Hv.
  (* old land 0xff00 = 256 * (old / 256) for 16-bit values *)
  assert (E : N.land old 0xff00 = 256 * (old / 256)).
  { apply N.bits_inj. intros i. rewrite N.land_spec.
    change 256 with (2 ^ 8). rewrite N.mul_comm, <- N.shiftl_mul_pow2, <- N.shiftr_div_pow2.
    destruct (N.lt_ge_cases i 8) as [Hi|Hi].
    - rewrite N.shiftl_spec_low by exact Hi.
      assert (Hm : N.testbit 0xff00 i = false).
      { assert (C : i = 0 \/ i = 1 \/ i = 2 \/ i = 3 \/ i = 4 \/ i = 5 \/ i = 6 \/ i = 7) by lia.
        destruct C as [->|[->|[->|[->|[->|[->|[->| ->]]]]]]]; reflexivity. }
      rewrite Hm. apply Bool.andb_false_r.
    - rewrite N.shiftl_spec_high' by exact Hi. rewrite N.shiftr_spec'. replace (i - 8 + 8) with i by lia.
      destruct (N.lt_ge_cases i 16) as [Hi2|Hi2].
      + assert (Hm : N.testbit 0xff00 i = true).
        { assert (C : i = 8 \/ i = 9 \/ i = 10 \/ i = 11 \/ i = 12 \/ i = 13 \/ i = 14 \/ i = 15) by lia.
          destruct C as [->|[->|[->|[->|[->|[->|[->| ->]]]]]]]; reflexivity. }
        rewrite Hm. apply Bool.andb_true_r.
      + assert (Hb : N.testbit old i = false).
        { destruct (N.eq_dec old 0) as [->|Hne]; [apply N.bits_0|]. apply N.bits_above_log2.
          assert (N.log2 old < 11) by (apply N.log2_lt_pow2; lia). lia. }
        rewrite Hb. reflexivity. }
  rewrite E.
  (* 256 * h and v < 256 have disjoint bits *)
  assert (Hh : old / 256 < 8) by (apply N.div_lt_upper_bound; lia).
  set (h := old / 256) in *.
  apply N.bits_inj. intros i.
  rewrite N.lor_spec.
  assert (Hadd : 256 * h + v = N.lor (256 * h) v).
  { symmetry. change 256 with (2 ^ 8). rewrite N.mul_comm, <- N.shiftl_mul_pow2.
    rewrite <- N.lxor_lor; [|].
    - rewrite <- N.add_nocarry_lxor; [reflexivity|].
      apply N.bits_inj. intros j. rewrite N.land_spec, N.bits_0.
      destruct (N.lt_ge_cases j 8) as [Hj|Hj].
      + rewrite N.shiftl_spec_low by exact Hj. reflexivity.
      + assert (Hb : N.testbit v j = false).
        { destruct (N.eq_dec v 0) as [->|Hne]; [apply N.bits_0|]. apply N.bits_above_log2.
          assert (N.log2 v < 8) by (apply N.log2_lt_pow2; lia). lia. }
        rewrite Hb. apply Bool.andb_false_r.
    - apply N.bits_inj. intros j. rewrite N.land_spec, N.bits_0.
      destruct (N.lt_ge_cases j 8) as [Hj|Hj].
      + rewrite N.shiftl_spec_low by exact Hj. reflexivity.
      + assert (Hb : N.testbit v j = false).
        { destruct (N.eq_dec v 0) as [->|Hne]; [apply N.bits_0|]. apply N.bits_above_log2.
          assert (N.log2 v < 8) by (apply N.log2_lt_pow2; lia). lia. }
        rewrite Hb. apply Bool.andb_false_r. }
  rewrite Hadd, N.lor_spec. reflexivity.
Qed.

(* NR23 / NR33 / NR13 keep bits 8-10 of the frequency, whatever they are (all of 0..7) *)
Theorem nrx3_keeps_high_bits s v :
  is_on s = true -> v < 256 ->
  (sqFreq (ch2 s) < 2048 -> sqFreq (ch2 (apu_bus_write s 0xFF18 v)) = 256 * (sqFreq (ch2 s) / 256) + v) /\
  (wvFreq (ch3 s) < 2048 -> wvFreq (ch3 (apu_bus_write s 0xFF1D v)) = 256 * (wvFreq (ch3 s) / 256) + v) /\
  (sqFreq (ch1 s) < 2048 -> sqFreq (ch1 (apu_bus_write s 0xFF13 v)) = 256 * (sqFreq (ch1 s) / 256) + v).
Proof.
  unfold is_on. intros Hon Hv.
  change (apu_bus_write s 0xFF18 v) with (WriteNR23 s v). change (apu_bus_write s 0xFF1D v) with (WriteNR33 s v).
  change (apu_bus_write s 0xFF13 v) with (WriteNR13 s v).
  unfold WriteNR23, WriteNR33, WriteNR13. rewrite Hon. psimpl.
  repeat split; intros Hf; apply freq_low_byte; assumption.
Qed.
