(* SerialHw.v — C23 over histories that also contain the hardware half of machine cycles (PPU with renderer, DMA,
   cartridge clock, APU, timer): none of it delivers, drops or reorders serial bytes. *)
From V.lib Require Import Bits Mem Res.
From V.model Require Import Ints Joypad Timer Rtc Cart Oam PpuTiming Apu MapperTypes System.
From V.gen Require Import GenMapper GenFrame.
From V.spec Require Import AddrSpec.
From V.proofs Require Import MapperDecode MapperFrame SerialProofs.
From Coq Require Import ZArith Lia.

Definition ser_eq (s s' : sys) : Prop := s_serial s' = s_serial s /\ s_ser_attached s' = s_ser_attached s.

Lemma ser_eq_refl s : ser_eq s s. Proof. split; reflexivity. Qed.
Lemma ser_eq_trans a b c : ser_eq a b -> ser_eq b c -> ser_eq a c.
Proof. intros [A1 A2] [B1 B2]. split; congruence. Qed.

Lemma ppu_step_ser s s' : sys_ppu_tick s = Ok s' -> ser_eq s s'.
Proof.
  unfold sys_ppu_tick. cbv zeta. intros H. apply bind_ok in H. destruct H as ([[p1 o1] req] & _ & H).
  destruct (p_enabled (s_ppu s) && (p_mode p1 =? 3)); [|inv_ok H; split; sysf; reflexivity].
  destruct (_ <? 160); [|inv_ok H; split; sysf; reflexivity].
  apply bind_ok in H. destruct H as (fr & _ & H). inv_ok H. split; sysf; reflexivity.
Qed.

Lemma read_ser s a s' v : sys_read s a = Ok (s', v) -> ser_eq s s'.
Proof. intros H. destruct (sys_read_serial _ _ _ _ H) as [A B]. split; assumption. Qed.

Lemma mapper_step_ser s s' : sys_mapper_end s = Ok s' -> ser_eq s s'.
Proof.
  unfold sys_mapper_end, mapper_end_cycle. cbn [fold_left bind]. intros H.
  apply bind_ok in H. destruct H as (s2 & H2 & H). cbn [sys_mapper_step] in H. inv_ok H.
  cbn [sys_mapper_step] in H2. apply bind_ok in H2. destruct H2 as (s1 & H1 & H2).
  apply bind_ok in H2. destruct H2 as (o' & _ & H2). inv_ok H2.
  assert (S1 : ser_eq s s1).
  { destruct (dma_source (s_oam s)).
    - apply bind_ok in H1. destruct H1 as ([sx vx] & Hr & H1). inv_ok H1. cbn [fst]. exact (read_ser _ _ _ _ Hr).
    - inv_ok H1. apply ser_eq_refl. }
  destruct S1 as [A B]. split; sysf; assumption.
Qed.

Lemma audio_step_ser s s' : sys_audio_end s = Ok s' -> ser_eq s s'.
Proof.
  unfold sys_audio_end. intros H. apply bind_ok in H. destruct H as (r & _ & H). inv_ok H. split; sysf; reflexivity.
Qed.

Lemma timer_step_ser s :
  ser_eq s (let r := timer_tick (s_timer s) in
            let s4 := set_timer (fst r) s in
            if snd r then set_ints (ints_request (s_ints s4) 4) s4 else s4).
Proof. cbv zeta. destruct (snd (timer_tick (s_timer s))); split; sysf; reflexivity. Qed.

Theorem hw_cycle_ser s s' : sys_hw_cycle s = Ok s' -> ser_eq s s'.
Proof.
  unfold sys_hw_cycle, frame_body. cbn [fold_left bind frame_step_run]. intros H.
  apply bind_ok in H. destruct H as ([[c x] tirq] & H & Hf). inv_ok Hf. cbn [fst snd].
  apply bind_ok in H. destruct H as ([[c5 x5] t5] & H & H6). cbn [frame_step_run] in H6. inv_ok H6.
  apply bind_ok in H. destruct H as ([[c4 x4] t4] & H & H5). cbn [frame_step_run] in H5. inv_ok H5.
  apply bind_ok in H. destruct H as ([[c3 x3] t3] & H & H4). cbn [frame_step_run] in H4.
  apply bind_ok in H4. destruct H4 as (y4 & A4 & H4). inv_ok H4.
  apply bind_ok in H. destruct H as ([[c2 x2] t2] & H & H3). cbn [frame_step_run] in H3.
  apply bind_ok in H3. destruct H3 as (y3 & A3 & H3). inv_ok H3.
  apply bind_ok in H. destruct H as (y2 & A2 & H). inv_ok H.
  eapply ser_eq_trans; [apply (ppu_step_ser _ _ A2)|].
  eapply ser_eq_trans; [apply (mapper_step_ser _ _ A3)|].
  eapply ser_eq_trans; [apply (audio_step_ser _ _ A4)|].
  apply timer_step_ser.
Qed.

(* ---- histories of bus reads, bus writes and hardware cycles ---- *)
Definition wf_hop (o : AddrSpec.bop) : Prop :=
  match o with AddrSpec.BRead a => a < 65536 | AddrSpec.BWrite a v => a < 65536 /\ v < 256 | AddrSpec.BHw => True end.

Fixpoint sb_writes_hw (h : list AddrSpec.bop) : list N :=
  match h with
  | [] => []
  | AddrSpec.BWrite a v :: t => if a =? 65281 then v :: sb_writes_hw t else sb_writes_hw t
  | _ :: t => sb_writes_hw t
  end.

Lemma bus_run_not_ok (h : list AddrSpec.bop) :
  forall r0 : res sys, (forall x, r0 <> Ok x) ->
  forall y, fold_left (fun r o => do x <- r; bus_step x o) h r0 <> Ok y.
Proof.
  induction h as [|o h IH]; intros r0 Hr y; cbn [fold_left].
  - apply Hr.
  - apply IH. destruct r0 as [x| |]; [exfalso; exact (Hr x eq_refl)| |]; cbn [bind]; intros x; discriminate.
Qed.

Theorem serial_transcript_hw : forall h s s',
  Forall wf_hop h -> bus_run s h = Ok s' ->
  s_serial s' = (if s_ser_attached s then rev (sb_writes_hw h) ++ s_serial s else s_serial s) /\
  s_ser_attached s' = s_ser_attached s.
Proof.
  unfold bus_run. induction h as [|o h IH]; intros s s' Hwf H; cbn [fold_left] in H.
  - inv_ok H. destruct (s_ser_attached s'); split; reflexivity.
  - inversion Hwf as [|? ? Ho Hh]; subst. cbn [bind] in H.
    destruct (bus_step s o) as [s1|c|] eqn:E.
    + destruct (IH s1 s' Hh H) as [I1 I2].
      destruct o as [a|a v|]; cbn [bus_step] in E.
      * apply bind_ok in E. destruct E as ([s2 v2] & Er & E).
        destruct (sys_read_serial s a s2 v2 Er) as [R1 R2]. cbn [fst] in E. inv_ok E.
        rewrite I1, I2, R1, R2. cbn [sb_writes_hw]. split; reflexivity.
      * destruct Ho as [Ha Hv]. destruct (sys_write_serial s a v s1 Ha E) as [W1 W2].
        rewrite I1, I2, W1, W2. cbn [sb_writes_hw].
        destruct (a =? 65281); cbn [andb]; destruct (s_ser_attached s); split; try reflexivity.
        cbn [rev]. rewrite <- app_assoc. reflexivity.
      * destruct (hw_cycle_ser s s1 E) as [W1 W2]. rewrite I1, I2, W1, W2. cbn [sb_writes_hw]. split; reflexivity.
    + exfalso. refine (bus_run_not_ok h (Crash c) _ s' H). intros x; discriminate.
    + exfalso. refine (bus_run_not_ok h Exit _ s' H). intros x; discriminate.
Qed.
