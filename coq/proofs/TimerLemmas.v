(* TimerLemmas.v — bit-level facts used by TimerProofs: the masks of timer.go against the bit positions of
   the specification, by one generic lemma on powers of two and one sweep over the TAC byte. *)
From V.lib Require Import Bits.
From V.model Require Import Timer.
From V.spec Require Import TimerSpec.

Lemma land_pow2_pos (c k : N) : (0 <? N.land c (2 ^ k)) = N.testbit c k.
Proof.
  destruct (N.testbit c k) eqn:E.
  - apply N.ltb_lt.
    assert (Hne : N.land c (2 ^ k) <> 0).
    { intro H0.
      assert (Hb : N.testbit (N.land c (2 ^ k)) k = true)
        by (rewrite N.land_spec, E, N.pow2_bits_true; reflexivity).
      rewrite H0, N.bits_0 in Hb. discriminate. }
    lia.
  - assert (H0 : N.land c (2 ^ k) = 0).
    { apply N.bits_inj. intro m. rewrite N.land_spec, N.bits_0.
      destruct (N.eq_dec k m) as [->|Hkm].
      - rewrite E. reflexivity.
      - rewrite (N.pow2_bits_false k m Hkm). apply andb_false_r. }
    rewrite H0. reflexivity.
Qed.

(* everything that depends on the TAC byte only *)
Definition tac_check (tac : N) : bool :=
  Bool.eqb (0 <? N.land tac 4) (N.testbit (tac mod 8) 2)
  && (counter_bit_mask (N.land tac 3) =? 2 ^ tap ((tac mod 8) mod 4))
  && (N.lor tac 248 =? 248 + tac mod 8)
  && ((tac mod 8) mod 8 =? tac mod 8).

Lemma tac_sweep : forallb tac_check bytes = true.
Proof. vm_compute. reflexivity. Qed.

Lemma tac_facts tac : tac < 256 ->
  (0 <? N.land tac 4) = N.testbit (tac mod 8) 2 /\
  counter_bit_mask (N.land tac 3) = 2 ^ tap ((tac mod 8) mod 4) /\
  N.lor tac 248 = 248 + tac mod 8.
Proof.
  intros Ht. pose proof (sweep_bytes _ tac_sweep tac Ht) as H. unfold tac_check in H.
  apply andb_true_iff in H. destruct H as [H _].
  apply andb_true_iff in H. destruct H as [H H3].
  apply andb_true_iff in H. destruct H as [H1 H2].
  apply Bool.eqb_prop in H1. apply N.eqb_eq in H2. apply N.eqb_eq in H3. auto.
Qed.

(* the edge-detector input of EndMachineCycle is the specification's signal *)
Lemma edge_eq c tac : tac < 256 ->
  (0 <? N.land tac 4) && (0 <? N.land c (counter_bit_mask (N.land tac 3))) = sig_of c (tac mod 8).
Proof.
  intros Ht. destruct (tac_facts tac Ht) as (H1 & H2 & _).
  unfold sig_of. rewrite H1, H2, land_pow2_pos. reflexivity.
Qed.

Lemma read_tac_eq tac : tac < 256 -> N.lor tac 248 = 248 + tac mod 8.
Proof. intros Ht. apply (tac_facts tac Ht). Qed.

Lemma read_div_eq c : c < 65536 -> u8 (N.shiftr c 8) = c / 256.
Proof.
  intros Hc. rewrite N.shiftr_div_pow2. change (2 ^ 8) with 256.
  apply u8_id. lia.
Qed.

Lemma inc_wrap x : x < 256 -> (u8 (x + 1) =? 0) = (x =? 255).
Proof. intros Hx. unfold u8. destruct (x =? 255) eqn:E; lia. Qed.

Lemma inc_nowrap x : x < 256 -> x <> 255 -> u8 (x + 1) = x + 1.
Proof. intros Hx Hne. unfold u8. lia. Qed.
