(* OamProofs.v — facts about the OAM model and its coupling with the PPU that property C17 (OAM only altered
   by CPU writes, DMA, or the mode-2 bug) is built on:
     1. oam_corrupt never crashes when the PPU's last access lies in FE00-FE9F;
     2. oam_corrupt does nothing when neither [read] nor [write] is set;
     3. read / write / doubleWrite can only become set while [corrupt] is set;
     4. along every history,  corrupt = true <-> (LCD on /\ mode = 2)  (after the repair of disable()), and
        FE00 <= ppuLastAccess <= FE9F once the PPU has scanned. *)
From V.lib Require Import Bits Mem Res.
From V.model Require Import Oam PpuTiming.
From V.spec Require Import LcdSpec.
From V.proofs Require Import LcdLemmas LcdProofs.
From Coq Require Import ZArith ZifyN ZifyNat ZifyBool.

(* ---------- checked accessors succeed inside the array ---------- *)
Lemma get8_ok m i : i < 160 -> get8 m i = Ok (Mem.get m i).
Proof. intros H. unfold get8, oam_size. assert (E : (i <? 160) = true) by lia. rewrite E. reflexivity. Qed.

Lemma put8_ok m i v : i < 160 -> put8 m i v = Ok (Mem.set m i v).
Proof. intros H. unfold put8, oam_size. assert (E : (i <? 160) = true) by lia. rewrite E. reflexivity. Qed.

Lemma word_at_ok m i : i + 1 < 160 -> exists w, word_at m i = Ok w.
Proof.
  intros H. unfold word_at. rewrite get8_ok by lia. cbn [bind].
  assert (E : add16 i 1 = i + 1) by (unfold add16; lia). rewrite E, get8_ok by lia.
  eexists; reflexivity.
Qed.

Lemma put_word_ok m i w : i + 1 < 160 -> exists m', put_word m i w = Ok m'.
Proof.
  intros H. unfold put_word. rewrite put8_ok by lia. cbn [bind].
  assert (E : add16 i 1 = i + 1) by (unfold add16; lia). rewrite E, put8_ok by lia.
  eexists; reflexivity.
Qed.

Lemma copy_slice_ok m dlo dhi slo shi :
  dlo <= dhi -> dhi <= 160 -> slo <= shi -> shi <= 160 -> exists m', copy_slice m dlo dhi slo shi = Ok m'.
Proof.
  intros. unfold copy_slice, slice_ok, oam_size.
  assert (E : (dlo <=? dhi) && (dhi <=? 160) && ((slo <=? shi) && (shi <=? 160)) = true) by lia.
  rewrite E. eexists; reflexivity.
Qed.

Lemma corrupt_row_ok m rs f : 8 <= rs -> rs + 8 <= 160 -> exists m', corrupt_row m rs f = Ok m'.
Proof.
  intros H1 H2. unfold corrupt_row.
  assert (E8 : sub16 rs 8 = rs - 8) by (unfold sub16; lia).
  assert (E4 : sub16 rs 4 = rs - 4) by (unfold sub16; lia).
  assert (E6 : sub16 rs 6 = rs - 6) by (unfold sub16; lia).
  assert (A2 : add16 rs 2 = rs + 2) by (unfold add16; lia).
  assert (A8 : add16 rs 8 = rs + 8) by (unfold add16; lia).
  rewrite E8, E4, E6, A2, A8.
  destruct (word_at_ok m rs) as [a Ha]; [lia|]. rewrite Ha. cbn [bind].
  destruct (word_at_ok m (rs - 8)) as [b Hb]; [lia|]. rewrite Hb. cbn [bind].
  destruct (word_at_ok m (rs - 4)) as [c Hc]; [lia|]. rewrite Hc. cbn [bind].
  destruct (put_word_ok m rs (f a b c)) as [m1 Hm1]; [lia|]. rewrite Hm1. cbn [bind].
  apply copy_slice_ok; lia.
Qed.

(* ---------- 1. the corruption patterns never leave the array ---------- *)
Definition pla_in_oam (o : oam) : Prop := 0xFE00 <= o_ppuLastAccess o /\ o_ppuLastAccess o <= 0xFE9F.

Lemma pla_off_lt o : pla_in_oam o -> pla_off o < 160.
Proof.
  unfold pla_in_oam, pla_off, sub16. change 0xFE00 with 65024. change 0xFE9F with 65183. lia.
Qed.

(* each pattern succeeds and touches the bytes only *)
Definition same_but_mem (o o' : oam) : Prop := exists m, o' = set_mem o m.

Lemma write_corruption_ok o : pla_in_oam o -> exists o', write_corruption o = Ok o' /\ same_but_mem o o'.
Proof.
  intros H. pose proof (pla_off_lt o H) as Hl. unfold write_corruption.
  set (rs := u16 (pla_off o / 8 * 8)).
  assert (Hrs : rs = pla_off o / 8 * 8) by (unfold rs, u16; lia).
  destruct (rs =? 0) eqn:E; [exists o; split; [reflexivity|exists (o_mem o); destruct o; reflexivity]|].
  destruct (corrupt_row_ok (o_mem o) rs f_write) as [m Hm]; [lia|lia|].
  rewrite Hm. cbn [bind]. eexists; split; [reflexivity|exists m; reflexivity].
Qed.

Lemma read_corruption_ok o : pla_in_oam o -> exists o', read_corruption o = Ok o' /\ same_but_mem o o'.
Proof.
  intros H. pose proof (pla_off_lt o H) as Hl. unfold read_corruption.
  set (rs := u16 (pla_off o / 8 * 8)).
  assert (Hrs : rs = pla_off o / 8 * 8) by (unfold rs, u16; lia).
  destruct (rs =? 0) eqn:E; [exists o; split; [reflexivity|exists (o_mem o); destruct o; reflexivity]|].
  destruct (corrupt_row_ok (o_mem o) rs f_read) as [m Hm]; [lia|lia|].
  rewrite Hm. cbn [bind]. eexists; split; [reflexivity|exists m; reflexivity].
Qed.

Lemma double_write_corruption_ok o :
  pla_in_oam o -> exists o', double_write_corruption o = Ok o' /\ same_but_mem o o'.
Proof.
  intros H. pose proof (pla_off_lt o H) as Hl. unfold double_write_corruption.
  destruct (pla_off o / 8 =? 0) eqn:E0; [exists o; split; [reflexivity|exists (o_mem o); destruct o; reflexivity]|].
  set (rs := u16 (sub16 (pla_off o / 8) 1 * 8)).
  assert (Hrs : rs = (pla_off o / 8 - 1) * 8) by (unfold rs, u16, sub16; lia).
  destruct (rs <? 1) eqn:E; [exists o; split; [reflexivity|exists (o_mem o); destruct o; reflexivity]|].
  destruct (corrupt_row_ok (o_mem o) rs f_write) as [m Hm]; [lia|lia|].
  rewrite Hm. cbn [bind]. eexists; split; [reflexivity|exists m; reflexivity].
Qed.

Lemma read_write_corruption_ok o :
  pla_in_oam o -> exists o', read_write_corruption o = Ok o' /\ same_but_mem o o'.
Proof.
  intros H. pose proof (pla_off_lt o H) as Hl. unfold read_write_corruption.
  destruct ((pla_off o / 8 <? 5) || (pla_off o / 8 =? 19)) eqn:E;
    [exists o; split; [reflexivity|exists (o_mem o); destruct o; reflexivity]|].
  set (rs := u16 (pla_off o / 8 * 8)).
  assert (Hrs : rs = pla_off o / 8 * 8) by (unfold rs, u16; lia).
  assert (B1 : 40 <= rs) by lia. assert (B2 : rs <= 144) by lia.
  assert (E16 : sub16 rs 16 = rs - 16) by (unfold sub16; lia).
  assert (E8 : sub16 rs 8 = rs - 8) by (unfold sub16; lia).
  assert (E4 : sub16 rs 4 = rs - 4) by (unfold sub16; lia).
  assert (A8 : add16 rs 8 = rs + 8) by (unfold add16; lia).
  rewrite E16, E8, E4, A8.
  destruct (word_at_ok (o_mem o) (rs - 16)) as [a Ha]; [lia|]. rewrite Ha. cbn [bind].
  destruct (word_at_ok (o_mem o) (rs - 8)) as [b Hb]; [lia|]. rewrite Hb. cbn [bind].
  destruct (word_at_ok (o_mem o) rs) as [c Hc]; [lia|]. rewrite Hc. cbn [bind].
  destruct (word_at_ok (o_mem o) (rs - 4)) as [d Hd]; [lia|]. rewrite Hd. cbn [bind].
  destruct (put_word_ok (o_mem o) (rs - 8) (f_rw a b c d)) as [m1 Hm1]; [lia|]. rewrite Hm1. cbn [bind].
  destruct (copy_slice_ok m1 rs (rs + 8) (rs - 8) rs) as [m2 Hm2]; [lia|lia|lia|lia|]. rewrite Hm2. cbn [bind].
  destruct (copy_slice_ok m2 (rs - 16) (rs - 8) (rs - 8) rs) as [m3 Hm3]; [lia|lia|lia|lia|]. rewrite Hm3. cbn [bind].
  eexists; split; [reflexivity|exists m3; reflexivity].
Qed.

Lemma same_but_mem_pla o o' : same_but_mem o o' -> pla_in_oam o -> pla_in_oam o'.
Proof. intros [m ->] H. exact H. Qed.

Lemma same_but_mem_trans o1 o2 o3 : same_but_mem o1 o2 -> same_but_mem o2 o3 -> same_but_mem o1 o3.
Proof. intros [m ->] [m' ->]. exists m'. reflexivity. Qed.

Lemma same_but_mem_refl o : same_but_mem o o.
Proof. exists (o_mem o). destruct o; reflexivity. Qed.

(* Corrupt() succeeds whenever the PPU's last access lies in OAM; it changes bytes and clears the three
   flags, nothing else *)
Theorem oam_corrupt_safe o :
  pla_in_oam o ->
  exists o', oam_corrupt o = Ok o'
    /\ o_read o' = false /\ (o_read o = true \/ o_write o = true -> o_write o' = false /\ o_doubleWrite o' = false)
    /\ o_corrupt o' = o_corrupt o /\ o_ppuLastAccess o' = o_ppuLastAccess o
    /\ o_dmaRunning o' = o_dmaRunning o /\ o_dmaCycle o' = o_dmaCycle o
    /\ o_dmaBaseAddr o' = o_dmaBaseAddr o /\ o_dmaRead o' = o_dmaRead o /\ o_dmaReg o' = o_dmaReg o.
Proof.
  intros H. unfold oam_corrupt.
  destruct (negb (o_read o) && negb (o_write o)) eqn:E.
  { exists o. split; [reflexivity|].
    destruct (o_read o), (o_write o); try discriminate.
    repeat split; try reflexivity; match goal with X : _ \/ _ |- _ => destruct X; discriminate end. }
  assert (S1 : exists o1, (if o_read o && o_write o then read_write_corruption o else Ok o) = Ok o1
                          /\ same_but_mem o o1).
  { destruct (o_read o && o_write o); [apply read_write_corruption_ok; exact H|].
    exists o; split; [reflexivity|apply same_but_mem_refl]. }
  destruct S1 as (o1 & -> & M1). cbn [bind].
  pose proof (same_but_mem_pla _ _ M1 H) as H1.
  assert (S2 : exists o2,
            (if o_read o1 then read_corruption o1
             else do o3 <- (if o_doubleWrite o1 then double_write_corruption o1 else Ok o1);
                  if o_write o3 then write_corruption o3 else Ok o3) = Ok o2 /\ same_but_mem o1 o2).
  { destruct (o_read o1); [apply read_corruption_ok; exact H1|].
    assert (S3 : exists o3, (if o_doubleWrite o1 then double_write_corruption o1 else Ok o1) = Ok o3
                            /\ same_but_mem o1 o3).
    { destruct (o_doubleWrite o1); [apply double_write_corruption_ok; exact H1|].
      exists o1; split; [reflexivity|apply same_but_mem_refl]. }
    destruct S3 as (o3 & -> & M3). cbn [bind].
    destruct (o_write o3).
    - destruct (write_corruption_ok o3 (same_but_mem_pla _ _ M3 H1)) as (o4 & -> & M4).
      exists o4; split; [reflexivity|eapply same_but_mem_trans; eassumption].
    - exists o3; split; [reflexivity|exact M3]. }
  destruct S2 as (o2 & -> & M2). cbn [bind].
  eexists; split; [reflexivity|].
  destruct (same_but_mem_trans _ _ _ M1 M2) as [m ->].
  cbn. repeat split; reflexivity.
Qed.

(* ---------- 2. without a pending access Corrupt() is the identity ---------- *)
Theorem oam_corrupt_idle o : o_read o = false -> o_write o = false -> oam_corrupt o = Ok o.
Proof. intros Hr Hw. unfold oam_corrupt. rewrite Hr, Hw. reflexivity. Qed.

(* ---------- 3. the flags are raised only inside the window ---------- *)
Definition flags_off (o : oam) : Prop := o_read o = false /\ o_write o = false /\ o_doubleWrite o = false.

Lemma read_keeps_flags o a o' v :
  o_corrupt o = false -> oam_read o a = Ok (o', v) ->
  o_read o' = o_read o /\ o_write o' = o_write o /\ o_doubleWrite o' = o_doubleWrite o /\ o_mem o' = o_mem o.
Proof.
  intros Hc. unfold oam_read. rewrite Hc.
  destruct (o_dmaRunning o); [intros X; inversion X; subst; auto|].
  destruct (0xFEA0 <=? a); [intros X; inversion X; subst; auto|].
  destruct (get8 (o_mem o) (sub16 a 0xFE00)); cbn [bind]; intros X; inversion X; subst; auto.
Qed.

Lemma write_keeps_flags o a v o' :
  o_corrupt o = false -> oam_write o a v = Ok o' ->
  o_read o' = o_read o /\ o_write o' = o_write o /\ o_doubleWrite o' = o_doubleWrite o.
Proof.
  intros Hc. unfold oam_write. rewrite Hc.
  destruct (a <? 0xFEA0); [|intros X; inversion X; subst; auto].
  destruct (put8 (o_mem o) (sub16 a 0xFE00) v); cbn [bind]; intros X; inversion X; subst; auto.
Qed.

Lemma trigger_keeps_flags o a : o_corrupt o = false -> oam_trigger_write_corruption o a = o.
Proof. intros Hc. unfold oam_trigger_write_corruption. rewrite Hc. reflexivity. Qed.

(* with the window closed and no flag pending, no CPU-side operation changes a byte except a write to
   FE00-FE9F; in particular INC/DEC rr, PUSH/POP and reads are inert *)
Theorem window_closed_inert o :
  o_corrupt o = false -> flags_off o ->
  (forall a, oam_trigger_write_corruption o a = o)
  /\ oam_corrupt o = Ok o
  /\ (forall a o' v, oam_read o a = Ok (o', v) -> o' = o).
Proof.
  intros Hc (Hr & Hw & Hd). split; [intros a; apply trigger_keeps_flags; exact Hc|].
  split; [apply oam_corrupt_idle; assumption|].
  intros a o' v. unfold oam_read. rewrite Hc.
  destruct (o_dmaRunning o); [intros X; inversion X; reflexivity|].
  destruct (0xFEA0 <=? a); [intros X; inversion X; reflexivity|].
  destruct (get8 (o_mem o) (sub16 a 0xFE00)); cbn [bind]; intros X; inversion X; reflexivity.
Qed.

(* ---------- 4. the corruption window along histories ---------- *)
(* what the rest of the machine may do to the OAM component between PPU steps: anything that leaves the
   window flag and the PPU's last address alone (CPU reads/writes, TriggerWriteCorruption, Corrupt, DMA) *)
Definition env_ok (g : oam -> oam) : Prop :=
  forall o, o_corrupt (g o) = o_corrupt o /\ o_ppuLastAccess (g o) = o_ppuLastAccess o.

Definition ev_ok (e : ev) : Prop := match e with Env g => env_ok g | _ => True end.

Record W (s : ppu * oam) (a : lcd) : Prop := mkW {
  W_corrupt : o_corrupt (snd s) = on a && (lcd_mode a =? 2);
  W_pla : ticked a = true -> pla_in_oam (snd s);
  W_fresh : ticked a = false -> on a = true -> since a = 0
}.

Lemma W_init : W ppu_power_on lcd_init.
Proof. constructor; [reflexivity|discriminate|reflexivity]. Qed.

Lemma act_corrupt m t o :
  m < 4 -> o_corrupt o = (m =? 2) ->
  o_corrupt (act (sw_act (sw m t)) o) = (sw_mode (sw m t) =? 2).
Proof.
  intros Hm Hc.
  assert (C : m = 0 \/ m = 1 \/ m = 2 \/ m = 3) by lia.
  unfold sw. destruct C as [-> | [-> | [-> | ->]]]; cbv beta iota zeta;
    repeat match goal with |- context [if ?c then _ else _] => destruct c end;
    cbn [sw_act sw_mode act oam_enter_mode2 oam_exit_mode2 set_corrupt o_corrupt]; try reflexivity;
    rewrite Hc; reflexivity.
Qed.

Lemma tick_oam_corrupt p o :
  o_corrupt (tick_oam p o) = o_corrupt (act (sw_act (sw (p_mode p) (p_ticks p))) o).
Proof. unfold tick_oam. destruct (sw_mode (sw (p_mode p) (p_ticks p)) =? 2); reflexivity. Qed.

Lemma act_pla a o : o_ppuLastAccess (act a o) = o_ppuLastAccess o.
Proof.
  unfold act. repeat match goal with |- context [match ?x with _ => _ end] => destruct x end; reflexivity.
Qed.

Lemma W_step s a (e : ev) s' :
  R s a -> W s a -> ev_ok e -> ppu_step s (op_of e) = Ok s' -> W s' (lcd_step a e).
Proof.
  intros HR HW He Hs. destruct s as [p o]. destruct HW as [Wc Wp Wf]. cbn [fst snd] in *.
  destruct e as [|r v|g].
  - (* a machine cycle *)
    cbn [op_of ppu_step fst snd] in Hs.
    destruct (on a) eqn:Hon.
    + destruct (tick_on (p, o) a HR Hon) as (ovl & Ht & HR'). cbn [fst snd] in Ht.
      rewrite Ht in Hs. cbn [bind fst] in Hs. inversion Hs; subst s'; clear Hs.
      pose proof (R_mode _ _ HR) as Hm. pose proof (R_ticks _ _ HR) as Htk. cbn [fst] in Hm, Htk.
      unfold lcd_mode in Hm. rewrite Hon in Hm, Htk.
      destruct (sw_k (since a)) as (Sm & _ & _ & _ & _ & Sd). cbv zeta in *.
      unfold lcd_step. rewrite Hon.
      constructor; cbn [fst snd on since ticked lcd_mode andb].
      * rewrite tick_oam_corrupt, act_corrupt.
        -- rewrite Hm, Htk, Sm. reflexivity.
        -- rewrite Hm. apply spec_mode_lt4.
        -- rewrite Wc, Hm. unfold lcd_mode. rewrite Hon. reflexivity.
      * intros _. unfold tick_oam, pla_in_oam. rewrite Hm, Htk, Sm.
        destruct (spec_mode (since a + 1) =? 2) eqn:E2.
        -- cbn [set_ppuLastAccess o_ppuLastAccess].
           assert (D : dot_of (pos (since a + 1)) < 20) by (apply Sd; lia).
           unfold dot_of, line_len in D. change 0xFE00 with 65024. change 0xFE9F with 65183. lia.
        -- rewrite act_pla.
           destruct (ticked a) eqn:Tk; [apply Wp; reflexivity|].
           rewrite (Wf eq_refl eq_refl) in E2. discriminate.
      * discriminate.
    + pose proof (tick_off (p, o) a HR Hon) as To. cbn [fst snd] in To.
      rewrite To in Hs. cbn [bind fst snd] in Hs. inversion Hs; subst s'.
      unfold lcd_step. rewrite Hon. constructor; cbn [fst snd]; rewrite ?Hon; assumption.
  - (* a register write *)
    cbn [op_of ppu_step fst snd] in Hs. inversion Hs; subst s'; clear Hs.
    pose proof (R_en _ _ HR) as Hen. cbn [fst] in Hen.
    unfold lcd_mode in *.
    destruct r; cbn [addr_of ppu_write_reg lcd_step];
      try (constructor; cbn [fst snd on since ticked]; assumption).
    unfold ppu_write_lcdc. rewrite tb_testbit7, Hen.
    destruct (N.testbit v 7) eqn:E7; destruct (on a) eqn:Hon; cbn [andb negb];
      constructor; cbn [fst snd on since ticked ppu_enable ppu_disable oam_enter_mode2 oam_exit_mode2
                        set_corrupt o_corrupt o_ppuLastAccess andb];
      try assumption; try reflexivity; try discriminate.
    all: try (intros X; apply Wp; exact X).
  - (* the rest of the machine *)
    cbn [op_of ppu_step fst snd] in Hs. inversion Hs; subst s'; clear Hs.
    cbn [lcd_step]. destruct (He o) as (G1 & G2).
    constructor; cbn [fst snd]; [rewrite G1; exact Wc| |exact Wf].
    intros X. unfold pla_in_oam. rewrite G2. apply Wp; exact X.
Qed.

Lemma RW_run_from (h : list ev) : forall s a,
  Forall ev_ok h -> R s a -> W s a ->
  exists s', ppu_run_from s (map op_of h) = Ok s' /\ R s' (fold_left lcd_step h a) /\ W s' (fold_left lcd_step h a).
Proof.
  induction h as [|e h IH]; intros s a Hok HR HW; cbn [map fold_left].
  - exists s. auto.
  - inversion Hok as [|? ? He Hh]; subst.
    destruct (R_step s a e HR) as (s1 & Hs & HR1).
    pose proof (W_step s a e s1 HR HW He Hs) as HW1.
    rewrite run_from_cons, Hs. apply IH; assumption.
Qed.

(* C17's invariant: for every history in which the environment respects the two PPU-owned fields, the window
   is open exactly when the LCD is on and in mode 2, and once a cycle has elapsed with the LCD on the PPU's
   last access lies in FE00-FE9F (so Corrupt() cannot crash, by oam_corrupt_safe) *)
Theorem corrupt_iff_mode2 (h : list ev) :
  Forall ev_ok h ->
  exists s, ppu_run (map op_of h) = Ok s
    /\ (o_corrupt (snd s) = true <-> p_enabled (fst s) = true /\ p_mode (fst s) = 2)
    /\ (ticked (lcd_run h) = true -> pla_in_oam (snd s)).
Proof.
  intros Hok. destruct (RW_run_from h ppu_power_on lcd_init Hok R_init W_init) as (s & Hs & HR & HW).
  unfold lcd_run. set (a := fold_left lcd_step h lcd_init) in *.
  exists s. split; [exact Hs|]. split; [|exact (W_pla _ _ HW)].
  rewrite (W_corrupt _ _ HW), (R_en _ _ HR), (R_mode _ _ HR).
  destruct (on a); cbn [andb].
  - split; [intros X; split; [reflexivity|apply N.eqb_eq; exact X] | intros [_ X]; apply N.eqb_eq; exact X].
  - split; [discriminate|intros [X _]; discriminate].
Qed.

(* with the LCD off the window is closed, whenever and however it was switched off *)
Corollary lcd_off_window_closed (h : list ev) :
  Forall ev_ok h -> on (lcd_run h) = false ->
  exists s, ppu_run (map op_of h) = Ok s /\ o_corrupt (snd s) = false.
Proof.
  intros Hok Hoff. destruct (RW_run_from h ppu_power_on lcd_init Hok R_init W_init) as (s & Hs & HR & HW).
  unfold lcd_run in Hoff. set (a := fold_left lcd_step h lcd_init) in *.
  exists s. split; [exact Hs|]. rewrite (W_corrupt _ _ HW), Hoff. reflexivity.
Qed.

(* the CPU-side operations of the OAM model respect the two PPU-owned fields (so they are admissible
   environments): stated on the successful results *)
Lemma read_env o a o' v : oam_read o a = Ok (o', v) ->
  o_corrupt o' = o_corrupt o /\ o_ppuLastAccess o' = o_ppuLastAccess o.
Proof.
  unfold oam_read. destruct (o_dmaRunning o); [intros X; inversion X; auto|].
  destruct (o_corrupt o) eqn:C;
    (destruct (0xFEA0 <=? a); [intros X; inversion X; subst; cbn; auto|]);
    match goal with |- context [get8 ?m ?i] => destruct (get8 m i) end; cbn [bind];
    intros X; inversion X; subst; cbn; auto.
Qed.

Lemma write_env o a v o' : oam_write o a v = Ok o' ->
  o_corrupt o' = o_corrupt o /\ o_ppuLastAccess o' = o_ppuLastAccess o.
Proof.
  unfold oam_write.
  destruct (o_corrupt o) eqn:C; [destruct (o_write o)|];
    (destruct (a <? 0xFEA0); [|intros X; inversion X; subst; cbn; auto]);
    match goal with |- context [put8 ?m ?i ?x] => destruct (put8 m i x) end; cbn [bind];
    intros X; inversion X; subst; cbn; auto.
Qed.

Lemma trigger_env a : env_ok (fun o => oam_trigger_write_corruption o a).
Proof.
  intros o0. unfold oam_trigger_write_corruption.
  destruct (negb (o_corrupt o0) || (a <? 0xFE00) || (0xFEFF <? a)); [auto|].
  destruct (o_write o0); cbn; auto.
Qed.

Lemma write_dma_env v : env_ok (fun o => oam_write_dma o v).
Proof. intros o. cbn. auto. Qed.

Lemma tick_dma_env rd o o' : oam_tick_dma rd o = Ok o' ->
  o_corrupt o' = o_corrupt o /\ o_ppuLastAccess o' = o_ppuLastAccess o.
Proof.
  unfold oam_tick_dma. destruct (o_dmaRunning o); [|intros X; inversion X; auto].
  destruct (o_dmaCycle o =? 0); [intros X; inversion X; cbn; auto|].
  destruct (o_dmaCycle o =? 1); [intros X; inversion X; cbn; auto|].
  destruct (o_dmaCycle o =? 161);
    match goal with |- context [put8 ?m ?i ?x] => destruct (put8 m i x) end; cbn [bind];
    intros X; inversion X; subst; cbn; auto.
Qed.
