(* LcdShape.v — the closed forms of LcdSpec read line by line, as the statement of C13 words the schedule. *)
From V.lib Require Import Bits Mem Res.
From V.spec Require Import LcdSpec.
From V.proofs Require Import LcdLemmas.
From Coq Require Import ZArith ZifyN ZifyNat ZifyBool.

Lemma line_shape k j :
  63 <= k -> dot_of (pos k) = 0 -> j < 114 ->
  spec_ly (k + j) = spec_ly k
  /\ spec_mode (k + j) = (if spec_ly k <? 144 then (if j <? 20 then 2 else if j <? 61 then 3 else 0) else 1).
Proof.
  intros Hk Hd Hj.
  unfold spec_ly, spec_mode, mode_at, pos, dot_of, line_of, line_len, frame_len in *.
  destruct (k <=? 62) eqn:E1; [lia|].
  destruct (k + j <=? 62) eqn:E2; [lia|].
  destruct (k =? 0) eqn:E3; [lia|].
  destruct (k + j =? 0) eqn:E4; [lia|].
  assert (A : (k + j + 1) mod 17556 = (k + 1) mod 17556 + j) by lia.
  rewrite A.
  assert (B : ((k + 1) mod 17556 + j) / 114 = (k + 1) mod 17556 / 114) by lia.
  assert (C : ((k + 1) mod 17556 + j) mod 114 = j) by lia.
  rewrite B, C. split; reflexivity.
Qed.

Lemma next_line k :
  63 <= k -> dot_of (pos k) = 0 -> spec_ly (k + 114) = (spec_ly k + 1) mod 154 /\ dot_of (pos (k + 114)) = 0.
Proof.
  intros Hk Hd.
  unfold spec_ly, pos, dot_of, line_of, line_len, frame_len in *.
  destruct (k <=? 62) eqn:E1; [lia|].
  destruct (k + 114 <=? 62) eqn:E2; [lia|].
  destruct (k =? 0) eqn:E3; [lia|].
  destruct (k + 114 =? 0) eqn:E4; [lia|].
  split; lia.
Qed.

Definition first_line_check (k : N) : bool :=
  (spec_ly (k + 1) =? 0)
  && (spec_mode (k + 1) =? (if k + 1 <=? 20 then 2 else if k + 1 <=? 61 then 3 else 0)).
Lemma first_line_sweep : forallb first_line_check (upto 112) = true.
Proof. vm_compute. reflexivity. Qed.

Lemma first_line k :
  1 <= k -> k <= 112 ->
  spec_ly k = 0 /\ spec_mode k = (if k <=? 20 then 2 else if k <=? 61 then 3 else 0).
Proof.
  intros H1 H2. pose proof (sweep_upto 112 _ first_line_sweep (k - 1)) as X.
  replace (k - 1 + 1) with k in X by lia. unfold first_line_check in X.
  replace (k - 1 + 1) with k in X by lia.
  assert (Y : k - 1 < N.of_nat 112) by lia. specialize (X Y).
  apply andb_prop in X. destruct X as [X1 X2]. split; lia.
Qed.

Lemma second_line_start : spec_ly 113 = 1 /\ dot_of (pos 113) = 0.
Proof. split; reflexivity. Qed.
