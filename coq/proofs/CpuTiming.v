(* CpuTiming.v — cycle counts and data-access schedules of the model, from instr_refines, plus the table-level timing
   obligations on the regenerated tables (early-exit well-formedness, agreement with the repository's own timing
   metadata). *)
From V.lib Require Import Bits.
From V.model Require Import Uop Alu Cpu CpuTables.
From V.gen Require Import GenDispatch GenMeta.
From V.spec Require Import Sm83Spec.
From V.proofs Require Import AluProofs CpuLemmas ExpectedDispatch CpuTablesOk CpuProofs.

Section Timing.
  Variable B : Type.
  Variable brd : B -> N -> B * N.
  Variable bwr : B -> N -> N -> B.
  Variable btrig : B -> N -> B.
  Variable bcorrupt : B -> B.
  Variable bime : B -> bool.
  Variable bset_ime : B -> bool -> B.
  Variable bpending : B -> N.
  Variable back : B -> N -> B.
  Hypothesis Htrig : forall b a, btrig b a = b.
  Hypothesis Hcor : forall b, bcorrupt b = b.

  (* the instruction at PC, decoded by bit fields *)
  Definition instr_at (s : cpu) (b : B) : instr :=
    let b1 := commit B bset_ime s b in
    let op := snd (brd b1 (pc s)) in
    if op =? 203 then decode_cb (snd (brd (fst (brd b1 (pc s))) ((pc s + 1) mod 65536))) else decode op.

  Lemma spec_instr_cycles a b :
    snd (spec_instr B brd bwr bset_ime bime bpending a b) =
    spec_cycles (if rdv B brd b (xpc a) =? 203 then decode_cb (rdv B brd (rdb B brd b (xpc a)) (xpc (pc1 a)))
                 else decode (rdv B brd b (xpc a))) (xf a).
  Proof.
    unfold spec_instr. destruct (rdv B brd b (xpc a) =? 203); rewrite sem_cycles.
    - destruct (xhaltbug (pc1 a)); destruct a; reflexivity.
    - destruct (xhaltbug a); destruct a; reflexivity.
  Qed.

  Theorem instr_cycles s b :
    starts gen_tables B bime bpending s b -> wf s -> byte_bus B brd -> defined_at B brd bset_ime s b ->
    N.of_nat (snd (run_instr gen_tables B brd bwr btrig bcorrupt bime bset_ime bpending back s b)) =
    spec_cycles (instr_at s b) (rf s).
  Proof.
    intros Hst Hwf Hbb Hd.
    pose proof (instr_refines B brd bwr btrig bcorrupt bime bset_ime bpending back Htrig Hcor s b Hst Hwf Hbb Hd)
      as (_ & _ & _ & Hn & _).
    rewrite Hn, spec_instr_cycles. unfold instr_at, rdv, rdb, pc1, inc16. destruct s; reflexivity.
  Qed.

  Theorem instr_schedule s b :
    starts gen_tables B bime bpending s b -> wf s -> byte_bus B brd -> defined_at B brd bset_ime s b ->
    dtrace_of (trace (fst (fst (run_instr gen_tables B brd bwr btrig bcorrupt bime bset_ime bpending back s b)))) =
    snd (fst (spec_instr B brd bwr bset_ime bime bpending (arch_of (set_eip false s)) (commit B bset_ime s b))).
  Proof.
    intros Hst Hwf Hbb Hd.
    pose proof (instr_refines B brd bwr btrig bcorrupt bime bset_ime bpending back Htrig Hcor s b Hst Hwf Hbb Hd)
      as (_ & _ & Ht & _). exact Ht.
  Qed.
End Timing.

(* ---- table-level obligations on the regenerated tables ---- *)
Definition early_wf_check : bool :=
  forallb (fun '(op, (c, e, l)) =>
             let n := length (nth (N.to_nat op) (t_normal gen_tables) []) in
             Nat.eqb l n && Nat.ltb e l && Nat.ltb 0 e) (t_early gen_tables).

Theorem early_exit_wf : early_wf_check = true.
Proof. vm_compute. reflexivity. Qed.

(* the repository's own timing table (instruction_metadata.go): clock cycles / 4 = number of micro-operations, and the
   not-taken count = the early-exit index *)
Definition meta_disagreements : list (N * N * N * N) :=
  filter (fun '(op, len, c0, c1) =>
     let l := N.of_nat (length (nth (N.to_nat op) (t_normal gen_tables) [])) in
     negb ((c0 / 4 =? l) && match lookup_early op (t_early gen_tables) with
                            | Some (_, e, _) => c1 / 4 =? N.of_nat e
                            | None => c1 =? 0
                            end)) meta_unprefixed
  ++ filter (fun '(op, len, c0, c1) =>
     let l := N.of_nat (length (nth (N.to_nat op) (t_prefix gen_tables) [])) in
     negb ((c0 / 4 =? l) && (c1 =? 0))) meta_cbprefixed.

Theorem metadata_agrees : meta_disagreements = [] /\ length meta_unprefixed = 245%nat /\ length meta_cbprefixed = 256%nat.
Proof. vm_compute. repeat split. Qed.

(* every table entry is non-empty and at most six micro-operations long *)
Definition table_lengths_ok : bool :=
  forallb (fun l => Nat.ltb 0 (length l) && Nat.leb (length l) 6) (t_normal gen_tables ++ t_prefix gen_tables)
  && Nat.eqb (length (t_normal gen_tables)) 256 && Nat.eqb (length (t_prefix gen_tables)) 256.
Theorem table_lengths : table_lengths_ok = true.
Proof. vm_compute. reflexivity. Qed.
