(* SafeApu.v — the APU part of the C11 safety invariant: the three unguarded indexings of the audio code stay in
   range (waveduty[duty][dutyIndex], waveram[lastAccessed]) and every register reads back as a byte, for every
   history of register writes (any byte to any register) and machine cycles. *)
From V.lib Require Import Bits Mem Res.
From V.model Require Import Apu.
From V.proofs Require Import SafeLemmas.
From Coq Require Import ZArith ZifyN ZifyNat ZifyBool.

Definition sq_inv (c : square) : Prop := sqDuty c < 4 /\ sqDutyIdx c < 8 /\ sqEnvSweep c < 256.
Definition sw_inv (w : sweep) : Prop := swShift w < 256.
Definition wv_inv (w : wave) : Prop := wvLastAcc w < 16 /\ bmem (wvRam w).
Definition ns_inv (n : noise) : Prop := nsEnvSweep n < 256 /\ nsDivisor n < 256.
Definition ct_inv (c : control) : Prop := ctVolR c < 256.

Definition apu_inv (s : apu) : Prop :=
  sq_inv (ch1 s) /\ sw_inv (sw1 s) /\ sq_inv (ch2 s) /\ wv_inv (ch3 s) /\ ns_inv (ch4 s) /\ ct_inv (ctl s).

Ltac ifs :=
  repeat match goal with
         | |- context [if ?b then _ else _] => destruct b
         end.

(* ---------------- squares ---------------- *)
Ltac sq_frame := intros c; intros; destruct c; unfold sq_inv in *; cbn in *; ifs; cbn; auto.

Lemma sq_inv_len c v : sq_inv c -> sq_inv (set_sqLength c v). Proof. destruct c; exact (fun H => H). Qed.
Lemma sq_inv_en c v : sq_inv c -> sq_inv (set_sqEnabled c v). Proof. destruct c; exact (fun H => H). Qed.
Lemma sq_inv_lenen c v : sq_inv c -> sq_inv (set_sqLenEn c v). Proof. destruct c; exact (fun H => H). Qed.
Lemma sq_inv_freq c v : sq_inv c -> sq_inv (set_sqFreq c v). Proof. destruct c; exact (fun H => H). Qed.
Lemma sq_inv_timer c v : sq_inv c -> sq_inv (set_sqTimer c v). Proof. destruct c; exact (fun H => H). Qed.
Lemma sq_inv_trig c v : sq_inv c -> sq_inv (set_sqTriggered c v). Proof. destruct c; exact (fun H => H). Qed.
Lemma sq_inv_duty c v : v < 4 -> sq_inv c -> sq_inv (set_sqDuty c v).
Proof. destruct c; unfold sq_inv; cbn; tauto. Qed.

Lemma sq_tick_timer_inv c : sq_inv c -> sq_inv (sq_tick_timer c).
Proof.
  destruct c; unfold sq_inv, sq_tick_timer; cbn. intros (H1 & H2 & H3).
  destruct (sqTimer =? 0); cbn; [|auto].
  split; [exact H1|]. split; [|exact H3].
  destruct (8 <=? add8 sqDutyIdx 1) eqn:E; lia.
Qed.

Lemma sq_tick_length_inv c : sq_inv c -> sq_inv (sq_tick_length c).
Proof. destruct c; unfold sq_inv, sq_tick_length; cbn; ifs; cbn; auto. Qed.

Lemma sq_tick_envelope_inv c : sq_inv c -> sq_inv (sq_tick_envelope c).
Proof. destruct c; unfold sq_inv, sq_tick_envelope; cbn; ifs; cbn; auto. Qed.

Lemma calc_freq_inv c w : sq_inv c -> sw_inv w ->
  sq_inv (fst (fst (calc_freq c w))) /\ sw_inv (snd (fst (calc_freq c w))).
Proof. destruct c, w; unfold sq_inv, sw_inv, calc_freq; cbn; ifs; cbn; auto. Qed.

Lemma ch1_tick_sweep_inv c w : sq_inv c -> sw_inv w ->
  sq_inv (fst (ch1_tick_sweep c w)) /\ sw_inv (snd (ch1_tick_sweep c w)).
Proof.
  intros Hc Hw. unfold ch1_tick_sweep.
  destruct (swEnabled w); [|auto].
  set (w1 := set_swTimer w (sub8 (swTimer w) 1)).
  assert (Hw1 : sw_inv w1) by (destruct w; exact Hw).
  destruct (swTimer w1 =? 0); [|auto].
  set (w2 := set_swTimer w1 (swPeriod w1)).
  assert (Hw2 : sw_inv w2) by (destruct w1; exact Hw1).
  destruct (swTimer w2 =? 0); [split; [exact Hc|destruct w2; exact Hw2]|].
  pose proof (calc_freq_inv c w2 Hc Hw2) as [A B].
  destruct (calc_freq c w2) as [[c1 w3] nf]. cbn [fst snd] in *.
  destruct ((nf <? 2048) && (0 <? swShift w3)); [|auto].
  assert (Hc2 : sq_inv (set_sqFreq c1 nf)) by (apply sq_inv_freq; exact A).
  assert (Hw4 : sw_inv (set_swShadow w3 nf)) by (destruct w3; exact B).
  pose proof (calc_freq_inv _ _ Hc2 Hw4) as [A2 B2].
  destruct (calc_freq (set_sqFreq c1 nf) (set_swShadow w3 nf)) as [[c3 w5] nf2]. cbn [fst snd] in *. auto.
Qed.

Lemma sq_trigger_common_inv c : sq_inv c -> sq_inv (sq_trigger_common c).
Proof. destruct c; unfold sq_inv, sq_trigger_common; cbn; ifs; cbn; auto. Qed.
Lemma sq_dac_check_inv c : sq_inv c -> sq_inv (sq_dac_check c).
Proof. destruct c; unfold sq_inv, sq_dac_check; cbn; ifs; cbn; auto. Qed.
Lemma ch2_trigger_inv c : sq_inv c -> sq_inv (ch2_trigger c).
Proof. intros H. apply sq_dac_check_inv, sq_trigger_common_inv, H. Qed.
Lemma ch1_trigger_inv c w : sq_inv c -> sw_inv w ->
  sq_inv (fst (ch1_trigger c w)) /\ sw_inv (snd (ch1_trigger c w)).
Proof.
  intros Hc Hw. unfold ch1_trigger.
  set (c1 := sq_trigger_common c). assert (Hc1 : sq_inv c1) by (apply sq_trigger_common_inv, Hc).
  set (w1 := set_swShadow w (sqFreq c1)). assert (Hw1 : sw_inv w1) by (destruct w; exact Hw).
  set (w2 := set_swTimer w1 _). assert (Hw2 : sw_inv w2) by (destruct w1; exact Hw1).
  set (w3 := set_swEnabled w2 _). assert (Hw3 : sw_inv w3) by (destruct w2; exact Hw2).
  destruct (0 <? swShift w3).
  - pose proof (calc_freq_inv c1 w3 Hc1 Hw3) as [A B].
    destruct (calc_freq c1 w3) as [[c2 w4] nf]. cbn [fst snd] in *. split; [apply sq_dac_check_inv, A|exact B].
  - cbn [fst snd]. split; [apply sq_dac_check_inv, Hc1|exact Hw3].
Qed.

Lemma sq_write_nrx2_inv c v : v < 256 -> sq_inv c -> sq_inv (sq_write_nrx2 c v).
Proof.
  intros Hv. destruct c; unfold sq_inv, sq_write_nrx2; cbn. intros (H1 & H2 & H3).
  assert (N.land v 7 < 256) by (apply land256_l; exact Hv).
  ifs; cbn; auto.
Qed.
Lemma sq_extra_len_inv c a b d : sq_inv c -> sq_inv (sq_extra_len c a b d).
Proof. destruct c; unfold sq_inv, sq_extra_len; cbn; ifs; cbn; auto. Qed.
Lemma sq_trig_len_inv c a b : sq_inv c -> sq_inv (sq_trig_len c a b).
Proof. destruct c; unfold sq_inv, sq_trig_len; cbn; ifs; cbn; auto. Qed.

(* ---------------- wave ---------------- *)
Lemma bmem_copy m d s : bmem m -> bmem (ram_copy m d s).
Proof. intros H. apply bmem_set; [exact H|apply H]. Qed.

Lemma wv_corrupt_inv w : wv_inv w -> wv_inv (wv_corrupt w).
Proof.
  destruct w; unfold wv_inv, wv_corrupt; cbn. intros [H1 H2]. split; [exact H1|].
  ifs; repeat apply bmem_copy; exact H2.
Qed.

Lemma wv_trigger_inv w : wv_inv w -> wv_inv (wv_trigger w).
Proof.
  intros H. unfold wv_trigger.
  set (w1 := if wvEnabled w then _ else _).
  assert (H1 : wv_inv w1).
  { subst w1. destruct (wvEnabled w); [destruct (wvTimer w =? 0); [apply wv_corrupt_inv, H|exact H]|destruct w; exact H]. }
  clearbody w1. destruct w1; unfold wv_inv in *; cbn in *; ifs; cbn; auto.
Qed.

Lemma wv_tick_timer_inv w : wv_inv w -> wv_inv (wv_tick_timer w).
Proof.
  destruct w; unfold wv_inv, wv_tick_timer; cbn. intros [H1 H2].
  destruct wvEnabled; cbn; [|auto].
  destruct (wvTimer =? 0); cbn; [|auto].
  split; [|exact H2].
  destruct (32 <=? add8 wvPosition 1) eqn:E; [cbn; lia|].
  assert (add8 wvPosition 1 < 32) by lia. lia.
Qed.

Lemma wv_tick_length_inv w : wv_inv w -> wv_inv (wv_tick_length w).
Proof. destruct w; unfold wv_inv, wv_tick_length; cbn; ifs; cbn; auto. Qed.
Lemma wv_extra_len_inv w a b d : wv_inv w -> wv_inv (wv_extra_len w a b d).
Proof. destruct w; unfold wv_inv, wv_extra_len; cbn; ifs; cbn; auto. Qed.
Lemma wv_trig_len_inv w a b : wv_inv w -> wv_inv (wv_trig_len w a b).
Proof. destruct w; unfold wv_inv, wv_trig_len; cbn; ifs; cbn; auto. Qed.

(* ---------------- noise ---------------- *)
Lemma ns_trigger_inv n : ns_inv n -> ns_inv (ns_trigger n).
Proof. destruct n; unfold ns_inv, ns_trigger; cbn; ifs; cbn; auto. Qed.
Lemma ns_tick_timer_inv n : ns_inv n -> ns_inv (ns_tick_timer n).
Proof. destruct n; unfold ns_inv, ns_tick_timer; cbn; ifs; cbn; auto. Qed.
Lemma ns_tick_length_inv n : ns_inv n -> ns_inv (ns_tick_length n).
Proof. destruct n; unfold ns_inv, ns_tick_length; cbn; ifs; cbn; auto. Qed.
Lemma ns_tick_envelope_inv n : ns_inv n -> ns_inv (ns_tick_envelope n).
Proof. destruct n; unfold ns_inv, ns_tick_envelope; cbn; ifs; cbn; auto. Qed.
Lemma ns_extra_len_inv n a b d : ns_inv n -> ns_inv (ns_extra_len n a b d).
Proof. destruct n; unfold ns_inv, ns_extra_len; cbn; ifs; cbn; auto. Qed.
Lemma ns_trig_len_inv n a b : ns_inv n -> ns_inv (ns_trig_len n a b).
Proof. destruct n; unfold ns_inv, ns_trig_len; cbn; ifs; cbn; auto. Qed.

(* ---------------- the whole unit ---------------- *)
Lemma I_ch1 s : apu_inv s -> sq_inv (ch1 s). Proof. intros H; apply H. Qed.
Lemma I_sw1 s : apu_inv s -> sw_inv (sw1 s). Proof. intros H; apply H. Qed.
Lemma I_ch2 s : apu_inv s -> sq_inv (ch2 s). Proof. intros H; apply H. Qed.
Lemma I_ch3 s : apu_inv s -> wv_inv (ch3 s). Proof. intros H; apply H. Qed.
Lemma I_ch4 s : apu_inv s -> ns_inv (ch4 s). Proof. intros H; apply H. Qed.
Lemma I_ctl s : apu_inv s -> ct_inv (ctl s). Proof. intros H; apply H. Qed.

Lemma S_ch1 s c : apu_inv s -> sq_inv c -> apu_inv (set_ch1 s c).
Proof. destruct s; unfold apu_inv; cbn; tauto. Qed.
Lemma S_sw1 s c : apu_inv s -> sw_inv c -> apu_inv (set_sw1 s c).
Proof. destruct s; unfold apu_inv; cbn; tauto. Qed.
Lemma S_ch2 s c : apu_inv s -> sq_inv c -> apu_inv (set_ch2 s c).
Proof. destruct s; unfold apu_inv; cbn; tauto. Qed.
Lemma S_ch3 s c : apu_inv s -> wv_inv c -> apu_inv (set_ch3 s c).
Proof. destruct s; unfold apu_inv; cbn; tauto. Qed.
Lemma S_ch4 s c : apu_inv s -> ns_inv c -> apu_inv (set_ch4 s c).
Proof. destruct s; unfold apu_inv; cbn; tauto. Qed.
Lemma S_ctl s c : apu_inv s -> ct_inv c -> apu_inv (set_ctl s c).
Proof. destruct s; unfold apu_inv; cbn; tauto. Qed.
Lemma S_ticks s v : apu_inv s -> apu_inv (set_ticks s v).
Proof. destruct s; unfold apu_inv; cbn; tauto. Qed.
Lemma S_fseq s v : apu_inv s -> apu_inv (set_fseq s v).
Proof. destruct s; unfold apu_inv; cbn; tauto. Qed.

Lemma ct_any_bool c : ct_inv c ->
  forall b, ct_inv (set_ctOn c b) /\ ct_inv (set_ct1R c b) /\ ct_inv (set_ct2R c b) /\ ct_inv (set_ct3R c b) /\
            ct_inv (set_ct4R c b) /\ ct_inv (set_ct1L c b) /\ ct_inv (set_ct2L c b) /\ ct_inv (set_ct3L c b) /\
            ct_inv (set_ct4L c b) /\ ct_inv (set_ctVinL c b) /\ ct_inv (set_ctVinR c b).
Proof. destruct c; unfold ct_inv; cbn; intros; repeat split; assumption. Qed.
Lemma ct_volL c v : ct_inv c -> ct_inv (set_ctVolL c v). Proof. destruct c; exact (fun H => H). Qed.
Lemma ct_volR c v : v < 256 -> ct_inv (set_ctVolR c v). Proof. destruct c; exact (fun H => H). Qed.

Lemma set_on_inv s b : apu_inv s -> apu_inv (set_on s b).
Proof. intros H. unfold set_on. apply S_ctl; [exact H|]. apply (ct_any_bool _ (I_ctl _ H) b). Qed.

Section Writes.
  Variable s : apu.
  Variable v : N.
  Hypothesis Hs : apu_inv s.
  Hypothesis Hv : v < 256.

  Lemma W10_inv : apu_inv (WriteNR10 s v).
  Proof.
    unfold WriteNR10. destruct (ctOn (ctl s)); [|exact Hs].
    set (w1 := set_swPeriod (sw1 s) _). assert (H1 : sw_inv w1) by (pose proof (I_sw1 _ Hs); destruct (sw1 s); assumption).
    set (w2 := set_swIncrease w1 _). assert (H2 : sw_inv w2) by (destruct w1; exact H1).
    set (w3 := set_swShift w2 _).
    assert (H3 : sw_inv w3) by (destruct w2; unfold sw_inv; cbn; apply land256_l; exact Hv).
    apply S_sw1; [apply S_ch1; [exact Hs|]|destruct w3; exact H3].
    destruct (swIncrease w3 && swDescending w3); [apply sq_inv_en|]; apply I_ch1, Hs.
  Qed.

  Lemma shr6_lt4 : N.shiftr v 6 < 4.
  Proof. rewrite N.shiftr_div_pow2. change (2 ^ 6) with 64. lia. Qed.

  Lemma W11_inv : apu_inv (WriteNR11 s v).
  Proof.
    unfold WriteNR11. apply S_ch1; [exact Hs|]. apply sq_inv_len.
    destruct (ctOn (ctl s)); [apply sq_inv_duty; [apply shr6_lt4|]|]; apply I_ch1, Hs.
  Qed.
  Lemma W21_inv : apu_inv (WriteNR21 s v).
  Proof.
    unfold WriteNR21. apply S_ch2; [exact Hs|]. apply sq_inv_len.
    destruct (ctOn (ctl s)); [apply sq_inv_duty; [apply shr6_lt4|]|]; apply I_ch2, Hs.
  Qed.

  Lemma W12_inv : apu_inv (WriteNR12 s v).
  Proof.
    unfold WriteNR12. destruct (ctOn (ctl s)); [|exact Hs].
    apply S_ch1; [exact Hs|]. apply sq_write_nrx2_inv; [exact Hv|apply I_ch1, Hs].
  Qed.
  Lemma W22_inv : apu_inv (WriteNR22 s v).
  Proof.
    unfold WriteNR22. destruct (ctOn (ctl s)); [|exact Hs].
    apply S_ch2; [exact Hs|]. apply sq_write_nrx2_inv; [exact Hv|apply I_ch2, Hs].
  Qed.

  Lemma W13_inv : apu_inv (WriteNR13 s v).
  Proof.
    unfold WriteNR13. destruct (ctOn (ctl s)); [|exact Hs].
    apply S_ch1; [exact Hs|]. apply sq_inv_timer, sq_inv_freq, I_ch1, Hs.
  Qed.
  Lemma W23_inv : apu_inv (WriteNR23 s v).
  Proof.
    unfold WriteNR23. destruct (ctOn (ctl s)); [|exact Hs].
    apply S_ch2; [exact Hs|]. apply sq_inv_freq, I_ch2, Hs.
  Qed.

  Lemma W14_inv : apu_inv (WriteNR14 s v).
  Proof.
    unfold WriteNR14. destruct (ctOn (ctl s)); [|exact Hs].
    set (c1 := set_sqFreq (ch1 s) _). assert (H1 : sq_inv c1) by (apply sq_inv_freq, I_ch1, Hs).
    set (tr := 0 <? N.land (N.shiftr v 7) 1). set (le := 0 <? N.land (N.shiftr v 6) 1).
    set (c2 := sq_extra_len c1 le tr (odd_seq s)). assert (H2 : sq_inv c2) by (apply sq_extra_len_inv, H1).
    destruct tr.
    - pose proof (ch1_trigger_inv c2 (sw1 s) H2 (I_sw1 _ Hs)) as [A B].
      destruct (ch1_trigger c2 (sw1 s)) as [c3 w3]. cbn [fst snd] in *.
      apply S_sw1; [apply S_ch1; [exact Hs|]|exact B]. apply sq_inv_lenen, sq_trig_len_inv, A.
    - cbn [fst snd]. apply S_sw1; [apply S_ch1; [exact Hs|]|apply I_sw1, Hs]. apply sq_inv_lenen, H2.
  Qed.

  Lemma W24_inv : apu_inv (WriteNR24 s v).
  Proof.
    unfold WriteNR24. destruct (ctOn (ctl s)); [|exact Hs].
    set (c1 := set_sqFreq (ch2 s) _). assert (H1 : sq_inv c1) by (apply sq_inv_freq, I_ch2, Hs).
    set (tr := 0 <? N.land (N.shiftr v 7) 1). set (le := 0 <? N.land (N.shiftr v 6) 1).
    set (c2 := sq_extra_len c1 le tr (odd_seq s)). assert (H2 : sq_inv c2) by (apply sq_extra_len_inv, H1).
    apply S_ch2; [exact Hs|]. apply sq_inv_lenen.
    destruct tr; [apply sq_trig_len_inv, ch2_trigger_inv, H2|exact H2].
  Qed.

  Lemma wvf_Dac (w : wave) x : wv_inv w -> wv_inv (set_wvDac w x). Proof. destruct w; exact (fun H => H). Qed.
  Lemma wvf_Enabled (w : wave) x : wv_inv w -> wv_inv (set_wvEnabled w x). Proof. destruct w; exact (fun H => H). Qed.
  Lemma wvf_Length (w : wave) x : wv_inv w -> wv_inv (set_wvLength w x). Proof. destruct w; exact (fun H => H). Qed.
  Lemma wvf_OutLevel (w : wave) x : wv_inv w -> wv_inv (set_wvOutLevel w x). Proof. destruct w; exact (fun H => H). Qed.
  Lemma wvf_Freq (w : wave) x : wv_inv w -> wv_inv (set_wvFreq w x). Proof. destruct w; exact (fun H => H). Qed.
  Lemma wvf_LenEn (w : wave) x : wv_inv w -> wv_inv (set_wvLenEn w x). Proof. destruct w; exact (fun H => H). Qed.

  Lemma W30_inv : apu_inv (WriteNR30 s v).
  Proof.
    unfold WriteNR30. destruct (ctOn (ctl s)); [|exact Hs]. apply S_ch3; [exact Hs|].
    set (w := set_wvDac (ch3 s) _). assert (H : wv_inv w) by (apply wvf_Dac, I_ch3, Hs).
    destruct (wvDac w); [exact H|apply wvf_Enabled, H].
  Qed.
  Lemma W31_inv : apu_inv (WriteNR31 s v).
  Proof. unfold WriteNR31. apply S_ch3; [exact Hs|]. apply wvf_Length, I_ch3, Hs. Qed.
  Lemma W32_inv : apu_inv (WriteNR32 s v).
  Proof.
    unfold WriteNR32. destruct (ctOn (ctl s)); [|exact Hs]. apply S_ch3; [exact Hs|].
    apply wvf_OutLevel, I_ch3, Hs.
  Qed.
  Lemma W33_inv : apu_inv (WriteNR33 s v).
  Proof.
    unfold WriteNR33. destruct (ctOn (ctl s)); [|exact Hs]. apply S_ch3; [exact Hs|].
    apply wvf_Freq, I_ch3, Hs.
  Qed.
  Lemma W34_inv : apu_inv (WriteNR34 s v).
  Proof.
    unfold WriteNR34. destruct (ctOn (ctl s)); [|exact Hs].
    set (w1 := set_wvFreq (ch3 s) _). assert (H1 : wv_inv w1) by (apply wvf_Freq, I_ch3, Hs).
    set (tr := 0 <? N.land (N.shiftr v 7) 1). set (le := 0 <? N.land (N.shiftr v 6) 1).
    set (w2 := wv_extra_len w1 le tr (odd_seq s)). assert (H2 : wv_inv w2) by (apply wv_extra_len_inv, H1).
    apply S_ch3; [exact Hs|].
    destruct tr.
    - apply wvf_LenEn, wv_trig_len_inv, wv_trigger_inv, H2.
    - apply wvf_LenEn, H2.
  Qed.

  Lemma nsf_Length (n : noise) x : ns_inv n -> ns_inv (set_nsLength n x). Proof. destruct n; exact (fun H => H). Qed.
  Lemma nsf_InitVol (n : noise) x : ns_inv n -> ns_inv (set_nsInitVol n x). Proof. destruct n; exact (fun H => H). Qed.
  Lemma nsf_EnvInc (n : noise) x : ns_inv n -> ns_inv (set_nsEnvInc n x). Proof. destruct n; exact (fun H => H). Qed.
  Lemma nsf_Dac (n : noise) x : ns_inv n -> ns_inv (set_nsDac n x). Proof. destruct n; exact (fun H => H). Qed.
  Lemma nsf_Enabled (n : noise) x : ns_inv n -> ns_inv (set_nsEnabled n x). Proof. destruct n; exact (fun H => H). Qed.
  Lemma nsf_Shift (n : noise) x : ns_inv n -> ns_inv (set_nsShift n x). Proof. destruct n; exact (fun H => H). Qed.
  Lemma nsf_Width (n : noise) x : ns_inv n -> ns_inv (set_nsWidth n x). Proof. destruct n; exact (fun H => H). Qed.
  Lemma nsf_LenEn (n : noise) x : ns_inv n -> ns_inv (set_nsLenEn n x). Proof. destruct n; exact (fun H => H). Qed.

  Lemma W41_inv : apu_inv (WriteNR41 s v).
  Proof. unfold WriteNR41. apply S_ch4; [exact Hs|]. apply nsf_Length, I_ch4, Hs. Qed.

  Lemma W42_inv : apu_inv (WriteNR42 s v).
  Proof.
    unfold WriteNR42. destruct (ctOn (ctl s)); [|exact Hs]. apply S_ch4; [exact Hs|].
    pose proof (I_ch4 _ Hs) as H0. destruct (ch4 s); unfold ns_inv in *; cbn in *.
    assert (N.land v 7 < 256) by (apply land256_l; exact Hv).
    ifs; cbn; tauto.
  Qed.
  Lemma W43_inv : apu_inv (WriteNR43 s v).
  Proof.
    unfold WriteNR43. destruct (ctOn (ctl s)); [|exact Hs]. apply S_ch4; [exact Hs|].
    pose proof (I_ch4 _ Hs) as H0. destruct (ch4 s); unfold ns_inv in *; cbn in *.
    assert (N.land v 7 < 256) by (apply land256_l; exact Hv). tauto.
  Qed.
  Lemma W44_inv : apu_inv (WriteNR44 s v).
  Proof.
    unfold WriteNR44. destruct (ctOn (ctl s)); [|exact Hs].
    set (tr := 0 <? N.land (N.shiftr v 7) 1). set (le := 0 <? N.land (N.shiftr v 6) 1).
    set (n2 := ns_extra_len (ch4 s) le tr (odd_seq s)).
    assert (H2 : ns_inv n2) by (apply ns_extra_len_inv, I_ch4, Hs).
    apply S_ch4; [exact Hs|].
    destruct tr.
    - apply nsf_LenEn, ns_trig_len_inv, ns_trigger_inv, H2.
    - apply nsf_LenEn, H2.
  Qed.

  Lemma W50_inv : apu_inv (WriteNR50 s v).
  Proof.
    unfold WriteNR50. destruct (ctOn (ctl s)); [|exact Hs]. apply S_ctl; [exact Hs|].
    apply ct_volR. apply land256_l; exact Hv.
  Qed.
  Lemma W51_inv : apu_inv (WriteNR51 s v).
  Proof.
    unfold WriteNR51. destruct (ctOn (ctl s)); [|exact Hs]. apply S_ctl; [exact Hs|].
    pose proof (I_ctl _ Hs) as H0. destruct (ctl s); exact H0.
  Qed.
End Writes.

Lemma W52_inv s v : apu_inv s -> apu_inv (WriteNR52 s v).
Proof.
  intros Hs. unfold WriteNR52. destruct (N.shiftr v 7 =? 0).
  - assert (H0 : 0 < 256) by lia.
    pose proof (set_on_inv s true Hs) as H1.
    pose proof (W10_inv _ 0 H1 H0) as H2. pose proof (W12_inv _ 0 H2 H0) as H3.
    pose proof (W13_inv _ 0 H3) as H4. pose proof (W14_inv _ 0 H4) as H5.
    pose proof (W22_inv _ 0 H5 H0) as H6. pose proof (W23_inv _ 0 H6) as H7. pose proof (W24_inv _ 0 H7) as H8.
    pose proof (W30_inv _ 0 H8) as H9. pose proof (W32_inv _ 0 H9) as H10. pose proof (W33_inv _ 0 H10) as H11.
    pose proof (W34_inv _ 0 H11) as H12. pose proof (W42_inv _ 0 H12 H0) as H13. pose proof (W43_inv _ 0 H13 H0) as H14.
    pose proof (W44_inv _ 0 H14) as H15. pose proof (W50_inv _ 0 H15 H0) as H16. pose proof (W51_inv _ 0 H16) as H17.
    cbv zeta.
    match goal with |- apu_inv (set_on (set_ch2 (set_ch1 ?x _) _) false) => set (t := x) in * end.
    assert (A : apu_inv (set_ch1 t (set_sqDuty (ch1 t) 0))) by (apply S_ch1; [exact H17|apply sq_inv_duty; [lia|apply I_ch1, H17]]).
    apply set_on_inv. apply S_ch2; [exact A|]. apply sq_inv_duty; [lia|apply I_ch2, A].
  - apply set_on_inv. destruct (ctOn (ctl s)); [exact Hs|apply S_fseq, Hs].
Qed.

Lemma WWave_inv s a v : apu_inv s -> v < 256 -> apu_inv (WriteWaveRAM s a v).
Proof.
  intros Hs Hv. unfold WriteWaveRAM. pose proof (I_ch3 _ Hs) as [H1 H2].
  destruct (wvEnabled (ch3 s)); [destruct (wvSampleTimer (ch3 s) <? 4); [|exact Hs]|];
    (apply S_ch3; [exact Hs|]); destruct (ch3 s); unfold wv_inv in *; cbn in *; (split; [exact H1|apply bmem_set; assumption]).
Qed.

Theorem apu_write_inv s a v : apu_inv s -> v < 256 -> apu_inv (apu_bus_write s a v).
Proof.
  intros Hs Hv. unfold apu_bus_write.
  repeat match goal with |- context [if ?b then _ else _] => destruct b end;
    first [exact Hs | apply W10_inv | apply W11_inv | apply W12_inv | apply W13_inv | apply W14_inv | apply W21_inv
          | apply W22_inv | apply W23_inv | apply W24_inv | apply W30_inv | apply W31_inv | apply W32_inv | apply W33_inv
          | apply W34_inv | apply W41_inv | apply W42_inv | apply W43_inv | apply W44_inv | apply W50_inv | apply W51_inv
          | apply W52_inv | apply WWave_inv]; assumption.
Qed.

(* ---------------- machine cycles ---------------- *)
Lemma tick_timers_inv s : apu_inv s -> apu_inv (tick_timers s).
Proof.
  intros H. unfold tick_timers.
  set (s1 := if sqTriggered (ch1 s) then s else _).
  assert (H1 : apu_inv s1) by (subst s1; destruct (sqTriggered (ch1 s)); [exact H|apply S_ch1; [exact H|apply sq_tick_timer_inv, I_ch1, H]]).
  clearbody s1.
  set (s2 := if sqTriggered (ch2 s1) then s1 else _).
  assert (H2 : apu_inv s2) by (subst s2; destruct (sqTriggered (ch2 s1)); [exact H1|apply S_ch2; [exact H1|apply sq_tick_timer_inv, I_ch2, H1]]).
  clearbody s2.
  set (s3 := if wvTriggered (ch3 s2) then s2 else _).
  assert (H3 : apu_inv s3) by (subst s3; destruct (wvTriggered (ch3 s2)); [exact H2|apply S_ch3; [exact H2|apply wv_tick_timer_inv, I_ch3, H2]]).
  clearbody s3.
  destruct (nsTriggered (ch4 s3)); [exact H3|apply S_ch4; [exact H3|apply ns_tick_timer_inv, I_ch4, H3]].
Qed.

Lemma tick_lengths_inv s : apu_inv s -> apu_inv (tick_lengths s).
Proof.
  intros H. unfold tick_lengths.
  apply S_ch4; [apply S_ch3; [apply S_ch2; [apply S_ch1; [exact H|]|]|]|].
  - apply sq_tick_length_inv, I_ch1, H.
  - apply sq_tick_length_inv, I_ch2, H.
  - apply wv_tick_length_inv, I_ch3, H.
  - apply ns_tick_length_inv, I_ch4, H.
Qed.

Lemma tick_envelopes_inv s : apu_inv s -> apu_inv (tick_envelopes s).
Proof.
  intros H. unfold tick_envelopes.
  apply S_ch4; [apply S_ch2; [apply S_ch1; [exact H|]|]|].
  - apply sq_tick_envelope_inv, I_ch1, H.
  - apply sq_tick_envelope_inv, I_ch2, H.
  - apply ns_tick_envelope_inv, I_ch4, H.
Qed.

Lemma tick_sweep_inv s : apu_inv s -> apu_inv (tick_sweep s).
Proof.
  intros H. unfold tick_sweep.
  pose proof (ch1_tick_sweep_inv _ _ (I_ch1 _ H) (I_sw1 _ H)) as [A B].
  apply S_sw1; [apply S_ch1; [exact H|exact A]|exact B].
Qed.

Lemma tick_frame_sequencer_inv s : apu_inv s -> apu_inv (tick_frame_sequencer s).
Proof.
  intros H. unfold tick_frame_sequencer.
  set (s1 := if fseq s mod 2 =? 0 then _ else _).
  assert (H1 : apu_inv s1) by (subst s1; destruct (fseq s mod 2 =? 0); [apply tick_lengths_inv, H|exact H]).
  clearbody s1.
  set (s2 := if sub64 (fseq s) 7 mod 8 =? 0 then _ else _).
  assert (H2 : apu_inv s2) by (subst s2; destruct (sub64 (fseq s) 7 mod 8 =? 0); [apply tick_envelopes_inv, H1|exact H1]).
  clearbody s2.
  apply S_fseq. destruct (sub64 (fseq s) 2 mod 4 =? 0); [apply tick_sweep_inv, H2|exact H2].
Qed.

Lemma tick_clock_inv s : apu_inv s -> apu_inv (fst (apu_tick_clock s)).
Proof.
  intros H. unfold apu_tick_clock.
  set (s0 := if ticksPerSecond <? ticks s then _ else _).
  assert (H0 : apu_inv s0) by (subst s0; destruct (ticksPerSecond <? ticks s); [apply S_ticks, H|exact H]).
  clearbody s0.
  pose proof (tick_timers_inv _ H0) as H1. set (s1 := tick_timers s0) in *. clearbody s1.
  set (s2 := if N.land (ticks s1) frameSeqMask =? 0 then _ else _).
  assert (H2 : apu_inv s2).
  { subst s2. destruct (N.land (ticks s1) frameSeqMask =? 0); [|exact H1].
    pose proof (tick_frame_sequencer_inv _ H1) as H3. set (s3 := tick_frame_sequencer s1) in *. clearbody s3.
    destruct (512 <=? fseq s3); [apply S_fseq, H3|exact H3]. }
  clearbody s2. cbn [fst]. apply S_ticks, H2.
Qed.

Lemma clear_triggered_inv s : apu_inv s -> apu_inv (clear_triggered s).
Proof.
  intros H. unfold clear_triggered.
  apply S_ch4; [apply S_ch3; [apply S_ch2; [apply S_ch1; [exact H|]|]|]|].
  - apply sq_inv_trig, I_ch1, H.
  - apply sq_inv_trig, I_ch2, H.
  - pose proof (I_ch3 _ H) as X. destruct (ch3 s); exact X.
  - pose proof (I_ch4 _ H) as X. destruct (ch4 s); exact X.
Qed.

Theorem apu_cycle_inv s : apu_inv s -> apu_inv (fst (apu_end_machine_cycle s)).
Proof.
  intros H. unfold apu_end_machine_cycle.
  pose proof (tick_clock_inv _ H) as H1. destruct (apu_tick_clock s) as [s1 o1]. cbn [fst] in H1.
  pose proof (tick_clock_inv _ H1) as H2. destruct (apu_tick_clock s1) as [s2 o2]. cbn [fst] in H2.
  pose proof (tick_clock_inv _ H2) as H3. destruct (apu_tick_clock s2) as [s3 o3]. cbn [fst] in H3.
  pose proof (tick_clock_inv _ H3) as H4. destruct (apu_tick_clock s3) as [s4 o4]. cbn [fst] in H4.
  cbn [fst]. apply clear_triggered_inv, H4.
Qed.

(* ---------------- consequences ---------------- *)
Theorem apu_inv_idx_ok s : apu_inv s -> apu_idx_ok s = true.
Proof.
  intros ((A1 & A2 & _) & _ & (B1 & B2 & _) & (C1 & _) & _). unfold apu_idx_ok, sq_idx_ok. lia.
Qed.

Theorem apu_cycle_safe s : apu_inv s ->
  exists r, apu_end_machine_cycle_r s = Ok r /\ apu_inv (fst r).
Proof.
  intros H. unfold apu_end_machine_cycle_r. rewrite (apu_inv_idx_ok _ H).
  eexists; split; [reflexivity|apply apu_cycle_inv, H].
Qed.

Lemma wave_index_ok s a : apu_inv s -> 0xFF30 <= a -> a < 0xFF40 -> wave_index s a < 16.
Proof.
  intros H L U. unfold wave_index. destruct (wvEnabled (ch3 s)); [apply (I_ch3 _ H)|].
  unfold sub16. change 0xFF30 with 65328 in *. change 0xFF40 with 65344 in *. lia.
Qed.

Theorem apu_wave_write_safe s a v : apu_inv s -> v < 256 ->
  exists s', apu_bus_write_r s a v = Ok s' /\ apu_inv s'.
Proof.
  intros H Hv. unfold apu_bus_write_r.
  destruct ((0xFF30 <=? a) && (a <? 0xFF40)) eqn:E.
  - apply andb_prop in E. destruct E as [E1 E2]. apply N.leb_le in E1. apply N.ltb_lt in E2.
    pose proof (wave_index_ok s a H E1 E2) as W. assert (X : (wave_index s a <? 16) = true) by lia.
    rewrite X. cbn [negb andb]. eexists; split; [reflexivity|apply apu_write_inv; assumption].
  - cbn [andb]. eexists; split; [reflexivity|apply apu_write_inv; assumption].
Qed.

(* ---------------- every register reads back as a byte ---------------- *)
Lemma shl8_lt x k : shl8 x k < 256. Proof. unfold shl8. apply N.mod_lt. discriminate. Qed.
Lemma add8_lt x y : add8 x y < 256. Proof. unfold add8. apply N.mod_lt. discriminate. Qed.

Theorem apu_read_byte s a : apu_inv s -> apu_bus_read s a < 256.
Proof.
  intros ((A1 & A2 & A3) & SW & (B1 & B2 & B3) & (C1 & C2) & (D1 & D2) & CT).
  unfold sw_inv, ct_inv in *. unfold apu_bus_read.
  repeat match goal with |- context [if ?b then _ else _] => destruct b end;
    try (vm_compute; reflexivity).
  all: unfold ReadNR10, ReadNR11, ReadNR12, ReadNR13, ReadNR14, ReadNR21, ReadNR22, ReadNR23, ReadNR24, ReadNR30, ReadNR31,
         ReadNR32, ReadNR33, ReadNR34, ReadNR41, ReadNR42, ReadNR43, ReadNR44, ReadNR50, ReadNR51, ReadNR52, ReadWaveRAM,
         sq_read_nrx2.
  all: repeat match goal with |- context [if ?b then _ else _] => destruct b end.
  all: try apply add8_lt.
  all: try (repeat apply lor256; first [apply shl8_lt | assumption | vm_compute; reflexivity]).
  all: try apply C2.
  all: try (vm_compute; reflexivity).
Qed.

Theorem apu_wave_read_safe s a : apu_inv s -> exists v, apu_bus_read_r s a = Ok v /\ v < 256.
Proof.
  intros H. unfold apu_bus_read_r.
  destruct ((0xFF30 <=? a) && (a <? 0xFF40)) eqn:E.
  - apply andb_prop in E. destruct E as [E1 E2]. apply N.leb_le in E1. apply N.ltb_lt in E2.
    pose proof (wave_index_ok s a H E1 E2) as W. assert (X : (wave_index s a <? 16) = true) by lia.
    rewrite X. cbn [negb andb]. eexists; split; [reflexivity|apply apu_read_byte, H].
  - cbn [andb]. eexists; split; [reflexivity|apply apu_read_byte, H].
Qed.

(* ---------------- construction ---------------- *)
Lemma bmem_ram_of_list l : forall i m, Forall (fun x => x < 256) l -> bmem m -> bmem (ram_of_list l i m).
Proof.
  induction l as [|x r IH]; intros i m Hl Hm; cbn [ram_of_list]; [exact Hm|].
  inversion Hl; subst. apply IH; [assumption|apply bmem_set; assumption].
Qed.

Lemma wave_zero_inv : wv_inv wave_zero.
Proof.
  split; [cbn; lia|]. unfold wave_zero. cbn [wvRam].
  apply bmem_ram_of_list; [|apply bmem_empty; lia].
  unfold wave_init_ram. repeat constructor; lia.
Qed.

Lemma apu_zero_inv att : apu_inv (apu_zero att).
Proof.
  unfold apu_inv, apu_zero. cbn [ch1 sw1 ch2 ch3 ch4 ctl].
  split; [|split; [|split; [|split; [exact wave_zero_inv|]]]];
    unfold sq_inv, sw_inv, ns_inv, ct_inv; cbn; lia.
Qed.

Theorem apu_new_inv att : apu_inv (apu_new att).
Proof.
  unfold apu_new. cbv zeta.
  pose proof (apu_zero_inv att) as H0.
  pose proof (W10_inv _ 0x80 H0 ltac:(lia)) as H1. pose proof (W11_inv _ 0xbf H1 ltac:(lia)) as H2.
  pose proof (W12_inv _ 0xf3 H2 ltac:(lia)) as H3. pose proof (W13_inv _ 0xff H3) as H4.
  pose proof (W14_inv _ 0xbf H4) as H5. pose proof (W21_inv _ 0x3f H5 ltac:(lia)) as H6.
  pose proof (W23_inv _ 0xff H6) as H7. pose proof (W24_inv _ 0xbf H7) as H8. pose proof (W30_inv _ 0x7f H8) as H9.
  pose proof (W31_inv _ 0xff H9) as H10. pose proof (W32_inv _ 0x9f H10) as H11. pose proof (W33_inv _ 0xff H11) as H12.
  pose proof (W34_inv _ 0xbf H12) as H13. pose proof (W41_inv _ 0xff H13) as H14. pose proof (W44_inv _ 0xbf H14) as H15.
  pose proof (W50_inv _ 0x77 H15 ltac:(lia)) as H16. pose proof (W51_inv _ 0xf3 H16) as H17.
  exact (W52_inv _ 0xf1 H17).
Qed.
