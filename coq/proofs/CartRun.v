(* CartRun.v — the invariant along whole operation histories: every write, read, tick and dump from a
   constructed cartridge succeeds and keeps the invariant; ROM reads are the documented bank. *)
From Coq Require Import ZArith ZifyN ZifyNat ZifyBool.
From V.lib Require Import Bits Mem Res.
From V.model Require Import Rtc Cart.
From V.spec Require Import CartSpec.
From V.proofs Require Import CartLemmas CartInv CartInv5.

Lemma none_write_inv h c a v : c_kind c = KNone -> Inv h c -> post h c a v (Ok c).
Proof.
  intros Hk [Hpow Hr Hl Hen Hregs]. exists c. split; [reflexivity|]. split; [|apply same_frame_refl].
  constructor; try assumption.
  - rewrite Hk in *. cbn [kind_ctrl] in *. rewrite ram_enabled_snoc. cbn [enable_region]. exact Hen.
  - unfold regs_ok. rewrite Hk. exact I.
Qed.

Lemma cart_write_inv h c a v : Inv h c -> v < 256 -> post h c a v (cart_write c a v).
Proof.
  intros HI Hv. unfold cart_write. destruct (c_kind c) eqn:Hk.
  - apply none_write_inv; assumption.
  - apply mbc1_write_inv; assumption.
  - apply mbc2_write_inv; assumption.
  - apply mbc3_write_inv; assumption.
  - apply mbc5_write_inv; assumption.
Qed.

(* ---- reads ---- *)
Lemma rtc_read_ok r sel : exists v, rtc_read r sel = Ok v.
Proof.
  unfold rtc_read. destruct sel as [|p]; [eexists; reflexivity|].
  do 4 (destruct p as [p|p|]; try (eexists; reflexivity)).
Qed.

(* C08: below 0x8000 the model shows the byte of the documented bank *)
Lemma rom_read_spec h c addr :
  Inv h c -> addr < 32768 -> addressable (kind_ctrl (c_kind c)) (c_nrom c) = true ->
  cart_read c addr =
  Ok (spec_rom_read (kind_ctrl (c_kind c)) (c_nrom c) (img_at (c_img c)) h addr).
Proof.
  intros HI Ha Hadr. pose proof (inv_nrom_ge2 _ _ HI) as Hn.
  destruct HI as [Hpow Hr Hl Hen Hregs]. unfold regs_ok in Hregs.
  unfold cart_read, spec_rom_read, spec_bank.
  assert (H0 : 0 mod c_nrom c = 0) by (apply N.mod_0_l; lia).
  assert (H1 : 1 mod c_nrom c = 1) by (apply N.mod_small; lia).
  assert (Hlow : addr <? 16384 = true -> addr mod 16384 = addr) by (intros; apply N.mod_small; lia).
  assert (Hhigh : addr <? 16384 = false -> addr mod 16384 = addr - 16384) by (intros; lia).
  assert (Hz : (0 <? c_nrom c) = true) by lia.
  assert (Hm : forall x, (x mod c_nrom c <? c_nrom c) = true).
  { intros x. apply N.ltb_lt. apply N.mod_lt. lia. }
  assert (Ha2 : (addr <? 32768) = true) by lia.
  destruct (c_kind c) eqn:Hk; cbn [kind_ctrl] in *.
  - (* ROM only *)
    rewrite Ha2. specialize (Hl eq_refl).
    assert (Hin : (addr <? img_len (c_img c)) = true) by lia. rewrite Hin.
    destruct (addr <? 16384) eqn:E; [rewrite H0, (Hlow eq_refl) | rewrite H1, (Hhigh eq_refl)]; f_equal; f_equal; lia.
  - destruct Hregs as (R1 & R2 & R3 & R4 & R5 & R6 & R7).
    unfold rom_at. destruct (addr <? 16384) eqn:E.
    + rewrite R4, Hm, (Hlow eq_refl). reflexivity.
    + rewrite Ha2, R5, Hm, (Hhigh eq_refl). reflexivity.
  - unfold rom_at. destruct (addr <? 16384) eqn:E.
    + rewrite Hz, H0, (Hlow eq_refl). reflexivity.
    + rewrite Ha2, Hregs, Hm, (Hhigh eq_refl). reflexivity.
  - destruct Hregs as [R1 R2]. unfold rom_at. destruct (addr <? 16384) eqn:E.
    + rewrite Hz, H0, (Hlow eq_refl). reflexivity.
    + rewrite Ha2, R1, Hm, (Hhigh eq_refl). reflexivity.
  - destruct Hregs as (R1 & R2 & R3 & RL & R4). unfold rom_at. destruct (addr <? 16384) eqn:E.
    + rewrite Hz, H0, (Hlow eq_refl). reflexivity.
    + cbn [addressable] in Hadr. rewrite Ha2, (R3 ltac:(lia)), Hm, (Hhigh eq_refl). reflexivity.
Qed.

(* every read of every address succeeds *)
Lemma read_ok h c addr : Inv h c -> exists v, cart_read c addr = Ok v.
Proof.
  intros HI. pose proof (inv_nrom_ge2 _ _ HI) as Hn.
  destruct HI as [Hpow Hr Hl Hen Hregs]. unfold regs_ok in Hregs.
  pose proof (nram_ok_pos _ Hr) as [Hr0 Hr16].
  assert (Hm : forall x, (x mod c_nrom c <? c_nrom c) = true).
  { intros x. apply N.ltb_lt. apply N.mod_lt. lia. }
  assert (Hmr : forall x, (x mod c_nram c <? c_nram c) = true).
  { intros x. apply N.ltb_lt. apply N.mod_lt. lia. }
  assert (Hz : (0 <? c_nrom c) = true) by lia.
  unfold cart_read, ram_window_read, rom_at, ram_at.
  destruct (c_kind c) eqn:Hk.
  - specialize (Hl eq_refl). destruct (addr <? 32768) eqn:E; [|eexists; reflexivity].
    assert (Hin : (addr <? img_len (c_img c)) = true) by lia. rewrite Hin. eexists; reflexivity.
  - destruct Hregs as (R1 & R2 & R3 & R4 & R5 & R6 & R7).
    assert (Hrb : (c_ramBank c <? c_nram c) = true) by lia.
    rewrite R4, R5, !Hm, Hrb.
    repeat match goal with |- context [if ?b then _ else _] => destruct b end; eexists; reflexivity.
  - rewrite Hregs, Hm, Hz.
    repeat match goal with |- context [if ?b then _ else _] => destruct b end; eexists; reflexivity.
  - destruct Hregs as [R1 R2]. rewrite R1, Hm, Hz.
    destruct (addr <? 16384); [eexists; reflexivity|].
    destruct (addr <? 32768); [eexists; reflexivity|].
    destruct (addr <? 40960); [eexists; reflexivity|].
    destruct (addr <? 49152); [|eexists; reflexivity].
    destruct (c_en c); [|eexists; reflexivity].
    destruct (8 <=? c_ramBank c); [apply rtc_read_ok|].
    rewrite gomod_ok by lia. cbn [bind]. rewrite Hmr. eexists; reflexivity.
  - destruct Hregs as (R1 & R2 & R3 & RL & R4).
    assert (Hrb : (c_ramBank c <? c_nram c) = true) by (rewrite R4; apply Hmr).
    assert (Hrom : (c_romBank c <? c_nrom c) = true) by lia.
    rewrite Hrom, Hrb, Hz.
    repeat match goal with |- context [if ?b then _ else _] => destruct b end; eexists; reflexivity.
Qed.

(* ---- ticks touch only the clock ---- *)
Lemma tick_inv h c : Inv h c -> Inv h (cart_tick c) /\ same_frame c (cart_tick c).
Proof.
  intros [Hpow Hr Hl Hen Hregs]. split; [|repeat split].
  constructor; assumption.
Qed.

Lemma ticks_inv h c n : Inv h c -> Inv h (N.iter n cart_tick c) /\ same_frame c (N.iter n cart_tick c).
Proof.
  intros HI. induction n as [|n IH] using N.peano_ind.
  - split; [exact HI | apply same_frame_refl].
  - rewrite N.iter_succ. destruct IH as [I1 F1]. destruct (tick_inv _ _ I1) as [I2 F2].
    split; [exact I2 | eapply same_frame_trans; eassumption].
Qed.

(* ---- histories ---- *)
Definition writes_of (ops : list cop) : list write :=
  flat_map (fun o => match o with CWrite a v => [(a, v)] | _ => [] end) ops.
Definition wf_op (o : cop) : Prop := match o with CWrite _ v => v < 256 | _ => True end.

Lemma step_inv h c o :
  Inv h c -> wf_op o ->
  exists c', cart_step c o = Ok c' /\ Inv (h ++ writes_of [o]) c' /\ same_frame c c'.
Proof.
  intros HI Hwf. destruct o as [a|a v|n|]; cbn [cart_step writes_of flat_map app].
  - destruct (read_ok _ _ a HI) as [v Hv]. rewrite Hv. cbn [bind].
    exists c. rewrite app_nil_r. split; [reflexivity|]. split; [exact HI | apply same_frame_refl].
  - destruct (cart_write_inv h c a v HI Hwf) as (c' & E & I' & F). exists c'. split; [exact E|]. split; assumption.
  - destruct (ticks_inv h c n HI) as [I' F]. eexists. rewrite app_nil_r. split; [reflexivity|]. split; assumption.
  - exists c. rewrite app_nil_r. split; [reflexivity|]. split; [exact HI | apply same_frame_refl].
Qed.

Lemma writes_of_cons o ops : writes_of (o :: ops) = writes_of [o] ++ writes_of ops.
Proof. unfold writes_of. cbn [flat_map]. rewrite app_nil_r. reflexivity. Qed.

Lemma run_inv ops : forall h c,
  Inv h c -> Forall wf_op ops ->
  exists c', cart_run c ops = Ok c' /\ Inv (h ++ writes_of ops) c' /\ same_frame c c'.
Proof.
  induction ops as [|o ops IH]; intros h c HI Hwf.
  - exists c. cbn [cart_run writes_of flat_map]. rewrite app_nil_r.
    split; [reflexivity|]. split; [exact HI | apply same_frame_refl].
  - inversion Hwf as [|? ? Ho Hops]; subst.
    destruct (step_inv h c o HI Ho) as (c1 & E1 & I1 & F1).
    destruct (IH _ _ I1 Hops) as (c2 & E2 & I2 & F2).
    exists c2. cbn [cart_run]. rewrite E1. cbn [bind]. rewrite E2.
    rewrite writes_of_cons, app_assoc. split; [reflexivity|]. split; [exact I2|].
    eapply same_frame_trans; eassumption.
Qed.
