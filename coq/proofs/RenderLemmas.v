(* RenderLemmas.v — byte-level and list-level facts used by RenderProofs.v *)
From Coq Require Import ZArith Lia ZifyN ZifyNat ZifyBool Sorting.Sorted.
From V.lib Require Import Bits Mem Res.
From V.model Require Import Render.
From V.spec Require Import RenderSpec.
Open Scope N_scope.

(* ---- bits of a byte: Go's mask tests against the integer bit extraction of the specification ---- *)
Definition pat_check (v : N) : bool :=
  forallb (fun ox => match pattern_at ox with
                     | Ok p => Bool.eqb (0 <? N.land v p) (zbit (Z.of_N v) (7 - Z.of_N ox) =? 1)%Z
                     | _ => false
                     end) (upto 8).

Lemma pat_sweep : forallb pat_check bytes = true.
Proof. vm_compute. reflexivity. Qed.

Lemma pattern_bit v ox : v < 256 -> ox < 8 ->
  exists p, pattern_at ox = Ok p /\ (0 <? N.land v p) = (zbit (Z.of_N v) (7 - Z.of_N ox) =? 1)%Z.
Proof.
  intros Hv Hx.
  pose proof (sweep_bytes _ pat_sweep v Hv) as H. unfold pat_check in H.
  pose proof (sweep_upto 8 _ H ox Hx) as H1. cbv beta in H1.
  destruct (pattern_at ox) as [p| |]; try discriminate.
  exists p. split; [reflexivity|]. apply Bool.eqb_prop. exact H1.
Qed.

Definition flag_check (v : N) : bool :=
  Bool.eqb (flag v 128) (zbit (Z.of_N v) 7 =? 1)%Z && Bool.eqb (flag v 64) (zbit (Z.of_N v) 6 =? 1)%Z &&
  Bool.eqb (flag v 32) (zbit (Z.of_N v) 5 =? 1)%Z && Bool.eqb (flag v 16) (zbit (Z.of_N v) 4 =? 1)%Z.

Lemma flag_sweep : forallb flag_check bytes = true.
Proof. vm_compute. reflexivity. Qed.

Lemma flag_bits v : v < 256 ->
  flag v 128 = (zbit (Z.of_N v) 7 =? 1)%Z /\ flag v 64 = (zbit (Z.of_N v) 6 =? 1)%Z /\
  flag v 32 = (zbit (Z.of_N v) 5 =? 1)%Z /\ flag v 16 = (zbit (Z.of_N v) 4 =? 1)%Z.
Proof.
  intros Hv. pose proof (sweep_bytes _ flag_sweep v Hv) as H. unfold flag_check in H.
  apply andb_prop in H; destruct H as [H H4]. apply andb_prop in H; destruct H as [H H3].
  apply andb_prop in H; destruct H as [H1 H2].
  repeat split; apply Bool.eqb_prop; assumption.
Qed.

Lemma zbit_range v i : (0 <= zbit v i <= 1)%Z.
Proof. unfold zbit. pose proof (Z.mod_pos_bound (v / 2 ^ i) 2). lia. Qed.

(* ---- palettes ---- *)
Lemma shade_of_pal p c : pal_ok p -> c < 4 ->
  exists e, pal_get p c = Ok e /\ e < 4 /\ shade_of (pal_reg p) (Z.of_N c) = Z.of_N e.
Proof.
  intros (H0 & H1 & H2 & H3) Hc. unfold shade_of, pal_reg.
  assert (Hcase : c = 0 \/ c = 1 \/ c = 2 \/ c = 3) by lia.
  destruct Hcase as [ -> | [ -> | [ -> | -> ] ] ]; cbn [pal_get Z.of_N Z.pow Z.pow_pos Pos.iter Z.mul Pos.mul];
    eexists; (split; [reflexivity|]); (split; [assumption|]); lia.
Qed.

Lemma grey_at_ok e : e < 4 -> grey_at e = Ok e.
Proof. intros H. unfold grey_at. destruct (N.ltb_spec e 4); [reflexivity | lia]. Qed.

(* ---- lists ---- *)
Lemma combine_map_r {A B} (f : A -> B) (l : list A) : combine l (map f l) = map (fun a => (a, f a)) l.
Proof. induction l as [|a l IH]; cbn [map combine]; [reflexivity | rewrite IH; reflexivity]. Qed.

Lemma firstn_short {A} (l : list A) n : (length l <= n)%nat -> firstn n l = l.
Proof. intros H. apply firstn_all2. exact H. Qed.

Lemma upto_aux_sorted n : forall s, StronglySorted N.lt (upto_aux n s).
Proof.
  induction n as [|n IH]; intros s; cbn [upto_aux]; constructor; [apply IH|].
  apply Forall_forall. intros x Hx. apply In_upto_aux in Hx. lia.
Qed.

Lemma upto_sorted n : StronglySorted N.lt (upto n).
Proof. apply upto_aux_sorted. Qed.

Lemma Forall_filter {A} (P : A -> Prop) f (l : list A) : Forall P l -> Forall P (filter f l).
Proof.
  intros H. apply Forall_forall. intros x Hx. apply filter_In in Hx. destruct Hx as [Hx _].
  rewrite Forall_forall in H. apply H, Hx.
Qed.
