(* MapperRegs.v — C06, the I/O registers under arbitrary bus histories:
   - registers that only their own address can change (TAC, TMA, SCY, SCX, LYC, BGP, OBP0, OBP1, WY, WX, LCDC, DMA,
     IE) read back [readback r v] for the last byte v written, which for bytes is (v & writable) | ones
     (AddrSpec.reg_masks; OBP0 / OBP1 included since "fix: OBP0 and OBP1 read back all eight bits");
   - IF: E0 | written[4:0], the hardware only ever adds bits;  STAT: 80 | written[6:3] | read-only status;
   - JOYP: C0 | written[5:4] | button lines;  LY and DIV: a write makes them read 0, whatever was written. *)
From Coq Require Import ZArith ZifyN ZifyNat ZifyBool.
From V.lib Require Import Bits Mem Res.
From V.model Require Import Ints Joypad Timer Rtc Cart Oam PpuTiming Apu MapperTypes System.
From V.gen Require Import GenMapper.
From V.spec Require Import AddrSpec.
From V.proofs Require Import MapperDecode MapperFrame MapperWithin MapperApu MapperFootprint MapperHw MapperPlain.

(* ---- reading a register through the decoder ---- *)
Lemma read_handler_reg r : read_handler (reg_addr r) = HReg r.
Proof. pose proof (reg_addr_page r). rewrite decode_read_ok by lia. rewrite spec_region_reg. reflexivity. Qed.
Lemma write_handler_reg r : write_handler (reg_addr r) = HReg r.
Proof. pose proof (reg_addr_page r). rewrite decode_write_ok by lia. rewrite spec_region_reg. reflexivity. Qed.

Lemma peek_reg s r : peek s (reg_addr r) = Ok (reg_read r s).
Proof. rewrite peek_rd, read_handler_reg. reflexivity. Qed.

Lemma write_reg s r v : sys_write s (reg_addr r) v = Ok (reg_write r s v).
Proof. unfold sys_write. rewrite write_handler_reg. reflexivity. Qed.

(* ---- registers outside every other address's effect set ---- *)
Definition private_reg (r : ioreg) : bool :=
  match r with
  | R_JOYP | R_SB | R_SC | R_DIV | R_TMA | R_TAC | R_IF | R_LCDC | R_SCY | R_SCX | R_LYC | R_DMA | R_BGP | R_OBP0
  | R_OBP1 | R_WY | R_WX | R_IE => true
  | _ => false
  end.

Lemma mbc2_images_bound x b : in_ranges (mbc2_images x) b = true -> 0xA000 <= b < 0xC000.
Proof.
  unfold in_ranges, mbc2_images. intros H. apply existsb_exists in H. destruct H as (r & Hin & Hb).
  apply in_map_iff in Hin. destruct Hin as (k & <- & Hin). apply In_upto in Hin. change (N.of_nat 16) with 16 in Hin.
  cbv beta iota zeta delta [fst snd] in Hb.
  pose proof (N.mod_lt (x - 0xA000) 512). lia.
Qed.

Lemma fp_private k x r :
  private_reg r = true -> x < 65536 -> x <> reg_addr r -> in_ranges (fp_ranges k x) (reg_addr r) = false.
Proof.
  intros Hr Hx Hne.
  destruct (in_ranges (fp_ranges k x) (reg_addr r)) eqn:E; [exfalso | reflexivity].
  unfold fp_ranges in E.
  repeat match type of E with
         | context [if ?c then _ else _] => let Ec := fresh "Ec" in destruct c eqn:Ec
         end;
    try (destruct k; try (apply mbc2_images_bound in E; pose proof (reg_addr_page r); lia));
    cbn [in_ranges existsb fst snd] in E;
    destruct r; try discriminate Hr; cbn [reg_addr] in *; lia.
Qed.

Lemma other_write_keeps s x v s' r :
  private_reg r = true -> x < 65536 -> x <> reg_addr r -> sys_write s x v = Ok s' -> reg_read r s' = reg_read r s.
Proof.
  intros Hr Hx Hne Hw. pose proof (reg_addr_page r).
  assert (E : peek s' (reg_addr r) = peek s (reg_addr r)).
  { eapply write_frame; [exact Hx | lia | | exact Hw]. unfold footprint. apply fp_private; assumption. }
  rewrite !peek_reg in E. injection E as E. exact E.
Qed.

Lemma read_keeps s a s' v r : sys_read s a = Ok (s', v) -> reg_read r s' = reg_read r s.
Proof.
  intros H. pose proof (read_inert _ _ _ _ (reg_addr r) H) as E. rewrite !peek_reg in E. injection E as E. exact E.
Qed.

(* ---- registers no hardware activity changes ---- *)
Definition stable_reg (r : ioreg) : bool :=
  match r with
  | R_TMA | R_TAC | R_LCDC | R_SCY | R_SCX | R_LYC | R_DMA | R_BGP | R_OBP0 | R_OBP1 | R_WY | R_WX | R_IE => true
  | _ => false
  end.

Lemma stable_private r : stable_reg r = true -> private_reg r = true.
Proof. destruct r; cbn; congruence. Qed.

Lemma hw_keeps s s' r : stable_reg r = true -> hw_rel s s' -> reg_read r s' = reg_read r s.
Proof.
  intros Hr R. destruct R as [_ _ _ _ E5 _ P7 _ E9 _ E11 E12].
  destruct P7 as (Q1 & Q2 & Q3 & Q4 & Q5 & Q6 & Q7 & Q8 & Q9 & Q10 & Q11 & Q12).
  destruct r; try discriminate Hr; unfold reg_read;
    unfold timer_read_tma, timer_read_tac, ppu_read_lcdc, ppu_read_scy, ppu_read_scx, ppu_read_lyc, oam_read_dma,
           ppu_read_bgp, ppu_read_obp0, ppu_read_obp1, ppu_read_wy, ppu_read_wx, ints_read_ie; cbv zeta;
    rewrite ?E5, ?E9, ?E11, ?E12, ?Q1, ?Q2, ?Q4, ?Q5, ?Q6, ?Q7, ?Q8, ?Q9, ?Q10, ?Q11; reflexivity.
Qed.

(* what such a register reads after v was written to it *)
Definition lcdc_byte (v : N) : N :=
  u8 ((if tb v 0x80 then 0x80 else 0) + (if tb v 0x40 then 0x40 else 0) + (if tb v 0x20 then 0x20 else 0)
      + (if tb v 0x10 then 0x10 else 0) + (if tb v 0x08 then 0x08 else 0) + (if tb v 0x04 then 0x04 else 0)
      + (if tb v 0x02 then 0x02 else 0) + (if tb v 0x01 then 0x01 else 0)).

Definition readback (r : ioreg) (v : N) : N :=
  match r with
  | R_TAC => N.lor v 248
  | R_LCDC => lcdc_byte v
  | R_BGP | R_OBP0 | R_OBP1 => pal_byte (mkPal (N.land v 3) (two v 2) (two v 4) (two v 6))
  | _ => v
  end.

Lemma lcdc_enabled p o v : p_enabled (fst (ppu_write_lcdc p o v)) = tb v 0x80.
Proof.
  unfold ppu_write_lcdc, ppu_enable, ppu_disable. change 0x80 with 128.
  destruct (tb v 128), (p_enabled p) eqn:E; cbn [andb negb]; ppuf; try reflexivity; exact E.
Qed.

Lemma lcdc_flags p o v :
  p_lcdc (fst (ppu_write_lcdc p o v)) =
  mkLcdc (tb v 0x40) (tb v 0x20) (tb v 0x10) (tb v 0x08) (tb v 0x04) (tb v 0x02) (tb v 0x01).
Proof.
  unfold ppu_write_lcdc, ppu_enable, ppu_disable.
  destruct (tb v 128 && negb (p_enabled p)); [reflexivity|].
  destruct (negb (tb v 128) && p_enabled p); reflexivity.
Qed.

Lemma readback_ok r s v : stable_reg r = true -> reg_read r (reg_write r s v) = readback r v.
Proof.
  destruct r; intros H; try discriminate H; try reflexivity.
  (* LCDC *)
  unfold reg_read, reg_write. sysf. unfold ppu_read_lcdc. rewrite lcdc_enabled, lcdc_flags. reflexivity.
Qed.

Definition readback_check (v : N) : bool :=
  (readback R_TAC v =? N.lor (N.land v 0x07) 0xF8) && (readback R_LCDC v =? v) && (readback R_BGP v =? v)
  && (readback R_OBP0 v =? v).

Lemma readback_sweep : forallb readback_check bytes = true.
Proof. vm_compute. reflexivity. Qed.

Lemma readback_masks r v wm ones :
  stable_reg r = true -> reg_masks r = Some (wm, ones) -> v < 256 -> readback r v = N.lor (N.land v wm) ones.
Proof.
  intros Hr Hm Hv. pose proof (sweep_bytes _ readback_sweep v Hv) as S. unfold readback_check in S.
  apply andb_true_iff in S. destruct S as (S & S4). apply andb_true_iff in S. destruct S as (S & S3).
  apply andb_true_iff in S. destruct S as (S1 & S2).
  apply N.eqb_eq in S1, S2, S3, S4.
  assert (Eff : N.lor (N.land v 255) 0 = v).
  { rewrite N.lor_0_r. change 255 with (N.ones 8). rewrite N.land_ones. apply N.mod_small. exact Hv. }
  destruct r; try discriminate Hr; cbn [reg_masks] in Hm; injection Hm as <- <-;
    change 0xFF with 255; change 0x00 with 0; rewrite ?Eff; try reflexivity.
  - exact S1.
  - exact S2.
  - exact S3.
  - exact S4.
  - exact S4.
Qed.

(* ---- histories ---- *)
Lemma last_written_snoc a h o :
  last_written a (h ++ [o]) =
  match o with BWrite x v => if x =? a then Some v else last_written a h | _ => last_written a h end.
Proof. unfold last_written. rewrite fold_left_app. cbn [fold_left]. destruct o; reflexivity. Qed.

Theorem stable_reg_run r (h : list bop) : forall s s',
  stable_reg r = true -> forallb wf_bop h = true -> bus_run s h = Ok s' ->
  reg_read r s' = match last_written (reg_addr r) h with Some v => readback r v | None => reg_read r s end.
Proof.
  induction h as [|o h IH] using rev_ind; intros s s' Hr Hwf Hrun.
  - cbn in Hrun. inv_ok Hrun. reflexivity.
  - rewrite forallb_app in Hwf. apply andb_true_iff in Hwf. destruct Hwf as (Hwf & Ho).
    cbn [forallb] in Ho. rewrite andb_true_r in Ho.
    destruct (bus_run_snoc _ _ _ _ Hrun) as (s1 & H1 & H2).
    rewrite last_written_snoc. specialize (IH s s1 Hr Hwf H1).
    destruct o as [a|a v|]; cbn [bus_step wf_bop] in *.
    + apply bind_ok in H2. destruct H2 as ([s2 v2] & Hrd & H2). inv_ok H2. cbn [fst].
      rewrite (read_keeps _ _ _ _ r Hrd). exact IH.
    + apply N.ltb_lt in Ho. destruct (a =? reg_addr r) eqn:E.
      * apply N.eqb_eq in E. subst a. rewrite write_reg in H2. inv_ok H2. apply readback_ok. exact Hr.
      * apply N.eqb_neq in E. rewrite (other_write_keeps _ _ _ _ r (stable_private _ Hr) Ho E H2). exact IH.
    + rewrite (hw_keeps _ _ r Hr (hw_cycle_rel _ _ H2)). exact IH.
Qed.

(* statement-level: the register table *)
Theorem register_masks r s h s' v wm ones :
  stable_reg r = true -> reg_masks r = Some (wm, ones) ->
  forallb wf_bop h = true -> bus_run s h = Ok s' -> last_written (reg_addr r) h = Some v -> v < 256 ->
  peek s' (reg_addr r) = Ok (N.lor (N.land v wm) ones).
Proof.
  intros Hr Hm Hwf Hrun Hl Hv. rewrite peek_reg, (stable_reg_run r h s s' Hr Hwf Hrun), Hl.
  f_equal. apply readback_masks; assumption.
Qed.

(* never written: the register keeps reading what it read *)
Theorem register_unwritten r s h s' :
  stable_reg r = true -> forallb wf_bop h = true -> bus_run s h = Ok s' -> last_written (reg_addr r) h = None ->
  peek s' (reg_addr r) = peek s (reg_addr r).
Proof.
  intros Hr Hwf Hrun Hl. rewrite !peek_reg, (stable_reg_run r h s s' Hr Hwf Hrun), Hl. reflexivity.
Qed.

(* ---- IF: E0 | written[4:0]; the hardware only adds request bits ---- *)
Lemma hw_since_snoc a h o :
  hw_since_write a (h ++ [o]) =
  match o with
  | BWrite x _ => if x =? a then false else hw_since_write a h
  | BHw => true
  | BRead _ => hw_since_write a h
  end.
Proof. unfold hw_since_write. rewrite fold_left_app. cbn [fold_left]. destruct o; reflexivity. Qed.

Definition small32 : list N := upto 32.
Definition if_check (a : N) : bool :=
  forallb (fun b => (N.lor a b <? 32) &&
             forallb (fun m => negb (N.land a m =? m) || (N.land (N.lor a b) m =? m)) small32) small32.
Lemma if_sweep : forallb if_check small32 = true.
Proof. vm_compute. reflexivity. Qed.

Lemma lor_small a b m : a < 32 -> b < 32 -> m < 32 ->
  N.lor a b < 32 /\ (N.land a m = m -> N.land (N.lor a b) m = m).
Proof.
  intros Ha Hb Hm. pose proof (sweep_upto 32 _ if_sweep a Ha) as S. unfold if_check in S.
  pose proof (sweep_upto 32 _ S b Hb) as S2. cbv beta in S2. apply andb_true_iff in S2. destruct S2 as (S2 & S3).
  split; [apply N.ltb_lt; exact S2|].
  pose proof (sweep_upto 32 _ S3 m Hm) as S4. cbv beta in S4. intros E.
  apply orb_true_iff in S4. destruct S4 as [S4|S4].
  - apply negb_true_iff in S4. apply N.eqb_neq in S4. contradiction.
  - apply N.eqb_eq in S4. exact S4.
Qed.

Lemma land31_lt v : N.land v 31 < 32.
Proof. change 31 with (N.ones 5). rewrite N.land_ones. apply N.mod_lt. discriminate. Qed.

Theorem if_run (h : list bop) : forall s s',
  forallb wf_bop h = true -> ifl (s_ints s) < 32 -> bus_run s h = Ok s' ->
  ifl (s_ints s') < 32 /\
  match last_written 0xFF0F h with
  | Some v => N.land (ifl (s_ints s')) (N.land v 31) = N.land v 31 /\
              (hw_since_write 0xFF0F h = false -> ifl (s_ints s') = N.land v 31)
  | None => True
  end.
Proof.
  induction h as [|o h IH] using rev_ind; intros s s' Hwf H0 Hrun.
  - cbn in Hrun. inv_ok Hrun. split; [exact H0 | exact I].
  - rewrite forallb_app in Hwf. apply andb_true_iff in Hwf. destruct Hwf as (Hwf & Ho).
    cbn [forallb] in Ho. rewrite andb_true_r in Ho.
    destruct (bus_run_snoc _ _ _ _ Hrun) as (s1 & H1 & H2).
    rewrite last_written_snoc, hw_since_snoc. destruct (IH s s1 Hwf H0 H1) as (B1 & I1).
    destruct o as [a|a v|]; cbn [bus_step wf_bop] in *.
    + apply bind_ok in H2. destruct H2 as ([s2 v2] & Hrd & H2). inv_ok H2. cbn [fst].
      pose proof (read_keeps _ _ _ _ R_IF Hrd) as E. cbn [reg_read] in E. unfold ints_read_if in E.
      assert (E' : ifl (s_ints s') = ifl (s_ints s1)) by lia. rewrite E'. split; assumption.
    + apply N.ltb_lt in Ho. change 0xFF0F with (reg_addr R_IF). destruct (a =? reg_addr R_IF) eqn:E.
      * apply N.eqb_eq in E. subst a. rewrite write_reg in H2. inv_ok H2. cbn [reg_write]. sysf.
        cbn [ints_write_if ifl]. split; [apply land31_lt|]. split; [|reflexivity].
        apply N.land_diag.
      * apply N.eqb_neq in E.
        pose proof (other_write_keeps _ _ _ _ R_IF eq_refl Ho E H2) as K. cbn [reg_read] in K. unfold ints_read_if in K.
        assert (E' : ifl (s_ints s') = ifl (s_ints s1)) by lia. rewrite E'. split; assumption.
    + pose proof (hw_cycle_rel _ _ H2) as R. destruct (hr_if _ _ R) as (r & Er).
      pose proof (land31_lt r) as Lr.
      destruct (last_written 0xFF0F h) as [v|].
      * destruct I1 as (I1 & _). pose proof (land31_lt v) as Lv.
        destruct (lor_small _ _ _ B1 Lr Lv) as (L1 & L2). rewrite Er. split; [exact L1|].
        split; [apply L2; exact I1 | discriminate].
      * destruct (lor_small _ _ 0 B1 Lr) as (L1 & _); [lia|]. rewrite Er. split; [exact L1 | exact I].
Qed.

Definition if_read_check (x : N) : bool := (N.land (224 + x) 224 =? 224) && (224 + x =? N.lor x 224) && (224 + x <? 256).
Lemma if_read_sweep : forallb if_read_check small32 = true.
Proof. vm_compute. reflexivity. Qed.

Theorem if_register s h s' v :
  forallb wf_bop h = true -> ifl (s_ints s) < 32 -> bus_run s h = Ok s' -> last_written 0xFF0F h = Some v ->
  exists x, peek s' 0xFF0F = Ok x /\ x < 256 /\ N.land x 0xE0 = 0xE0 /\
            N.land (ifl (s_ints s')) (N.land v 0x1F) = N.land v 0x1F /\ x = N.lor (ifl (s_ints s')) 0xE0 /\
            (hw_since_write 0xFF0F h = false -> x = N.lor (N.land v 0x1F) 0xE0).
Proof.
  intros Hwf H0 Hrun Hl. destruct (if_run h s s' Hwf H0 Hrun) as (B & I). rewrite Hl in I. destruct I as (I1 & I2).
  exists (224 + ifl (s_ints s')). change 0xFF0F with (reg_addr R_IF). rewrite peek_reg.
  pose proof (sweep_upto 32 _ if_read_sweep _ B) as S. unfold if_read_check in S.
  apply andb_true_iff in S. destruct S as (S & S3). apply andb_true_iff in S. destruct S as (S1 & S2).
  apply N.eqb_eq in S1, S2. apply N.ltb_lt in S3.
  split; [reflexivity|]. split; [exact S3|]. split; [exact S1|]. split; [exact I1|]. split; [exact S2|].
  intros Hh. rewrite <- (I2 Hh). exact S2.
Qed.

(* ---- STAT: 80 | written[6:3] | coincidence | mode ---- *)
Lemma write_keeps_stat s x v s' :
  x < 65536 -> x <> 0xFF41 -> sys_write s x v = Ok s' ->
  p_stat (s_ppu s') = p_stat (s_ppu s) /\ (p_mode (s_ppu s) < 4 -> p_mode (s_ppu s') < 4).
Proof.
  intros Hx Hne Hw.
  destruct (comp_eq_dec KPpu (comp_of (write_handler x))) as [Ec|Nc].
  - pose proof (decode_write_ok x Hx) as Ew. pose proof (region_inv x Hx) as Rx.
    unfold sys_write in Hw. rewrite Ew in Hw, Ec.
    destruct (spec_region x) eqn:G; cbn [handler_of comp_of] in Ec; try discriminate Ec; cbn [handler_of] in Hw.
    + apply bind_ok in Hw. destruct Hw as (p' & Hp & Hw). inv_ok Hw. sysf.
      unfold ppu_write_vram in Hp. cbv zeta in Hp. destruct (_ <? 8192); [|discriminate Hp]. inv_ok Hp.
      split; [reflexivity | tauto].
    + inv_ok Hw. destruct r; try discriminate Ec; unfold reg_write, ppu_w; sysf;
        try (split; [reflexivity | tauto]).
      * (* LCDC *) unfold ppu_write_lcdc, ppu_enable, ppu_disable.
        destruct (tb v 128 && negb (p_enabled (s_ppu s))); [split; [reflexivity | intros _; ppuf; lia]|].
        destruct (negb (tb v 128) && p_enabled (s_ppu s)); split; try reflexivity; try tauto; try (intros _; ppuf; lia).
      * exfalso. apply Hne. reflexivity.
  - assert (X : same_comp KPpu s s').
    { eapply write_comp; [exact Hw | exact Nc | intros _; discriminate]. }
    cbn [same_comp] in X. rewrite X. split; [reflexivity | tauto].
Qed.

Definition stat_flags_of (v : N) : stat_flags := mkStat (tb v 0x40) (tb v 0x20) (tb v 0x10) (tb v 0x08).

Theorem stat_run (h : list bop) : forall s s',
  forallb wf_bop h = true -> p_mode (s_ppu s) < 4 -> bus_run s h = Ok s' ->
  p_mode (s_ppu s') < 4 /\
  p_stat (s_ppu s') = match last_written 0xFF41 h with Some v => stat_flags_of v | None => p_stat (s_ppu s) end.
Proof.
  induction h as [|o h IH] using rev_ind; intros s s' Hwf H0 Hrun.
  - cbn in Hrun. inv_ok Hrun. split; [exact H0 | reflexivity].
  - rewrite forallb_app in Hwf. apply andb_true_iff in Hwf. destruct Hwf as (Hwf & Ho).
    cbn [forallb] in Ho. rewrite andb_true_r in Ho.
    destruct (bus_run_snoc _ _ _ _ Hrun) as (s1 & H1 & H2).
    rewrite last_written_snoc. destruct (IH s s1 Hwf H0 H1) as (B1 & I1).
    destruct o as [a|a v|]; cbn [bus_step wf_bop] in *.
    + apply bind_ok in H2. destruct H2 as ([s2 v2] & Hrd & H2). inv_ok H2. cbn [fst].
      destruct (sys_read_state _ _ _ _ Hrd) as [->|(o' & _ & ->)]; sysf; split; assumption.
    + apply N.ltb_lt in Ho. destruct (a =? 0xFF41) eqn:E.
      * apply N.eqb_eq in E. subst a. change 0xFF41 with (reg_addr R_STAT) in H2. rewrite write_reg in H2. inv_ok H2.
        cbn [reg_write]. unfold ppu_w. sysf. split; [exact B1 | reflexivity].
      * apply N.eqb_neq in E. destruct (write_keeps_stat _ _ _ _ Ho E H2) as (K1 & K2).
        split; [apply K2; exact B1 | rewrite K1; exact I1].
    + pose proof (hw_cycle_rel _ _ H2) as R. split; [apply (hr_mode _ _ R); exact B1|].
      destruct (hr_ppu _ _ R) as (_ & _ & Q3 & _). rewrite Q3. exact I1.
Qed.

Definition stat_check (v : N) : bool :=
  forallb (fun c : bool => forallb (fun m : N =>
    N.land (u8 (0x80 + (if tb v 0x40 then 0x40 else 0) + (if tb v 0x20 then 0x20 else 0)
                + (if tb v 0x10 then 0x10 else 0) + (if tb v 0x08 then 0x08 else 0) + (if c then 0x04 else 0) + m)) 0xF8
    =? N.lor 0x80 (N.land v 0x78)) (upto 4)) bools.
Lemma stat_sweep : forallb stat_check bytes = true.
Proof. vm_compute. reflexivity. Qed.

Theorem stat_register s h s' v :
  forallb wf_bop h = true -> p_mode (s_ppu s) < 4 -> bus_run s h = Ok s' -> last_written 0xFF41 h = Some v -> v < 256 ->
  exists x, peek s' 0xFF41 = Ok x /\ N.land x 0xF8 = N.lor 0x80 (N.land v 0x78).
Proof.
  intros Hwf H0 Hrun Hl Hv. destruct (stat_run h s s' Hwf H0 Hrun) as (B & I). rewrite Hl in I.
  change 0xFF41 with (reg_addr R_STAT). rewrite peek_reg. eexists. split; [reflexivity|].
  cbn [reg_read]. unfold ppu_read_stat. cbv zeta. rewrite I. cbn [stat_flags_of coincidenceInterrupt oamInterrupt vblankInterrupt hblankInterrupt].
  pose proof (sweep_bytes _ stat_sweep v Hv) as S. unfold stat_check in S.
  pose proof (sweep_bool _ S (p_coincidence (s_ppu s'))) as S2. cbv beta in S2.
  pose proof (sweep_upto 4 _ S2 (p_mode (s_ppu s')) B) as S3. cbv beta in S3. apply N.eqb_eq in S3. exact S3.
Qed.

(* ---- JOYP: C0 | written[5:4] | the selected button lines (C22) ---- *)
Theorem joyp_run (h : list bop) : forall s s',
  forallb wf_bop h = true -> bus_run s h = Ok s' ->
  s_joy s' = match last_written 0xFF00 h with Some v => joy_write (s_joy s) v | None => s_joy s end.
Proof.
  induction h as [|o h IH] using rev_ind; intros s s' Hwf Hrun.
  - cbn in Hrun. inv_ok Hrun. reflexivity.
  - rewrite forallb_app in Hwf. apply andb_true_iff in Hwf. destruct Hwf as (Hwf & Ho).
    cbn [forallb] in Ho. rewrite andb_true_r in Ho.
    destruct (bus_run_snoc _ _ _ _ Hrun) as (s1 & H1 & H2).
    rewrite last_written_snoc. pose proof (IH s s1 Hwf H1) as I1.
    destruct o as [a|a v|]; cbn [bus_step wf_bop] in *.
    + apply bind_ok in H2. destruct H2 as ([s2 v2] & Hrd & H2). inv_ok H2. cbn [fst].
      destruct (sys_read_state _ _ _ _ Hrd) as [->|(o' & _ & ->)]; sysf; exact I1.
    + apply N.ltb_lt in Ho. destruct (a =? 0xFF00) eqn:E.
      * apply N.eqb_eq in E. subst a. change 0xFF00 with (reg_addr R_JOYP) in H2. rewrite write_reg in H2. inv_ok H2.
        cbn [reg_write]. sysf. rewrite I1. destruct (last_written 65280 h); reflexivity.
      * apply N.eqb_neq in E.
        assert (X : same_comp KJoy s1 s').
        { eapply write_comp; [exact H2 | | intros _; discriminate].
          pose proof (decode_write_ok a Ho) as Ew. pose proof (region_inv a Ho) as Ra. rewrite Ew.
          destruct (spec_region a); cbn [handler_of comp_of]; try discriminate.
          destruct r; cbn [comp_of_reg]; try discriminate. exfalso. apply E. exact Ra. }
        cbn [same_comp] in X. rewrite X. exact I1.
    + rewrite (hr_joy _ _ (hw_cycle_rel _ _ H2)). exact I1.
Qed.

Definition joy_check (v : N) : bool :=
  forallb (fun low => (N.land (N.lor (N.lor (N.land v 48) low) 192) 0x30 =? N.land v 0x30)
                      && (N.land (N.lor (N.lor (N.land v 48) low) 192) 0xC0 =? 0xC0)) nibbles.
Lemma joy_sweep : forallb joy_check bytes = true.
Proof. vm_compute. reflexivity. Qed.

Lemma land15_lt x : N.land 15 x < 16.
Proof. rewrite N.land_comm. change 15 with (N.ones 4). rewrite N.land_ones. apply N.mod_lt. discriminate. Qed.

Theorem joyp_register s h s' v :
  forallb wf_bop h = true -> bus_run s h = Ok s' -> last_written 0xFF00 h = Some v -> v < 256 ->
  exists x, peek s' 0xFF00 = Ok x /\ N.land x 0x30 = N.land v 0x30 /\ N.land x 0xC0 = 0xC0.
Proof.
  intros Hwf Hrun Hl Hv. pose proof (joyp_run h s s' Hwf Hrun) as I. rewrite Hl in I.
  change 0xFF00 with (reg_addr R_JOYP). rewrite peek_reg. eexists. split; [reflexivity|].
  cbn [reg_read]. rewrite I. unfold joy_read, joy_write. cbn [joyp dirIn btnIn]. cbv zeta.
  set (low := if N.land v 32 =? 0 then _ else _).
  assert (Hlow : low < 16).
  { subst low. destruct (N.land v 32 =? 0); destruct (N.land v 16 =? 0);
      try apply land15_lt; try lia.
    rewrite <- N.land_assoc. apply land15_lt. }
  pose proof (sweep_bytes _ joy_sweep v Hv) as S. unfold joy_check in S.
  pose proof (proj1 (forallb_forall _ _) S low (proj2 (In_nibbles low) Hlow)) as S2. cbv beta in S2.
  apply andb_true_iff in S2. destruct S2 as (S2 & S3). apply N.eqb_eq in S2, S3. split; assumption.
Qed.

(* ---- LY and DIV: the written value is ignored, the register reads 0 ---- *)
Theorem ly_write_zero s v :
  sys_write s 0xFF44 v = sys_write s 0xFF44 0 /\
  exists s', sys_write s 0xFF44 v = Ok s' /\ peek s' 0xFF44 = Ok 0.
Proof.
  change 0xFF44 with (reg_addr R_LY). rewrite !write_reg. split; [reflexivity|].
  eexists. split; [reflexivity|]. rewrite peek_reg. reflexivity.
Qed.

Theorem div_write_zero s v :
  sys_write s 0xFF04 v = sys_write s 0xFF04 0 /\
  exists s', sys_write s 0xFF04 v = Ok s' /\ peek s' 0xFF04 = Ok 0.
Proof.
  change 0xFF04 with (reg_addr R_DIV). rewrite !write_reg. split; [reflexivity|].
  eexists. split; [reflexivity|]. rewrite peek_reg. reflexivity.
Qed.

(* ---- the serial registers of this emulator read FF ---- *)
Theorem serial_reads_ff s : peek s 0xFF01 = Ok 255 /\ peek s 0xFF02 = Ok 255.
Proof.
  change 0xFF01 with (reg_addr R_SB). change 0xFF02 with (reg_addr R_SC). rewrite !peek_reg. split; reflexivity.
Qed.

(* a machine to exhibit things on: a 32 KiB ROM-only image *)
Definition demo_image : image :=
  mkImage 32768 (fun a => if a =? 327 then 0 else if a =? 328 then 0 else if a =? 329 then 0 else a mod 251).

(* from power-on *)
Lemma amem_run_point m m' h x : m x = m' x -> amem_run m h x = amem_run m' h x.
Proof.
  revert m m'. induction h as [|o h IH]; intros m m' E; [exact E|].
  cbn [amem_run fold_left]. apply IH. destruct o; cbn [amem_step]; try exact E.
  destruct (x =? canon a); [reflexivity | exact E].
Qed.

Theorem plain_memory_power_on img ser aud c s0 h s' a :
  sys_new img ser aud = Ok (c, s0) ->
  forallb wf_bop h = true -> bus_run s0 h = Ok s' -> a < 65536 -> is_plain a = true ->
  peek s' a = Ok (amem_run (fun _ => 0) h (canon a)).
Proof.
  intros Hn Hwf Hr Ha Hp. rewrite (plain_memory s0 h s' a Hwf Hr Ha Hp). f_equal.
  apply amem_run_point. destruct (new_abs _ _ _ _ _ Hn) as (_ & Z & _).
  apply Z. apply (canon_plain a Ha Hp).
Qed.

Theorem oam_memory_power_on img ser aud c s0 h s' a :
  sys_new img ser aud = Ok (c, s0) ->
  forallb wf_bop h = true -> no_dma_start h = true -> bus_run s0 h = Ok s' -> a < 65536 -> is_oam a = true ->
  peek s' a = Ok (amem_run (fun _ => 0) h a).
Proof.
  intros Hn Hwf Hnd Hr Ha Ho. destruct (new_abs _ _ _ _ _ Hn) as (D & _ & Z & _).
  rewrite (oam_memory s0 h s' a Hwf Hnd D Hr Ha Ho). f_equal. apply amem_run_point. apply Z.
Qed.

(* ---- statement-level packaging for Properties/C06.v ---- *)
Theorem decoder_ok a : a < 65536 ->
  read_handler a = handler_of (spec_region a) /\ write_handler a = handler_of (spec_region a).
Proof. intros H. split; [exact (decode_read_ok a H) | exact (decode_write_ok a H)]. Qed.

Theorem dma_readback s h s' v :
  forallb wf_bop h = true -> bus_run s h = Ok s' -> last_written 0xFF46 h = Some v -> v < 256 ->
  peek s' 0xFF46 = Ok v.
Proof.
  intros Hwf Hr Hl Hv. change 0xFF46 with (reg_addr R_DMA) in *.
  rewrite (register_masks R_DMA s h s' v 0xFF 0x00 eq_refl eq_refl Hwf Hr Hl Hv). f_equal.
  rewrite N.lor_0_r. change 0xFF with (N.ones 8). rewrite N.land_ones. apply N.mod_small. exact Hv.
Qed.

Theorem unmapped_ff_ignored s a v :
  a < 65536 -> is_unmapped a = true -> peek s a = Ok 255 /\ sys_write s a v = Ok s.
Proof. intros Ha Hu. split; [exact (unmapped_reads_ff s a Ha Hu) | exact (unmapped_write s a v Ha Hu)]. Qed.

Theorem ly_div_not_writable s v :
  (sys_write s 0xFF44 v = sys_write s 0xFF44 0 /\ exists s', sys_write s 0xFF44 v = Ok s' /\ peek s' 0xFF44 = Ok 0) /\
  (sys_write s 0xFF04 v = sys_write s 0xFF04 0 /\ exists s', sys_write s 0xFF04 v = Ok s' /\ peek s' 0xFF04 = Ok 0).
Proof. split; [exact (ly_write_zero s v) | exact (div_write_zero s v)]. Qed.

Theorem power_on_wf img ser aud c s0 : sys_new img ser aud = Ok (c, s0) ->
  dma_idle s0 = true /\ ifl (s_ints s0) < 32 /\ p_mode (s_ppu s0) < 4.
Proof. intros H. destruct (new_abs _ _ _ _ _ H) as (A & _ & _ & B & C). repeat split; assumption. Qed.
