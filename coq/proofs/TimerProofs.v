(* TimerProofs.v — phase 1: the model of the UNREPAIRED timer.go does not refine TimerSpec; witnesses. *)
From V.lib Require Import Bits.
From V.model Require Import Timer.
From V.spec Require Import TimerSpec.

Definition op_of (o : top) : timer_op :=
  match o with
  | Tick => TTick | WDiv v => TWDiv v | WTima v => TWTima v | WTma v => TWTma v | WTac v => TWTac v
  end.

(* the full statement *)
Definition refines_stmt : Prop :=
  forall c0 ops, c0 < 65536 -> Forall wf_top ops ->
    timer_trace (timer_set_counter timer_init c0) (map op_of ops) = tspec_trace (tspec_init c0) ops.

Definition differs (c0 : N) (ops : list top) : Prop :=
  c0 < 65536 /\ Forall wf_top ops /\
  timer_trace (timer_set_counter timer_init c0) (map op_of ops) <> tspec_trace (tspec_init c0) ops.

(* (a) a DIV write in the cycle after an overflow loses the reload *)
Definition w_div := [WTac 5; WTima 255; WTma 119; Tick; Tick; Tick; Tick; WDiv 0; Tick; Tick; Tick].
Lemma refuted_div_after_overflow : differs 256 w_div.
Proof. split; [reflexivity|]. split; [repeat constructor|]. vm_compute. discriminate. Qed.

(* (b) before the first overflow endCycleB = 0: a TIMA write at counter 0xFFFC is ignored *)
Lemma refuted_tima_write_fffc : differs 65532 [WTima 5].
Proof. split; [reflexivity|]. split; [repeat constructor|]. vm_compute. discriminate. Qed.

(* (c) ... and a TMA write at counter 0 also loads TIMA *)
Lemma refuted_tma_write_0 : differs 0 [WTma 7].
Proof. split; [reflexivity|]. split; [repeat constructor|]. vm_compute. discriminate. Qed.

Lemma refines_refuted : ~ refines_stmt.
Proof.
  intros H. destruct refuted_tma_write_0 as (H1 & H2 & H3). apply H3, H; assumption.
Qed.

