(* TimerProofs.v — the model of timer.go refines TimerSpec for every schedule and every initial counter, by a
   simulation relation and induction over the operation list; history-level corollaries. *)
From V.lib Require Import Bits.
From Coq Require Import ZArith ZifyN ZifyNat ZifyBool.
From V.model Require Import Timer.
From V.spec Require Import TimerSpec.
From V.proofs Require Import TimerLemmas.

Definition op_of (o : top) : timer_op :=
  match o with
  | Tick => TTick | WDiv v => TWDiv v | WTima v => TWTima v | WTma v => TWTma v | WTac v => TWTac v
  end.

(* a fresh timer whose counter has been set to c0 *)
Definition timer_at (c0 : N) : timer := timer_set_counter timer_init c0.

(* ------------------------------------------------------------------------------------------------------ *)
(* simulation relation *)

Definition enc (p : phase) : N := match p with Running => 0 | Zeroed => 1 | Reloaded => 2 end.

Definition R (t : timer) (s : tspec) : Prop :=
  t_counter t = cnt s /\ cnt s < 65536 /\
  t_tima t = tima s /\ tima s < 256 /\
  t_tma t = tma s /\ tma s < 256 /\
  t_tac t < 256 /\ tac3 s = t_tac t mod 8 /\
  t_lastEdge t = sig_prev s /\
  t_phase t = enc (ph s).

Lemma R_init c0 : c0 < 65536 -> R (timer_at c0) (tspec_init c0).
Proof.
  intros Hc. unfold R, timer_at, timer_set_counter, timer_init, tspec_init.
  cbn [t_counter t_tima t_tma t_tac t_lastEdge t_phase cnt tima tma tac3 sig_prev ph enc].
  repeat split; try reflexivity; try lia.
Qed.

Ltac fields :=
  cbn [t_counter t_tima t_tma t_tac t_lastEdge t_phase cnt tima tma tac3 sig_prev ph enc fst snd] in *.

Lemma R_tick t s : R t s ->
  R (fst (timer_tick t)) (fst (tspec_tick s)) /\ snd (timer_tick t) = snd (tspec_tick s).
Proof.
  intros (Hc & Hcl & Ha & Hal & Hm & Hml & Htl & Ht3 & He & Hp).
  destruct t as [c tac a m e p]; destruct s as [sc sa sm st3 se sp]. fields. subst c a m st3 e p.
  unfold timer_tick, tspec_tick. fields.
  rewrite (edge_eq _ tac Htl). unfold add16.
  assert (Hc' : (sc + 4) mod 65536 < 65536) by (apply N.mod_lt; discriminate).
  set (c' := (sc + 4) mod 65536) in *. set (now := sig_of c' (tac mod 8)).
  unfold phase_overflow, phase_reload, phase_idle.
  destruct sp; cbn [enc N.eqb Pos.eqb]; destruct (se && negb now);
    match goal with
    | |- context [u8 (?x + 1) =? 0] =>
        rewrite (inc_wrap x) by assumption; destruct (x =? 255) eqn:Ex;
        [ apply N.eqb_eq in Ex | apply N.eqb_neq in Ex; rewrite (inc_nowrap x) by assumption ]
    | _ => idtac
    end;
    unfold R; fields; repeat split; try reflexivity; try assumption; try (unfold u8; lia).
Qed.

Lemma R_write t s o : wf_top o -> is_write o = true -> R t s ->
  R (fst (timer_step t (op_of o))) (tspec_write s o).
Proof.
  intros Hwf Hw (Hc & Hcl & Ha & Hal & Hm & Hml & Htl & Ht3 & He & Hp).
  destruct t as [c tac a m e p]; destruct s as [sc sa sm st3 se sp]. fields. subst c a m st3 e p.
  destruct o as [|v|v|v|v]; cbn [is_write] in Hw; try discriminate; cbn [wf_top] in Hwf;
    cbn [op_of timer_step fst]; unfold timer_write_div, timer_write_tima, timer_write_tma, timer_write_tac,
      timer_set_counter, tspec_write, phase_overflow, phase_reload, phase_idle; fields;
    destruct sp; cbn [enc N.eqb Pos.eqb]; unfold R; fields;
    repeat split; try reflexivity; try assumption; try lia.
Qed.

Lemma R_step t s o : wf_top o -> R t s ->
  R (fst (timer_step t (op_of o))) (fst (tspec_step s o)) /\
  snd (timer_step t (op_of o)) = snd (tspec_step s o).
Proof.
  intros Hwf HR. destruct o as [|v|v|v|v].
  - cbn [op_of timer_step tspec_step]. apply R_tick, HR.
  - split; [apply (R_write t s (WDiv v) Hwf eq_refl HR) | reflexivity].
  - split; [apply (R_write t s (WTima v) Hwf eq_refl HR) | reflexivity].
  - split; [apply (R_write t s (WTma v) Hwf eq_refl HR) | reflexivity].
  - split; [apply (R_write t s (WTac v) Hwf eq_refl HR) | reflexivity].
Qed.

(* related states read the same through the bus *)
Lemma obs_eq t s : R t s -> timer_obs t = tspec_obs s.
Proof.
  intros (Hc & Hcl & Ha & Hal & Hm & Hml & Htl & Ht3 & He & Hp).
  unfold timer_obs, tspec_obs, timer_read_div, timer_read_tima, timer_read_tma, timer_read_tac,
    tspec_div, tspec_tima, tspec_tma, tspec_tac.
  rewrite Hc, Ha, Hm, Ht3, (read_div_eq _ Hcl), (read_tac_eq _ Htl). reflexivity.
Qed.

Lemma trace_eq ops : forall t s, R t s -> Forall wf_top ops ->
  timer_trace t (map op_of ops) = tspec_trace s ops.
Proof.
  induction ops as [|o r IH]; intros t s HR Hwf; [reflexivity|].
  inversion Hwf as [|? ? Ho Hr]; subst.
  destruct (R_step t s o Ho HR) as [HR' Hirq].
  cbn [map timer_trace tspec_trace].
  destruct (timer_step t (op_of o)) as [t' i]; destruct (tspec_step s o) as [s' j]. fields. subst j.
  rewrite (obs_eq _ _ HR'), (IH t' s' HR' Hr). reflexivity.
Qed.

Lemma timer_run_cons t o r : timer_run t (o :: r) = timer_run (fst (timer_step t o)) r.
Proof. reflexivity. Qed.
Lemma tspec_run_cons s o r : tspec_run s (o :: r) = tspec_run (fst (tspec_step s o)) r.
Proof. reflexivity. Qed.

Lemma run_R ops : forall t s, R t s -> Forall wf_top ops ->
  R (timer_run t (map op_of ops)) (tspec_run s ops).
Proof.
  induction ops as [|o r IH]; intros t s HR Hwf; [exact HR|].
  inversion Hwf as [|? ? Ho Hr]; subst.
  cbn [map]. rewrite timer_run_cons, tspec_run_cons.
  apply IH; [apply R_step; assumption | assumption].
Qed.

(* C12_refines *)
Theorem timer_refines : forall c0 ops, c0 < 65536 -> Forall wf_top ops ->
  timer_trace (timer_at c0) (map op_of ops) = tspec_trace (tspec_init c0) ops.
Proof. intros c0 ops Hc Hwf. apply trace_eq; [apply R_init, Hc | exact Hwf]. Qed.

Lemma reach_R c0 ops : c0 < 65536 -> Forall wf_top ops ->
  R (timer_run (timer_at c0) (map op_of ops)) (tspec_run (tspec_init c0) ops).
Proof. intros Hc Hwf. apply run_R; [apply R_init, Hc | exact Hwf]. Qed.

(* ------------------------------------------------------------------------------------------------------ *)
(* DIV: closed form of the counter *)

Lemma tick_counter t : t_counter (fst (timer_tick t)) = add16 (t_counter t) 4.
Proof.
  unfold timer_tick.
  destruct (t_lastEdge t && negb _); [destruct (_ =? 0)|]; reflexivity.
Qed.

Lemma counter_run ops : forall t base n, t_counter t = (base + 4 * n) mod 65536 ->
  t_counter (timer_run t (map op_of ops)) = let '(b, k) := since_div ops base n in (b + 4 * k) mod 65536.
Proof.
  induction ops as [|o r IH]; intros t base n Ht; [exact Ht|].
  cbn [map]. rewrite timer_run_cons.
  destruct o as [|v|v|v|v]; cbn [op_of timer_step fst since_div]; apply IH.
  - rewrite tick_counter, Ht. unfold add16. lia.
  - reflexivity.
  - unfold timer_write_tima. destruct (t_phase t =? phase_reload); exact Ht.
  - exact Ht.
  - exact Ht.
Qed.

Theorem div_closed_form : forall c0 ops, c0 < 65536 ->
  t_counter (timer_run (timer_at c0) (map op_of ops)) = divider_after c0 ops /\
  timer_read_div (timer_run (timer_at c0) (map op_of ops)) = divider_after c0 ops / 256.
Proof.
  intros c0 ops Hc.
  assert (H : t_counter (timer_run (timer_at c0) (map op_of ops)) = divider_after c0 ops).
  { unfold divider_after. apply counter_run. cbn [timer_at timer_set_counter t_counter].
    rewrite N.mod_small; lia. }
  split; [exact H|].
  unfold timer_read_div. rewrite H. apply read_div_eq.
  unfold divider_after. destruct (since_div ops c0 0). apply N.mod_lt. discriminate.
Qed.

(* ------------------------------------------------------------------------------------------------------ *)
(* the sampled signal is a function of the schedule *)

Lemma tick_signal_fields s :
  cnt (fst (tspec_tick s)) = (cnt s + 4) mod 65536 /\
  tac3 (fst (tspec_tick s)) = tac3 s /\
  sig_prev (fst (tspec_tick s)) = sig_of ((cnt s + 4) mod 65536) (tac3 s).
Proof.
  unfold tspec_tick. destruct (sig_prev s && negb _); [destruct (_ =? 255)|]; repeat split.
Qed.

Lemma signal_run ops : forall s,
  signal_walk ops (cnt s) (tac3 s) (sig_prev s) =
  (cnt (tspec_run s ops), tac3 (tspec_run s ops), sig_prev (tspec_run s ops)).
Proof.
  induction ops as [|o r IH]; intros s; [reflexivity|].
  rewrite tspec_run_cons, <- IH.
  destruct o as [|v|v|v|v]; cbn [signal_walk tspec_step fst].
  - destruct (tick_signal_fields s) as (H1 & H2 & H3). rewrite H1, H2, H3. reflexivity.
  - reflexivity.
  - cbn [tspec_write]. destruct (ph s); reflexivity.
  - cbn [tspec_write]. destruct (ph s); reflexivity.
  - reflexivity.
Qed.

Lemma signal_walk_app a b : forall c t3 smp,
  signal_walk (a ++ b) c t3 smp = let '(c', t3', smp') := signal_walk a c t3 smp in signal_walk b c' t3' smp'.
Proof.
  induction a as [|o r IH]; intros c t3 smp; [reflexivity|].
  destruct o; cbn [app signal_walk]; apply IH.
Qed.

(* TIMA increments exactly on a falling edge of the sampled signal; the increment that wraps is the interrupt *)
Theorem falling_edge_increment : forall c0 ops, c0 < 65536 -> Forall wf_top ops ->
  let t := timer_run (timer_at c0) (map op_of ops) in
  let falling := sampled c0 ops && negb (sampled c0 (ops ++ [Tick])) in
  let base := if t_phase t =? phase_overflow then timer_read_tma t else timer_read_tima t in
  timer_read_tima (fst (timer_tick t)) = u8 (base + b2n falling) /\
  snd (timer_tick t) = falling && (base =? 255).
Proof.
  intros c0 ops Hc Hwf t falling base.
  pose proof (reach_R c0 ops Hc Hwf) as HR. fold t in HR.
  set (s := tspec_run (tspec_init c0) ops) in *.
  pose proof (signal_run ops (tspec_init c0)) as Hs. fold s in Hs.
  cbn [tspec_init cnt tac3 sig_prev] in Hs.
  assert (Hf : falling = sig_prev s && negb (sig_of ((cnt s + 4) mod 65536) (tac3 s))).
  { subst falling. unfold sampled. rewrite signal_walk_app, Hs. reflexivity. }
  destruct HR as (Hcn & Hcl & Ha & Hal & Hm & Hml & Htl & Ht3 & He & Hp).
  subst base. unfold timer_read_tma, timer_read_tima, timer_tick.
  rewrite (edge_eq _ (t_tac t) Htl), <- Ht3, He. unfold add16. rewrite Hcn, <- Hf.
  rewrite Ha, Hm in *.
  destruct (t_phase t =? phase_overflow); destruct falling; cbn [b2n andb];
    match goal with
    | |- context [u8 (?x + 1) =? 0] =>
        rewrite (inc_wrap x) by assumption; destruct (x =? 255); cbn [fst snd t_tima]; split; reflexivity
    | _ => cbn [fst snd t_tima]; rewrite N.add_0_r, u8_id by assumption; split; reflexivity
    end.
Qed.

(* ------------------------------------------------------------------------------------------------------ *)
(* the overflow / reload window, for EVERY timer state in which a cycle end overflows *)

Definition all_writes (ws : list top) : Prop := forallb is_write ws = true.

Lemma all_writes_cons o r : all_writes (o :: r) -> is_write o = true /\ all_writes r.
Proof. unfold all_writes. cbn [forallb]. intros H. apply andb_true_iff in H. exact H. Qed.

Lemma tick_overflows t t1 : timer_tick t = (t1, true) ->
  t_tima t1 = 0 /\ t_phase t1 = phase_overflow /\ t_lastEdge t1 = false.
Proof.
  unfold timer_tick.
  destruct (t_lastEdge t && negb _) eqn:E; [destruct (_ =? 0) eqn:E0|]; intros H; inversion H; subst; clear H.
  cbn [t_tima t_phase t_lastEdge]. apply N.eqb_eq in E0.
  apply andb_true_iff in E. destruct E as [_ E]. apply negb_true_iff in E.
  repeat split; assumption.
Qed.

(* a cycle end with the edge detector low: no increment, no interrupt; a pending reload happens *)
Lemma tick_low t : t_lastEdge t = false ->
  snd (timer_tick t) = false /\
  t_tima (fst (timer_tick t)) = (if t_phase t =? phase_overflow then t_tma t else t_tima t) /\
  t_tma (fst (timer_tick t)) = t_tma t /\
  t_phase (fst (timer_tick t)) =
    (if t_phase t =? phase_overflow then phase_reload
     else if t_phase t =? phase_reload then phase_idle else t_phase t).
Proof. intros H. unfold timer_tick. rewrite H. cbn [andb fst snd t_tima t_tma t_phase]. repeat split. Qed.

(* after the reload cycle ends the timer is never in the reload phase *)
Lemma tick_from_reload t : t_phase t = phase_reload -> t_phase (fst (timer_tick t)) <> phase_reload.
Proof.
  intros H. unfold timer_tick. rewrite H. unfold phase_reload, phase_overflow, phase_idle. cbn [N.eqb Pos.eqb].
  destruct (t_lastEdge t && negb _); [destruct (_ =? 0)|]; cbn [fst t_phase]; discriminate.
Qed.

(* writes of the overflow cycle other than TIMA writes: TIMA keeps reading 0, the reload stays pending *)
Lemma writes_overflow_cycle ws : forall t, all_writes ws -> last_wtima ws = None ->
  t_phase t = phase_overflow ->
  t_phase (timer_run t (map op_of ws)) = phase_overflow /\ t_tima (timer_run t (map op_of ws)) = t_tima t /\ t_lastEdge (timer_run t (map op_of ws)) = t_lastEdge t.
Proof.
  induction ws as [|o r IH]; intros t Hw Hl Hp; [cbn; auto|].
  apply all_writes_cons in Hw. destruct Hw as [Ho Hr].
  cbn [last_wtima] in Hl. destruct (last_wtima r) eqn:El; [discriminate|].
  cbn [map]. rewrite timer_run_cons.
  destruct o as [|v|v|v|v]; try discriminate; cbn [op_of timer_step fst].
  - destruct (IH (timer_write_div t v) Hr eq_refl Hp) as (A & B & C). auto.
  - assert (Hp' : t_phase (timer_write_tma t v) = phase_overflow) by exact Hp.
    destruct (IH (timer_write_tma t v) Hr eq_refl Hp') as (A & B & C).
    repeat split; [exact A| |exact C].
    rewrite B. unfold timer_write_tma. cbn [t_tima]. rewrite Hp. reflexivity.
  - destruct (IH (timer_write_tac t v) Hr eq_refl Hp) as (A & B & C). auto.
Qed.

(* writes of the reload cycle: TIMA writes are ignored, TMA writes also load TIMA *)
Lemma writes_reload_cycle ws : forall t, all_writes ws -> t_phase t = phase_reload ->
  t_phase (timer_run t (map op_of ws)) = phase_reload /\
  t_tima (timer_run t (map op_of ws)) = (match last_wtma ws with Some v => v | None => t_tima t end).
Proof.
  induction ws as [|o r IH]; intros t Hw Hp; [cbn; auto|].
  apply all_writes_cons in Hw. destruct Hw as [Ho Hr].
  cbn [map last_wtma]. rewrite timer_run_cons.
  destruct o as [|v|v|v|v]; try discriminate; cbn [op_of timer_step fst].
  - destruct (IH (timer_write_div t v) Hr Hp) as (A & B). split; [exact A|].
    rewrite B. destruct (last_wtma r); reflexivity.
  - assert (E : timer_write_tima t v = t) by (unfold timer_write_tima; rewrite Hp; reflexivity).
    rewrite E. destruct (IH t Hr Hp) as (A & B). split; [exact A|].
    rewrite B. destruct (last_wtma r); reflexivity.
  - assert (Hp' : t_phase (timer_write_tma t v) = phase_reload) by exact Hp.
    destruct (IH (timer_write_tma t v) Hr Hp') as (A & B). split; [exact A|].
    rewrite B. destruct (last_wtma r); [reflexivity|].
    unfold timer_write_tma. cbn [t_tima]. rewrite Hp. reflexivity.
  - destruct (IH (timer_write_tac t v) Hr Hp) as (A & B). split; [exact A|].
    rewrite B. destruct (last_wtma r); reflexivity.
Qed.

(* once idle, writes keep the timer idle *)
Lemma writes_idle ws : forall t, all_writes ws -> t_phase t = phase_idle ->
  t_phase (timer_run t (map op_of ws)) = phase_idle.
Proof.
  induction ws as [|o r IH]; intros t Hw Hi; [exact Hi|].
  apply all_writes_cons in Hw. destruct Hw as [Ho Hr].
  cbn [map]. rewrite timer_run_cons. apply (IH _ Hr).
  destruct o as [|w|w|w|w]; try discriminate; cbn [op_of timer_step fst]; try exact Hi.
  unfold timer_write_tima. rewrite Hi. reflexivity.
Qed.

(* writes of any other cycle: TIMA writes take effect (and cancel a pending reload), TMA writes leave TIMA *)
Lemma writes_other_cycle ws : forall t, all_writes ws -> t_phase t <> phase_reload ->
  t_phase (timer_run t (map op_of ws)) <> phase_reload /\
  t_tima (timer_run t (map op_of ws)) = (match last_wtima ws with Some v => v | None => t_tima t end) /\
  t_lastEdge (timer_run t (map op_of ws)) = t_lastEdge t /\
  (last_wtima ws <> None -> t_phase t = phase_overflow -> t_phase (timer_run t (map op_of ws)) = phase_idle).
Proof.
  induction ws as [|o r IH]; intros t Hw Hp; [cbn; repeat split; auto; congruence|].
  apply all_writes_cons in Hw. destruct Hw as [Ho Hr].
  cbn [map last_wtima]. rewrite timer_run_cons.
  destruct o as [|v|v|v|v]; try discriminate; cbn [op_of timer_step fst].
  - destruct (IH (timer_write_div t v) Hr Hp) as (A & B & C & D). repeat split; [exact A| |exact C|].
    + rewrite B. destruct (last_wtima r); reflexivity.
    + intros Hl Ho'. apply D; [destruct (last_wtima r); congruence | exact Ho'].
  - assert (Hn : (t_phase t =? phase_reload) = false) by (apply N.eqb_neq; exact Hp).
    set (t1 := timer_write_tima t v).
    assert (Hp1 : t_phase t1 <> phase_reload).
    { subst t1. unfold timer_write_tima. rewrite Hn. cbn [t_phase].
      destruct (t_phase t =? phase_overflow); [discriminate | exact Hp]. }
    assert (Ha1 : t_tima t1 = v) by (subst t1; unfold timer_write_tima; rewrite Hn; reflexivity).
    assert (He1 : t_lastEdge t1 = t_lastEdge t) by (subst t1; unfold timer_write_tima; rewrite Hn; reflexivity).
    assert (Hi1 : t_phase t = phase_overflow -> t_phase t1 = phase_idle).
    { intros Ho'. subst t1. unfold timer_write_tima. rewrite Hn. cbn [t_phase]. rewrite Ho'. reflexivity. }
    destruct (IH t1 Hr Hp1) as (A & B & C & D). repeat split; [exact A| | congruence |].
    + rewrite B, Ha1. destruct (last_wtima r); reflexivity.
    + intros _ Ho'. specialize (Hi1 Ho').
      apply writes_idle; assumption.
  - assert (Hn : (t_phase t =? phase_reload) = false) by (apply N.eqb_neq; exact Hp).
    assert (Hp' : t_phase (timer_write_tma t v) <> phase_reload) by exact Hp.
    destruct (IH (timer_write_tma t v) Hr Hp') as (A & B & C & D). repeat split; [exact A| |exact C|].
    + rewrite B. destruct (last_wtima r); [reflexivity|].
      unfold timer_write_tma. cbn [t_tima]. rewrite Hn. reflexivity.
    + intros Hl Ho'. apply D; [destruct (last_wtima r); congruence | exact Ho'].
  - destruct (IH (timer_write_tac t v) Hr Hp) as (A & B & C & D). repeat split; [exact A| |exact C|].
    + rewrite B. destruct (last_wtima r); reflexivity.
    + intros Hl Ho'. apply D; [destruct (last_wtima r); congruence | exact Ho'].
Qed.

(* C12_reload_window.  t0 is ANY timer state (any counter, any registers) whose cycle end overflows; w1, w2, w3
   are the bus writes of the following three machine cycles, including any number of DIV and TAC writes. *)
Definition reload_window_stmt : Prop :=
  forall t0 t1, timer_tick t0 = (t1, true) ->
  (* TIMA reads 0 after the overflow *)
  timer_read_tima t1 = 0 /\
  (* (A) no TIMA write in the overflow cycle *)
  (forall w1, all_writes w1 -> last_wtima w1 = None ->
     let t1' := timer_run t1 (map op_of w1) in
     let t2 := fst (timer_tick t1') in
     timer_read_tima t1' = 0 /\                                   (* still 0 at the end of that cycle's writes *)
     snd (timer_tick t1') = false /\                              (* no second interrupt request *)
     timer_read_tima t2 = timer_read_tma t1' /\                   (* then reloaded from TMA as it is then *)
     (forall w2, all_writes w2 ->
        let t2' := timer_run t2 (map op_of w2) in
        let t3 := fst (timer_tick t2') in
        (* reload cycle: TIMA writes ignored, TMA writes also load TIMA *)
        timer_read_tima t2' = (match last_wtma w2 with Some v => v | None => timer_read_tima t2 end) /\
        (* the cycle after: TIMA writes take effect again, TMA writes leave TIMA alone *)
        (forall w3, all_writes w3 ->
           timer_read_tima (timer_run t3 (map op_of w3)) =
           (match last_wtima w3 with Some v => v | None => timer_read_tima t3 end)))) /\
  (* (B) a TIMA write in the overflow cycle cancels the reload *)
  (forall w1 v, all_writes w1 -> last_wtima w1 = Some v ->
     let t1' := timer_run t1 (map op_of w1) in
     let t2 := fst (timer_tick t1') in
     timer_read_tima t1' = v /\
     snd (timer_tick t1') = false /\
     timer_read_tima t2 = v /\                                    (* not reloaded *)
     (forall w2, all_writes w2 ->                                  (* and no reload cycle follows *)
        timer_read_tima (timer_run t2 (map op_of w2)) =
        (match last_wtima w2 with Some u => u | None => v end))).

Theorem reload_window : reload_window_stmt.
Proof.
  intros t0 t1 Hov. destruct (tick_overflows t0 t1 Hov) as (Ha1 & Hp1 & He1).
  unfold timer_read_tima, timer_read_tma. split; [exact Ha1|]. split.
  - intros w1 Hw1 Hl1.
    set (t1' := timer_run t1 (map op_of w1)). set (t2 := fst (timer_tick t1')).
    destruct (writes_overflow_cycle w1 t1 Hw1 Hl1 Hp1) as (Hp1' & Ha1' & He1'). fold t1' in Hp1', Ha1', He1'.
    rewrite He1 in He1'. destruct (tick_low t1' He1') as (Hi & Ha2 & _ & Hp2). fold t2 in Ha2, Hp2.
    rewrite Hp1' in Ha2, Hp2. cbn [phase_overflow N.eqb Pos.eqb] in Ha2, Hp2.
    split; [congruence|]. split; [exact Hi|]. split; [exact Ha2|].
    intros w2 Hw2.
    set (t2' := timer_run t2 (map op_of w2)). set (t3 := fst (timer_tick t2')).
    destruct (writes_reload_cycle w2 t2 Hw2 Hp2) as (Hp2' & Ha2'). fold t2' in Hp2', Ha2'.
    split; [exact Ha2'|].
    intros w3 Hw3. pose proof (tick_from_reload t2' Hp2') as Hp3. fold t3 in Hp3.
    destruct (writes_other_cycle w3 t3 Hw3 Hp3) as (_ & Ha3 & _). exact Ha3.
  - intros w1 v Hw1 Hl1.
    set (t1' := timer_run t1 (map op_of w1)). set (t2 := fst (timer_tick t1')).
    assert (Hn1 : t_phase t1 <> phase_reload) by (rewrite Hp1; discriminate).
    destruct (writes_other_cycle w1 t1 Hw1 Hn1) as (_ & Ha1' & He1' & Hid). fold t1' in Ha1', He1', Hid.
    rewrite Hl1 in Ha1'. rewrite He1 in He1'.
    assert (Hp1' : t_phase t1' = phase_idle) by (apply Hid; [rewrite Hl1; discriminate | exact Hp1]).
    destruct (tick_low t1' He1') as (Hi & Ha2 & _ & Hp2). fold t2 in Ha2, Hp2.
    rewrite Hp1' in Ha2, Hp2. cbn [phase_idle phase_overflow phase_reload N.eqb] in Ha2, Hp2.
    split; [exact Ha1'|]. split; [exact Hi|]. split; [congruence|].
    intros w2 Hw2.
    assert (Hn2 : t_phase t2 <> phase_reload) by (rewrite Hp2; discriminate).
    destruct (writes_other_cycle w2 t2 Hw2 Hn2) as (_ & Ha2' & _). rewrite Ha2', Ha2, Ha1'. reflexivity.
Qed.

(* ------------------------------------------------------------------------------------------------------ *)
(* interrupts *)

Lemma tick_irq_wraps s : snd (tspec_tick s) = wraps s.
Proof.
  unfold tspec_tick, wraps.
  destruct (sig_prev s && negb _); [destruct (_ =? 255)|]; reflexivity.
Qed.

Lemma irq_count_spec ops : forall s, irq_count (tspec_trace s ops) = overflow_count s ops.
Proof.
  induction ops as [|o r IH]; intros s; [reflexivity|].
  cbn [tspec_trace overflow_count].
  destruct o as [|v|v|v|v]; cbn [tspec_step].
  - pose proof (tick_irq_wraps s) as Hw. destruct (tspec_tick s) as [s' j]. cbn [snd fst] in *. subst j.
    cbn [irq_count]. rewrite IH. reflexivity.
  - cbn [irq_count fst b2n]. rewrite IH. reflexivity.
  - cbn [irq_count fst b2n]. rewrite IH. reflexivity.
  - cbn [irq_count fst b2n]. rewrite IH. reflexivity.
  - cbn [irq_count fst b2n]. rewrite IH. reflexivity.
Qed.

(* exactly one interrupt request per overflow, over a whole schedule *)
Theorem one_irq_per_overflow : forall c0 ops, c0 < 65536 -> Forall wf_top ops ->
  irq_count (timer_trace (timer_at c0) (map op_of ops)) = overflow_count (tspec_init c0) ops.
Proof. intros c0 ops Hc Hwf. rewrite (timer_refines c0 ops Hc Hwf). apply irq_count_spec. Qed.
