(* JoypadProofs.v — the controller model refines JoypadSpec for every event history. *)
From V.lib Require Import Bits.
From V.model Require Import Joypad.
From V.spec Require Import JoypadSpec.

Definition code_of (b : button) : N :=
  match b with
  | Up => 0 | Down => 1 | Left => 2 | Right => 3
  | BtnA => 4 | BtnB => 5 | Start => 6 | Select => 7
  end.

Definition op_of (e : event) : joy_op :=
  match e with
  | Press b => JButton (code_of b) true
  | Release b => JButton (code_of b) false
  | WriteSel v => JWrite v
  end.

(* abstraction: the two input nibbles encode "held" with 0 = held *)
Definition enc_dir (h : button -> bool) : N :=
  8 * b2n (negb (h Down)) + 4 * b2n (negb (h Up)) + 2 * b2n (negb (h Left)) + b2n (negb (h Right)).
Definition enc_btn (h : button -> bool) : N :=
  8 * b2n (negb (h Start)) + 4 * b2n (negb (h Select)) + 2 * b2n (negb (h BtnB)) + b2n (negb (h BtnA)).

Definition R (j : joy) (s : jspec) : Prop :=
  joyp j = sel s /\ dirIn j = enc_dir (held s) /\ btnIn j = enc_btn (held s).

Lemma R_init : R joy_init jspec_init.
Proof. repeat split. Qed.

Lemma R_step j s e : R j s -> R (joy_step j (op_of e)) (jspec_step s e).
Proof.
  intros (Hp & Hd & Hb).
  destruct e as [b|b|v].
  - destruct b; unfold R; cbn [op_of code_of joy_step joy_button jspec_step held sel joyp dirIn btnIn];
      rewrite ?Hp, ?Hd, ?Hb; unfold enc_dir, enc_btn; cbn [button_eqb opposite];
      (split; [reflexivity|]);
      destruct (held s Up), (held s Down), (held s Left), (held s Right),
               (held s BtnA), (held s BtnB), (held s Start), (held s Select); split; reflexivity.
  - destruct b; unfold R; cbn [op_of code_of joy_step joy_button jspec_step held sel joyp dirIn btnIn];
      rewrite ?Hp, ?Hd, ?Hb; unfold enc_dir, enc_btn; cbn [button_eqb opposite];
      (split; [reflexivity|]);
      destruct (held s Up), (held s Down), (held s Left), (held s Right),
               (held s BtnA), (held s BtnB), (held s Start), (held s Select); split; reflexivity.
  - unfold R; cbn; auto.
Qed.

Lemma R_run h : R (joy_run (map op_of h)) (jspec_run h).
Proof.
  unfold joy_run, jspec_run.
  generalize R_init. generalize joy_init, jspec_init.
  induction h as [|e h IH]; intros j s HR; cbn [map fold_left]; [exact HR|].
  apply IH. apply R_step. exact HR.
Qed.

(* the read function agrees with the bit-by-bit spec on every related pair: finite sweep over the
   select byte and the eight held flags *)
Definition mk_held (u d l r a b st se : bool) : button -> bool :=
  fun x => match x with
           | Up => u | Down => d | Left => l | Right => r
           | BtnA => a | BtnB => b | Start => st | Select => se
           end.

Definition read_check (v : N) : bool :=
  forallb (fun u => forallb (fun d => forallb (fun l => forallb (fun r =>
  forallb (fun a => forallb (fun b => forallb (fun st => forallb (fun se =>
    let h := mk_held u d l r a b st se in
    joy_read (mkJoy v (enc_dir h) (enc_btn h)) =? jspec_read (mkJSpec h v))
  bools) bools) bools) bools) bools) bools) bools) bools.

Lemma read_sweep : forallb read_check bytes = true.
Proof. vm_compute. reflexivity. Qed.

Lemma held_eta (h : button -> bool) :
  forall x, h x = mk_held (h Up) (h Down) (h Left) (h Right) (h BtnA) (h BtnB) (h Start) (h Select) x.
Proof. destruct x; reflexivity. Qed.

Lemma enc_dir_ext h h' : (forall x, h x = h' x) -> enc_dir h = enc_dir h'.
Proof. intros E; unfold enc_dir; rewrite !E; reflexivity. Qed.
Lemma enc_btn_ext h h' : (forall x, h x = h' x) -> enc_btn h = enc_btn h'.
Proof. intros E; unfold enc_btn; rewrite !E; reflexivity. Qed.
Lemma jspec_read_ext h h' v : (forall x, h x = h' x) -> jspec_read (mkJSpec h v) = jspec_read (mkJSpec h' v).
Proof.
  intros E; unfold jspec_read, line_low, dirs_selected, btns_selected; cbn [held sel].
  rewrite !E; reflexivity.
Qed.

Lemma read_related j s : sel s < 256 -> R j s -> joy_read j = jspec_read s.
Proof.
  intros Hv (Hp & Hd & Hb).
  destruct j as [p d b]; destruct s as [h v]; cbn [joyp dirIn btnIn held sel] in *; subst p d b.
  rewrite (enc_dir_ext h _ (held_eta h)), (enc_btn_ext h _ (held_eta h)), (jspec_read_ext h _ v (held_eta h)).
  generalize (h Up) (h Down) (h Left) (h Right) (h BtnA) (h BtnB) (h Start) (h Select).
  intros u dn l r a bb st se.
  pose proof (sweep_bytes _ read_sweep v Hv) as G. unfold read_check in G.
  pose proof (sweep_bool _ G u) as G1; cbv beta in G1.
  pose proof (sweep_bool _ G1 dn) as G2; cbv beta in G2.
  pose proof (sweep_bool _ G2 l) as G3; cbv beta in G3.
  pose proof (sweep_bool _ G3 r) as G4; cbv beta in G4.
  pose proof (sweep_bool _ G4 a) as G5; cbv beta in G5.
  pose proof (sweep_bool _ G5 bb) as G6; cbv beta in G6.
  pose proof (sweep_bool _ G6 st) as G7; cbv beta in G7.
  pose proof (sweep_bool _ G7 se) as G8; cbv beta in G8.
  apply N.eqb_eq in G8. exact G8.
Qed.

(* well-formed histories: select writes carry a byte *)
Definition wf_event (e : event) : Prop := match e with WriteSel v => v < 256 | _ => True end.

Lemma sel_run_lt h : Forall wf_event h -> sel (jspec_run h) < 256.
Proof.
  unfold jspec_run.
  assert (H0 : sel jspec_init < 256) by (cbn; lia).
  revert H0. generalize jspec_init.
  induction h as [|e h IH]; intros s Hs Hwf; cbn [fold_left]; [exact Hs|].
  inversion Hwf as [|? ? He Hh]; subst.
  apply IH; [|exact Hh].
  destruct e; cbn [jspec_step sel]; auto.
Qed.

Theorem joy_refines h :
  Forall wf_event h -> joy_read (joy_run (map op_of h)) = jspec_read (jspec_run h).
Proof.
  intros Hwf. apply read_related; [apply sel_run_lt; exact Hwf | apply R_run].
Qed.

(* opposite directions are never held together, for every history *)
Definition no_opp (s : jspec) : Prop :=
  (held s Up && held s Down = false) /\ (held s Left && held s Right = false).

Lemma no_opp_step s e : no_opp s -> no_opp (jspec_step s e).
Proof.
  intros (H1 & H2). destruct e as [b|b|v]; [destruct b | destruct b |];
    unfold no_opp; cbn [jspec_step held button_eqb opposite];
    destruct (held s Up), (held s Down), (held s Left), (held s Right); cbn in *; auto.
Qed.

Theorem no_opposites_spec h : no_opp (jspec_run h).
Proof.
  unfold jspec_run.
  assert (H0 : no_opp jspec_init) by (split; reflexivity).
  revert H0; generalize jspec_init.
  induction h as [|e h IH]; intros s Hs; cbn [fold_left]; [exact Hs|].
  apply IH, no_opp_step, Hs.
Qed.

(* ... and therefore the register never shows both of a pair low, whatever is selected *)
Theorem no_opposites_read h :
  Forall wf_event h ->
  let v := joy_read (joy_run (map op_of h)) in
  (N.testbit v 2 || N.testbit v 3 = true) \/ btns_selected (jspec_run h) = true.
Proof.
  intros Hwf v. subst v. rewrite (joy_refines h Hwf).
  destruct (no_opposites_spec h) as (H1 & _).
  set (s := jspec_run h) in *.
  unfold jspec_read, line_low. cbn [dir_of_line btn_of_line].
  destruct (btns_selected s) eqn:Eb; [right; reflexivity|left].
  destruct (dirs_selected s), (held s Up), (held s Down); cbn in H1; try discriminate;
    cbn [andb orb negb b2n];
    destruct (N.testbit (sel s) 5), (N.testbit (sel s) 4),
             (held s Left), (held s Right); cbn [andb orb negb b2n]; vm_compute; reflexivity.
Qed.
