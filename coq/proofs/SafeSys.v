(* SafeSys.v — C11, whole machine: the CPU model over the real bus.  The system invariant [Safe] holds after the
   first machine cycle from power-on and is preserved by every machine cycle (runFrame's loop body in its generated
   order); a cycle yields Exit only while the micro-program of an undefined opcode is running, and never Crash. *)
From Coq Require Import FMapPositive.
From V.lib Require Import Bits Mem Res.
From V.model Require Import Uop Alu Cpu CpuTables Ints Joypad Timer Rtc Cart Oam PpuTiming Apu MapperTypes System.
From V.gen Require Import GenMapper GenFrame GenDispatch.
From V.spec Require LcdSpec.
From V.proofs Require Import SafeLemmas SafeApu SafeOam SafeCart SafeBus SafeCpu CartSafe DmaProofs LcdLemmas LcdProofs OamProofs.
From Coq Require Import ZArith ZifyN ZifyNat ZifyBool.

(* ---------------- what a bus write leaves alone ---------------- *)
Definition dww (o : oam) : Prop := o_doubleWrite o = true -> o_write o = true.

Lemma flags_off_dww o : flags_off o -> dww o.
Proof. intros (_ & _ & H) X. rewrite H in X. discriminate. Qed.

Record write_frame (s : sys) (a : N) (s' : sys) : Prop := mkWF {
  WF_crash : s_crash s' = s_crash s;
  WF_pla : o_ppuLastAccess (s_oam s') = o_ppuLastAccess (s_oam s);
  WF_dww : dww (s_oam s) -> dww (s_oam s');
  WF_flags : ~ (0xFE00 <= a /\ a <= 0xFEFF) -> oam_flags_eq (s_oam s) (s_oam s');
  WF_lcd : a <> 0xFF40 -> p_enabled (s_ppu s') = p_enabled (s_ppu s);
  WF_cor : a <> 0xFF40 -> o_corrupt (s_oam s') = o_corrupt (s_oam s);
  WF_mem : forall i, 0xFE00 + i <> a -> Mem.get (o_mem (s_oam s')) i = Mem.get (o_mem (s_oam s)) i;
  WF_flags_closed : o_corrupt (s_oam s) = false -> oam_flags_eq (s_oam s) (s_oam s')
}.

Lemma wf_same_oam_ppu s a s' :
  s_crash s' = s_crash s -> s_oam s' = s_oam s -> s_ppu s' = s_ppu s -> write_frame s a s'.
Proof. intros E1 E2 E3. constructor; rewrite ?E1, ?E2, ?E3; auto; intros _; repeat split. Qed.

Lemma lcdc_oam_frame p o v :
  let o' := snd (ppu_write_lcdc p o v) in
  o_ppuLastAccess o' = o_ppuLastAccess o /\ oam_flags_eq o o' /\ o_mem o' = o_mem o.
Proof.
  unfold ppu_write_lcdc, ppu_enable, ppu_disable, oam_enter_mode2, oam_exit_mode2.
  destruct (tb v 128 && negb (p_enabled p)); [|destruct (negb (tb v 128) && p_enabled p)]; cbn; repeat split.
Qed.

Lemma reg_write_frame r s v a : a = reg_addr r -> write_frame s a (reg_write r s v).
Proof.
  intros Ea.
  destruct r; cbn [reg_write]; unfold apu_w, ppu_w;
    try (apply wf_same_oam_ppu; destruct s; reflexivity).
  - destruct (s_ser_attached s); apply wf_same_oam_ppu; destruct s; reflexivity.
  - (* LCDC *)
    cbv zeta. destruct (lcdc_oam_frame (s_ppu s) (s_oam s) v) as (L1 & L2 & LM). cbv zeta in L1, L2, LM.
    constructor.
    + destruct s; reflexivity.
    + destruct s; exact L1.
    + unfold dww. destruct L2 as (_ & L2 & L3). destruct s; cbn in *. rewrite L2, L3. auto.
    + intros _. destruct s; exact L2.
    + intros X. exfalso. apply X. subst a. reflexivity.
    + intros X. exfalso. apply X. subst a. reflexivity.
    + intros i _. destruct s; cbn in *. rewrite LM. reflexivity.
    + intros _. destruct s; exact L2.
  - constructor; intros; destruct s; try reflexivity; try (repeat split; fail); cbn; auto.
  - constructor; intros; destruct s; try reflexivity; try (repeat split; fail); cbn; auto.
  - constructor; intros; destruct s; try reflexivity; try (repeat split; fail); cbn; auto.
  - constructor; intros; destruct s; try reflexivity; try (repeat split; fail); cbn; auto.
  - constructor; intros; destruct s; try reflexivity; try (repeat split; fail); cbn; auto.
  - constructor; intros; destruct s; try reflexivity; try (repeat split; fail); cbn; auto.
  - constructor; intros; destruct s; try reflexivity; try (repeat split; fail); cbn; auto.
  - constructor; intros; destruct s; try reflexivity; try (repeat split; fail); cbn; auto.
  - constructor; intros; destruct s; try reflexivity; try (repeat split; fail); cbn; auto.
  - constructor; intros; destruct s; try reflexivity; try (repeat split; fail); cbn; auto.
  - constructor; intros; destruct s; try reflexivity; try (repeat split; fail); cbn; auto.
Qed.

Lemma oam_write_flags o a v o' : oam_write o a v = Ok o' -> dww o -> dww o'.
Proof.
  unfold oam_write, dww. intros H D.
  destruct (o_corrupt o); [destruct (o_write o) eqn:W|];
    (destruct (a <? 0xFEA0); [|inversion H; subst; cbn; auto]);
    match type of H with context [put8 ?m ?i ?x] => destruct (put8 m i x) end; cbn [bind] in H; inversion H; subst; cbn; auto.
Qed.

Lemma oam_write_mem o a v o' : oam_write o a v = Ok o' -> 0xFE00 <= a -> a < 65536 ->
  forall i, 0xFE00 + i <> a -> Mem.get (o_mem o') i = Mem.get (o_mem o) i.
Proof.
  intros Eo L U i Hi. revert Eo. unfold oam_write. set (o1 := if o_corrupt o then _ else _).
  assert (M1 : o_mem o1 = o_mem o) by (subst o1; destruct (o_corrupt o); [destruct (o_write o)|]; reflexivity).
  destruct (a <? 0xFEA0) eqn:Ea; [|intros Y; inversion Y; subst; rewrite M1; reflexivity].
  unfold put8, oam_size. destruct (sub16 a 0xFE00 <? 160) eqn:Es; cbn [bind]; [|discriminate].
  intros Y; inversion Y; subst. cbn [o_mem set_mem]. rewrite M1. apply Mem.gso.
  unfold sub16. change 0xFE00 with 65024 in *. lia.
Qed.

Theorem sys_write_frame s a v s' : a < 65536 -> sys_write s a v = Ok s' -> write_frame s a s'.
Proof.
  intros Ha. destruct (decoder_ok a Ha) as [_ D]. unfold sys_write.
  destruct (write_handler a) eqn:E; cbn [handler_okb] in D.
  - destruct (cart_write (s_cart s) a v); cbn [bind]; try discriminate. intros X; inversion X; subst.
    apply wf_same_oam_ppu; destruct s; reflexivity.
  - destruct (ppu_write_vram (s_ppu s) a v) as [p| |] eqn:Ev; cbn [bind]; try discriminate. intros X; inversion X; subst.
    unfold ppu_write_vram in Ev. destruct (sub16 a 32768 <? 8192); [|discriminate]. inversion Ev; subst.
    constructor; intros; destruct s; try reflexivity; try (repeat split; fail); cbn; auto.
  - destruct (arr_set (s_wram s) internalRAM_size (a - base) v); cbn [bind]; try discriminate. intros X; inversion X; subst.
    apply wf_same_oam_ppu; destruct s; reflexivity.
  - destruct (oam_write (s_oam s) a v) as [o'| |] eqn:Eo; cbn [bind]; try discriminate. intros X; inversion X; subst.
    destruct (write_env _ _ _ _ Eo) as [C1 C2].
    constructor.
    + destruct s; reflexivity.
    + destruct s; exact C2.
    + intros Dw. destruct s; cbn in *. eapply oam_write_flags; eassumption.
    + intros X0. exfalso. apply X0. lia.
    + intros _. destruct s; reflexivity.
    + intros _. destruct s; exact C1.
    + intros i Hi. assert (E' : s_oam (set_oam o' s) = o') by (destruct s; reflexivity). rewrite E'.
      apply (oam_write_mem _ _ _ _ Eo); [lia|exact Ha|exact Hi].
    + intros Hc. assert (E' : s_oam (set_oam o' s) = o') by (destruct s; reflexivity). rewrite E'.
      destruct (write_keeps_flags _ _ _ _ Hc Eo) as (K1 & K2 & K3). repeat split; assumption.
  - intros X; inversion X; subst. apply reg_write_frame. apply N.eqb_eq. exact D.
  - intros X; inversion X; subst. apply wf_same_oam_ppu; reflexivity.
  - destruct (apu_bus_write_r (s_apu s) a v); cbn [bind]; try discriminate. intros X; inversion X; subst.
    apply wf_same_oam_ppu; destruct s; reflexivity.
  - destruct (arr_set (s_hram s) zeroPage_size (a - base) v); cbn [bind]; try discriminate. intros X; inversion X; subst.
    apply wf_same_oam_ppu; destruct s; reflexivity.
  - discriminate D.
Qed.

(* ---------------- the predicates of the CPU's bus ---------------- *)
(* inside a machine cycle: accesses may be pending, the PPU's last address is inside OAM *)
Definition Pmid (s : sys) : Prop :=
  bus_inv s /\ s_crash s = None /\ pla_in_oam (s_oam s) /\ dww (s_oam s).
(* at the end of a machine cycle: Corrupt() has cleared the pending accesses *)
Definition Pend (s : sys) : Prop :=
  bus_inv s /\ s_crash s = None /\ pla_in_oam (s_oam s) /\ flags_off (s_oam s).

Lemma Pend_Pmid s : Pend s -> Pmid s.
Proof. intros (A & B & C & D). split; [exact A|]. split; [exact B|]. split; [exact C|apply flags_off_dww, D]. Qed.

Lemma ints_ime_bytes i v : ints_bytes i -> ints_bytes (ints_set_ime i v). Proof. exact (fun H => H). Qed.
Lemma ints_ack_bytes i n : ints_bytes i -> ints_bytes (ints_ack i n).
Proof.
  intros [A B]. split; [exact A|]. cbn. pose proof (ldiff_lt_pow2 (ifl i) (N.shiftl 1 n) 5) as Q. change (2 ^ 5) with 32 in Q. auto.
Qed.

Lemma bus_rd_mid s a : Pmid s -> a < 65536 -> Pmid (fst (bus_rd s a)) /\ snd (bus_rd s a) < 256.
Proof.
  intros (H & Hc & Hp & Hd) Ha. unfold bus_rd. rewrite Hc.
  destruct (sys_read_safe s a H Ha) as (s' & v & -> & Hv & H' & (o' & -> & _ & _ & E2 & E3 & E4 & _) & _).
  cbn [fst snd]. split; [|exact Hv].
  split; [exact H'|]. split; [destruct s; exact Hc|]. destruct s; cbn in *.
  split; [unfold pla_in_oam; rewrite E2; exact Hp|unfold dww; rewrite E3, E4; exact Hd].
Qed.

Lemma bus_wr_mid s a v : Pmid s -> a < 65536 -> v < 256 -> Pmid (bus_wr s a v).
Proof.
  intros (H & Hc & Hp & Hd) Ha Hv. unfold bus_wr. rewrite Hc.
  destruct (sys_write_safe s a v H Ha Hv) as (s' & E & H'). rewrite E.
  destruct (sys_write_frame s a v s' Ha E) as [F1 F2 F3 _ _].
  split; [exact H'|]. split; [congruence|]. split; [unfold pla_in_oam; rewrite F2; exact Hp|apply F3, Hd].
Qed.

Lemma bus_trig_inv s a : bus_inv s -> bus_inv (bus_trig s a).
Proof.
  intros H. unfold bus_trig. destruct (trigger_env a (s_oam s)) as [C1 C2].
  apply bi_set_oam; [exact H|apply (lcd_inv_env _ _ _ (BI_lcd _ H)); assumption|apply oam_trigger_inv, (BI_oam _ H)].
Qed.

Lemma bus_trig_mid s a : Pmid s -> Pmid (bus_trig s a).
Proof.
  intros (H & Hc & Hp & Hd). split; [apply bus_trig_inv, H|]. unfold bus_trig.
  destruct (trigger_env a (s_oam s)) as [C1 C2].
  split; [destruct s; exact Hc|]. destruct s as [xi xo xp xc xj xt xa xw xh xs xsa xf xsm xcr]; cbn in *.
  split; [unfold pla_in_oam; rewrite C2; exact Hp|].
  unfold dww, oam_trigger_write_corruption in *.
  destruct (negb (o_corrupt xo) || (a <? 65024) || (65279 <? a)); [exact Hd|].
  destruct (o_write xo) eqn:W; cbn; auto.
Qed.

Lemma bus_set_ime_inv s v : bus_inv s -> bus_inv (bus_set_ime s v).
Proof. intros H. unfold bus_set_ime. apply bi_set_ints; [exact H|apply ints_ime_bytes, (BI_ints _ H)]. Qed.
Lemma bus_ack_inv s n : bus_inv s -> bus_inv (bus_ack s n).
Proof. intros H. unfold bus_ack. apply bi_set_ints; [exact H|apply ints_ack_bytes, (BI_ints _ H)]. Qed.

Lemma bus_set_ime_mid s v : Pmid s -> Pmid (bus_set_ime s v).
Proof. intros (H & Hc & Hp & Hd). split; [apply bus_set_ime_inv, H|]. destruct s; exact (conj Hc (conj Hp Hd)). Qed.
Lemma bus_ack_mid s n : Pmid s -> Pmid (bus_ack s n).
Proof. intros (H & Hc & Hp & Hd). split; [apply bus_ack_inv, H|]. destruct s; exact (conj Hc (conj Hp Hd)). Qed.
Lemma bus_set_ime_end s v : Pend s -> Pend (bus_set_ime s v).
Proof. intros (H & Hc & Hp & Hd). split; [apply bus_set_ime_inv, H|]. destruct s; exact (conj Hc (conj Hp Hd)). Qed.

Lemma bus_corrupt_end s : Pmid s -> Pend (bus_corrupt s).
Proof.
  intros (H & Hc & Hp & Hd). unfold bus_corrupt. rewrite Hc.
  destruct (oam_corrupt_safe (s_oam s) Hp) as (o' & E & R1 & R2 & R3 & R4 & _). rewrite E.
  assert (Ho : oam_inv o') by (eapply oam_corrupt_inv; [exact E|apply (BI_oam _ H)]).
  split; [apply bi_set_oam; [exact H|apply (lcd_inv_env _ _ _ (BI_lcd _ H)); assumption|exact Ho]|].
  split; [destruct s; exact Hc|]. destruct s as [xi xo xp xc xj xt xa xw xh xs xsa xf xsm xcr]; cbn in *.
  split; [unfold pla_in_oam; rewrite R4; exact Hp|].
  unfold flags_off. split; [exact R1|].
  destruct (o_read xo) eqn:Er; [apply R2; auto|].
  destruct (o_write xo) eqn:Ew; [apply R2; auto|].
  (* neither flag set: Corrupt() is the identity *)
  rewrite (oam_corrupt_idle xo Er Ew) in E. inversion E; subst o'.
  split; [exact Ew|]. destruct (o_doubleWrite xo) eqn:Ed; [|reflexivity]. specialize (Hd Ed). congruence.
Qed.

(* ---------------- the regenerated opcode tables are well-formed ---------------- *)
Definition entry_okb (l : list uop) : bool := match l with [] => false | _ => forallb uop_okb l end.

Definition tables_okb (T : tables) : bool :=
  Nat.eqb (length (t_normal T)) 256 && Nat.eqb (length (t_prefix T)) 256 &&
  forallb entry_okb (t_normal T) && forallb entry_okb (t_prefix T) &&
  forallb (fun op => match lookup_early op (t_early T) with
                     | None => true
                     | Some (_, _, l) => Nat.eqb l (length (nth (N.to_nat op) (t_normal T) []))
                     end) bytes &&
  entry_okb (t_vshort T) && entry_okb (t_short T) && entry_okb (t_long T).

Lemma entry_okb_ok l : entry_okb l = true -> entry_ok l.
Proof.
  unfold entry_okb, entry_ok, uops_ok. destruct l as [|u r]; [discriminate|]. intros H.
  split; [discriminate|]. apply Forall_forall. intros x Hx. rewrite forallb_forall in H. apply H, Hx.
Qed.

Lemma entries_okb_ok t : forallb entry_okb t = true -> Forall entry_ok t.
Proof. intros H. apply Forall_forall. intros x Hx. rewrite forallb_forall in H. apply entry_okb_ok, H, Hx. Qed.

Lemma tables_okb_sound T : tables_okb T = true -> tables_ok T.
Proof.
  unfold tables_okb. intros H.
  repeat match type of H with _ && _ = true => let H2 := fresh "K" in apply andb_prop in H; destruct H as [H H2] end.
  constructor.
  - apply Nat.eqb_eq, H.
  - apply Nat.eqb_eq, K5.
  - apply entries_okb_ok, K4.
  - apply entries_okb_ok, K3.
  - intros op c e l Hop El. pose proof (sweep_bytes _ K2 op Hop) as Q. cbv beta in Q. rewrite El in Q.
    apply Nat.eqb_eq, Q.
  - apply entry_okb_ok, K1.
  - apply entry_okb_ok, K0.
  - apply entry_okb_ok, K.
Qed.

Lemma gen_tables_ok : tables_ok gen_tables.
Proof. apply tables_okb_sound. vm_compute. reflexivity. Qed.

(* UFatal occurs in the micro-programs of the 11 undefined opcodes and nowhere else *)
Definition undefined_opcodes : list N := [0xD3; 0xDB; 0xDD; 0xE3; 0xE4; 0xEB; 0xEC; 0xED; 0xF4; 0xFC; 0xFD].
Definition is_fatal (u : uop) : bool := match u with UFatal => true | _ => false end.
Definition has_fatal (l : list uop) : bool := existsb is_fatal l.

Lemma has_fatal_in l : In UFatal l -> has_fatal l = true.
Proof. intros H. apply existsb_exists. exists UFatal. split; [exact H|reflexivity]. Qed.

Definition fatal_check (T : tables) : bool :=
  forallb (fun op => (op =? 203) || Bool.eqb (has_fatal (nth (N.to_nat op) (t_normal T) [])) (existsb (N.eqb op) undefined_opcodes)) bytes &&
  forallb (fun op => negb (has_fatal (nth (N.to_nat op) (t_prefix T) []))) bytes &&
  negb (has_fatal (t_vshort T)) && negb (has_fatal (t_short T)) && negb (has_fatal (t_long T)).

Lemma gen_fatal_check : fatal_check gen_tables = true.
Proof. vm_compute. reflexivity. Qed.

(* the micro-program of an undefined opcode is running *)
Definition runs_undefined (c : cpu) : Prop :=
  exists op, In op undefined_opcodes /\ cur c = nth (N.to_nat op) (t_normal gen_tables) [].

Lemma fatal_is_undefined c : from_tables gen_tables (cur c) -> In UFatal (cur c) -> runs_undefined c.
Proof.
  intros Hft Hin. pose proof (has_fatal_in _ Hin) as Hf.
  pose proof gen_fatal_check as G. unfold fatal_check in G.
  repeat match type of G with _ && _ = true => let H2 := fresh "K" in apply andb_prop in G; destruct G as [G H2] end.
  destruct Hft as [E|[(op & Hop & Hcb & E)|[(op & Hop & E)|[E|[E|E]]]]]; rewrite E in Hf.
  - discriminate Hf.
  - pose proof (sweep_bytes _ G op Hop) as Q. cbv beta in Q. rewrite Hf in Q.
    apply N.eqb_neq in Hcb. rewrite Hcb in Q. cbn [orb] in Q.
    destruct (existsb (N.eqb op) undefined_opcodes) eqn:X; [|discriminate Q].
    apply existsb_exists in X. destruct X as (x & Hx & Ex). apply N.eqb_eq in Ex. subst x.
    exists op. split; [exact Hx|exact E].
  - pose proof (sweep_bytes _ K2 op Hop) as Q. cbv beta in Q. rewrite Hf in Q. discriminate Q.
  - rewrite Hf in K1. discriminate K1.
  - rewrite Hf in K0. discriminate K0.
  - rewrite Hf in K. discriminate K.
Qed.

(* ---------------- one machine cycle of the whole machine ---------------- *)
Definition Safe (cs : cpu * sys) : Prop :=
  cwf (fst cs) /\ from_tables gen_tables (cur (fst cs)) /\ fault (fst cs) = None /\ Pend (snd cs).

Definition TrueA (a : N) : Prop := True.

Lemma sys_cpu_cycle_safe c s : Safe (c, s) ->
  cwf (fst (sys_cpu_cycle (c, s))) /\ from_tables gen_tables (cur (fst (sys_cpu_cycle (c, s)))) /\
  Pend (snd (sys_cpu_cycle (c, s))) /\ outcome_ok (fst (sys_cpu_cycle (c, s))).
Proof.
  intros (H1 & H2 & H3 & H4). cbn [fst snd] in *. unfold sys_cpu_cycle.
  apply (cycle_safe sys bus_rd bus_wr bus_trig bus_ime bus_set_ime bus_pending bus_ack Pmid TrueA TrueA).
  - intros b a Hb Ha _. apply bus_rd_mid; assumption.
  - intros b a v Hb Ha _ Hv. apply bus_wr_mid; assumption.
  - intros b a Hb _ _. apply bus_trig_mid; assumption.
  - intros b v Hb. apply bus_set_ime_mid; assumption.
  - intros b n Hb. apply bus_ack_mid; assumption.
  - exact Pend_Pmid.
  - intros b v Hb. apply bus_set_ime_end; assumption.
  - exact bus_corrupt_end.
  - exact gen_tables_ok.
  - intros a. exact I.
  - intros a. exact I.
  - exact H1.
  - exact H2.
  - exact H4.
  - exact H3.
Qed.

(* hardware steps keep the end-of-cycle predicate *)
Lemma Pend_hw s s' : Pend s -> bus_inv s' -> hw_keeps s s' -> Pend s'.
Proof.
  intros (_ & Hc & Hp & (F1 & F2 & F3)) H' (K1 & (K2 & K3 & K4) & K5).
  split; [exact H'|]. split; [congruence|]. split; [apply K5, Hp|]. unfold flags_off. repeat split; congruence.
Qed.

(* outcome of runFrame's loop body on a safe state: a safe state again, or Exit while an undefined opcode runs *)
Definition step_outcome (r : res (cpu * sys * bool)) : Prop :=
  (exists c s t, r = Ok (c, s, t) /\ Safe (c, s)) \/ r = Exit.

Lemma frame_step_safe st c s t : Safe (c, s) ->
  (exists c' s' t', frame_step_run st (c, s, t) = Ok (c', s', t') /\ Safe (c', s')) \/
  (st = FCpu /\ frame_step_run st (c, s, t) = Exit /\ runs_undefined (fst (sys_cpu_cycle (c, s)))).
Proof.
  intros HS. destruct st.
  - (* the CPU *)
    destruct (sys_cpu_cycle_safe c s HS) as (C1 & C2 & C3 & C4). cbn [frame_step_run].
    destruct C3 as (B1 & B2 & B3 & B4). rewrite B2.
    destruct C4 as [E|[E F]]; rewrite E.
    + left. eexists; eexists; eexists. split; [reflexivity|].
      split; [exact C1|]. split; [exact C2|]. split; [exact E|]. split; [exact B1|]. split; [exact B2|]. split; assumption.
    + right. split; [reflexivity|]. split; [reflexivity|]. apply fatal_is_undefined; assumption.
  - destruct HS as (H1 & H2 & H3 & H4). cbn [fst snd] in *.
    destruct (hw_step_safe FPpu c s t ltac:(discriminate) (proj1 H4)) as (s' & t' & E & H' & K & _).
    left. exists c, s', t'. split; [exact E|]. split; [exact H1|]. split; [exact H2|]. split; [exact H3|eapply Pend_hw; eassumption].
  - destruct HS as (H1 & H2 & H3 & H4). cbn [fst snd] in *.
    destruct (hw_step_safe FMapper c s t ltac:(discriminate) (proj1 H4)) as (s' & t' & E & H' & K & _).
    left. exists c, s', t'. split; [exact E|]. split; [exact H1|]. split; [exact H2|]. split; [exact H3|eapply Pend_hw; eassumption].
  - destruct HS as (H1 & H2 & H3 & H4). cbn [fst snd] in *.
    destruct (hw_step_safe FAudio c s t ltac:(discriminate) (proj1 H4)) as (s' & t' & E & H' & K & _).
    left. exists c, s', t'. split; [exact E|]. split; [exact H1|]. split; [exact H2|]. split; [exact H3|eapply Pend_hw; eassumption].
  - destruct HS as (H1 & H2 & H3 & H4). cbn [fst snd] in *.
    destruct (hw_step_safe FTimer c s t ltac:(discriminate) (proj1 H4)) as (s' & t' & E & H' & K & _).
    left. exists c, s', t'. split; [exact E|]. split; [exact H1|]. split; [exact H2|]. split; [exact H3|eapply Pend_hw; eassumption].
  - destruct HS as (H1 & H2 & H3 & H4). cbn [fst snd] in *.
    destruct (hw_step_safe FTimerIrq c s t ltac:(discriminate) (proj1 H4)) as (s' & t' & E & H' & K & _).
    left. exists c, s', t'. split; [exact E|]. split; [exact H1|]. split; [exact H2|]. split; [exact H3|eapply Pend_hw; eassumption].
Qed.

Lemma exit_fold l : fold_left (fun r st => do x <- r; frame_step_run st x) l Exit = Exit.
Proof. induction l as [|st l IH]; cbn [fold_left bind]; [reflexivity|exact IH]. Qed.

(* the steps after the CPU's: hardware only *)
Lemma hw_only_steps l : Forall (fun st => st <> FCpu) l -> forall c s t, Safe (c, s) ->
  exists c' s' t', fold_left (fun r st => do x <- r; frame_step_run st x) l (Ok (c, s, t)) = Ok (c', s', t') /\ Safe (c', s').
Proof.
  induction l as [|st l IH]; intros Hl c s t HS; cbn [fold_left].
  - exists c, s, t. split; [reflexivity|exact HS].
  - inversion Hl; subst. cbn [bind].
    destruct (frame_step_safe st c s t HS) as [(c' & s' & t' & E & HS')|(E0 & _)]; [|congruence].
    rewrite E. apply IH; assumption.
Qed.

(* runFrame's loop body as regenerated from gameboy.go: the CPU first, then hardware steps *)
Lemma frame_body_shape : exists tl, frame_body = FCpu :: tl /\ Forall (fun st => st <> FCpu) tl /\ In FPpu tl.
Proof.
  eexists. split; [reflexivity|]. split; [repeat constructor; discriminate|cbn; tauto].
Qed.

Theorem sys_cycle_safe cs : Safe cs ->
  (exists cs', sys_cycle cs = Ok cs' /\ Safe cs') \/
  (sys_cycle cs = Exit /\ runs_undefined (fst (sys_cpu_cycle cs))).
Proof.
  intros HS. destruct cs as [c s]. unfold sys_cycle. cbn [fst snd].
  destruct frame_body_shape as (tl & -> & Htl & _). cbn [fold_left bind].
  destruct (frame_step_safe FCpu c s false HS) as [(c' & s' & t' & E & HS')|(_ & E & U)]; rewrite E.
  - destruct (hw_only_steps tl Htl c' s' t' HS') as (c2 & s2 & t2 & E2 & HS2). rewrite E2. cbn [bind fst snd].
    left. exists (c2, s2). split; [reflexivity|exact HS2].
  - rewrite exit_fold. cbn [bind]. right. split; [reflexivity|exact U].
Qed.

(* ---------------- the first machine cycle after power-on ----------------
   Before the PPU has ticked, OAM.ppuLastAccess is 0 and Corrupt() would index OAM at 512: the first machine cycle
   must not reach OAM.  It cannot: it executes the first micro-operation of the opcode at 0x0100 with the power-on
   registers, none of which points into FE00-FEFF (nor at LCDC).  After it the PPU ticks with the LCD on and the
   address lies in OAM for good. *)
Definition Af (a : N) : Prop := ~ (0xFE00 <= a /\ a <= 0xFEFF) /\ a <> 0xFF40.
Definition afb (a : N) : bool := negb ((0xFE00 <=? a) && (a <=? 0xFEFF)) && negb (a =? 0xFF40).
Lemma afb_ok a : afb a = true -> Af a.
Proof. unfold afb, Af. change 0xFE00 with 65024. change 0xFEFF with 65279. change 0xFF40 with 65344. lia. Qed.

Definition Pf (s : sys) : Prop :=
  bus_inv s /\ s_crash s = None /\ flags_off (s_oam s) /\ p_enabled (s_ppu s) = true.

Lemma set_oam_same s : set_oam (s_oam s) s = s. Proof. destruct s; reflexivity. Qed.

Lemma bus_rd_f s a : Pf s -> a < 65536 -> Af a -> Pf (fst (bus_rd s a)) /\ snd (bus_rd s a) < 256.
Proof.
  intros (H & Hc & Hfl & He) Ha [A1 _]. unfold bus_rd. rewrite Hc.
  destruct (sys_read_safe s a H Ha) as (s' & v & -> & Hv & _ & _ & Pure). cbn [fst snd].
  rewrite (Pure A1). split; [|exact Hv]. split; [exact H|]. split; [exact Hc|]. split; assumption.
Qed.

Lemma bus_wr_f s a v : Pf s -> a < 65536 -> Af a -> v < 256 -> Pf (bus_wr s a v).
Proof.
  intros (H & Hc & (F1 & F2 & F3) & He) Ha [A1 A2] Hv. unfold bus_wr. rewrite Hc.
  destruct (sys_write_safe s a v H Ha Hv) as (s' & E & H'). rewrite E.
  destruct (sys_write_frame s a v s' Ha E) as [W1 _ _ W4 W5]. destruct (W4 A1) as (G1 & G2 & G3).
  split; [exact H'|]. split; [congruence|]. split; [unfold flags_off; repeat split; congruence|]. rewrite (W5 A2). exact He.
Qed.

Lemma bus_trig_f s a : Pf s -> Af a -> Pf (bus_trig s a).
Proof.
  intros HP [A1 _]. unfold bus_trig.
  assert (E : oam_trigger_write_corruption (s_oam s) a = s_oam s).
  { unfold oam_trigger_write_corruption.
    assert (X : negb (o_corrupt (s_oam s)) || (a <? 0xFE00) || (0xFEFF <? a) = true).
    { change 0xFE00 with 65024 in *. change 0xFEFF with 65279 in *. destruct (o_corrupt (s_oam s)); cbn [negb orb]; lia. }
    rewrite X. reflexivity. }
  rewrite E, set_oam_same. exact HP.
Qed.

Lemma bus_set_ime_f s v : Pf s -> Pf (bus_set_ime s v).
Proof. intros (H & Hc & Hfl & He). split; [apply bus_set_ime_inv, H|]. destruct s; exact (conj Hc (conj Hfl He)). Qed.
Lemma bus_ack_f s n : Pf s -> Pf (bus_ack s n).
Proof. intros (H & Hc & Hfl & He). split; [apply bus_ack_inv, H|]. destruct s; exact (conj Hc (conj Hfl He)). Qed.

Lemma bus_corrupt_f s : Pf s -> Pf (bus_corrupt s).
Proof.
  intros HP. pose proof HP as (H & Hc & (F1 & F2 & F3) & He). unfold bus_corrupt. rewrite Hc.
  rewrite (oam_corrupt_idle _ F1 F2), set_oam_same. exact HP.
Qed.

(* the power-on registers with the program counter after the opcode fetch *)
Definition fresh_cpu (pcv : N) : cpu :=
  mkCpu 1 0 19 0 216 176 1 77 65534 pcv false false false false 0 0 0 0 [] 0%nat None false None [].

Lemma uop_addrs_regs u s s' :
  pc s' = pc s -> rh s' = rh s -> rl s' = rl s -> rb s' = rb s -> rc s' = rc s -> rd s' = rd s -> re s' = re s ->
  sp s' = sp s -> u8a s' = u8a s -> u8b s' = u8b s -> uop_addrs u s' = uop_addrs u s.
Proof.
  intros E1 E2 E3 E4 E5 E6 E7 E8 E9 E10.
  destruct u; try destruct p; try destruct s0; cbn [uop_addrs get_rp]; unfold hl, bc, de, imm16;
    rewrite ?E1, ?E2, ?E3, ?E4, ?E5, ?E6, ?E7, ?E8, ?E9, ?E10; reflexivity.
Qed.

Lemma uop_waddrs_sub u s a : In a (uop_waddrs u s) -> In a (uop_addrs u s).
Proof.
  destruct u; try destruct p; cbn [uop_waddrs uop_addrs In get_rp]; tauto.
Qed.

Definition first_ok (l : list uop) : bool :=
  match l with
  | [] => true
  | u :: _ => forallb afb (uop_addrs u (fresh_cpu 257)) && forallb afb (uop_addrs u (fresh_cpu 258))
  end.

Lemma first_uops_check :
  forallb first_ok (t_normal gen_tables) && forallb first_ok (t_prefix gen_tables) &&
  first_ok (t_vshort gen_tables) && first_ok (t_short gen_tables) && first_ok (t_long gen_tables) = true.
Proof. vm_compute. reflexivity. Qed.

Lemma first_ok_from_tables l : from_tables gen_tables l -> first_ok l = true.
Proof.
  pose proof first_uops_check as G.
  repeat match type of G with _ && _ = true => let H2 := fresh "K" in apply andb_prop in G; destruct G as [G H2] end.
  rewrite forallb_forall in G, K2.
  intros [->|[(op & Hop & _ & ->)|[(op & Hop & ->)|[->|[->| ->]]]]]; try assumption; try reflexivity.
  - apply G. apply nth_In. rewrite (TO_nlen _ gen_tables_ok). lia.
  - apply K2. apply nth_In. rewrite (TO_plen _ gen_tables_ok). lia.
Qed.

Lemma Pf_Pf s : Pf s -> Pf s. Proof. exact (fun H => H). Qed.

(* the first micro-operation of any table entry, started from the power-on registers, keeps clear of OAM and LCDC *)
Lemma first_uop_af (s1 : cpu) (cb : bool) u a :
  from_tables gen_tables (cur s1) -> cyc s1 = 0%nat -> nth_error (cur s1) (cyc s1) = Some u ->
  ra s1 = 1 -> rb s1 = 0 -> rc s1 = 19 -> rd s1 = 0 -> re s1 = 216 -> rf s1 = 176 -> rh s1 = 1 -> rl s1 = 77 -> sp s1 = 65534 ->
  u8a s1 = 0 -> u8b s1 = 0 ->
  pc s1 = (if cb then 258 else 257) ->
  In a (uop_addrs u s1) -> Af a.
Proof.
  intros Hft Hc Hu E1 E2 E3 E4 E5 E6 E7 E8 E9 E10 E11 Epc Ha. rewrite Hc in Hu.
  pose proof (first_ok_from_tables _ Hft) as Q. unfold first_ok in Q.
  destruct (cur s1) as [|u0 rest]; [discriminate Hu|]. cbn [nth_error] in Hu. inversion Hu; subst u0.
  apply andb_prop in Q. destruct Q as [Q1 Q2]. rewrite forallb_forall in Q1, Q2.
  apply afb_ok. destruct cb.
  - apply Q2. rewrite (uop_addrs_regs u s1 (fresh_cpu 258)); [exact Ha|..]; cbn [fresh_cpu pc rh rl rb rc rd re sp u8a u8b]; congruence.
  - apply Q1. rewrite (uop_addrs_regs u s1 (fresh_cpu 257)); [exact Ha|..]; cbn [fresh_cpu pc rh rl rb rc rd re sp u8a u8b]; congruence.
Qed.

Lemma first_cpu_cycle s : Pf s -> bus_pending s = 0 ->
  let r := sys_cpu_cycle (cpu_init, s) in
  cwf (fst r) /\ from_tables gen_tables (cur (fst r)) /\ Pf (snd r) /\ outcome_ok (fst r).
Proof.
  intros HP Hpend. cbv zeta. unfold sys_cpu_cycle.
  (* the cycle from the power-on CPU is: fetch at 0x0100, then the first micro-operation *)
  assert (Ecyc : cycle gen_tables sys bus_rd bus_wr bus_trig bus_corrupt bus_ime bus_set_ime bus_pending bus_ack (cpu_init, s) =
                 run_uop sys bus_rd bus_wr bus_trig bus_ime bus_set_ime bus_pending bus_ack bus_corrupt
                         (fst (fetch gen_tables sys bus_rd cpu_init s)) (snd (fetch gen_tables sys bus_rd cpu_init s))).
  { unfold cycle, next, check_interrupts, run_uop. cbn [fst snd fault cpu_init is_finished early cyc cur length Nat.eqb].
    rewrite Hpend. cbn [N.eqb fst snd eip set_eip halted stopped orb cpu_init]. reflexivity. }
  rewrite Ecyc. clear Ecyc.
  pose proof (fetch_safe sys bus_rd bus_wr bus_trig bus_ime bus_set_ime bus_pending bus_ack Pf Af Af
                bus_rd_f bus_wr_f (fun b a Hb _ Ha => bus_trig_f b a Hb Ha) bus_set_ime_f bus_ack_f gen_tables bus_corrupt Pf
                Pf_Pf bus_set_ime_f bus_corrupt_f cpu_init s gen_tables_ok) as F.
  assert (R0 : rwf cpu_init) by (unfold rwf, cpu_init, AluSweeps.wf_f; cbn; lia).
  specialize (F R0 HP).
  assert (A1 : Af (pc cpu_init)) by (apply afb_ok; reflexivity).
  assert (A2 : Af (add16 (pc cpu_init) 1)) by (apply afb_ok; reflexivity).
  specialize (F A1 A2).
  destruct F as (F1 & F2 & (F3a & F3b) & F4 & F5 & F6 & (G1 & G2 & G3 & G4 & G5 & G6 & G7 & G8 & G9) & U1 & U2 & U3 & U4 & _ & _ & Fpc).
  set (s1 := fst (fetch gen_tables sys bus_rd cpu_init s)) in *.
  set (b1 := snd (fetch gen_tables sys bus_rd cpu_init s)) in *.
  specialize (Fpc eq_refl).
  destruct (run_uop_safe sys bus_rd bus_wr bus_trig bus_ime bus_set_ime bus_pending bus_ack Pf Af Af
              bus_rd_f bus_wr_f (fun b a Hb _ Ha => bus_trig_f b a Hb Ha) bus_set_ime_f bus_ack_f bus_corrupt Pf
              Pf_Pf bus_set_ime_f bus_corrupt_f s1 b1 F1 F2) as (R1 & R2 & R3 & R4 & R5).
  - rewrite F3b. destruct (cur s1); [congruence|cbn; lia].
  - exact F4.
  - rewrite F5. reflexivity.
  - (* the first micro-operation reaches neither OAM nor LCDC *)
    intros u Hu a Ha. eapply first_uop_af; try eassumption; try reflexivity.
  - intros u Hu a Ha0. pose proof (uop_waddrs_sub _ _ _ Ha0) as Ha.
    eapply first_uop_af; try eassumption; try reflexivity.
  - split; [split; assumption|]. split; [rewrite R3; exact F6|]. split; assumption.
Qed.

Definition Fresh (cs : cpu * sys) : Prop := fst cs = cpu_init /\ Pf (snd cs) /\ bus_pending (snd cs) = 0.

Lemma frame_body_shape2 : exists tl, frame_body = FCpu :: FPpu :: tl /\ Forall (fun st => st <> FCpu) tl.
Proof. eexists. split; [reflexivity|]. repeat constructor; discriminate. Qed.

Theorem first_cycle_safe cs : Fresh cs ->
  (exists cs', sys_cycle cs = Ok cs' /\ Safe cs') \/
  (sys_cycle cs = Exit /\ runs_undefined (fst (sys_cpu_cycle cs))).
Proof.
  intros (Ec & HP & Hpend). destruct cs as [c s]. cbn [fst snd] in *. subst c.
  unfold sys_cycle. cbn [fst snd].
  destruct frame_body_shape2 as (tl & -> & Htl). cbn [fold_left bind].
  destruct (first_cpu_cycle s HP Hpend) as (C1 & C2 & C3 & C4). cbv zeta in C1, C2, C3, C4.
  cbn [frame_step_run]. destruct C3 as (B1 & B2 & B3 & B4). rewrite B2.
  destruct C4 as [E|[E F]]; rewrite E.
  - (* the CPU step went through: the PPU step, then the remaining hardware steps *)
    cbn [bind].
    destruct (hw_step_safe FPpu (fst (sys_cpu_cycle (cpu_init, s))) (snd (sys_cpu_cycle (cpu_init, s))) false
                           ltac:(discriminate) B1) as (s' & t' & E2 & H' & K & L).
    rewrite E2. destruct K as (K1 & (K2 & K3 & K4) & K5). specialize (L eq_refl B4).
    assert (HS : Safe (fst (sys_cpu_cycle (cpu_init, s)), s')).
    { unfold Safe, Pend. cbn [fst snd]. split; [exact C1|]. split; [exact C2|]. split; [exact E|]. split; [exact H'|]. split; [congruence|]. split; [exact L|].
      destruct B3 as (F1 & F2 & F3). unfold flags_off. repeat split; congruence. }
    destruct (hw_only_steps tl Htl _ _ t' HS) as (c2 & s2 & t2 & E3 & HS2). rewrite E3. cbn [bind fst snd].
    left. exists (c2, s2). split; [reflexivity|exact HS2].
  - rewrite exit_fold. cbn [bind]. right. split; [reflexivity|]. apply fatal_is_undefined; assumption.
Qed.

(* ---------------- runs of any length ---------------- *)
Definition run_ok (n : nat) (cs : cpu * sys) : Prop :=
  (exists cs', sys_cycles n cs = Ok cs' /\ Safe cs') \/
  (sys_cycles n cs = Exit /\
   exists k cs1, (k < n)%nat /\ sys_cycles k cs = Ok cs1 /\ sys_cycle cs1 = Exit /\ runs_undefined (fst (sys_cpu_cycle cs1))).

Lemma run_ok_step n cs cs' : sys_cycle cs = Ok cs' -> run_ok n cs' -> 
  (exists cs2, sys_cycles (S n) cs = Ok cs2 /\ Safe cs2) \/
  (sys_cycles (S n) cs = Exit /\
   exists k cs1, (k < S n)%nat /\ sys_cycles k cs = Ok cs1 /\ sys_cycle cs1 = Exit /\ runs_undefined (fst (sys_cpu_cycle cs1))).
Proof.
  intros E [(cs2 & E2 & HS2)|(E2 & k & cs1 & Hk & Ek & Ex & U)]; cbn [sys_cycles]; rewrite E; cbn [bind].
  - left. exists cs2. split; assumption.
  - right. split; [exact E2|]. exists (S k), cs1. split; [lia|]. split; [cbn [sys_cycles]; rewrite E; exact Ek|]. split; assumption.
Qed.

Theorem run_safe n : forall cs, Safe cs -> run_ok n cs.
Proof.
  induction n as [|n IH]; intros cs HS.
  - left. exists cs. split; [reflexivity|exact HS].
  - destruct (sys_cycle_safe cs HS) as [(cs' & E & HS')|(E & U)].
    + apply (run_ok_step n cs cs' E). apply IH, HS'.
    + right. split; [cbn [sys_cycles]; rewrite E; reflexivity|].
      exists 0%nat, cs. split; [lia|]. split; [reflexivity|]. split; assumption.
Qed.

Theorem run_from_power_on n cs0 : Fresh cs0 -> 
  (exists cs, sys_cycles n cs0 = Ok cs) \/
  (sys_cycles n cs0 = Exit /\
   exists k cs1, (k < n)%nat /\ sys_cycles k cs0 = Ok cs1 /\ sys_cycle cs1 = Exit /\ runs_undefined (fst (sys_cpu_cycle cs1))).
Proof.
  intros HF. destruct n as [|n]; [left; exists cs0; reflexivity|].
  destruct (first_cycle_safe cs0 HF) as [(cs' & E & HS')|(E & U)].
  - destruct (run_ok_step n cs0 cs' E (run_safe n cs' HS')) as [(cs2 & E2 & _)|X]; [left; exists cs2; exact E2|right; exact X].
  - right. split; [cbn [sys_cycles]; rewrite E; reflexivity|].
    exists 0%nat, cs0. split; [lia|]. split; [reflexivity|]. split; assumption.
Qed.

(* construction yields a fresh machine *)
Lemma sys_new_fresh img ser aud cs : img_bytes img -> sys_new img ser aud = Ok cs -> Fresh cs.
Proof.
  intros Hi E. destruct (sys_new_inv img ser aud cs Hi E) as [E1 H0].
  unfold sys_new in E. destruct (cart_construct img) as [c| |]; cbn [bind] in E; try discriminate.
  cbv zeta in E. injection E as <-. cbn [fst snd] in *.
  split; [reflexivity|]. split; [|reflexivity].
  split; [exact H0|]. split; [reflexivity|]. split; [repeat split|reflexivity].
Qed.

(* C11, whole machine *)
Theorem whole_machine_safe img ser aud : img_bytes img ->
  (exists w, sys_new img ser aud = Crash w) \/
  (exists cs0, sys_new img ser aud = Ok cs0 /\
     forall n,
       (exists cs, sys_cycles n cs0 = Ok cs) \/
       (sys_cycles n cs0 = Exit /\
        exists k cs1, (k < n)%nat /\ sys_cycles k cs0 = Ok cs1 /\ sys_cycle cs1 = Exit /\
                      runs_undefined (fst (sys_cpu_cycle cs1)))).
Proof.
  intros Hi. destruct (sys_new img ser aud) as [cs| |] eqn:E.
  - right. exists cs. split; [reflexivity|]. intros n. apply run_from_power_on. eapply sys_new_fresh; eassumption.
  - left. eexists; reflexivity.
  - exfalso. exact (sys_new_not_exit img ser aud E).
Qed.
