(* ApuLemmas.v — tactics and structural lemmas shared by the APU proofs:
   projection/setter simplification, the "readable view" of a state and its preservation by every tick function,
   arithmetic facts about the clocks. *)
From V.lib Require Import Bits Mem Res.
From V.model Require Import Apu.
From Coq Require Import ZArith ZifyN ZifyNat ZifyBool.

(* simplify record projections applied to setters, and nothing else *)
Ltac psimpl :=
  cbn [swPeriod swIncrease swShift swEnabled swDescending swTimer swShadow sqDuty sqLength sqInitVol sqEnvInc sqEnvSweep sqFreq sqLenEn sqEnabled sqDac sqDutyIdx sqVolume sqTimer sqEnvTimer sqTriggered wvLength wvOutLevel wvFreq wvLenEn wvRam wvEnabled wvDac wvTimer wvOutShift wvPosition wvLastAcc wvSampleBuf wvSampleTimer wvTriggered nsLength nsInitVol nsEnvInc nsEnvSweep nsShift nsWidth nsDivisor nsLenEn nsEnabled nsDac nsVolume nsTimer nsEnvTimer nsLfsr nsTriggered ctOn ct1R ct2R ct3R ct4R ct1L ct2L ct3L ct4L ctVinL ctVolL ctVinR ctVolR attached ch1 sw1 ch2 ch3 ch4 ctl ticks fseq set_swPeriod set_swIncrease set_swShift set_swEnabled set_swDescending set_swTimer set_swShadow set_sqDuty set_sqLength set_sqInitVol set_sqEnvInc set_sqEnvSweep set_sqFreq set_sqLenEn set_sqEnabled set_sqDac set_sqDutyIdx set_sqVolume set_sqTimer set_sqEnvTimer set_sqTriggered set_wvLength set_wvOutLevel set_wvFreq set_wvLenEn set_wvRam set_wvEnabled set_wvDac set_wvTimer set_wvOutShift set_wvPosition set_wvLastAcc set_wvSampleBuf set_wvSampleTimer set_wvTriggered set_nsLength set_nsInitVol set_nsEnvInc set_nsEnvSweep set_nsShift set_nsWidth set_nsDivisor set_nsLenEn set_nsEnabled set_nsDac set_nsVolume set_nsTimer set_nsEnvTimer set_nsLfsr set_nsTriggered set_ctOn set_ct1R set_ct2R set_ct3R set_ct4R set_ct1L set_ct2L set_ct3L set_ct4L set_ctVinL set_ctVolL set_ctVinR set_ctVolR set_attached set_ch1 set_sw1 set_ch2 set_ch3 set_ch4 set_ctl set_ticks set_fseq fst snd].
Ltac psimpl_in H :=
  cbn [swPeriod swIncrease swShift swEnabled swDescending swTimer swShadow sqDuty sqLength sqInitVol sqEnvInc sqEnvSweep sqFreq sqLenEn sqEnabled sqDac sqDutyIdx sqVolume sqTimer sqEnvTimer sqTriggered wvLength wvOutLevel wvFreq wvLenEn wvRam wvEnabled wvDac wvTimer wvOutShift wvPosition wvLastAcc wvSampleBuf wvSampleTimer wvTriggered nsLength nsInitVol nsEnvInc nsEnvSweep nsShift nsWidth nsDivisor nsLenEn nsEnabled nsDac nsVolume nsTimer nsEnvTimer nsLfsr nsTriggered ctOn ct1R ct2R ct3R ct4R ct1L ct2L ct3L ct4L ctVinL ctVolL ctVinR ctVolR attached ch1 sw1 ch2 ch3 ch4 ctl ticks fseq set_swPeriod set_swIncrease set_swShift set_swEnabled set_swDescending set_swTimer set_swShadow set_sqDuty set_sqLength set_sqInitVol set_sqEnvInc set_sqEnvSweep set_sqFreq set_sqLenEn set_sqEnabled set_sqDac set_sqDutyIdx set_sqVolume set_sqTimer set_sqEnvTimer set_sqTriggered set_wvLength set_wvOutLevel set_wvFreq set_wvLenEn set_wvRam set_wvEnabled set_wvDac set_wvTimer set_wvOutShift set_wvPosition set_wvLastAcc set_wvSampleBuf set_wvSampleTimer set_wvTriggered set_nsLength set_nsInitVol set_nsEnvInc set_nsEnvSweep set_nsShift set_nsWidth set_nsDivisor set_nsLenEn set_nsEnabled set_nsDac set_nsVolume set_nsTimer set_nsEnvTimer set_nsLfsr set_nsTriggered set_ctOn set_ct1R set_ct2R set_ct3R set_ct4R set_ct1L set_ct2L set_ct3L set_ct4L set_ctVinL set_ctVolL set_ctVinR set_ctVolR set_attached set_ch1 set_sw1 set_ch2 set_ch3 set_ch4 set_ctl set_ticks set_fseq fst snd] in H.

Ltac break_if :=
  match goal with
  | |- context [if ?b then _ else _] => destruct b eqn:?
  end.
Ltac break_ifs := repeat (break_if; psimpl).

(* case analysis along the sequential address tests of apu_bus_write / apu_bus_read *)
Ltac addr_chain :=
  unfold apu_bus_write;
  repeat match goal with
         | |- context [if ?a =? ?k then _ else _] => destruct (N.eqb_spec a k); [subst a|]
         end.

Definition is_on (s : apu) : bool := ctOn (ctl s).

(* ------------------------------------------------------------------------------------------------- *)
(* the part of the state that register reads NR10-NR51 depend on *)
Definition sq_view (c : square) := (sqDuty c, sqInitVol c, sqEnvInc c, sqEnvSweep c, sqLenEn c).
Definition sw_view (w : sweep) := (swPeriod w, swIncrease w, swShift w).
Definition wv_view (w : wave) := (wvDac w, wvOutLevel w, wvLenEn w).
Definition ns_view (n : noise) :=
  (nsInitVol n, nsEnvInc n, nsEnvSweep n, nsShift n, nsWidth n, nsDivisor n, nsLenEn n).
Definition apu_view (s : apu) :=
  (sq_view (ch1 s), sw_view (sw1 s), sq_view (ch2 s), wv_view (ch3 s), ns_view (ch4 s), ctl s).

(* channel-level tick functions leave the view alone *)
Lemma sq_view_tick_timer c : sq_view (sq_tick_timer c) = sq_view c.
Proof. unfold sq_tick_timer, sq_view. break_ifs; congruence. Qed.
Lemma sq_view_tick_length c : sq_view (sq_tick_length c) = sq_view c.
Proof. unfold sq_tick_length, sq_view. break_ifs; congruence. Qed.
Lemma sq_view_tick_envelope c : sq_view (sq_tick_envelope c) = sq_view c.
Proof. unfold sq_tick_envelope, sq_view. break_ifs; congruence. Qed.
Lemma wv_view_tick_timer w : wv_view (wv_tick_timer w) = wv_view w.
Proof. unfold wv_tick_timer, wv_view. break_ifs; congruence. Qed.
Lemma wv_view_tick_length w : wv_view (wv_tick_length w) = wv_view w.
Proof. unfold wv_tick_length, wv_view. break_ifs; congruence. Qed.
Lemma ns_view_tick_timer n : ns_view (ns_tick_timer n) = ns_view n.
Proof. unfold ns_tick_timer, ns_view. break_ifs; congruence. Qed.
Lemma ns_view_tick_length n : ns_view (ns_tick_length n) = ns_view n.
Proof. unfold ns_tick_length, ns_view. break_ifs; congruence. Qed.
Lemma ns_view_tick_envelope n : ns_view (ns_tick_envelope n) = ns_view n.
Proof. unfold ns_tick_envelope, ns_view. break_ifs; congruence. Qed.

Lemma calc_freq_view c w :
  sq_view (fst (fst (calc_freq c w))) = sq_view c /\ sw_view (snd (fst (calc_freq c w))) = sw_view w.
Proof. unfold calc_freq, sq_view, sw_view. psimpl. break_ifs; split; congruence. Qed.

Lemma sweep_view_tick c w :
  sq_view (fst (ch1_tick_sweep c w)) = sq_view c /\ sw_view (snd (ch1_tick_sweep c w)) = sw_view w.
Proof.
  unfold ch1_tick_sweep.
  destruct (swEnabled w); [|split; reflexivity].
  psimpl.
  destruct (sub8 (swTimer w) 1 =? 0); [|psimpl; split; reflexivity].
  destruct (swPeriod w =? 0) eqn:E; [psimpl; split; reflexivity|].
  set (w0 := set_swTimer (set_swTimer w (sub8 (swTimer w) 1)) (swPeriod w)).
  assert (Hw0 : sw_view w0 = sw_view w) by reflexivity.
  destruct (calc_freq c w0) as [[c1 w1] nf] eqn:E1.
  pose proof (calc_freq_view c w0) as [Hc1 Hw1]. rewrite E1 in Hc1, Hw1. cbn [fst snd] in Hc1, Hw1.
  destruct ((nf <? 2048) && (0 <? swShift w1)).
  - pose proof (calc_freq_view (set_sqFreq c1 nf) (set_swShadow w1 nf)) as [Hc2 Hw2].
    split.
    + rewrite Hc2. rewrite <- Hc1. reflexivity.
    + rewrite Hw2. rewrite <- Hw0, <- Hw1. reflexivity.
  - cbn [fst snd]. split; congruence.
Qed.

(* state-level tick functions leave the view (and the attached flag) alone *)
Lemma view_tick_timers s : apu_view (tick_timers s) = apu_view s.
Proof.
  unfold tick_timers, apu_view.
  repeat match goal with |- context [if ?b then _ else _] => destruct b end; psimpl;
    rewrite ?sq_view_tick_timer, ?wv_view_tick_timer, ?ns_view_tick_timer; reflexivity.
Qed.

Lemma view_tick_lengths s : apu_view (tick_lengths s) = apu_view s.
Proof.
  unfold tick_lengths, apu_view. psimpl.
  rewrite !sq_view_tick_length, wv_view_tick_length, ns_view_tick_length. reflexivity.
Qed.

Lemma view_tick_envelopes s : apu_view (tick_envelopes s) = apu_view s.
Proof.
  unfold tick_envelopes, apu_view. psimpl.
  rewrite !sq_view_tick_envelope, ns_view_tick_envelope. reflexivity.
Qed.

Lemma view_tick_sweep s : apu_view (tick_sweep s) = apu_view s.
Proof.
  unfold tick_sweep, apu_view. psimpl.
  destruct (sweep_view_tick (ch1 s) (sw1 s)) as [H1 H2]. rewrite H1, H2. reflexivity.
Qed.

Lemma view_set_fseq s q : apu_view (set_fseq s q) = apu_view s.
Proof. reflexivity. Qed.
Lemma view_set_ticks s q : apu_view (set_ticks s q) = apu_view s.
Proof. reflexivity. Qed.

Lemma view_tick_frame_sequencer s : apu_view (tick_frame_sequencer s) = apu_view s.
Proof.
  unfold tick_frame_sequencer.
  rewrite view_set_fseq.
  repeat match goal with |- context [if ?b then _ else _] => destruct b end;
    rewrite ?view_tick_sweep, ?view_tick_envelopes, ?view_tick_lengths; reflexivity.
Qed.

Lemma view_tick_clock s : apu_view (fst (apu_tick_clock s)) = apu_view s.
Proof.
  unfold apu_tick_clock. cbn [fst]. rewrite view_set_ticks.
  repeat match goal with |- context [if ?b then _ else _] => destruct b end;
    rewrite ?view_set_fseq, ?view_tick_frame_sequencer, ?view_tick_timers, ?view_set_ticks; reflexivity.
Qed.

Lemma view_clear_triggered s : apu_view (clear_triggered s) = apu_view s.
Proof. reflexivity. Qed.

Lemma end_cycle_unfold s :
  fst (apu_end_machine_cycle s) =
  clear_triggered (fst (apu_tick_clock (fst (apu_tick_clock (fst (apu_tick_clock (fst (apu_tick_clock s)))))))).
Proof.
  unfold apu_end_machine_cycle.
  destruct (apu_tick_clock s) as [s1 o1]; cbn [fst].
  destruct (apu_tick_clock s1) as [s2 o2]; cbn [fst].
  destruct (apu_tick_clock s2) as [s3 o3]; cbn [fst].
  destruct (apu_tick_clock s3) as [s4 o4]; cbn [fst]. reflexivity.
Qed.

Lemma view_end_cycle s : apu_view (fst (apu_end_machine_cycle s)) = apu_view s.
Proof. rewrite end_cycle_unfold, view_clear_triggered, !view_tick_clock. reflexivity. Qed.

(* ------------------------------------------------------------------------------------------------- *)
(* trigger / length helpers of the NRx4 handlers leave the channel views alone *)
Lemma sq_view_extra_len c l t o : sq_view (sq_extra_len c l t o) = sq_view c.
Proof. unfold sq_extra_len, sq_view. break_ifs; congruence. Qed.
Lemma sq_view_trig_len c l o : sq_view (sq_trig_len c l o) = sq_view c.
Proof. unfold sq_trig_len, sq_view. break_ifs; congruence. Qed.
Lemma sq_view_trigger_common c : sq_view (sq_trigger_common c) = sq_view c.
Proof. unfold sq_trigger_common, sq_view. psimpl. break_ifs; congruence. Qed.
Lemma sq_view_dac_check c : sq_view (sq_dac_check c) = sq_view c.
Proof. unfold sq_dac_check, sq_view. break_ifs; congruence. Qed.
Lemma sq_view_ch2_trigger c : sq_view (ch2_trigger c) = sq_view c.
Proof. unfold ch2_trigger. rewrite sq_view_dac_check, sq_view_trigger_common. reflexivity. Qed.

Lemma ch1_trigger_view c w :
  sq_view (fst (ch1_trigger c w)) = sq_view c /\ sw_view (snd (ch1_trigger c w)) = sw_view w.
Proof.
  unfold ch1_trigger.
  set (c0 := sq_trigger_common c).
  set (w0 := set_swEnabled _ _).
  assert (Hw0 : sw_view w0 = sw_view w) by reflexivity.
  assert (Hc0 : sq_view c0 = sq_view c) by apply sq_view_trigger_common.
  cbn [fst snd]. rewrite sq_view_dac_check.
  destruct (0 <? swShift w0).
  - destruct (calc_freq_view c0 w0) as [H1 H2]. split; congruence.
  - cbn [fst snd]. split; congruence.
Qed.

Lemma wv_view_extra_len w l t o : wv_view (wv_extra_len w l t o) = wv_view w.
Proof. unfold wv_extra_len, wv_view. break_ifs; congruence. Qed.
Lemma wv_view_trig_len w l o : wv_view (wv_trig_len w l o) = wv_view w.
Proof. unfold wv_trig_len, wv_view. break_ifs; congruence. Qed.
Lemma wv_view_trigger w : wv_view (wv_trigger w) = wv_view w.
Proof. unfold wv_trigger, wv_corrupt, wv_view. psimpl. break_ifs; congruence. Qed.

Lemma ns_view_extra_len n l t o : ns_view (ns_extra_len n l t o) = ns_view n.
Proof. unfold ns_extra_len, ns_view. break_ifs; congruence. Qed.
Lemma ns_view_trig_len n l o : ns_view (ns_trig_len n l o) = ns_view n.
Proof. unfold ns_trig_len, ns_view. break_ifs; congruence. Qed.
Lemma ns_view_trigger n : ns_view (ns_trigger n) = ns_view n.
Proof. unfold ns_trigger, ns_view. psimpl. break_ifs; congruence. Qed.

Lemma ctl_of_view (x y : apu) : apu_view x = apu_view y -> ctl x = ctl y.
Proof. unfold apu_view. intros H. inversion H. reflexivity. Qed.
Lemma ctl_tick_clock s : ctl (fst (apu_tick_clock s)) = ctl s.
Proof. exact (ctl_of_view _ _ (view_tick_clock s)). Qed.
Lemma ctl_end_cycle s : ctl (fst (apu_end_machine_cycle s)) = ctl s.
Proof. exact (ctl_of_view _ _ (view_end_cycle s)). Qed.
